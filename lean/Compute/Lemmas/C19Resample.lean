import Compute.Model.Resample
import Compute.Lemmas.C19Rng
/-
Lemmas about the resampling model `Model/Resample.lean` (no Mathlib).
-/
namespace Cv.Resample
open Cv Cv.Rng

variable {α β : Type}

/-! ### pick / bootstrap -/

/-- A successful `pick` has the length of the index list and position `j` holds `data[idxs[j]]`. -/
theorem pick_spec {data : Array α} {idxs : List Int} {r : List α} (h : pick data idxs = some r) :
    r.length = idxs.length ∧
      ∀ j (hj : j < r.length) (hj' : j < idxs.length), data[idxs[j].toNat]? = some r[j] := by
  induction idxs generalizing r with
  | nil =>
    simp only [pick, Option.some.injEq] at h
    subst h
    exact ⟨rfl, fun j hj => absurd hj (Nat.not_lt_zero _)⟩
  | cons i is ih =>
    simp only [pick] at h
    rw [Option.bind_eq_some_iff] at h
    obtain ⟨x, hx, h⟩ := h
    rw [Option.map_eq_some_iff] at h
    obtain ⟨xs, hxs, rfl⟩ := h
    obtain ⟨hl, hall⟩ := ih hxs
    refine ⟨by simp [hl], ?_⟩
    intro j hj hj'
    cases j with
    | zero => simpa using hx
    | succ j =>
      simp only [List.getElem_cons_succ]
      exact hall j (by simpa using hj) (by simpa using hj')

/-- `pick` cannot panic when every index is in range. -/
theorem pick_isSome {data : Array α} {idxs : List Int} (h : ∀ i ∈ idxs, i.toNat < data.size) :
    ∃ r, pick data idxs = some r := by
  induction idxs with
  | nil => exact ⟨[], rfl⟩
  | cons i is ih =>
    obtain ⟨r, hr⟩ := ih (fun j hj => h j (List.mem_cons_of_mem _ hj))
    have hi := h i List.mem_cons_self
    refine ⟨data[i.toNat] :: r, ?_⟩
    simp [pick, hr, Array.getElem?_eq_getElem hi]

theorem bootLoop_spec {fuel : Nat} {data : Array α} {k : Nat} {g g' : Rng} {rs : List (List α)}
    (h : bootLoop fuel data k g = some (rs, g')) :
    rs.length = k ∧ ∀ r ∈ rs, r.length = data.size ∧
      ∀ j (hj : j < r.length), ∃ i, ∃ hi : i < data.size, r[j] = data[i] := by
  induction k generalizing g g' rs with
  | zero =>
    simp only [bootLoop, Option.some.injEq, Prod.mk.injEq] at h
    rw [← h.1]; simp
  | succ k ih =>
    simp only [bootLoop] at h
    rw [Option.bind_eq_some_iff] at h
    obtain ⟨⟨idxs, g1⟩, hidx, h⟩ := h
    rw [Option.bind_eq_some_iff] at h
    obtain ⟨r, hr, h⟩ := h
    rw [Option.map_eq_some_iff] at h
    obtain ⟨⟨rs', g2⟩, hrs, he⟩ := h
    simp only [Prod.mk.injEq] at he
    obtain ⟨hl, hall⟩ := ih hrs
    obtain ⟨hil, _⟩ := DiscreteUniform.sampleIntN_spec hidx
    obtain ⟨hrl, hrget⟩ := pick_spec hr
    rw [← he.1]
    refine ⟨by simp [hl], ?_⟩
    intro r' hr'
    rcases List.mem_cons.1 hr' with rfl | hr'
    · refine ⟨by rw [hrl, hil], ?_⟩
      intro j hj
      have hj' : j < idxs.length := by rw [← hrl]; exact hj
      have hget := hrget j hj hj'
      rw [Array.getElem?_eq_some_iff] at hget
      obtain ⟨hi, hget⟩ := hget
      exact ⟨_, hi, hget.symm⟩
    · exact hall r' hr'

/-! ### jackknife -/

theorem leaveOut_eq {data : List α} {i : Nat} (hi : i < data.length) :
    leaveOut data i = some (data.eraseIdx i) := by
  unfold leaveOut
  have hd : data.drop i = data[i] :: data.drop (i + 1) := List.drop_eq_getElem_cons hi
  simp only [hd]
  rw [List.eraseIdx_eq_take_drop_succ]

theorem seqOpt_map_some {γ : Type} (f : γ → Option β) (g : γ → β) (l : List γ)
    (h : ∀ x ∈ l, f x = some (g x)) : seqOpt (l.map f) = some (l.map g) := by
  induction l with
  | nil => rfl
  | cons x xs ih =>
    simp only [List.map_cons, seqOpt]
    rw [h x List.mem_cons_self, ih (fun y hy => h y (List.mem_cons_of_mem _ hy))]
    rfl

/-! ### swaps and shuffles -/

theorem swapAt_perm {xs ys : Array α} {a b : Int} (h : swapAt xs a b = some ys) : ys.toList.Perm xs.toList := by
  unfold swapAt at h
  split at h
  · rename_i hab
    simp only [Option.some.injEq] at h
    rw [← h]
    exact (Array.swap_perm hab.1 hab.2).toList
  · simp at h

theorem swapAt_size {xs ys : Array α} {a b : Int} (h : swapAt xs a b = some ys) : ys.size = xs.size := by
  have := (swapAt_perm h).length_eq
  simpa using this

/-- `swapAt` cannot panic when both indices are in range. -/
theorem swapAt_isSome {xs : Array α} {a b : Int} (ha : a.toNat < xs.size) (hb : b.toNat < xs.size) :
    ∃ ys, swapAt xs a b = some ys := by
  unfold swapAt
  rw [dif_pos ⟨ha, hb⟩]
  exact ⟨_, rfl⟩

theorem shuffleLoop_perm {fuel : Nat} {hi : Int} {k : Nat} {xs ys : Array α} {g g' : Rng}
    (h : shuffleLoop fuel hi k xs g = some (ys, g')) : ys.toList.Perm xs.toList := by
  induction k generalizing xs g with
  | zero =>
    simp only [shuffleLoop, Option.some.injEq, Prod.mk.injEq] at h
    rw [← h.1]
  | succ k ih =>
    simp only [shuffleLoop] at h
    rw [Option.bind_eq_some_iff] at h
    obtain ⟨pa, _, h⟩ := h
    rw [Option.bind_eq_some_iff] at h
    obtain ⟨pb, _, h⟩ := h
    rw [Option.bind_eq_some_iff] at h
    obtain ⟨xs', hsw, h⟩ := h
    exact (ih h).trans (swapAt_perm hsw)

/-- One common transposition applied to two arrays of equal size is a transposition of the array of pairs. -/
theorem swapAt_zip {xs xs' : Array α} {ys ys' : Array β} {a b : Int} (hs : xs.size = ys.size)
    (hx : swapAt xs a b = some xs') (hy : swapAt ys a b = some ys') :
    (xs'.toList.zip ys'.toList).Perm (xs.toList.zip ys.toList) := by
  unfold swapAt at hx hy
  split at hx
  · rename_i hxa
    split at hy
    · rename_i hya
      simp only [Option.some.injEq] at hx hy
      subst hx; subst hy
      have hz : (xs.zip ys).size = xs.size := by simp [Array.size_zip, hs]
      have hswap : (xs.swap a.toNat b.toNat hxa.1 hxa.2).zip (ys.swap a.toNat b.toNat hya.1 hya.2)
          = (xs.zip ys).swap a.toNat b.toNat (by rw [hz]; exact hxa.1) (by rw [hz]; exact hxa.2) := by
        apply Array.ext
        · simp [Array.size_zip]
        · intro i h1 h2
          simp only [Array.getElem_zip, Array.getElem_swap]
          split
          · rfl
          · split <;> rfl
      have hp := (Array.swap_perm (xs := xs.zip ys) (i := a.toNat) (j := b.toNat)
        (by rw [hz]; exact hxa.1) (by rw [hz]; exact hxa.2)).toList
      rw [← hswap] at hp
      simpa [Array.toList_zip] using hp
    · simp at hy
  · simp at hx

theorem shuffleTwoLoop_pairs {fuel : Nat} {hi : Int} {k : Nat} {xs xs' : Array α} {ys ys' : Array β}
    {g g' : Rng} (hs : xs.size = ys.size)
    (h : shuffleTwoLoop fuel hi k xs ys g = some (xs', ys', g')) :
    xs'.size = ys'.size ∧ (xs'.toList.zip ys'.toList).Perm (xs.toList.zip ys.toList) := by
  induction k generalizing xs ys g with
  | zero =>
    simp only [shuffleTwoLoop, Option.some.injEq, Prod.mk.injEq] at h
    rw [← h.1, ← h.2.1]
    exact ⟨hs, List.Perm.refl _⟩
  | succ k ih =>
    simp only [shuffleTwoLoop] at h
    rw [Option.bind_eq_some_iff] at h
    obtain ⟨pa, _, h⟩ := h
    rw [Option.bind_eq_some_iff] at h
    obtain ⟨pb, _, h⟩ := h
    rw [Option.bind_eq_some_iff] at h
    obtain ⟨xs1, hx, h⟩ := h
    rw [Option.bind_eq_some_iff] at h
    obtain ⟨ys1, hy, h⟩ := h
    have hs1 : xs1.size = ys1.size := by rw [swapAt_size hx, swapAt_size hy, hs]
    obtain ⟨hsz, hp⟩ := ih hs1 h
    exact ⟨hsz, hp.trans (swapAt_zip hs hx hy)⟩

/-! ### Nothing but an empty input or an exhausted draw makes the functions fail -/

/-- Failure of a draw: some generator state at which `DiscreteUniform(0, hi).sample` returns `none`. -/
def DrawFails (fuel : Nat) (hi : Int) : Prop := ∃ g : Rng, DiscreteUniform.sampleInt fuel 0 hi g = none

theorem drawN?_none {γ : Type} {f : Rng → Option (γ × Rng)} {n : Nat} {g : Rng}
    (h : drawN? f n g = none) : ∃ g1, f g1 = none := by
  induction n generalizing g with
  | zero => simp [drawN?] at h
  | succ k ih =>
    simp only [drawN?] at h
    rw [Option.bind_eq_none_iff] at h
    cases hf : f g with
    | none => exact ⟨g, hf⟩
    | some p =>
      have := h p hf
      rw [Option.map_eq_none_iff] at this
      exact ih this

theorem shuffleLoop_none {fuel : Nat} {hi : Int} {k : Nat} {xs : Array α} {g : Rng}
    (hsz : (xs.size : Int) = hi + 1) (h : shuffleLoop fuel hi k xs g = none) : DrawFails fuel hi := by
  induction k generalizing xs g with
  | zero => simp [shuffleLoop] at h
  | succ k ih =>
    simp only [shuffleLoop] at h
    rw [Option.bind_eq_none_iff] at h
    cases ha : DiscreteUniform.sampleInt fuel 0 hi g with
    | none => exact ⟨g, ha⟩
    | some pa =>
      have h := h pa ha
      rw [Option.bind_eq_none_iff] at h
      cases hb : DiscreteUniform.sampleInt fuel 0 hi pa.2 with
      | none => exact ⟨pa.2, hb⟩
      | some pb =>
        have h := h pb hb
        rw [Option.bind_eq_none_iff] at h
        have ra := DiscreteUniform.sampleInt_range (show DiscreteUniform.sampleInt fuel 0 hi g = some (pa.1, pa.2) from ha)
        have rb := DiscreteUniform.sampleInt_range (show DiscreteUniform.sampleInt fuel 0 hi pa.2 = some (pb.1, pb.2) from hb)
        obtain ⟨xs', hsw⟩ := swapAt_isSome (xs := xs) (a := pa.1) (b := pb.1) (by omega) (by omega)
        exact ih (by rw [swapAt_size hsw]; exact hsz) (h xs' hsw)

theorem shuffleTwoLoop_none {fuel : Nat} {hi : Int} {k : Nat} {xs : Array α} {ys : Array β} {g : Rng}
    (hx : (xs.size : Int) = hi + 1) (hy : (ys.size : Int) = hi + 1)
    (h : shuffleTwoLoop fuel hi k xs ys g = none) : DrawFails fuel hi := by
  induction k generalizing xs ys g with
  | zero => simp [shuffleTwoLoop] at h
  | succ k ih =>
    simp only [shuffleTwoLoop] at h
    rw [Option.bind_eq_none_iff] at h
    cases ha : DiscreteUniform.sampleInt fuel 0 hi g with
    | none => exact ⟨g, ha⟩
    | some pa =>
      have h := h pa ha
      rw [Option.bind_eq_none_iff] at h
      cases hb : DiscreteUniform.sampleInt fuel 0 hi pa.2 with
      | none => exact ⟨pa.2, hb⟩
      | some pb =>
        have h := h pb hb
        rw [Option.bind_eq_none_iff] at h
        have ra := DiscreteUniform.sampleInt_range (show DiscreteUniform.sampleInt fuel 0 hi g = some (pa.1, pa.2) from ha)
        have rb := DiscreteUniform.sampleInt_range (show DiscreteUniform.sampleInt fuel 0 hi pa.2 = some (pb.1, pb.2) from hb)
        obtain ⟨xs', hsx⟩ := swapAt_isSome (xs := xs) (a := pa.1) (b := pb.1) (by omega) (by omega)
        obtain ⟨ys', hsy⟩ := swapAt_isSome (xs := ys) (a := pa.1) (b := pb.1) (by omega) (by omega)
        have h := h xs' hsx
        rw [Option.bind_eq_none_iff] at h
        exact ih (by rw [swapAt_size hsx]; exact hx) (by rw [swapAt_size hsy]; exact hy) (h ys' hsy)

theorem bootLoop_none {fuel : Nat} {data : Array α} {k : Nat} {g : Rng}
    (h : bootLoop fuel data k g = none) : DrawFails fuel ((data.size : Int) - 1) := by
  induction k generalizing g with
  | zero => simp [bootLoop] at h
  | succ k ih =>
    simp only [bootLoop] at h
    rw [Option.bind_eq_none_iff] at h
    cases hs : DiscreteUniform.sampleIntN fuel 0 ((data.size : Int) - 1) data.size g with
    | none => exact drawN?_none hs
    | some p =>
      have h := h p hs
      rw [Option.bind_eq_none_iff] at h
      obtain ⟨_, hr⟩ := DiscreteUniform.sampleIntN_spec
        (show DiscreteUniform.sampleIntN fuel 0 ((data.size : Int) - 1) data.size g = some (p.1, p.2) from hs)
      obtain ⟨r, hpick⟩ := pick_isSome (data := data) (idxs := p.1) (fun i hi => by have := hr i hi; omega)
      have h := h r hpick
      rw [Option.map_eq_none_iff] at h
      exact ih h

end Cv.Resample
