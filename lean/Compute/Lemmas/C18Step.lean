import Compute.Lemmas.C18Norm
/-
C18 — specification predicates (domain, coherence of the cached sub-samplers) and the per-step lemmas for
each of the 13 distributions, in the uniform encoding `Dist` / `Op` of `Model/DistState.lean`.
-/
set_option linter.unusedSectionVars false
namespace Cv.C18
open Cv.DS
variable {α : Type} [Field α] [LinearOrder α] [IsStrictOrderedRing α] [CastInt α]

/-- The parameter domain of each distribution, as documented (`σ ≥ 0`, `α, β, λ, x_m > 0`, `lower ≤ upper`,
`p ∈ [0, 1]`, `dof > 0`), on constructor arguments of the right shape. -/
def InDomain : Kind → List (Arg α) → Prop
  | .bernoulli, [.real p] => 0 ≤ p ∧ p ≤ 1
  | .beta, [.real a, .real b] => 0 < a ∧ 0 < b
  | .binomial, [.int _, .real p] => 0 ≤ p ∧ p ≤ 1
  | .chisquared, [.int n] => 0 < n
  | .discreteuniform, [.int a, .int b] => a ≤ b
  | .exponential, [.real l] => 0 < l
  | .gamma, [.real a, .real b] => 0 < a ∧ 0 < b
  | .gumbel, [.real _, .real b] => 0 < b
  | .normal, [.real _, .real s] => 0 ≤ s
  | .pareto, [.real a, .real m] => 0 < a ∧ 0 < m
  | .poisson, [.real l] => 0 < l
  | .t, [.real d] => 0 < d
  | .uniform, [.real a, .real b] => a ≤ b
  | _, _ => False

/-- The object's own parameters are in the domain. -/
def Valid (d : Dist α) : Prop := InDomain d.kind d.params

/-- Every cached sub-sampler is the one a fresh constructor builds from the current parameters. -/
def Coherent : Dist α → Prop
  | .beta d => d.alpha_gen = gammaOf d.alpha 1 ∧ d.beta_gen = gammaOf d.beta 1
  | .chisquared d => d.sampler = chiSampler d.dof
  | .exponential d => d.rng = stdUniform
  | .gamma d => d.normal_gen = stdNormal ∧ d.uniform_gen = stdUniform
  | .gumbel d => d.uniform_gen = stdUniform
  | _ => True

/-- The object equals its freshly constructed twin. -/
def Inv (d : Dist α) : Prop := fresh d = some d

/-- `set i a` is a call that type-checks for kind `k`. -/
def SetTyped : Kind → Nat → Arg α → Prop
  | .bernoulli, 0, .real _ => True
  | .beta, 0, .real _ => True
  | .beta, 1, .real _ => True
  | .binomial, 0, .int _ => True
  | .binomial, 1, .real _ => True
  | .chisquared, 0, .int _ => True
  | .discreteuniform, 0, .int _ => True
  | .discreteuniform, 1, .int _ => True
  | .exponential, 0, .real _ => True
  | .gamma, 0, .real _ => True
  | .gamma, 1, .real _ => True
  | .gumbel, 0, .real _ => True
  | .gumbel, 1, .real _ => True
  | .normal, 0, .real _ => True
  | .normal, 1, .real _ => True
  | .pareto, 0, .real _ => True
  | .pareto, 1, .real _ => True
  | .poisson, 0, .real _ => True
  | .t, 0, .real _ => True
  | .uniform, 0, .real _ => True
  | .uniform, 1, .real _ => True
  | _, _, _ => False

theorem newD_isSome_iff (k : Kind) (args : List (Arg α)) : (newD k args).isSome ↔ InDomain k args := by
  unfold newD InDomain
  split <;> simp_all [Bernoulli.new, Beta.new_eq, Binomial.new, ChiSquared.new_eq, DiscreteUniform.new_eq,
    Exponential.new_eq, Gamma.new_eq, Gumbel.new_eq, Normal.new_eq, Pareto.new_eq, Poisson.new_eq, T.new_eq,
    Uniform.new_eq]


theorem newD_spec {k : Kind} {args : List (Arg α)} {d : Dist α} (h : newD k args = some d) :
    d.kind = k ∧ Valid d ∧ Coherent d := by
  unfold newD at h
  split at h <;>
    simp_all [Bernoulli.new, Beta.new_eq, Binomial.new, ChiSquared.new_eq, DiscreteUniform.new_eq,
      Exponential.new_eq, Gamma.new_eq, Gumbel.new_eq, Normal.new_eq, Pareto.new_eq, Poisson.new_eq, T.new_eq,
      Uniform.new_eq] <;>
    (obtain ⟨_, h⟩ := h; subst h; simp_all [Dist.kind, Valid, InDomain, Dist.params, Coherent, gammaOf])

theorem fresh_iff (d : Dist α) : Inv d ↔ Valid d ∧ Coherent d := by
  constructor
  · intro h
    exact (newD_spec h).2
  · rintro ⟨hv, hc⟩
    unfold Inv fresh
    cases d <;> rename_i d <;> cases d <;>
      simp_all [Dist.kind, Valid, InDomain, Dist.params, Coherent, newD, Bernoulli.new, Beta.new_eq, Binomial.new,
        ChiSquared.new_eq, DiscreteUniform.new_eq, Exponential.new_eq, Gamma.new_eq, Gumbel.new_eq, Normal.new_eq,
        Pareto.new_eq, Poisson.new_eq, T.new_eq, Uniform.new_eq, gammaOf]


theorem setD_untyped (d : Dist α) (i : Nat) (a : Arg α) (ht : ¬ SetTyped d.kind i a) :
    setD d i a = (d, false) := by
  cases d <;> rcases i with _ | _ | i <;> cases a <;> simp_all [SetTyped, Dist.kind, setD]

/-- A setter validates exactly like the constructor on the would-be parameters; on success the object is the
fresh object with those parameters, on rejection it is untouched. -/
theorem setD_spec (d : Dist α) (h : Inv d) (i : Nat) (a : Arg α) (ht : SetTyped d.kind i a) :
    setD d i a = match newD d.kind (d.params.set i a) with
      | some d' => (d', false)
      | none => (d, true) := by
  obtain ⟨hv, hc⟩ := (fresh_iff d).mp h
  cases d <;> rename_i d <;> cases d <;> rcases i with _ | _ | i <;> cases a <;>
    simp [SetTyped, Dist.kind] at ht <;>
    simp [Dist.kind, Valid, InDomain, Dist.params, Coherent] at hv hc <;>
    simp [setD, lift, newD, Dist.kind, Dist.params, List.set,
      Bernoulli.new, Bernoulli.setP, Beta.new_eq, Beta.setAlpha_eq, Beta.setBeta_eq,
      Binomial.new, Binomial.setN, Binomial.setP, ChiSquared.new_eq, ChiSquared.setDof_eq,
      DiscreteUniform.new_eq, DiscreteUniform.setLower_eq, DiscreteUniform.setUpper_eq,
      Exponential.new_eq, Exponential.setLambda_eq, Gamma.new_eq, Gamma.setAlpha_eq, Gamma.setBeta_eq,
      Gumbel.new_eq, Gumbel.setMu, Gumbel.setBeta_eq, Normal.new_eq, Normal.setMu, Normal.setSigma_eq,
      Pareto.new_eq, Pareto.setAlpha_eq, Pareto.setMinval_eq, Poisson.new_eq, Poisson.setLambda_eq,
      T.new_eq, T.setDof_eq, Uniform.new_eq, Uniform.setLower_eq, Uniform.setUpper_eq] <;>
    split_ifs <;> simp_all [gammaOf]


theorem updateD_kind (d : Dist α) (ps : List α) : (updateD d ps).1.kind = d.kind := by
  cases d <;> simp [updateD, lift, Dist.kind]

theorem setD_kind (d : Dist α) (i : Nat) (a : Arg α) : (setD d i a).1.kind = d.kind := by
  cases d <;> rcases i with _ | _ | i <;> cases a <;> simp [setD, lift, Dist.kind]

/-- `update` validates exactly like the constructor on the (cast) slice: if the constructor accepts, `update`
succeeds from *every* coherent state and yields the fresh object; otherwise it panics, and whatever it had
already assigned leaves an object that is again valid and coherent. -/
theorem updateD_spec (d : Dist α) (h : Inv d) (ps : List α) :
    match newOfSlice d.kind ps with
    | some d' => updateD d ps = (d', false)
    | none => (updateD d ps).2 = true ∧ Inv (updateD d ps).1 := by
  obtain ⟨hv, hc⟩ := (fresh_iff d).mp h
  cases d <;> rename_i d <;> cases d <;> rcases ps with _ | ⟨a, _ | ⟨b, _ | ⟨c, l⟩⟩⟩ <;>
    simp [Dist.kind, Valid, InDomain, Dist.params, Coherent] at hv hc <;>
    simp [updateD, lift, newOfSlice, castArgs, newD, Dist.kind, fresh_iff, Valid, InDomain, Dist.params, Coherent,
      Bernoulli.update, Beta.update, Binomial.update, ChiSquared.update, DiscreteUniform.update,
      Exponential.update, Gamma.update, Gumbel.update, Normal.update, Pareto.update, Poisson.update, T.update,
      Uniform.update,
      Bernoulli.new, Bernoulli.setP, Beta.new_eq, Beta.setAlpha_eq, Beta.setBeta_eq,
      Binomial.new, Binomial.setN, Binomial.setP, ChiSquared.new_eq, ChiSquared.setDof_eq,
      DiscreteUniform.new_eq,
      Exponential.new_eq, Exponential.setLambda_eq, Gamma.new_eq, Gamma.setAlpha_eq, Gamma.setBeta_eq,
      Gumbel.new_eq, Gumbel.setMu, Gumbel.setBeta_eq, Normal.new_eq, Normal.setMu, Normal.setSigma_eq,
      Pareto.new_eq, Pareto.setAlpha_eq, Pareto.setMinval_eq, Poisson.new_eq, Poisson.setLambda_eq,
      T.new_eq, T.setDof_eq, Uniform.new_eq] <;>
    (try split_ifs) <;> simp_all [gammaOf]

end Cv.C18
