import Compute.Drv.Common
import Compute.Model.Scalar
import Compute.Model.Solve
import Compute.Model.Glm
/-
Driver for C06 (GLM fitting).  Request:
  `glm <family> n p <x: n*p floats> <y: n floats> <0 | 1 len w…> <0 | 1 len off…> alpha tol maxiter`
  family ∈ gaussian bernoulli quasipoisson poisson gamma exponential
Reply:
  `= <ok:0|1> <coef vec> <deviance> <dispersion|P> <covariance vec|P> <std errors vec|P> <predict(x) vec|P> <aic> <bic> <score(x,y)|P>`
  `glm2 <family> alpha tol maxiter <problem 1> <problem 2>` (problem = n p x y w off): one object fitted twice, reply for the second fit
  (`P` = that accessor panicked) or `! panic` when `fit` itself panics.
-/
open Cv Cv.Glm

def c06Family (s : String) : Option Family :=
  match s with
  | "gaussian" => some .gaussian
  | "bernoulli" => some .bernoulli
  | "quasipoisson" => some .quasiPoisson
  | "poisson" => some .poisson
  | "gamma" => some .gamma
  | "exponential" => some .exponential
  | _ => none

def c06Opt : P (Option (List Float)) := do
  let h ← pNat
  if h = 0 then pure none else do let v ← pVec; pure (some v)

def c06ShowOptVec (v : Option (List Float)) : String :=
  match v with
  | some l => showVec l
  | none => "P"

/-- one data set: `n p <x> <y> <0 | 1 len w…> <0 | 1 len off…>` -/
def c06Problem : P (List Float × List Float × Option (List Float) × Option (List Float)) := do
  let n ← pNat; let p ← pNat
  let x ← pMany pFloat (n * p); let y ← pMany pFloat n
  let w ← c06Opt; let off ← c06Opt
  pure (x, y, w, off)

def c06Report (r : Fit Float) (x y : List Float) : String :=
  let disp := match dispersion r with | some d => showFloat d | none => "P"
  let sc := match score r x y with | some d => showFloat d | none => "P"
  ok s!"{showBool r.ok} {showVec r.coef} {showFloat r.deviance} {disp} {c06ShowOptVec (coefCovariance Cv.invertMatrix r)} {c06ShowOptVec (coefStandardError Cv.invertMatrix r)} {c06ShowOptVec (predict r x)} {showFloat (aic r)} {showFloat (bic r)} {sc}"

def c06Step (args : List String) : String :=
  match args with
  | "glm" :: famS :: rest =>
    match c06Family famS with
    | none => badOp
    | some fam =>
      withArgs (do
        let pr ← c06Problem
        let alpha ← pFloat; let tol ← pFloat; let mi ← pNat
        pure (pr, alpha, tol, mi)) rest fun ((x, y, w, off), alpha, tol, mi) =>
        match fit (α := Float) Cv.solve fam x y w off alpha tol mi with
        | none => panicked
        | some r => c06Report r x y
  -- the same `GLM` object fitted twice: weights / offsets set for the first fit stay unless set again
  | "glm2" :: famS :: rest =>
    match c06Family famS with
    | none => badOp
    | some fam =>
      withArgs (do
        let alpha ← pFloat; let tol ← pFloat; let mi ← pNat
        let p1 ← c06Problem; let p2 ← c06Problem
        pure (alpha, tol, mi, p1, p2)) rest fun (alpha, tol, mi, (x1, y1, w1, o1), (x2, y2, w2, o2)) =>
        match fit (α := Float) Cv.solve fam x1 y1 w1 o1 alpha tol mi with
        | none => panicked
        | some _ =>
          match fit (α := Float) Cv.solve fam x2 y2 (w2 <|> w1) (o2 <|> o1) alpha tol mi with
          | none => panicked
          | some r => c06Report r x2 y2
  | _ => badOp

def main (args : List String) : IO UInt32 := mainWith () (fun _ t => ((), c06Step t)) args
