import Compute.Model.Kernels
import Compute.Generated.SrcC04Mut
/-
Source tie for the two kernels every other generated file calls BY NAME: `utils::sum` and `utils::dot` of `src/linalg/utils.rs`
(`Compute/Generated/SrcC04Mut.lean`, regenerated from the Rust source on every run by `tools/rs2lean.py`, option `mut`; the
`#[cfg(feature = "blas")]` blocks are not compiled in with the crate's default features).  Everywhere else `sum` / `dot` are spelled
`Cv.sum8` / `Cv.dot8` (Model/Kernels.lean); here those hand models are tied to the source text themselves.

The generated definitions follow the source: `chunks = (n - n % 8) / 8`, the unrolled main loop `for i in 0..chunks` with its
`assert!(n > idx + 7)` (a `List.foldlM` in the panic `Option`) adding the 8 terms / products of a chunk to the ONE accumulator
in the source's association `s + (((((((t0 + t1) + t2) + t3) + t4) + t5) + t6) + t7)`, then the scalar tail
(`x.iter().take(n).skip(chunks * 8)`, resp. `(chunks * 8)..n`).  The hand models are structural recursions that peel 8 elements at a
time (`sum8Go`, `dot8Go`).  `sum_eq` / `dot_eq` prove, for every scalar type and by induction along those recursions
(`sum8Go.induct` / `dot8Go.induct`, forced in Kernels.lean), that
* the checked subtraction `n - n % 8` and the `assert!` inside the loop never fire (`dot`: the only panic is the length assert),
* the value is the model's — in particular the association and the lane order of every floating-point addition.
Only `Nat` arithmetic on indices and list lemmas are used; nothing about `+` or `*` of the scalar.
-/
set_option linter.unusedSectionVars false
set_option linter.unusedSimpArgs false
namespace Cv.SrcTie.C04Mut

variable {α : Type} [Add α] [Sub α] [Mul α] [Div α] [Neg α] [Zero α] [One α] [NatCast α] [IntCast α]
  [LT α] [DecidableLT α] [LE α] [DecidableLE α] [BEq α] [Cv.Transc α] [Inhabited α]

open Cv

/-! ### `chunks = (n - n % 8) / 8` -/

theorem chunks_add8 (n : Nat) : (n + 8 - (n + 8) % 8) / 8 = (n - n % 8) / 8 + 1 := by omega
theorem chunks_small (n : Nat) (h : n < 8) : (n - n % 8) / 8 = 0 := by omega

/-- a list that is not `x0 :: .. :: x7 :: rest` has fewer than 8 elements -/
theorem short_of_no_chunk (x : List α)
    (h : ∀ (x0 x1 x2 x3 x4 x5 x6 x7 : α) (r : List α), x = x0 :: x1 :: x2 :: x3 :: x4 :: x5 :: x6 :: x7 :: r → False) :
    x.length < 8 := by
  match x with
  | [] | [_] | [_, _] | [_, _, _] | [_, _, _, _] | [_, _, _, _, _] | [_, _, _, _, _, _] | [_, _, _, _, _, _, _] => simp
  | x0 :: x1 :: x2 :: x3 :: x4 :: x5 :: x6 :: x7 :: r => exact absurd rfl (fun e => h _ _ _ _ _ _ _ _ _ e)

/-! ### `sum` -/

/-- one iteration of the unrolled main loop of `sum` (with its `assert!`) -/
def sumStep (x : List α) (s : α) (i : Nat) : Option α :=
  if x.length > i * 8 + 7 then
    some (s + (x[i * 8]! + x[i * 8 + 1]! + x[i * 8 + 2]! + x[i * 8 + 3]! + x[i * 8 + 4]! + x[i * 8 + 5]! + x[i * 8 + 6]! +
      x[i * 8 + 7]!))
  else none

/-- main loop over `k` chunks, then the scalar tail from `k * 8` -/
def sumLoops (x : List α) (s : α) (k : Nat) : Option α :=
  (List.foldlM (sumStep x) s (List.range k)).bind fun s =>
    some (List.foldl (fun s j => s + j) s (List.drop (k * 8) (List.take x.length x)))

theorem sumStep_shift (a0 a1 a2 a3 a4 a5 a6 a7 : α) (r : List α) (s : α) (i : Nat) :
    sumStep (a0 :: a1 :: a2 :: a3 :: a4 :: a5 :: a6 :: a7 :: r) s (i + 1) = sumStep r s i := by
  unfold sumStep
  have e : ∀ t, (i + 1) * 8 + t = i * 8 + t + 8 := by intro t; omega
  have e0 : (i + 1) * 8 = i * 8 + 8 := by omega
  have hl : ((a0 :: a1 :: a2 :: a3 :: a4 :: a5 :: a6 :: a7 :: r).length > i * 8 + 7 + 8) ↔ (r.length > i * 8 + 7) := by
    simp only [List.length_cons]; omega
  simp only [e0, List.getElem!_cons_succ, hl]

theorem sumLoops_eq (s : α) (x : List α) : sumLoops x s ((x.length - x.length % 8) / 8) = some (sum8Go s x) := by
  refine sum8Go.induct (motive := fun s x => sumLoops x s ((x.length - x.length % 8) / 8) = some (sum8Go s x)) ?_ ?_ s x
  · intro s x0 x1 x2 x3 x4 x5 x6 x7 rest ih
    rw [sum8Go]
    rw [← ih]
    have hlen : (x0 :: x1 :: x2 :: x3 :: x4 :: x5 :: x6 :: x7 :: rest).length = rest.length + 8 := by simp
    rw [hlen, chunks_add8]
    unfold sumLoops
    rw [List.range_succ_eq_map, List.foldlM_cons]
    simp only [List.foldlM_map]
    have h0 : sumStep (x0 :: x1 :: x2 :: x3 :: x4 :: x5 :: x6 :: x7 :: rest) s 0 =
        some (s + (x0 + x1 + x2 + x3 + x4 + x5 + x6 + x7)) := by
      unfold sumStep
      simp
    rw [h0]
    simp only [Option.bind_eq_bind, Option.bind_some, Nat.succ_eq_add_one, sumStep_shift]
    congr 1
    funext s'
    congr 2
    have : ((rest.length - rest.length % 8) / 8 + 1) * 8 = (rest.length - rest.length % 8) / 8 * 8 + 8 := by omega
    rw [this, hlen]
    simp
  · intro s rest hno
    have hs := short_of_no_chunk rest hno
    rw [chunks_small _ hs]
    unfold sumLoops
    simp only [List.range_zero, List.foldlM_nil, Option.bind_eq_bind, Option.bind_some, Option.pure_def, Nat.zero_mul,
      List.drop_zero, List.take_length]
    rw [sum8Go]
    exact hno

/-- `utils::sum` (default features): the checked subtraction never panics, the `assert!` of the main loop never fires, and the value
is the hand model `Cv.sum8` — the 8-term sums are accumulated into the one accumulator in the source's association
`s + (((((((x0 + x1) + x2) + x3) + x4) + x5) + x6) + x7)`, then the tail left to right. -/
theorem sum_eq (x : List α) : Cv.Src.C04Mut.sum x = some (Cv.sum8 x) := by
  unfold Cv.Src.C04Mut.sum Cv.sum8
  rw [if_pos (Nat.mod_le _ _)]
  exact sumLoops_eq 0 x

/-! ### `dot` -/

def dotStep (x y : List α) (s : α) (i : Nat) : Option α :=
  if x.length > i * 8 + 7 then
    some (s + (x[i * 8]! * y[i * 8]! + x[i * 8 + 1]! * y[i * 8 + 1]! + x[i * 8 + 2]! * y[i * 8 + 2]! +
      x[i * 8 + 3]! * y[i * 8 + 3]! + x[i * 8 + 4]! * y[i * 8 + 4]! + x[i * 8 + 5]! * y[i * 8 + 5]! +
      x[i * 8 + 6]! * y[i * 8 + 6]! + x[i * 8 + 7]! * y[i * 8 + 7]!))
  else none

def dotLoops (x y : List α) (s : α) (k : Nat) : Option α :=
  (List.foldlM (dotStep x y) s (List.range k)).bind fun s =>
    some (List.foldl (fun s j => s + x[j]! * y[j]!) s (List.range' (k * 8) (x.length - k * 8)))

theorem dotStep_shift (a0 a1 a2 a3 a4 a5 a6 a7 : α) (r : List α) (b0 b1 b2 b3 b4 b5 b6 b7 : α) (q : List α) (s : α) (i : Nat) :
    dotStep (a0 :: a1 :: a2 :: a3 :: a4 :: a5 :: a6 :: a7 :: r) (b0 :: b1 :: b2 :: b3 :: b4 :: b5 :: b6 :: b7 :: q) s (i + 1) =
      dotStep r q s i := by
  unfold dotStep
  have e0 : (i + 1) * 8 = i * 8 + 8 := by omega
  have hl : ((a0 :: a1 :: a2 :: a3 :: a4 :: a5 :: a6 :: a7 :: r).length > i * 8 + 7 + 8) ↔ (r.length > i * 8 + 7) := by
    simp only [List.length_cons]; omega
  simp only [e0, List.getElem!_cons_succ, hl]

theorem range'_shift8 (c m : Nat) : List.range' (c + 8) m = (List.range' c m).map (· + 8) := by
  rw [List.range'_eq_map_range, List.range'_eq_map_range, List.map_map]
  apply List.map_congr_left
  intro i _
  simp only [Function.comp_apply]
  omega

/-- the scalar tail `for j in (k*8)..n { s += x[j] * y[j] }` is the fold over the zipped remainders -/
theorem dotTail (x y : List α) (s : α) (h : x.length = y.length) :
    List.foldl (fun s j => s + x[j]! * y[j]!) s (List.range x.length) = (List.zipWith (· * ·) x y).foldl (· + ·) s := by
  have hm : (List.range x.length).map (fun j => x[j]! * y[j]!) = List.zipWith (· * ·) x y := by
    apply List.ext_getElem
    · simp [h]
    · intro i h1 h2
      simp only [List.length_map, List.length_range] at h1
      have hy : i < y.length := h ▸ h1
      simp [h1, hy]
  rw [← hm, List.foldl_map]

theorem dotLoops_eq (s : α) (x y : List α) (h : x.length = y.length) :
    dotLoops x y s ((x.length - x.length % 8) / 8) = some (dot8Go s x y) := by
  revert h
  refine dot8Go.induct (motive := fun s x y => x.length = y.length →
    dotLoops x y s ((x.length - x.length % 8) / 8) = some (dot8Go s x y)) ?_ ?_ s x y
  · intro s x0 x1 x2 x3 x4 x5 x6 x7 xs y0 y1 y2 y3 y4 y5 y6 y7 ys ih h
    have h' : xs.length = ys.length := by simpa using h
    rw [dot8Go, ← ih h']
    have hlen : (x0 :: x1 :: x2 :: x3 :: x4 :: x5 :: x6 :: x7 :: xs).length = xs.length + 8 := by simp
    rw [hlen, chunks_add8]
    unfold dotLoops
    rw [List.range_succ_eq_map, List.foldlM_cons]
    simp only [List.foldlM_map]
    have h0 : dotStep (x0 :: x1 :: x2 :: x3 :: x4 :: x5 :: x6 :: x7 :: xs) (y0 :: y1 :: y2 :: y3 :: y4 :: y5 :: y6 :: y7 :: ys) s 0 =
        some (s + (x0 * y0 + x1 * y1 + x2 * y2 + x3 * y3 + x4 * y4 + x5 * y5 + x6 * y6 + x7 * y7)) := by
      unfold dotStep
      simp
    rw [h0]
    simp only [Option.bind_eq_bind, Option.bind_some, Nat.succ_eq_add_one, dotStep_shift]
    congr 1
    funext s'
    congr 1
    have e1 : ((xs.length - xs.length % 8) / 8 + 1) * 8 = (xs.length - xs.length % 8) / 8 * 8 + 8 := by omega
    have e2 : xs.length + 8 - ((xs.length - xs.length % 8) / 8 * 8 + 8) = xs.length - (xs.length - xs.length % 8) / 8 * 8 := by omega
    rw [hlen, e1, e2]
    -- the tail indices are shifted by 8: `range' (c + 8) m = (range' c m).map (· + 8)`
    have hr := range'_shift8 ((xs.length - xs.length % 8) / 8 * 8) (xs.length - (xs.length - xs.length % 8) / 8 * 8)
    rw [hr, List.foldl_map]
    simp only [List.getElem!_cons_succ]
  · intro s xs ys hno h
    -- no full chunk in BOTH lists: as the lengths agree, both are shorter than 8
    have hs : xs.length < 8 := by
      match xs, ys, hno, h with
      | x0 :: x1 :: x2 :: x3 :: x4 :: x5 :: x6 :: x7 :: r, y0 :: y1 :: y2 :: y3 :: y4 :: y5 :: y6 :: y7 :: q, hno, _ =>
        exact absurd rfl (fun e => hno _ _ _ _ _ _ _ _ _ _ _ _ _ _ _ _ _ _ e rfl)
      | x0 :: x1 :: x2 :: x3 :: x4 :: x5 :: x6 :: x7 :: r, [], _, h | x0 :: x1 :: x2 :: x3 :: x4 :: x5 :: x6 :: x7 :: r, [_], _, h
      | x0 :: x1 :: x2 :: x3 :: x4 :: x5 :: x6 :: x7 :: r, [_, _], _, h
      | x0 :: x1 :: x2 :: x3 :: x4 :: x5 :: x6 :: x7 :: r, [_, _, _], _, h
      | x0 :: x1 :: x2 :: x3 :: x4 :: x5 :: x6 :: x7 :: r, [_, _, _, _], _, h
      | x0 :: x1 :: x2 :: x3 :: x4 :: x5 :: x6 :: x7 :: r, [_, _, _, _, _], _, h
      | x0 :: x1 :: x2 :: x3 :: x4 :: x5 :: x6 :: x7 :: r, [_, _, _, _, _, _], _, h
      | x0 :: x1 :: x2 :: x3 :: x4 :: x5 :: x6 :: x7 :: r, [_, _, _, _, _, _, _], _, h => simp at h
      | [], _, _, _ | [_], _, _, _ | [_, _], _, _, _ | [_, _, _], _, _, _ | [_, _, _, _], _, _, _ | [_, _, _, _, _], _, _, _
      | [_, _, _, _, _, _], _, _, _ | [_, _, _, _, _, _, _], _, _, _ => simp
    rw [chunks_small _ hs]
    unfold dotLoops
    simp only [List.range_zero, List.foldlM_nil, Option.bind_eq_bind, Option.bind_some, Option.pure_def, Nat.zero_mul,
      Nat.sub_zero]
    rw [dot8Go]
    · rw [← dotTail xs ys s h, List.range_eq_range']
    · exact hno

/-- `utils::dot` (default features): `assert_eq!(x.len(), y.len())` is the only panic that can occur; under it the value is the hand
model `Cv.dot8` — eight products per chunk summed left to right into the one accumulator, then the scalar tail. -/
theorem dot_eq (x y : List α) :
    Cv.Src.C04Mut.dot x y = if x.length = y.length then some (Cv.dot8 x y) else none := by
  unfold Cv.Src.C04Mut.dot Cv.dot8
  by_cases h : x.length = y.length
  · rw [if_pos h, if_pos h, if_pos (Nat.mod_le _ _)]
    exact dotLoops_eq 0 x y h
  · rw [if_neg h, if_neg h]

/-- `dot` in the form of the shared model function `Cv.dot?`. -/
theorem dot_eq_dot? (x y : List α) : Cv.Src.C04Mut.dot x y = Cv.dot? x y := by
  rw [dot_eq]; rfl

end Cv.SrcTie.C04Mut
