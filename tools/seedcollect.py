#!/usr/bin/env python3
"""Collects confirmed seeded changes from a scratch seed root into /verif/seeded/<id>/ (patch.diff, demo.rs, meta.json).
meta.json = the seeding agent's own meta + our independent confirmation (tools/seedconfirm.sh) + what each check reported
(tools/seedtest.sh, from out/seedlog.txt)."""
import json, os, re, shutil, sys
ROOT = sys.argv[1] if len(sys.argv) > 1 else "/tmp/seedout"
V = os.path.dirname(os.path.dirname(os.path.abspath(__file__)))
log = {}
for line in open(os.path.join(V, "out", "seedlog.txt")):
    m = re.match(r"(\S+) (\S+) (\S+) :: (.*?) :: (.*?) :: (.*)", line.strip())
    if not m:
        continue
    t, name, pid, last, viol, stat = m.groups()
    em = re.search(r"exit=(\d+)", last)
    log.setdefault(name, {})[pid] = {"time": t, "check_exit": int(em.group(1)) if em else None,
                                     "violation_line": re.sub(r"/verif/out/\S+?/", "out/…/", viol.strip()),
                                     "summary_line": stat.strip(),
                                     "detected": bool(em and em.group(1) == "1"),
                                     "with_failing_input": "VIOLATION" in viol and "no-failing-input-found" not in viol}
n = 0
for name in sorted(os.listdir(ROOT)):
    d = os.path.join(ROOT, name)
    cj = os.path.join(d, "confirm.json")
    if not os.path.exists(cj):
        continue
    c = json.load(open(cj))
    if not c.get("confirmed"):
        continue
    if name not in log:
        continue
    meta = json.load(open(os.path.join(d, "meta.json")))
    out = os.path.join(V, "seeded", name)
    os.makedirs(out, exist_ok=True)
    shutil.copy(os.path.join(d, "patch.diff"), out)
    shutil.copy(os.path.join(d, "demo.rs"), out)
    meta_out = {"property": meta.get("property"), "summary": meta.get("summary"), "needs": meta.get("needs"),
                "seeding_agent_ran": meta.get("ran"),
                "independent_confirmation": c,
                "checks_run": log[name],
                "how_to_replay": "tools/seedtest.sh seeded/%s %s   (applies patch.diff to a scratch worktree of /repo, runs ./check against it with CV_REPO, removes the worktree)" % (name, meta.get("property"))}
    json.dump(meta_out, open(os.path.join(out, "meta.json"), "w"), indent=1)
    n += 1
print("collected", n)
