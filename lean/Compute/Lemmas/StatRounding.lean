import Compute.Props.Rounding
import Compute.Props.C08
/-
Worst-case rounding-error analysis (standard model, `Lemmas/FlModel.lean`) of the two-pass
co-moment / covariance of `Model/Stats.lean` (`coMoment`, `covariance`, `sampleCovariance`).

Notation (all over ℝ): for paired data `x`, `y` of length `n`, `x̄ = mu x`, `ȳ = mu y` (exact means),
`C = comoment x y = Σ(xᵢ−x̄)(yᵢ−ȳ)`, `A = absComoment x y = Σ|xᵢ−x̄||yᵢ−ȳ|`,
`S_x = absDev x = Σ|xᵢ−x̄|`.  All of `C`, `A`, `S_x`, `S_y` are invariant under shifts of the data.
-/
namespace Cv.Rounding2
open Cv Cv.FlModel Cv.Rounding Cv.C08

variable {M : FlModel}

/-! ### exact (real-number) identities for shifted co-moments -/

/-- `Σ|xᵢ−x̄||yᵢ−ȳ|`: the condition-free scale of the two-pass covariance error -/
noncomputable def absComoment (x y : List ℝ) : ℝ :=
  ((List.zip x y).map fun p => |p.1 - mu x| * |p.2 - mu y|).sum

/-- `Σ|xᵢ−x̄|` -/
noncomputable def absDev (x : List ℝ) : ℝ := (x.map fun a => |a - mu x|).sum

/-- shifted co-moment about arbitrary centres `a`, `b` -/
noncomputable def shiftedCo (P : List (ℝ × ℝ)) (a b : ℝ) : ℝ :=
  (P.map fun p => (p.1 - a) * (p.2 - b)).sum

theorem shiftedCo_change (P : List (ℝ × ℝ)) (a b c d : ℝ) :
    shiftedCo P a b = shiftedCo P c d + (d - b) * (P.map fun p => p.1 - c).sum
      + (c - a) * (P.map fun p => p.2 - d).sum + P.length * (c - a) * (d - b) := by
  unfold shiftedCo
  induction P with
  | nil => simp
  | cons p t ih => simp only [List.map_cons, List.sum_cons, List.length_cons, ih]; push_cast; ring

theorem shiftedAbs_le (P : List (ℝ × ℝ)) (a b c d : ℝ) :
    (P.map fun p => |(p.1 - a) * (p.2 - b)|).sum ≤
      (P.map fun p => |p.1 - c| * |p.2 - d|).sum + |d - b| * (P.map fun p => |p.1 - c|).sum
      + |c - a| * (P.map fun p => |p.2 - d|).sum + P.length * |c - a| * |d - b| := by
  induction P with
  | nil => simp
  | cons p t ih =>
    simp only [List.map_cons, List.sum_cons, List.length_cons]
    push_cast
    have h1 : |p.1 - a| ≤ |p.1 - c| + |c - a| := by
      have : p.1 - a = (p.1 - c) + (c - a) := by ring
      rw [this]; exact abs_add_le _ _
    have h2 : |p.2 - b| ≤ |p.2 - d| + |d - b| := by
      have : p.2 - b = (p.2 - d) + (d - b) := by ring
      rw [this]; exact abs_add_le _ _
    have h3 : |(p.1 - a) * (p.2 - b)| ≤ (|p.1 - c| + |c - a|) * (|p.2 - d| + |d - b|) := by
      rw [abs_mul]
      exact mul_le_mul h1 h2 (abs_nonneg _) (by positivity)
    nlinarith [ih, h3]

theorem sum_sub_mu (x : List ℝ) : (x.map fun a => a - mu x).sum = 0 := by
  rw [sum_map_sub_const]
  unfold mu
  by_cases h : x.length = 0
  · have : x = [] := List.eq_nil_of_length_eq_zero h
    subst this; simp
  · have : (x.length : ℝ) ≠ 0 := by exact_mod_cast h
    field_simp
    ring

theorem map_fst_zip_fun (x y : List ℝ) (h : x.length = y.length) (f : ℝ → ℝ) :
    ((List.zip x y).map fun p => f p.1) = x.map f := by
  have : ((List.zip x y).map fun p => f p.1) = ((List.zip x y).map Prod.fst).map f := by
    rw [List.map_map]; rfl
  rw [this, List.map_fst_zip (by omega)]

theorem map_snd_zip_fun (x y : List ℝ) (h : x.length = y.length) (f : ℝ → ℝ) :
    ((List.zip x y).map fun p => f p.2) = y.map f := by
  have : ((List.zip x y).map fun p => f p.2) = ((List.zip x y).map Prod.snd).map f := by
    rw [List.map_map]; rfl
  rw [this, List.map_snd_zip (by omega)]

/-- **the exact identity behind the two-pass algorithm**: centring about *approximate* means `a`, `b`
changes the co-moment only by the product of the two mean errors,
`Σ(xᵢ−a)(yᵢ−b) = Σ(xᵢ−x̄)(yᵢ−ȳ) + n·(x̄−a)(ȳ−b)`. -/
theorem shiftedCo_eq (x y : List ℝ) (h : x.length = y.length) (a b : ℝ) :
    shiftedCo (List.zip x y) a b = comoment x y + x.length * (mu x - a) * (mu y - b) := by
  rw [shiftedCo_change _ a b (mu x) (mu y), map_fst_zip_fun x y h (fun t => t - mu x),
    map_snd_zip_fun x y h (fun t => t - mu y), sum_sub_mu, sum_sub_mu]
  have hl : (List.zip x y).length = x.length := by simp [h]
  rw [hl]
  unfold shiftedCo comoment
  ring

theorem shiftedAbs_le' (x y : List ℝ) (h : x.length = y.length) (a b : ℝ) :
    ((List.zip x y).map fun p => |(p.1 - a) * (p.2 - b)|).sum ≤
      absComoment x y + |mu y - b| * absDev x + |mu x - a| * absDev y
        + x.length * |mu x - a| * |mu y - b| := by
  have := shiftedAbs_le (List.zip x y) a b (mu x) (mu y)
  rw [map_fst_zip_fun x y h (fun t => |t - mu x|), map_snd_zip_fun x y h (fun t => |t - mu y|)] at this
  have hl : (List.zip x y).length = x.length := by simp [h]
  rw [hl] at this
  exact this

theorem absComoment_nonneg (x y : List ℝ) : 0 ≤ absComoment x y := by
  unfold absComoment
  apply List.sum_nonneg
  intro a ha
  obtain ⟨p, _, rfl⟩ := List.mem_map.mp ha
  positivity

theorem absDev_nonneg (x : List ℝ) : 0 ≤ absDev x := by
  unfold absDev
  apply List.sum_nonneg
  intro a ha
  obtain ⟨p, _, rfl⟩ := List.mem_map.mp ha
  positivity

/-! ### rounding analysis of `coMoment` -/

/-- the exact centred products about the *computed* means -/
noncomputable abbrev cprods (a b : ℝ) (x y : List (Fl M)) : List ℝ :=
  (List.zip (vals x) (vals y)).map fun p => (p.1 - a) * (p.2 - b)

theorem cprods_length (a b : ℝ) (x y : List (Fl M)) (h : x.length = y.length) :
    (cprods a b x y).length = x.length := by simp [cprods, vals, h]

/-- three roundings per term `(xᵢ − m_x)·(yᵢ − m_y)`: two subtractions and the product -/
theorem cterms_factor (mx my : Fl M) (x y : List (Fl M)) :
    ∃ gs : List ℝ, gs.length = (cprods mx.val my.val x y).length ∧ (∀ g ∈ gs, M.Fac 3 g) ∧
      vals (List.zipWith (fun a b => (a - mx) * (b - my)) x y) =
        List.zipWith (· * ·) (cprods mx.val my.val x y) gs := by
  induction x generalizing y with
  | nil => exact ⟨[], by simp, by simp, by simp⟩
  | cons a x ih =>
    cases y with
    | nil => exact ⟨[], by simp, by simp, by simp⟩
    | cons b y =>
      obtain ⟨gs, hl, hg, he⟩ := ih y
      obtain ⟨δ1, hδ1, h1⟩ := M.std (a.val - mx.val)
      obtain ⟨δ2, hδ2, h2⟩ := M.std (b.val - my.val)
      obtain ⟨δ3, hδ3, h3⟩ := M.std (M.rnd (a.val - mx.val) * M.rnd (b.val - my.val))
      refine ⟨((1 + δ1) * (1 + δ2) * (1 + δ3)) :: gs, by simpa using hl, ?_, ?_⟩
      · intro g hgm
        rcases List.mem_cons.mp hgm with rfl | hgm
        · exact ((Fac.one_add hδ1).mul (Fac.one_add hδ2)).mul (Fac.one_add hδ3)
        · exact hg g hgm
      · simp only [vals, cprods, List.zipWith_cons_cons, List.map_cons, List.zip_cons_cons,
          Fl.mul_val, Fl.sub_val] at he ⊢
        rw [he, h3, h1, h2]
        congr 1
        ring

theorem iterSum_pert (l : List (Fl M)) : M.Pert l.length (iterSum l).val (vals l) := by
  have h0 : M.Pert 0 (-(0 : Fl M)).val [] := by simpa using Pert.nil (M := M) 0
  have := foldl_pert l (-(0 : Fl M)) 0 [] h0
  simp only [Nat.zero_add, List.nil_append] at this
  exact this

/-- **structure of the computed co-moment**: `coMoment x y = Σ (xᵢ−m_x)(yᵢ−m_y)·fᵢ`, `m_x`, `m_y` the
*computed* means, every `fᵢ` a product of at most `n + 3` rounding factors. -/
theorem coMoment_pert (x y : List (Fl M)) (h : x.length = y.length) :
    M.Pert (x.length + 3) (coMoment x y).val (cprods (mean x).val (mean y).val x y) := by
  obtain ⟨gs, hl, hg, he⟩ := cterms_factor (mean x) (mean y) x y
  have hp := iterSum_pert (List.zipWith (fun a b => (a - mean x) * (b - mean y)) x y)
  rw [he] at hp
  have hlen : (List.zipWith (fun a b => (a - mean x) * (b - mean y)) x y).length = x.length := by
    simp [h]
  rw [hlen] at hp
  rw [Nat.add_comm]
  exact Pert.comp _ gs _ hl hg hp

theorem sum_map_abs_cprods (a b : ℝ) (x y : List (Fl M)) :
    ((cprods a b x y).map (|·|)).sum =
      ((List.zip (vals x) (vals y)).map fun p => |(p.1 - a) * (p.2 - b)|).sum := by
  simp [cprods, List.map_map, Function.comp_def]

/-- a quotient by a rounded integer: two more rounding factors -/
theorem div_natCast_fac (v : Fl M) (d : Nat) :
    ∃ h : ℝ, M.Fac 2 h ∧ (v / (d : Fl M)).val = v.val / d * h := by
  obtain ⟨δ1, hδ1, h1⟩ := M.std (v.val / M.rnd (d : ℝ))
  obtain ⟨δ2, hδ2, h2⟩ := M.std (d : ℝ)
  refine ⟨(1 + δ1) * (1 + δ2)⁻¹, (Fac.one_add hδ1).mul (Fac.one_add hδ2).inv, ?_⟩
  show M.rnd (v.val / M.rnd (d : ℝ)) = _
  rw [h1, h2, div_mul_eq_div_div, div_eq_mul_inv _ (1 + δ2)]; ring

/-- **Two-pass co-moment divided by a rounded integer `d`** (`d = n`: `covariance`, `d = n − 1`:
`sample_covariance`); general form in terms of the errors `Δx = m_x − x̄`, `Δy = m_y − ȳ` of the two
computed means.  Standard model only. -/
theorem coMoment_div_error (x y : List (Fl M)) (hxy : x.length = y.length) (d : Nat)
    (h : (x.length + 5 : Nat) * M.u < 1) :
    |(coMoment x y / (d : Fl M)).val - comoment (vals x) (vals y) / d| ≤
      (M.γ (x.length + 5) * absComoment (vals x) (vals y)
        + (1 + M.γ (x.length + 5)) * (x.length * |(mean x).val - mu (vals x)| * |(mean y).val - mu (vals y)|)
        + M.γ (x.length + 5) * (|(mean y).val - mu (vals y)| * absDev (vals x)
            + |(mean x).val - mu (vals x)| * absDev (vals y))) / d := by
  obtain ⟨hf, hfac, hv⟩ := div_natCast_fac (coMoment x y) d
  have hp := ((coMoment_pert x y hxy).div_const (d : ℝ)).scale hfac
  rw [← hv] at hp
  have herr := hp.error h
  rw [sum_map_div, sum_map_abs_div _ _ (Nat.cast_nonneg d), sum_map_abs_cprods] at herr
  have hvl : (vals x).length = (vals y).length := by simp [vals, hxy]
  have hid := shiftedCo_eq (vals x) (vals y) hvl (mean x).val (mean y).val
  have hab := shiftedAbs_le' (vals x) (vals y) hvl (mean x).val (mean y).val
  have hlen : ((vals x).length : ℝ) = x.length := by simp [vals]
  rw [hlen] at hid hab
  unfold shiftedCo at hid
  set S := (cprods (mean x).val (mean y).val x y).sum with hS
  have hS' : S = comoment (vals x) (vals y)
      + x.length * (mu (vals x) - (mean x).val) * (mu (vals y) - (mean y).val) := hid
  set T := ((List.zip (vals x) (vals y)).map fun p =>
    |(p.1 - (mean x).val) * (p.2 - (mean y).val)|).sum with hT
  set dx := |(mean x).val - mu (vals x)| with hdx
  set dy := |(mean y).val - mu (vals y)| with hdy
  have hdx' : |mu (vals x) - (mean x).val| = dx := abs_sub_comm _ _
  have hdy' : |mu (vals y) - (mean y).val| = dy := abs_sub_comm _ _
  rw [hdx', hdy'] at hab
  have hγ := M.γ_nonneg (x.length + 5) h
  have hd0 : (0 : ℝ) ≤ d := Nat.cast_nonneg d
  -- |v − C/d| ≤ |v − S/d| + |S − C|/d
  have e1 : (coMoment x y / (d : Fl M)).val - comoment (vals x) (vals y) / d =
      ((coMoment x y / (d : Fl M)).val - S / d) + (S - comoment (vals x) (vals y)) / d := by ring
  have e2 : |(S - comoment (vals x) (vals y)) / d| = x.length * dx * dy / d := by
    rw [hS', add_sub_cancel_left, abs_div, abs_mul, abs_mul, hdx', hdy', abs_of_nonneg hd0,
      abs_of_nonneg (Nat.cast_nonneg x.length)]
  rw [e1]
  refine le_trans (abs_add_le _ _) ?_
  rw [e2]
  have h3 : M.γ (x.length + 5) * (T / d) ≤ M.γ (x.length + 5) *
      ((absComoment (vals x) (vals y) + dy * absDev (vals x) + dx * absDev (vals y)
        + x.length * dx * dy) / d) :=
    mul_le_mul_of_nonneg_left (div_le_div_of_nonneg_right hab hd0) hγ
  refine le_trans (add_le_add (le_trans herr h3) (le_refl _)) (le_of_eq ?_)
  ring

/-- … with the two mean errors replaced by arbitrary bounds `εx`, `εy` -/
theorem coMoment_div_error_eps (x y : List (Fl M)) (hxy : x.length = y.length) (d : Nat)
    (h : (x.length + 5 : Nat) * M.u < 1) (εx εy : ℝ)
    (hx : |(mean x).val - mu (vals x)| ≤ εx) (hy : |(mean y).val - mu (vals y)| ≤ εy) :
    |(coMoment x y / (d : Fl M)).val - comoment (vals x) (vals y) / d| ≤
      (M.γ (x.length + 5) * absComoment (vals x) (vals y)
        + (1 + M.γ (x.length + 5)) * (x.length * εx * εy)
        + M.γ (x.length + 5) * (εy * absDev (vals x) + εx * absDev (vals y))) / d := by
  refine le_trans (coMoment_div_error x y hxy d h) ?_
  have hγ := M.γ_nonneg (x.length + 5) h
  have hd0 : (0 : ℝ) ≤ d := Nat.cast_nonneg d
  have hn0 : (0 : ℝ) ≤ x.length := Nat.cast_nonneg _
  have hSx := absDev_nonneg (vals x)
  have hSy := absDev_nonneg (vals y)
  have hdx := abs_nonneg ((mean x).val - mu (vals x))
  have hdy := abs_nonneg ((mean y).val - mu (vals y))
  have hεx : 0 ≤ εx := le_trans hdx hx
  have hεy : 0 ≤ εy := le_trans hdy hy
  apply div_le_div_of_nonneg_right _ hd0
  have h1 : (x.length : ℝ) * |(mean x).val - mu (vals x)| * |(mean y).val - mu (vals y)| ≤
      x.length * εx * εy := by
    have := mul_le_mul hx hy hdy hεx
    nlinarith
  have h2 : |(mean y).val - mu (vals y)| * absDev (vals x) ≤ εy * absDev (vals x) :=
    mul_le_mul_of_nonneg_right hy hSx
  have h3 : |(mean x).val - mu (vals x)| * absDev (vals y) ≤ εx * absDev (vals y) :=
    mul_le_mul_of_nonneg_right hx hSy
  have h4 := mul_le_mul_of_nonneg_left h1 (by linarith : (0 : ℝ) ≤ 1 + M.γ (x.length + 5))
  have h5 := mul_le_mul_of_nonneg_left (add_le_add h2 h3) hγ
  linarith

/-- `(Σ|xᵢ|)/n` -/
noncomputable def meanAbs (x : List ℝ) : ℝ := (x.map (|·|)).sum / x.length

theorem mu_vals (x : List (Fl M)) : mu (vals x) = (vals x).sum / x.length := by
  unfold mu; simp [vals]

/-- the error of the computed mean in the notation of this file (standard model only) -/
theorem mean_sub_mu_le (x : List (Fl M)) (h : (x.length + 2 : Nat) * M.u < 1) :
    |(mean x).val - mu (vals x)| ≤ M.γ (x.length + 2) * meanAbs (vals x) := by
  rw [mu_vals]
  have := mean_error_add_two x h
  unfold meanAbs
  simpa [vals] using this

/-- … classical constant `γ_n` (representable data and length, idempotent rounding) -/
theorem mean_sub_mu_le_idem (hid : M.Idem) (x : List (Fl M)) (hx : ∀ a ∈ x, a.Rep)
    (hn : M.rnd (x.length : ℝ) = x.length) (h : x.length * M.u < 1) :
    |(mean x).val - mu (vals x)| ≤ M.γ x.length * meanAbs (vals x) := by
  rw [mu_vals]
  have := mean_error hid x hx hn h
  unfold meanAbs
  simpa [vals] using this

/-- **Forward error of the two-pass `covariance`** (standard model only; Higham §1.9,
Chan–Golub–LeVeque 1983).  With `γ = γ_{n+5}`, `ε_x = γ_{n+2}·(Σ|xᵢ|)/n` (the bound for the error of
the computed mean), `A = Σ|xᵢ−x̄||yᵢ−ȳ|`, `S_x = Σ|xᵢ−x̄|`:

  `|ĉ − cov(x,y)| ≤ γ·A/n  +  (1+γ)·ε_x·ε_y  +  γ·(ε_y·S_x + ε_x·S_y)/n`.

The first-order term `γ_{n+5}·A/n ≈ (n+5)·u·A/n` involves only the *centred* data (it is invariant
under shifts of `x` and `y`: `absComoment_shift`); the means enter only through `ε_x`, `ε_y`, i.e. in
the second-order terms `O(n²u²)·mean|x|·mean|y|` and `O(n²u²)·mean|y|·S_x/n`. -/
theorem covariance_error (x y : List (Fl M)) (hxy : x.length = y.length) (hn : 1 ≤ x.length)
    (h : (x.length + 5 : Nat) * M.u < 1) :
    ∃ c, covariance x y = some c ∧
      |c.val - comoment (vals x) (vals y) / x.length| ≤
        M.γ (x.length + 5) * absComoment (vals x) (vals y) / x.length
        + (1 + M.γ (x.length + 5)) *
            ((M.γ (x.length + 2) * meanAbs (vals x)) * (M.γ (y.length + 2) * meanAbs (vals y)))
        + M.γ (x.length + 5) *
            ((M.γ (y.length + 2) * meanAbs (vals y)) * absDev (vals x)
              + (M.γ (x.length + 2) * meanAbs (vals x)) * absDev (vals y)) / x.length := by
  refine ⟨coMoment x y / (x.length : Fl M), by simp [covariance, hxy], ?_⟩
  have hu := M.u_nonneg
  have h2 : ((x.length + 2 : Nat) : ℝ) * M.u < 1 := by
    push_cast at h ⊢; nlinarith
  have h2y : ((y.length + 2 : Nat) : ℝ) * M.u < 1 := by rw [← hxy]; exact h2
  have := coMoment_div_error_eps x y hxy x.length h _ _ (mean_sub_mu_le x h2) (mean_sub_mu_le y h2y)
  refine le_trans this (le_of_eq ?_)
  have hn0 : (x.length : ℝ) ≠ 0 := by
    have : (1 : ℝ) ≤ x.length := by exact_mod_cast hn
    linarith
  field_simp

/-- **… with the classical constants** (idempotent rounding, representable data and length: the `f64`
situation): `ε = γ_n·mean|·|` instead of `γ_{n+2}·mean|·|`. -/
theorem covariance_error_idem (hid : M.Idem) (x y : List (Fl M)) (hxy : x.length = y.length)
    (hn : 1 ≤ x.length) (hx : ∀ a ∈ x, a.Rep) (hy : ∀ a ∈ y, a.Rep)
    (hlen : M.rnd (x.length : ℝ) = x.length) (h : (x.length + 5 : Nat) * M.u < 1) :
    ∃ c, covariance x y = some c ∧
      |c.val - comoment (vals x) (vals y) / x.length| ≤
        M.γ (x.length + 5) * absComoment (vals x) (vals y) / x.length
        + (1 + M.γ (x.length + 5)) *
            ((M.γ x.length * meanAbs (vals x)) * (M.γ y.length * meanAbs (vals y)))
        + M.γ (x.length + 5) *
            ((M.γ y.length * meanAbs (vals y)) * absDev (vals x)
              + (M.γ x.length * meanAbs (vals x)) * absDev (vals y)) / x.length := by
  refine ⟨coMoment x y / (x.length : Fl M), by simp [covariance, hxy], ?_⟩
  have hu := M.u_nonneg
  have h2 : (x.length : ℝ) * M.u < 1 := by
    push_cast at h; nlinarith
  have h2y : (y.length : ℝ) * M.u < 1 := by rw [← hxy]; exact h2
  have hleny : M.rnd (y.length : ℝ) = y.length := by rw [← hxy]; exact hlen
  have := coMoment_div_error_eps x y hxy x.length h _ _ (mean_sub_mu_le_idem hid x hx hlen h2)
    (mean_sub_mu_le_idem hid y hy hleny h2y)
  refine le_trans this (le_of_eq ?_)
  have hn0 : (x.length : ℝ) ≠ 0 := by
    have : (1 : ℝ) ≤ x.length := by exact_mod_cast hn
    linarith
  field_simp

/-- **Forward error of the two-pass `sample_covariance`** (divisor `n − 1`; standard model only). -/
theorem sampleCovariance_error (x y : List (Fl M)) (hxy : x.length = y.length) (hn : 2 ≤ x.length)
    (h : (x.length + 5 : Nat) * M.u < 1) :
    ∃ c, sampleCovariance x y = some c ∧
      |c.val - comoment (vals x) (vals y) / ((x.length - 1 : Nat) : ℝ)| ≤
        (M.γ (x.length + 5) * absComoment (vals x) (vals y)
          + (1 + M.γ (x.length + 5)) * (x.length *
              (M.γ (x.length + 2) * meanAbs (vals x)) * (M.γ (y.length + 2) * meanAbs (vals y)))
          + M.γ (x.length + 5) *
              ((M.γ (y.length + 2) * meanAbs (vals y)) * absDev (vals x)
                + (M.γ (x.length + 2) * meanAbs (vals x)) * absDev (vals y)))
          / ((x.length - 1 : Nat) : ℝ) := by
  have hne : x.length ≠ 0 := by omega
  refine ⟨coMoment x y / ((x.length - 1 : Nat) : Fl M), by unfold sampleCovariance; rw [if_pos hxy, if_neg hne], ?_⟩
  have hu := M.u_nonneg
  have h2 : ((x.length + 2 : Nat) : ℝ) * M.u < 1 := by
    push_cast at h ⊢; nlinarith
  have h2y : ((y.length + 2 : Nat) : ℝ) * M.u < 1 := by rw [← hxy]; exact h2
  exact coMoment_div_error_eps x y hxy (x.length - 1) h _ _ (mean_sub_mu_le x h2) (mean_sub_mu_le y h2y)

/-- **two-pass variance** `covariance x x`: `|v̂ − M2/n| ≤ γ_{n+5}·M2/n + (1+γ)ε² + 2γ·ε·S/n` — relative
error `γ_{n+5}` plus second-order terms, whatever the size of the mean (`Σ|xᵢ−x̄|² = M2`). -/
theorem covariance_self_error (x : List (Fl M)) (hn : 1 ≤ x.length)
    (h : (x.length + 5 : Nat) * M.u < 1) :
    ∃ c, covariance x x = some c ∧
      |c.val - m2 (vals x) / x.length| ≤
        M.γ (x.length + 5) * m2 (vals x) / x.length
        + (1 + M.γ (x.length + 5)) * (M.γ (x.length + 2) * meanAbs (vals x)) ^ 2
        + 2 * M.γ (x.length + 5) * ((M.γ (x.length + 2) * meanAbs (vals x)) * absDev (vals x))
            / x.length := by
  obtain ⟨c, hc, he⟩ := covariance_error x x rfl hn h
  refine ⟨c, hc, ?_⟩
  have hA : absComoment (vals x) (vals x) = m2 (vals x) := by
    unfold absComoment m2
    rw [zip_self_map]
    congr 1
    apply List.map_congr_left
    intro a _
    rw [← abs_mul, ← pow_two, abs_of_nonneg (sq_nonneg _)]
  rw [hA, ← m2_eq_comoment] at he
  refine le_trans he (le_of_eq ?_)
  ring

/-! ### shift invariance of the first-order scale -/

theorem absDev_shift (x : List ℝ) (c : ℝ) : absDev (x.map (· + c)) = absDev x := by
  by_cases hx : x = []
  · subst hx; simp [absDev]
  · unfold absDev
    rw [mu_shift x c hx, List.map_map]
    congr 1
    apply List.map_congr_left
    intro a _
    simp only [Function.comp]
    congr 1; ring

theorem absComoment_shift (x y : List ℝ) (c d : ℝ) :
    absComoment (x.map (· + c)) (y.map (· + d)) = absComoment x y := by
  by_cases hx : x = []
  · subst hx; simp [absComoment]
  by_cases hy : y = []
  · subst hy; simp [absComoment]
  unfold absComoment
  rw [mu_shift x c hx, mu_shift y d hy, List.zip_map, List.map_map]
  congr 1
  apply List.map_congr_left
  intro p _
  simp only [Function.comp, Prod.map]
  congr 1
  · congr 1; ring
  · congr 1; ring

end Cv.Rounding2
