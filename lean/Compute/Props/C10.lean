import Compute.Model.Optim
import Compute.Lemmas.C10
import Compute.Lemmas.C10LM
import Compute.Lemmas.C10LMAlg
import Compute.Lemmas.C10Tape
/-
C10 — optimizers follow their published update rules; Levenberg–Marquardt descends.

Theorems about the model of `src/optimize/{mod,adam,sgd,lm}.rs` (`Model/Optim.lean`) and of the
`reverse` tape (`Model/Tape.lean`).  `iter step s0 n` is the `n`-th iterate of a recurrence,
`stopIdx step stopped s0 k` = `min(k, first step at which the stop test fires)` (`Lemmas/C10.lean`).

* `adam_refines`, `sgd_refines`: for every gradient oracle, start, hyper-parameters and budget `k`
  the optimizer returns iterate `stopIdx k` of the published recurrence (stated separately as
  `kbCoord` — Kingma–Ba with bias correction, `t` counted from 1 — and `pubSgdCoord` — momentum with
  the Nesterov look-ahead gradient taken at `θ − μ·u`); `*_prefix`, `*_deterministic`.
* `stop_only_when_still`: an early stop implies that every parameter's relative change is `< 2⁻⁵²`
  (signed test of fix F29: `new = old ∨ |new − old| < ε·max(|new|,|old|)`).
* LM (`Lemmas/C10LM.lean`, `Lemmas/C10LMAlg.lean`): predicted reduction `δᵀ(μδ + Jᵀr) ≥ 0` for an exact
  solve of the damped normal equations (`lm_pred_nonneg`); accepted step ⇒ the residual sum of squares
  strictly decreases (`lmBody_descent`); for an IDEALISED evaluator (`EvalLaws`, not the tape evaluator):
  `rss(θ_t) ≤ rss(θ₀)` and the stored quantities belong to the current parameters
  (`lm_descends_idealEval`, `lm_never_worse_idealEval`, `lm_covariance_idealEval`); the statements for the
  evaluator of the source are in `Props/C10Deep.lean` and `Props/C10Review.lean`.
* Tape (`Lemmas/C10Tape.lean`): the reverse sweep returns the formal partial derivatives for
  programs over `+ − ×`, constants and parameters over any commutative ring.
-/
namespace Cv.C10
open Cv Cv.AD Cv.Opt

/-! ## Adam -/
section adam
variable {α : Type} [Field α] [Transc α]

/-- Kingma & Ba (2015), Algorithm 1, for one coordinate at time step `t ≥ 1`:
`m ← β₁m + (1−β₁)g`, `v ← β₂v + (1−β₂)g²`, `m̂ = m/(1−β₁ᵗ)`, `v̂ = v/(1−β₂ᵗ)`, `θ ← θ − α·m̂/(√v̂ + ε)`. -/
def kbCoord (h : AdamHP α) (t : Nat) (θ m v g : α) : α × α × α :=
  let m' := h.beta1 * m + (1 - h.beta1) * g
  let v' := h.beta2 * v + (1 - h.beta2) * g ^ 2
  let mhat := m' / (1 - h.beta1 ^ t)
  let vhat := v' / (1 - h.beta2 ^ t)
  (θ - h.stepsize * mhat / (Transc.sqrt vhat + h.epsilon), m', v')

/-- the published update applied coordinate-wise -/
def kbUpd (h : AdamHP α) (t : Nat) (θ m v g : List α) : AdamSt α :=
  let r := List.zipWith (fun (a : α × α × α) g => kbCoord h t a.1 a.2.1 a.2.2 g) (θ.zip (m.zip v)) g
  ⟨r.map (·.1), r.map (·.2.1), r.map (·.2.2)⟩

/-- one step of the published algorithm for a gradient oracle `g` (`none` = the objective panicked,
or returned a gradient of the wrong length) -/
def kbStep (g : List α → Option (List α)) (h : AdamHP α) (t : Nat) (s : AdamSt α) : Option (AdamSt α) :=
  (g s.θ).bind fun gr => if gr.length = s.θ.length then some (kbUpd h t s.θ s.m s.v gr) else none

theorem adamCoord_eq_kb (h : AdamHP α) (t : Nat) (ht : t < 2 ^ 31) (θ m v g : α) :
    adamCoord h t θ m v g = kbCoord h t θ m v g := by
  have hv : h.beta2 * v + (1 - h.beta2) * g * g = h.beta2 * v + (1 - h.beta2) * g ^ 2 := by ring
  simp only [adamCoord, kbCoord, powi_asI32 _ t ht, hv]
  rw [← sub_eq_add_neg]

theorem adamUpd_eq_kb (h : AdamHP α) (t : Nat) (ht : t < 2 ^ 31) (θ m v g : List α) :
    adamUpd h t θ m v g = kbUpd h t θ m v g := by
  fun_induction adamUpd h t θ m v g with
  | case1 θ θs m ms v vs g gs r s ih =>
    have hs : s = kbUpd h t θs ms vs gs := ih
    rw [hs]
    simp only [r, kbUpd, adamCoord_eq_kb h t ht, List.zip_cons_cons, List.zipWith_cons_cons, List.map_cons]
  | case2 θ m v g hne =>
    simp only [kbUpd]
    match θ, m, v, g with
    | [], _, _, _ => simp
    | _ :: _, [], _, _ => simp
    | _ :: _, _ :: _, [], _ => simp
    | _ :: _, _ :: _, _ :: _, [] => simp
    | a :: as, b :: bs, c :: cs, d :: ds => exact (hne a as b bs c cs d ds rfl rfl rfl rfl).elim

theorem adamStep_eq_kb (g : List α → Option (List α)) (h : AdamHP α) (t : Nat) (ht : t < 2 ^ 31) :
    adamStep g h t = kbStep g h t := by
  funext s
  simp only [adamStep, kbStep]
  cases g s.θ with
  | none => rfl
  | some gr => simp [adamUpd_eq_kb h t ht]

variable [BEq α] [LT α] [DecidableLT α] [FMax α]

/-- the stop test of `Adam::optimize` on two successive states -/
def adamStopped (s' s : AdamSt α) : Bool := converged s'.θ s.θ

def adamInit (θ0 : List α) : AdamSt α := ⟨θ0, List.replicate θ0.length 0, List.replicate θ0.length 0⟩

/-- **Adam refines the published recurrence.**  For every gradient oracle, start, hyper-parameters and
budget `k < 2³¹` (beyond that `t as i32` wraps), `Adam::optimize` returns the parameters of iterate
`min(k, stopIdx)` of Kingma–Ba's recurrence, where `stopIdx` is the first step whose maximal relative
change is `< ε`. -/
theorem adam_refines (g : List α → Option (List α)) (h : AdamHP α) (θ0 : List α) (k : Nat)
    (hk : k < 2 ^ 31) :
    adamG g h θ0 k =
      (iter (kbStep g h) (adamInit θ0) (stopIdx (kbStep g h) adamStopped (adamInit θ0) k)).map (·.θ) := by
  have e := runLoop_congr (adamStep g h) adamStopped (kbStep g h) (adamInit θ0) k
    (fun t _ htk => adamStep_eq_kb g h t (by omega))
  show Option.map _ (runLoop (adamStep g h) adamStopped k 0 (adamInit θ0)) = _
  rw [e]

/-- Prefix property: one more unit of budget either returns the same state (the run had stopped) or
applies exactly one more step to it. -/
theorem adam_prefix (g : List α → Option (List α)) (h : AdamHP α) (θ0 : List α) (k : Nat) :
    runLoop (adamStep g h) adamStopped (k + 1) 0 (adamInit θ0) =
      (if stoppedAt (adamStep g h) adamStopped (adamInit θ0)
            (stopIdx (adamStep g h) adamStopped (adamInit θ0) k) = true
        then runLoop (adamStep g h) adamStopped k 0 (adamInit θ0)
        else (runLoop (adamStep g h) adamStopped k 0 (adamInit θ0)).bind (adamStep g h (k + 1))) :=
  runLoop_succ _ _ _ _

/-- Determinism OF THE MODEL (trivial: it is a function).  What this does not cover: in the source the tape is
a `RefCell` owned by the optimizer object and could leak state between calls; `optimize` clears it on entry, and
the correspondence strata `used_clone` / `reuse` (second call on a used object) and the repeated-request check
of the oracle observe exactly that on the real code. -/
theorem adam_deterministic (g g' : List α → Option (List α)) (h h' : AdamHP α) (θ0 θ0' : List α) (k k' : Nat)
    (e1 : g = g') (e2 : h = h') (e3 : θ0 = θ0') (e4 : k = k') : adamG g h θ0 k = adamG g' h' θ0' k' := by
  subst e1 e2 e3 e4; rfl

end adam

/-! ## SGD -/
section sgd
variable {α : Type} [Field α] [Transc α]

/-- Momentum SGD for one coordinate (Sutskever et al. 2013 with `u = −v`): `u ← μu + α·g`, `θ ← θ − u`,
where `g` is the gradient at `θ` (plain / classical momentum) or at the look-ahead point `θ − μu`
(Nesterov). -/
def pubSgdCoord (h : SgdHP α) (θ u g : α) : α × α :=
  let u' := h.momentum * u + h.stepsize * g
  (θ - u', u')

def pubSgdUpd (h : SgdHP α) (θ u g : List α) : SgdSt α :=
  let r := List.zipWith (fun (a : α × α) g => pubSgdCoord h a.1 a.2 g) (θ.zip u) g
  ⟨r.map (·.1), r.map (·.2)⟩

/-- the point at which the published rule takes the gradient -/
def pubGradPoint (h : SgdHP α) (θ u : List α) : List α :=
  if h.nesterov then List.zipWith (fun p u => p - h.momentum * u) θ u else θ

def pubSgdStep (g : List α → Option (List α)) (h : SgdHP α) (_t : Nat) (s : SgdSt α) : Option (SgdSt α) :=
  (g (pubGradPoint h s.θ s.u)).bind fun gr =>
    if gr.length = s.θ.length then some (pubSgdUpd h s.θ s.u gr) else none

theorem sgdUpd_eq_pub (h : SgdHP α) (θ u g : List α) : sgdUpd h θ u g = pubSgdUpd h θ u g := by
  fun_induction sgdUpd h θ u g with
  | case1 θ θs u us g gs u' s ih =>
    have hs : s = pubSgdUpd h θs us gs := ih
    rw [hs]
    simp only [u', pubSgdUpd, pubSgdCoord, sub_eq_add_neg, List.zip_cons_cons, List.zipWith_cons_cons, List.map_cons]
  | case2 θ u g hne =>
    simp only [pubSgdUpd]
    match θ, u, g with
    | [], _, _ => simp
    | _ :: _, [], _ => simp
    | _ :: _, _ :: _, [] => simp
    | a :: as, b :: bs, c :: cs => exact (hne a as b bs c cs rfl rfl rfl).elim

theorem lookPoint_eq (mom : α) (θ u : List α) :
    lookPoint mom θ u = List.zipWith (fun p u => p - mom * u) θ u := by
  unfold lookPoint
  congr 1
  funext p u
  exact (sub_eq_add_neg p (mom * u)).symm

theorem sgdStep_eq_pub (g : List α → Option (List α)) (h : SgdHP α) (t : Nat) :
    sgdStep (sgdOracle g h) h t = pubSgdStep g h t := by
  funext s
  simp only [sgdStep, pubSgdStep, sgdOracle, pubGradPoint, lookPoint_eq]
  cases hn : h.nesterov <;> simp only [Bool.false_eq_true, if_false, if_true]
  · cases g s.θ with
    | none => rfl
    | some gr => simp [sgdUpd_eq_pub]
  · cases g (List.zipWith (fun p u => p - h.momentum * u) s.θ s.u) with
    | none => rfl
    | some gr => simp [sgdUpd_eq_pub]

variable [BEq α] [LT α] [DecidableLT α] [FMax α]

def sgdStopped (s' s : SgdSt α) : Bool := converged s'.θ s.θ

def sgdInit (θ0 : List α) : SgdSt α := ⟨θ0, List.replicate θ0.length 0⟩

/-- **SGD refines the published recurrence** (plain, momentum, Nesterov): for every gradient function
`g`, `SGD::optimize` — whose oracle evaluates `g` at the look-ahead point `θ − μ·u` when `nesterov` is
set — returns iterate `min(k, stopIdx)` of the published rule. -/
theorem sgd_refines (g : List α → Option (List α)) (h : SgdHP α) (θ0 : List α) (k : Nat) :
    sgdG (sgdOracle g h) h θ0 k =
      (iter (pubSgdStep g h) (sgdInit θ0) (stopIdx (pubSgdStep g h) sgdStopped (sgdInit θ0) k)).map (·.θ) := by
  have e := runLoop_congr (sgdStep (sgdOracle g h) h) sgdStopped (pubSgdStep g h) (sgdInit θ0) k
    (fun t _ _ => sgdStep_eq_pub g h t)
  show Option.map _ (runLoop (sgdStep (sgdOracle g h) h) sgdStopped k 0 (sgdInit θ0)) = _
  rw [e]

theorem sgd_prefix (G : List α → List α → Option (List α)) (h : SgdHP α) (θ0 : List α) (k : Nat) :
    runLoop (sgdStep G h) sgdStopped (k + 1) 0 (sgdInit θ0) =
      (if stoppedAt (sgdStep G h) sgdStopped (sgdInit θ0)
            (stopIdx (sgdStep G h) sgdStopped (sgdInit θ0) k) = true
        then runLoop (sgdStep G h) sgdStopped k 0 (sgdInit θ0)
        else (runLoop (sgdStep G h) sgdStopped k 0 (sgdInit θ0)).bind (sgdStep G h (k + 1))) :=
  runLoop_succ _ _ _ _

theorem sgd_deterministic (G G' : List α → List α → Option (List α)) (h h' : SgdHP α) (θ0 θ0' : List α)
    (k k' : Nat) (e1 : G = G') (e2 : h = h') (e3 : θ0 = θ0') (e4 : k = k') :
    sgdG G h θ0 k = sgdG G' h' θ0' k' := by
  subst e1 e2 e3 e4; rfl

end sgd

/-! non-vacuity: a one-dimensional quadratic over ℚ-like fields is not needed — the theorems are
equalities valid for all inputs; the guards (`k < 2³¹`) are satisfiable: -/
example : (200 : Nat) < 2 ^ 31 := by norm_num

/-! ## the stop rule -/
section stop
variable {α : Type} [Field α] [LinearOrder α] [IsStrictOrderedRing α] [Transc α] [FMax α]
  [BEq α] [LawfulBEq α]

/-- Laws connecting the two uninterpreted operations of the stop test with the order:
`f64::abs` is the absolute value and `f64::max` the maximum (true of `f64` on non-NaN values). -/
structure StopLaws (α : Type) [Field α] [LinearOrder α] [Transc α] [FMax α] : Prop where
  abs_eq : ∀ x : α, Transc.abs x = |x|
  fmax_eq : ∀ a b : α, FMax.fmax a b = max a b

theorem foldl_fmax_ge (L : StopLaws α) (xs : List α) (x : α) :
    x ≤ xs.foldl FMax.fmax x ∧ ∀ y ∈ xs, y ≤ xs.foldl FMax.fmax x := by
  induction xs generalizing x with
  | nil => simp
  | cons a as ih =>
    simp only [List.foldl_cons, List.mem_cons]
    have h1 := ih (FMax.fmax x a)
    rw [L.fmax_eq] at h1 ⊢
    refine ⟨le_trans (le_max_left x a) h1.1, ?_⟩
    intro y hy
    rcases hy with rfl | hy
    · exact le_trans (le_max_right x y) h1.1
    · exact h1.2 y hy

/-- The signed relative-change test: below `ε` means equal, or moved by less than `ε·max(|new|,|old|)`. -/
theorem relChange_lt (L : StopLaws α) (new old e : α) (h : relChange new old < e) :
    new = old ∨ |new - old| < e * max |new| |old| := by
  unfold relChange at h
  by_cases heq : (new == old) = true
  · left; exact eq_of_beq heq
  · right
    simp only [heq, Bool.false_eq_true, if_false] at h
    rw [L.abs_eq, L.abs_eq, L.abs_eq, L.fmax_eq] at h
    have hne : new ≠ old := fun hh => heq (by rw [hh]; exact beq_self_eq_true old)
    have hpos : 0 < max |new| |old| := by
      rcases eq_or_ne new 0 with h0 | h0
      · have : old ≠ 0 := fun ho => hne (by rw [h0, ho])
        exact lt_max_of_lt_right (abs_pos.mpr this)
      · exact lt_max_of_lt_left (abs_pos.mpr h0)
    exact (div_lt_iff₀ hpos).mp h

omit [Field α] [LinearOrder α] [IsStrictOrderedRing α] [Transc α] [FMax α] [BEq α] [LawfulBEq α] in
theorem mem_zipWith_of_mem_zip {β : Type} (f : α → α → β) (l1 l2 : List α) (p : α × α)
    (hp : p ∈ List.zip l1 l2) : f p.1 p.2 ∈ List.zipWith f l1 l2 := by
  induction l1 generalizing l2 with
  | nil => simp at hp
  | cons a as ih =>
    cases l2 with
    | nil => simp at hp
    | cons b bs =>
      simp only [List.zip_cons_cons, List.mem_cons] at hp
      simp only [List.zipWith_cons_cons, List.mem_cons]
      rcases hp with rfl | hp
      · left; rfl
      · right; exact ih bs hp

/-- `converged new old` ⇒ every coordinate is still. -/
theorem converged_still (L : StopLaws α) (new old : List α) (hc : converged new old = true) :
    ∀ p ∈ List.zip new old, p.1 = p.2 ∨ |p.1 - p.2| < machEps * max |p.1| |p.2| := by
  intro p hp
  unfold converged at hc
  cases hz : List.zipWith relChange new old with
  | nil =>
    rw [hz] at hc; simp [statMax] at hc
  | cons x xs =>
    rw [hz] at hc
    simp only [statMax, decide_eq_true_eq] at hc
    have hmem : relChange p.1 p.2 ∈ List.zipWith relChange new old :=
      mem_zipWith_of_mem_zip relChange new old p hp
    rw [hz] at hmem
    have hle : relChange p.1 p.2 ≤ xs.foldl FMax.fmax x := by
      rcases List.mem_cons.mp hmem with h1 | h1
      · rw [h1]; exact (foldl_fmax_ge L xs x).1
      · exact (foldl_fmax_ge L xs x).2 _ h1
    exact relChange_lt L p.1 p.2 machEps (lt_of_le_of_lt hle hc)

/-- **stop_only_when_still.**  If the loop of Adam / SGD (any step function, `proj` = the parameter
vector of a state) returns before its budget is exhausted, then between the last two iterates every
parameter satisfies `new = old ∨ |new − old| < 2⁻⁵²·max(|new|,|old|)`. -/
theorem stop_only_when_still {σ : Type} (L : StopLaws α) (step : Nat → σ → Option σ) (proj : σ → List α)
    (s0 : σ) (k : Nat)
    (hearly : stopIdx step (fun s' s => converged (proj s') (proj s)) s0 k < k) :
    ∃ j a b, stopIdx step (fun s' s => converged (proj s') (proj s)) s0 k = j + 1 ∧
      iter step s0 j = some a ∧ iter step s0 (j + 1) = some b ∧
      runLoop step (fun s' s => converged (proj s') (proj s)) k 0 s0 = some b ∧
      ∀ p ∈ List.zip (proj b) (proj a), p.1 = p.2 ∨ |p.1 - p.2| < machEps * max |p.1| |p.2| := by
  have hs := stopIdx_stopped step _ s0 k hearly
  have hrun := runLoop_eq_iter step (fun s' s => converged (proj s') (proj s)) s0 k
  generalize stopIdx step (fun s' s => converged (proj s') (proj s)) s0 k = r at hs hrun hearly
  cases r with
  | zero => simp [stoppedAt] at hs
  | succ j =>
    simp only [stoppedAt] at hs
    cases ha : iter step s0 j with
    | none => simp [ha] at hs
    | some a =>
      cases hb : iter step s0 (j + 1) with
      | none => simp [ha, hb] at hs
      | some b =>
        simp only [ha, hb] at hs
        exact ⟨j, a, b, rfl, ha, hb, by rw [hrun, hb], converged_still L _ _ hs⟩

end stop

/-! ## Levenberg–Marquardt and the tape: headline statements (proved in `Lemmas/C10LM*.lean`, `Lemmas/C10Tape.lean`) -/
section lm
variable {α : Type} [Field α] [LinearOrder α] [IsStrictOrderedRing α] [Inhabited α] [BEq α]
  [Transc α] [FMax α]

/-- **LM: an accepted step strictly decreases the residual sum of squares** (exact solve, `μ ≥ 0`):
one pass of the loop body either leaves the stored residual / `JᵀJ` / `Jᵀr` untouched or strictly
decreases `rss`. -/
theorem lm_accept_decreases {σ : Type} (E : LMEval σ α) (R Jf : List α → List α) (hn : 0 < E.n)
    (hshape : ∀ θ, (Jf θ).length = E.n * θ.length ∧ (R θ).length = E.n)
    (h : LMHP α) (s s' : LMSt σ α) (hI : LMInv E R Jf s) (hex : SolveExactAt E s)
    (hb : lmBody E h s = some s') :
    (s'.res = s.res ∧ s'.jtj = s.jtj ∧ s'.jtr = s.jtr) ∨ rss s' < rss s :=
  lmBody_descent E h s s' hb (lmInv_pred E R Jf hn hshape s hI hex)

/-- What `lmG` returns is `(θ, rss(θ)/(n−p) · invOf (J(θ)ᵀJ(θ)))` — FOR AN IDEALISED EVALUATOR satisfying
`EvalLaws` (all states); the evaluator of the source does not (`Cv.C10D.tapeEval_not_evalLaws`): for it use
`Cv.C10R.lmG_descends_on_sublevel` / `Cv.C10R.lm_descends_on_sublevel`, and `Cv.C10R.invOf_right_inverse`
for "`invOf` is the inverse".  At `n = p` the factor is `rss/0` (junk `0` in a field, `inf`/`NaN` in `f64`). -/
theorem lm_covariance_idealEval {σ : Type} (E : LMEval σ α) (R Jf : List α → List α) (L : EvalLaws E R Jf)
    (h : LMHP α) (θ0 : List α) (k : Nat) (θ cov : List α) (hr : lmG E h θ0 k = some (θ, cov)) :
    ∃ jtj inv, jtjOf E.n (Jf θ) = some jtj ∧ invOf θ.length jtj = some inv ∧ θ.length ≤ E.n ∧
      cov = inv.map ((dot8 (R θ) (R θ) / ((E.n - θ.length : Nat) : α)) * ·) :=
  lmG_result E R Jf L h θ0 k θ cov hr

/-- `lmG` returns the parameters of the final loop state; their `rss` is at most the initial one — FOR AN
IDEALISED EVALUATOR satisfying `EvalLaws` and an exact solver at all invariant states (see the remark at
`lm_covariance_idealEval`; the statement for the source evaluator is `Cv.C10R.lm_descends_on_sublevel`). -/
theorem lm_never_worse_idealEval {σ : Type} (E : LMEval σ α) (R Jf : List α → List α) (L : EvalLaws E R Jf)
    (hF : FMaxLaw α) (hn : 0 < E.n) (hshape : ∀ θ, (Jf θ).length = E.n * θ.length ∧ (R θ).length = E.n)
    (h : LMHP α) (htau : 0 ≤ h.tau) (hexact : ∀ s, LMInv E R Jf s → SolveExactAt E s)
    (θ0 : List α) (k : Nat) (θ cov : List α) (hr : lmG E h θ0 k = some (θ, cov)) :
    dot8 (R θ) (R θ) ≤ dot8 (R θ0) (R θ0) := by
  unfold lmG at hr
  split at hr
  · exact absurd hr (by simp)
  next s0 hs0 =>
    split at hr
    · exact absurd hr (by simp)
    next s hl =>
      obtain ⟨h1, h2, h3, _⟩ := lm_descends_idealEval E R Jf L hF hn hshape h htau hexact θ0 k s0 s hs0 hl
      have hθ : θ = E.vals s.tp := by
        unfold lmFinish at hr
        simp only at hr
        split at hr
        · exact absurd hr (by simp)
        · split at hr
          · exact absurd hr (by simp)
          · simp only [Option.some.injEq, Prod.mk.injEq] at hr
            exact hr.1.symm
      rw [hθ, ← h2, ← h3]
      exact h1

end lm

section nonvacuity
/-- uninterpreted operations instantiated on `ℚ` for the examples -/
local instance : Transc ℚ := ⟨id, id, id, fun a _ => a, id, id, id, abs, id, id⟩
local instance : FMax ℚ := ⟨max⟩

/-- the accept-test lemma applies: `rss 2 → 1` with predicted reduction `1` over `ℚ` -/
example : (1 : ℚ) < 2 := rho_pos_decreases 2 1 1 (by norm_num) (by norm_num [half])

/-- gradient of `x²` / plain SGD with step 1/2: from `3` it lands on `0`, is still at step 2 and stops there -/
def exGrad : List ℚ → Option (List ℚ) := fun θ => some (θ.map fun x => 2 * x)
def exHP : SgdHP ℚ := ⟨1/2, 0, false⟩

/-- the hypothesis `hearly` of `stop_only_when_still` holds (stop index 2 < budget 5) … -/
theorem exStop_early : stopIdx (sgdStep (sgdOracle exGrad exHP) exHP)
    (fun s' s => converged (SgdSt.θ s') (SgdSt.θ s)) (sgdInit [3]) 5 < 5 := by decide +kernel

/-- … so the theorem applies (all hypotheses instantiated). -/
example := stop_only_when_still (α := ℚ) ⟨fun _ => rfl, fun _ _ => rfl⟩
  (sgdStep (sgdOracle exGrad exHP) exHP) SgdSt.θ (sgdInit [3]) 5 exStop_early

/-- the laws assumed by `stop_only_when_still` / `lm_descends_idealEval` hold for this instance -/
example : StopLaws ℚ := ⟨fun _ => rfl, fun _ _ => rfl⟩
example : FMaxLaw ℚ := fun _ _ => rfl

end nonvacuity

section tape
variable {R : Type} [CommRing R] [Div R] [Transc R]

/-- **Tape**: over any commutative ring, for programs over `+ − ×`, negation, constants, the data point
and parameters, the reverse sweep of the `reverse` tape returns the formal partial derivatives
(`dualEval` = textbook forward-mode differentiation).  Nodes `÷ powi exp sin` are not covered — and for
`constant ÷ variable` the crate's weight is wrong (finding `reverse:f64-div-var-weight`). -/
theorem tape_gradient_correct_partial (prog : List (Op R)) (θ : List R)
    (hp : ∀ o ∈ prog, RingOp o) (g : List R) (h : gradAt prog θ = some g) :
    ∃ D, dualEval prog θ none = some D ∧ g = (List.range θ.length).map D.d :=
  gradAt_ring_correct prog θ hp g h

end tape

end Cv.C10
