"""C18 — distributions are a pure function of current parameters and the RNG seed.

One request line = one self-contained history on one object of one of the 13 univariate distributions
(`hist <kind> <seed> <3 probes> <nsteps> <step>*`, see exec/src/bin/c18.rs).  After every step the executor
reports the panic flag, the whole record (parameters and cached sub-sampler objects, read through `Debug`),
pdf/pmf at three probes, mean, var, 32 seeded draws, the same 32 draws taken while unrelated distribution
objects are created / mutated / sampled, and all of that again for a twin freshly constructed from the current
parameters.  The Lean model (`Model/DistState.lean` + `Model/C18Obs.lean`) answers the same line and is compared
token for token (draws included).  The oracle below decides the property on the implementation's reply alone."""
import math

from .common import Failure, f2h, h2f, parse_reply

ID = "C18"
BIN = "c18"
PROOF_MODULES = ["Compute.Props.C18", "Compute.Props.C18Review", "Compute.Props.C18Default", "Compute.Lemmas.C18Step", "Compute.Lemmas.C18Norm"]
REQUIRED_THEOREMS = [
    "Cv.C18.valid_inv", "Cv.C18.coherent_inv", "Cv.C18.update_total", "Cv.C18.observational_equality",
    "Cv.C18.new_isSome_iff", "Cv.C18.set_spec", "Cv.C18.update_spec", "Cv.C18.history_inv",
    "Cv.C18.step_inv", "Cv.C18.reject_invalid", "Cv.C18.stream_equality", "Cv.C18.reachable_inv",
    # review round (Props/C18Review.lean)
    "Cv.C18.modelled_observations_eq", "Cv.C18.sampleP_beta_param", "Cv.C18.sampleP_chisquared_param",
    "Cv.C18.set_total_independent", "Cv.C18.uniform_set_iff", "Cv.C18.discreteuniform_set_iff",
    "Cv.C18.chiSquared_setDof_srctie",
    # construction route Default (Props/C18Default.lean)
    "Cv.C18.defaultD_record", "Cv.C18.ChiSquared_default_eq_new", "Cv.C18.defaultD_reachable", "Cv.C18.default_history_inv",
    "Cv.C18.ChiSquared_default_record", "Cv.C18.Beta_default_record", "Cv.C18.Gamma_default_record",
    "Cv.C18.Exponential_default_record", "Cv.C18.Gumbel_default_record", "Cv.C18.Binomial_default_record",
    "Cv.C18.T_default_record",
]
RULE = ("start states new(params) / X::default() / X::default() then clone or copy (30% of the histories, plus a corpus line and "
        "a sample_n + sample_matrix line straight after Default per distribution, each compared with the twin new(default parameters)); "
        "random histories of 1..20 mutations (setters, bulk updates, re-construction; ~30% invalid values; valid "
        "targets on both sides of the current parameters, bounds entirely above / below the old interval) after a "
        "constructor call, for each of the 13 univariate distributions x 100 (quick) / 400 (thorough) seeds, plus the "
        "witnesses of F32/F35; after every step: record, pdf/pmf at 3 probes, mean, var, 32 seeded draws, 32 seeded "
        "draws with unrelated objects interleaved, and a fresh twin; bulk draws (sample_n at n = 1000, 32767, 32768, 40000, 65536, "
        "100000 and sample_matrix with rows*cols >= 32768 for Normal/Exponential/Uniform/Bernoulli; thorough: all 13 kinds at "
        "n = 40000 and 300x150) run twice and as n single sample() calls from one seed, FNV digest + final generator state "
        "compared with the model's sequential sampleN; a deterministic exact-domain-boundary stratum (every validated parameter at its "
        "boundary, +-1 ulp, +-EPSILON, +-EPSILON/2, b(1+-2^-52), +-0, +-smallest subnormal through new / setter / update; for "
        "Uniform, DiscreteUniform, Pareto, Beta, Gamma pairs equal / adjacent / crossing by 1..3 ulps at 2^-1074 .. 1e300 through "
        "new, both setter orders and update); non-trivial = distinct (kind, op, valid?, panicked?) "
        "step class and distinct (kind, op sequence) history")
EXHAUSTIVE = {"quick": False, "thorough": False}
NOT_PROVED = [
    "clause 1 (observational identity with a fresh twin) is proved as RECORD EQUALITY over a linearly ordered field "
    "(`reachable_inv`: the whole record, cached sub-samplers included, equals `new(current parameters)`); "
    "`observational_equality` and `stream_equality` are its congruence corollaries and `modelled_observations_eq` instantiates "
    "them with the modelled pdf / pmf / mean / var / sample of Model/C18Obs.lean over an ordered field with uninterpreted "
    "transcendental functions.  Nothing is proved about these observations at Float, and nothing about the Rust methods: "
    "at f64 the observation layer is tie (bit for bit) + twin oracle only",
    "the clause `a setter to any valid value succeeds whatever the previous parameters were` is proved literally only for the 11 "
    "kinds with independent fields (`set_total_independent`).  For Uniform / DiscreteUniform a bound is valid only jointly with "
    "the other current bound (`uniform_set_iff`, `discreteuniform_set_iff`): `Uniform(0,1).set_lower(5)` panics, in the model and "
    "in Rust, and must, since accepting it would create lower > upper; `set_spec` states the joint reading (a setter accepts iff "
    "the constructor accepts the resulting parameter list).  `update` is total on valid pairs (`update_total`)",
    "`does not depend on how many other distribution objects exist` has no theorem: a model sampler has no argument through "
    "which another object could act (construction of the types); for Rust it is the interleaved-draws oracle",
    "the theorems are about the hand-written record model over a linearly ordered field; IEEE rounding plays no role in "
    "the state machine (only comparisons of parameters with 0, 1 and each other), the tie to the Rust code is the "
    "bit-for-bit comparison of every step of every generated history",
    "that `sample()`, `pdf`, `mean`, `var` read nothing but the record and the global generator is true of the model by "
    "construction of its types; for the Rust code it is checked by the twin comparison and by the draws taken with "
    "unrelated objects being created, mutated and sampled around them",
    "NaN parameters are outside the theorems (linear order); whether NaN belongs to a domain is not decided: for NaN the check "
    "only demands that setters / updates accept exactly what the constructor accepts and that the object equals its twin "
    "(tie at Float, where every guard is written in the comparison form of the source, + twin oracle)",
]
TRUSTED = [
    "`#[derive(Debug)]` of the 13 structs prints every field (used to read the private parameters and the cached sub-samplers)",
    "per-step `catch_unwind` in the executor; `alea::set_seed` seeds the generator the samplers use",
    "Model/DistPdf.lean (C02) and Model/Samplers.lean (C03) for the observed values at Float; Model/Rng.lean for alea",
]
ASSUMPTIONS = [
    "theorems: parameters are not NaN (linear order).  NaN and -NaN do occur in the generated histories (~5% of the f64 "
    "values of setters, update slices and re-construction, plus a corpus line per distribution) and are covered by the "
    "bit-for-bit tie and by twin consistency only: accepted iff the Rust constructor accepts the resulting parameter list; "
    "draws are not taken while a record holds a NaN (several rejection samplers do not terminate on NaN)",
    "`usize` is 64 bits (the casts `as usize`/`as u64` share one model)",
    "a setter index / argument type that does not exist in the Rust API is not a call (model: identity)",
]
IMPL_TIMEOUT = 900
MODEL_TIMEOUT = 900

# kind -> (signature, field names, domain predicate on the parameter list)
SPEC = {
    "bernoulli": ("f", ["p"], lambda v: 0.0 <= v[0] <= 1.0),
    "beta": ("ff", ["alpha", "beta"], lambda v: v[0] > 0 and v[1] > 0),
    "binomial": ("nf", ["n", "p"], lambda v: v[0] >= 0 and 0.0 <= v[1] <= 1.0),
    "chisquared": ("u", ["dof"], lambda v: v[0] > 0),
    "discreteuniform": ("ii", ["lower", "upper"], lambda v: v[0] <= v[1]),
    "exponential": ("f", ["lambda"], lambda v: v[0] > 0),
    "gamma": ("ff", ["alpha", "beta"], lambda v: v[0] > 0 and v[1] > 0),
    "gumbel": ("ff", ["mu", "beta"], lambda v: v[1] > 0),
    "normal": ("ff", ["mu", "sigma"], lambda v: v[1] >= 0),
    "pareto": ("ff", ["alpha", "minval"], lambda v: v[0] > 0 and v[1] > 0),
    "poisson": ("f", ["lambda"], lambda v: v[0] > 0),
    "t": ("f", ["dof"], lambda v: v[0] > 0),
    "uniform": ("ff", ["lower", "upper"], lambda v: v[0] <= v[1]),
}
KINDS = sorted(SPEC)
# `X::default()` is documented to be `X::new(<these>)`
DEFAULTS = {
    "bernoulli": [0.5], "beta": [1.0, 1.0], "binomial": [1, 0.5], "chisquared": [1], "discreteuniform": [0, 1],
    "exponential": [1.0], "gamma": [1.0, 1.0], "gumbel": [0.0, 1.0], "normal": [0.0, 1.0], "pareto": [1.0, 1.0],
    "poisson": [1.0], "t": [1.0], "uniform": [0.0, 1.0],
}
DISCRETE = {"bernoulli", "binomial", "discreteuniform", "poisson"}
# value class of every parameter
PCLASS = {
    "bernoulli": ["prob"], "beta": ["pos", "pos"], "binomial": ["nat", "prob"], "chisquared": ["posnat"],
    "discreteuniform": ["lo_i", "hi_i"], "exponential": ["pos"], "gamma": ["pos", "pos"], "gumbel": ["real", "pos"],
    "normal": ["real", "nonneg"], "pareto": ["pos", "pos"], "poisson": ["pos"], "t": ["pos"],
    "uniform": ["lo_f", "hi_f"],
}
U64MAX = (1 << 64) - 1
I64MAX = (1 << 63) - 1
I64MIN = -(1 << 63)


def cast_u64(x):
    if x != x or x <= 0:
        return 0
    if x >= 18446744073709551616.0:
        return U64MAX
    return int(x)


def cast_i64(x):
    if x != x:
        return 0
    if x >= 9223372036854775808.0:
        return I64MAX
    if x <= -9223372036854775808.0:
        return I64MIN
    return int(x)


def cast_slice(kind, ps):
    sig = SPEC[kind][0]
    out = []
    for ty, x in zip(sig, ps):
        out.append(x if ty == "f" else cast_i64(x) if ty == "i" else cast_u64(x))
    return out


def fhex(x):
    """like f2h, but a NaN travels as an explicit bit pattern so that its sign is part of the request"""
    x = float(x)
    if x != x:
        return "fff8000000000000" if math.copysign(1.0, x) < 0 else "7ff8000000000000"
    return f2h(x)


def isnan(v):
    return isinstance(v, float) and v != v


def show_arg(ty, v):
    return fhex(v) if ty == "f" else str(int(v))


def same(ty, a, b):
    """identity of two parameter values as the record stores them (bit pattern for floats)"""
    return f2h(a) == f2h(b) if ty == "f" else int(a) == int(b)


# ------------------------------------------------------------------------------------------------ generator
def gen_value(rng, cls, cur, i, valid):
    """A value of class `cls` for parameter i; `cur` = current parameter list (None before construction)."""
    c = cur[i] if cur else None
    if cls == "pos":
        if valid:
            if rng.chance(0.03):
                return rng.choice([1e-300, 1e300, float("inf"), 1e-30, 1e30])
            k = rng.randint(0, 9)
            if c is not None and k < 3 and 0 < c < 1e300:
                return c * rng.choice([0.5, 2.0, 1.0 + 2.0 ** -52, 0.999, 10.0, 0.1])  # both sides of the current value
            if k == 3:
                return rng.choice([1.0, 0.5, 2.0, 3.0, 10.0, 1e-8, 1e6, 0.25, 9.999, 10.0, 30.0])
            if k == 4:
                return float(rng.randint(1, 60))
            return rng.loguniform(1e-3, 1e3)
        return rng.choice([0.0, -0.0, -1.0, -rng.loguniform(1e-6, 1e3), -1e-300, float("-inf")])
    if cls == "real":
        if rng.chance(0.03):
            return rng.choice([1e300, -1e300, float("inf"), float("-inf"), 1e-300])
        k = rng.randint(0, 5)
        if k == 0:
            return rng.choice([0.0, -0.0, 1.0, -1.0, 1e6, -1e6])
        if c is not None and k == 1:
            return c + rng.choice([-1.0, 1.0]) * rng.loguniform(1e-3, 1e3)
        return rng.normal() * 10.0 ** rng.randint(-2, 3)
    if cls == "nonneg":
        if valid:
            if rng.chance(0.03):
                return rng.choice([1e-300, 1e300, float("inf")])
            k = rng.randint(0, 5)
            if k == 0:
                return rng.choice([0.0, -0.0, 1.0, 1e-8, 1e6])
            if c is not None and k == 1 and c > 0:
                return c * rng.choice([0.5, 2.0, 0.999, 1.001])
            return rng.loguniform(1e-3, 1e3)
        return rng.choice([-1.0, -rng.loguniform(1e-6, 1e3), -1e-300, float("-inf")])
    if cls == "prob":
        if valid:
            k = rng.randint(0, 5)
            if k == 0:
                return rng.choice([0.0, 1.0, 0.5, -0.0, 1.0 - 2.0 ** -53, 2.0 ** -30, 0.3])
            if c is not None and k == 1:
                return min(1.0, max(0.0, c + rng.choice([-0.25, 0.25, -0.01, 0.01])))
            return rng.random()
        return rng.choice([-0.1, 1.5, -1e-300, 1.0 + 2.0 ** -52, float("inf"), float("-inf"), -rng.loguniform(1e-3, 10), 1 + rng.loguniform(1e-3, 10)])
    if cls == "nat":  # Binomial.n: every u64 is valid
        k = rng.randint(0, 9)
        if k == 0:
            return rng.choice([0, 1, 2, 1000, 100000])
        if c is not None and k == 1:
            return min(U64MAX, max(0, int(c) + rng.choice([-1, 1, -10, 10, 100])))
        if rng.chance(0.02):
            return rng.choice([10 ** 9, 2 ** 31, 2 ** 32 + 5, 10 ** 12])
        return rng.randint(0, 400) if k < 8 else rng.randint(1000, 1000000)
    if cls == "posnat":
        if valid:
            k = rng.randint(0, 9)
            if c is not None and k < 2:
                return min(U64MAX, max(1, int(c) + rng.choice([-1, 1, -10, 10, 48])))
            return rng.randint(1, 200) if k < 8 else rng.choice([1, 2, 50, 1000, 1000000])
        return 0
    raise ValueError(cls)


def gen_bounds(rng, cur, integer, valid, mode=None):
    """A pair (lower, upper) relative to the current interval."""
    def val(x):
        return int(round(x)) if integer else float(x)

    if cur:
        a, b = float(cur[0]), float(cur[1])
    else:
        a, b = 0.0, 1.0
    w = max(b - a, 1.0)
    mode = mode or rng.choice(["above", "below", "overlap-right", "overlap-left", "inside", "around", "far", "point"])
    g = rng.randint(1, 50) if integer else rng.loguniform(1e-2, 1e2)
    if mode == "above":
        lo, hi = b + g, b + g + w * rng.uniform(0.1, 3)
    elif mode == "below":
        hi = a - g
        lo = hi - w * rng.uniform(0.1, 3)
    elif mode == "overlap-right":
        lo, hi = a + (b - a) * 0.5, b + g
    elif mode == "overlap-left":
        lo, hi = a - g, a + (b - a) * 0.5
    elif mode == "inside":
        lo, hi = a + (b - a) * 0.25, a + (b - a) * 0.75
    elif mode == "around":
        lo, hi = a - g, b + g
    elif mode == "far":
        s = rng.choice([-1, 1]) * (10 ** rng.randint(3, 18 if integer else 300))
        lo, hi = s, s + g
    else:
        lo = hi = a + g * rng.choice([-1, 1])
    lo, hi = val(lo), val(hi)
    if lo > hi:
        lo, hi = hi, lo
    if not valid:
        if lo == hi:
            hi = val(hi + 1)
        lo, hi = hi, lo
    return [lo, hi], mode


def frac_float(rng, i):
    """a float whose `as i64`/`as u64` cast is i (fractional part towards zero added sometimes)"""
    x = float(i)
    if rng.chance(0.4) and abs(i) < 2 ** 40:
        f = rng.choice([0.25, 0.5, 0.9990234375])
        x = x + f if i > 0 else x - f if i < 0 else rng.choice([f, -f])
    return x


def gen_history(rng, kind, cover, corpus_steps=None):
    sig, fields, dom = SPEC[kind]
    cls = PCLASS[kind]
    bounds = kind in ("uniform", "discreteuniform")
    integer = kind == "discreteuniform"
    cur = None
    steps = []

    def count(k):
        cover[k] = cover.get(k, 0) + 1

    def new_args(valid):
        if bounds:
            return gen_bounds(rng, cur, integer, valid)[0]
        args = [gen_value(rng, c, cur, i, True) for i, c in enumerate(cls)]
        if not valid:
            bad = [i for i, c in enumerate(cls) if c not in ("real", "nat")]
            i = rng.choice(bad)
            args[i] = gen_value(rng, cls[i], cur, i, False)
        return args

    def nanify(vals, types):
        """occasionally replace one f64 of a value list by NaN or -NaN"""
        idx = [i for i, t in enumerate(types) if t == "f"]
        if idx and vals and rng.chance(0.05):
            i = rng.choice([j for j in idx if j < len(vals)] or [None])
            if i is not None:
                vals = list(vals)
                vals[i] = rng.choice([float("nan"), -float("nan")])
                count("nan-value")
        return vals

    nmut = rng.randint(1, 20)
    # first constructor call (sometimes a panicking one first)
    if rng.chance(0.08):
        steps.append(("new", new_args(False)))
        count("ctor-invalid-first")
    start = rng.random()
    if start < 0.7:
        a = new_args(True)
        steps.append(("new", a))
        cur = list(a)
        count("start-new")
    else:
        # construction route `Default` (documented to be new(default parameters)), optionally cloned / copied
        steps.append(("default",))
        cur = list(DEFAULTS[kind])
        count("start-default")
        if start >= 0.85:
            steps.append((rng.choice(["clone", "copy"]),))
            count("start-default-clone")
    for _ in range(nmut):
        if rng.chance(0.04):
            steps.append((rng.choice(["clone", "copy", "default"]),))
            count("mid-" + steps[-1][0])
            if steps[-1][0] == "default":
                cur = list(DEFAULTS[kind])
            continue
        r = rng.random()
        valid = not rng.chance(0.3)
        if r < 0.5:  # setter
            i = rng.randint(0, len(sig) - 1)
            if bounds:
                lo, hi = cur
                g = rng.randint(1, 40) if integer else rng.loguniform(1e-2, 1e2)
                if i == 0:
                    v = (hi - g * rng.choice([0, 0.5, 1, 10])) if valid else hi + g
                else:
                    v = (lo + g * rng.choice([0, 0.5, 1, 10])) if valid else lo - g
                v = int(round(v)) if integer else float(v)
                if integer and not valid and ((i == 0 and v <= hi) or (i == 1 and v >= lo)):
                    v = hi + 1 if i == 0 else lo - 1
                if integer and valid and ((i == 0 and v > hi) or (i == 1 and v < lo)):
                    v = hi if i == 0 else lo
            else:
                if cls[i] in ("real", "nat"):
                    valid = True
                v = gen_value(rng, cls[i], cur, i, valid)
            if sig[i] == "f" and rng.chance(0.05):
                v = rng.choice([float("nan"), -float("nan")])
                count("nan-value")
            steps.append(("set", i, v))
            cand = list(cur)
            cand[i] = v
            ok = dom(cand)
            count("set-valid" if ok else "set-invalid")
            if ok:
                cur = cand
        elif r < 0.9:  # bulk update
            mode = None
            if bounds:
                args, mode = gen_bounds(rng, cur, integer, valid)
            else:
                args = new_args(valid)
            ps = [x if t == "f" else frac_float(rng, x) for t, x in zip(sig, args)]
            if kind == "chisquared" and not valid:
                ps = [rng.choice([0.0, 0.5, -3.0, -0.0, 0.999, float("-inf")])]
            if kind in ("chisquared",) and valid and rng.chance(0.03):
                ps = [1e30]
            if kind == "binomial" and rng.chance(0.1):
                ps[0] = rng.choice([-1.0, -0.5, 0.75, float("-inf")])
            ps = nanify(ps, "f" * len(ps))
            shape = rng.random()
            if shape < 0.06:
                ps = ps[:rng.randint(0, len(ps) - 1)]
                count("update-short-slice")
            elif shape < 0.10:
                ps = ps + [1.0]
                count("update-long-slice")
            steps.append(("upd", ps))
            if len(ps) == len(sig):
                cand = cast_slice(kind, ps)
                ok = dom(cand)
                count("update-valid" if ok else "update-invalid")
                if mode and ok:
                    count("update-bounds-" + mode)
                if ok:
                    cur = cand
                else:
                    cur = None  # a panicking update may be half applied; resynchronise below
            else:
                cur = None
            if cur is None:
                # the generator does not know the state after a panicking multi-setter update; continue from a
                # re-construction so that later "both sides of the current value" choices stay meaningful
                a = new_args(True)
                if rng.chance(0.5):
                    steps.append(("new", a))
                    cur = list(a)
                    count("reconstruct")
                else:
                    cur = list(a)  # only a guess of the state: later values are still fine, just less targeted
        else:  # re-construction
            a = nanify(new_args(valid), sig)
            steps.append(("new", a))
            count("reconstruct-valid" if dom(a) else "reconstruct-invalid")
            if dom(a):
                cur = list(a)
    return steps


def probes_for(rng, kind):
    if kind in DISCRETE:
        return [rng.randint(-2, 3), rng.randint(0, 40), rng.randint(0, 400)]
    return [rng.choice([0.5, 0.1, 0.9, 0.0]), rng.normal() * 3.0, rng.loguniform(1e-2, 1e2) * rng.choice([1, 1, -1])]


def render(kind, seed, probes, steps):
    sig = SPEC[kind][0]
    toks = ["hist", kind, str(seed)]
    toks += [str(p) if kind in DISCRETE else f2h(p) for p in probes]
    toks.append(str(len(steps)))
    for s in steps:
        if s[0] in ("default", "clone", "copy"):
            toks.append(s[0])
        elif s[0] == "new":
            toks += ["new"] + [show_arg(t, v) for t, v in zip(sig, s[1])]
        elif s[0] == "set":
            toks += ["set", str(s[1]), show_arg(sig[s[1]], s[2])]
        else:
            toks += ["upd", str(len(s[1]))] + [fhex(x) for x in s[1]]
    return " ".join(toks)


NAN = float("nan")


def corpus_default():
    """Construction route `Default` for every distribution (round-8 seed C18r: ChiSquared::default() built with
    `Gamma::default()` as sampler): observe right after `default`, after `clone` and `copy`, then every setter to its own
    default value (heals a stale cache, must change nothing), a fresh `default`, an update, and `default` once more."""
    out = []
    for kind in ["chisquared"] + [k for k in KINDS if k != "chisquared"]:
        sig = SPEC[kind][0]
        dv = DEFAULTS[kind]
        steps = [("default",), ("clone",), ("copy",)]
        steps += [("set", i, dv[i]) for i in range(len(sig))]
        steps += [("default",), ("upd", [float(v) for v in dv]), ("default",), ("clone",)]
        out.append(render(kind, 20260926, [0, 1, 15] if kind in DISCRETE else [0.5, 1.0, 3.0], steps))
        out.append(render_bulk(kind, 77, 1000, 0, None))
    return out


def corpus():
    P = [0.5, 1.0, 3.0]
    PI = [0, 1, 15]
    return corpus_default() + [
        # F32: ChiSquared::set_dof kept the old Gamma sampler
        render("chisquared", 7, P, [("new", [2]), ("set", 0, 50), ("upd", [3.0])]),
        # F35: Uniform / DiscreteUniform update validated the new lower bound against the old upper bound
        render("uniform", 7, [0.5, 5.5, -5.5], [("new", [0.0, 1.0]), ("upd", [5.0, 6.0]), ("upd", [-6.0, -5.0]), ("upd", [2.0, 1.0])]),
        render("discreteuniform", 7, [0, 15, -15], [("new", [0, 1]), ("upd", [10.0, 20.0]), ("upd", [-20.7, -10.2]), ("upd", [3.0, 2.0])]),
        # half-applied two-setter update: alpha is assigned (and alpha_gen rebuilt) before beta is rejected
        render("beta", 11, P, [("new", [1.0, 1.0]), ("upd", [5.0, -1.0]), ("set", 1, 2.0), ("upd", [3.0]), ("upd", [])]),
        render("gamma", 11, P, [("new", [2.0, 1.0]), ("upd", [0.5, 0.0]), ("set", 0, -1.0), ("set", 1, 4.0)]),
        render("binomial", 11, PI, [("new", [10, 0.5]), ("upd", [20.0, 1.5]), ("upd", [-3.0, 0.25]), ("set", 1, 1.0), ("set", 0, 0)]),
        render("pareto", 11, P, [("new", [1.0, 1.0]), ("upd", [2.0, 3.0, 4.0]), ("upd", [2.0, 3.0]), ("upd", [-2.0, 3.0])]),
        render("normal", 3, P, [("new", [0.0, -1.0]), ("new", [0.0, 0.0]), ("upd", [1.0, -0.0]), ("set", 1, -1e-300), ("set", 1, 2.0)]),
        render("exponential", 3, P, [("new", [1.0]), ("set", 0, 0.0), ("set", 0, 7.0), ("upd", [0.25])]),
        render("gumbel", 3, P, [("new", [0.0, 1.0]), ("upd", [3.0, 0.0]), ("set", 1, 0.5)]),
        render("poisson", 3, PI, [("new", [1.0]), ("set", 0, 20.0), ("set", 0, -1.0), ("upd", [9.5])]),
        render("t", 3, P, [("new", [1.0]), ("set", 0, 0.0), ("set", 0, 30.0), ("upd", [2.0])]),
        # observations that panic (i64 overflow in pmf / var / sample; Gamma::new(0, 1) inside T::sample): `X` on both sides
        render("discreteuniform", 5, [0, -9 * 10 ** 18, 9 * 10 ** 18], [("new", [-9 * 10 ** 18, 9 * 10 ** 18]), ("set", 0, 9 * 10 ** 18 - 3), ("upd", [-1e30, 1e30]), ("set", 1, 5)]),
        render("t", 5, P, [("new", [5e-324]), ("set", 0, 1e-300), ("upd", [float("inf")])]),
        # NaN / -NaN through constructor, every f64 setter and the bulk update of every kind (rule: setters and updates
        # accept exactly what the constructor accepts; seeded change C18a: Bernoulli::set_p written as `p < 0. || p > 1.`)
    ] + [
        render(kind, 9, PI if kind in DISCRETE else P,
               [("new", first)]
               + [st for i, t in enumerate(SPEC[kind][0]) if t == "f" for st in (("set", i, NAN), ("set", i, first[i]), ("set", i, -NAN))]
               + [("upd", [NAN if j == i else float(v) for j, v in enumerate(first)]) for i in range(len(first))]
               + [("upd", [-NAN] * len(first)), ("new", [NAN if t == "f" else v for t, v in zip(SPEC[kind][0], first)]), ("upd", [float(v) for v in first])])
        for kind, first in (("bernoulli", [0.5]), ("beta", [2.0, 3.0]), ("binomial", [10, 0.5]), ("chisquared", [3]),
                            ("discreteuniform", [0, 5]), ("exponential", [1.5]), ("gamma", [2.0, 3.0]), ("gumbel", [0.5, 2.0]),
                            ("normal", [1.0, 2.0]), ("pareto", [2.0, 3.0]), ("poisson", [4.0]), ("t", [3.0]), ("uniform", [0.0, 1.0]))
    ] + [
        render("bernoulli", 3, PI, [("new", [0.5]), ("set", 0, 1.0 + 2.0 ** -52), ("set", 0, 1.0), ("upd", [0.0]), ("upd", [0.25])]),
    ]


BULK_SIZES = [1000, 32767, 32768, 40000, 65536, 100000]
BULK_PARAMS = {
    "bernoulli": [0.3], "beta": [2.0, 3.5], "binomial": [40, 0.3], "chisquared": [5], "discreteuniform": [-3, 12],
    "exponential": [1.5], "gamma": [2.5, 1.5], "gumbel": [0.5, 2.0], "normal": [1.0, 2.0], "pareto": [3.0, 1.5],
    "poisson": [4.5], "t": [5.0], "uniform": [-1.0, 2.5],
}


# ------------------------------------------------------------------------------------------------ exact domain boundaries
EPS = 2.0 ** -52
TINY = 5e-324  # smallest subnormal


def ulps(x, k):
    """x advanced by k units in the last place (k may be negative)"""
    for _ in range(abs(k)):
        x = math.nextafter(x, math.inf if k > 0 else -math.inf)
    return x


def around(b):
    """The boundary itself, its two neighbours, b +- EPSILON, b +- EPSILON/2, b (1 +- 2^-52), +-0, +- smallest subnormal
    (distinct bit patterns, in a fixed order)."""
    vals = [b, ulps(b, 1), ulps(b, -1), b + EPS, b - EPS, b + EPS / 2, b - EPS / 2, b * (1 + EPS), b * (1 - EPS),
            0.0, -0.0, TINY, -TINY]
    seen, out = set(), []
    for v in vals:
        h = fhex(v)
        if h not in seen:
            seen.add(h)
            out.append(v)
    return out


# boundaries of each value class
CLASS_BOUNDS = {"pos": [0.0], "nonneg": [0.0], "prob": [0.0, 1.0], "real": [0.0], "posnat": [0.0, 1.0], "nat": [0.0, 1.0]}
PAIR_MAGS = [TINY, 2.0 ** -30, 0.1 + 0.2, 1.0, 2.0, 2.0 ** 52, 1e300]


def float_pairs():
    """(lower, upper, crossing) : equal, adjacent in both orders, crossing by 1, 2, 3 ulps, at the magnitudes of PAIR_MAGS
    (0.1 + 0.2 against 0.3 included), both signs."""
    out = []
    for m in PAIR_MAGS:
        for sgn in (1.0, -1.0):
            x = sgn * m
            for k in (0, 1, 2, 3):
                y = ulps(x, k)
                out.append((x, y, 0))
                if k:
                    out.append((y, x, k))
    out += [(0.3, 0.1 + 0.2, 0), (0.1 + 0.2, 0.3, 1), (-0.0, 0.0, 0), (0.0, -0.0, 0), (-TINY, TINY, 0), (TINY, -TINY, 2)]
    return out


def int_pairs():
    out = []
    for m in (0, 1, -1, 2 ** 31, -(2 ** 31), 2 ** 52, 2 ** 53, 9 * 10 ** 18, -9 * 10 ** 18):
        for k in (0, 1, 2, 3):
            out.append((m, m + k, 0))
            if k:
                out.append((m + k, m, k))
    return out


def gen_boundary(cover):
    """Deterministic stratum: every validated parameter of every distribution exactly at, one ulp beside, EPSILON and
    EPSILON/2 beside its domain boundary, through the constructor, through the setter and through `update`; and for the
    two-parameter kinds pairs that are equal / adjacent / crossing by 1..3 ulps, reached through `new`, through the two
    setters in both orders, and through `update`.  Judged like every other step (setters / update accept exactly what the
    constructor accepts, accepted = fresh twin, rejected = untouched) and tied bit for bit to the record model."""
    def count(k, n=1):
        cover[k] = cover.get(k, 0) + n

    lines = []
    for kind in KINDS:
        sig, fields, dom = SPEC[kind]
        cls = PCLASS[kind]
        dflt = list(BULK_PARAMS[kind])
        blocks = []
        # ---- one parameter at a time
        for i, c in enumerate(cls):
            if c in ("lo_f", "hi_f", "lo_i", "hi_i"):
                continue
            vals = []
            for b in CLASS_BOUNDS[c]:
                vals += around(b)
            if sig[i] == "f":
                blk = [("new", dflt)]
                for v in vals:
                    blk += [("set", i, v)]
                    count("boundary-set")
                blocks.append(blk)
                blk = [("new", dflt)]
                for v in vals:
                    blk += [("new", [v if j == i else x for j, x in enumerate(dflt)])]
                    count("boundary-new")
                blocks.append(blk)
            else:
                ints = [0, 1, 2] + ([U64MAX] if c == "posnat" else [])
                blk = [("new", dflt)]
                for v in ints:
                    blk += [("set", i, v), ("new", [v if j == i else x for j, x in enumerate(dflt)])]
                    count("boundary-set")
                    count("boundary-new")
                blocks.append(blk)
            blk = [("new", dflt)]
            for v in vals:
                blk += [("upd", [v if j == i else float(x) for j, x in enumerate(dflt)])]
                count("boundary-upd")
            blocks.append(blk)
        # ---- pairs
        if kind in ("uniform", "beta", "gamma", "pareto"):
            for lo, hi, cross in float_pairs():
                big = 2.0 * max(abs(lo), abs(hi)) + 1.0
                if kind == "uniform":
                    base = [-big, big]
                else:
                    base = dflt
                    if abs(lo) > 1e100 and kind != "pareto":
                        continue  # shapes of 1e300 are the business of C03; the positivity guard is covered at 2^52
                blocks.append([("new", base), ("set", 0, lo), ("set", 1, hi),
                               ("new", base), ("set", 1, hi), ("set", 0, lo),
                               ("new", base), ("upd", [lo, hi]), ("new", [lo, hi])])
                count("boundary-pairs-crossing" if cross else "boundary-pairs-ordered")
                count("boundary-set", 4)
                count("boundary-upd")
                count("boundary-new")
        if kind == "discreteuniform":
            for lo, hi, cross in int_pairs():
                big = 2 * max(abs(lo), abs(hi)) + 1 if max(abs(lo), abs(hi)) < 2 ** 60 else I64MAX
                base = [-big, big]
                blk = [("new", base), ("set", 0, lo), ("set", 1, hi), ("new", base), ("set", 1, hi), ("set", 0, lo),
                       ("new", base), ("new", [lo, hi])]
                count("boundary-set", 4)
                count("boundary-new")
                if max(abs(lo), abs(hi)) <= 2 ** 53 and float(lo) == lo and float(hi) == hi:
                    blk += [("new", base), ("upd", [float(lo), float(hi)])]
                    count("boundary-upd")
                    if max(abs(lo), abs(hi)) < 2 ** 40:
                        blk += [("new", base), ("upd", [lo + (0.5 if lo >= 0 else -0.5), hi + (0.5 if hi >= 0 else -0.5)])]
                        count("boundary-upd")
                blocks.append(blk)
                count("boundary-pairs-crossing" if cross else "boundary-pairs-ordered")
        if kind == "uniform":
            # one bound moved around the other one, EPSILON-wise
            for lo, hi in ((0.0, 0.3), (0.0, 1.0), (-1.0, 2.0), (-0.3, -0.1), (0.0, 0.0), (0.0, 2.0 ** -30), (1.0, 1.0 + EPS)):
                blk = [("new", [lo, hi])]
                for v in around(hi):
                    blk += [("set", 0, v), ("new", [lo, hi])]
                    count("boundary-set")
                blocks.append(blk)
                blk = [("new", [lo, hi])]
                for v in around(lo):
                    blk += [("set", 1, v), ("new", [lo, hi])]
                    count("boundary-set")
                blocks.append(blk)
                blk = [("new", [lo, hi])]
                for v in around(hi):
                    blk += [("upd", [v, hi]), ("new", [v, hi])]
                    count("boundary-upd")
                    count("boundary-new")
                blocks.append(blk)
        # ---- pack the blocks into request lines
        probes = [0, 1, 15] if kind in DISCRETE else [0.5, 1.0, 3.0]
        cur = []
        for blk in blocks + [None]:
            if blk is None or len(cur) + len(blk) > 48:
                if cur:
                    lines.append(render(kind, 12345, probes, cur))
                    count("boundary-histories")
                    count("boundary-steps", len(cur))
                cur = []
            if blk:
                cur = cur + blk
    return lines


def render_bulk(kind, seed, rows, cols, args):
    """args = None: the object is `X::default().clone()`"""
    if args is None:
        return " ".join(["bulk", kind, str(seed), str(rows), str(cols), "default"])
    return " ".join(["bulk", kind, str(seed), str(rows), str(cols), "new"] + [show_arg(t, v) for t, v in zip(SPEC[kind][0], args)])


def gen_bulk(rng, tier, cover):
    """`sample_n` / `sample_matrix` from a fixed seed at sizes around 2^15 (and well above): run twice and as single
    draws by the executor, compared with the model's sequential sampleN."""
    lines = []
    cheap = ["normal", "exponential", "uniform", "bernoulli"]
    for kind in cheap:
        for n in BULK_SIZES:
            lines.append(render_bulk(kind, rng.randint(0, 2 ** 32), n, 0, BULK_PARAMS[kind]))
    for kind, (r, c) in zip(cheap, [(256, 128), (200, 200), (1, 32768), (181, 181)]):
        lines.append(render_bulk(kind, rng.randint(0, 2 ** 32), r, c, BULK_PARAMS[kind]))
    for kind in KINDS:  # sample_n / sample_matrix straight after Default
        lines.append(render_bulk(kind, rng.randint(0, 2 ** 32), rng.randint(200, 2000), 0, None))
        lines.append(render_bulk(kind, rng.randint(0, 2 ** 32), rng.randint(5, 40), rng.randint(5, 40), None))
    if tier != "quick":
        for kind in KINDS:
            lines.append(render_bulk(kind, rng.randint(0, 2 ** 32), 40000, 0, None))
            lines.append(render_bulk(kind, rng.randint(0, 2 ** 32), 40000, 0, BULK_PARAMS[kind]))
            lines.append(render_bulk(kind, rng.randint(0, 2 ** 32), 300, 150, BULK_PARAMS[kind]))
    cover["bulk-lines"] = len(lines)
    cover["bulk-draws"] = sum(int(l.split()[3]) * max(1, int(l.split()[4])) for l in lines)
    return lines


def gen(rng, tier):
    nseeds = 100 if tier == "quick" else 400
    cover = {}
    lines = gen_bulk(rng.fork("bulk"), tier, cover) + gen_boundary(cover)
    for s in range(nseeds):
        for kind in KINDS:
            r = rng.fork("%s/%d" % (kind, s))
            steps = gen_history(r, kind, cover)
            seed = r.randint(0, 2 ** 32)
            lines.append(render(kind, seed, probes_for(r, kind), steps))
            cover["histories"] = cover.get("histories", 0) + 1
            cover["steps"] = cover.get("steps", 0) + len(steps)
    return lines, cover


# ------------------------------------------------------------------------------------------------ parsing
def parse_request(line):
    t = line.split()
    kind = t[1]
    sig = SPEC[kind][0]
    n = int(t[6])
    i = 7
    steps = []
    for _ in range(n):
        op = t[i]
        i += 1
        if op in ("default", "clone", "copy"):
            steps.append((op,))
        elif op == "new":
            args = []
            for ty in sig:
                args.append(h2f(t[i]) if ty == "f" else int(t[i]))
                i += 1
            steps.append(("new", args))
        elif op == "set":
            idx = int(t[i])
            v = h2f(t[i + 1]) if sig[idx] == "f" else int(t[i + 1])
            i += 2
            steps.append(("set", idx, v))
        else:
            k = int(t[i])
            steps.append(("upd", [h2f(x) for x in t[i + 1:i + 1 + k]]))
            i += 1 + k
    return kind, steps


def split_sections(toks):
    """`S … O … D … R … T …` -> dict; the twin (after T) is parsed recursively."""
    out = {}
    if "T" in toks:
        k = toks.index("T")
        tw = toks[k + 1:]
        out["T"] = None if tw == ["X"] else split_sections(tw)
        toks = toks[:k]
    key = None
    for x in toks:
        if x in ("S", "O", "D", "R"):
            key = x
            out[key] = []
        elif key is not None:
            out[key].append(x)
    return out


def parse_steps(reply):
    st, toks = parse_reply(reply)
    if st != "ok":
        return None
    res = []
    cur = []
    for x in toks + ["|"]:
        if x == "|":
            flag = cur[0] == "1"
            c = cur[2]  # cur[1] == "C"
            if cur[3:] == ["-"]:
                res.append((flag, c, None))
            else:
                res.append((flag, c, split_sections(cur[3:])))
            cur = []
        else:
            cur.append(x)
    return res


def opname(kind, s):
    if s[0] in ("new", "default", "clone", "copy"):
        return s[0]
    if s[0] == "set":
        return "set_" + SPEC[kind][1][s[1]]
    return "update"


def nontrivial(line, reply):
    if not reply.startswith("="):
        return None
    if line.startswith("bulk"):
        return " ".join(line.split()[:2] + line.split()[3:5])
    kind, steps = parse_request(line)
    flags = "".join(seg.split()[0] for seg in reply[1:].split("|") if seg.split())
    return kind + ":" + ",".join(opname(kind, s) for s in steps) + ":" + flags


# ------------------------------------------------------------------------------------------------ oracle
def oracle_bulk(idx, line, rep, fails):
    """Sampling with a fixed seed is reproducible: the bulk call twice and n single `sample()` calls from the same seed
    give the same n values and leave the generator in the same state."""
    t = line.split()
    kind, rows, cols = t[1], int(t[3]), int(t[4])
    what = "sample_n" if cols == 0 else "sample_matrix"
    n = rows if cols == 0 else rows * cols
    st, toks = parse_reply(rep)
    if st != "ok" or "A" not in toks:
        fails.append(Failure(idx, "%s:%s:no-reply" % (kind, what), "bulk draw of %d values did not return: %s" % (n, rep[:80])))
        return
    twin = None
    if "T" in toks:
        ti = toks.index("T")
        twin = toks[ti + 1:]
        toks = toks[:ti]
    a = toks.index("A")
    head, tail = toks[:a], toks[a + 1:]
    if int(head[0]) != n:
        fails.append(Failure(idx, "%s:%s:length" % (kind, what), "%s values returned, %d requested" % (head[0], n), str(n)))
        return
    d1, s1 = head[1], head[-1]
    d2, s2, d3, s3 = tail
    if twin is not None and twin != [d1, s1]:
        fails.append(Failure(idx, "%s:default:twin-draws" % kind,
                             "%s of n = %d values on `%s::default().clone()` differs from the same call on the twin `new(parameters of the default object)` "
                             "from the same seed (digest / generator state %s %s vs twin %s): the default object does not carry the sub-sampler the constructor installs" % (
                                 what, n, kind, d1, s1, " ".join(twin)), " ".join(twin)))
        return
    if d2 != d1 or s2 != s1:
        fails.append(Failure(idx, "%s:%s:reproducible" % (kind, what),
                             "two %s draws of n = %d values from the same seed differ (digest %s vs %s, generator state after %s vs %s)" % (
                                 what, n, d1, d2, s1, s2), d1))
    elif d3 != d1 or s3 != s1:
        fails.append(Failure(idx, "%s:%s:reproducible" % (kind, what),
                             "a %s draw of n = %d values differs from n single sample() calls from the same seed (digest %s vs %s, generator state after %s vs %s)" % (
                                 what, n, d1, d3, s1, s3), d3))


def oracle(lines, impl):
    fails = []
    for idx, (line, rep) in enumerate(zip(lines, impl)):
        if rep.startswith("#"):
            continue
        if line.startswith("bulk"):
            oracle_bulk(idx, line, rep, fails)
            continue
        kind, steps = parse_request(line)
        sig, fields, dom = SPEC[kind]
        res = parse_steps(rep)
        if res is None or len(res) != len(steps):
            fails.append(Failure(idx, "%s:history:no-reply" % kind, "the history did not run to completion: %s" % rep[:80]))
            continue
        cur = None  # the oracle's own account of the parameters

        def fail(s, what, msg, expected=None):
            fails.append(Failure(idx, "%s:%s:%s" % (kind, opname(kind, s), what), "step %d (%s): %s" % (k, " ".join(map(str, s)), msg), expected))

        for k, (s, (panicked, ctor, obs)) in enumerate(zip(steps, res)):
            if s[0] == "default":
                s = ("default", list(DEFAULTS[kind]))  # documented: Default = new(default parameters)
            if cur is None and s[0] not in ("new", "default"):
                continue
            # ---- "alike": a setter / bulk update accepts a value iff the constructor accepts the resulting
            # parameter list (decided by the Rust constructor itself; this is the only rule applied to NaN)
            if ctor in ("0", "1") and (ctor == "1") == panicked:
                fail(s, "validation", ("the call panicked but the constructor accepts the resulting parameter list" if panicked else
                                       "the call was accepted but the constructor rejects the resulting parameter list (no fresh twin exists)")
                     + "; current parameters %r" % (cur,), "panic" if not panicked else "no panic")
                break
            # ---- what the call must do
            judge = True
            partial = None
            if s[0] in ("new", "default"):
                cand = list(s[1])
            elif s[0] in ("clone", "copy"):
                cand = list(cur)  # a clone / copy changes nothing and cannot panic
            elif s[0] == "set":
                cand = list(cur)
                cand[s[1]] = s[2]
            else:
                if len(s[1]) == len(sig):
                    cand = cast_slice(kind, s[1])
                    partial = (list(cur), cand)
                else:
                    judge = False  # slice of the wrong length: the property does not say; only invariants are checked
                    cand = None
                    if len(s[1]) >= len(sig):
                        partial = (list(cur), cast_slice(kind, s[1]))
                    else:
                        c2 = cast_slice(kind, s[1])
                        partial = (list(cur), c2 + list(cur)[len(c2):])
            nan_involved = cand is not None and any(isnan(v) for v in cand)
            if judge and nan_involved:
                # whether NaN is in the domain is not decided here: the constructor is the reference
                ok = (ctor == "1") if ctor in ("0", "1") else not panicked
            elif judge:
                ok = dom(cand)
            if judge:
                if ok and panicked:
                    fail(s, "validation", "valid parameters %r were rejected by a panic (current parameters %r)" % (cand, cur), "no panic")
                    break
                if not ok and not panicked:
                    fail(s, "validation", "out-of-domain parameters %r were accepted (current parameters %r)" % (cand, cur), "panic")
                    break
            if obs is None:
                if cur is not None or not panicked:
                    fail(s, "state", "no object after the step")
                    break
                continue
            # ---- the parameters the object holds now
            have = []
            for ty, tok in zip(sig, obs["S"][:len(sig)]):
                have.append(h2f(tok) if ty == "f" else int(tok))
            if not any(isnan(v) for v in have) and not dom(have):
                fail(s, "domain", "the object holds out-of-domain parameters %r" % (have,), "in-domain parameters")
                break
            if judge and not panicked:
                exp = cand
            elif s[0] in ("new", "set", "default", "clone", "copy") or (judge and partial is None):
                exp = cur  # a rejected constructor / setter leaves the object untouched
            else:
                exp = None
            if exp is not None:
                if cur is None and panicked:
                    pass
                elif not all(same(ty, a, b) for ty, a, b in zip(sig, have, exp)):
                    fail(s, "state", "parameters are %r, expected %r" % (have, exp), repr(exp))
                    break
            elif partial is not None:
                old, new = partial
                if not all(same(ty, h, o) or same(ty, h, n) for ty, h, o, n in zip(sig, have, old, new)):
                    fail(s, "state", "after a panicking update parameters are %r: neither old %r nor new %r" % (have, old, new))
                    break
            cur = have
            # ---- reproducibility and independence of other objects
            if obs["R"] != obs["D"]:
                fail(s, "interleave", "the same seed gave a different stream when unrelated distribution objects were created, mutated and sampled around the draws", " ".join(obs["D"]))
                break
            # ---- the twin
            tw = obs.get("T")
            if tw is None:
                fail(s, "twin-new", "`new` panics on the object's own parameters %r" % (have,))
                break
            if tw["S"] != obs["S"]:
                d = [i for i, (a, b) in enumerate(zip(obs["S"], tw["S"])) if a != b]
                fail(s, "twin-state", "record differs from the freshly constructed twin at number(s) %r: %s vs %s (a cached sub-sampler is stale)" % (
                    d, [obs["S"][i] for i in d], [tw["S"][i] for i in d]), " ".join(tw["S"]))
                break
            if tw["O"] != obs["O"]:
                fail(s, "twin-obs", "pdf/pmf, mean or var differ from the twin: %s vs %s" % (obs["O"], tw["O"]), " ".join(tw["O"]))
                break
            if tw["D"] != obs["D"]:
                j = next((i for i, (a, b) in enumerate(zip(obs["D"], tw["D"])) if a != b), 0)
                fail(s, "twin-draws", "seeded sample stream differs from the twin from draw %d on: %s vs %s" % (
                    j, obs["D"][j:j + 2], tw["D"][j:j + 2]), " ".join(tw["D"]))
                break
    return fails


def EXTRACT(repo):
    """Constants / tables the observation model borrows from the C02 and C03 models are regenerated by their owners'
    translators (so that a changed table in the source is seen by this check, too)."""
    out = {}
    for name in ("c02", "c03"):
        try:
            mod = __import__("tools.cv." + name, fromlist=["EXTRACT"])
        except Exception:
            continue
        fn = getattr(mod, "EXTRACT", None)
        if fn:
            out.update(fn(repo))
    return out

# --- source tie (translator pass 4: the validating constructors regenerated from /repo/src into Generated/SrcC18.lean,
# proved equal to the record model in Props/SrcTieC18.lean)
from . import srctie
srctie.wire(globals(), 'C18')

# --- source tie, state transformers (translator pass 5: every setter / update / integer-parameter constructor / Default regenerated from
# /repo/src into Generated/SrcC18Mut.lean and proved equal to the record model in Props/SrcTieC18Mut.lean)
from . import srctie
srctie.wire_mut(globals(), 'C18')
