/-
# Exact model of the random number generator used by `compute`: crate `alea` 0.2.2 (wyrand)

`compute` draws all its randomness from the thread-local generator of `alea` through the free
functions `alea::f64()`, `alea::u64()` and `alea::i64_in_range(lo, hi)` (grep `alea::` in /repo/src).
This file models that generator bit for bit (validated against Rust: `exec/src/bin/c19.rs`,
ops `rng …`).  No Mathlib.  Theorems about it: `Compute/Lemmas/C19Rng.lean`.

## API (namespace `Cv`, everything is a pure function of the generator state)

```
structure Rng where s : UInt64                    -- the whole state of alea's generator
Rng.ofSeed (seed : UInt64) : Rng                  -- alea::set_seed(seed)
Rng.u64  (g : Rng) : UInt64 × Rng                 -- alea::u64()       one wyrand step
Rng.u32  (g : Rng) : UInt32 × Rng                 -- alea::u32()       low 32 bits of u64()
Rng.i64  (g : Rng) : Int × Rng                    -- alea::i64()       two's-complement reading of u64()
Rng.i32  (g : Rng) : Int × Rng                    -- alea::i32()
Rng.f53  (g : Rng) : Nat × Rng                    -- numerator k = u64() >> 11  (k < 2^53)
Rng.f64  (g : Rng) : α × Rng                      -- alea::f64() = k · 2⁻⁵³ ∈ [0,1)  for any scalar α
                                                  --   with [NatCast α] [Div α]; `Rng.f64 (α := Float) g`
                                                  --   is bit-identical to Rust (k/2^53 is exact)
Rng.f64LessThan  (max : α) (g) : Option (α × Rng)          -- alea::f64_less_than ; none = assert panic
Rng.f64InRange   (min max : α) (g) : Option (α × Rng)      -- alea::f64_in_range  ; none = assert panic
Rng.u64LessThan  (fuel) (max : UInt64) (g) : Option (UInt64 × Rng)   -- Lemire's method, value < max
Rng.i64LessThan  (fuel) (max : Int) (g) : Option (Int × Rng)
Rng.u64InRange   (fuel) (min max : UInt64) (g) : Option (UInt64 × Rng)   -- inclusive range
Rng.i64InRange   (fuel) (min max : Int) (g) : Option (Int × Rng)         -- inclusive range
Cv.lemireFuel : Nat                               -- fuel used by the drivers (64)
DiscreteUniform.sampleInt (fuel) (lower upper : Int) (g) : Option (Int × Rng)
DiscreteUniform.sample    (fuel) (lower upper : Int) (g) : Option (α × Rng)   -- `… as f64` ([IntCast α])
DiscreteUniform.sampleN   (fuel) (lower upper) (n) (g) : Option (List α × Rng)   -- Distribution1D::sample_n
Uniform.sample  (lower upper : α) (g) : α × Rng   -- (upper - lower) * alea::f64() + lower
Uniform.sampleN (lower upper : α) (n) (g) : List α × Rng
Rng.drawN / Rng.drawN?                            -- n successive draws of a total / partial sampler
```

Conventions
* A draw is `Rng → value × Rng`; the second component is the state to use for the next draw.
  The Rust generator is a global: thread the state through your sampler in program order.
* `Option`: `none` means the Rust code panics (a failed `assert!`, or an arithmetic overflow —
  the executors are built with `overflow-checks = true`, which is what is modelled: e.g.
  `i64_in_range(lo, hi)` panics when `hi + 1 - lo` overflows `i64`) **or** that Lemire's rejection
  loop ran out of `fuel`.  Rejection happens with probability `(2^64 mod max)/2^64 < 1/2` per round
  (below 2⁻⁵³ for `max ≤ 2048`), so `fuel = lemireFuel = 64` is never exhausted in practice; theorems
  are stated for every successful run and `u64LessThan_fuel_mono` shows that more fuel never changes
  a successful result.  Fuel `f` allows the initial draw plus `f` redraws.
* **When you consume an `Option`-valued draw in a model, use `Option.bind` / `Option.map` (or `do` notation),
  not `match … with | some (v, g) => …`.**  A `match` whose discriminant is e.g. `u64LessThan fuel m g` makes
  `split`/`cases` proofs send the kernel into weak-head normalisation of symbolic `UInt64` arithmetic
  ("(kernel) deep recursion detected" or a hang).  With `bind`/`map` proofs go through the rewriting lemmas
  `Option.bind_eq_some_iff` / `Option.map_eq_some_iff` and never reduce the draw.  Total draws (`u64`, `f53`,
  `f64`, `Uniform.sample`) return pairs and can be destructured freely.
* Signed integers are modelled as `Int`; arguments of `i64…` functions must lie in
  `[-2^63, 2^63)` (they are `i64` in Rust).  Results do.
* Integer to float: `DiscreteUniform.sample` casts with `IntCast α` (`Float.ofInt` at `Float`, which is
  exact for |i| < 2^53 and was measured identical to Rust's `as f64` on the whole `i64` range).
-/
namespace Cv

/-- State of alea's `Rng(Cell<u64>)`. -/
structure Rng where
  s : UInt64
  deriving Repr, DecidableEq, Inhabited

/-- Fuel given to Lemire's rejection loop by the drivers. -/
def lemireFuel : Nat := 64

namespace Rng

/-- `alea::set_seed(seed)`: the state *is* the seed. -/
def ofSeed (seed : UInt64) : Rng := ⟨seed⟩

/-- wyrand increment. -/
def wyInc : UInt64 := 0xa0761d6478bd642f
/-- wyrand xor mask. -/
def wyXor : UInt64 := 0xe7037ed1a0b428db

/-- High 64 bits of the 128-bit product (`mul_high_u64`). -/
def mulHi (a b : UInt64) : UInt64 := UInt64.ofNat ((a.toNat * b.toNat) / 2 ^ 64)

/-- Output function of wyrand on the (already advanced) state `s`:
`t = s · (s ^ wyXor)` as `u128`; result `(t >> 64) ^ t`. -/
def wyMix (s : UInt64) : UInt64 :=
  let x := s ^^^ wyXor
  mulHi s x ^^^ (s * x)

/-- `Rng::u64`: advance the state by `wyInc` (wrapping), output `wyMix` of the new state. -/
def u64 (g : Rng) : UInt64 × Rng :=
  let s := g.s + wyInc
  (wyMix s, ⟨s⟩)

/-- `Rng::u32`: `u64() as u32`. -/
def u32 (g : Rng) : UInt32 × Rng :=
  let (r, g) := g.u64
  (r.toUInt32, g)

/-- Two's-complement reading of a `u64` as `i64` (`x as i64`). -/
def asI64 (x : UInt64) : Int :=
  if x.toNat < 2 ^ 63 then (x.toNat : Int) else (x.toNat : Int) - 2 ^ 64

/-- `i as u64` for an `Int` in the `i64` range. -/
def asU64 (i : Int) : UInt64 := UInt64.ofNat (i % 2 ^ 64).toNat

/-- Two's-complement reading of a `u32` as `i32`. -/
def asI32 (x : UInt32) : Int :=
  if x.toNat < 2 ^ 31 then (x.toNat : Int) else (x.toNat : Int) - 2 ^ 32

/-- `Rng::i64`. -/
def i64 (g : Rng) : Int × Rng :=
  let (r, g) := g.u64
  (asI64 r, g)

/-- `Rng::i32`. -/
def i32 (g : Rng) : Int × Rng :=
  let (r, g) := g.u32
  (asI32 r, g)

/-- Numerator of `Rng::f64`: `k = u64() >> 11`, a uniform 53-bit integer. -/
def f53 (g : Rng) : Nat × Rng :=
  let (r, g) := g.u64
  ((r >>> 11).toNat, g)

/-- `Rng::f64`: `((u64() >> 11) as f64) * 2⁻⁵³`, written as the (exact) quotient `k / 2^53`. -/
def f64 {α : Type} [NatCast α] [Div α] (g : Rng) : α × Rng :=
  let (k, g) := g.f53
  ((k : α) / ((2 ^ 53 : Nat) : α), g)

/-- `Rng::f64_less_than`: `assert!(max > 0.)` then `f64() * max`. -/
def f64LessThan {α : Type} [NatCast α] [Div α] [Mul α] [Zero α] [LT α] [DecidableLT α]
    (max : α) (g : Rng) : Option (α × Rng) :=
  if (0 : α) < max then
    let (u, g) := g.f64 (α := α)
    some (u * max, g)
  else none

/-- `Rng::f64_in_range`: `assert!(max > min)` then `min + f64_less_than(max - min)`. -/
def f64InRange {α : Type} [NatCast α] [Div α] [Mul α] [Add α] [Sub α] [Zero α] [LT α] [DecidableLT α]
    (min max : α) (g : Rng) : Option (α × Rng) :=
  if min < max then (f64LessThan (max - min) g).map fun p => (min + p.1, p.2)
  else none

/-- The `while lo < t` loop of Lemire's method, entered after a first candidate was rejected:
draw `r`; accept `hi = mulHi r max` unless `lo = r * max (wrapping) < t`. -/
def lemireLoop (max t : UInt64) : Nat → Rng → Option (UInt64 × Rng)
  | 0, _ => none
  | fuel + 1, g =>
    let (r, g) := g.u64
    if r * max < t then lemireLoop max t fuel g else some (mulHi r max, g)

/-- `Rng::u64_less_than(max)` (Lemire's nearly-divisionless method).
`max = 0` returns `0` after one draw (the Rust code does the same: `lo < 0` is false). -/
def u64LessThan (fuel : Nat) (max : UInt64) (g : Rng) : Option (UInt64 × Rng) :=
  let (r, g) := g.u64
  let lo := r * max
  if lo < max then
    let t := (0 - max) % max
    if lo < t then lemireLoop max t fuel g else some (mulHi r max, g)
  else some (mulHi r max, g)

/-- `Rng::i64_less_than(max)`: `u64_less_than(max as u64) as i64`. -/
def i64LessThan (fuel : Nat) (max : Int) (g : Rng) : Option (Int × Rng) :=
  (u64LessThan fuel (asU64 max) g).map fun p => (asI64 p.1, p.2)

/-- `Rng::u64_in_range(min, max)`, both ends included: `assert!(max > min)`;
`min + u64_less_than(max + 1 - min)` (`max + 1` overflows, i.e. panics, for `max = u64::MAX`). -/
def u64InRange (fuel : Nat) (min max : UInt64) (g : Rng) : Option (UInt64 × Rng) :=
  if min < max then
    if max.toNat + 1 < 2 ^ 64 then
      (u64LessThan fuel (max + 1 - min) g).map fun p => (min + p.1, p.2)
    else none
  else none

/-- `Rng::i64_in_range(min, max)`, both ends included: `assert!(max > min)`;
`min + i64_less_than(max + 1 - min)`; `max + 1` and `max + 1 - min` panic on `i64` overflow. -/
def i64InRange (fuel : Nat) (min max : Int) (g : Rng) : Option (Int × Rng) :=
  if min < max then
    if max + 1 < 2 ^ 63 ∧ max + 1 - min < 2 ^ 63 then
      (i64LessThan fuel (max + 1 - min) g).map fun p => (min + p.1, p.2)
    else none
  else none

/-- `n` successive draws of a total sampler, in order. -/
def drawN {β : Type} (f : Rng → β × Rng) : Nat → Rng → List β × Rng
  | 0, g => ([], g)
  | n + 1, g =>
    let (x, g) := f g
    let (xs, g) := drawN f n g
    (x :: xs, g)

/-- `n` successive draws of a partial sampler, in order; `none` as soon as one draw is `none`. -/
def drawN? {β : Type} (f : Rng → Option (β × Rng)) : Nat → Rng → Option (List β × Rng)
  | 0, g => some ([], g)
  | n + 1, g =>
    (f g).bind fun p => (drawN? f n p.2).map fun q => (p.1 :: q.1, q.2)

end Rng

namespace DiscreteUniform

/-- `DiscreteUniform::new(lower, upper)` panics iff `lower > upper`. -/
def valid (lower upper : Int) : Bool := decide (lower ≤ upper)

/-- `DiscreteUniform::sample` before the cast to `f64` (repaired F22: equal bounds return `lower`
without drawing). -/
def sampleInt (fuel : Nat) (lower upper : Int) (g : Rng) : Option (Int × Rng) :=
  if lower = upper then some (lower, g) else Rng.i64InRange fuel lower upper g

/-- `DiscreteUniform::sample`: `… as f64`. -/
def sample {α : Type} [IntCast α] (fuel : Nat) (lower upper : Int) (g : Rng) : Option (α × Rng) :=
  (sampleInt fuel lower upper g).map fun p => ((p.1 : α), p.2)

/-- `Distribution1D::sample_n` for `DiscreteUniform`, integer version. -/
def sampleIntN (fuel : Nat) (lower upper : Int) (n : Nat) (g : Rng) : Option (List Int × Rng) :=
  Rng.drawN? (sampleInt fuel lower upper) n g

/-- `Distribution1D::sample_n` for `DiscreteUniform`. -/
def sampleN {α : Type} [IntCast α] (fuel : Nat) (lower upper : Int) (n : Nat) (g : Rng) :
    Option (List α × Rng) :=
  Rng.drawN? (sample fuel lower upper) n g

end DiscreteUniform

namespace Uniform

/-- `Uniform::new(lower, upper)` panics iff `lower > upper` (NaN bounds are accepted). -/
def valid {α : Type} [LT α] [DecidableLT α] (lower upper : α) : Bool := !decide (upper < lower)

/-- `Uniform::sample`: `(upper - lower) * alea::f64() + lower`. -/
def sample {α : Type} [NatCast α] [Div α] [Mul α] [Add α] [Sub α] (lower upper : α) (g : Rng) : α × Rng :=
  let (u, g) := g.f64 (α := α)
  ((upper - lower) * u + lower, g)

/-- `Distribution1D::sample_n` for `Uniform`. -/
def sampleN {α : Type} [NatCast α] [Div α] [Mul α] [Add α] [Sub α] (lower upper : α) (n : Nat) (g : Rng) :
    List α × Rng :=
  Rng.drawN (sample lower upper) n g

end Uniform

end Cv
