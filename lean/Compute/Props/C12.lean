import Compute.Model.Broadcast
import Compute.Lemmas.Mat
/-
C12 — broadcast arithmetic follows NumPy semantics.
Theorems about the model of `src/linalg/array/broadcast.rs` (`Compute/Model/Broadcast.lean`), for every
element type, every binary operator and all shapes with rows, cols ≥ 1.
-/
namespace Cv.C12
open Cv Cv.Mat
variable {α : Type} [Inhabited α]

/-- NumPy compatibility of two 2-D shapes. -/
def Compat (r1 c1 r2 c2 : Nat) : Prop :=
  (r1 = r2 ∨ r1 = 1 ∨ r2 = 1) ∧ (c1 = c2 ∨ c1 = 1 ∨ c2 = 1)

instance (r1 c1 r2 c2 : Nat) : Decidable (Compat r1 c1 r2 c2) := by unfold Compat; infer_instance

/-- Well-formed operand: element count = rows × cols, and at least one row and one column. -/
def Good (m : Mat α) : Prop := m.WF ∧ 0 < m.nrows ∧ 0 < m.ncols

/-- The entry of an operand that takes part in position `(i,j)` of the result. -/
def bget (m : Mat α) (i j : Nat) : α :=
  m.get (if m.nrows = 1 then 0 else i) (if m.ncols = 1 then 0 else j)

/-- The full specification of a broadcast result. -/
def IsBroadcast (op : α → α → α) (m1 m2 r : Mat α) : Prop :=
  r.nrows = max m1.nrows m2.nrows ∧ r.ncols = max m1.ncols m2.ncols ∧ r.WF ∧
  ∀ i j, i < r.nrows → j < r.ncols → r.get i j = op (bget m1 i j) (bget m2 i j)

theorem zip_get (op : α → α → α) (d1 d2 : List α) (k : Nat) (k1 : k < d1.length) (k2 : k < d2.length) :
    (List.zipWith op d1 d2)[k]! = op d1[k]! d2[k]! := by
  have h3 : k < (List.zipWith op d1 d2).length := by simp; omega
  rw [getBang k1, getBang k2, getBang h3, List.getElem_zipWith]

theorem map_get (f : α → α) (d : List α) (k : Nat) (k1 : k < d.length) :
    (d.map f)[k]! = f d[k]! := by
  have h3 : k < (d.map f).length := by simpa using k1
  rw [getBang k1, getBang h3, List.getElem_map]

theorem isB_build (op : α → α → α) (m1 m2 : Mat α) (R C : Nat) (f : Nat → Nat → α)
    (hR : R = max m1.nrows m2.nrows) (hC : C = max m1.ncols m2.ncols)
    (hf : ∀ i j, i < R → j < C → f i j = op (bget m1 i j) (bget m2 i j)) :
    IsBroadcast op m1 m2 (build R C f) :=
  ⟨hR, hC, build_wf R C f, fun i j hi hj => by
    have hi' : i < R := hi
    have hj' : j < C := hj
    rw [build_get f hi' hj']; exact hf i j hi' hj'⟩

theorem isB_zip (op : α → α → α) (m1 m2 : Mat α) (h1 : m1.WF) (h2 : m2.WF)
    (hr : m1.nrows = m2.nrows) (hc : m1.ncols = m2.ncols) (R C : Nat) (hR : R = m1.nrows) (hC : C = m1.ncols) :
    IsBroadcast op m1 m2 ⟨List.zipWith op m1.data m2.data, R, C⟩ := by
  subst hR hC
  refine ⟨by simp [hr], by simp [hc], ?_, ?_⟩
  · simp only [Mat.WF] at *; simp [h1, h2, hr, hc]
  · intro i j hi hj
    have hi : i < m1.nrows := hi
    have hj : j < m1.ncols := hj
    simp only [Mat.WF] at h1 h2
    have k1 : i * m1.ncols + j < m1.data.length := by rw [h1]; exact idx_lt hi hj
    have k2 : i * m1.ncols + j < m2.data.length := by rw [h2, ← hr, ← hc]; exact idx_lt hi hj
    have hi' : i < m2.nrows := hr ▸ hi
    have hj' : j < m2.ncols := hc ▸ hj
    simp only [Mat.get, bget]
    rw [zip_get op _ _ _ k1 k2]
    have a1 : (if m1.nrows = 1 then 0 else i) = i := by split <;> omega
    have a2 : (if m1.ncols = 1 then 0 else j) = j := by split <;> omega
    have a3 : (if m2.nrows = 1 then 0 else i) = i := by split <;> omega
    have a4 : (if m2.ncols = 1 then 0 else j) = j := by split <;> omega
    rw [a1, a2, a3, a4, hc]

theorem isB_scalar_left (op : α → α → α) (m1 m2 : Mat α) (h2 : m2.WF) (p2 : 0 < m2.nrows) (q2 : 0 < m2.ncols)
    (hr : m1.nrows = 1) (hc : m1.ncols = 1) (R C : Nat) (hR : R = m2.nrows) (hC : C = m2.ncols) (a : α)
    (ha : a = m1.get 0 0) :
    IsBroadcast op m1 m2 ⟨m2.data.map (fun x => op a x), R, C⟩ := by
  subst hR hC ha
  refine ⟨by simp [hr]; omega, by simp [hc]; omega, ?_, ?_⟩
  · simp only [Mat.WF] at *; simp [h2]
  · intro i j hi hj
    have hi : i < m2.nrows := hi
    have hj : j < m2.ncols := hj
    simp only [Mat.WF] at h2
    have k2 : i * m2.ncols + j < m2.data.length := by rw [h2]; exact idx_lt hi hj
    simp only [Mat.get, bget]
    rw [map_get _ _ _ k2]
    have a3 : (if m2.nrows = 1 then 0 else i) = i := by split <;> omega
    have a4 : (if m2.ncols = 1 then 0 else j) = j := by split <;> omega
    simp [hr, hc, a3, a4]

theorem isB_scalar_right (op : α → α → α) (m1 m2 : Mat α) (h1 : m1.WF) (p1 : 0 < m1.nrows) (q1 : 0 < m1.ncols)
    (hr : m2.nrows = 1) (hc : m2.ncols = 1) (R C : Nat) (hR : R = m1.nrows) (hC : C = m1.ncols) (a : α)
    (ha : a = m2.get 0 0) :
    IsBroadcast op m1 m2 ⟨m1.data.map (fun x => op x a), R, C⟩ := by
  subst hR hC ha
  refine ⟨by simp [hr]; omega, by simp [hc]; omega, ?_, ?_⟩
  · simp only [Mat.WF] at *; simp [h1]
  · intro i j hi hj
    have hi : i < m1.nrows := hi
    have hj : j < m1.ncols := hj
    simp only [Mat.WF] at h1
    have k1 : i * m1.ncols + j < m1.data.length := by rw [h1]; exact idx_lt hi hj
    simp only [Mat.get, bget]
    rw [map_get _ _ _ k1]
    have a3 : (if m1.nrows = 1 then 0 else i) = i := by split <;> omega
    have a4 : (if m1.ncols = 1 then 0 else j) = j := by split <;> omega
    simp [hr, hc, a3, a4]

/-- Main lemma: whenever the shapes are compatible the model returns a value, and that value is
the NumPy broadcast (shape, well-formedness, every entry, operand order preserved). -/
theorem broadcast_spec (op : α → α → α) (m1 m2 : Mat α) (h1 : Good m1) (h2 : Good m2)
    (hc : Compat m1.nrows m1.ncols m2.nrows m2.ncols) :
    ∃ r, broadcastOp op m1 m2 = some r ∧ IsBroadcast op m1 m2 r := by
  obtain ⟨d1, r1, c1⟩ := m1
  obtain ⟨d2, r2, c2⟩ := m2
  obtain ⟨w1, p1, q1⟩ := h1
  obtain ⟨w2, p2, q2⟩ := h2
  simp only [Mat.WF] at w1 w2
  simp only [Compat] at hc
  simp only [] at p1 q1 p2 q2
  by_cases e1 : r1 = 1 <;> by_cases e2 : c1 = 1 <;> by_cases e3 : r2 = 1 <;> by_cases e4 : c2 = 1 <;>
    by_cases e5 : r1 = r2 <;> by_cases e6 : c1 = c2 <;> (try omega) <;>
    simp [broadcastOp, calcBroadcastShape, calcBroadcastCore, matmat, @eq_comm _ 1, *] <;>
    first
    | (apply isB_build <;> first | (simp; done) | (simp; omega) | (intro i j hi hj; (try (have hj0 : j = 0 := by omega); subst hj0); (try (have hi0 : i = 0 := by omega); subst hi0); simp [bget, *]))
    | (apply isB_zip <;> simp [Mat.WF, *])
    | (apply isB_scalar_left <;> simp [Mat.WF, *])
    | (apply isB_scalar_right <;> simp [Mat.WF, *])


/-- Incompatible shapes are rejected (`none` = panic): no incompatible pair ever yields a value. -/
theorem broadcast_rejects (op : α → α → α) (m1 m2 : Mat α) (h1 : Good m1) (h2 : Good m2)
    (hc : ¬ Compat m1.nrows m1.ncols m2.nrows m2.ncols) : broadcastOp op m1 m2 = none := by
  obtain ⟨d1, r1, c1⟩ := m1
  obtain ⟨d2, r2, c2⟩ := m2
  obtain ⟨w1, p1, q1⟩ := h1
  obtain ⟨w2, p2, q2⟩ := h2
  simp only [Compat] at hc
  simp only [] at p1 q1 p2 q2
  by_cases e1 : r1 = 1 <;> by_cases e2 : c1 = 1 <;> by_cases e3 : r2 = 1 <;> by_cases e4 : c2 = 1 <;>
    by_cases e5 : r1 = r2 <;> by_cases e6 : c1 = c2 <;> (try omega) <;>
    (try have e5' : ¬ r2 = r1 := fun h => e5 h.symm) <;>
    (try have e6' : ¬ c2 = c1 := fun h => e6 h.symm) <;>
    simp [broadcastOp, calcBroadcastShape, calcBroadcastCore, matmat, @eq_comm _ 1, *]

/-- **C12 (totality).** A value is returned exactly for the NumPy-compatible shape pairs. -/
theorem broadcast_total (op : α → α → α) (m1 m2 : Mat α) (h1 : Good m1) (h2 : Good m2) :
    (broadcastOp op m1 m2).isSome ↔ Compat m1.nrows m1.ncols m2.nrows m2.ncols := by
  constructor
  · intro h
    by_cases hc : Compat m1.nrows m1.ncols m2.nrows m2.ncols
    · exact hc
    · rw [broadcast_rejects op m1 m2 h1 h2 hc] at h; simp at h
  · intro hc
    obtain ⟨r, hr, _⟩ := broadcast_spec op m1 m2 h1 h2 hc
    simp [hr]

/-- **C12 (shape).** Any returned value has the element-wise maximum shape and is well formed. -/
theorem broadcast_shape (op : α → α → α) (m1 m2 r : Mat α) (h1 : Good m1) (h2 : Good m2)
    (h : broadcastOp op m1 m2 = some r) :
    r.nrows = max m1.nrows m2.nrows ∧ r.ncols = max m1.ncols m2.ncols ∧ r.WF := by
  have hc : Compat m1.nrows m1.ncols m2.nrows m2.ncols := by
    apply (broadcast_total op m1 m2 h1 h2).1; simp [h]
  obtain ⟨r', hr', hb⟩ := broadcast_spec op m1 m2 h1 h2 hc
  rw [h] at hr'; cases hr'
  exact ⟨hb.1, hb.2.1, hb.2.2.1⟩

/-- **C12 (entries).** Entry `(i,j)` of any returned value is `left[i or 0][j or 0] ∘ right[i or 0][j or 0]`,
operand order preserved, for every leaf of the classifier. -/
theorem broadcast_entry (op : α → α → α) (m1 m2 r : Mat α) (h1 : Good m1) (h2 : Good m2)
    (h : broadcastOp op m1 m2 = some r) (i j : Nat) (hi : i < r.nrows) (hj : j < r.ncols) :
    r.get i j = op (bget m1 i j) (bget m2 i j) := by
  have hc : Compat m1.nrows m1.ncols m2.nrows m2.ncols := by
    apply (broadcast_total op m1 m2 h1 h2).1; simp [h]
  obtain ⟨r', hr', hb⟩ := broadcast_spec op m1 m2 h1 h2 hc
  rw [h] at hr'; cases hr'
  exact hb.2.2.2 i j hi hj

omit [Inhabited α] in
/-- A (non-empty) `Vector` operand is promoted to a single row. -/
theorem vecToMat_good (v : List α) (hv : v ≠ []) : Good (vecToMat v) ∧ (vecToMat v).nrows = 1 := by
  have : 0 < v.length := List.length_pos_iff.mpr hv
  simp [Good, vecToMat, Mat.WF, this]

/-- Matrix ∘ Vector and Vector ∘ Matrix: the vector behaves as the `1 × n` row. -/
theorem broadcast_mat_vec (op : α → α → α) (m : Mat α) (v : List α) (hm : Good m) (hv : v ≠ []) :
    (broadcastOp op m (vecToMat v)).isSome ↔ (m.ncols = v.length ∨ m.ncols = 1 ∨ v.length = 1) := by
  rw [broadcast_total op m (vecToMat v) hm (vecToMat_good v hv).1]
  simp [Compat, vecToMat]

/-! Non-vacuity: concrete operands meet the hypotheses, on a doubly-broadcast pair (3×1 ∘ 1×4), and an
incompatible pair is rejected. -/
example : Good (⟨[1, 2, 3], 3, 1⟩ : Mat Nat) ∧ Good (⟨[10, 20, 30, 40], 1, 4⟩ : Mat Nat) ∧
    Compat 3 1 1 4 := by simp [Good, Mat.WF, Compat]
example : broadcastOp (· - ·) (⟨[10, 20, 30], 3, 1⟩ : Mat Int) ⟨[1, 2, 3, 4], 1, 4⟩ =
    some ⟨[9, 8, 7, 6, 19, 18, 17, 16, 29, 28, 27, 26], 3, 4⟩ := by decide
example : broadcastOp (· - ·) (⟨[1, 2, 3, 4], 1, 4⟩ : Mat Int) ⟨[10, 20, 30], 3, 1⟩ =
    some ⟨[-9, -8, -7, -6, -19, -18, -17, -16, -29, -28, -27, -26], 3, 4⟩ := by decide
example : broadcastOp (· + ·) (⟨[1, 2, 3, 4, 5, 6], 2, 3⟩ : Mat Nat) ⟨[1, 2], 1, 2⟩ = none := by decide

end Cv.C12
