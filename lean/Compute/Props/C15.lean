import Compute.Model.Shape
import Compute.Model.Constructors
import Compute.Model.Rotations
import Compute.Lemmas.Mat
import Compute.Lemmas.C15Wf
import Compute.Lemmas.C15Rows
import Compute.Lemmas.C15Ctor
import Mathlib.Tactic.Ring
import Mathlib.Tactic.Linarith
import Mathlib.Tactic.FieldSimp
import Mathlib.Tactic.NormNum
import Mathlib.Algebra.Field.Defs
import Mathlib.Algebra.CharZero.Defs
import Mathlib.Algebra.Order.Field.Basic
import Mathlib.Algebra.Order.Floor.Semiring
import Mathlib.Data.Rat.Floor
import Mathlib.Data.Nat.Sqrt
import Mathlib.Algebra.Order.AbsoluteValue.Basic
import Mathlib.LinearAlgebra.Matrix.Determinant.Basic
import Mathlib.Tactic.FinCases
import Mathlib.Tactic.LinearCombination
set_option linter.unusedSectionVars false
/-
C15 — shape operations and constructors preserve data and the matrix invariant.

Theorems about the model of `src/linalg/array/{matrix,vec}.rs`, `src/linalg/utils.rs`,
`src/linalg/rotations.rs` (`Compute/Model/{Shape,Constructors,Rotations}.lean`).  The session driver
`Drv/C15.lean` executes every state-changing request through `Shape.applyOp`, the function quantified
over here.  Parts: (1) the invariant, for every program; (2) refinement of the row-major reference
(`rows m : List (List α)`); (3) diagonal; (4) constructors; (5) rotations; (6) predicates and
comparisons.  Parts (4)–(6) live in `Lemmas/C15Ctor.lean`, `Lemmas/C15Pred.lean` (they need Mathlib) and are
re-exported here under `Cv.C15`.
-/
namespace Cv.C15
open Cv Cv.Mat Cv.Shape
variable {α : Type}

/-! ## (1) the matrix invariant is preserved by every operation and every program -/

/-- Every public structural operation maps a well-formed matrix to a well-formed matrix (or panics). -/
theorem applyOp_wf [Inhabited α] (op : Op α) (m m' : Mat α) (hm : m.WF) (h : applyOp op m = some m') : m'.WF := by
  cases op with
  | load d nr nc => exact (mnew_some h).2.1
  | reshape nr nc => rw [applyOp, reshape_eq_reshapeMut hm] at h; exact reshapeMut_wf hm h
  | reshapeMut nr nc => exact reshapeMut_wf hm h
  | t =>
    simp only [applyOp, Shape.t] at h
    cases hd : transposeData m.data m.nrows with
    | none => simp [hd] at h
    | some d => rw [hd, Option.bind_some] at h; exact mnewN_wf h
  | tMut =>
    simp only [applyOp, Shape.tMut] at h
    by_cases hr : 0 < m.nrows
    · have := tMut_wf hm hr
      simp only [Shape.tMut] at this
      rw [this] at h
      cases h
      exact build_wf _ _ _
    · have h0 : m.nrows = 0 := by omega
      simp [transposeData, h0, isMatrixU_zero] at h
  | hcat d nr nc =>
    simp only [applyOp] at h
    cases ho : mnew d nr nc with
    | none => simp [ho] at h
    | some o =>
      rw [ho, Option.bind_some] at h
      unfold hcat at h
      split at h
      · exact mnewN_wf h
      · simp at h
  | vcat d nr nc =>
    simp only [applyOp] at h
    cases ho : mnew d nr nc with
    | none => simp [ho] at h
    | some o =>
      rw [ho, Option.bind_some] at h
      unfold vcat at h
      split at h
      · exact mnewN_wf h
      · simp at h
  | hrepeat n => exact mnewN_wf h
  | vrepeat n => exact mnewN_wf h
  | applyRow i f =>
    simp only [applyOp, applyRow] at h
    split at h
    · cases h; simpa [WF] using hm
    · simp at h
  | applyCol j f =>
    simp only [applyOp, applyCol] at h
    split at h
    · simp at h
    · split at h
      · simp at h
      · cases h; simpa [WF] using hm
  | flatReplace k v =>
    simp only [applyOp, flatIdxReplace] at h
    split at h
    · cases h; simpa [WF] using hm
    · simp at h
  | set2 i j v =>
    simp only [applyOp, set2] at h
    split at h
    · cases h; simpa [WF] using hm
    · simp at h
  | toVecToMatrix => exact mnewN_wf h
  | rowToMatrix i =>
    simp only [applyOp] at h
    cases hg : getRow m i with
    | none => simp [hg] at h
    | some v => rw [hg, Option.bind_some] at h; exact mnewN_wf h
  | colToMatrix j =>
    simp only [applyOp] at h
    cases hg : getCol m j with
    | none => simp [hg] at h
    | some v => rw [hg, Option.bind_some] at h; exact mnewN_wf h
  | diagToMatrix => exact mnewN_wf h
  | rowToCol =>
    simp only [applyOp] at h
    cases hg : rowToColMajor m.data m.nrows with
    | none => simp [hg] at h
    | some v => rw [hg, Option.bind_some] at h; exact mnewN_wf h
  | colToRow =>
    simp only [applyOp] at h
    cases hg : colToRowMajor m.data m.ncols with
    | none => simp [hg] at h
    | some v => rw [hg, Option.bind_some] at h; exact mnewN_wf h

/-- **C15 (invariant, all programs).** After any sequence of public structural operations that does
not panic, the element count equals rows × columns. -/
theorem wf_preserved [Inhabited α] (ops : List (Op α)) (m m' : Mat α) (hm : m.WF) (h : run ops m = some m') : m'.WF := by
  induction ops generalizing m with
  | nil => simp only [run, Option.some.injEq] at h; exact h ▸ hm
  | cons op ops ih =>
    simp only [run] at h
    cases h1 : applyOp op m with
    | none => simp [h1] at h
    | some m1 =>
      rw [h1, Option.bind_some] at h
      exact ih m1 (applyOp_wf op m m1 hm h1) h

/-- The same for sessions in which panics are caught and the session continues (what the
correspondence driver executes). -/
theorem wf_preserved_keep [Inhabited α] (ops : List (Op α)) (m : Mat α) (hm : m.WF) : (runKeep ops m).WF := by
  induction ops generalizing m with
  | nil => exact hm
  | cons op ops ih =>
    simp only [runKeep]
    apply ih
    cases h1 : applyOp op m with
    | none => simpa using hm
    | some m1 => simpa using applyOp_wf op m m1 hm h1

/-- Every matrix produced by `Matrix::new` is well formed, whatever the arguments. -/
theorem new_wf (d : List α) (nr nc : Int) (m : Mat α) (h : mnew d nr nc = some m) : m.WF ∧ m.data = d :=
  ⟨(mnew_some h).2.1, (mnew_some h).1⟩

/-- Non-vacuity: a four-step program on a 2×3 matrix. -/
example : run [Op.t, Op.hcat [7, 8, 9] 3 1, Op.reshapeMut (-1) 9, Op.vrepeat 2] (⟨[1, 2, 3, 4, 5, 6], 2, 3⟩ : Mat Nat) =
    some ⟨[1, 4, 7, 2, 5, 8, 3, 6, 9, 1, 4, 7, 2, 5, 8, 3, 6, 9], 2, 9⟩ := by decide
/-- … and a program that panics at its third step (9 elements, 2 columns requested). -/
example : run [Op.t, Op.hcat [7, 8, 9] 3 1, Op.reshapeMut (-1) 2] (⟨[1, 2, 3, 4, 5, 6], 2, 3⟩ : Mat Nat) = none := by decide

/-! ### impossible shapes are rejected -/

/-- **C15 (reshape).** `reshape` keeps the flat data, produces a well-formed matrix and honours every
non-negative requested dimension. -/
theorem reshape_keeps_data (m m' : Mat α) (nr nc : Int) (hm : m.WF) (h : reshape m nr nc = some m') :
    m'.data = m.data ∧ m'.WF ∧ (0 ≤ nr → (m'.nrows : Int) = nr) ∧ (0 ≤ nc → (m'.ncols : Int) = nc) := by
  rw [reshape_eq_reshapeMut hm] at h
  have := reshapeMut_some h
  exact ⟨this.1, reshapeMut_wf hm h, this.2.2.1, this.2.2.2⟩

theorem reshapeMut_keeps_data (m m' : Mat α) (nr nc : Int) (hm : m.WF) (h : reshapeMut m nr nc = some m') :
    m'.data = m.data ∧ m'.WF ∧ (0 ≤ nr → (m'.nrows : Int) = nr) ∧ (0 ≤ nc → (m'.ncols : Int) = nc) := by
  have := reshapeMut_some h
  exact ⟨this.1, reshapeMut_wf hm h, this.2.2.1, this.2.2.2⟩

/-- **C15 (impossible shape ⇒ panic).** `reshape`, `reshape_mut` and `Matrix::new` return a value exactly
for the possible requests: both dimensions non-negative with product = size, or one dimension `-1`
and the other positive and dividing the size (F24).  Everything else is `none`. -/
theorem reshape_isSome_iff (m : Mat α) (nr nc : Int) (hm : m.WF) :
    (reshape m nr nc).isSome ↔ Possible (m.nrows * m.ncols) nr nc := by
  rw [reshape_eq_reshapeMut hm]; unfold reshapeMut
  rw [Option.isSome_map]; exact reshapeDims_isSome_iff _ _ _

theorem reshapeMut_isSome_iff (m : Mat α) (nr nc : Int) :
    (reshapeMut m nr nc).isSome ↔ Possible (m.nrows * m.ncols) nr nc := by
  unfold reshapeMut
  rw [Option.isSome_map]; exact reshapeDims_isSome_iff _ _ _

theorem new_isSome_iff (d : List α) (nr nc : Int) : (mnew d nr nc).isSome ↔ Possible d.length nr nc :=
  mnew_isSome_iff d nr nc

theorem reshape_rejects (m : Mat α) (nr nc : Int) (hm : m.WF) (h : ¬ Possible (m.nrows * m.ncols) nr nc) :
    reshape m nr nc = none ∧ reshapeMut m nr nc = none := by
  constructor
  · have := (not_congr (reshape_isSome_iff m nr nc hm)).mpr h
    simpa using this
  · have := (not_congr (reshapeMut_isSome_iff m nr nc)).mpr h
    simpa using this

/-- F24 witness: six elements cannot be reshaped to `(-1, 4)`; `(-1, 3)` infers two rows. -/
example : reshapeMut (⟨[1, 2, 3, 4, 5, 6], 2, 3⟩ : Mat Nat) (-1) 4 = none := by decide
example : reshapeMut (⟨[1, 2, 3, 4, 5, 6], 3, 2⟩ : Mat Nat) (-1) 3 = some ⟨[1, 2, 3, 4, 5, 6], 2, 3⟩ := by decide
example : ¬ Possible 6 (-1) 4 ∧ Possible 6 (-1) 3 ∧ Possible 6 3 2 ∧ ¬ Possible 6 (-1) (-1) ∧ ¬ Possible 6 (-2) 3 := by decide

/-! ## (2) refinement of the plain row-major reference -/

/-- The reference transposition of a list of rows: column `j` of every row, for each `j`. -/
def transposeRows [Inhabited α] (R : List (List α)) (ncols : Nat) : List (List α) :=
  (List.range ncols).map fun j => R.map fun r => r[j]!

theorem transposeRows_rows [Inhabited α] (m : Mat α) (hm : m.WF) :
    transposeRows (rows m) m.ncols = (List.range m.ncols).map fun j => (List.range m.nrows).map fun i => m.get i j := by
  unfold transposeRows
  apply List.map_congr_left
  intro j hj
  simp only [rows, List.map_map]
  apply List.map_congr_left
  intro i hi
  exact row_getElem hm (List.mem_range.mp hi) (List.mem_range.mp hj)

/-- **C15 (transpose).** For every shape with at least one row, `t` returns the matrix with swapped
dimensions whose rows are the columns of the input, and entry `(j, i)` is entry `(i, j)`. -/
theorem rows_t [Inhabited α] (m : Mat α) (hm : m.WF) (hr : 0 < m.nrows) :
    ∃ m', t m = some m' ∧ tMut m = some m' ∧ m'.nrows = m.ncols ∧ m'.ncols = m.nrows ∧ m'.WF ∧
      rows m' = transposeRows (rows m) m.ncols ∧
      ∀ i j, i < m.nrows → j < m.ncols → m'.get j i = m.get i j := by
  refine ⟨_, t_wf hm hr, tMut_wf hm hr, rfl, rfl, build_wf _ _ _, ?_, ?_⟩
  · rw [rows_build, transposeRows_rows m hm]
  · intro i j hi hj
    exact build_get _ hj hi

/-- `transpose` divides by the number of rows: a matrix without rows cannot be transposed. -/
theorem t_none_of_no_rows [Inhabited α] (m : Mat α) (hr : m.nrows = 0) : t m = none ∧ tMut m = none :=
  t_zero_rows hr

/-- The two layout conversions, applied to a row-major matrix, are the transposition. -/
theorem rows_layout [Inhabited α] (m : Mat α) (hm : m.WF) (hr : 0 < m.nrows) (hc : 0 < m.ncols) :
    applyOp Op.rowToCol m = t m ∧ applyOp Op.colToRow m = t m := by
  have e : m.ncols * m.nrows = (build m.ncols m.nrows fun j i => m.get i j).data.length := (build_wf _ _ _).symm
  constructor
  · simp only [applyOp]
    rw [rowToColMajor_wf hm hr, t_wf hm hr, Option.bind_some, mnewN_eq, if_pos e]; rfl
  · simp only [applyOp]
    rw [colToRowMajor_wf hm hc, t_wf hm hr, Option.bind_some, mnewN_eq, if_pos e]; rfl

/-- **C15 (hcat).** Row-wise append; rejected exactly when the row counts differ. -/
theorem rows_hcat (m o : Mat α) (hm : m.WF) (ho : o.WF) (hr : m.nrows = o.nrows) :
    ∃ m', hcat m o = some m' ∧ m'.nrows = m.nrows ∧ m'.ncols = m.ncols + o.ncols ∧
      rows m' = List.zipWith (· ++ ·) (rows m) (rows o) := by
  obtain ⟨m', h1, h2, h3, h4⟩ := hcat_wf hm ho hr
  refine ⟨m', h1, h2, h3, ?_⟩
  rw [h4]
  unfold rows
  rw [← hr, List.zipWith_map]
  clear h4 h1
  generalize List.range m.nrows = l
  induction l with
  | nil => rfl
  | cons a l ih => simp only [List.map_cons, List.zipWith_cons_cons, ih]

theorem hcat_rejects (m o : Mat α) (hr : m.nrows ≠ o.nrows) : hcat m o = none := by simp [hcat, hr]

/-- **C15 (vcat).** The rows of the operand are appended below; rejected when the column counts differ. -/
theorem rows_vcat (m o : Mat α) (hm : m.WF) (ho : o.WF) (hc : m.ncols = o.ncols) :
    ∃ m', vcat m o = some m' ∧ m'.nrows = m.nrows + o.nrows ∧ m'.ncols = m.ncols ∧ rows m' = rows m ++ rows o :=
  vcat_wf hm ho hc

theorem vcat_rejects (m o : Mat α) (hc : m.ncols ≠ o.ncols) : vcat m o = none := by simp [vcat, hc]

/-- **C15 (hrepeat).** Every row is repeated `n` times side by side. -/
theorem rows_hrepeat (m : Mat α) (n : Nat) (hm : m.WF) :
    ∃ m', hrepeat m n = some m' ∧ m'.nrows = m.nrows ∧ m'.ncols = m.ncols * n ∧
      rows m' = (rows m).map fun r => (List.replicate n r).flatten :=
  hrepeat_wf hm n

/-- **C15 (vrepeat).** The whole list of rows is repeated `n` times. -/
theorem rows_vrepeat (m : Mat α) (n : Nat) (hm : m.WF) :
    ∃ m', vrepeat m n = some m' ∧ m'.nrows = m.nrows * n ∧ m'.ncols = m.ncols ∧
      rows m' = (List.replicate n (rows m)).flatten :=
  vrepeat_wf hm n

/-- **C15 (reshape keeps the elements in row-major order).** -/
theorem rows_reshape (m m' : Mat α) (nr nc : Int) (hm : m.WF) (h : reshape m nr nc = some m') :
    (rows m').flatten = (rows m).flatten := by
  obtain ⟨h1, h2, _⟩ := reshape_keeps_data m m' nr nc hm h
  rw [rows_flatten h2, rows_flatten hm, h1]

/-- **C15 (row extraction).** -/
theorem getRow_spec [Inhabited α] (m : Mat α) (i : Nat) :
    getRow m i = if i < m.nrows then some (rows m)[i]! else none := by
  unfold getRow
  split
  · rename_i h
    rw [getBang (by simpa using h)]; simp [rows]
  · rfl

/-- **C15 (column extraction).** -/
theorem getCol_spec [Inhabited α] (m : Mat α) (j : Nat) (hm : m.WF) :
    getCol m j = if j < m.ncols then some ((rows m).map fun r => r[j]!) else none := by
  unfold getCol
  split
  · rename_i h
    simp only [rows, List.map_map, Option.some.injEq]
    apply List.map_congr_left
    intro i hi
    exact (row_getElem hm (List.mem_range.mp hi) h).symm
  · rfl

/-- **C15 (2-D and flat indexing).** -/
theorem get2_spec [Inhabited α] (m : Mat α) (i j : Nat) (hm : m.WF) :
    get2 m i j = if i < m.nrows ∧ j < m.ncols then some ((rows m)[i]!)[j]! else none := by
  unfold get2
  split
  · rename_i h
    rw [rows_getElem hm h.1 h.2]
  · rfl

theorem flatIdx_spec [Inhabited α] (m : Mat α) (k : Nat) (hm : m.WF) :
    flatIdx m k = if k < m.nrows * m.ncols then some (rows m).flatten[k]! else none := by
  unfold flatIdx
  rw [rows_flatten hm]

/-- **C15 (in-place row map).** Row `i` is mapped, every other entry is untouched; rejected for `i ≥ nrows`. -/
theorem applyRow_spec [Inhabited α] (m : Mat α) (i : Nat) (f : α → α) (hm : m.WF) (hi : i < m.nrows) :
    ∃ m', applyRow m i f = some m' ∧ m'.nrows = m.nrows ∧ m'.ncols = m.ncols ∧ m'.WF ∧
      ∀ a b, a < m.nrows → b < m.ncols → m'.get a b = if a = i then f (m.get a b) else m.get a b := by
  refine ⟨⟨m.data.mapIdx fun k x => if i * m.ncols ≤ k ∧ k < (i + 1) * m.ncols then f x else x, m.nrows, m.ncols⟩,
    by simp [applyRow, hi], rfl, rfl, by simpa [WF] using hm, ?_⟩
  intro a b ha hb
  have hk : a * m.ncols + b < m.data.length := by rw [hm]; exact idx_lt ha hb
  have e : m.get a b = m.data[a * m.ncols + b] := getBang hk
  rw [e, get_mk _ _ _ _ _ (by simpa using hk), List.getElem_mapIdx]
  have hiff : (i * m.ncols ≤ a * m.ncols + b ∧ a * m.ncols + b < (i + 1) * m.ncols) ↔ a = i := by
    constructor
    · intro ⟨h1, h2⟩
      rcases Nat.lt_trichotomy a i with h | h | h
      · have : (a + 1) * m.ncols ≤ i * m.ncols := Nat.mul_le_mul_right _ h
        rw [Nat.add_mul] at this; omega
      · exact h
      · have : (i + 1) * m.ncols ≤ a * m.ncols := Nat.mul_le_mul_right _ h
        omega
    · rintro rfl
      rw [Nat.add_mul]; omega
  by_cases hai : a = i
  · rw [if_pos (hiff.mpr hai), if_pos hai]
  · rw [if_neg (fun h => hai (hiff.mp h)), if_neg hai]

theorem applyRow_rejects (m : Mat α) (i : Nat) (f : α → α) (hi : m.nrows ≤ i) : applyRow m i f = none := by
  simp [applyRow, Nat.not_lt.mpr hi]

/-- **C15 (in-place column map).** -/
theorem applyCol_spec [Inhabited α] (m : Mat α) (j : Nat) (f : α → α) (hm : m.WF) (hj : j < m.ncols) :
    ∃ m', applyCol m j f = some m' ∧ m'.nrows = m.nrows ∧ m'.ncols = m.ncols ∧ m'.WF ∧
      ∀ a b, a < m.nrows → b < m.ncols → m'.get a b = if b = j then f (m.get a b) else m.get a b := by
  have hc : ¬ m.ncols = 0 := by omega
  have hj' : ¬ (m.data ≠ [] ∧ m.ncols ≤ j) := by omega
  refine ⟨⟨m.data.mapIdx fun k x => if k % m.ncols = j then f x else x, m.nrows, m.ncols⟩,
    by simp only [applyCol, hc, hj', if_false], rfl, rfl, by simpa [WF] using hm, ?_⟩
  intro a b ha hb
  have hk : a * m.ncols + b < m.data.length := by rw [hm]; exact idx_lt ha hb
  have e : m.get a b = m.data[a * m.ncols + b] := getBang hk
  rw [e, get_mk _ _ _ _ _ (by simpa using hk), List.getElem_mapIdx]
  have : (a * m.ncols + b) % m.ncols = b := by
    rw [Nat.add_comm, Nat.add_mul_mod_self_right, Nat.mod_eq_of_lt hb]
  rw [this]

theorem applyCol_rejects (m : Mat α) (j : Nat) (f : α → α) (hm : m.WF) (hr : 0 < m.nrows) (hj : m.ncols ≤ j) :
    applyCol m j f = none := by
  unfold applyCol
  by_cases hc : m.ncols = 0
  · simp [hc]
  · have : m.data ≠ [] := by
      intro h
      have hl : m.data.length = m.nrows * m.ncols := hm
      rw [h] at hl
      have : 0 < m.nrows * m.ncols := Nat.mul_pos hr (Nat.pos_of_ne_zero hc)
      simp at hl; omega
    simp [hc, this, hj]

/-- **C15 (element replacement).** -/
theorem set2_spec [Inhabited α] (m : Mat α) (i j : Nat) (v : α) (hm : m.WF) (hi : i < m.nrows) (hj : j < m.ncols) :
    ∃ m', set2 m i j v = some m' ∧ m'.nrows = m.nrows ∧ m'.ncols = m.ncols ∧ m'.WF ∧
      ∀ a b, a < m.nrows → b < m.ncols → m'.get a b = if a = i ∧ b = j then v else m.get a b := by
  refine ⟨⟨m.data.set (i * m.ncols + j) v, m.nrows, m.ncols⟩, by simp [set2, hi, hj], rfl, rfl, by simpa [WF] using hm, ?_⟩
  intro a b ha hb
  have hk : a * m.ncols + b < m.data.length := by rw [hm]; exact idx_lt ha hb
  have e : m.get a b = m.data[a * m.ncols + b] := getBang hk
  rw [e, get_mk _ _ _ _ _ (by simpa using hk), List.getElem_set]
  have hiff : i * m.ncols + j = a * m.ncols + b ↔ (a = i ∧ b = j) := by
    constructor
    · intro h
      have h1 : (i * m.ncols + j) / m.ncols = i := by
        rw [Nat.add_comm, Nat.add_mul_div_right _ _ (by omega), Nat.div_eq_of_lt hj]; simp
      have h2 : (a * m.ncols + b) / m.ncols = a := by
        rw [Nat.add_comm, Nat.add_mul_div_right _ _ (by omega), Nat.div_eq_of_lt hb]; simp
      have hai : a = i := by rw [← h1, ← h2, h]
      subst hai
      exact ⟨rfl, by omega⟩
    · rintro ⟨rfl, rfl⟩; rfl
  by_cases h : a = i ∧ b = j
  · rw [if_pos (hiff.mpr h), if_pos h]
  · rw [if_neg (fun h' => h (hiff.mp h')), if_neg h]

/-- **C15 (vector ↔ matrix).** `to_vec` is the flat data and `to_matrix` the single row. -/
theorem toVec_toMatrix (m : Mat α) (hm : m.WF) :
    ∃ m', vecToMatrix (toVec m) = some m' ∧ m'.nrows = 1 ∧ m'.ncols = m.nrows * m.ncols ∧ rows m' = [(rows m).flatten] := by
  refine ⟨_, vecToMatrix_eq _, rfl, hm, ?_⟩
  rw [rows_single, rows_flatten hm]; rfl

/-! ## (3) diagonal -/

/-- **C15 (diag, F25).** The diagonal of any (square or not) matrix: `[m[i][i] | i < min r c]`. -/
theorem diag_spec [Inhabited α] (m : Mat α) (hm : m.WF) :
    diag m = (List.range (min m.nrows m.ncols)).map fun i => ((rows m)[i]!)[i]! := by
  unfold diag
  apply List.map_congr_left
  intro i hi
  have := List.mem_range.mp hi
  rw [rows_getElem hm (by omega) (by omega)]
  rfl

theorem diag_get [Inhabited α] (m : Mat α) :
    diag m = (List.range (min m.nrows m.ncols)).map fun i => m.get i i := rfl

/-- F25 witness: the diagonal of `[[1,2,3],[4,5,6]]` is `[1,5]`. -/
example : diag (⟨[1, 2, 3, 4, 5, 6], 2, 3⟩ : Mat Nat) = [1, 5] := by decide
example : diag (⟨[1, 2, 3, 4, 5, 6], 3, 2⟩ : Mat Nat) = [1, 4] := by decide

/-! ## (4) constructors deliver their defining pattern -/
section ctor
open Cv.Ctor

theorem zeros_spec [Zero α] (r c : Nat) : zeros r c = some ⟨List.replicate (r * c) (0 : α), r, c⟩ := by
  simp [zeros, mnewN_eq]

theorem ones_spec [One α] (r c : Nat) : ones r c = some ⟨List.replicate (r * c) (1 : α), r, c⟩ := by
  simp [ones, mnewN_eq]

/-- **C15 (identity).** -/
theorem eye_entry [Zero α] [One α] [Inhabited α] (d : Nat) :
    ∃ m, eye d = some m ∧ m.nrows = d ∧ m.ncols = d ∧ m.WF ∧
      ∀ i j, i < d → j < d → m.get i j = if i = j then (1 : α) else 0 := by
  refine ⟨build d d fun i j => if i = j then (1 : α) else 0, ?_, rfl, rfl, build_wf _ _ _, fun i j hi hj => build_get _ hi hj⟩
  unfold eye
  have e : d * d = (build d d fun i j => if i = j then (1 : α) else 0).data.length := (build_wf _ _ _).symm
  rw [mnewN_eq, if_pos e]; rfl

/-- **C15 (diagonal matrix).** -/
theorem diagMatrix_entry [Zero α] [Inhabited α] (a : List α) :
    (diagMatrix a).length = a.length * a.length ∧
    ∀ i j, i < a.length → j < a.length →
      (Mat.mk (diagMatrix a) a.length a.length).get i j = if i = j then a[i]! else 0 :=
  ⟨build_wf _ _ _, fun _ _ hi hj => build_get (fun i j => if i = j then a[i]! else 0) hi hj⟩

/-- **C15 (Toeplitz).** Entry `(i, j)` is `x_{|i−j|}`. -/
theorem toeplitz_entry [Inhabited α] (x : List α) :
    (toeplitz x).length = x.length * x.length ∧
    ∀ i j, i < x.length → j < x.length →
      (Mat.mk (toeplitz x) x.length x.length).get i j = x[((i : Int) - (j : Int)).natAbs]! := by
  refine ⟨build_wf _ _ _, fun i j hi hj => ?_⟩
  have : (if j ≤ i then i - j else j - i) = ((i : Int) - (j : Int)).natAbs := by
    split <;> omega
  rw [← this]
  exact build_get (fun i j => x[if j ≤ i then i - j else j - i]!) hi hj

/-- **C15 (Vandermonde).** Row `a` holds the powers `x_a⁰ … x_a^{n−1}` (exact arithmetic: any monoid). -/
theorem vandermonde_entry [Monoid α] [Div α] [Inhabited α] (x : List α) (n : Nat) (hn : n ≤ 2 ^ 31) :
    (vandermonde x n).length = x.length * n ∧
    ∀ a i, a < x.length → i < n → (Mat.mk (vandermonde x n) x.length n).get a i = x[a]! ^ i := by
  let R := x.map fun v => (List.range n).map fun (i : Nat) => powi v (i : Int)
  have hR : ∀ r ∈ R, r.length = n := by
    intro r hr
    simp only [R, List.mem_map] at hr
    obtain ⟨v, _, rfl⟩ := hr
    simp
  have hlen : R.length = x.length := by simp [R]
  have hflat : vandermonde x n = R.flatten := flatMap_eq_flatten_map _ _
  have hl : (vandermonde x n).length = x.length * n := by
    rw [hflat, length_flatten_of_forall R hR, hlen]
  refine ⟨hl, fun a i ha hi => ?_⟩
  have hwf : (Mat.mk (vandermonde x n) x.length n).WF := hl
  have hrows : rows (Mat.mk (vandermonde x n) x.length n) = R := by
    have := rows_of_flatten R hR
    rw [hlen, ← hflat] at this
    exact this
  rw [← rows_getElem hwf ha hi, hrows]
  have h1 : R[a]! = (List.range n).map fun (i : Nat) => powi x[a]! (i : Int) := by
    rw [getBang (by omega), getBang ha]; simp [R]
  rw [h1, getBang (by simpa using hi)]
  simp only [List.getElem_map, List.getElem_range]
  exact powi_natCast _ _ (by omega)

/-- **C15 (design matrix).** `design(x, rows)` for column-major feature data `x` of `k` features:
first column ones, column `j+1` is feature `j`; a length that is not a multiple of `rows` is rejected. -/
theorem design_entry [One α] [Inhabited α] (x : List α) (nrows k : Nat) (hr : 0 < nrows) (hx : x.length = nrows * k) :
    ∃ d, design x nrows = some d ∧ d.length = nrows * (k + 1) ∧
      ∀ i, i < nrows → (Mat.mk d nrows (k + 1)).get i 0 = 1 ∧
        ∀ j, j < k → (Mat.mk d nrows (k + 1)).get i (j + 1) = x[j * nrows + i]! := by
  have hlen : (List.replicate nrows (1 : α) ++ x).length = nrows * (k + 1) := by
    rw [List.length_append, List.length_replicate, hx, Nat.mul_add]; omega
  have hm : isMatrixU (List.replicate nrows (1 : α) ++ x).length nrows = some (k + 1) := by
    rw [hlen]; exact isMatrixU_of_mul hr
  refine ⟨_, by unfold design colToRowMajor; rw [hm]; rfl, by simp [hlen], ?_⟩
  intro i hi
  have hidx : ∀ j, j < k + 1 → (i * (k + 1) + j) % (k + 1) = j ∧ (i * (k + 1) + j) / (k + 1) = i := by
    intro j hj
    constructor
    · rw [Nat.add_comm, Nat.add_mul_mod_self_right, Nat.mod_eq_of_lt hj]
    · rw [Nat.add_comm, Nat.add_mul_div_right _ _ (by omega), Nat.div_eq_of_lt hj]; simp
  have hget : ∀ j, j < k + 1 →
      (Mat.mk ((List.range (List.replicate nrows (1 : α) ++ x).length).map fun p =>
        (List.replicate nrows (1 : α) ++ x)[(p % (k + 1)) * nrows + p / (k + 1)]!) nrows (k + 1)).get i j
      = (List.replicate nrows (1 : α) ++ x)[j * nrows + i]! := by
    intro j hj
    have hk : i * (k + 1) + j < nrows * (k + 1) := idx_lt hi hj
    rw [get_mk _ _ _ _ _ (by simpa [hlen] using hk)]
    simp only [List.getElem_map, List.getElem_range, (hidx j hj).1, (hidx j hj).2]
  constructor
  · rw [hget 0 (by omega)]
    simp only [Nat.zero_mul, Nat.zero_add]
    rw [getBang (by rw [List.length_append, List.length_replicate]; omega)]
    rw [List.getElem_append_left (by simpa using hi)]
    simp
  · intro j hj
    rw [hget (j + 1) (by omega)]
    have h1 : (j + 1) * nrows + i < (List.replicate nrows (1 : α) ++ x).length := by
      rw [hlen, Nat.mul_comm nrows]
      have : (j + 1 + 1) * nrows ≤ (k + 1) * nrows := Nat.mul_le_mul_right _ (by omega)
      rw [Nat.add_mul (j + 1) 1] at this; omega
    have h2 : j * nrows + i < x.length := by
      rw [hx, Nat.mul_comm nrows]
      have : (j + 1) * nrows ≤ k * nrows := Nat.mul_le_mul_right _ hj
      rw [Nat.add_mul] at this; omega
    rw [getBang h1, getBang h2, List.getElem_append_right (by simp [Nat.add_mul]; omega)]
    congr 1
    simp [Nat.add_mul]; omega

theorem design_rejects [One α] [Inhabited α] (x : List α) (nrows : Nat) (h : nrows = 0 ∨ x.length % nrows ≠ 0) :
    design x nrows = none := by
  unfold design colToRowMajor isMatrixU isMatrix
  by_cases h0 : nrows = 0
  · simp [h0]
  · have h := h.resolve_left h0
    have hne : ¬ nrows * ((List.replicate nrows (1 : α) ++ x).length / nrows) = (List.replicate nrows (1 : α) ++ x).length := by
      intro he
      apply h
      have hd : nrows ∣ (List.replicate nrows (1 : α) ++ x).length := ⟨_, he.symm⟩
      rw [List.length_append, List.length_replicate] at hd
      have : nrows ∣ x.length := (Nat.dvd_add_right (Nat.dvd_refl nrows)).mp hd
      exact Nat.mod_eq_zero_of_dvd this
    simp only [h0, if_false, hne]
    rfl

/-- **C15 (linspace).** Over any field of characteristic zero: `n` points, first `a`, last `b`,
constant step `(b − a)/(n − 1)`; a single point is the start point (F39); `n = 0` panics. -/
theorem linspace_spec [Field α] [CharZero α] [Inhabited α] (a b : α) (n : Nat) (hn : 2 ≤ n) :
    ∃ l, linspace a b n = some l ∧ l.length = n ∧ l[0]! = a ∧ l[n - 1]! = b ∧
      ∀ i, i + 1 < n → l[i + 1]! - l[i]! = (b - a) / ((n : α) - 1) := by
  have hne : ((n - 1 : Nat) : α) ≠ 0 := by
    have : n - 1 ≠ 0 := by omega
    exact_mod_cast this
  have hcast : ((n - 1 : Nat) : α) = (n : α) - 1 := by
    rw [Nat.cast_sub (by omega)]; simp
  refine ⟨(List.range n).map fun (i : Nat) => a + (i : α) * ((b - a) / ((n - 1 : Nat) : α)), ?_, by simp, ?_, ?_, ?_⟩
  · simp only [linspace, show ¬ n = 0 by omega, show ¬ n = 1 by omega, if_false]
  · rw [getBang (by simp; omega)]; simp
  · rw [getBang (by simp; omega)]
    simp only [List.getElem_map, List.getElem_range]
    rw [mul_div_cancel₀ _ hne]; ring
  · intro i hi
    rw [getBang (by simp; omega), getBang (by simp; omega)]
    simp only [List.getElem_map, List.getElem_range, hcast]
    push_cast; ring

theorem linspace_one [Add α] [Sub α] [Mul α] [Div α] [NatCast α] (a b : α) : linspace a b 1 = some [a] := rfl

theorem linspace_zero [Add α] [Sub α] [Mul α] [Div α] [NatCast α] (a b : α) : linspace a b 0 = none := rfl

example : linspace (0 : ℚ) 1 5 = some [0, 1 / 4, 1 / 2, 3 / 4, 1] := by
  norm_num [linspace, List.range, List.range.loop]

/-- **C15 (arange, F26).** Over an ordered field with `ceil`, positive step: `⌈(stop−start)/step⌉`
points `start + i·step`, all `< stop`, and the next one would be `≥ stop` (half-open convention). -/
theorem arange_spec [Field α] [LinearOrder α] [IsStrictOrderedRing α] [FloorSemiring α] [CeilNat α] [Inhabited α]
    (hceil : ∀ x : α, CeilNat.ceilNat x = ⌈x⌉₊) (start stop step : α) (hs : 0 < step) :
    (arange start stop step).length = ⌈(stop - start) / step⌉₊ ∧
    (∀ i, i < (arange start stop step).length →
      (arange start stop step)[i]! = start + (i : α) * step ∧ (arange start stop step)[i]! < stop) ∧
    stop ≤ start + ((arange start stop step).length : α) * step := by
  have hlen : (arange start stop step).length = ⌈(stop - start) / step⌉₊ := by simp [arange, hceil]
  refine ⟨hlen, ?_, ?_⟩
  · intro i hi
    have hv : (arange start stop step)[i]! = start + (i : α) * step := by
      rw [getBang hi]; simp [arange]
    refine ⟨hv, ?_⟩
    rw [hv]
    rw [hlen] at hi
    have := Nat.lt_ceil.mp hi
    rw [lt_div_iff₀ hs] at this
    linarith
  · rw [hlen]
    have := Nat.le_ceil ((stop - start) / step)
    rw [div_le_iff₀ hs] at this
    linarith

/-- With a positive step and `start < stop` the grid is not empty and starts at `start`. -/
theorem arange_first [Field α] [LinearOrder α] [IsStrictOrderedRing α] [FloorSemiring α] [CeilNat α] [Inhabited α]
    (hceil : ∀ x : α, CeilNat.ceilNat x = ⌈x⌉₊) (start stop step : α) (hs : 0 < step) (h : start < stop) :
    0 < (arange start stop step).length ∧ (arange start stop step)[0]! = start := by
  have hpos : 0 < (arange start stop step).length := by
    simp only [arange, List.length_map, List.length_range, hceil]
    exact Nat.ceil_pos.mpr (div_pos (by linarith) hs)
  refine ⟨hpos, ?_⟩
  rw [getBang hpos]; simp [arange]

instance : CeilNat ℚ := ⟨fun x => ⌈x⌉₊⟩

/-- F26 witness: `arange(0, 1, 3/10)` has 4 points (not 3). -/
example : (arange (0 : ℚ) 1 (3 / 10)).length = 4 := by
  have h : ⌈((1 : ℚ) - 0) / (3 / 10)⌉₊ = 4 := by
    rw [Nat.ceil_eq_iff (by norm_num)]; norm_num
  simpa [arange, CeilNat.ceilNat] using h

end ctor

/-! ## (5) rotations -/
section rot
open Cv.Rot
variable [CommRing α] [Inhabited α]

/-- A 3×3 model matrix as a Mathlib matrix (the specification side). -/
def toMatrix3 (m : Mat α) : Matrix (Fin 3) (Fin 3) α := Matrix.of fun i j => m.get i.val j.val

theorem cwCS_eq (c s : α) (ax : Axis) : cwCS c s ax = some ⟨cwData c s ax, 3, 3⟩ := by
  cases ax <;> rfl

theorem ccwCS_eq (c s : α) (ax : Axis) : ccwCS c s ax = some ⟨ccwData c s ax, 3, 3⟩ := by
  cases ax <;> rfl

theorem toMatrix3_mk9 (a0 a1 a2 a3 a4 a5 a6 a7 a8 : α) :
    toMatrix3 ⟨[a0, a1, a2, a3, a4, a5, a6, a7, a8], 3, 3⟩ = !![a0, a1, a2; a3, a4, a5; a6, a7, a8] := by
  ext i j
  fin_cases i <;> fin_cases j <;> rfl

omit [CommRing α] in
theorem t_mk9 (a0 a1 a2 a3 a4 a5 a6 a7 a8 : α) :
    Shape.t ⟨[a0, a1, a2, a3, a4, a5, a6, a7, a8], 3, 3⟩ = some ⟨[a0, a3, a6, a1, a4, a7, a2, a5, a8], 3, 3⟩ := by
  rw [t_wf (by simp [WF]) (by simp)]
  simp [build, Mat.get, List.range, List.range.loop]

/-- **C15 (rotations are orthogonal).** In every commutative ring, for `c² + s² = 1`, each of the six
rotation matrices satisfies `RᵀR = I = RRᵀ`. -/
theorem rot_orthogonal (c s : α) (h : c * c + s * s = 1) (ax : Axis) (R : Mat α)
    (hR : cwCS c s ax = some R ∨ ccwCS c s ax = some R) :
    (toMatrix3 R).transpose * toMatrix3 R = 1 ∧ toMatrix3 R * (toMatrix3 R).transpose = 1 := by
  rcases hR with hR | hR
  · rw [cwCS_eq] at hR; cases hR
    cases ax <;> simp only [cwData, toMatrix3_mk9] <;> constructor <;>
      (ext i j; fin_cases i <;> fin_cases j <;>
        simp [Matrix.mul_apply, Fin.sum_univ_three] <;> first | ring1 | linear_combination h)
  · rw [ccwCS_eq] at hR; cases hR
    cases ax <;> simp only [ccwData, toMatrix3_mk9] <;> constructor <;>
      (ext i j; fin_cases i <;> fin_cases j <;>
        simp [Matrix.mul_apply, Fin.sum_univ_three] <;> first | ring1 | linear_combination h)

/-- **C15 (unit determinant).** -/
theorem rot_det (c s : α) (h : c * c + s * s = 1) (ax : Axis) (R : Mat α)
    (hR : cwCS c s ax = some R ∨ ccwCS c s ax = some R) : (toMatrix3 R).det = 1 := by
  rcases hR with hR | hR
  · rw [cwCS_eq] at hR; cases hR
    cases ax <;> simp only [cwData, toMatrix3_mk9, Matrix.det_fin_three] <;> simp <;> first | ring1 | linear_combination h
  · rw [ccwCS_eq] at hR; cases hR
    cases ax <;> simp only [ccwData, toMatrix3_mk9, Matrix.det_fin_three] <;> simp <;> first | ring1 | linear_combination h

/-- **C15 (clockwise = counter-clockwiseᵀ).** The model transposition `Matrix::t` of the
counter-clockwise matrix is the clockwise matrix, entry for entry. -/
theorem rot_cw_eq_ccw_transpose (c s : α) (ax : Axis) :
    ∃ Rcw Rccw, cwCS c s ax = some Rcw ∧ ccwCS c s ax = some Rccw ∧
      Shape.t Rccw = some Rcw ∧ Shape.t Rcw = some Rccw ∧ toMatrix3 Rcw = (toMatrix3 Rccw).transpose := by
  refine ⟨_, _, cwCS_eq c s ax, ccwCS_eq c s ax, ?_, ?_, ?_⟩
  · cases ax <;> simp only [cwData, ccwData, t_mk9]
  · cases ax <;> simp only [cwData, ccwData, t_mk9]
  · cases ax <;> simp only [cwData, ccwData, toMatrix3_mk9] <;>
      (ext i j; fin_cases i <;> fin_cases j <;> rfl)

/-- The constructors called with an angle: whenever the scalar type's `cos`/`sin` satisfy the
Pythagorean identity at that angle (true of `ℝ`; checked numerically for `f64`). -/
theorem rot_angle_orthogonal [Transc α] (θ : α) (h : Transc.cos θ * Transc.cos θ + Transc.sin θ * Transc.sin θ = 1)
    (ax : Axis) (R : Mat α) (hR : rotationMatrixCw θ ax = some R ∨ rotationMatrixCcw θ ax = some R) :
    (toMatrix3 R).transpose * toMatrix3 R = 1 ∧ (toMatrix3 R).det = 1 :=
  ⟨(rot_orthogonal _ _ h ax R hR).1, rot_det _ _ h ax R hR⟩

/-- Non-vacuity: the integer rotation by a quarter turn (`c = 0, s = 1`). -/
example : (0 : Int) * 0 + 1 * 1 = 1 ∧ cwCS (0 : Int) 1 Axis.Z = some ⟨[0, 1, 0, -1, 0, 0, 0, 0, 1], 3, 3⟩ := by decide

end rot

/-! ## (6) predicates and comparisons answer according to their definitions -/
section pred
open Cv.Ctor

theorem isSquare_iff (m : Mat α) : isSquare m = true ↔ m.nrows = m.ncols := by simp [isSquare]

/-- `is_matrix`: `Ok(len / nrows)` exactly when `nrows` divides `len`; division by zero panics. -/
theorem isMatrix_spec (len nrows : Nat) (hr : 0 < nrows) :
    isMatrix len nrows = some (if nrows ∣ len then some (len / nrows) else none) := by
  unfold isMatrix
  have h0 : ¬ nrows = 0 := by omega
  by_cases hd : nrows ∣ len
  · simp [h0, hd, Nat.mul_div_cancel' hd]
  · have : ¬ nrows * (len / nrows) = len := fun h => hd ⟨_, h.symm⟩
    simp [h0, hd, this]

theorem isMatrix_zero (len : Nat) : isMatrix len 0 = none := by simp [isMatrix]

/-- Slice-level `is_square`: `Ok(n)` exactly for `len = n²`. -/
theorem isSquareLen_iff (len n : Nat) : isSquareLen len = some n ↔ n * n = len := by
  unfold isSquareLen
  constructor
  · intro h
    by_cases hs : Nat.sqrt len * Nat.sqrt len = len
    · simp only [hs, if_true, Option.some.injEq] at h; rw [← h]; exact hs
    · simp [hs] at h
  · intro h
    subst h
    simp [Nat.sqrt_eq]

variable [Field α] [LinearOrder α] [IsStrictOrderedRing α] [HasAbs α] [Inhabited α]

/-- **C15 (is_symmetric).** Square and `|a_ij − a_ji| ≤ ε` for all `i ≤ j`. -/
theorem isSymmetric_iff (habs : ∀ x : α, HasAbs.abs x = |x|) (eps : α) (m : Mat α) :
    isSymmetric eps m = true ↔
      m.nrows = m.ncols ∧ ∀ i j, i < m.nrows → j < m.ncols → i ≤ j → |m.get i j - m.get j i| ≤ eps := by
  unfold isSymmetric
  by_cases h : m.nrows = m.ncols
  · simp only [h, if_true, List.all_eq_true, List.mem_range, true_and, Mat.get, habs]
    constructor
    · intro H i j hi hj hij
      have := H i hi j hj
      simpa [hij] using this
    · intro H i hi j hj
      by_cases hij : i ≤ j
      · simpa [hij] using H i j hi hj hij
      · simp [hij]
  · simp [h]

/-- **C15 (is_upper_triangular, F38).** All stored entries below the diagonal are zero — for every
shape, tall matrices included. -/
theorem isUpperTriangular_iff (m : Mat α) :
    isUpperTriangular m = true ↔ ∀ i j, i < m.nrows → j < m.ncols → j < i → m.get i j = 0 := by
  unfold isUpperTriangular
  simp only [List.all_eq_true, List.mem_range, beq_iff_eq, Nat.lt_min]
  constructor
  · intro H i j hi hj hji; exact H i hi j ⟨hji, hj⟩
  · intro H i hi j hj; exact H i j hi hj.2 hj.1

/-- **C15 (is_lower_triangular).** All entries above the diagonal are zero. -/
theorem isLowerTriangular_iff (m : Mat α) :
    isLowerTriangular m = true ↔ ∀ i j, i < m.nrows → j < m.ncols → i < j → m.get i j = 0 := by
  unfold isLowerTriangular
  simp only [List.all_eq_true, List.mem_range]
  constructor
  · intro H i j hi hj hij
    have := H i hi j hj
    simpa [hij] using this
  · intro H i hi j hj
    by_cases hij : i < j
    · simpa [hij] using H i j hi hj hij
    · simp [hij]

/-- `rel_diff` is the relative difference of the magnitudes with respect to the smaller one. -/
theorem relDiff_eq (habs : ∀ x : α, HasAbs.abs x = |x|) (x y : α) :
    relDiff x y = if x = 0 then |y| else if y = 0 then |x| else |(|x| - |y|)| / min |x| |y| := by
  unfold relDiff
  simp only [habs, beq_iff_eq]
  by_cases hx : x = 0
  · simp [hx]
  · by_cases hy : y = 0
    · simp [hx, hy]
    · simp only [hx, hy, if_false]
      by_cases h : |y| < |x|
      · rw [if_pos h, min_eq_right (le_of_lt h)]
      · rw [if_neg h, min_eq_left (not_lt.mp h)]

theorem closePair_iff (a b tol : α) :
    (!(((decide (a < 0)) && (decide (0 < b))) || ((decide (0 < a)) && (decide (b < 0))) || decide (tol < relDiff a b))) = true ↔
      ¬ (a < 0 ∧ 0 < b) ∧ ¬ (0 < a ∧ b < 0) ∧ relDiff a b ≤ tol := by
  by_cases h1 : a < 0 <;> by_cases h2 : 0 < b <;> by_cases h3 : 0 < a <;> by_cases h4 : b < 0 <;>
    by_cases h5 : tol < relDiff a b <;> simp [*, not_lt.mp]

/-- **C15 (close_to, definition).** Equal length and, position by position, not of strictly opposite
sign and relative difference at most `tol`. -/
theorem vecCloseTo_iff (xs ys : List α) (tol : α) :
    vecCloseTo xs ys tol = true ↔
      xs.length = ys.length ∧
        ∀ p ∈ List.zip xs ys, ¬ (p.1 < 0 ∧ 0 < p.2) ∧ ¬ (0 < p.1 ∧ p.2 < 0) ∧ relDiff p.1 p.2 ≤ tol := by
  unfold vecCloseTo
  by_cases h : xs.length = ys.length
  · simp only [h, if_true, List.all_eq_true, true_and]
    constructor
    · intro H p hp; exact (closePair_iff p.1 p.2 tol).mp (H p hp)
    · intro H p hp; exact (closePair_iff p.1 p.2 tol).mpr (H p hp)
  · simp [h]

/-- **C15 (close_to never equates values of opposite sign, F27)** — whatever the tolerance and
whatever the magnitudes. -/
theorem vecCloseTo_never_opposite_sign (xs ys : List α) (tol : α) (h : vecCloseTo xs ys tol = true)
    (i : Nat) (h1 : i < xs.length) (h2 : i < ys.length) :
    ¬ (xs[i] < 0 ∧ 0 < ys[i]) ∧ ¬ (0 < xs[i] ∧ ys[i] < 0) := by
  have H := ((vecCloseTo_iff xs ys tol).mp h).2
  have hm : (xs[i], ys[i]) ∈ List.zip xs ys := by
    have hl : i < (List.zip xs ys).length := by simp; omega
    have : (List.zip xs ys)[i] = (xs[i], ys[i]) := by simp
    rw [← this]; exact List.getElem_mem hl
  have := H _ hm
  exact ⟨this.1, this.2.1⟩

/-- F27 witness: `1` and `−1` are not close, at any tolerance; equal values are. -/
example (tol : α) : vecCloseTo [(1 : α)] [-1] tol = false := by
  simp [vecCloseTo]
example (habs : ∀ x : α, HasAbs.abs x = |x|) (tol : α) (ht : 0 ≤ tol) : vecCloseTo [(1 : α)] [1] tol = true := by
  rw [vecCloseTo_iff]
  refine ⟨rfl, ?_⟩
  intro p hp
  simp at hp
  subst hp
  refine ⟨by simp, by simp, ?_⟩
  rw [relDiff_eq habs]; simpa using ht

theorem closeTo_iff (m o : Mat α) (tol : α) :
    closeTo m o tol = true ↔ m.nrows = o.nrows ∧ m.ncols = o.ncols ∧ vecCloseTo m.data o.data tol = true := by
  unfold closeTo
  by_cases h : m.nrows = o.nrows ∧ m.ncols = o.ncols
  · simp [h]
  · simp only [h, if_false, Bool.false_eq_true, false_iff]
    intro h'; exact h ⟨h'.1, h'.2.1⟩

/-- **C15 (PartialEq, definition).** Equal length and every pair within the absolute `ε`. -/
theorem vecEq_iff (habs : ∀ x : α, HasAbs.abs x = |x|) (eps : α) (xs ys : List α) :
    vecEq eps xs ys = true ↔ xs.length = ys.length ∧ ∀ p ∈ List.zip xs ys, |p.1 - p.2| ≤ eps := by
  unfold vecEq
  by_cases h : xs.length = ys.length
  · simp only [h, if_true, List.all_eq_true, true_and, habs]
    constructor
    · intro H p hp; simpa using H p hp
    · intro H p hp; simpa using H p hp
  · simp [h]

theorem matEq_iff (eps : α) (m o : Mat α) :
    matEq eps m o = true ↔ m.nrows = o.nrows ∧ m.ncols = o.ncols ∧ vecEq eps m.data o.data = true := by
  unfold matEq
  by_cases h : m.nrows = o.nrows ∧ m.ncols = o.ncols
  · simp [h]
  · simp only [h, if_false, Bool.false_eq_true, false_iff]
    intro h'; exact h ⟨h'.1, h'.2.1⟩

/-- The absolute-`ε` equality equates values of opposite sign only if both are within `ε` of zero. -/
theorem vecEq_opposite_sign (habs : ∀ x : α, HasAbs.abs x = |x|) (eps : α) (xs ys : List α)
    (h : vecEq eps xs ys = true) (p : α × α) (hp : p ∈ List.zip xs ys) (hs : (p.1 < 0 ∧ 0 < p.2) ∨ (0 < p.1 ∧ p.2 < 0)) :
    |p.1| ≤ eps ∧ |p.2| ≤ eps := by
  have H := ((vecEq_iff habs eps xs ys).mp h).2 p hp
  rcases hs with ⟨h1, h2⟩ | ⟨h1, h2⟩
  · rw [abs_of_neg (by linarith)] at H
    rw [abs_of_neg h1, abs_of_pos h2]
    constructor <;> linarith
  · rw [abs_of_pos (by linarith)] at H
    rw [abs_of_pos h1, abs_of_neg h2]
    constructor <;> linarith

/-- **C15 (is_design).** For an `nrows × ncols` slice with at least one column: every entry of the
first column is within `ε` of one. -/
theorem isDesign_spec (habs : ∀ x : α, HasAbs.abs x = |x|) (eps : α) (m : List α) (nrows ncols : Nat)
    (hr : 0 < nrows) (hc : 0 < ncols) (hlen : m.length = nrows * ncols) :
    ∃ b, isDesign eps m nrows = some b ∧
      (b = true ↔ ∀ i, i < nrows → |(Mat.mk m nrows ncols).get i 0 - 1| ≤ eps) := by
  have hm : isMatrixU m.length nrows = some ncols := by rw [hlen]; exact isMatrixU_of_mul hr
  have hc0 : ¬ ncols = 0 := by omega
  refine ⟨_, by unfold isDesign; rw [hm, Option.bind_some, if_neg hc0], ?_⟩
  simp only [List.all_eq_true, List.mem_range, Mat.get, habs, Nat.add_zero]
  constructor
  · intro H i hi; simpa using H i hi
  · intro H i hi; simpa using H i hi

end pred

/-! ## slice-level layout conversions and predicates of `utils.rs` -/
section slices
open Cv.Ctor

/-- **C15 (slice transpose / row→column major).** For an `r × c` row-major slice: the result is the
`c × r` row-major transpose (= the column-major layout of the input). -/
theorem transposeData_spec [Inhabited α] (a : List α) (r c : Nat) (hr : 0 < r) (hlen : a.length = r * c) :
    ∃ d, transposeData a r = some d ∧ rowToColMajor a r = some d ∧ d.length = c * r ∧
      ∀ i j, i < r → j < c → (Mat.mk d c r).get j i = (Mat.mk a r c).get i j := by
  have hm : (Mat.mk a r c).WF := hlen
  refine ⟨_, transposeData_wf hm hr, rowToColMajor_wf hm hr, build_wf _ _ _, ?_⟩
  intro i j hi hj
  exact build_get (fun j' i' => (Mat.mk a r c).get i' j') hj hi

/-- **C15 (column→row major).** For a column-major slice with `r` rows and `c` columns the result is
its row-major layout: entry `(i, j)` is `a[j·r + i]`. -/
theorem colToRowMajor_spec [Inhabited α] (a : List α) (r c : Nat) (hr : 0 < r) (hlen : a.length = r * c) :
    ∃ d, colToRowMajor a r = some d ∧ d.length = r * c ∧
      ∀ i j, i < r → j < c → (Mat.mk d r c).get i j = a[j * r + i]! := by
  have hm : (Mat.mk a c r).WF := by simp [WF, hlen, Nat.mul_comm]
  refine ⟨_, colToRowMajor_wf hm hr, build_wf _ _ _, ?_⟩
  intro i j hi hj
  exact build_get (fun j' i' => (Mat.mk a c r).get i' j') hi hj

/-- The layout conversions reject a length that is not a multiple of the row count, and zero rows. -/
theorem layout_rejects [Inhabited α] (a : List α) (r : Nat) (h : r = 0 ∨ a.length % r ≠ 0) :
    transposeData a r = none ∧ rowToColMajor a r = none ∧ colToRowMajor a r = none := by
  have hn : isMatrixU a.length r = none := by
    unfold isMatrixU isMatrix
    by_cases h0 : r = 0
    · simp [h0]
    · have h := h.resolve_left h0
      have : ¬ r * (a.length / r) = a.length := fun he => h (Nat.mod_eq_zero_of_dvd ⟨_, he.symm⟩)
      simp only [h0, if_false, this]; rfl
  simp [transposeData, rowToColMajor, colToRowMajor, hn]

/-- **C15 (slice diag).** -/
theorem diagU_spec [Inhabited α] (a : List α) (n : Nat) (hlen : a.length = n * n) :
    diagU a = some ((List.range n).map fun i => (Mat.mk a n n).get i i) := by
  unfold diagU
  rw [(isSquareLen_iff a.length n).mpr hlen.symm]
  rfl

theorem diagU_rejects [Inhabited α] (a : List α) (h : ∀ n, n * n ≠ a.length) : diagU a = none := by
  unfold diagU
  cases hs : isSquareLen a.length with
  | none => rfl
  | some n => exact absurd ((isSquareLen_iff _ _).mp hs) (h n)

variable [Field α] [LinearOrder α] [IsStrictOrderedRing α] [HasAbs α] [Inhabited α]

/-- **C15 (slice is_symmetric).** -/
theorem isSymmetricU_spec (habs : ∀ x : α, HasAbs.abs x = |x|) (eps : α) (a : List α) (n : Nat) (hlen : a.length = n * n) :
    ∃ b, isSymmetricU eps a = some b ∧
      (b = true ↔ ∀ i j, i < n → j < n → i ≤ j → |(Mat.mk a n n).get i j - (Mat.mk a n n).get j i| ≤ eps) := by
  refine ⟨_, by unfold isSymmetricU; rw [(isSquareLen_iff a.length n).mpr hlen.symm]; rfl, ?_⟩
  simp only [List.all_eq_true, List.mem_range, Mat.get, habs]
  constructor
  · intro H i j hi hj hij
    have := H i hi j hj
    simpa [hij] using this
  · intro H i hi j hj
    by_cases hij : i ≤ j
    · simpa [hij] using H i j hi hj hij
    · simp [hij]

end slices

/-! ## the repaired defects: the legacy fragments violate the property on their witnesses -/
namespace Legacy

/-- `reshape_mut(-1, nc)` before F24: the row count is inferred by truncating division, with no
divisibility test. -/
def reshapeMutInferRows (m : Mat α) (nc : Nat) : Mat α := ⟨m.data, m.nrows * m.ncols / nc, nc⟩

/-- F24: a 2×3 matrix became "1×4" holding six elements. -/
theorem F24_breaks_invariant : ¬ (reshapeMutInferRows (⟨[1, 2, 3, 4, 5, 6], 2, 3⟩ : Mat Nat) 4).WF := by decide

/-- `diag` before F25: stride `min(nrows, ncols)` instead of `ncols`. -/
def diagMinStride [Inhabited α] (m : Mat α) : List α :=
  (List.range (min m.nrows m.ncols)).map fun i => m.data[i * min m.nrows m.ncols + i]!

/-- F25: on `[[1,2,3],[4,5,6]]` the legacy code returned `[1,4]`; the diagonal is `[1,5]`. -/
theorem F25_wrong_diagonal :
    diagMinStride (⟨[1, 2, 3, 4, 5, 6], 2, 3⟩ : Mat Nat) = [1, 4] ∧ diag (⟨[1, 2, 3, 4, 5, 6], 2, 3⟩ : Mat Nat) = [1, 5] := by decide

/-- F26: truncating the point count drops the last point below `stop` (`arange(0, 1, 3/10)`). -/
theorem F26_truncation_drops_a_point : ⌊((1 : ℚ) - 0) / (3 / 10)⌋₊ = 3 ∧ ⌈((1 : ℚ) - 0) / (3 / 10)⌉₊ = 4 := by
  constructor
  · rw [Nat.floor_eq_iff (by norm_num)]; norm_num
  · rw [Nat.ceil_eq_iff (by norm_num)]; norm_num

/-- F27: `rel_diff` compares magnitudes, so `rel_diff(1, −1) = 0`: without the sign test `1` and `−1`
were "close" at every tolerance. -/
theorem F27_rel_diff_blind_to_sign [Field α] [LinearOrder α] [IsStrictOrderedRing α] [HasAbs α] [Inhabited α]
    (habs : ∀ x : α, HasAbs.abs x = |x|) : relDiff (1 : α) (-1) = 0 := by
  rw [relDiff_eq habs]; simp

/-- `is_upper_triangular` before F38: row `i` scanned over all `j < i`, reading `self[i][j]`, which
panics (`none`) for `j ≥ ncols`. -/
def upperScan [Zero α] [BEq α] [Inhabited α] (m : Mat α) : List (Nat × Nat) → Option Bool
  | [] => some true
  | (i, j) :: rest =>
    if m.ncols ≤ j then none
    else if !(m.get i j == 0) then some false
    else upperScan m rest

def isUpperTriangularLegacy [Zero α] [BEq α] [Inhabited α] (m : Mat α) : Option Bool :=
  upperScan m ((List.range m.nrows).flatMap fun i => (List.range i).map fun j => (i, j))

/-- F38: the 3×1 matrix `[[1],[0],[0]]` is upper triangular; the legacy code panicked on it. -/
theorem F38_panics_on_tall :
    isUpperTriangularLegacy (⟨[1, 0, 0], 3, 1⟩ : Mat Int) = none ∧ isUpperTriangular (⟨[1, 0, 0], 3, 1⟩ : Mat Int) = true := by decide

end Legacy

instance : HasAbs ℚ := ⟨fun x => |x|⟩
/-- Non-vacuity of the hypothesis `habs`, and the F27 witness over `ℚ`. -/
example : ∀ x : ℚ, HasAbs.abs x = |x| := fun _ => rfl
example : vecCloseTo [(1 : ℚ)] [-1] (1 / 1000000000) = false := by simp [vecCloseTo]

end Cv.C15
