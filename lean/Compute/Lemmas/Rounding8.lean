import Compute.Lemmas.Rounding7
import Compute.Props.Rounding7
import Compute.Lemmas.C10LM
import Compute.Lemmas.C10DeepEval
import Mathlib.Analysis.Calculus.MeanValue
import Mathlib.Analysis.SpecialFunctions.ExpDeriv
import Mathlib.Analysis.Calculus.Deriv.Inv
/-
Helpers for `Props/Rounding8.lean` (eighth batch).

C06 — from the score built from the *computed* working residuals (`Rounding7.scoring_fixed_point`) to the EXACT
penalised score at `β̂`, for the canonical families (Gaussian/identity, Bernoulli/logistic, Poisson and
quasi-Poisson/log):
* `linearPredictor_error`: `η̂ = Xβ (+ offset)` — `γ_{p+2}`;
* `linkMaps_*`: `invLink`, `dInvLink`, `variance` entry by entry; for the canonical families `dμ̂ᵢ` and `v̂ᵢ` are
  the very same floating-point number, so `dμ̂ᵢ ⊘ v̂ᵢ = fl(1)`;
* `sigma_lipschitz` (`|σ(a) − σ(b)| ≤ ¼|a − b|`), `exp_lipschitz`;
* `muHat_error`: `|μ̂ᵢ − μ(ηᵢ)|` per family.
-/
set_option linter.unusedSectionVars false
set_option linter.unusedVariables false
set_option linter.unusedSimpArgs false
namespace Cv.Rounding8
open Cv Cv.FlModel Cv.Rounding Cv.Rounding3 Cv.Glm Finset

variable {M : FlModel}

/-- the real value of entry `i` of a list of rounded reals (`0` out of range) -/
def xv (l : List (Fl M)) (i : Nat) : ℝ := (l[i]!).val

theorem xv_eq_rd (l : List (Fl M)) (i : Nat) : xv l i = (LA.rd l i).val := by
  unfold xv
  simp only [LA.rd, List.getD_eq_getElem?_getD]
  by_cases h : i < l.length
  · rw [getElem!_pos l i h, List.getElem?_eq_getElem h]; rfl
  · rw [getElem!_neg l i h, List.getElem?_eq_none (by omega)]; rfl

/-! ### the linear predictor -/

/-- the offset of observation `i` (`0` without offsets) -/
def offv (off : Option (List (Fl M))) (i : Nat) : ℝ :=
  match off with
  | some o => xv o i
  | none => 0

/-- **`η̂ = X·β (+ offset)`**: `|η̂ᵢ − (Σⱼ Xᵢⱼβⱼ + oᵢ)| ≤ γ_{p+2}·(Σⱼ |Xᵢⱼ||βⱼ| + |oᵢ|)` -/
theorem linearPredictor_error (x coef : List (Fl M)) (n p : Nat) (off : Option (List (Fl M)))
    (hn : 0 < n) (hp : 0 < p) (hx : x.length = n * p) (hc : coef.length = p)
    (ho : ∀ o, off = some o → o.length = n) (hu : ((p + 2 : Nat) : ℝ) * M.u < 1) :
    ∃ eta, linearPredictor x coef n p off = some eta ∧ eta.length = n ∧
      ∀ i, i < n → |xv eta i - (∑ j ∈ range p, xv x (i * p + j) * xv coef j + offv off i)| ≤
        M.γ (p + 2) * (∑ j ∈ range p, |xv x (i * p + j)| * |xv coef j| + |offv off i|) := by
  have hun := M.u_nonneg
  have hu1 : ((p + 1 : Nat) : ℝ) * M.u < 1 :=
    lt_of_le_of_lt (mul_le_mul_of_nonneg_right (Nat.cast_le.mpr (by omega)) hun) hu
  obtain ⟨c, hcm, hcl, hce⟩ := matmul_error_succ x coef n p p 1 false false hx (by simpa using hc) hn hp
    (by simp) (by simpa using hu1)
  simp only [Bool.false_eq_true, if_false, Nat.mul_one] at hcl hce
  have hce' : ∀ i, i < n → |xv c i - ∑ j ∈ range p, xv x (i * p + j) * xv coef j| ≤
      M.γ (p + 1) * ∑ j ∈ range p, |xv x (i * p + j)| * |xv coef j| := by
    intro i hi
    have := hce i 0 hi (by norm_num)
    simpa [exactCell, absCell, C05L.opEntry, xv] using this
  have hγmono : M.γ (p + 1) ≤ M.γ (p + 2) := M.γ_mono (by omega) hu
  cases off with
  | none =>
    refine ⟨c, ?_, hcl, fun i hi => ?_⟩
    · unfold linearPredictor; rw [hcm]; rfl
    · simp only [offv, add_zero, abs_zero]
      exact le_trans (hce' i hi) (mul_le_mul_of_nonneg_right hγmono
        (Finset.sum_nonneg fun j _ => mul_nonneg (abs_nonneg _) (abs_nonneg _)))
  | some o =>
    have hol := ho o rfl
    refine ⟨List.zipWith (· + ·) c o, ?_, by simp; omega, fun i hi => ?_⟩
    · unfold linearPredictor
      rw [hcm]
      simp only [Option.bind_eq_bind, Option.bind_some]
      rw [if_neg (by simpa using hol), C06L.vbin_eq _ c o (by omega)]
    · have hent : xv (List.zipWith (· + ·) c o) i = M.rnd (xv c i + xv o i) := by
        unfold xv
        rw [C06L.getBang_zipWith _ _ _ i (by omega) (by omega)]; rfl
      obtain ⟨δ, hδ, hr⟩ := M.std (xv c i + xv o i)
      rw [hent, hr]
      simp only [offv]
      set S := ∑ j ∈ range p, xv x (i * p + j) * xv coef j with hS
      set T := ∑ j ∈ range p, |xv x (i * p + j)| * |xv coef j| with hT
      have hT0 : 0 ≤ T := Finset.sum_nonneg fun j _ => mul_nonneg (abs_nonneg _) (abs_nonneg _)
      have hST : |S| ≤ T := by
        refine le_trans (Finset.abs_sum_le_sum_abs _ _) (le_of_eq ?_)
        exact Finset.sum_congr rfl fun j _ => abs_mul _ _
      have h1 := hce' i hi
      have hγ := M.γ_nonneg (p + 1) hu1
      have h1u : ((1 : Nat) : ℝ) * M.u < 1 := by simpa using M.u_lt_one
      have hγ1 : M.u ≤ M.γ 1 := by
        have := (Fac.one_add (M := M) (δ := M.u) (by rw [abs_of_nonneg hun])).abs_sub_one_le h1u
        simpa [abs_of_nonneg hun] using this
      have hadd := M.γ_add_le (p + 1) 1 (by rw [show p + 1 + 1 = p + 2 by omega]; exact hu)
      rw [show p + 1 + 1 = p + 2 by omega] at hadd
      have e : (xv c i + xv o i) * (1 + δ) - (S + xv o i) =
          (xv c i - S) * (1 + δ) + δ * (S + xv o i) := by ring
      rw [e]
      refine le_trans (abs_add_le _ _) ?_
      rw [abs_mul, abs_mul]
      have hd1 : |1 + δ| ≤ 1 + M.u := by
        have := abs_le.mp hδ
        rw [abs_le]; constructor <;> linarith
      have t1 : |xv c i - S| * |1 + δ| ≤ (M.γ (p + 1) * T) * (1 + M.u) :=
        mul_le_mul h1 hd1 (abs_nonneg _) (mul_nonneg hγ hT0)
      have t2 : |δ| * |S + xv o i| ≤ M.u * (T + |xv o i|) :=
        mul_le_mul hδ (le_trans (abs_add_le _ _) (by linarith)) (abs_nonneg _) hun
      have ho0 := abs_nonneg (xv o i)
      have hγ1' := M.γ_nonneg 1 h1u
      nlinarith [mul_nonneg hγ hT0, mul_nonneg hγ ho0, mul_nonneg hun hT0, mul_nonneg hun ho0,
        mul_nonneg (mul_nonneg hγ hun) hT0, mul_nonneg hγ1' hT0, mul_nonneg hγ1' ho0,
        mul_nonneg (mul_nonneg hγ hγ1') hT0, mul_nonneg (mul_nonneg hγ hγ1') ho0,
        mul_le_mul_of_nonneg_right hγ1 hT0, mul_le_mul_of_nonneg_right hγ1 ho0,
        mul_le_mul_of_nonneg_right hadd hT0, mul_le_mul_of_nonneg_right hadd ho0,
        mul_le_mul_of_nonneg_left hγ1 (mul_nonneg hγ hT0)]

/-! ### Lipschitz bounds of the inverse links -/

theorem sigma_hasDerivAt (t : ℝ) :
    HasDerivAt sigma (Real.exp (-t) / (1 + Real.exp (-t)) ^ 2) t := by
  have h1 : HasDerivAt (fun t => Real.exp (-t)) (Real.exp (-t) * (-1)) t :=
    (Real.hasDerivAt_exp (-t)).comp t (hasDerivAt_neg t)
  have h2 : HasDerivAt (fun t => 1 + Real.exp (-t)) (Real.exp (-t) * (-1)) t := h1.const_add 1
  have hpos : (1 + Real.exp (-t)) ≠ 0 := by have := Real.exp_pos (-t); linarith
  have h3 := HasDerivAt.inv h2 hpos
  have e : sigma = fun t => (1 + Real.exp (-t))⁻¹ := by funext t; simp [sigma, one_div]
  rw [e]
  have e2 : Real.exp (-t) / (1 + Real.exp (-t)) ^ 2 = -(Real.exp (-t) * -1) / (1 + Real.exp (-t)) ^ 2 := by
    ring
  rw [e2]
  exact h3

/-- **the logistic function is `¼`-Lipschitz** (`σ' = σ(1−σ) ≤ ¼`) -/
theorem sigma_lipschitz (a b : ℝ) : |sigma a - sigma b| ≤ 1 / 4 * |a - b| := by
  have hb : ∀ t ∈ (Set.univ : Set ℝ), ‖Real.exp (-t) / (1 + Real.exp (-t)) ^ 2‖ ≤ 1 / 4 := by
    intro t _
    have he := Real.exp_pos (-t)
    rw [Real.norm_eq_abs, abs_of_nonneg (by positivity), div_le_iff₀ (by positivity)]
    nlinarith [sq_nonneg (1 - Real.exp (-t))]
  have := Convex.norm_image_sub_le_of_norm_hasDerivWithin_le (f := sigma)
    (fun t _ => (sigma_hasDerivAt t).hasDerivWithinAt) hb convex_univ (Set.mem_univ b) (Set.mem_univ a)
  simpa [Real.norm_eq_abs] using this

/-- `|eᵃ − eᵇ| ≤ e^{max a b}·|a − b|` -/
theorem exp_lipschitz (a b : ℝ) : |Real.exp a - Real.exp b| ≤ Real.exp (max a b) * |a - b| := by
  have key : ∀ a b : ℝ, b ≤ a → |Real.exp a - Real.exp b| ≤ Real.exp a * |a - b| := by
    intro a b hab
    have h1 : Real.exp b ≤ Real.exp a := Real.exp_le_exp.mpr hab
    rw [abs_of_nonneg (by linarith), abs_of_nonneg (by linarith)]
    have h2 : Real.exp b = Real.exp a * Real.exp (b - a) := by rw [← Real.exp_add]; ring_nf
    have h3 := Real.add_one_le_exp (b - a)
    have := Real.exp_pos a
    rw [h2]
    nlinarith
  rcases le_total b a with h | h
  · rw [max_eq_left h]; exact key a b h
  · rw [max_eq_right h, abs_sub_comm (Real.exp a), abs_sub_comm a]; exact key b a h

/-! ### the three link maps of `loopBody`, entry by entry -/

section link
variable [ExpLnStd M]

/-- the canonical families: identity, logistic and log link with the matching variance function -/
def Canonical (f : Family) : Prop :=
  f = .gaussian ∨ f = .bernoulli ∨ f = .poisson ∨ f = .quasiPoisson

/-- for a canonical family `d_inv_link` and `variance` return the very same list of floating-point numbers -/
theorem dInvLink_eq_variance (f : Family) (hf : Canonical f) (eta mu : List (Fl M))
    (h : eta.length = mu.length) : dInvLink f eta mu = variance f mu := by
  rcases hf with rfl | rfl | rfl | rfl <;> simp [dInvLink, variance, h]

theorem mOneMinusM_map (m : List (Fl M)) : mOneMinusM m = m.map fun v => v * (1 - v) := by
  unfold mOneMinusM
  rw [C04.vbinGo_eq, C04.sv_eq, List.zipWith_map_right, List.zipWith_self]

/-- the computed variance, entry by entry, for the canonical families -/
noncomputable def varF (f : Family) (m : Fl M) : Fl M :=
  match f with
  | .gaussian => 1
  | .bernoulli => m * (1 - m)
  | _ => m

theorem variance_map (f : Family) (hf : Canonical f) (mu : List (Fl M)) :
    variance f mu = mu.map (varF f) := by
  rcases hf with rfl | rfl | rfl | rfl
  · show List.replicate mu.length (1 : Fl M) = mu.map (fun _ => (1 : Fl M))
    exact List.ext_getElem (by simp) (fun i h1 h2 => by simp)
  · show mOneMinusM mu = mu.map (fun m => m * (1 - m))
    exact mOneMinusM_map mu
  · show mu = mu.map (fun m => m)
    simp
  · show mu = mu.map (fun m => m)
    simp

/-- the exact inverse link -/
noncomputable def muF (f : Family) (η : ℝ) : ℝ :=
  match f with
  | .gaussian => η
  | .bernoulli => sigma η
  | _ => Real.exp η

/-- the bound on `|μ̂ − μ(η)|` for the computed mean at the computed linear predictor `η̂` against the exact
mean at the exact linear predictor `η`: link error (`invLinkF_error`) plus Lipschitz propagation -/
noncomputable def muErr (M : FlModel) [ExpLnStd M] (f : Family) (ηh η : ℝ) : ℝ :=
  match f with
  | .gaussian => |ηh - η|
  | .bernoulli => (M.γ 2 + γf M 1 + M.γ 2 * γf M 1) * sigma ηh + 1 / 4 * |ηh - η|
  | _ => uF M * Real.exp ηh + Real.exp (max ηh η) * |ηh - η|

theorem muHat_error (f : Family) (ηh : Fl M) (η : ℝ) (h2 : ((2 : Nat) : ℝ) * M.u < 1)
    (hf1 : ((1 : Nat) : ℝ) * uF M < 1) :
    |(Rounding7.invLinkF f ηh).val - muF f η| ≤ muErr M f ηh.val η := by
  have h := Rounding7.invLinkF_error f ηh h2 hf1
  cases f
  · simp only [muF, muErr]; rw [h]
  · simp only [muF, muErr]
    have := sigma_lipschitz ηh.val η
    have e : (Rounding7.invLinkF Family.bernoulli ηh).val - sigma η =
        ((Rounding7.invLinkF Family.bernoulli ηh).val - sigma ηh.val) + (sigma ηh.val - sigma η) := by ring
    rw [e]
    exact le_trans (abs_add_le _ _) (add_le_add h this)
  all_goals
    simp only [muF, muErr]
    have := exp_lipschitz ηh.val η
    rw [show (Rounding7.invLinkF _ ηh).val - Real.exp η =
        ((Rounding7.invLinkF _ ηh).val - Real.exp ηh.val) + (Real.exp ηh.val - Real.exp η) by ring]
    exact le_trans (abs_add_le _ _) (add_le_add h this)

/-- the computed variance of a canonical family does not vanish: automatic for the identity and the log link
(`exp > 0`), a hypothesis (`μ̂(1 ⊖ μ̂) ≠ 0`, no saturation) for the logistic link -/
theorem varF_ne_zero (f : Family) (hf : f = .gaussian ∨ f = .poisson ∨ f = .quasiPoisson) (ηh : Fl M) :
    (varF f (Rounding7.invLinkF f ηh)).val ≠ 0 := by
  rcases hf with rfl | rfl | rfl
  · simp [varF]
  · exact (expR_pos_stdmodel _).ne'
  · exact (expR_pos_stdmodel _).ne'

end link

/-! ### the solver of the scoring step, with its own (`sqrt`-based) scalar instance pinned down

`loopBody` is parametric in the solver; the statements of `Props/Rounding8.lean` live in a context where two
`Transc (Fl M)` instances exist (the `sqrt`-based one of the linear-algebra models and the `exp`-based one of the
link functions), so the solver and the pivot hypothesis are fixed here, where only the former is in scope. -/

section solver
open Cv.LA Cv.LA.Lu Cv.FactorRounding Cv.RoundingLU Cv.Rounding6 Cv.Rounding7
variable [FlSqrt M]

/-- `Cv.solve` at `Fl M` with the `sqrt`-based scalar instance of `Lemmas/FactorRounding.lean` -/
noncomputable def solveSqrt : List (Fl M) → List (Fl M) → Option (List (Fl M)) := solve

/-- on the LU route of the Newton solve no pivot vanishes -/
def LuPivotsOk (x y w coef mu dmu var : List (Fl M)) (alpha : Fl M) (p : Nat) : Prop :=
  ∀ g H, computeDbeta x y mu dmu var w = some g → computeDdbeta x dmu var w = some H →
    route (penalised alpha p coef g H).2 = some none →
    ∀ f piv, lu (penalised alpha p coef g H).2 = some (f, piv) → ∀ k, k < p → ev p f k k ≠ 0

/-- `Rounding7.scoring_fixed_point`, restated for `solveSqrt` / `LuPivotsOk` (and without the route weight) -/
theorem scoring_fixed_point' (x y w coef mu dmu var : List (Fl M)) (alpha : Fl M) (n p : Nat)
    (hn : 0 < n) (hp : 2 ≤ p) (hx : x.length = n * p) (hy : y.length = n) (hmu : mu.length = n)
    (hdm : dmu.length = n) (hv : var.length = n) (hw : w.length = n) (hcl : coef.length = p)
    (s : List (Fl M))
    (h : scoringStep solveSqrt x y w alpha p coef mu dmu var = some (s, coef))
    (hu1 : ((3 * p + 1 : Nat) : ℝ) * M.u < 1) (hu2 : ((n + 2 : Nat) : ℝ) * M.u < 1)
    (hd : LuPivotsOk x y w coef mu dmu var alpha p) :
    ∃ (ww r g H : List (Fl M)) (W E : Nat → Nat → ℝ) (e : Nat → ℝ),
      workingResiduals y mu dmu var w = some r ∧
      (∀ a b, a < p → b < p → |E a b| ≤
        M.γ (n + 2) * ∑ i ∈ range n, |ev p x i a| * (|ev p x i b| * |vv ww i|)
          + (if a = b then M.u * (|ev p H a a| + alphaEff alpha) else 0)
          + M.γ (3 * p + 1) * W a b) ∧
      (∀ a, a < p → |e a| ≤
        M.γ (n + 1) * ∑ i ∈ range n, |ev p x i a| * |vv r i|
          + (if a = 0 then 0 else M.γ 2 * (|vv g a| + alphaEff alpha * |vv coef a|))) ∧
      ∀ a, a < p →
        |-(∑ i ∈ range n, ev p x i a * vv r i) + (if a = 0 then 0 else alphaEff alpha * vv coef a)| ≤
          M.γ 1 * ∑ b ∈ range p, (|∑ i ∈ range n, ev p x i a * (ev p x i b * vv ww i)
              + (if a = b then alphaEff alpha else 0)| + |E a b|) * |vv coef b|
            + |e a| := by
  obtain ⟨ww, r, g, H, W, E, e, _, h2, _, _, _, hE, he, _, hscore⟩ :=
    scoring_fixed_point x y w coef mu dmu var alpha n p hn hp hx hy hmu hdm hv hw hcl s h hu1 hu2 hd
  exact ⟨ww, r, g, H, W, E, e, h2, hE, he, hscore⟩

end solver

/-! ### C10: a full run of the model's LM loop on a model linear in the parameters -/

namespace LMrun
open Cv.Opt Cv.C10 Cv.C10D Cv.Rounding7.LM Finset

section
variable [Inhabited ℝ] [BEq ℝ] [LawfulBEq ℝ] [Transc ℝ] [FMax ℝ]
variable {σ : Type}

/-- the gain ratio of `lmBody` -/
noncomputable def rhoOf (s : LMSt σ ℝ) (δ res' : List ℝ) : ℝ :=
  (dot8 s.res s.res - dot8 res' res') / (half * predOf s.mu δ s.jtr)

/-- **all outcomes of one pass of `lmBody`, with the data of each branch** -/
theorem lmBody_cases' (E : LMEval σ ℝ) (h : LMHP ℝ) (s s' : LMSt σ ℝ) (hb : lmBody E h s = some s') :
    ∃ δ, luSolveVec (damp (E.vals s.tp).length s.mu s.jtj) s.jtr = some δ ∧
      ((norm2 δ ≤ h.eps2 * (norm2 (E.vals s.tp) + h.eps2) ∧ s' = { s with stop := true }) ∨
       (¬ norm2 δ ≤ h.eps2 * (norm2 (E.vals s.tp) + h.eps2) ∧
        ∃ tp' res', E.try_ s.tp δ = some (tp', res') ∧
        ((¬ 0 < rhoOf s δ res' ∧
            s' = { s with tp := E.fresh s.tp, mu := s.mu * s.nu, nu := s.nu * ((2 : Nat) : ℝ) }) ∨
         (0 < rhoOf s δ res' ∧ ∃ jac jtj jtr, E.jac tp' = some jac ∧ jtjOf E.n jac = some jtj ∧
            jtrOf E.n jac res' = some jtr ∧
            ((infNormRow jtr ≤ h.eps1 ∧ s' = ⟨tp', res', jtj, jtr, s.mu, s.nu, true⟩) ∨
             (¬ infNormRow jtr ≤ h.eps1 ∧
              s' = ⟨E.fresh tp', res', jtj, jtr,
                FMax.fmax (1 / ((3 : Nat) : ℝ)) (1 - powi (((2 : Nat) : ℝ) * rhoOf s δ res' - 1) 3),
                ((2 : Nat) : ℝ), false⟩)))))) := by
  unfold lmBody at hb
  simp only at hb
  split at hb
  · exact absurd hb (by simp)
  next δ hsolve =>
    refine ⟨δ, hsolve, ?_⟩
    split at hb
    next hsm => exact Or.inl ⟨hsm, by simpa using hb.symm⟩
    next hsm =>
      refine Or.inr ⟨hsm, ?_⟩
      split at hb
      · exact absurd hb (by simp)
      next tp' res' htry =>
        refine ⟨tp', res', htry, ?_⟩
        split at hb
        next hrho =>
          refine Or.inr ⟨hrho, ?_⟩
          split at hb
          · exact absurd hb (by simp)
          next jac hjac =>
            split at hb
            · exact absurd hb (by simp)
            · split at hb
              next jtj jtr hjtj hjtr =>
                refine ⟨jac, jtj, jtr, hjac, hjtj, hjtr, ?_⟩
                split at hb
                next he1 =>
                  simp only [Option.some.injEq] at hb
                  exact Or.inl ⟨he1, hb.symm⟩
                next he1 =>
                  simp only [Option.some.injEq] at hb
                  exact Or.inr ⟨he1, hb.symm⟩
              · exact absurd hb (by simp)
        next hrho => exact Or.inl ⟨hrho, by simpa using hb.symm⟩

end

section linear
variable [Inhabited ℝ] [BEq ℝ] [LawfulBEq ℝ] [Transc ℝ] [FMax ℝ]
variable {σ : Type}

/-- **a model linear in the parameters**, seen through the evaluator interface of `lmG`, with the evaluator laws
RELATIVE TO AN INVARIANT `WF` of the tape state (`C10DeepEval.EvalLawsOn`; the unrestricted `EvalLaws` is not
satisfiable by the evaluator of the source, `C10Deep.tapeEval_not_evalLaws`): constant Jacobian `Jl` (`n × p`,
row-major) at parameter lists of length `p`, residuals `y − J·θ`, no vanishing column; `abs` and `max` are the
real ones.  `tapeEval_linModel` (Props) shows that `tapeEval` of an RPN program linear in the parameters is one. -/
structure LinModel (E : LMEval σ ℝ) (WF : σ → Prop) (R Jf : List ℝ → List ℝ) (Jl : List ℝ) (yv : ℕ → ℝ)
    (p : ℕ) : Prop where
  laws : EvalLawsOn E WF R Jf
  hJf : ∀ θ : List ℝ, θ.length = p → Jf θ = Jl
  hJl : Jl.length = E.n * p
  hn : 0 < E.n
  hR : ∀ θ : List ℝ, θ.length = p → (R θ).length = E.n ∧
    ∀ k, k < E.n → nth (R θ) k = yv k - ∑ j ∈ range p, nth Jl (k * p + j) * nth θ j
  hcol : ∀ i, i < p → ∃ k, k < E.n ∧ nth Jl (k * p + i) ≠ 0
  habs : ∀ x : ℝ, Transc.abs x = |x|
  hF : FMaxLaw ℝ

/-- the Jacobian as an entry function, a parameter list as a function -/
def Jm (Jl : List ℝ) (p : ℕ) : ℕ → ℕ → ℝ := fun k j => nth Jl (k * p + j)
def θv (l : List ℝ) : ℕ → ℝ := fun j => nth l j

variable {E : LMEval σ ℝ} {WF : σ → Prop} {R Jf : List ℝ → List ℝ} {Jl : List ℝ} {yv : ℕ → ℝ} {p : ℕ}

theorem A_pos (L : LinModel E WF R Jf Jl yv p) : ∀ i, i < p → 0 < A (Jm Jl p) E.n i i := by
  intro i hi
  obtain ⟨k, hk, hne⟩ := L.hcol i hi
  have h1 : Jm Jl p k i * Jm Jl p k i ≤ A (Jm Jl p) E.n i i :=
    Finset.single_le_sum (f := fun k => Jm Jl p k i * Jm Jl p k i) (fun k _ => mul_self_nonneg _)
      (Finset.mem_range.mpr hk)
  exact lt_of_lt_of_le (mul_self_pos.mpr hne) h1

theorem rss_of_list (L : LinModel E WF R Jf Jl yv p) (θ : List ℝ) (hθ : θ.length = p) :
    dot8 (R θ) (R θ) = Rounding7.LM.rss (Jm Jl p) E.n p yv (θv θ) := by
  obtain ⟨hl, he⟩ := L.hR θ hθ
  rw [dot8_sum _ _ rfl, hl]
  unfold Rounding7.LM.rss Jv
  exact Finset.sum_congr rfl fun k hk => by rw [he k (Finset.mem_range.mp hk)]; simp only [Jm, θv]; ring

theorem grad_of_list (L : LinModel E WF R Jf Jl yv p) (θ : List ℝ) (hθ : θ.length = p) (i : ℕ) :
    ∑ k ∈ range E.n, nth Jl (k * p + i) * nth (R θ) k = grad (Jm Jl p) E.n p yv (θv θ) i := by
  obtain ⟨_, he⟩ := L.hR θ hθ
  unfold grad Jv
  exact Finset.sum_congr rfl fun k hk => by rw [he k (Finset.mem_range.mp hk)]; rfl

/-- the step the solver returns in `lmBody` is the LM step of `Rounding7.LM` -/
theorem pass_step (L : LinModel E WF R Jf Jl yv p) (s : LMSt σ ℝ) (hB : Belongs E R Jf s)
    (hlen : (E.vals s.tp).length = p) (hmu : 0 < s.mu) (δ : List ℝ)
    (hsolve : luSolveVec (damp (E.vals s.tp).length s.mu s.jtj) s.jtr = some δ) :
    δ.length = p ∧ s.jtr.length = p ∧
      (∀ i, i < p → nth s.jtr i = grad (Jm Jl p) E.n p yv (θv (E.vals s.tp)) i) ∧
      IsStep (Jm Jl p) E.n p s.mu yv (θv (E.vals s.tp)) (θv δ) := by
  obtain ⟨hres, hjtj, hjtr⟩ := hB
  rw [L.hJf _ hlen] at hjtj hjtr
  rw [hlen] at hsolve
  obtain ⟨hRl, _⟩ := L.hR (E.vals s.tp) hlen
  obtain ⟨hδl, hsys⟩ := step_of_model E.n p L.hn Jl (R (E.vals s.tp)) s.jtj s.jtr δ s.mu L.habs L.hJl hRl
    hjtj hjtr hmu L.hcol hsolve
  obtain ⟨hbl, hb⟩ := jtr_entry E.n p L.hn Jl (R (E.vals s.tp)) s.jtr L.hJl hRl hjtr
  refine ⟨hδl, hbl, fun i hi => ?_, fun i hi => ?_⟩
  · rw [hb i hi, grad_of_list L _ hlen]
  · rw [← grad_of_list L _ hlen]
    exact hsys i hi

theorem pred_of_list (μ : ℝ) (δ jtr : List ℝ) (hδ : δ.length = p) (hj : jtr.length = p) :
    predOf μ δ jtr = ∑ i ∈ range p, nth δ i * (μ * nth δ i + nth jtr i) := by
  unfold predOf
  rw [dot8_sum _ _ (by simp [hδ, hj]), hδ]
  refine Finset.sum_congr rfl fun i hi => ?_
  have hi' := Finset.mem_range.mp hi
  rw [nth_zipWith _ _ _ i (by simp; omega) (by omega), nth_map _ _ i (by omega)]

/-- the squared `JᵀJ`-distance of a parameter list to `θ*` -/
noncomputable def errA (Jl : List ℝ) (n p : ℕ) (θs : ℕ → ℝ) (θ : List ℝ) : ℝ :=
  bA (Jm Jl p) n p (fun j => nth θ j - θs j) (fun j => nth θ j - θs j)

theorem bA_congr (J : ℕ → ℕ → ℝ) (n p : ℕ) (x x' : ℕ → ℝ) (h : ∀ j, j < p → x j = x' j) :
    bA J n p x x = bA J n p x' x' := by
  unfold bA
  exact Finset.sum_congr rfl fun k _ => by rw [Jv_congr x x' h k]

/-- at a least-squares solution the `JᵀJ`-distance to any other least-squares solution is zero -/
theorem errA_zero_of_LS (J : ℕ → ℕ → ℝ) (n p : ℕ) (y θ θs : ℕ → ℝ) (h1 : IsLS J n p y θ)
    (h2 : IsLS J n p y θs) : bA J n p (fun j => θ j - θs j) (fun j => θ j - θs j) = 0 := by
  rw [← sum_A]
  refine Finset.sum_eq_zero fun i hi => ?_
  have hi' := Finset.mem_range.mp hi
  have : θ = fun j => θs j + (θ j - θs j) := by funext j; ring
  have hg := grad_add (J := J) (n := n) (p := p) y θs (fun j => θ j - θs j) i
  rw [← this, h1 i hi', h2 i hi'] at hg
  have : ∑ j ∈ range p, A J n i j * (θ j - θs j) = 0 := by linarith
  rw [this, mul_zero]

end linear

section pass
variable [Inhabited ℝ] [BEq ℝ] [LawfulBEq ℝ] [Transc ℝ] [FMax ℝ]
variable {σ : Type}
variable {E : LMEval σ ℝ} {WF : σ → Prop} {R Jf : List ℝ → List ℝ} {Jl : List ℝ} {yv : ℕ → ℝ} {p : ℕ}

theorem rss_congr (J : ℕ → ℕ → ℝ) (n p : ℕ) (y x x' : ℕ → ℝ) (h : ∀ j, j < p → x j = x' j) :
    Rounding7.LM.rss J n p y x = Rounding7.LM.rss J n p y x' := by
  unfold Rounding7.LM.rss
  exact Finset.sum_congr rfl fun k _ => by rw [Jv_congr x x' h k]

theorem isLS_congr (J : ℕ → ℕ → ℝ) (n p : ℕ) (y x x' : ℕ → ℝ) (h : ∀ j, j < p → x j = x' j)
    (hx : IsLS J n p y x) : IsLS J n p y x' := by
  intro i hi
  have := hx i hi
  unfold grad at this ⊢
  rw [← this]
  exact Finset.sum_congr rfl fun k _ => by rw [Jv_congr x x' h k]

/-- the loop invariant of `lmLoop` on a linear model: well-formed tape state, the stored quantities belong to the
current parameters,
`p` parameters, positive damping parameters, and the damping is at most `Λ` unless the current parameters already
are a least-squares solution -/
def LinInv (E : LMEval σ ℝ) (WF : σ → Prop) (R Jf : List ℝ → List ℝ) (Jl : List ℝ) (yv : ℕ → ℝ) (p : ℕ)
    (Lam : ℝ) (s : LMSt σ ℝ) : Prop :=
  WF s.tp ∧ Belongs E R Jf s ∧ (E.vals s.tp).length = p ∧ 0 < s.mu ∧ 0 < s.nu ∧
    (s.mu ≤ Lam ∨ IsLS (Jm Jl p) E.n p yv (θv (E.vals s.tp)))

theorem powi_three (x : ℝ) : powi x (3 : Int) = x ^ 3 := by
  have := C14L.powi_natCast x 3 (by norm_num)
  simpa using this

/-- one pass of `lmBody` keeps "well-formed tape state" and "the stored quantities belong to the current
parameters" for every evaluator obeying the relativised laws -/
theorem wf_belongs_body (Lw : EvalLawsOn E WF R Jf) (h : LMHP ℝ) (s s' : LMSt σ ℝ) (hwf : WF s.tp)
    (hB : Belongs E R Jf s) (hb : lmBody E h s = some s') : WF s'.tp ∧ Belongs E R Jf s' := by
  rcases lmBody_cases E h s s' hb with h1 | h1 |
    ⟨δ, tp', res', jac, jtj, jtr, hsolve, htry, _, hjac, hjtj, hjtr, hres, hj1, hj2, htp⟩
  · subst h1; exact ⟨hwf, hB⟩
  · refine ⟨by rw [h1]; exact (Lw.fresh s.tp).1, ?_⟩
    rw [h1]
    unfold Belongs at hB ⊢
    simp only [(Lw.fresh s.tp).2]
    exact hB
  · obtain ⟨hwf', hv', hr⟩ := Lw.try_ s.tp δ tp' res' hwf htry
    have hj := Lw.jac tp' jac hwf' hjac
    have hv : E.vals s'.tp = E.vals tp' := by
      rcases htp with h2 | h2
      · rw [h2]
      · rw [h2, (Lw.fresh tp').2]
    refine ⟨?_, ?_⟩
    · rcases htp with h2 | h2
      · rw [h2]; exact hwf'
      · rw [h2]; exact (Lw.fresh tp').1
    · unfold Belongs
      rw [hv, hres, hj1, hj2, ← hr, ← hj]
      exact ⟨rfl, hjtj, hjtr⟩

/-- **one pass of `lmBody` on a linear model**: the invariant is kept, the `JᵀJ`-distance to any least-squares
solution does not increase, and it contracts by `q = Λκ/(1+Λκ)` unless the pass raises the stop flag -/
theorem pass_linear (L : LinModel E WF R Jf Jl yv p) (h : LMHP ℝ) (Lam κ : ℝ) (hLam : 2 ≤ Lam) (hκ : 0 ≤ κ)
    (hκD : ∀ x : ℕ → ℝ, bD (Jm Jl p) E.n p x x ≤ κ * bA (Jm Jl p) E.n p x x)
    (θs : ℕ → ℝ) (hs : IsLS (Jm Jl p) E.n p yv θs) (s s' : LMSt σ ℝ)
    (hI : LinInv E WF R Jf Jl yv p Lam s) (hb : lmBody E h s = some s') :
    LinInv E WF R Jf Jl yv p Lam s' ∧
    errA Jl E.n p θs (E.vals s'.tp) ≤ errA Jl E.n p θs (E.vals s.tp) ∧
    (s'.stop = true ∨
      errA Jl E.n p θs (E.vals s'.tp) ≤ Lam * κ / (1 + Lam * κ) * errA Jl E.n p θs (E.vals s.tp)) := by
  obtain ⟨hwf, hB, hlen, hmu, hnu, hdisj⟩ := hI
  obtain ⟨hwf', hB'⟩ := wf_belongs_body L.laws h s s' hwf hB hb
  have hq0 : 0 ≤ Lam * κ / (1 + Lam * κ) := div_nonneg (by nlinarith) (by nlinarith)
  have hq1 : Lam * κ / (1 + Lam * κ) ≤ 1 := (lm_rate_lt_one Lam κ (by linarith) hκ).le
  have herr0 : 0 ≤ errA Jl E.n p θs (E.vals s.tp) := bA_self_nonneg _
  have hApos := A_pos L
  obtain ⟨δ, hsolve, hcase⟩ := lmBody_cases' E h s s' hb
  obtain ⟨hδl, hjl, hjtr, hstep⟩ := pass_step L s hB hlen hmu δ hsolve
  rcases hcase with ⟨_, rfl⟩ | ⟨_, tp', res', htry, hcase⟩
  · -- the step is small: stop
    exact ⟨⟨hwf', hB', hlen, hmu, hnu, hdisj⟩, le_refl _, Or.inl rfl⟩
  · obtain ⟨_, hv', hres'⟩ := L.laws.try_ s.tp δ tp' res' hwf htry
    have hl' : (E.vals tp').length = p := by rw [hv']; simp [hlen, hδl]
    have hent : ∀ j, j < p → nth (E.vals tp') j = θv (E.vals s.tp) j + θv δ j := by
      intro j hj
      rw [hv', nth_zipWith _ _ _ j (by omega) (by omega)]; rfl
    rcases hcase with ⟨hrho, rfl⟩ | ⟨hrho, jac, jtj, jtr, hjac, hjtj, hjtr', hcase⟩
    · -- rejected: only possible at a least-squares solution
      have hLS : IsLS (Jm Jl p) E.n p yv (θv (E.vals s.tp)) := by
        by_contra hn
        apply hrho
        have hpos := lm_linear_rho_pos s.mu hmu hApos yv _ _ hstep hn
        have e1 : dot8 s.res s.res = Rounding7.LM.rss (Jm Jl p) E.n p yv (θv (E.vals s.tp)) := by
          rw [hB.1]; exact rss_of_list L _ hlen
        have e2 : dot8 res' res' = Rounding7.LM.rss (Jm Jl p) E.n p yv
            (fun j => θv (E.vals s.tp) j + θv δ j) := by
          rw [hres', rss_of_list L _ hl']
          exact rss_congr _ _ _ _ _ _ hent
        have e3 : predOf s.mu δ s.jtr = ∑ i ∈ range p, θv δ i *
            (s.mu * θv δ i + grad (Jm Jl p) E.n p yv (θv (E.vals s.tp)) i) := by
          rw [pred_of_list s.mu δ s.jtr hδl hjl]
          exact Finset.sum_congr rfl fun i hi => by rw [hjtr i (Finset.mem_range.mp hi)]; rfl
        have e4 : (half : ℝ) = 1 / 2 := by unfold half; norm_num
        unfold rhoOf
        rw [e1, e2, e3, e4]
        exact hpos
      have hz := errA_zero_of_LS (Jm Jl p) E.n p yv (θv (E.vals s.tp)) θs hLS hs
      refine ⟨⟨hwf', hB', by simp only [(L.laws.fresh s.tp).2]; exact hlen, mul_pos hmu hnu,
        mul_pos hnu (by norm_num), Or.inr (by simp only [(L.laws.fresh s.tp).2]; exact hLS)⟩, ?_, Or.inr ?_⟩
      · simp only [(L.laws.fresh s.tp).2]; exact le_refl _
      · simp only [(L.laws.fresh s.tp).2]
        have : errA Jl E.n p θs (E.vals s.tp) = 0 := hz
        rw [this]; simp
    · -- accepted
      have hvs : E.vals s'.tp = E.vals tp' := by
        rcases hcase with ⟨_, rfl⟩ | ⟨_, rfl⟩
        · rfl
        · exact (L.laws.fresh tp').2
      have herrs : errA Jl E.n p θs (E.vals s'.tp) =
          bA (Jm Jl p) E.n p (fun j => (θv (E.vals s.tp) j - θs j) + θv δ j)
            (fun j => (θv (E.vals s.tp) j - θs j) + θv δ j) := by
        rw [hvs]
        unfold errA
        exact bA_congr _ _ _ _ _ (fun j hj => by rw [hent j hj]; ring)
      -- the error after the step
      have hcontr : errA Jl E.n p θs (E.vals s'.tp) ≤
          Lam * κ / (1 + Lam * κ) * errA Jl E.n p θs (E.vals s.tp) := by
        rcases hdisj with hle | hLS
        · rw [herrs]
          exact lm_contraction s.mu Lam κ hmu hle hκ hκD yv _ θs _ hs hstep
        · have hδ0 := (lm_fixed_iff s.mu hmu hApos yv _ _ hstep).mpr hLS
          have hz := errA_zero_of_LS (Jm Jl p) E.n p yv (θv (E.vals s.tp)) θs hLS hs
          rw [herrs]
          have : bA (Jm Jl p) E.n p (fun j => (θv (E.vals s.tp) j - θs j) + θv δ j)
              (fun j => (θv (E.vals s.tp) j - θs j) + θv δ j) =
              bA (Jm Jl p) E.n p (fun j => θv (E.vals s.tp) j - θs j)
                (fun j => θv (E.vals s.tp) j - θs j) :=
            bA_congr _ _ _ _ _ (fun j hj => by rw [hδ0 j hj]; ring)
          rw [this, hz]
          have : errA Jl E.n p θs (E.vals s.tp) = 0 := hz
          rw [this]; simp
      have hle1 : errA Jl E.n p θs (E.vals s'.tp) ≤ errA Jl E.n p θs (E.vals s.tp) :=
        le_trans hcontr (by nlinarith)
      refine ⟨⟨hwf', hB', by rw [hvs]; exact hl', ?_, ?_, ?_⟩, hle1, Or.inr hcontr⟩
      · rcases hcase with ⟨_, rfl⟩ | ⟨_, rfl⟩
        · exact hmu
        · show 0 < FMax.fmax _ _
          rw [L.hF]
          exact lt_of_lt_of_le (by norm_num) (le_max_left _ _)
      · rcases hcase with ⟨_, rfl⟩ | ⟨_, rfl⟩
        · exact hnu
        · show (0 : ℝ) < ((2 : Nat) : ℝ); norm_num
      · rcases hcase with ⟨_, rfl⟩ | ⟨_, rfl⟩
        · rcases hdisj with hle | hLS
          · exact Or.inl hle
          · right
            have hδ0 := (lm_fixed_iff s.mu hmu hApos yv _ _ hstep).mpr hLS
            refine isLS_congr _ _ _ _ _ _ (fun j hj => ?_) hLS
            show θv (E.vals s.tp) j = nth (E.vals tp') j
            rw [hent j hj, hδ0 j hj]; simp
        · left
          show FMax.fmax _ _ ≤ Lam
          rw [L.hF, powi_three]
          have := (lm_mu_update_lt_two (rhoOf s δ res') hrho).2
          have e : (1 / ((3 : Nat) : ℝ)) = 1 / 3 := by norm_num
          have e2 : (((2 : Nat) : ℝ)) = 2 := by norm_num
          rw [e, e2]
          linarith

end pass

end LMrun

end Cv.Rounding8
