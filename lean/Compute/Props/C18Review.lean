import Compute.Props.C18
import Compute.Model.C18Obs
import Compute.Props.SrcTieC18Mut
/-
C18 — additions after the independent review (review-d, findings B1, B2, C).

B1.  `observational_equality` / `stream_equality` are congruence facts (`f d = f tw` from `d = tw`); their content is the
record equality `newD d.kind d.params = some d` proved by induction over histories.  Here they are instantiated with the
*modelled* observations of `Model/C18Obs.lean` (`densityP`, `meanP`, `varP`, `sampleP`, `drawsP`: the same definitions the
compiled driver runs at `Float`), over any linearly ordered field carrying arbitrary interpretations of the transcendental
functions, literals, casts and `==`.  In addition, for the three kinds whose sampler reads a cached sub-sampler that a
setter must rebuild (`Beta`, `ChiSquared`) or never touches (`Gamma`), the record-reading sampler of a reachable object
is shown equal to the parameter-only sampler of `Model/Samplers.lean` — this is where `coherent_inv` is used and it is not
a congruence.

B2.  The clause "a setter to any valid value succeeds whatever the previous parameters were" is proved literally for the
eleven kinds whose parameter domains are independent (`set_total_independent`, with `FieldValid` the domain of the single
field).  For `Uniform` / `DiscreteUniform` the two bounds constrain each other; there the setter succeeds iff the new bound is
on the right side of the *other current* bound (`uniform_set_iff`, `discreteuniform_set_iff`) — `set_lower(5)` on
`Uniform(0, 1)` panics, and it has to: accepting it would create an object with `lower > upper`, which the clause "no object
ever holds an out-of-domain parameter" forbids.

C.  Direct `example`s for `set_spec`, `update_total`, `update_total_domain`, `reject_invalid`; the hypothesis of
`Cv.SrcTie.C18Mut.ChiSquared_setDof_eq` is discharged over every linearly ordered field.
-/
set_option linter.unusedSectionVars false
namespace Cv.C18
open Cv.DS

section Observations
variable {α : Type} [Field α] [LinearOrder α] [IsStrictOrderedRing α] [CastInt α]
  [BEq α] [Cv.Transc α] [Cv.OfLit α] [Cv.Log1p α] [Cv.ToU64 α] [Cv.FiniteTest α]

/-- **The modelled observations of a reachable object are those of its fresh twin** (`observational_equality` and
`stream_equality` instantiated with the observation layer the driver runs): density / mass at every probe, mean,
variance, one draw and the stream of `n` draws from every generator state, for every fuel. -/
theorem modelled_observations_eq {d : Dist α} (hr : Reachable d) (F : Cv.Dist.Fns α) :
    ∀ tw, newD d.kind d.params = some tw →
      (∀ p, densityP F d p = densityP F tw p) ∧ meanP F d = meanP F tw ∧ varP F d = varP F tw ∧
      (∀ fuel ifuel g, sampleP fuel ifuel d g = sampleP fuel ifuel tw g) ∧
      (∀ fuel ifuel g n, drawsP fuel ifuel d g n = drawsP fuel ifuel tw g n) := by
  intro tw htw
  have h : ∀ {β : Type} (f : Dist α → β), f d = f tw := fun f => (observational_equality hr).2 f tw htw
  exact ⟨fun p => h (fun x => densityP F x p), h (meanP F), h (varP F),
    fun fuel ifuel g => h (fun x => sampleP fuel ifuel x g),
    fun fuel ifuel g n => h (fun x => drawsP fuel ifuel x g n)⟩

/-- `Beta::sample` reads `alpha_gen` / `beta_gen`; on a reachable object these are `Gamma(alpha, 1)`, `Gamma(beta, 1)`, so the
draw is the one of the parameter-only sampler `Cv.Beta.sample` (uses `coherent_inv`; F32-style staleness would break it). -/
theorem sampleP_beta_param {d : Beta α} (hr : Reachable (.beta d)) (fuel ifuel : Nat) (g : Cv.Rng) :
    sampleP fuel ifuel (.beta d) g = Cv.Beta.sample fuel d.alpha d.beta g := by
  have hc := coherent_inv hr
  simp only [Coherent] at hc
  simp only [sampleP, Cv.Beta.sample, hc.1, hc.2, gammaOf]
  rfl

/-- `ChiSquared::sample` reads `sampler`; on a reachable object it is `Gamma(dof / 2, 1 / 2)` for the *current* `dof`
(F32 was exactly the failure of this). -/
theorem sampleP_chisquared_param {d : ChiSquared α} (hr : Reachable (.chisquared d)) (fuel ifuel : Nat) (g : Cv.Rng) :
    sampleP fuel ifuel (.chisquared d) g = Cv.ChiSquared.sample fuel d.dof g := by
  have hc := coherent_inv hr
  simp only [Coherent] at hc
  simp only [sampleP, Cv.ChiSquared.sample, hc, chiSampler, gammaOf, Cv.halfC]

end Observations

section Setters
variable {α : Type} [Field α] [LinearOrder α] [IsStrictOrderedRing α] [CastInt α]

/-- The domain of a single field, for the kinds whose fields are validated independently of each other. -/
def FieldValid : Kind → Nat → Arg α → Prop
  | .bernoulli, 0, .real p => 0 ≤ p ∧ p ≤ 1
  | .beta, _, .real x => 0 < x
  | .binomial, 0, .int _ => True
  | .binomial, 1, .real p => 0 ≤ p ∧ p ≤ 1
  | .chisquared, 0, .int n => 0 < n
  | .exponential, 0, .real x => 0 < x
  | .gamma, _, .real x => 0 < x
  | .gumbel, 0, .real _ => True
  | .gumbel, 1, .real x => 0 < x
  | .normal, 0, .real _ => True
  | .normal, 1, .real x => 0 ≤ x
  | .pareto, _, .real x => 0 < x
  | .poisson, 0, .real x => 0 < x
  | .t, 0, .real x => 0 < x
  | _, _, _ => False

/-- For the eleven kinds with independent fields, and a valid object, the would-be parameter list is in the domain iff
the new value is in the domain of its own field. -/
theorem inDomain_set_iff_fieldValid (d : Dist α) (hv : Valid d) (i : Nat) (a : Arg α)
    (hk : d.kind ≠ .uniform ∧ d.kind ≠ .discreteuniform) (ht : SetTyped d.kind i a) :
    InDomain d.kind (d.params.set i a) ↔ FieldValid d.kind i a := by
  cases d <;> rename_i d <;> cases d <;> rcases i with _ | _ | i <;> cases a <;>
    simp [SetTyped, Dist.kind] at ht hk <;>
    simp_all [Valid, InDomain, Dist.kind, Dist.params, List.set, FieldValid]

/-- **The literal clause for the eleven kinds with independent parameter domains**: from every reachable object a
setter to a value that is valid for its field succeeds, whatever the previous parameters were, and yields the fresh
object with that parameter replaced; a value outside the field's domain panics and leaves the object untouched. -/
theorem set_total_independent {d : Dist α} (hr : Reachable d) (i : Nat) (a : Arg α)
    (hk : d.kind ≠ .uniform ∧ d.kind ≠ .discreteuniform) (ht : SetTyped d.kind i a) :
    (FieldValid d.kind i a →
        ∃ d', newD d.kind (d.params.set i a) = some d' ∧ step d (.set i a) = (d', false)) ∧
    (¬ FieldValid d.kind i a → step d (.set i a) = (d, true)) := by
  have hs := set_spec d (reachable_inv hr) i a ht
  have hiff := inDomain_set_iff_fieldValid d (valid_inv hr) i a hk ht
  exact ⟨fun h => hs.1 (hiff.mpr h), fun h => hs.2 (fun h' => h (hiff.mp h'))⟩

/-- **`Uniform` setters are jointly constrained**: `set_lower(x)` succeeds iff `x ≤ upper`, `set_upper(x)` iff `lower ≤ x`
(the current other bound), and otherwise panics leaving the object untouched. -/
theorem uniform_set_iff (d : Uniform α) (x : α) :
    (step (.uniform d) (.set 0 (.real x)) = if x ≤ d.upper then (.uniform ⟨x, d.upper⟩, false) else (.uniform d, true)) ∧
    (step (.uniform d) (.set 1 (.real x)) = if d.lower ≤ x then (.uniform ⟨d.lower, x⟩, false) else (.uniform d, true)) := by
  constructor
  · simp only [step, setD, lift, Uniform.setLower_eq]; split_ifs <;> rfl
  · simp only [step, setD, lift, Uniform.setUpper_eq]; split_ifs <;> rfl

theorem discreteuniform_set_iff (d : DiscreteUniform) (x : Int) :
    (step (α := α) (.discreteuniform d) (.set 0 (.int x)) =
        if x ≤ d.upper then (.discreteuniform ⟨x, d.upper⟩, false) else (.discreteuniform d, true)) ∧
    (step (α := α) (.discreteuniform d) (.set 1 (.int x)) =
        if d.lower ≤ x then (.discreteuniform ⟨d.lower, x⟩, false) else (.discreteuniform d, true)) := by
  constructor
  · simp only [step, setD, lift, DiscreteUniform.setLower_eq]; split_ifs <;> rfl
  · simp only [step, setD, lift, DiscreteUniform.setUpper_eq]; split_ifs <;> rfl

/-- The sampler constructor inside `ChiSquared::set_dof` never panics for a positive `dof` over an ordered field: the
hypothesis of `Cv.SrcTie.C18Mut.ChiSquared_setDof_eq` holds. -/
theorem chiSquared_mkSampler_ne_none (x : Nat) (hx : 0 < x) : ChiSquared.mkSampler (α := α) x ≠ none := by
  rw [ChiSquared.mkSampler_eq x hx]; exact Option.some_ne_none _

/-- `ChiSquared::set_dof` regenerated from the Rust text equals the record model, unconditionally over an ordered field. -/
theorem chiSquared_setDof_srctie [BEq α] [Cv.Transc α] [Inhabited α] (d : ChiSquared α) (x : Nat) :
    Cv.Src.C18Mut.ChiSquared_setDof d x = ChiSquared.setDof d x :=
  Cv.SrcTie.C18Mut.ChiSquared_setDof_eq d x (chiSquared_mkSampler_ne_none x)

end Setters

/-! ## Direct instantiations over `ℚ` (all hypotheses discharged on concrete objects) -/
section Examples

local instance : CastInt ℚ := ⟨fun x => x.floor.toNat, fun x => x.floor⟩

theorem reach_uniform01 : Reachable (.uniform (⟨0, 1⟩ : Uniform ℚ)) :=
  ⟨.uniform, [.real 0, .real 1], .uniform ⟨0, 1⟩, [], by simp [newD, Uniform.new_eq], rfl⟩

theorem reach_gamma21 : Reachable (.gamma (gammaOf (2 : ℚ) 1)) :=
  ⟨.gamma, [.real 2, .real 1], .gamma (gammaOf 2 1), [], by simp [newD, Gamma.new_eq], rfl⟩

/-- `reject_invalid` (setter part): `set_lower(5)` on `Uniform(0, 1)` panics and leaves the object untouched — the literal
clause fails for the jointly constrained bounds. -/
example : step (.uniform (⟨0, 1⟩ : Uniform ℚ)) (.set 0 (.real 5)) = (.uniform ⟨0, 1⟩, true) :=
  (reject_invalid reach_uniform01).2.1 0 (.real 5) (by simp [SetTyped, Dist.kind])
    (by simp [InDomain, Dist.kind, Dist.params])

/-- `set_spec`, accepting branch: `set_upper(7)` on `Uniform(0, 1)`. -/
example : ∃ d', newD .uniform [.real (0 : ℚ), .real 7] = some d' ∧
    step (.uniform (⟨0, 1⟩ : Uniform ℚ)) (.set 1 (.real 7)) = (d', false) :=
  (set_spec _ (reachable_inv reach_uniform01) 1 (.real 7) (by simp [SetTyped, Dist.kind])).1
    (by simp [InDomain, Dist.kind, Dist.params])

/-- `update_total_domain`: bounds entirely above the old interval. -/
example : ∃ d', step (.uniform (⟨0, 1⟩ : Uniform ℚ)) (.update [5, 6]) = (d', false) ∧
    newD .uniform [.real (5 : ℚ), .real 6] = some d' :=
  update_total_domain reach_uniform01 [5, 6] [.real 5, .real 6] (by simp [castArgs, Dist.kind])
    (by simp [InDomain, Dist.kind]; norm_num)

/-- `update_total` with the fresh object named. -/
example : step (.uniform (⟨0, 1⟩ : Uniform ℚ)) (.update [-6, -5]) = (.uniform ⟨-6, -5⟩, false) :=
  update_total reach_uniform01 [-6, -5] (.uniform ⟨-6, -5⟩)
    (by norm_num [newOfSlice, castArgs, Dist.kind, newD, Uniform.new_eq])

/-- `reject_invalid` (update part) with a half-applied update: `Gamma(2, 1).update(&[3, -1])`. -/
example : (step (.gamma (gammaOf (2 : ℚ) 1)) (.update [3, -1])).2 = true ∧
    Inv (step (.gamma (gammaOf (2 : ℚ) 1)) (.update [3, -1])).1 :=
  (reject_invalid reach_gamma21).2.2.1 [3, -1] [.real 3, .real (-1)] (by simp [castArgs, Dist.kind])
    (by simp [InDomain, Dist.kind])

/-- `set_total_independent`: `set_alpha(1/1000)` on `Gamma(2, 1)` succeeds (valid for its field, far from the old value). -/
example : ∃ d', newD .gamma [.real (1 / 1000 : ℚ), .real 1] = some d' ∧
    step (.gamma (gammaOf (2 : ℚ) 1)) (.set 0 (.real (1 / 1000))) = (d', false) :=
  (set_total_independent reach_gamma21 0 (.real (1 / 1000)) (by simp [Dist.kind]) (by simp [SetTyped, Dist.kind])).1
    (by simp [FieldValid, Dist.kind])

end Examples

end Cv.C18
