import Mathlib.Analysis.SpecialFunctions.Exponential
import Mathlib.Analysis.SpecialFunctions.Pow.Real
import Mathlib.Analysis.SpecialFunctions.Gamma.Basic
import Mathlib.Tactic.Ring
import Mathlib.Tactic.Linarith
import Mathlib.Tactic.FieldSimp
/-
C20 (T-B) — pure analysis behind the positive semi-definiteness of the Gram matrices, independent of the model.

* `exp_kernel_psd`: `Σᵢ Σⱼ dᵢ dⱼ exp(bᵢ bⱼ) ≥ 0` — the power series `exp(bᵢ bⱼ) = Σₙ (bᵢ bⱼ)ⁿ / n!` turns the
  quadratic form into `Σₙ (Σᵢ dᵢ bᵢⁿ)² / n!`, a convergent series of squares (the feature-map argument).
* `gauss_kernel_psd`: `Σᵢ Σⱼ cᵢ cⱼ exp(-(aᵢ - aⱼ)² / (2 l²)) ≥ 0`, by
  `exp(-(a-b)²/2l²) = e^{-a²/2l²} e^{-b²/2l²} e^{ab/l²}`.
* `rq_kernel_psd`: `Σᵢ Σⱼ cᵢ cⱼ (1 + (aᵢ - aⱼ)² / (2 α l²))^(-α) ≥ 0` for `α, l > 0`: the Gamma integral
  `∫₀^∞ t^(α-1) e^{-(1+q) t} dt = (1+q)^(-α) Γ(α)` writes the RQ kernel as a scale mixture of Gaussian kernels.
-/
namespace Cv.C20
open Finset

variable {ι : Type}

/-- The exponential of a product is a positive semi-definite kernel. -/
theorem exp_kernel_psd (s : Finset ι) (d b : ι → ℝ) :
    0 ≤ ∑ i ∈ s, ∑ j ∈ s, d i * d j * Real.exp (b i * b j) := by
  have hs : HasSum (fun n : ℕ => ∑ i ∈ s, ∑ j ∈ s, d i * d j * ((b i * b j) ^ n / (n.factorial : ℝ)))
      (∑ i ∈ s, ∑ j ∈ s, d i * d j * Real.exp (b i * b j)) := by
    apply hasSum_sum
    intro i _
    apply hasSum_sum
    intro j _
    have h := (NormedSpace.expSeries_div_hasSum_exp (b i * b j)).mul_left (d i * d j)
    rwa [← Real.exp_eq_exp_ℝ] at h
  refine hs.nonneg fun n => ?_
  have : ∑ i ∈ s, ∑ j ∈ s, d i * d j * ((b i * b j) ^ n / (n.factorial : ℝ))
      = (∑ i ∈ s, d i * b i ^ n) ^ 2 / (n.factorial : ℝ) := by
    rw [sq, Finset.sum_mul_sum, Finset.sum_div]
    refine Finset.sum_congr rfl fun i _ => ?_
    rw [Finset.sum_div]
    refine Finset.sum_congr rfl fun j _ => ?_
    rw [mul_pow]; ring
  rw [this]
  positivity

/-- The Gaussian (RBF) kernel is positive semi-definite on every finite family of points. -/
theorem gauss_kernel_psd (s : Finset ι) (c a : ι → ℝ) (l : ℝ) (hl : l ≠ 0) :
    0 ≤ ∑ i ∈ s, ∑ j ∈ s, c i * c j * Real.exp (-((a i - a j) ^ 2 / (2 * l ^ 2))) := by
  have h := exp_kernel_psd s (fun i => c i * Real.exp (-(a i ^ 2 / (2 * l ^ 2)))) (fun i => a i / l)
  refine le_of_le_of_eq h (Finset.sum_congr rfl fun i _ => Finset.sum_congr rfl fun j _ => ?_)
  have e : Real.exp (-((a i - a j) ^ 2 / (2 * l ^ 2))) =
      Real.exp (-(a i ^ 2 / (2 * l ^ 2))) * Real.exp (-(a j ^ 2 / (2 * l ^ 2))) * Real.exp (a i / l * (a j / l)) := by
    rw [← Real.exp_add, ← Real.exp_add]
    congr 1
    field_simp
    ring
  rw [e]; ring

/-- Same with the scale written as a factor: `exp(-β (a-b)²)` is positive semi-definite for every `β ≥ 0`. -/
theorem gauss_kernel_psd_beta (s : Finset ι) (c a : ι → ℝ) (β : ℝ) (hβ : 0 ≤ β) :
    0 ≤ ∑ i ∈ s, ∑ j ∈ s, c i * c j * Real.exp (-(β * (a i - a j) ^ 2)) := by
  have hr : Real.sqrt (2 * β) * Real.sqrt (2 * β) = 2 * β := Real.mul_self_sqrt (by positivity)
  have h := exp_kernel_psd s (fun i => c i * Real.exp (-(β * a i ^ 2))) (fun i => Real.sqrt (2 * β) * a i)
  refine le_of_le_of_eq h (Finset.sum_congr rfl fun i _ => Finset.sum_congr rfl fun j _ => ?_)
  have e : Real.exp (-(β * (a i - a j) ^ 2)) =
      Real.exp (-(β * a i ^ 2)) * Real.exp (-(β * a j ^ 2)) *
        Real.exp (Real.sqrt (2 * β) * a i * (Real.sqrt (2 * β) * a j)) := by
    rw [← Real.exp_add, ← Real.exp_add]
    congr 1
    linear_combination (-(a i * a j)) * hr
  rw [e]; ring

open MeasureTheory in
/-- The rational-quadratic kernel is positive semi-definite on every finite family of points: it is the
Gamma(α) scale mixture `(1+q)^(-α) Γ(α) = ∫₀^∞ t^(α-1) e^{-t} e^{-q t} dt` of Gaussian kernels. -/
theorem rq_kernel_psd (s : Finset ι) (c a : ι → ℝ) (α l : ℝ) (hα : 0 < α) (hl : 0 < l) :
    0 ≤ ∑ i ∈ s, ∑ j ∈ s, c i * c j * (1 + (a i - a j) ^ 2 / (2 * α * l ^ 2)) ^ (-α) := by
  set q : ι → ι → ℝ := fun i j => (a i - a j) ^ 2 / (2 * α * l ^ 2) with hq
  have hq0 : ∀ i j, 0 ≤ q i j := fun i j => by simp only [hq]; positivity
  have hΓ : 0 < Real.Gamma α := Real.Gamma_pos_of_pos hα
  have hint : ∀ i j, (1 + q i j) ^ (-α) * Real.Gamma α =
      ∫ t in Set.Ioi (0 : ℝ), t ^ (α - 1) * Real.exp (-((1 + q i j) * t)) := by
    intro i j
    have h1 : 0 < 1 + q i j := by linarith [hq0 i j]
    rw [Real.integral_rpow_mul_exp_neg_mul_Ioi hα h1]
    congr 1
    rw [one_div, Real.inv_rpow h1.le, Real.rpow_neg h1.le]
  have hI : ∀ i j, IntegrableOn (fun t => t ^ (α - 1) * Real.exp (-((1 + q i j) * t))) (Set.Ioi 0) := by
    intro i j
    apply Integrable.of_integral_ne_zero
    rw [← hint i j]
    have h1 : 0 < 1 + q i j := by linarith [hq0 i j]
    positivity
  have key : (∑ i ∈ s, ∑ j ∈ s, c i * c j * (1 + q i j) ^ (-α)) * Real.Gamma α
      = ∫ t in Set.Ioi (0 : ℝ), ∑ i ∈ s, ∑ j ∈ s, c i * c j * (t ^ (α - 1) * Real.exp (-((1 + q i j) * t))) := by
    rw [integral_finsetSum _ (fun i _ => integrable_finsetSum _ (fun j _ => (hI i j).const_mul _))]
    rw [Finset.sum_mul]
    refine Finset.sum_congr rfl fun i _ => ?_
    rw [integral_finsetSum _ (fun j _ => (hI i j).const_mul _), Finset.sum_mul]
    refine Finset.sum_congr rfl fun j _ => ?_
    rw [integral_const_mul, ← hint i j]; ring
  have hnn : 0 ≤ ∫ t in Set.Ioi (0 : ℝ),
      ∑ i ∈ s, ∑ j ∈ s, c i * c j * (t ^ (α - 1) * Real.exp (-((1 + q i j) * t))) := by
    apply setIntegral_nonneg measurableSet_Ioi
    intro t ht
    have ht0 : 0 < t := ht
    have e : ∑ i ∈ s, ∑ j ∈ s, c i * c j * (t ^ (α - 1) * Real.exp (-((1 + q i j) * t)))
        = t ^ (α - 1) * Real.exp (-t) *
          ∑ i ∈ s, ∑ j ∈ s, c i * c j * Real.exp (-(t / (2 * α * l ^ 2) * (a i - a j) ^ 2)) := by
      rw [Finset.mul_sum]; refine Finset.sum_congr rfl fun i _ => ?_
      rw [Finset.mul_sum]; refine Finset.sum_congr rfl fun j _ => ?_
      have e2 : Real.exp (-((1 + q i j) * t)) =
          Real.exp (-t) * Real.exp (-(t / (2 * α * l ^ 2) * (a i - a j) ^ 2)) := by
        rw [← Real.exp_add]; congr 1; simp only [hq]; ring
      rw [e2]; ring
    rw [e]
    apply mul_nonneg (mul_nonneg (Real.rpow_nonneg ht0.le _) (Real.exp_pos _).le)
    exact gauss_kernel_psd_beta s c a _ (by positivity)
  rw [← key] at hnn
  exact (mul_nonneg_iff_of_pos_right hΓ).mp hnn

end Cv.C20
