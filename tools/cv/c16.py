"""C16 — linear interpolation reproduces knots and honours the out-of-range mode.

Request: `interp <chk|unc> <panic|fill l r|extrap> <xvec> <yvec> <tvec>`  ->  `= <vec>` | `! panic`
(chk = interp1d_linear, unc = interp1d_linear_unchecked).
"""
import math
from fractions import Fraction

from .common import Failure, f2h, h2f, parse_reply, vec

ID = "C16"
BIN = "c16"
PROOF_MODULES = ["Compute.Lemmas.C16", "Compute.Props.C16"]
REQUIRED_THEOREMS = [
    "Cv.C16.scan_brackets", "Cv.C16.bracket_unique", "Cv.C16.interp_knot", "Cv.C16.interp_inside", "Cv.C16.lineAt_between",
    "Cv.C16.interp_left_panic", "Cv.C16.interp_left_fill", "Cv.C16.interp_left_extrapolate",
    "Cv.C16.interp_right_panic", "Cv.C16.interp_right_fill", "Cv.C16.interp_right_extrapolate",
    "Cv.C16.checked_rejects_length", "Cv.C16.checked_rejects_unsorted", "Cv.C16.checked_eq_unchecked",
    "Cv.C16.panic_mode_rejects", "Cv.C16.checked_total", "Cv.C16.sortedOk_of_nondecreasing", "Cv.C16.interpAll_eq_some_iff", "Cv.C16.interpAll_eq_none_iff",
]
RULE = ("x and tgt as aliasing windows of one buffer (prefix, same slice, overlapping; op interp_alias); calls with 4095..10001 (thorough: ..20000) unsorted targets incl. knots, +-1 ulp and out-of-range targets at indices >= 4096; knot counts 2..200, strictly increasing abscissae with neighbouring spacing ratios up to 1e6, finite ordinates of "
        "mixed magnitude; targets at every kind of position (knots, midpoints, +-1 ulp around knots, random interior, just "
        "beyond and far beyond both ends); three modes x checked/unchecked; rejected inputs (unsorted, mismatched lengths); "
        "degenerate inputs (n = 0, 1, ties, NaN) compared with the model only; non-trivial = distinct request")
EXHAUSTIVE = {"quick": False, "thorough": False}
NOT_PROVED = [
    "floating-point rounding of the interior and extrapolation formulas (oracle: exact rational line value within a forward-error bound)",
    "exactness at knots in IEEE arithmetic (ratio is exactly 0 or 1; checked exactly by the oracle on every knot target)",
]
TRUSTED = ["IEEE f64 + - * / shared by both executors",
           "source tie (Props/SrcTieC16) regenerates only the six per-target arithmetic formulas (slopeLeft, extrapLeft, slopeRight, extrapRight, "
           "ratio, lerp); the scan, the out-of-range test idx = 0 or t > x[n-1], the mode dispatch AND the index wiring of those formulas (which "
           "knots and ordinates are passed to them) are hand-written in the model and in the tie theorem, and are covered by the bit-for-bit tie only"]
ASSUMPTIONS = ["duplicate (equal neighbouring) abscissae are NOT rejected by the checked variant (its test is x[i+1] - x[i] < 0) and lie outside "
               "every theorem (Knots is strict); the code divides by a zero width there; compared with the model only (stratum ties(model-only), "
               "witness in Props/C16.lean: [0,1,1,2] at target 1 gives the ordinate of the later knot)",
               "abscissae strictly increasing and finite, ordinates finite, |values| far from overflow (the property's domain); "
               "other inputs are compared with the model only"]

U = 2.0 ** -53
TINY = 2.0 ** -1074


def corpus_many():
    """Round-10 seed C16w (bracket search running ahead over blocks of 4096 targets): 7 knots, 4097 / 8193 targets in a fixed
    pseudo-random order; target #4096 is a knot, late targets lie outside the range on both sides."""
    xs = [0.0, 1.0, 2.5, 3.0, 7.0, 8.0, 10.0]
    ys = [1.0, -2.0, 4.0, 0.5, 9.0, -3.0, 6.0]
    ts = [((i * 7919) % 10007) / 1000.7 for i in range(4096)]          # all inside [0, 10], unsorted
    late = [7.0, 12.0, 2.5, -1.0, 9.5, 10.0, 0.0, 0.25]
    out = ["interp chk extrap %s %s %s" % (vec(xs), vec(ys), vec(ts + [7.0])),
           "interp unc fill %s %s %s %s %s" % (f2h(-5.0), f2h(5.0), vec(xs), vec(ys), vec(ts + late)),
           "interp chk panic %s %s %s" % (vec(xs), vec(ys), vec(ts + [3.0, 12.0])),
           "interp unc panic %s %s %s" % (vec(xs), vec(ys), vec(ts + ts + [10.0]))]
    return out


def corpus_alias():
    grid = [0.0, 1.0, 2.0, 3.0, 4.0, 5.0]
    ys = [0.0, 10.0, 5.0, 20.0]
    return [alias_line("chk", "extrap", 0, 4, 0, 6, grid, ys), alias_line("chk", "panic", 0, 4, 0, 6, grid, ys),
            alias_line("chk", "fill %s %s" % (f2h(-1.0), f2h(-2.0)), 0, 4, 0, 6, grid, ys), alias_line("chk", "panic", 0, 4, 0, 4, grid, ys)]


def corpus():
    x = vec([0.0, 1.0, 2.0])
    y = vec([0.0, 10.0, 20.0])
    return corpus_alias() + corpus_many() + [
        # F28: right of the last abscissa the panic mode returned a value and the fill mode extrapolated
        "interp chk fill %s %s %s %s %s" % (f2h(-1.0), f2h(-2.0), x, y, vec([3.0])),
        "interp chk panic %s %s %s" % (x, y, vec([3.0])),
        "interp unc panic %s %s %s" % (x, y, vec([2.0000000000000004])),
        "interp chk extrap %s %s %s" % (x, y, vec([3.0, -1.0, 2.0, 0.0, 1.0, 0.5])),
        "interp unc fill %s %s %s %s %s" % (f2h(-1.0), f2h(-2.0), x, y, vec([-0.5, 2.5, 2.0, 0.0])),
        # degenerate shapes
        "interp chk extrap 0 0 0", "interp unc extrap 0 0 0", "interp unc extrap 0 0 %s" % vec([1.0]),
        "interp unc fill %s %s %s %s %s" % (f2h(7.0), f2h(8.0), vec([1.0]), vec([5.0]), vec([0.0, 1.0, 2.0])),
        "interp unc extrap %s %s %s" % (vec([1.0]), vec([5.0]), vec([0.0])),
        "interp chk panic %s %s %s" % (vec([1.0]), vec([5.0]), vec([1.0])),
        "interp chk extrap %s %s %s" % (vec([0.0, 2.0, 1.0]), y, vec([0.5])),
        "interp chk extrap %s %s %s" % (x, vec([0.0, 10.0]), vec([0.5])),
        "interp unc extrap %s %s %s" % (x, vec([0.0, 10.0]), vec([0.5])),
        "interp chk extrap %s %s %s" % (vec([0.0, 1.0, 1.0, 2.0]), vec([0.0, 1.0, 2.0, 3.0]), vec([1.0, 0.5, 1.5])),
    ]


def knots(rng, n):
    base = rng.loguniform(1e-3, 1e3)
    style = rng.randint(0, 3)
    gaps = []
    g = base
    for _ in range(n - 1):
        if style == 0:
            g = base                                   # regular grid
        elif style == 1:
            g = base * rng.loguniform(1.0, 1e6)        # independent gaps, ratios up to 1e6
        elif style == 2:
            g = min(max(g * rng.loguniform(1e-6, 1e6), base * 1e-3), base * 1e6)   # neighbouring ratio up to 1e6
        else:
            g = base * rng.choice([1.0, 1e-6, 1e6, 3.0, 0.5])
        gaps.append(g)
    total = sum(gaps)
    r = rng.random()
    x0 = -total * rng.random() if r < 0.5 else (rng.loguniform(1e-3, 1e6) if r < 0.75 else -rng.loguniform(1e-3, 1e6) - total)
    if rng.chance(0.1):
        x0 = 0.0
    xs = [x0]
    for g in gaps:
        nx = xs[-1] + g
        if not nx > xs[-1]:
            nx = math.nextafter(xs[-1], math.inf)
        xs.append(nx)
    return xs


def ordinates(rng, n):
    style = rng.randint(0, 4)
    if style == 0:
        return [rng.normal() for _ in range(n)]
    if style == 1:
        return [rng.normal() * 10.0 ** rng.randint(-3, 6) for _ in range(n)]
    if style == 2:
        return [float(rng.randint(-5, 5)) for _ in range(n)]
    if style == 3:
        return [rng.choice([-1, 1]) * rng.loguniform(1e-100, 1e100) for _ in range(n)]
    ys = [rng.normal() * 100 for _ in range(n)]
    for _ in range(max(1, n // 5)):
        ys[rng.randint(0, n - 1)] = rng.choice([0.0, -0.0, 1e-310, 1e50, -1e50, 1.0])
    return ys


def inside_targets(rng, xs, m):
    n = len(xs)
    out = []
    for _ in range(m):
        k = rng.randint(0, n - 1)
        r = rng.randint(0, 5)
        if r == 0:
            out.append(xs[k])
        elif r == 1 and k + 1 < n:
            out.append(xs[k] + (xs[k + 1] - xs[k]) / 2)
        elif r == 2 and k + 1 < n:
            out.append(math.nextafter(xs[k], math.inf))
        elif r == 3 and k > 0:
            out.append(math.nextafter(xs[k], -math.inf))
        elif r == 4 and k + 1 < n:
            out.append(xs[k] + (xs[k + 1] - xs[k]) * rng.random())
        else:
            out.append(xs[k])
    return [min(max(t, xs[0]), xs[-1]) for t in out]


def outside_targets(rng, xs, m):
    span = xs[-1] - xs[0]
    out = []
    for _ in range(m):
        r = rng.randint(0, 5)
        if r == 0:
            out.append(math.nextafter(xs[0], -math.inf))
        elif r == 1:
            out.append(math.nextafter(xs[-1], math.inf))
        elif r == 2:
            out.append(xs[0] - span * rng.loguniform(1e-6, 1e3))
        elif r == 3:
            out.append(xs[-1] + span * rng.loguniform(1e-6, 1e3))
        elif r == 4:
            out.append(xs[0] - rng.loguniform(1e-9, 1e9))
        else:
            out.append(xs[-1] + rng.loguniform(1e-9, 1e9))
    return out


def gen(rng, tier):
    lines = []
    cover = {}

    def add(kind, line):
        cover[kind] = cover.get(kind, 0) + 1
        lines.append(line)

    quick = tier == "quick"
    sizes = list(range(2, 201)) if not quick else sorted(set(list(range(2, 41)) + [rng.randint(41, 200) for _ in range(60)] + [199, 200]))
    reps = 1 if quick else 6
    for n in sizes:
        for _ in range(reps):
            xs = knots(rng, n)
            ys = ordinates(rng, n)
            m_in = min(3 * n, 60) if quick else min(4 * n, 300)
            tin = inside_targets(rng, xs, m_in)
            if n <= 40 or rng.chance(0.3):
                tin += xs                                      # every knot
                tin += [a + (b - a) / 2 for a, b in zip(xs, xs[1:])]
            tout = outside_targets(rng, xs, 8)
            mixed = list(tin) + tout
            rng.shuffle(mixed)
            l, r = rng.normal() * 1e3, rng.choice([rng.normal(), 0.0, -7.5, 1e300])
            for variant in ("chk", "unc"):
                add("extrap", "interp %s extrap %s %s %s" % (variant, vec(xs), vec(ys), vec(mixed)))
                add("fill", "interp %s fill %s %s %s %s %s" % (variant, f2h(l), f2h(r), vec(xs), vec(ys), vec(mixed)))
                add("panic_inside", "interp %s panic %s %s %s" % (variant, vec(xs), vec(ys), vec(tin)))
                k = rng.randint(0, len(tin))
                add("panic_outside", "interp %s panic %s %s %s" % (variant, vec(xs), vec(ys), vec(tin[:k] + [rng.choice(tout)] + tin[k:])))
                add("panic_outside_single", "interp %s panic %s %s %s" % (variant, vec(xs), vec(ys), vec([rng.choice(tout)])))
            # rejected inputs
            mode = rng.choice(["extrap", "panic", "fill %s %s" % (f2h(l), f2h(r))])
            bad = list(xs)
            i = rng.randint(0, n - 2)
            j = rng.randint(i + 1, n - 1)
            bad[i], bad[j] = bad[j], bad[i]
            for variant in ("chk", "unc"):
                add("unsorted_" + variant, "interp %s %s %s %s %s" % (variant, mode, vec(bad), vec(ys), vec(tin[:10])))
            bad2 = list(xs)
            bad2[i + 1] = math.nextafter(bad2[i], -math.inf)   # a single descending step of one ulp
            add("unsorted_one_ulp", "interp chk %s %s %s %s" % (mode, vec(bad2), vec(ys), vec(tin[:10])))
            short = ys[:-1] if rng.chance(0.5) else ys + [1.0]
            for variant in ("chk", "unc"):
                add("length_mismatch_" + variant, "interp %s %s %s %s %s" % (variant, mode, vec(xs), vec(short), vec(tin[:10])))
            # model-only regimes: ties, NaN/inf targets
            ties = list(xs)
            ties[i + 1] = ties[i]
            add("ties(model-only)", "interp %s %s %s %s %s" % (rng.choice(["chk", "unc"]), mode, vec(ties), vec(ys), vec(tin[:10] + [ties[i]])))
            add("nonfinite_target(model-only)", "interp %s %s %s %s %s" % (rng.choice(["chk", "unc"]), mode, vec(xs), vec(ys),
                                                                     vec([rng.choice([float("nan"), float("inf"), float("-inf")])] + tin[:3])))
    for n in (0, 1):
        for mode in ("extrap", "panic", "fill %s %s" % (f2h(1.0), f2h(2.0))):
            for variant in ("chk", "unc"):
                xs = [rng.normal() for _ in range(n)]
                add("n<2(model-only)", "interp %s %s %s %s %s" % (variant, mode, vec(xs), vec(xs), vec([rng.normal() for _ in range(rng.randint(0, 3))])))
    strata(rng.fork("strata"), add, quick)
    alias_lines(rng.fork("alias"), add, 36 if quick else 720)
    r2 = rng.fork("many-targets")
    if quick:
        counts = [4097, r2.choice([8193, 10001])] + r2.shuffle([4095, 4096, 4100, 6000, 8191, 8192])[:2]
        for m in counts:
            many_lines(r2, add, [m], [r2.choice(MANY_KNOTS), r2.choice(MANY_KNOTS)], "many_targets")
    else:
        many_lines(r2, add, MANY_COUNTS_THOROUGH, MANY_KNOTS, "many_targets")
    return lines, cover


# ------------------------------------------------------------------------------------------ generic strata
SIZE_BOUNDARIES = [2, 3, 4, 5, 7, 8, 9, 15, 16, 17, 18, 31, 32, 33, 34, 35, 40, 47, 48, 49, 63, 64, 65, 66, 96, 97, 127, 128, 129, 130, 199, 200]
FILL_SPECIALS = [0.0, -0.0, 1.0, -1.0, 0.5, 1e300, -1e300, 5e-324, float("inf"), float("-inf"), float("nan"), 1.0 / 3.0]


def bad_reciprocal_widths(rng, m):
    """widths w with fl(w * fl(1/w)) != 1 (49, 3.7, 1.9, ...): a reciprocal-multiply ratio is not 1 at the right knot"""
    out = [w for w in (49.0, 3.7, 1.9, 41.0, 47.0, 55.0, 0.1 * 37, 98.0, 12.25) if w * (1.0 / w) != 1.0]
    while len(out) < m:
        w = rng.choice([float(rng.randint(3, 200)), rng.uniform(1.0, 10.0), rng.loguniform(1e-3, 1e3)])
        if w * (1.0 / w) != 1.0:
            out.append(w)
    return out


def strata(rng, add, quick):
    """Deterministic boundary strata (tools/GENERIC_STRATA.md)."""
    up = lambda v: math.nextafter(v, math.inf)
    dn = lambda v: math.nextafter(v, -math.inf)
    modes = lambda: ["extrap", "panic", "fill %s %s" % (f2h(rng.choice(FILL_SPECIALS)), f2h(rng.choice(FILL_SPECIALS)))]
    for n in SIZE_BOUNDARIES:
        for rep in range(1 if quick else 4):
            xs = knots(rng, n)
            ys = ordinates(rng, n)
            L, P, A, Bk = xs[-1], xs[-2], xs[0], xs[1]
            last = [L, P + (L - P) / 2, dn(L), up(P), P, P + (L - P) * rng.random()]
            first = [A, A + (Bk - A) / 2, up(A), dn(Bk), Bk]
            far_r, far_l = L + (L - A) * rng.loguniform(1e-3, 10), A - (L - A) * rng.loguniform(1e-3, 10)
            # an out-of-range target immediately followed by one in the last segment / at the last knot, and back
            seq = [up(L), last[1], dn(A), L, far_r, dn(L), far_l, first[1], up(L), up(P), A, far_r, last[5], L]
            l, r = rng.choice(FILL_SPECIALS), rng.choice(FILL_SPECIALS)
            fillm = "fill %s %s" % (f2h(l), f2h(r))
            for variant in ("chk", "unc"):
                add("seq_out_then_last_segment", "interp %s extrap %s %s %s" % (variant, vec(xs), vec(ys), vec(seq)))
                add("seq_out_then_last_segment", "interp %s %s %s %s %s" % (variant, fillm, vec(xs), vec(ys), vec(seq)))
                add("last_segment_panic_mode", "interp %s panic %s %s %s" % (variant, vec(xs), vec(ys), vec(last + first + last)))
                add("last_knot_plus_ulp", "interp %s panic %s %s %s" % (variant, vec(xs), vec(ys), vec([up(L)])))
                add("last_knot_plus_ulp", "interp %s panic %s %s %s" % (variant, vec(xs), vec(ys), vec([last[1], L, up(L)])))
                add("last_knot_plus_ulp", "interp %s %s %s %s %s" % (variant, fillm, vec(xs), vec(ys), vec([up(L)])))
                add("last_knot_plus_ulp", "interp %s %s %s %s %s" % (variant, fillm, vec(xs), vec(ys), vec([up(L), L, dn(L), up(L), last[1]])))
                add("first_knot_minus_ulp", "interp %s panic %s %s %s" % (variant, vec(xs), vec(ys), vec([dn(A)])))
                add("first_knot_minus_ulp", "interp %s %s %s %s %s" % (variant, fillm, vec(xs), vec(ys), vec([dn(A), A, up(A), dn(A), first[1]])))
            # the only descent sits at a block boundary b-1 | b
            for b in (4, 8, 16, 32, 48, 64, 96, 128, 192):
                if b < n:
                    for kind in (0, 1):
                        bad = list(xs)
                        bad[b] = dn(bad[b - 1]) if kind == 0 else bad[b - 1] - (bad[b - 1] - bad[b - 2]) * rng.uniform(0.1, 0.9) if b >= 2 else dn(bad[b - 1])
                        add("descent_at_block_boundary", "interp chk %s %s %s %s" % (rng.choice(modes()), vec(bad), vec(ys), vec(last[:2] + first[:2])))
            if n > 2:       # ... and at the very last / very first pair
                bad = list(xs); bad[-1] = dn(bad[-2])
                add("descent_at_last_pair", "interp chk %s %s %s %s" % (rng.choice(modes()), vec(bad), vec(ys), vec(first[:2])))
                bad = list(xs); bad[1] = dn(bad[0])
                add("descent_at_first_pair", "interp chk %s %s %s %s" % (rng.choice(modes()), vec(bad), vec(ys), vec(last[:2])))
            # number of targets: 0, 1 and block sizes
            for m in ([0, 1, 2, 31, 32, 33, 64, 65] if rep == 0 else [0, 1]):
                ts = inside_targets(rng, xs, m)
                add("target_count_boundary", "interp %s %s %s %s %s" % (rng.choice(["chk", "unc"]), rng.choice(modes()), vec(xs), vec(ys), vec(ts)))
    for m in (1024, 1025, 2048):
        xs = knots(rng, 33); ys = ordinates(rng, 33)
        add("target_count_boundary", "interp chk extrap %s %s %s" % (vec(xs), vec(ys), vec(inside_targets(rng, xs, m - 4) + outside_targets(rng, xs, 4))))
    # segment widths w with w * (1/w) != 1, exactly representable as the difference of the two knots
    ws = bad_reciprocal_widths(rng, 14 if quick else 60)
    for w in ws:
        for n in (2, 3, 5, 33, 34, 40):
            if quick and n not in (2, 33) and not rng.chance(0.3):
                continue
            xs = [float(i - (n - 2)) for i in range(n - 1)] + [w]          # ..., -1, 0, w : last width is exactly w
            if rng.chance(0.5) and n > 2:
                xs = [-w * (n - 2 - i) for i in range(n - 1)] + [w]        # every width ~ w
                if not all(b > a for a, b in zip(xs, xs[1:])):
                    continue
            ys = ordinates(rng, n)
            ts = [w, 0.0, w / 2, dn(w), up(0.0)] + xs + [a + (b - a) / 2 for a, b in zip(xs, xs[1:])]
            for variant in ("chk", "unc"):
                add("width_times_reciprocal", "interp %s %s %s %s %s" % (variant, rng.choice(["extrap", "panic", "fill 0000000000000000 3ff0000000000000"]), vec(xs), vec(ys), vec(ts)))
    # exact special values: integer / half-integer grids, zero and minus zero as knot and target, flat and zero ordinates
    for n in (2, 3, 8, 9, 33):
        xs = [float(i) for i in range(n)]
        for ys in ([float(i * i) for i in range(n)], [1.0] * n, [0.0] * n, [(-1.0) ** i for i in range(n)], [1.0 / 3.0 * i for i in range(n)]):
            ts = [i / 2.0 for i in range(-2, 2 * n + 1)] + [-0.0, 1.0 / 3.0, 2.0 / 3.0, float(n - 1), up(float(n - 1)), dn(0.0)]
            for mode in ("extrap", "fill %s %s" % (f2h(-0.0), f2h(float("inf")))):
                add("integer_grid", "interp %s %s %s %s %s" % (rng.choice(["chk", "unc"]), mode, vec(xs), vec(ys), vec(ts)))
        xs0 = [-0.0] + [float(i) for i in range(1, n)]
        add("minus_zero_knot", "interp chk panic %s %s %s" % (vec(xs0), vec([float(i + 1) for i in range(n)]), vec([0.0, -0.0, 0.5, float(n - 1)])))
        xp = [2.0 ** (i - n // 2) for i in range(n)]                      # powers of two and their neighbours
        tp = [v for q in xp for v in (q, up(q), dn(q))]
        tp = [min(max(v, xp[0]), xp[-1]) for v in tp]
        add("power_of_two_knots", "interp unc panic %s %s %s" % (vec(xp), vec(ordinates(rng, n)), vec(tp)))
    # extreme scale: ordinates (and fills) times 2^k scale the result exactly; abscissae and targets times 2^k leave it unchanged
    for _ in range(6 if quick else 60):
        n = rng.choice([2, 3, 9, 33, 40])
        xs = knots(rng, n)
        ys = [rng.choice([-1, 1]) * rng.loguniform(1e-3, 1e6) for _ in range(n)]
        ts = inside_targets(rng, xs, 12) + xs[-2:] + outside_targets(rng, xs, 6)
        l, r = rng.normal(), rng.normal() * 100
        for mode in ("extrap", "fill"):
            for k in (0, 500, -500, 1):
                f = 2.0 ** k
                ms = mode if mode == "extrap" else "fill %s %s" % (f2h(l * f), f2h(r * f))
                add("scale_ordinates", "interp chk %s %s %s %s" % (ms, vec(xs), vec([v * f for v in ys]), vec(ts)))
            ms = mode if mode == "extrap" else "fill %s %s" % (f2h(l), f2h(r))
            for k in (400, -400, 3):
                f = 2.0 ** k
                add("scale_abscissae", "interp chk %s %s %s %s" % (ms, vec([v * f for v in xs]), vec(ys), vec([v * f for v in ts])))



# ------------------------------------------------------------------------------------------ many targets (late-iteration regime)
MANY_COUNTS = [4095, 4096, 4097, 4100, 6000, 8191, 8192, 8193, 10001]
MANY_COUNTS_THOROUGH = MANY_COUNTS + [16385, 20000]
MANY_KNOTS = [2, 7, 8, 16, 25, 100]


def many_targets(rng, xs, m, with_outside):
    """m unsorted targets: random interior positions, knots, +-1 ulp of knots and (optionally) out-of-range values on both sides;
    the special ones are placed at indices >= 4096 when m allows (index 4096 is always a knot), the rest is shuffled."""
    up = lambda v: math.nextafter(v, math.inf)
    dn = lambda v: math.nextafter(v, -math.inf)
    n = len(xs)
    special = []
    for k in sorted({0, n - 1, n // 2, rng.randint(0, n - 1), rng.randint(0, n - 1)}):
        special += [xs[k]]
        if k + 1 < n:
            special.append(up(xs[k]))
        if k > 0:
            special.append(dn(xs[k]))
    special += [xs[-2] + (xs[-1] - xs[-2]) / 2, xs[0] + (xs[1] - xs[0]) / 2]
    if with_outside:
        span = xs[-1] - xs[0]
        special += [up(xs[-1]), dn(xs[0]), xs[-1] + span * rng.loguniform(1e-3, 10), xs[0] - span * rng.loguniform(1e-3, 10),
                    xs[-1] + rng.loguniform(1e-6, 1e3), xs[0] - rng.loguniform(1e-6, 1e3)]
    rng.shuffle(special)
    special = special[:max(1, min(len(special), m // 2))]
    body = inside_targets(rng, xs, m - len(special))
    rng.shuffle(body)
    if m > 4096 + len(special):
        # first 4096 slots: plain interior targets; then a knot at index 4096 followed by the other special targets, spread out
        head, tail = body[:4096], body[4096:]
        knot = xs[rng.randint(0, n - 1)]
        rest = [knot] + special
        # interleave: specials at 4096, 4097, ... and a few at the very end
        cut = len(rest) // 2
        out = head + rest[:cut + 1] + tail + rest[cut + 1:]
        return out[:m] if len(out) >= m else out + [knot] * (m - len(out))
    out = body + special
    return out[:m]


def many_lines(rng, add, counts, knot_counts, kind):
    for m in counts:
        for n in knot_counts:
            xs = knots(rng, n)
            ys = ordinates(rng, n)
            l, r = rng.normal() * 1e3, rng.normal()
            tin = many_targets(rng, xs, m, False)
            tmix = many_targets(rng, xs, m, True)
            v = rng.choice([("chk", "unc"), ("unc", "chk")])
            add(kind, "interp %s extrap %s %s %s" % (v[0], vec(xs), vec(ys), vec(tmix)))
            add(kind, "interp %s fill %s %s %s %s %s" % (v[1], f2h(l), f2h(r), vec(xs), vec(ys), vec(tmix)))
            add(kind, "interp %s panic %s %s %s" % (v[0], vec(xs), vec(ys), vec(tin)))
            # panic mode with its only outside target late in the call (index >= 4096 when there is one)
            tp = list(tin)
            pos = rng.randint(4096, m - 1) if m > 4096 else m - 1
            tp[pos] = rng.choice([math.nextafter(xs[-1], math.inf), math.nextafter(xs[0], -math.inf), xs[-1] + 1.0, xs[0] - 1.0])
            add(kind, "interp %s panic %s %s %s" % (v[1], vec(xs), vec(ys), vec(tp)))



def parse(line):
    t = line.split()
    alias = t[0] == "interp_alias"
    variant, mode = t[1], t[2]
    p = 3
    fill = None
    if mode == "fill":
        fill = (t[3], t[4])
        p = 5
    if alias:
        xa, n, tb, k = (int(v) for v in t[p:p + 4])
        p += 4
    vecs = []
    for _ in range(2 if alias else 3):
        m = int(t[p])
        vecs.append([h2f(v) for v in t[p + 1:p + 1 + m]])
        p += 1 + m
    if alias:
        buf, ys = vecs
        return variant, mode, fill, buf[xa:xa + n], ys, buf[tb:tb + k]
    return variant, mode, fill, vecs[0], vecs[1], vecs[2]


def alias_line(variant, mode, xa, n, tb, k, buf, ys):
    return "interp_alias %s %s %d %d %d %d %s %s" % (variant, mode, xa, n, tb, k, vec(buf), vec(ys))


def alias_lines(rng, add, count):
    """x and tgt are windows of ONE buffer (round-11 seed C16y: a pointer-equality shortcut): prefix, same slice, tgt prefix of x,
    overlapping windows; the oracle works on the values, so aliasing must be invisible."""
    for j in range(count):
        g = rng.choice([6, 7, 9, 12, 20, 40])
        grid = knots(rng, g)
        shape = j % 4
        if shape == 0:        # fit on the first n points, evaluate on the whole grid
            n = rng.randint(2, g - 1); xa, tb, k = 0, 0, g
        elif shape == 1:      # the very same slice
            n = g; xa, tb, k = 0, 0, g
        elif shape == 2:      # targets = a proper prefix of x
            n = rng.randint(3, g); xa, tb, k = 0, 0, rng.randint(1, n - 1)
        else:                 # overlapping windows
            n = rng.randint(2, g - 1); xa = rng.randint(0, g - n); k = rng.randint(1, g); tb = rng.randint(0, g - k)
        ys = ordinates(rng, n)
        l, r = rng.normal() * 100, rng.normal()
        mode = ["extrap", "panic", "fill %s %s" % (f2h(l), f2h(r))][(j // 4) % 3]
        variant = "chk" if (j // 12) % 2 == 0 else "unc"
        if shape == 0 and j % 8 == 4:
            variant = "chk"
        add("alias_%s" % ["prefix_x", "same_slice", "prefix_tgt", "windows"][shape], alias_line(variant, mode, xa, n, tb, k, grid, ys))


def nontrivial(line, reply):
    if reply.startswith("#"):
        return None
    return str(hash(line))


STATS = {}


def note(k, v):
    if v > STATS.get(k, 0.0):
        STATS[k] = v


def finite(v):
    return v == v and not math.isinf(v)


def mant(vs):
    return tuple(math.frexp(v)[0] for v in vs)


def expo(vs):
    for v in vs:
        if v != 0.0:
            return math.frexp(v)[1]
    return 0


def scale_checks(lines, impl, fails):
    """Exact scale laws (no tolerance): y, fills -> 2^k y, 2^k fills gives 2^k results; x, t -> 2^k x, 2^k t gives the same
    results.  Lines are grouped by everything except the power-of-two scale; groups only form for the scale strata."""
    gy, gx = {}, {}
    for i, (l, rep) in enumerate(zip(lines, impl)):
        st, toks = parse_reply(rep)
        if st != "ok" or " nan" in l:
            continue
        variant, mode, fill, xs, ys, ts = parse(l)
        if len(xs) < 2 or len(xs) != len(ys) or not all(finite(v) for v in xs + ys + ts) or not all(b > a for a, b in zip(xs, xs[1:])):
            continue
        fl = [h2f(v) for v in fill] if fill else []
        if not all(finite(v) for v in fl):
            continue
        out = [h2f(v) for v in toks[1:]]
        gy.setdefault((variant, mode, tuple(xs), tuple(ts), mant(ys + fl)), []).append((i, expo(ys + fl), out))
        gx.setdefault((variant, mode, tuple(fill or ()), tuple(ys), mant(xs + ts)), []).append((i, expo(xs + ts), out))
    for groups, what in ((gy, "ordinates"), (gx, "abscissae")):
        for key, mem in groups.items():
            if len(mem) < 2:
                continue
            i0, e0, o0 = mem[0]
            for i1, e1, o1 in mem[1:]:
                k = e1 - e0 if what == "ordinates" else 0
                for a, b in zip(o0, o1):
                    want = math.ldexp(a, k)
                    if not finite(a) or not finite(b) or (a != 0 and abs(a) < 1e-200):
                        continue
                    if b != want:
                        fails.append(Failure(i1, "scale:" + what, "scaling the %s by 2^%d: result %r, expected exactly %r (unscaled request is line %d)" % (
                            what, e1 - e0, b, want, i0), f2h(want)))
                        break


def oracle(lines, impl):
    fails = []
    scale_checks(lines, impl, fails)
    for i, (l, rep) in enumerate(zip(lines, impl)):
        st, toks = parse_reply(rep)
        if st == "skip":
            continue
        variant, mode, fill, xs, ys, ts = parse(l)
        n = len(xs)
        key = "%s:%s" % (variant, mode)
        if not all(finite(v) for v in xs + ys):
            continue
        descending = any(b < a for a, b in zip(xs, xs[1:]))
        if variant == "chk" and (len(xs) != len(ys) or descending):
            if st != "panic":
                fails.append(Failure(i, key + ":reject", "checked variant accepted %s: %s" % (
                    "mismatched lengths %d, %d" % (len(xs), len(ys)) if len(xs) != len(ys) else "unsorted abscissae", rep[:80])))
            continue
        strictly = all(b > a for a, b in zip(xs, xs[1:]))
        if n < 2 or len(xs) != len(ys) or not strictly or not all(finite(v) for v in ts):
            continue            # outside the property's domain: model comparison only
        outside = [t for t in ts if t < xs[0] or t > xs[-1]]
        if mode == "panic" and outside:
            if st != "panic":
                fails.append(Failure(i, key + ":outside", "panic mode returned %s although target %r lies outside [%r, %r]" % (
                    rep[:60], outside[0], xs[0], xs[-1])))
            continue
        if st != "ok":
            fails.append(Failure(i, key + ":defined", "%s on valid input (n = %d, %d targets, %d outside)" % (st, n, len(ts), len(outside))))
            continue
        if int(toks[0]) != len(ts) or len(toks) != 1 + len(ts):
            fails.append(Failure(i, key + ":length", "%d results for %d targets" % (len(toks) - 1, len(ts))))
            continue
        fx = [Fraction(v) for v in xs]
        fy = [Fraction(v) for v in ys]
        import bisect
        for j, t in enumerate(ts):
            got_tok = toks[1 + j]
            got = h2f(got_tok)
            ft = Fraction(t)
            if t < xs[0] or t > xs[-1]:
                left = t < xs[0]
                side = "left" if left else "right"
                if mode == "fill":
                    want = fill[0] if left else fill[1]
                    if got_tok != want:
                        fails.append(Failure(i, key + ":" + side, "target %r %s of the data: got %r, expected the %s fill value %r" % (
                            t, side, got, side, h2f(want)), want))
                        break
                    continue
                a, b = (0, 1) if left else (n - 2, n - 1)
                anchor = 0 if left else n - 1
                slope = (fy[b] - fy[a]) / (fx[b] - fx[a])
                prod = slope * (ft - fx[anchor])
                exact = fy[anchor] + prod
                scale = U * (abs(prod) + abs(fy[anchor]))
                err = abs(Fraction(got) - exact) if finite(got) else None
                if err is not None and scale > 0:
                    note("extrap_u", float(err / scale))
                # slope: two subtractions and a division (3u), distance and product (2u), final sum (1u) => < 7u(|prod|+|y|)
                # (a subnormal slope carries an absolute error of half a subnormal ulp, multiplied by the distance)
                if err is None or err > 16 * scale + TINY * (16 + 2 * abs(ft - fx[anchor])):
                    fails.append(Failure(i, key + ":" + side, "target %r %s of the data: got %r, the extended %s segment gives %r" % (
                        t, side, got, "first" if left else "last", float(exact)), f2h(float(exact))))
                    break
                continue
            # inside: bracket by the exact order
            k = bisect.bisect_right(xs, t) - 1          # xs[k] <= t
            if xs[k] == t:
                if not (got == ys[k]):
                    fails.append(Failure(i, key + ":knot", "target = knot %d (%r): got %r, ordinate is %r" % (k, t, got, ys[k]), f2h(ys[k])))
                    break
                continue
            lo, hi = k, k + 1
            exact = fy[lo] + (ft - fx[lo]) / (fx[hi] - fx[lo]) * (fy[hi] - fy[lo])
            M = max(abs(fy[lo]), abs(fy[hi]))
            scale = U * M
            if not finite(got):
                fails.append(Failure(i, key + ":inside", "target %r in segment %d: got %r" % (t, lo, got)))
                break
            err = abs(Fraction(got) - exact)
            if scale > 0:
                note("inside_u", float(err / scale))
            # ratio 3u, 1-ratio 1u+3u, two products 2u, sum 1u, each relative to at most max|y|: < 12u max|y|
            tol = 16 * scale + 16 * TINY
            if err > tol:
                fails.append(Failure(i, key + ":inside", "target %r in segment %d: got %r, the line through the neighbouring knots gives %r" % (
                    t, lo, got, float(exact)), f2h(float(exact))))
                break
            if Fraction(got) < min(fy[lo], fy[hi]) - tol or Fraction(got) > max(fy[lo], fy[hi]) + tol:
                fails.append(Failure(i, key + ":between", "target %r in segment %d: got %r outside the neighbouring ordinates %r, %r" % (
                    t, lo, got, ys[lo], ys[hi])))
                break
    return fails

# --- deep theorems (Rounding2)
PROOF_MODULES = PROOF_MODULES + ['Compute.Lemmas.InterpRounding', 'Compute.Props.Rounding2']
REQUIRED_THEOREMS = REQUIRED_THEOREMS + ['Cv.Rounding2.interpOne_error', 'Cv.Rounding2.interpOne_error_16u', 'Cv.Rounding2.interpOne_between_rounded', 'Cv.Rounding2.interpOne_knot_exact']
NOT_PROVED = [x for x in NOT_PROVED if not any(k in str(x) for k in ('floating-point rounding of the interior', 'exactness at knots in IEEE'))]
NOT_PROVED = NOT_PROVED + ['rounding of the extrapolation branch (oracle only); for targets inside the range the rounded result is proved within gamma_8 max|y| (<= 16u) of the line, between the ordinates up to that, and EXACT at every knot, in the standard model (Props/Rounding2)']

# --- source tie (translator tools/rs2lean.py: the straight-line functions of this property are regenerated from /repo/src on every run
# into lean/Compute/Generated/SrcC16.lean and proved equal to the hand model in Props/SrcTieC16.lean)
from . import srctie
srctie.wire(globals(), 'C16')

# --- deep theorems (Rounding5: float-level bounds in the standard model, wired by the lead)
PROOF_MODULES = PROOF_MODULES + [m for m in ['Compute.Lemmas.Rounding5', 'Compute.Props.Rounding5'] if m not in PROOF_MODULES]
REQUIRED_THEOREMS = REQUIRED_THEOREMS + ['Cv.Rounding5.extrapolate_left_error', 'Cv.Rounding5.extrapolate_right_error', 'Cv.Rounding5.extrapolate_cancellation']
NOT_PROVED = [('rounding of all branches is bounded by theorem in the standard model: inside the range within gamma_8 max|y| and exact at knots (Props/Rounding2); extrapolation within gamma_6 (|slope (t - x_k)| + |y_k|) of the line (Props/Rounding5), and no bound relative to the exact value exists there (extrapolate_cancellation)' if str(x).startswith('rounding of the extrapolation branch') else x) for x in NOT_PROVED]


# --- review fixes (owner of C16/C17, after review-d): NOT_PROVED lists what is not proved
NOT_PROVED = [("rounding OUTSIDE the standard model: FlModel has neither overflow nor underflow, so the proved bounds (inside the range within "
               "gamma_8 max|y| and exact at knots, Props/Rounding2; extrapolation within gamma_6 (|slope (t - x_k)| + |y_k|), Props/Rounding5; no bound "
               "relative to the exact extrapolated value exists, extrapolate_cancellation) say nothing once a result or an intermediate leaves "
               "the normal range; there (e.g. the 2^+-500 scale strata, ordinates 1e-310) the evidence is the oracle bound 16u scale + an absolute "
               "subnormal slack, the exact scale laws and the bit tie" if str(x).startswith("rounding of all branches is bounded by theorem") else x)
              for x in NOT_PROVED]


# --- FINAL block (owner of C16/C17, after review2-b): theorems the claim text cites
REQUIRED_THEOREMS = REQUIRED_THEOREMS + [t for t in [
    "Cv.C16.sortedOk_iff", "Cv.C16.unchecked_eq_some_iff", "Cv.C16.interpOne_isSome_inside", "Cv.C16.interpOne_isSome_of_not_panic",
    "Cv.C16.idxOf_left", "Cv.C16.idxOf_right", "Cv.C16.scan_before", "Cv.C16.scan_at", "Cv.C16.scan_all"] if t not in REQUIRED_THEOREMS]

# pointwise / concatenation theorems for the loop over the targets (round-10 seed C16w)
PROOF_MODULES = PROOF_MODULES + [m for m in ["Compute.Props.C16Pointwise"] if m not in PROOF_MODULES]
REQUIRED_THEOREMS = REQUIRED_THEOREMS + [t for t in [
    "Cv.C16.interpAll_pointwise", "Cv.C16.interpAll_append", "Cv.C16.interpUnchecked_append", "Cv.C16.interpChecked_append",
    "Cv.C16.interpAll_slot"] if t not in REQUIRED_THEOREMS]
