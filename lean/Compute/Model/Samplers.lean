import Compute.Model.Scalar
import Compute.Model.Rng
import Compute.Model.Special
import Compute.Model.Mat
import Compute.Model.DotTrait
import Compute.Model.MatrixLinalg
import Compute.Generated.C03Tables
/-
# Model of the samplers of `/repo/src/distributions/*.rs`

Every sampler is a function `params → Rng → Option (value × Rng)` (or total, `value × Rng`, where the Rust code
has no loop and no panic), polymorphic in the scalar `α`.  The generator state is threaded in program order
(`Model/Rng.lean` is the bit-exact model of `alea` 0.2.2).  Rejection loops take `fuel`: `none` = the loop did
not finish within `fuel` iterations (the driver prints `! diverged`), or the Rust code panics where noted.
Cached sub-samplers of the Rust structs (`normal_gen`, `uniform_gen`, `alpha_gen`, `sampler`, …) are pure
functions of the constructor arguments, so they appear here as parameters (`Normal 0 1`, `Uniform 0 1`, …).

No Mathlib.  Constants and the Ziggurat tables come from `Generated/C03Tables.lean` (regenerated from the source
on every check) as `Cv.Lit`; `OfLit.ofLit` injects them (`Float.ofBits` at `Float`, `num/den` at `ℝ`).
Dyadic literals are written with `NatCast`/`One` (`0.5 = 1/2`, `f64::EPSILON = 1/2^52`: exact in binary64).

API (namespace `Cv`):
  Normal.sample fuel μ σ g            Ziggurat (normal.rs:52-80)
  Gamma.sample fuel α β g             Marsaglia–Tsang + boost for α < 1 (gamma.rs:61-87)
  Beta.sample, ChiSquared.sample, T.sample           compositions
  Poisson.sampleMult / samplePtrs / sample           poisson.rs:42-124
  Binomial.inversion / btpe / sample                 binomial.rs:46-262
  Exponential.sample, Gumbel.sample, Pareto.sample (redraw loop on u = 0, fuel), Bernoulli.sample (total)
  MVN.new / MVN.sample / MVN.sampleN
  sampleN, sampleMatrix                              Distribution1D::{sample_n, sample_matrix}
-/
namespace Cv

/-- `f64::ln_1p`. -/
class Log1p (α : Type) where
  log1p : α → α

instance : Log1p Float := ⟨log1pF⟩

/-- `x as u64` for a float `x` (saturating, NaN ↦ 0). -/
class ToU64 (α : Type) where
  toU64 : α → Nat

instance : ToU64 Float := ⟨fun x => x.toUInt64.toNat⟩

/-- `f64::is_finite`. -/
class FiniteTest (α : Type) where
  isFinite : α → Bool

instance : FiniteTest Float := ⟨Float.isFinite⟩

section
variable {α : Type} [Add α] [Sub α] [Mul α] [Div α] [Neg α] [Zero α] [One α] [NatCast α]
  [LT α] [DecidableLT α] [LE α] [DecidableLE α] [BEq α] [Transc α] [OfLit α] [Log1p α] [ToU64 α] [FiniteTest α]

/-- `0.5` -/
def halfC : α := (1 : α) / ((2 : Nat) : α)
/-- `f64::EPSILON = 2⁻⁵²` -/
def epsC : α := (1 : α) / ((2 ^ 52 : Nat) : α)

/-! ## Uniform (repair F44: the width of a finite interval may overflow) -/
namespace UniformF

/-- `Uniform::sample`: `let width = upper - lower; let u = alea::f64(); if width.is_finite() { width * u + lower }
else { lower * (1. - u) + upper * u }`.  (`Cv.Uniform.sample` of `Model/Rng.lean` is the first branch; the two agree
whenever the width is finite, in particular over `ℝ`.) -/
def sample (lower upper : α) (g : Rng) : α × Rng :=
  let width := upper - lower
  let (u, g) := g.f64 (α := α)
  if FiniteTest.isFinite width then (width * u + lower, g) else (lower * (1 - u) + upper * u, g)

end UniformF

/-- `let mut u = draw(); while u == 0. { u = draw(); }`: the first non-zero draw and the state after it;
`none` = `fuel` draws were all zero. -/
def redrawNonzero (draw : Rng → α × Rng) : Nat → Rng → Option (α × Rng)
  | 0, _ => none
  | fuel + 1, g =>
    let r := draw g
    if r.1 == 0 then redrawNonzero draw fuel r.2 else some r

/-! ## Normal: Ziggurat with 128 layers -/
namespace Normal

/-- `Normal::new` panics iff `sigma < 0`. -/
def valid (sigma : α) : Bool := !decide (sigma < 0)

def zR : α := ofLit C03T.zigR
def zK (i : Nat) : Nat := C03T.zigK[i]!
def zY (i : Nat) : α := ofLit C03T.zigY[i]!
def zW (i : Nat) : α := ofLit C03T.zigW[i]!

/-- `s * x * self.sigma + self.mu` -/
def out (mu sigma s x : α) : α := s * x * sigma + mu

/-- The candidate `(x, y)` of a non-fast iteration: wedge (`i < 127`, one `f64`) or tail (two `f64`). -/
def wedgeOrTail (i j : Nat) (g : Rng) : α × α × Rng :=
  if i < 127 then
    let x : α := (j : α) * zW i
    let (f, g) := g.f64 (α := α)
    (x, zY (i + 1) + (zY i - zY (i + 1)) * f, g)
  else
    let (f1, g) := g.f64 (α := α)
    let x : α := zR - Log1p.log1p (-f1) / zR
    let (f2, g) := g.f64 (α := α)
    (x, Transc.exp (-zR * (x - halfC * zR)) * f2, g)

/-- One iteration of the `loop` on the raw word `u` (state after drawing it: `g`): `.inl` = the accepted value and the
state after it, `.inr` = the state from which the loop continues.  (Kept separate from `sample`, and applied to the
projections of `g.u64`, so that `sample (fuel + 1)` unfolds without reducing the generator.) -/
def iter (mu sigma : α) (u : UInt64) (g : Rng) : (α × Rng) ⊕ Rng :=
  let i := (u &&& 0x7F).toNat
  let j := ((u >>> 8) &&& 0xFFFFFF).toNat
  let s : α := if u &&& 0x80 != 0 then 1 else -1
  if j < zK i then .inl (out mu sigma s ((j : α) * zW i), g)
  else
    let r := wedgeOrTail (α := α) i j g
    if r.2.1 < Transc.exp (-halfC * r.1 * r.1) then .inl (out mu sigma s r.1, r.2.2)
    else .inr r.2.2

/-- One pass through the `loop` body on the raw word `u` (state after drawing it: `g`): return the accepted value, or
continue with `rest` from the state the rejected iteration leaves.  (`u`, `g` are parameters so that lemmas about one pass
can be proved for a variable word: the kernel must never reduce the generator on a symbolic state.) -/
def next (rest : Rng → Option (α × Rng)) (mu sigma : α) (u : UInt64) (g : Rng) : Option (α × Rng) :=
  match iter mu sigma u g with
  | .inl r => some r
  | .inr g' => rest g'

/-- `Normal::sample`: the `loop` with `fuel` iterations. -/
def sample : Nat → α → α → Rng → Option (α × Rng)
  | 0, _, _, _ => none
  | fuel + 1, mu, sigma, g => next (sample fuel mu sigma) mu sigma (g.u64).1 (g.u64).2

end Normal

/-! ## Gamma: Marsaglia–Tsang, boosted below shape 1 (repair F20) -/
namespace Gamma

/-- `Gamma::new` panics iff `alpha <= 0 || beta <= 0`. -/
def valid (alpha beta : α) : Bool := !(decide (alpha ≤ 0) || decide (beta ≤ 0))

/-- `(alpha, boost)` of the sampler and the state after the optional uniform draw.  Repair F54: below shape 1 the boosting
uniform is redrawn while it is exactly 0 (`none` = `fuel` zero draws in a row). -/
def prepare (fuel : Nat) (alpha : α) (g : Rng) : Option (α × α × Rng) :=
  if alpha < 1 then
    (redrawNonzero (UniformF.sample (0 : α) 1) fuel g).map fun r => (alpha + 1, Transc.pow r.1 (1 / alpha), r.2)
  else some (alpha, 1, g)

/-- `v = (1 + x / sqrt(9 d))³` -/
def vOf (d x : α) : α := powi (1 + x / Transc.sqrt (((9 : Nat) : α) * d)) 3

/-- `boost * d * v / self.beta` -/
def result (boost d v beta : α) : α := boost * d * v / beta

/-- squeeze test `u < 1 - 0.0331 x⁴` -/
def squeeze (u x : α) : Bool := decide (u < 1 - ofLit C03T.gammaSqueeze * powi x 4)

/-- full test `ln u < 0.5 x² + d (1 - v + ln v)` -/
def fullTest (u x d v : α) : Bool :=
  decide (Transc.ln u < halfC * powi x 2 + d * (1 - v + Transc.ln v))

/-- The two nested `loop`s, flattened: one iteration draws a normal; if `v > 0` it draws a uniform and tests.
`fuel` bounds the total number of normal draws; `zf` is the fuel of each Ziggurat call. -/
def loop (zf : Nat) (boost d beta : α) : Nat → Rng → Option (α × Rng)
  | 0, _ => none
  | fuel + 1, g =>
    match Normal.sample zf (0 : α) 1 g with
    | none => none
    | some (x, g) =>
      let v := vOf d x
      if 0 < v then
        let (u, g) := UniformF.sample (0 : α) 1 g
        if squeeze u x then some (result boost d v beta, g)
        else if fullTest u x d v then some (result boost d v beta, g)
        else loop zf boost d beta fuel g
      else loop zf boost d beta fuel g

/-- `Gamma::sample`. -/
def sample (fuel : Nat) (alpha beta : α) (g : Rng) : Option (α × Rng) :=
  match prepare fuel alpha g with
  | none => none
  | some r => loop fuel r.2.1 (r.1 - 1 / ((3 : Nat) : α)) beta fuel r.2.2

end Gamma

/-! ## Compositions -/
namespace Beta
def valid (alpha beta : α) : Bool := !(decide (alpha ≤ 0) || decide (beta ≤ 0))

/-- `let x = alpha_gen.sample(); let y = beta_gen.sample();` with `alpha_gen = Gamma(alpha, 1)`, `beta_gen = Gamma(beta, 1)`;
`if x + y == 0. { return if alea::f64() * (alpha + beta) < alpha { 1. } else { 0. } }` (repair F43: both variates
underflowed), otherwise `x / (x + y)`. -/
def sample (fuel : Nat) (alpha beta : α) (g : Rng) : Option (α × Rng) :=
  match Gamma.sample fuel alpha 1 g with
  | none => none
  | some (x, g) =>
    match Gamma.sample fuel beta 1 g with
    | none => none
    | some (y, g) =>
      if x + y == 0 then
        let (u, g) := g.f64 (α := α)
        some (if u * (alpha + beta) < alpha then 1 else 0, g)
      else some (x / (x + y), g)
end Beta

namespace ChiSquared
def valid (dof : Nat) : Bool := decide (0 < dof)

/-- `sampler = Gamma::new((dof as f64) / 2., 0.5)`; `sample = sampler.sample()`. -/
def sample (fuel : Nat) (dof : Nat) (g : Rng) : Option (α × Rng) :=
  Gamma.sample fuel ((dof : α) / ((2 : Nat) : α)) halfC g
end ChiSquared

namespace T
def valid (dof : α) : Bool := decide (0 < dof)

/-- `(dof/2).sqrt() * Normal::default().sample() / Gamma::new(dof/2, 1).sample().sqrt()` -/
def sample (fuel : Nat) (dof : α) (g : Rng) : Option (α × Rng) :=
  match Normal.sample fuel (0 : α) 1 g with
  | none => none
  | some (z, g) =>
    if Gamma.valid (dof / ((2 : Nat) : α)) (1 : α) then
      match Gamma.sample fuel (dof / ((2 : Nat) : α)) 1 g with
      | none => none
      | some (gm, g) => some (Transc.sqrt (dof / ((2 : Nat) : α)) * z / Transc.sqrt gm, g)
    else none
end T

/-! ## Poisson -/
namespace Poisson
def valid (lambda : α) : Bool := !decide (lambda ≤ 0)

/-- `while product > limit { count += 1.; product *= alea::f64(); }` -/
def multLoop (limit : α) : Nat → Nat → α → Rng → Option (Nat × Rng)
  | 0, _, _, _ => none
  | fuel + 1, count, product, g =>
    if limit < product then
      let (f, g) := g.f64 (α := α)
      multLoop limit fuel (count + 1) (product * f) g
    else some (count, g)

/-- `sample_mult(lambda)`; the count as a natural number. -/
def sampleMultNat (fuel : Nat) (lambda : α) (g : Rng) : Option (Nat × Rng) :=
  let limit : α := Transc.exp (-lambda)
  let (f, g) := g.f64 (α := α)
  multLoop limit fuel 0 f g

def sampleMult (fuel : Nat) (lambda : α) (g : Rng) : Option (α × Rng) :=
  (sampleMultNat fuel lambda g).map fun (c, g) => ((c : α), g)

/-- constants of PTRS computed before the loop -/
structure Ptrs (α : Type) where
  lam : α
  loglam : α
  b : α
  a : α
  invalpha : α
  vr : α

def ptrsSetup (lam : α) : Ptrs α :=
  let slam := Transc.sqrt lam
  let b := ofLit C03T.ptrsB0 + ofLit C03T.ptrsB1 * slam
  { lam := lam, loglam := Transc.ln lam, b := b,
    a := -ofLit C03T.ptrsA0 + ofLit C03T.ptrsA1 * b,
    invalpha := ofLit C03T.ptrsI0 + ofLit C03T.ptrsI1 / (b - ofLit C03T.ptrsI2),
    vr := ofLit C03T.ptrsV0 - ofLit C03T.ptrsV1 / (b - ((2 : Nat) : α)) }

def ptrsLoop (c : Ptrs α) : Nat → Rng → Option (α × Rng)
  | 0, _ => none
  | fuel + 1, g =>
    let (f1, g) := g.f64 (α := α)
    let U := f1 - halfC
    let (V, g) := g.f64 (α := α)
    let us := halfC - Transc.abs U
    let k := Transc.floor ((((2 : Nat) : α) * c.a / us + c.b) * U + c.lam + ofLit C03T.ptrsK0)
    if decide (ofLit C03T.ptrsUs1 ≤ us) && decide (V ≤ c.vr) then some (k, g)
    else if decide (k < 0) || (decide (us < ofLit C03T.ptrsUs2) && decide (us < V)) then ptrsLoop c fuel g
    else if Transc.ln V + Transc.ln c.invalpha - Transc.ln (c.a / (us * us) + c.b)
        ≤ -c.lam + k * c.loglam - lnGammaFn (k + 1) then some (k, g)
    else ptrsLoop c fuel g

def samplePtrs (fuel : Nat) (lam : α) (g : Rng) : Option (α × Rng) := ptrsLoop (ptrsSetup lam) fuel g

/-- `Poisson::sample`: multiplication method below rate 10, PTRS from 10 on. -/
def sample (fuel : Nat) (lambda : α) (g : Rng) : Option (α × Rng) :=
  if lambda < ((10 : Nat) : α) then sampleMult fuel lambda g else samplePtrs fuel lambda g

end Poisson

/-! ## Binomial -/
namespace Binomial
/-- `Binomial::new` panics iff `!(0. ..=1.).contains(&p)`. -/
def valid (p : α) : Bool := decide (0 ≤ p) && decide (p ≤ 1)

/-- `while u > r { u -= r; x += 1; r *= a / (x as f64) - s; }` -/
def invLoop (a s : α) : Nat → α → α → Nat → Option Nat
  | 0, _, _, _ => none
  | fuel + 1, u, r, x =>
    if r < u then
      let x' := x + 1
      invLoop a s fuel (u - r) (r * (a / (x' : α) - s)) x'
    else some x

/-- `binomial_inversion(n, p)`: `a = (n as f64 + 1.) * s` (repair F45: `n + 1` was formed in `u64`), start term
`(n as f64 * (-p).ln_1p()).exp()` (repairs F41/F46: it was `(1. - p).powi(n as i32)`, which wrapped `n ≥ 2³¹` and lost
`p < 2⁻⁵³`). -/
def inversion (fuel : Nat) (n : Nat) (p : α) (g : Rng) : Option (Nat × Rng) :=
  let s := p / (1 - p)
  let a := ((n : α) + 1) * s
  let r := Transc.exp ((n : α) * Log1p.log1p (-p))
  let (u, g) := g.f64 (α := α)
  (invLoop a s fuel u r 0).map fun x => (x, g)

/-- constants of BTPE step 0 -/
structure Btpe (α : Type) where
  nf : α
  r : α
  q : α
  nrq : α
  m : α
  p1 : α
  xm : α
  xl : α
  xr : α
  c : α
  ll : α
  lr : α
  p2 : α
  p3 : α
  p4 : α
  s : α
  a : α

def lam (x : α) : α := x * (1 + x / ((2 : Nat) : α))

def btpeSetup (n : Nat) (p : α) : Btpe α :=
  let nf : α := (n : α)
  let r := if p ≤ halfC then p else 1 - p
  let q := 1 - r
  let nrq := nf * r * q
  let fm := nf * r + r
  let m := Transc.floor fm
  let p1 := Transc.floor (ofLit C03T.btpeP1a * Transc.sqrt nrq - ofLit C03T.btpeP1b * q) + halfC
  let xm := m + halfC
  let xl := xm - p1
  let xr := xm + p1
  let c := ofLit C03T.btpeC0 + ofLit C03T.btpeC1 / (ofLit C03T.btpeC2 + m)
  let ll := lam ((fm - xl) / (fm - xl * r))
  let lr := lam ((xr - fm) / (xr * q))
  let p2 := p1 * (1 + ((2 : Nat) : α) * c)
  let p3 := p2 + c / ll
  let p4 := p3 + c / lr
  let s := p / q
  { nf, r, q, nrq, m, p1, xm, xl, xr, c, ll, lr, p2, p3, p4, s, a := s * ((n : α) + 1) }

/-- step 5.1, upward: `loop { i += 1.; f *= a / i - s; if (i - y).abs() < EPSILON { break } }` -/
def upLoop (a s y : α) : Nat → α → α → Option α
  | 0, _, _ => none
  | fuel + 1, i, f =>
    let i := i + 1
    let f := f * (a / i - s)
    if Transc.abs (i - y) < epsC then some f else upLoop a s y fuel i f

/-- step 5.1, downward: `loop { i += 1.; f /= a / i - s; if (i - m).abs() < EPSILON { break } }` -/
def downLoop (a s m : α) : Nat → α → α → Option α
  | 0, _, _ => none
  | fuel + 1, i, f =>
    let i := i + 1
    let f := f / (a / i - s)
    if Transc.abs (i - m) < epsC then some f else downLoop a s m fuel i f

/-- `f(y)/f(m)` by the recurrence (step 5.1). -/
def ratio (c : Btpe α) (fuel : Nat) (y : α) : Option α :=
  if c.m < y then upLoop c.a c.s y fuel c.m 1
  else if y < c.m then downLoop c.a c.s c.m fuel y 1
  else some 1

/-- Stirling correction of step 5.3 -/
def stirling (x : α) : α :=
  let x2 := x * x
  (((13860 : Nat) : α) - (((462 : Nat) : α) - (((132 : Nat) : α) - (((99 : Nat) : α) - ((140 : Nat) : α) / x2) / x2) / x2) / x2)
    / x / ((166320 : Nat) : α)

/-- right-hand side of the final comparison of step 5.3 -/
def bound53 (c : Btpe α) (y : α) : α :=
  let x1 := y + 1
  let f1 := c.m + 1
  let z := c.nf + 1 - c.m
  let w := c.nf - y + 1
  c.xm * Transc.ln (f1 / x1) + (c.nf - c.m + halfC) * Transc.ln (z / w)
    + (y - c.m) * Transc.ln (w * c.r / (x1 * c.q)) + stirling f1 + stirling z + stirling x1 + stirling w

/-- outcome of steps 1–4 of one iteration -/
inductive Region (α : Type) where
  | accept (y : α)         -- triangle: go to step 6
  | retry                  -- go to step 1
  | test (y v : α)         -- go to step 5

/-- steps 1–4 for the draws `u ∈ [0, p4)`, `v ∈ [0,1)`. `!(u > p1)` etc. mirror the `partial_cmp` matches
(NaN counts as "not greater"). -/
def region (c : Btpe α) (u v : α) : Region α :=
  if ¬ (c.p1 < u) then .accept (Transc.floor (c.xm - c.p1 * v + u))
  else if ¬ (c.p2 < u) then
    let x := c.xl + (u - c.p1) / c.c
    let v := v * c.c + 1 - Transc.abs (c.m - x + halfC) / c.p1
    if 1 < v then .retry else .test (Transc.floor x) v
  else if ¬ (c.p3 < u) then
    let y := Transc.floor (c.xl + Transc.ln v / c.ll)
    if y < 0 then .retry else .test y (v * ((u - c.p2) * c.ll))
  else
    let y := Transc.floor (c.xr - Transc.ln v / c.lr)
    if c.nf < y then .retry else .test y (v * ((u - c.p3) * c.lr))

/-- step 5: `some true` accept, `some false` reject, `none` inner loop out of fuel -/
def step5 (c : Btpe α) (ifuel : Nat) (y v : α) : Option Bool :=
  let k := Transc.abs (y - c.m)
  if ¬ (((20 : Nat) : α) < k ∧ k < halfC * c.nrq - 1) then
    (ratio c ifuel y).map fun f => !decide (f < v)
  else
    let rho := (k / c.nrq) * ((k * (k / ((3 : Nat) : α) + ofLit C03T.btpeRho) + 1 / ((6 : Nat) : α)) / c.nrq + halfC)
    let t := -k * k / (((2 : Nat) : α) * c.nrq)
    let biga := Transc.ln v
    if biga < t - rho then some true
    else if t + rho < biga then some false
    else some (!decide (bound53 c y < biga))

def btpeLoop (c : Btpe α) (ifuel : Nat) : Nat → Rng → Option (α × Rng)
  | 0, _ => none
  | fuel + 1, g =>
    let (u, g) := UniformF.sample (0 : α) c.p4 g
    let (v, g) := UniformF.sample (0 : α) 1 g
    match region c u v with
    | .accept y => some (y, g)
    | .retry => btpeLoop c ifuel fuel g
    | .test y v =>
      match step5 c ifuel y v with
      | none => none
      | some true => some (y, g)
      | some false => btpeLoop c ifuel fuel g

/-- `binomial_btpe(n, p)`; `Uniform::new(0., p4)` panics when `0 > p4`. -/
def btpe (fuel ifuel : Nat) (n : Nat) (p : α) (g : Rng) : Option (Nat × Rng) :=
  let c := btpeSetup n p
  if c.p4 < 0 then none
  else
    match btpeLoop c ifuel fuel g with
    | none => none
    | some (y, g) =>
      let y := if halfC < p then c.nf - y else y
      some (ToU64.toU64 y, g)

/-- `Binomial::sample`. -/
def sample (fuel ifuel : Nat) (n : Nat) (p : α) (g : Rng) : Option (α × Rng) :=
  if n = 0 ∨ ¬ (p < 0 ∨ 0 < p) then some (0, g)
  else if Transc.abs (p - 1) ≤ epsC then some ((n : α), g)
  else
    let switch := decide (halfC < p)
    let p' := if switch then 1 - p else p
    let res := if p' * (n : α) ≤ ((30 : Nat) : α) then inversion fuel n p' g else btpe fuel ifuel n p' g
    match res with
    | none => none
    | some (r, g) =>
      if switch then (if r ≤ n then some (((n - r : Nat) : α), g) else none)
      else some ((r : α), g)

end Binomial

/-! ## Inverse-CDF samplers (repair F53: a uniform draw of exactly 0 is redrawn) -/

namespace Exponential
def valid (lambda : α) : Bool := !decide (lambda ≤ 0)
/-- the formula after the redraw loop: `-u.ln() / self.lambda` -/
def ofU (lambda u : α) : α := -(Transc.ln u) / lambda
/-- `let mut u = self.rng.sample(); while u == 0. { u = self.rng.sample(); } -u.ln() / self.lambda`, `rng = Uniform(0,1)` -/
def sample (fuel : Nat) (lambda : α) (g : Rng) : Option (α × Rng) :=
  (redrawNonzero (UniformF.sample (0 : α) 1) fuel g).map fun r => (ofU lambda r.1, r.2)
end Exponential

namespace Gumbel
def valid (beta : α) : Bool := !decide (beta ≤ 0)
/-- the formula after the redraw loop: `self.mu - self.beta * (-u.ln()).ln()` -/
def ofU (mu beta u : α) : α := mu - beta * Transc.ln (-(Transc.ln u))
/-- `let mut u = self.uniform_gen.sample(); while u == 0. { … } self.mu - self.beta * (-u.ln()).ln()` -/
def sample (fuel : Nat) (mu beta : α) (g : Rng) : Option (α × Rng) :=
  (redrawNonzero (UniformF.sample (0 : α) 1) fuel g).map fun r => (ofU mu beta r.1, r.2)
end Gumbel

namespace Pareto
def valid (alpha minval : α) : Bool := !(decide (alpha ≤ 0) || decide (minval ≤ 0))
/-- the formula after the redraw loop: `self.minval / u.powf(1. / self.alpha)` -/
def ofU (alpha minval u : α) : α := minval / Transc.pow u (1 / alpha)
/-- `let mut u = alea::f64(); while u == 0. { u = alea::f64(); } self.minval / u.powf(1. / self.alpha)` -/
def sample (fuel : Nat) (alpha minval : α) (g : Rng) : Option (α × Rng) :=
  (redrawNonzero (fun g => g.f64 (α := α)) fuel g).map fun r => (ofU alpha minval r.1, r.2)
end Pareto

namespace Bernoulli
def valid (p : α) : Bool := decide (0 ≤ p) && decide (p ≤ 1)
/-- `Bernoulli::sample`: no draw at `p ∈ {0, 1}`; otherwise `1` iff `p > alea::f64()`. -/
def sample (p : α) (g : Rng) : α × Rng :=
  if ¬ (p < 1 ∨ 1 < p) then (1, g)
  else if ¬ (p < 0 ∨ 0 < p) then (0, g)
  else
    let (u, g) := g.f64 (α := α)
    (if u < p then 1 else 0, g)
end Bernoulli

/-! ## Bulk sampling (`Distribution1D::sample_n`, `sample_matrix`) -/

/-- `(0..n).map(|_| self.sample()).collect()` -/
def sampleN (f : Rng → Option (α × Rng)) (n : Nat) (g : Rng) : Option (List α × Rng) := Rng.drawN? f n g

/-- `Matrix::new(self.sample_n(nrows * ncols), nrows as i32, ncols as i32)` -/
def sampleMatrix (f : Rng → Option (α × Rng)) (nrows ncols : Nat) (g : Rng) : Option (Mat α × Rng) :=
  match sampleN f (nrows * ncols) g with
  | none => none
  | some (d, g) =>
    match LA.M.new d nrows ncols with
    | none => none
    | some m => some (m, g)

/-- lift a total sampler -/
def total (f : Rng → α × Rng) : Rng → Option (α × Rng) := fun g => some (f g)

end

/-! ## Multivariate normal -/
namespace MVN
section
variable {α : Type} [Add α] [Sub α] [Mul α] [Div α] [Neg α] [Zero α] [One α] [NatCast α]
  [LT α] [DecidableLT α] [LE α] [DecidableLE α] [BEq α] [Transc α] [OfLit α] [Log1p α] [ToU64 α] [FiniteTest α] [Inhabited α]

/-- the fields of the struct that sampling reads -/
structure Dist (α : Type) where
  mean : List α
  chol : Mat α

/-- `MVN::new(mean, cov)`: asserts symmetry and matching dimension, then computes the Cholesky factor, the
inverse and the determinant (each may panic). -/
def new (mean : List α) (cov : Mat α) : Option (Dist α) :=
  if !LA.M.isSymmetric cov then none
  else if mean.length ≠ cov.ncols then none
  else do
    let l ← LA.M.cholesky cov
    let _ ← LA.M.inv cov
    let _ ← LA.M.det cov
    pure ⟨mean, l⟩

/-- `&Vector + Vector` (asserts equal lengths) -/
def vadd (x y : List α) : Option (List α) :=
  if x.length = y.length then some (List.zipWith (· + ·) x y) else none

/-- `MVN::sample`: `z = Normal::default().sample_n(dim)`; `&mean + L.dot(z)`. -/
def sample (fuel : Nat) (d : Dist α) (g : Rng) : Option (List α × Rng) :=
  match sampleN (Normal.sample fuel (0 : α) 1) d.mean.length g with
  | none => none
  | some (z, g) =>
    match DotT.dotMV .dot d.chol z with
    | none => none
    | some lz => (vadd d.mean lz).map fun x => (x, g)

/-- `DistributionND::sample_n`: `n` draws appended row by row, then `Matrix::new(data, n, dim)`. -/
def sampleN (fuel : Nat) (d : Dist α) (n : Nat) (g : Rng) : Option (Mat α × Rng) :=
  match Rng.drawN? (sample fuel d) n g with
  | none => none
  | some (rows, g) =>
    match LA.M.new rows.flatten n d.mean.length with
    | none => none
    | some m => some (m, g)

end
end MVN

end Cv
