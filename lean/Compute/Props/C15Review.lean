import Compute.Props.C15
import Compute.Model.MatrixLinalg
import Compute.Model.Decomp
import Compute.Model.Timeseries
set_option linter.unusedSectionVars false
/-
C15 — additions after the independent review:

* Matrix-level `close_to` never equates values of opposite sign (the vector statement lifted);
* the hand models that C11 / C13 carry of functions C15 also models are THE SAME functions:
  `Cv.TS.toeplitz = Cv.Ctor.toeplitz`, `Cv.LA.isSquare = Cv.Ctor.isSquareLen`,
  `Cv.LA.M.isUpperTriangular m = some (Cv.Shape.isUpperTriangular m)` on every well-formed matrix
  (so the `Option` of the C11 model never is `none` there: no panic since F38);
* a rotation instance with a non-trivial Pythagorean pair `(c, s) = (3/5, 4/5)`.
-/
namespace Cv.C15
open Cv Cv.Mat Cv.Shape Cv.Ctor Cv.Rot
variable {α : Type}

/-! ## Matrix-level comparisons -/
section cmp
variable [Field α] [LinearOrder α] [IsStrictOrderedRing α] [HasAbs α] [Inhabited α]

/-- **C15 (Matrix::close_to never equates values of opposite sign).** -/
theorem closeTo_never_opposite_sign (m o : Mat α) (tol : α) (h : closeTo m o tol = true)
    (k : Nat) (h1 : k < m.data.length) (h2 : k < o.data.length) :
    m.nrows = o.nrows ∧ m.ncols = o.ncols ∧
      ¬ (m.data[k] < 0 ∧ 0 < o.data[k]) ∧ ¬ (0 < m.data[k] ∧ o.data[k] < 0) := by
  obtain ⟨hr, hc, hv⟩ := (closeTo_iff m o tol).mp h
  exact ⟨hr, hc, vecCloseTo_never_opposite_sign m.data o.data tol hv k h1 h2⟩

/-- **Reading adopted for the absolute-ε `PartialEq`.** It DOES equate values of opposite sign when both lie
within `ε` of zero (e.g. `1e-17 == -1e-17`): that is its definition `|a − b| ≤ ε`; what is proved is that this
is the only way (`vecEq_opposite_sign`).  Witness of the literal reading failing, over `ℚ`: -/
example : vecEq (1 / 4503599627370496 : ℚ) [1 / 100000000000000000] [-1 / 100000000000000000] = true := by
  rw [vecEq_iff (fun _ => rfl)]
  refine ⟨rfl, ?_⟩
  intro p hp
  simp at hp
  subst hp
  norm_num [abs_le]

end cmp

/-! ## the duplicated hand models are the same functions -/

/-- C13's `toeplitz` and C15's are the same definition. -/
theorem toeplitz_models_agree [Inhabited α] (x : List α) : Cv.TS.toeplitz x = Cv.Ctor.toeplitz x := rfl

theorem LA_isSquare_iff (len n : Nat) : Cv.LA.isSquare len = some n ↔ n * n = len := by
  unfold Cv.LA.isSquare
  constructor
  · intro h
    have := List.find?_some h
    simpa using this
  · intro h
    have hle : n ≤ len := by
      rcases Nat.eq_zero_or_pos n with h0 | h0
      · omega
      · calc n = n * 1 := by omega
          _ ≤ n * n := Nat.mul_le_mul_left n h0
          _ = len := h
    have hmem : n ∈ List.range (len + 1) := List.mem_range.mpr (by omega)
    cases hf : (List.range (len + 1)).find? (fun n => n * n == len) with
    | none =>
      have := List.find?_eq_none.mp hf n hmem
      simp [h] at this
    | some k =>
      have hk : k * k = len := by simpa using List.find?_some hf
      have : k = n := Nat.mul_self_inj.mp (hk.trans h.symm)
      rw [this]

/-- C11's slice-level `is_square` (first `n` with `n·n = len`) and C15's (`Nat.sqrt`) are the same function. -/
theorem isSquare_models_agree (len : Nat) : Cv.LA.isSquare len = Cv.Ctor.isSquareLen len := by
  apply Option.ext
  intro n
  rw [LA_isSquare_iff, isSquareLen_iff]

section tri
variable [Add α] [Sub α] [Mul α] [Div α] [Neg α] [Zero α] [One α] [NatCast α]
  [LT α] [DecidableLT α] [LE α] [DecidableLE α] [BEq α] [Transc α] [Inhabited α]

theorem triScan_eq_all (m : Mat α) (cells : List (Nat × Nat)) (h : ∀ p ∈ cells, p.2 < m.ncols) :
    Cv.LA.M.triScan m cells = some (cells.all fun p => Cv.LA.M.g m p.1 p.2 == 0) := by
  induction cells with
  | nil => rfl
  | cons p rest ih =>
    obtain ⟨i, j⟩ := p
    have hj : ¬ m.ncols ≤ j := Nat.not_le.mpr (h (i, j) (by simp))
    have ih' := ih (fun q hq => h q (by simp [hq]))
    unfold Cv.LA.M.triScan
    rw [if_neg hj]
    cases hz : (Cv.LA.M.g m i j == 0) <;> simp [bne, hz, ih', List.all_cons]

/-- C11's sequential `is_upper_triangular` (`Option Bool`, a read outside the row would be a panic) and C15's
(`Bool`) agree on every well-formed matrix; in particular the C11 model never panics there (F38). -/
theorem isUpperTriangular_models_agree (m : Mat α) (hm : m.WF) :
    Cv.LA.M.isUpperTriangular m = some (Cv.Shape.isUpperTriangular m) := by
  unfold Cv.LA.M.isUpperTriangular
  rw [triScan_eq_all]
  · congr 1
    have hg : ∀ i j, i < m.nrows → j < min i m.ncols → Cv.LA.M.g m i j = m.get i j := by
      intro i j hi hj
      have hk : i * m.ncols + j < m.data.length := by
        rw [hm]; exact idx_lt hi (by omega)
      simp only [Cv.LA.M.g, Cv.LA.rd, Mat.get]
      rw [getBang hk]; simp [List.getD, List.getElem?_eq_getElem hk]
    apply Bool.eq_iff_iff.mpr
    simp only [Cv.Shape.isUpperTriangular, List.all_eq_true, List.mem_flatMap, List.mem_map, List.mem_range]
    constructor
    · intro H i hi j hj
      have := H (i, j) ⟨i, hi, j, hj, rfl⟩
      rwa [hg i j hi hj] at this
    · rintro H p ⟨i, hi, j, hj, rfl⟩
      have := H i hi j hj
      rwa [← hg i j hi hj] at this
  · intro p hp
    simp only [List.mem_flatMap, List.mem_map, List.mem_range] at hp
    obtain ⟨i, _, j, hj, rfl⟩ := hp
    omega

end tri

/-! ## a rotation with a non-trivial Pythagorean pair -/

/-- `(c, s) = (3/5, 4/5)`: the hypothesis `c² + s² = 1` holds, the clockwise z-rotation is the stated
matrix, and the general theorems apply to it. -/
example : (3 / 5 : ℚ) * (3 / 5) + (4 / 5) * (4 / 5) = 1 ∧
    cwCS (3 / 5 : ℚ) (4 / 5) Axis.Z = some ⟨[3 / 5, 4 / 5, 0, -(4 / 5), 3 / 5, 0, 0, 0, 1], 3, 3⟩ := by
  constructor
  · norm_num
  · rw [cwCS_eq]; rfl

theorem rot_three_five_instance (ax : Axis) (R : Mat ℚ)
    (hR : cwCS (3 / 5 : ℚ) (4 / 5) ax = some R ∨ ccwCS (3 / 5 : ℚ) (4 / 5) ax = some R) :
    (toMatrix3 R).transpose * toMatrix3 R = 1 ∧ (toMatrix3 R).det = 1 :=
  ⟨(rot_orthogonal _ _ (by norm_num) ax R hR).1, rot_det _ _ (by norm_num) ax R hR⟩

end Cv.C15
