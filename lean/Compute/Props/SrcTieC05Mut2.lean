import Compute.Model.Matmul
import Compute.Generated.SrcC05Mut2
import Compute.Props.SrcTieC05Mut
/-
Source tie for C05, fourth pass: `matmul` and `matmul_blocked` of `src/linalg/utils.rs` as WHOLE functions
(`Compute/Generated/SrcC05Mut2.lean`, regenerated from the Rust source on every run by `tools/rs2lean.py`, option `mut`; the
`#[cfg(feature = "blas")]` block is not compiled in with the crate's default features and is skipped, the
`#[cfg(not(feature = "blas"))]` block is the body).

Where the hand model (`Model/Matmul.lean`) is not syntactically the source:
* the model groups the two `is_matrix(..).unwrap()` and the `assert_eq!` on the inner dimensions as `matmulChecks`, the two
  conditional transposes as `maybeTranspose` (the source's `if t { transpose(x, r) } else { x.to_vec() }`, evaluated in `Option`:
  `maybeTranspose_src`) and the rest as `matmulBody`; its loops run on `Array`s (`mmLoop`, `mmBlockedLoop`; tied state by
  state through `toList`, as in SrcTieC05Mut);
* `matmul` is recursive in the source (both flags set) and the model unfolds that call: `matmul_eq` states that two
  unfoldings of the source's recursion, with ANY function at the third level, are the model (the inner call has both flags
  false and does not recurse: `matmul_body`);
* `matmul_blocked`: the `usize` divisions `n / bsize`, `l / bsize` in the loop headers panic for `bsize = 0`; the generated
  definition guards the loop nest once with `0 < bsize` (the inner header repeats a division by the same `bsize`), the model
  tests `bsize = 0` at the same place.
No algebra on the scalar is used.
-/
set_option linter.unusedSectionVars false
namespace Cv.SrcTie.C05Mut2

variable {α : Type} [Add α] [Sub α] [Mul α] [Div α] [Neg α] [Zero α] [One α] [NatCast α] [IntCast α]
  [LT α] [DecidableLT α] [LE α] [DecidableLE α] [BEq α] [Cv.Transc α] [Inhabited α]

open Cv

/-- `if t { transpose(x, rows) } else { x.to_vec() }` evaluated in `Option` is the model's `maybeTranspose`. -/
theorem maybeTranspose_src (x : List α) (rows : Nat) (t : Bool) :
    (if t = true then (Cv.transpose x rows).bind fun r => some r else some x) = maybeTranspose x rows t := by
  unfold maybeTranspose
  cases t
  · rfl
  · simp only [if_true, Option.bind_fun_some]

/-- Below the both-transposed shortcut the source is the model's checks followed by `matmulBody` (no recursion). -/
theorem matmul_body (R : List α → List α → Nat → Nat → Bool → Bool → Option (List α)) (a b : List α) (ra rb : Nat)
    (ta tb : Bool) (h : ¬ (ta = true ∧ tb = true)) :
    Cv.Src.C05Mut2.matmul R a b ra rb ta tb =
      (match matmulChecks a b ra rb ta tb with
       | none => none
       | some (ca, cb) => matmulBody a b ra ca rb cb ta tb) := by
  unfold Cv.Src.C05Mut2.matmul matmulChecks
  cases Cv.isMatrix a ra with
  | none => rfl
  | some ca =>
    cases Cv.isMatrix b rb with
    | none => rfl
    | some cb =>
      simp only [Option.bind_some]
      by_cases hc : (if ta = true then ra else ca) = (if tb = true then cb else rb)
      · rw [if_pos hc, if_pos hc, if_neg h]
        simp only [maybeTranspose_src]
        unfold matmulBody
        cases maybeTranspose a ra ta with
        | none => rfl
        | some a' =>
          cases maybeTranspose b rb tb with
          | none => rfl
          | some b' =>
            simp only [Option.bind_some]
            exact congrArg some (Cv.SrcTie.C05Mut.matmulLoops_eq a' b' _ _ _)
      · rw [if_neg hc, if_neg hc]

/-- With both flags set the source checks the shapes, recurses on the swapped operands and transposes the result. -/
theorem matmul_tt (R : List α → List α → Nat → Nat → Bool → Bool → Option (List α)) (a b : List α) (ra rb : Nat) :
    Cv.Src.C05Mut2.matmul R a b ra rb true true =
      (match matmulChecks a b ra rb true true with
       | none => none
       | some _ => (R b a rb ra false false).bind fun r => Cv.transpose r rb) := by
  unfold Cv.Src.C05Mut2.matmul matmulChecks
  cases Cv.isMatrix a ra with
  | none => rfl
  | some ca =>
    cases Cv.isMatrix b rb with
    | none => rfl
    | some cb =>
      simp only [Option.bind_some, if_true, and_self, Option.bind_fun_some]
      by_cases hc : ra = cb
      · rw [if_pos hc, if_pos hc]
      · rw [if_neg hc, if_neg hc]

/-- `matmul` as a whole function.  The source recurses once (both flags set: `transpose(&matmul(b, a, rows_b, rows_a, false,
false), rows_b)`), the model unfolds that call; so TWO unfoldings of the source's recursion, with ANY function `R` at the
third level, are the model: the inner call runs with both flags false and does not recurse. -/
theorem matmul_eq (R : List α → List α → Nat → Nat → Bool → Bool → Option (List α)) (a b : List α) (ra rb : Nat)
    (ta tb : Bool) :
    Cv.Src.C05Mut2.matmul (Cv.Src.C05Mut2.matmul R) a b ra rb ta tb = Cv.matmul a b ra rb ta tb := by
  by_cases h : ta = true ∧ tb = true
  · obtain ⟨h1, h2⟩ := h
    subst h1 h2
    rw [matmul_tt, matmul_body R b a rb ra false false (by simp)]
    unfold Cv.matmul
    cases matmulChecks a b ra rb true true with
    | none => rfl
    | some p =>
      simp only [Bool.and_self, if_true]
      cases matmulChecks b a rb ra false false with
      | none => rfl
      | some q =>
        obtain ⟨cb', ca'⟩ := q
        simp only
        cases matmulBody b a rb cb' ra ca' false false with
        | none => rfl
        | some r => rfl
  · rw [matmul_body _ a b ra rb ta tb h]
    unfold Cv.matmul
    cases matmulChecks a b ra rb ta tb with
    | none => rfl
    | some p =>
      obtain ⟨ca, cb⟩ := p
      have : (ta && tb) = false := by
        cases ta <;> cases tb <;> simp_all
      simp only [this, Bool.false_eq_true, if_false]

/-- The tile loops of `matmul_blocked`, started from the zero vector, are the model's `mmBlockedLoop`. -/
theorem blockedLoops_eq (a b : List α) (m l n bsize : Nat) :
    (List.range (n / bsize + 1)).foldl (fun (c : List α) jj =>
      (List.range (l / bsize + 1)).foldl (fun c kk =>
        (List.range m).foldl (fun c i =>
          (List.range' (kk * bsize) (min (kk * bsize + bsize) l - kk * bsize)).foldl (fun c k =>
            (List.range' (jj * bsize) (min (jj * bsize + bsize) n - jj * bsize)).foldl (fun c j =>
              c.set (i * n + j) (c[i * n + j]! + a[i * l + k]! * b[k * n + j]!)) c) c) c) c) (List.replicate (m * n) 0)
      = (Cv.mmBlockedLoop a.toArray b.toArray m l n bsize).toList := by
  unfold Cv.mmBlockedLoop
  refine Cv.SrcMut.foldl_rel (fun (cl : List α) (ca : Array α) => cl = ca.toList) _ _ ?_ _ _ _ (by simp)
  intro cl ca jj h
  refine Cv.SrcMut.foldl_rel (fun (cl : List α) (ca : Array α) => cl = ca.toList) _ _ ?_ _ _ _ h
  intro cl ca kk h
  refine Cv.SrcMut.foldl_rel (fun (cl : List α) (ca : Array α) => cl = ca.toList) _ _ ?_ _ _ _ h
  intro cl ca i h
  refine Cv.SrcMut.foldl_rel (fun (cl : List α) (ca : Array α) => cl = ca.toList) _ _ ?_ _ _ _ h
  intro cl ca k h
  refine Cv.SrcMut.foldl_rel (fun (cl : List α) (ca : Array α) => cl = ca.toList) _ _ ?_ _ _ _ h
  intro cl ca j h
  subst h
  rw [Cv.SrcTie.C05Mut.toList_modify_eq_set, List.getElem!_toArray, List.getElem!_toArray]

/-- `matmul_blocked` as a whole function (`bsize = 0`: the division `n / bsize` of the first loop header panics). -/
theorem matmulBlocked_eq (a b : List α) (ra rb : Nat) (ta tb : Bool) (bsize : Nat) :
    Cv.Src.C05Mut2.matmulBlocked a b ra rb ta tb bsize = Cv.matmulBlocked a b ra rb ta tb bsize := by
  unfold Cv.Src.C05Mut2.matmulBlocked Cv.matmulBlocked matmulChecks
  cases Cv.isMatrix a ra with
  | none => rfl
  | some ca =>
    cases Cv.isMatrix b rb with
    | none => rfl
    | some cb =>
      simp only [Option.bind_some]
      by_cases hc : (if ta = true then ra else ca) = (if tb = true then cb else rb)
      · rw [if_pos hc, if_pos hc]
        simp only [maybeTranspose_src]
        cases maybeTranspose a ra ta with
        | none => rfl
        | some a' =>
          cases maybeTranspose b rb tb with
          | none => rfl
          | some b' =>
            simp only [Option.bind_some]
            by_cases hb : bsize = 0
            · rw [if_neg (by omega), if_pos hb]
            · rw [if_pos (by omega), if_neg hb]
              exact congrArg some (blockedLoops_eq a' b' _ _ _ _)
      · rw [if_neg hc, if_neg hc]

end Cv.SrcTie.C05Mut2
