//! C06 executor: `GLM::fit` and the inference accessors of the real `compute` crate.
//! Request:
//!   `glm <family> n p <x: n*p> <y: n> <0 | 1 len w…> <0 | 1 len off…> alpha tol maxiter`
//! Reply:
//!   `= <ok:0|1> <coef vec> <deviance> <dispersion|P> <covariance vec|P> <std errors vec|P>
//!      <predict(x) vec|P> <aic> <bic> <score(x,y)|P>`   (`P` = that accessor panicked), `! panic` when `fit` panics.
use compute::predict::{ExponentialFamily, GLM};
use cvexec::*;
use std::panic::{catch_unwind, AssertUnwindSafe};

fn family(s: &str) -> R<ExponentialFamily> {
    Ok(match s {
        "gaussian" => ExponentialFamily::Gaussian,
        "bernoulli" => ExponentialFamily::Bernoulli,
        "quasipoisson" => ExponentialFamily::QuasiPoisson,
        "poisson" => ExponentialFamily::Poisson,
        "gamma" => ExponentialFamily::Gamma,
        "exponential" => ExponentialFamily::Exponential,
        _ => return Err(BadOp),
    })
}

fn opt_vec(t: &mut Toks) -> R<Option<Vec<f64>>> {
    match t.usize()? {
        0 => Ok(None),
        _ => Ok(Some(t.vec()?)),
    }
}

fn guarded<T>(f: impl FnOnce() -> T) -> Option<T> {
    catch_unwind(AssertUnwindSafe(f)).ok()
}

fn show_opt_vec(v: Option<Vec<f64>>) -> String {
    match v {
        Some(v) => show_vec(&v),
        None => "P".to_string(),
    }
}

struct Prob {
    x: Vec<f64>,
    y: Vec<f64>,
    w: Option<Vec<f64>>,
    off: Option<Vec<f64>>,
}

fn problem(t: &mut Toks) -> R<Prob> {
    let (n, p) = (t.usize()?, t.usize()?);
    let x = t.f64s(n * p)?;
    let y = t.f64s(n)?;
    let w = opt_vec(t)?;
    let off = opt_vec(t)?;
    Ok(Prob { x, y, w, off })
}

fn fit(glm: &mut GLM, pr: &Prob, max_iter: usize) -> bool {
    if let Some(w) = &pr.w {
        glm.set_weights(w);
    }
    if let Some(o) = &pr.off {
        glm.set_offset(o);
    }
    glm.fit(&pr.x, &pr.y, max_iter).is_ok()
}

fn report(glm: &GLM, okflag: bool, pr: &Prob) -> String {
    let coef = glm.coef().unwrap().to_vec();
    let dev = glm.deviance().unwrap();
    let disp = match guarded(|| glm.dispersion().unwrap()) {
        Some(d) => show_f(d),
        None => "P".to_string(),
    };
    let cov = guarded(|| glm.coef_covariance_matrix().unwrap());
    let se = guarded(|| glm.coef_standard_error().unwrap().to_vec());
    let pred = guarded(|| glm.predict(&pr.x).unwrap().to_vec());
    let aic = glm.aic().unwrap();
    let bic = glm.bic().unwrap();
    let score = match guarded(|| glm.score(&pr.x, &pr.y)) {
        Some(d) => show_f(d),
        None => "P".to_string(),
    };
    ok(format!(
        "{} {} {} {} {} {} {} {} {} {}",
        show_bool(okflag),
        show_vec(&coef),
        show_f(dev),
        disp,
        show_opt_vec(cov),
        show_opt_vec(se),
        show_opt_vec(pred),
        show_f(aic),
        show_f(bic),
        score
    ))
}

fn step(_: &mut (), t: &mut Toks) -> R<String> {
    match t.tok()? {
        "glm" => {
            let fam = family(t.tok()?)?;
            let pr = problem(t)?;
            let (alpha, tol) = (t.f64()?, t.f64()?);
            let max_iter = t.usize()?;
            t.end()?;
            let mut glm = GLM::new(fam);
            glm.set_penalty(alpha).set_tolerance(tol);
            let okflag = fit(&mut glm, &pr, max_iter);
            Ok(report(&glm, okflag, &pr))
        }
        // one GLM object fitted twice (stale state): reply for the second fit
        "glm2" => {
            let fam = family(t.tok()?)?;
            let (alpha, tol) = (t.f64()?, t.f64()?);
            let max_iter = t.usize()?;
            let p1 = problem(t)?;
            let p2 = problem(t)?;
            t.end()?;
            let mut glm = GLM::new(fam);
            glm.set_penalty(alpha).set_tolerance(tol);
            let _ = fit(&mut glm, &p1, max_iter);
            let okflag = fit(&mut glm, &p2, max_iter);
            Ok(report(&glm, okflag, &p2))
        }
        // set_coef in the four positions of the object's life cycle (see Drv/C06.lean)
        "setcoef" => {
            let fam = family(t.tok()?)?;
            let mode = t.usize()?;
            let (alpha, tol) = (t.f64()?, t.f64()?);
            let max_iter = t.usize()?;
            let c = t.vec()?;
            let p1 = problem(t)?;
            let p2 = if mode == 2 { Some(problem(t)?) } else { None };
            t.end()?;
            let mut glm = GLM::new(fam);
            glm.set_penalty(alpha).set_tolerance(tol);
            match mode {
                0 => {
                    let okflag = fit(&mut glm, &p1, max_iter);
                    glm.set_coef(&c);
                    Ok(report(&glm, okflag, &p1))
                }
                1 => {
                    glm.set_coef(&c);
                    let coef = glm.coef().unwrap().to_vec();
                    let dev = match guarded(|| glm.deviance().unwrap()) {
                        Some(d) => show_f(d),
                        None => "P".to_string(),
                    };
                    let pred = guarded(|| glm.predict(&p1.x).unwrap().to_vec());
                    Ok(ok(format!("{} {} {}", show_vec(&coef), dev, show_opt_vec(pred))))
                }
                2 => {
                    let p2 = p2.unwrap();
                    let _ = fit(&mut glm, &p1, max_iter);
                    glm.set_coef(&c);
                    let okflag = fit(&mut glm, &p2, max_iter);
                    Ok(report(&glm, okflag, &p2))
                }
                3 => {
                    glm.set_coef(&c);
                    let okflag = fit(&mut glm, &p1, max_iter);
                    Ok(report(&glm, okflag, &p1))
                }
                _ => Err(BadOp),
            }
        }
        // object history: k times (set_penalty, set_tolerance, [set_weights], [set_offset], [set_coef], fit) on ONE object;
        // the accessor report after every fit, joined by ` ; `
        "hist" => {
            let fam = family(t.tok()?)?;
            let k = t.usize()?;
            let mut steps = Vec::new();
            for _ in 0..k {
                let (alpha, tol) = (t.f64()?, t.f64()?);
                let max_iter = t.usize()?;
                let c = opt_vec(t)?;
                let pr = problem(t)?;
                steps.push((alpha, tol, max_iter, c, pr));
            }
            t.end()?;
            let mut glm = GLM::new(fam);
            let mut reps = Vec::new();
            for (alpha, tol, max_iter, c, pr) in &steps {
                glm.set_penalty(*alpha).set_tolerance(*tol);
                if let Some(c) = c {
                    glm.set_coef(c);
                }
                let okflag = fit(&mut glm, pr, *max_iter);
                let r = report(&glm, okflag, pr);
                reps.push(r[2..].to_string());
            }
            Ok(ok(reps.join(" ; ")))
        }
        // object history with READS between the fits and no forced setter (see Drv/C06.lean `hist2`)
        "hist2" => {
            let fam = family(t.tok()?)?;
            let k = t.usize()?;
            enum H {
                Fit(usize, f64, f64, usize, Prob),
                Read,
                SetP(f64),
                SetT(f64),
                SetW(Vec<f64>),
                SetO(Vec<f64>),
                SetC(Vec<f64>),
            }
            let mut steps = Vec::new();
            for _ in 0..k {
                steps.push(match t.tok()? {
                    "F" => {
                        let mode = t.usize()?;
                        let (a, tl) = (t.f64()?, t.f64()?);
                        let mi = t.usize()?;
                        H::Fit(mode, a, tl, mi, problem(t)?)
                    }
                    "R" => H::Read,
                    "SP" => H::SetP(t.f64()?),
                    "ST" => H::SetT(t.f64()?),
                    "SW" => H::SetW(t.vec()?),
                    "SO" => H::SetO(t.vec()?),
                    "SC" => H::SetC(t.vec()?),
                    _ => return Err(BadOp),
                });
            }
            t.end()?;
            let mut glm = GLM::new(fam);
            let mut reps: Vec<String> = Vec::new();
            let mut last: Option<(&Prob, bool)> = None;
            for st in &steps {
                match st {
                    H::Fit(mode, a, tl, mi, pr) => {
                        match mode {
                            0 => {}
                            1 => {
                                glm.set_penalty(*a).set_tolerance(*tl);
                            }
                            _ => {
                                glm.alpha = *a;
                                glm.tolerance = *tl;
                            }
                        }
                        if let Some(w) = &pr.w {
                            if *mode == 2 {
                                glm.weights = Some(w.clone());
                            } else {
                                glm.set_weights(w);
                            }
                        }
                        if let Some(o) = &pr.off {
                            glm.set_offset(o);
                        }
                        let okflag = glm.fit(&pr.x, &pr.y, *mi).is_ok();
                        last = Some((pr, okflag));
                    }
                    H::Read => {
                        let (pr, okflag) = last.expect("read before any fit");
                        let r = report(&glm, okflag, pr);
                        reps.push(r[2..].to_string());
                    }
                    H::SetP(a) => {
                        glm.set_penalty(*a);
                    }
                    H::SetT(a) => {
                        glm.set_tolerance(*a);
                    }
                    H::SetW(v) => {
                        glm.set_weights(v);
                    }
                    H::SetO(v) => {
                        glm.set_offset(v);
                    }
                    H::SetC(v) => {
                        glm.set_coef(v);
                    }
                }
            }
            Ok(ok(reps.join(" ; ")))
        }
        // the methods of ExponentialFamily, called directly
        "fam" => {
            let fam = family(t.tok()?)?;
            let meth = t.tok()?;
            let r = match meth {
                "has_dispersion" => show_bool(fam.has_dispersion()).to_string(),
                "variance" => {
                    let mu = t.vec()?;
                    t.end()?;
                    show_vec(&fam.variance(&mu))
                }
                "inv_link" => {
                    let eta = t.vec()?;
                    t.end()?;
                    show_vec(&fam.inv_link(&eta))
                }
                "d_inv_link" => {
                    let eta = t.vec()?;
                    let mu = t.vec()?;
                    t.end()?;
                    show_vec(&fam.d_inv_link(&eta, &mu))
                }
                "deviance" => {
                    let y = t.vec()?;
                    let mu = t.vec()?;
                    t.end()?;
                    show_f(fam.deviance(&y, &mu))
                }
                "penalized_deviance" => {
                    let y = t.vec()?;
                    let mu = t.vec()?;
                    let alpha = t.f64()?;
                    let coef = t.vec()?;
                    t.end()?;
                    show_f(fam.penalized_deviance(&y, &mu, alpha, &coef))
                }
                "iwr" => {
                    let y = t.vec()?;
                    t.end()?;
                    match fam.initial_working_response(&y) {
                        Some(v) => show_vec(&v),
                        None => "none".to_string(),
                    }
                }
                "iww" => {
                    let y = t.vec()?;
                    t.end()?;
                    match fam.initial_working_weights(&y) {
                        Some(v) => show_vec(&v),
                        None => "none".to_string(),
                    }
                }
                _ => return Err(BadOp),
            };
            t.end()?;
            Ok(ok(r))
        }
        _ => Err(BadOp),
    }
}

fn main() {
    run((), step);
}
