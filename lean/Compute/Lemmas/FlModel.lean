import Compute.Model.Kernels
import Mathlib.Data.Real.Basic
import Mathlib.Algebra.Order.Field.Basic
import Mathlib.Algebra.BigOperators.Group.List.Basic
import Mathlib.Tactic.Ring
import Mathlib.Tactic.Linarith
import Mathlib.Tactic.Positivity
import Mathlib.Tactic.FieldSimp
/-
The standard model of floating-point arithmetic (Higham, "Accuracy and Stability of Numerical
Algorithms", 2nd ed., §2.2, eq. (2.4)) as a scalar type at which the scalar-polymorphic executable
models of `Compute/Model/*` can be instantiated *unchanged*.

* `FlModel`  — an abstract rounding function `rnd : ℝ → ℝ` with unit roundoff `u`, `0 ≤ u < 1`, and
  the standard model `∀ x, ∃ δ, |δ| ≤ u ∧ rnd x = x·(1+δ)`  (no underflow / overflow).
  TRUSTED LINK (stated, not proved): IEEE-754 binary64 round-to-nearest satisfies this with
  `u = 2⁻⁵³` whenever no operation overflows or produces a subnormal — Higham Thm 2.2.
* `Fl M`     — a wrapper around `ℝ` whose `+ - * /` are `rnd (a + b)` …; `0`, `1`, negation exact,
  `Nat` casts rounded.  `Cv.sum8 (x : List (Fl M))` is therefore literally the model term of
  `Model/Kernels.lean`, evaluated in rounded arithmetic with the association of the source.
* the `γ` calculus: `M.γ k = k·u/(1 − k·u)`; `M.Fac k f` ("`f` is a product of `k` factors
  `(1+δ)^{±1}`", expressed as the interval `(1−u)^k ≤ f ≤ (1−u)^{-k}`), closed under products and
  inverses, with `|f − 1| ≤ γ_k` — Higham Lemma 3.1 (`higham_lemma_3_1`) and Lemma 3.3.
* `M.Pert k v xs` — `v = Σ xsᵢ·fᵢ` with `Fac k fᵢ`: the shape of every forward/backward error result
  for sums; `Pert.error` turns it into `|v − Σ xs| ≤ γ_k·Σ|xs|`.
* concrete models (non-vacuity): `FlModel.exact` (`rnd = id`), `FlModel.inflate c` (every result
  times `1+c`), `FlModel.bump p c` (idempotent, one point off the grid).
-/
namespace Cv

/-- The standard model of floating-point arithmetic. -/
structure FlModel where
  /-- rounding to the floating-point grid -/
  rnd : ℝ → ℝ
  /-- unit roundoff -/
  u : ℝ
  u_nonneg : 0 ≤ u
  u_lt_one : u < 1
  /-- `fl(x) = x(1+δ)`, `|δ| ≤ u` -/
  std : ∀ x : ℝ, ∃ δ : ℝ, |δ| ≤ u ∧ rnd x = x * (1 + δ)

namespace FlModel
variable (M : FlModel)

theorem rnd_zero : M.rnd 0 = 0 := by
  obtain ⟨δ, _, h⟩ := M.std 0
  simpa using h

/-- representable numbers round to themselves (any rounding *function onto a grid* has this; it is
only assumed by the refined constants `γ_{n-1}` / `γ_n`, never by the base theorems) -/
def Idem : Prop := ∀ y : ℝ, M.rnd (M.rnd y) = M.rnd y

/-- `γ_k = k·u / (1 − k·u)` -/
noncomputable def γ (k : Nat) : ℝ := k * M.u / (1 - k * M.u)

theorem one_sub_u_pos : 0 < 1 - M.u := by linarith [M.u_lt_one]
theorem one_sub_u_le_one : 1 - M.u ≤ 1 := by linarith [M.u_nonneg]

theorem pow_pos' (k : Nat) : 0 < (1 - M.u) ^ k := pow_pos M.one_sub_u_pos k
theorem pow_le_one'' (k : Nat) : (1 - M.u) ^ k ≤ 1 :=
  pow_le_one₀ M.one_sub_u_pos.le M.one_sub_u_le_one

/-- Bernoulli: `1 − k·u ≤ (1−u)^k` -/
theorem bernoulli (k : Nat) : 1 - k * M.u ≤ (1 - M.u) ^ k := by
  induction k with
  | zero => simp
  | succ k ih =>
    have h1 := M.one_sub_u_pos
    have h2 := M.u_nonneg
    have : (1 - (k : ℝ) * M.u) * (1 - M.u) ≤ (1 - M.u) ^ k * (1 - M.u) :=
      mul_le_mul_of_nonneg_right ih h1.le
    have hk : (0 : ℝ) ≤ k := Nat.cast_nonneg k
    have hkuu : 0 ≤ (k : ℝ) * M.u * M.u := by positivity
    rw [pow_succ]
    push_cast
    nlinarith

theorem γ_eq (k : Nat) (h : 1 - (k : ℝ) * M.u ≠ 0) : M.γ k = 1 / (1 - k * M.u) - 1 := by
  unfold γ
  rw [eq_sub_iff_add_eq, div_add_one h]
  ring_nf

theorem γ_nonneg (k : Nat) (hk : k * M.u < 1) : 0 ≤ M.γ k := by
  unfold γ
  have : 0 ≤ (k : ℝ) * M.u := mul_nonneg (Nat.cast_nonneg k) M.u_nonneg
  exact div_nonneg this (by linarith)

theorem γ_mono {j k : Nat} (hjk : j ≤ k) (hk : k * M.u < 1) : M.γ j ≤ M.γ k := by
  unfold γ
  have hu := M.u_nonneg
  have hjk' : (j : ℝ) * M.u ≤ k * M.u := mul_le_mul_of_nonneg_right (Nat.cast_le.mpr hjk) hu
  have h0 : 0 ≤ (j : ℝ) * M.u := mul_nonneg (Nat.cast_nonneg j) hu
  rw [div_le_div_iff₀ (by linarith) (by linarith)]
  nlinarith

/-- `f` is (bounded like) a product of `k` factors `(1+δ)^{±1}`, `|δ| ≤ u`. -/
def Fac (k : Nat) (f : ℝ) : Prop := (1 - M.u) ^ k ≤ f ∧ f * (1 - M.u) ^ k ≤ 1

variable {M}

theorem Fac.pos {k : Nat} {f : ℝ} (h : M.Fac k f) : 0 < f := lt_of_lt_of_le (M.pow_pos' k) h.1

theorem Fac.one : M.Fac 0 1 := by simp [Fac]

theorem Fac.mono {j k : Nat} {f : ℝ} (hjk : j ≤ k) (h : M.Fac j f) : M.Fac k f := by
  have hle : (1 - M.u) ^ k ≤ (1 - M.u) ^ j :=
    pow_le_pow_of_le_one M.one_sub_u_pos.le M.one_sub_u_le_one hjk
  refine ⟨le_trans hle h.1, le_trans ?_ h.2⟩
  exact mul_le_mul_of_nonneg_left hle h.pos.le

theorem Fac.mul {j k : Nat} {f g : ℝ} (hf : M.Fac j f) (hg : M.Fac k g) : M.Fac (j + k) (f * g) := by
  refine ⟨?_, ?_⟩
  · rw [pow_add]
    exact mul_le_mul hf.1 hg.1 (M.pow_pos' k).le hf.pos.le
  · rw [pow_add]
    have : f * g * ((1 - M.u) ^ j * (1 - M.u) ^ k) = (f * (1 - M.u) ^ j) * (g * (1 - M.u) ^ k) := by ring
    rw [this]
    exact mul_le_one₀ hf.2 (mul_nonneg hg.pos.le (M.pow_pos' k).le) hg.2

theorem Fac.inv {k : Nat} {f : ℝ} (hf : M.Fac k f) : M.Fac k f⁻¹ := by
  have hp := hf.pos
  refine ⟨?_, ?_⟩
  · rw [le_inv_comm₀ (M.pow_pos' k) hp, ← one_div, le_div_iff₀ (M.pow_pos' k)]
    exact hf.2
  · rw [inv_mul_le_iff₀ hp, mul_one]
    exact hf.1

theorem Fac.div {j k : Nat} {f g : ℝ} (hf : M.Fac j f) (hg : M.Fac k g) : M.Fac (j + k) (f / g) := by
  rw [div_eq_mul_inv]; exact hf.mul hg.inv

/-- one rounding error -/
theorem Fac.one_add {δ : ℝ} (h : |δ| ≤ M.u) : M.Fac 1 (1 + δ) := by
  have ⟨h1, h2⟩ := abs_le.mp h
  have hu := M.u_nonneg
  refine ⟨by simp; linarith, ?_⟩
  simp only [pow_one]
  have : (1 + δ) * (1 - M.u) ≤ (1 + M.u) * (1 - M.u) :=
    mul_le_mul_of_nonneg_right (by linarith) M.one_sub_u_pos.le
  nlinarith

/-- Higham Lemma 3.1, interval form: a `k`-fold factor is `1 + θ` with `|θ| ≤ γ_k`. -/
theorem Fac.abs_sub_one_le {k : Nat} {f : ℝ} (hf : M.Fac k f) (hk : k * M.u < 1) :
    |f - 1| ≤ M.γ k := by
  have hb := M.bernoulli k
  have hp := M.pow_pos' k
  have hp1 := M.pow_le_one'' k
  have hku : 0 ≤ (k : ℝ) * M.u := mul_nonneg (Nat.cast_nonneg k) M.u_nonneg
  have hden : 0 < 1 - (k : ℝ) * M.u := by linarith
  have hγ : (k : ℝ) * M.u ≤ M.γ k := by
    unfold γ
    rw [le_div_iff₀ hden]
    nlinarith
  rw [abs_le]
  constructor
  · linarith [hf.1]
  · -- f ≤ 1/(1-u)^k ≤ 1/(1-ku)
    have h1 : f ≤ 1 / (1 - M.u) ^ k := by rw [le_div_iff₀ hp]; exact hf.2
    have h2 : 1 / (1 - M.u) ^ k ≤ 1 / (1 - (k : ℝ) * M.u) := one_div_le_one_div_of_le hden hb
    have hdn := hden.ne'
    have h3 : 1 / (1 - (k : ℝ) * M.u) - 1 = M.γ k := (M.γ_eq k hdn).symm
    linarith

variable (M)

/-- **Higham Lemma 3.1.**  If `|δᵢ| ≤ u` and `ρᵢ = ±1` for `i = 1..n` and `n·u < 1` then
`Π (1+δᵢ)^{ρᵢ} = 1 + θ_n` with `|θ_n| ≤ γ_n`.  (`ρᵢ = +1` is encoded as `true`.) -/
theorem higham_lemma_3_1 (ds : List (ℝ × Bool)) (h : ∀ d ∈ ds, |d.1| ≤ M.u)
    (hn : ds.length * M.u < 1) :
    ∃ θ : ℝ, |θ| ≤ M.γ ds.length ∧
      (ds.map fun d => if d.2 then 1 + d.1 else (1 + d.1)⁻¹).prod = 1 + θ := by
  have key : M.Fac ds.length (ds.map fun d => if d.2 then 1 + d.1 else (1 + d.1)⁻¹).prod := by
    clear hn
    induction ds with
    | nil => simpa using Fac.one
    | cons d ds ih =>
      have hd := Fac.one_add (h d (by simp))
      have ih' := ih (fun e he => h e (by simp [he]))
      simp only [List.map_cons, List.prod_cons, List.length_cons]
      rw [Nat.add_comm]
      by_cases hb : d.2
      · simpa [hb] using hd.mul ih'
      · simpa [hb] using hd.inv.mul ih'
  refine ⟨_ - 1, key.abs_sub_one_le hn, by ring⟩

/-- Higham Lemma 3.3 (the rule `γ_j + γ_k + γ_j γ_k ≤ γ_{j+k}`), in the form it is used. -/
theorem γ_add_le (j k : Nat) (h : ((j + k : Nat) : ℝ) * M.u < 1) :
    M.γ j + M.γ k + M.γ j * M.γ k ≤ M.γ (j + k) := by
  have hu := M.u_nonneg
  have hj0 : 0 ≤ (j : ℝ) * M.u := mul_nonneg (Nat.cast_nonneg j) hu
  have hk0 : 0 ≤ (k : ℝ) * M.u := mul_nonneg (Nat.cast_nonneg k) hu
  push_cast at h
  have hj : 0 < 1 - (j : ℝ) * M.u := by nlinarith
  have hk : 0 < 1 - (k : ℝ) * M.u := by nlinarith
  have hjk : 0 < 1 - ((j : ℝ) + k) * M.u := by nlinarith
  have hjn := hj.ne'
  have hkn := hk.ne'
  have hjkn := hjk.ne'
  have e1 : M.γ j + M.γ k + M.γ j * M.γ k = 1 / ((1 - j * M.u) * (1 - k * M.u)) - 1 := by
    rw [M.γ_eq j hjn, M.γ_eq k hkn, ← one_div_mul_one_div]; ring
  have e2 : M.γ (j + k) = 1 / (1 - ((j : ℝ) + k) * M.u) - 1 := by
    rw [M.γ_eq (j + k) (by push_cast; exact hjkn)]; push_cast; ring
  rw [e1, e2]
  have : 1 - ((j : ℝ) + k) * M.u ≤ (1 - j * M.u) * (1 - k * M.u) := by nlinarith [mul_nonneg hj0 hk0]
  have := one_div_le_one_div_of_le hjk this
  linarith

/-! ### perturbed sums -/

/-- `v = Σ xsᵢ · fᵢ` where every `fᵢ` is a `k`-fold rounding factor. -/
def Pert (k : Nat) (v : ℝ) (xs : List ℝ) : Prop :=
  ∃ fs : List ℝ, fs.length = xs.length ∧ (∀ f ∈ fs, M.Fac k f) ∧
    v = (List.zipWith (· * ·) xs fs).sum

variable {M}

theorem Pert.nil (k : Nat) : M.Pert k 0 [] := ⟨[], rfl, by simp, by simp⟩

theorem Pert.single (k : Nat) (x : ℝ) : M.Pert k x [x] :=
  ⟨[1], rfl, by simpa using Fac.one.mono (Nat.zero_le k), by simp⟩

theorem Pert.mono {j k : Nat} {v : ℝ} {xs : List ℝ} (hjk : j ≤ k) (h : M.Pert j v xs) :
    M.Pert k v xs := by
  obtain ⟨fs, hl, hf, hv⟩ := h
  exact ⟨fs, hl, fun f hfm => (hf f hfm).mono hjk, hv⟩

theorem Pert.append {k : Nat} {a b : ℝ} {xs ys : List ℝ} (ha : M.Pert k a xs) (hb : M.Pert k b ys) :
    M.Pert k (a + b) (xs ++ ys) := by
  obtain ⟨fs, hl, hf, rfl⟩ := ha
  obtain ⟨gs, hl', hg, rfl⟩ := hb
  refine ⟨fs ++ gs, by simp [hl, hl'], ?_, ?_⟩
  · intro f hfm
    rcases List.mem_append.mp hfm with h | h
    · exact hf f h
    · exact hg f h
  · rw [List.zipWith_append hl.symm, List.sum_append]

theorem zipWith_mul_map_sum (xs fs : List ℝ) (g : ℝ) :
    (List.zipWith (· * ·) xs (fs.map (· * g))).sum = (List.zipWith (· * ·) xs fs).sum * g := by
  induction xs generalizing fs with
  | nil => simp
  | cons x xs ih =>
    cases fs with
    | nil => simp
    | cons f fs => simp [ih, add_mul, mul_assoc]

theorem Pert.scale {j k : Nat} {a g : ℝ} {xs : List ℝ} (ha : M.Pert k a xs) (hg : M.Fac j g) :
    M.Pert (k + j) (a * g) xs := by
  obtain ⟨fs, hl, hf, rfl⟩ := ha
  refine ⟨fs.map (· * g), by simpa using hl, ?_, (zipWith_mul_map_sum xs fs g).symm⟩
  intro f hfm
  obtain ⟨f', hf', rfl⟩ := List.mem_map.mp hfm
  exact (hf f' hf').mul hg

/-- one rounding of an already perturbed sum -/
theorem Pert.rnd {k : Nat} {a : ℝ} {xs : List ℝ} (ha : M.Pert k a xs) :
    M.Pert (k + 1) (M.rnd a) xs := by
  obtain ⟨δ, hδ, h⟩ := M.std a
  rw [h]
  exact ha.scale (Fac.one_add hδ)

/-- a rounded addition of two perturbed sums -/
theorem Pert.add_rnd {j k m : Nat} {a b : ℝ} {xs ys : List ℝ} (ha : M.Pert j a xs)
    (hb : M.Pert k b ys) (hj : j + 1 ≤ m) (hk : k + 1 ≤ m) :
    M.Pert m (M.rnd (a + b)) (xs ++ ys) := by
  have h1 : M.Pert (m - 1) a xs := ha.mono (by omega)
  have h2 : M.Pert (m - 1) b ys := hb.mono (by omega)
  have := (h1.append h2).rnd
  rwa [show m - 1 + 1 = m by omega] at this

theorem zipWith_sub_le (γk : ℝ) (xs fs : List ℝ) (hl : fs.length = xs.length)
    (hf : ∀ f ∈ fs, |f - 1| ≤ γk) :
    |(List.zipWith (· * ·) xs fs).sum - xs.sum| ≤ γk * (xs.map (|·|)).sum := by
  induction xs generalizing fs with
  | nil => simp
  | cons x xs ih =>
    cases fs with
    | nil => simp at hl
    | cons f fs =>
      have hl' : fs.length = xs.length := by simpa using hl
      have h1 := ih fs hl' (fun g hg => hf g (by simp [hg]))
      have h2 : |x * f - x| ≤ γk * |x| := by
        have : x * f - x = x * (f - 1) := by ring
        rw [this, abs_mul, mul_comm]
        exact mul_le_mul_of_nonneg_right (hf f (by simp)) (abs_nonneg x)
      simp only [List.zipWith_cons_cons, List.sum_cons, List.map_cons]
      have : x * f + (List.zipWith (· * ·) xs fs).sum - (x + xs.sum)
          = (x * f - x) + ((List.zipWith (· * ·) xs fs).sum - xs.sum) := by ring
      rw [this, mul_add]
      exact le_trans (abs_add_le _ _) (add_le_add h2 h1)

/-- composition: a perturbed sum of already perturbed terms `tᵢ·gᵢ` -/
theorem Pert.comp {j k : Nat} (ts : List ℝ) : ∀ (gs : List ℝ) (v : ℝ), gs.length = ts.length →
    (∀ g ∈ gs, M.Fac j g) → M.Pert k v (List.zipWith (· * ·) ts gs) → M.Pert (j + k) v ts := by
  induction ts with
  | nil =>
    intro gs v _ _ h
    obtain ⟨fs, _, _, hv⟩ := h
    simp at hv
    subst hv
    exact Pert.nil _
  | cons t ts ih =>
    intro gs v hl hg h
    cases gs with
    | nil => simp at hl
    | cons g gs =>
      obtain ⟨fs, hfl, hf, hv⟩ := h
      cases fs with
      | nil => simp at hfl
      | cons f fs =>
        have hl' : gs.length = ts.length := by simpa using hl
        have hfl' : fs.length = (List.zipWith (· * ·) ts gs).length := by simpa using hfl
        have hrest : M.Pert k (List.zipWith (· * ·) (List.zipWith (· * ·) ts gs) fs).sum
            (List.zipWith (· * ·) ts gs) :=
          ⟨fs, hfl', fun f' hf' => hf f' (by simp [hf']), rfl⟩
        obtain ⟨hs, hhl, hh, hhv⟩ := ih gs _ hl' (fun g' hg' => hg g' (by simp [hg'])) hrest
        refine ⟨(g * f) :: hs, by simp [hhl], ?_, ?_⟩
        · intro a ha
          rcases List.mem_cons.mp ha with rfl | ha
          · exact (hg g (by simp)).mul (hf f (by simp))
          · exact hh a ha
        · rw [hv]
          simp only [List.zipWith_cons_cons, List.sum_cons]
          rw [hhv]; ring

theorem Pert.div_const {k : Nat} {v : ℝ} {xs : List ℝ} (h : M.Pert k v xs) (c : ℝ) :
    M.Pert k (v / c) (xs.map (· / c)) := by
  obtain ⟨fs, hl, hf, rfl⟩ := h
  refine ⟨fs, by simpa using hl, hf, ?_⟩
  clear hl hf
  induction xs generalizing fs with
  | nil => simp
  | cons x xs ih =>
    cases fs with
    | nil => simp
    | cons f fs =>
      simp only [List.zipWith_cons_cons, List.sum_cons, List.map_cons]
      rw [← ih fs]; ring

/-- a perturbed sum over the empty list is zero -/
theorem Pert.eq_zero_of_nil {k : Nat} {v : ℝ} (h : M.Pert k v []) : v = 0 := by
  obtain ⟨fs, _, _, hv⟩ := h
  simpa using hv

/-- index form of a perturbed sum -/
theorem Pert.exists_fun {k : Nat} {v : ℝ} {xs : List ℝ} (h : M.Pert k v xs) :
    ∃ F : Nat → ℝ, (∀ j, M.Fac k (F j)) ∧
      v = ((List.range xs.length).map fun j => xs.getD j 0 * F j).sum := by
  obtain ⟨fs, hl, hf, rfl⟩ := h
  refine ⟨fun j => fs.getD j 1, ?_, ?_⟩
  · intro j
    show M.Fac k (fs.getD j 1)
    by_cases hj : j < fs.length
    · have : fs.getD j 1 = fs[j] := by simp [List.getD_eq_getElem?_getD, hj]
      rw [this]; exact hf _ (List.getElem_mem hj)
    · have : fs.getD j 1 = 1 := by
        simp [List.getD_eq_getElem?_getD, List.getElem?_eq_none (Nat.le_of_not_lt hj)]
      rw [this]; exact Fac.one.mono (Nat.zero_le k)
  · clear hf
    induction xs generalizing fs with
    | nil => simp
    | cons x xs ih =>
      cases fs with
      | nil => simp at hl
      | cons f fs =>
        have hl' : fs.length = xs.length := by simpa using hl
        simp only [List.zipWith_cons_cons, List.sum_cons, List.length_cons, List.range_succ_eq_map,
          List.map_cons, List.map_map]
        rw [ih fs hl']
        simp [Function.comp_def]

/-- **forward error of a perturbed sum**: `|v − Σ xs| ≤ γ_k · Σ|xs|`. -/
theorem Pert.error {k : Nat} {v : ℝ} {xs : List ℝ} (h : M.Pert k v xs) (hk : k * M.u < 1) :
    |v - xs.sum| ≤ M.γ k * (xs.map (|·|)).sum := by
  obtain ⟨fs, hl, hf, rfl⟩ := h
  exact zipWith_sub_le _ xs fs hl (fun f hfm => (hf f hfm).abs_sub_one_le hk)

end FlModel

/-! ### the scalar type -/

/-- Reals with rounded arithmetic: the scalar type at which the executable models are instantiated. -/
structure Fl (M : FlModel) where
  val : ℝ

namespace Fl
variable {M : FlModel}

noncomputable instance : Add (Fl M) := ⟨fun a b => ⟨M.rnd (a.val + b.val)⟩⟩
noncomputable instance : Sub (Fl M) := ⟨fun a b => ⟨M.rnd (a.val - b.val)⟩⟩
noncomputable instance : Mul (Fl M) := ⟨fun a b => ⟨M.rnd (a.val * b.val)⟩⟩
noncomputable instance : Div (Fl M) := ⟨fun a b => ⟨M.rnd (a.val / b.val)⟩⟩
instance : Neg (Fl M) := ⟨fun a => ⟨-a.val⟩⟩
instance : Zero (Fl M) := ⟨⟨0⟩⟩
instance : One (Fl M) := ⟨⟨1⟩⟩
noncomputable instance : NatCast (Fl M) := ⟨fun n => ⟨M.rnd n⟩⟩

@[simp] theorem add_val (a b : Fl M) : (a + b).val = M.rnd (a.val + b.val) := rfl
@[simp] theorem sub_val (a b : Fl M) : (a - b).val = M.rnd (a.val - b.val) := rfl
@[simp] theorem mul_val (a b : Fl M) : (a * b).val = M.rnd (a.val * b.val) := rfl
@[simp] theorem div_val (a b : Fl M) : (a / b).val = M.rnd (a.val / b.val) := rfl
@[simp] theorem neg_val (a : Fl M) : (-a).val = -a.val := rfl
@[simp] theorem zero_val : (0 : Fl M).val = 0 := rfl
@[simp] theorem one_val : (1 : Fl M).val = 1 := rfl
@[simp] theorem natCast_val (n : Nat) : ((n : Fl M)).val = M.rnd n := rfl

@[ext] theorem ext {a b : Fl M} (h : a.val = b.val) : a = b := by
  cases a; cases b; simp_all

/-- a value that is the result of a rounding (every computed value is) -/
def Rep (a : Fl M) : Prop := M.rnd a.val = a.val

theorem zero_add_of_rep {a : Fl M} (h : Rep a) : (0 : Fl M) + a = a := by
  apply ext
  show M.rnd (0 + a.val) = a.val
  rw [zero_add]; exact h

end Fl

/-- the exact model: `rnd = id`, `u = 0` (non-vacuity of `FlModel`) -/
def FlModel.exact : FlModel where
  rnd := id
  u := 0
  u_nonneg := le_refl 0
  u_lt_one := by norm_num
  std := fun x => ⟨0, by simp, by simp⟩

theorem FlModel.exact_idem : FlModel.exact.Idem := fun _ => rfl

/-- a non-trivial model: every operation inflates its result by the factor `1 + c` (all `δ = c`; the
worst case for sums of positive numbers).  Not idempotent. -/
def FlModel.inflate (c : ℝ) (h0 : 0 ≤ c) (h1 : c < 1) : FlModel where
  rnd := fun x => x * (1 + c)
  u := c
  u_nonneg := h0
  u_lt_one := h1
  std := fun _ => ⟨c, by rw [abs_of_nonneg h0], rfl⟩

/-- a non-trivial *idempotent* model: the grid is `ℝ \ {p}`, and `p` is rounded to `p(1+c)`. -/
noncomputable def FlModel.bump (p c : ℝ) (h0 : 0 ≤ c) (h1 : c < 1) : FlModel where
  rnd := fun x => if x = p then p * (1 + c) else x
  u := c
  u_nonneg := h0
  u_lt_one := h1
  std := fun x => by
    by_cases hx : x = p
    · exact ⟨c, by rw [abs_of_nonneg h0], by simp [hx]⟩
    · exact ⟨0, by simpa using h0, by simp [hx]⟩

theorem FlModel.bump_idem (p c : ℝ) (h0 : 0 ≤ c) (h1 : c < 1) : (FlModel.bump p c h0 h1).Idem := by
  intro y
  show (if (if y = p then p * (1 + c) else y) = p then p * (1 + c) else (if y = p then p * (1 + c) else y))
    = (if y = p then p * (1 + c) else y)
  by_cases hy : y = p
  · simp only [hy, if_true]
    split
    · rfl
    · rfl
  · simp [hy]

end Cv
