"""C17 — statistical transforms and combinatorics satisfy their defining identities.

Requests (see exec/src/bin/c17.rs, lean/Compute/Drv/C17.lean):
  logisticv <vec>            -> vector of logistic(x_i)                       (model: map logistic)
  logit p                    -> value | panic
  rt1 x                      -> p = logistic(x), r = logit(p)
  rt2 p                      -> q = logit(p), r = logistic(q)
  boxcox x lambda            -> value | panic
  boxcoxs x lambda alpha     -> value | panic
  softmax2 c <vec>           -> softmax(x) followed by softmax(x .+ c)
  binom n k                  -> integer | panic        (guard => 0)
  logsweep a b               -> counts + hash over EVERY non-negative f32 bit pattern a..b and its negation
  binomalt n k               -> integer | panic        (gamma based, inexact by design; model Model/BinomAlt.lean)
"""
import math
import struct
from fractions import Fraction

from .common import Failure, f2h, h2f, parse_reply, vec

ID = "C17"
BIN = "c17"
PROOF_MODULES = ["Compute.Lemmas.C17Binom", "Compute.Props.C17", "Compute.Props.C17Alt"]
REQUIRED_THEOREMS = [
    "Cv.C17.binom_exact", "Cv.C17.binom_symm", "Cv.C17.binom_pascal", "Cv.C17.binom_not_val_imp_large",
    "Cv.C17.binom_val_imp_exact", "Cv.C17.binom_val_iff_fits", "Cv.C17.logit_real", "Cv.C17.logit_endpoints_defined",
    "Cv.C17.logit_tendsto_zero", "Cv.C17.logit_tendsto_one",
    "Cv.C17.logistic_neg", "Cv.C17.logistic_pos", "Cv.C17.logistic_lt_one", "Cv.C17.logistic_strictMono",
    "Cv.C17.logit_logistic", "Cv.C17.logistic_logit", "Cv.C17.logit_rejects",
    "Cv.C17.softmax_pos", "Cv.C17.softmax_sum", "Cv.C17.softmax_order", "Cv.C17.softmax_shift",
    "Cv.C17.softmax_eq_exp_div", "Cv.C17.softmax_args_nonpos", "Cv.C17.softmax_denominator_ge_one",
    "Cv.C17.boxcox_defined_iff", "Cv.C17.boxcox_formula", "Cv.C17.boxcox_zero", "Cv.C17.boxcox_limit",
    "Cv.C17.boxcoxShifted_defined_iff", "Cv.C17.boxcoxShifted_eq",
    "Cv.C17.gamma_ratio_eq_choose", "Cv.C17.altValue_ideal", "Cv.C17.binomAlt_ideal", "Cv.C17.binomAlt_exact_of_acc",
    "Cv.C17.binomAlt_exact_1e9", "Cv.C17.binomAlt_exact_rel_1e12", "Cv.C17.binomAlt_exact_of_relAcc",
    "Cv.C17.binomCoeffAlt_exact_of_acc", "Cv.C17.binomCoeffAlt_exact_1e9",
    "Cv.C17.binomAlt_symm", "Cv.C17.binomAlt_underflow",
]
RULE = ("binom_coeff_alt on n < 176 (all k thorough, sampled quick), n up to 1e12 within a log-space error bound, huge n up to 2^64-1 and k > n, "
        "all compared with the model; binom_coeff on every (n,k) with n <= 67 (2346 pairs, incl. k > n probes) and on n up to 2^64-1 around the "
        "64-bit threshold of every k <= 32 (and the mirrored n-k), outcome class compared; logistic: thorough tier = EVERY f32 in +-745 "
        "(2 x 1,144,668,161 arguments, 64 sweep requests) for range [0,1], monotonicity, reflection within 200 eps, exact zeros and the model tie "
        "(hash of all result bits), quick tier = 12 chunks of 20000 bit patterns; accuracy against mpmath on a stratified SAMPLE of those f32 "
        "(2e4 quick / 2e6 thorough = 0.09 % of the 2.29e9 values, with -x for every x); logit on p in [0,1] and outside, both round "
        "trips, Box-Cox on x in (1e-6,1e6), lambda in +-5 incl. |lambda| < 1e-8 and shifts of both signs, softmax "
        "on lengths 1..1000 with entries in +-1e4 together with a shifted copy; non-trivial = distinct request")
EXHAUSTIVE = {"quick": False, "thorough": False}
NOT_PROVED = [
    "floating-point rounding of the transforms (covered by the mpmath oracle within forward-error bounds)",
    "accuracy of libm exp/ln/pow",
    "logistic o logit = id is proved on the open interval (0,1) only; at p = 0 and p = 1 the real-number model carries the junk values of the "
    "totalised log 0 and 1/0, the code returns -inf / +inf (proved to be the one-sided limits: logit_tendsto_zero / logit_tendsto_one) and the "
    "oracle checks those two results exactly",
    "accuracy of logistic against mpmath is SAMPLED (0.09 % of the f32 arguments in the thorough tier); range, monotonicity, reflection and the "
    "model tie are exhaustive over f32 in the thorough tier only",
    "binom_coeff_alt: the accuracy of the Lanczos ln_gamma (hypothesis LogGammaAcc / LogGammaRelAcc of binomAlt_exact_of_acc; C09's "
    "oracle enforces 1e-12 max(1,|ln Gamma|) and observes 2e-15, not proved) and the f64 rounding of the two subtractions and of exp "
    "on top of it (added to the bound by the oracle); given delta = 1e-9 (C09's bound for every n <= 225) the result is proved exact "
    "for C(n,k) <= 1.6e8 over the reals; symmetry is proved for commutative subtraction only (it fails at f64); for very large n "
    "the absolute error of ln_gamma (~ u n ln n) exceeds 1 and the result is meaningless (oracle bound is vacuous there, tie only)",
    "softmax theorems take the fold seed as any lower bound of the entries (the reals have no -infinity)",
]
TRUSTED = ["IEEE f64 arithmetic and glibc exp/log/pow shared by both executors",
           "source tie (Props/SrcTieC17) regenerates logistic, logit, boxcox and boxcox_shifted only; softmax, binom_coeff and binom_coeff_alt "
           "are hand models covered by the bit-for-bit tie only",
           "u64 arithmetic modelled on Nat with explicit range checks (executor built with overflow checks)"]
ASSUMPTIONS = ["x, p, lambda, alpha finite f64 unless a request says otherwise (NaN/inf probes are compared with the model only)",
               "exact zeros are specified behaviour, not an error: logistic(x) is exactly 0 for x < -709.78 because exp(-x) OVERFLOWS to inf and "
               "1/(1+inf) = 0 (the true value is a positive subnormal), and a softmax entry more than 745.2 below the maximum is exactly 0 because "
               "its exponential UNDERFLOWS; the oracle demands exactly that "
               "(keys logistic:underflow-zero, softmax:underflow-zero) and values in [0,1] everywhere"]

EPS = 2.0 ** -52
TINY = 2.0 ** -1074
MINNORM = 2.0 ** -1022
U64 = 1 << 64
F32_745 = 0x443A4000        # bit pattern of 745.0f32: the non-negative f32 values of [0, 745] are the patterns 0..F32_745
EXP_OVERFLOW = 709.782712893384   # ln(f64::MAX): exp(x) = inf above it, so logistic(-x) is exactly 0
MODEL_TIMEOUT = 1800
IMPL_TIMEOUT = 900
LNGAMMA_ENFORCED = 1e-12   # |ln_gamma - ln Gamma| <= 1e-12 max(1, |ln Gamma|): enforced by C09's oracle on every run (TOL_LNGAMMA there)
LNGAMMA_OBSERVED = 2.1e-15 # the largest such error C09 observes
BINOMALT_C = 32            # clause (c): |ln(result / C(n,k))| <= c (eps_lg + u) max(1, ln Gamma(n+1)); observed max 0.23 (seeds 1..5, thorough)


# ------------------------------------------------------------------------------------------ helpers
def f32(bits):
    return struct.unpack("<f", struct.pack("<I", bits & 0xFFFFFFFF))[0]


def f32bits(x):
    return struct.unpack("<I", struct.pack("<f", x))[0]


def to_f32(x):
    return struct.unpack("<f", struct.pack("<f", x))[0]


def mp():
    import mpmath
    mpmath.mp.prec = 120
    return mpmath


def comb_if_fits(n, k):
    """C(n,k) if it is below 2^64, else None (without building astronomically large integers)."""
    nk = min(k, n - k)
    if nk >= 34:            # then n >= 68 and C(n,k) >= C(68,34) > 2^64
        return None
    c = 1
    for i in range(1, nk + 1):
        c = c * (n - i + 1) // i
        if c >= U64:        # C(n,i) is non-decreasing in i up to n/2
            return None
    assert c == math.comb(n, nk) if n < 5000 else True
    return c


def thresholds():
    """n*_k = largest n with C(n,k) < 2^64, for 2 <= k <= 33."""
    out = {}
    for k in range(2, 34):
        lo, hi = k, U64 - 1
        while lo < hi:
            mid = (lo + hi + 1) // 2
            if math.comb(mid, k) < U64:
                lo = mid
            else:
                hi = mid - 1
        out[k] = lo
    return out


# ------------------------------------------------------------------------------------------ generator
def corpus():
    return [
        # F30: the un-shifted softmax returned NaN here
        "softmax2 %s %s" % (f2h(0.0), vec([1000.0, 1001.0])),
        "softmax2 %s %s" % (f2h(1.0), vec([-1000.0, -1001.0, 709.0, 710.0])),
        # F31: the old assert tested x > alpha
        "boxcoxs %s %s %s" % (f2h(1.0), f2h(0.5), f2h(2.0)),
        "boxcoxs %s %s %s" % (f2h(-1.0), f2h(0.5), f2h(-2.0)),
        "boxcoxs %s %s %s" % (f2h(-1.0), f2h(0.0), f2h(3.0)),
        # binomial coefficients at the edge of 64 bits
        "binom 67 33", "binom 67 34", "binom 68 34", "binom 68 33", "binom 66 33", "binom 5 7",
        "binom 18446744073709551615 1", "binom 18446744073709551615 2", "binom 6074001000 2", "binom 6074001001 2",
        "binom 0 0", "binom 1 0", "binom 1 1",
        # F52: gamma(n + 1) overflowed for n >= 171 and the result was 0 or 2^64 - 1
        "binomalt 171 0", "binomalt 171 2", "binomalt 259 1", "binomalt 300 5", "binomalt 1000 3", "binomalt 171 171", "binomalt 200 100",
        "logit %s" % f2h(0.0), "logit %s" % f2h(1.0), "logit %s" % f2h(-0.0), "logit nan",
        "logit %s" % f2h(1.0000000000000002), "logit %s" % f2h(-5e-324),
        "logisticv %s" % vec([0.0, -0.0, float("inf"), float("-inf"), 745.0, -745.0, 709.0, -709.0, 710.0, -710.0]),
        # specified underflow behaviour (review C17-A1): exp(710) = inf so logistic(-710) is exactly 0 (true value 4.5e-309), and a
        # softmax entry more than 745.2 below the maximum is exactly 0
        "logisticv %s" % vec([-710.0, -720.0, -745.0, -709.78271484375, -709.78265380859375, -708.5]),
        "softmax2 %s %s" % (f2h(0.0), vec([0.0, -800.0, 1e4])),
        "logsweep 1144568160 1144668160", "logsweep 0 1000",
    ]


def sample_x(rng):
    """f32-representable x in [-745, 745], stratified over magnitudes."""
    while True:
        r = rng.random()
        if r < 0.45:
            e = rng.randint(127 - 30, 127 + 9)
            b = (e << 23) | (rng.u64() & 0x7FFFFF)
            x = f32(b)
        elif r < 0.8:
            x = to_f32(rng.uniform(0, 745.0))
        elif r < 0.9:
            x = to_f32(rng.uniform(0, 40.0))
        elif r < 0.97:
            e = rng.randint(0, 127 + 9)
            b = (e << 23) | (rng.u64() & 0x7FFFFF)
            x = f32(b)
        else:
            x = rng.choice([0.0, 745.0, 1.0, 0.5, 36.0, 37.0, 36.75, 709.0, 710.0, 709.75, 744.5, 708.5, 20.0, 2.0 ** -149])
        if x <= 745.0:
            return x


def sample_p(rng):
    r = rng.random()
    if r < 0.4:
        return rng.random()
    if r < 0.6:
        return rng.loguniform(1e-300, 1.0)
    if r < 0.75:
        return 1.0 - rng.loguniform(2.0 ** -53, 1.0)
    if r < 0.85:
        return 0.5 + rng.uniform(-1, 1) * rng.loguniform(1e-17, 0.5)
    if r < 0.9:
        return rng.loguniform(4.9e-324, 1e-300)
    return rng.choice([0.0, 1.0, 0.5, 0.25, 0.75, 1.0 - 2.0 ** -53, 2.0 ** -53, 5e-324, 2.0 ** -1022, 0.1, 0.9])


def sample_lambda(rng):
    r = rng.random()
    if r < 0.5:
        return rng.uniform(-5, 5)
    if r < 0.6:
        return float(rng.randint(-5, 5))
    if r < 0.7:
        return rng.choice([0.0, -0.0, 0.5, -0.5, 1.0, 2.0, -1.0, 1.0 / 3.0])
    if r < 0.9:
        return rng.choice([-1, 1]) * rng.loguniform(1e-17, 1e-8)
    if r < 0.95:
        return rng.choice([-1, 1]) * rng.loguniform(1e-320, 1e-17)
    return rng.choice([-1, 1]) * rng.loguniform(1e-8, rng.choice([1e-4, 1e-2]))


def softmax_vec(rng, n):
    style = rng.randint(0, 5)
    if style == 0:      # wide
        return [rng.uniform(-1e4, 1e4) for _ in range(n)]
    if style == 1:      # narrow around a large offset
        off = rng.uniform(-1e4 + 50, 1e4 - 50)
        return [off + rng.uniform(-30, 30) for _ in range(n)]
    if style == 2:      # dyadic grid: every shift by a grid constant is exact
        return [rng.randint(-(10 ** 4) << 10, (10 ** 4) << 10) / 1024.0 for _ in range(n)]
    if style == 3:      # ties and small integers
        return [float(rng.randint(-5, 5)) for _ in range(n)]
    if style == 4:      # mostly tiny spread
        return [rng.normal() for _ in range(n)]
    xs = [rng.uniform(-1e4, 1e4) for _ in range(n)]
    for _ in range(max(1, n // 10)):
        xs[rng.randint(0, n - 1)] = rng.choice([1e4, -1e4, 0.0, -0.0, 9999.999999999998])
    return xs


def gen(rng, tier):
    lines = []
    cover = {}

    def add(kind, line):
        cover[kind] = cover.get(kind, 0) + 1
        lines.append(line)

    quick = tier == "quick"
    # ---- binomial coefficients: exhaustive n <= 67 (+ k = n+1, n+2 underflow probes)
    for n in range(0, 68):
        for k in range(0, n + 1):
            add("binom_exhaustive", "binom %d %d" % (n, k))
        add("binom_k_gt_n", "binom %d %d" % (n, n + 1 + rng.randint(0, 3)))
    # n = 68..200 : everything (fits or not)
    for n in range(68, 130 if quick else 260):
        for k in range(0, n + 1):
            if quick and not rng.chance(0.35):
                continue
            add("binom_mid", "binom %d %d" % (n, k))
    th = thresholds()
    reps = 6 if quick else 60
    for k in range(0, 34):
        cands = []
        if k >= 2:
            ns = th[k]
            cands += [ns + d for d in range(-4, 5)]
            for _ in range(reps):
                cands.append(rng.randint(min(max(k, 68), ns), ns))
                cands.append(rng.randint(ns + 1, min(U64 - 1, ns * 4)))
                cands.append(int(ns * rng.uniform(0.9, 1.1)))
                cands.append(int(rng.loguniform(min(max(k, 68), ns), ns + 1)))
            cands += [U64 - 1, U64 - 1 - rng.randint(0, 1000), 1 << 63, (1 << 63) - 1, (1 << 32), (1 << 32) + 1]
        else:
            cands += [U64 - 1, U64 - 2, 1 << 63, rng.randint(0, U64 - 1), rng.randint(0, U64 - 1), 68, 1000]
        for n in cands:
            if n < k or n >= U64:
                continue
            add("binom_large_k<=33", "binom %d %d" % (n, k))
            if rng.chance(0.5):
                add("binom_large_mirrored", "binom %d %d" % (n, n - k))
    for _ in range(40 if quick else 400):
        n = rng.randint(0, U64 - 1)
        add("binom_random_huge", "binom %d %d" % (n, rng.randint(0, n)))
    # gamma-based alternative (model: Model/BinomAlt.lean on top of the C09 gamma model)
    for n in range(0, 60):
        for k in range(0, n + 1):
            if quick and not rng.chance(0.3):
                continue
            add("binomalt", "binomalt %d %d" % (n, k))
    for n in range(60, 168):
        ks = range(0, n + 1) if not quick else sorted({0, 1, 2, n, n - 1, n // 2, rng.randint(0, n), rng.randint(0, n), rng.randint(0, min(n, 12))})
        for k in ks:
            add("binomalt_60..167", "binomalt %d %d" % (n, k))
    for n in range(168, 176):           # gamma(n + 1) overflows from n = 171 on (F52: the old body broke here)
        for k in range(0, n + 1):
            if quick and not (k < 6 or n - k < 6 or rng.chance(0.1)):
                continue
            add("binomalt_gamma_overflow_edge", "binomalt %d %d" % (n, k))
    for _ in range(200 if quick else 6000):
        n = rng.choice([rng.randint(176, 400), rng.randint(176, 2000), rng.randint(176, 100000), int(rng.loguniform(1e3, 1e12))])
        k = rng.choice([0, 1, 2, 3, 4, 5, n, n - 1, n - 2, n - 3, rng.randint(0, min(n, 33)), n - rng.randint(0, min(n, 33)),
                        rng.randint(0, min(n, 200)), rng.randint(0, n)])
        add("binomalt_n>=176", "binomalt %d %d" % (n, k))
    for _ in range(60 if quick else 1500):
        n = rng.choice([rng.randint(1 << 40, 1 << 54), rng.randint(0, U64 - 1), U64 - 1, 1 << 63, (1 << 53) + 1, (1 << 53) + rng.randint(0, 64)])
        k = rng.choice([0, 1, 2, 3, n, n - 1, n - 2, rng.randint(0, n), rng.randint(0, min(n, 200)), n - rng.randint(0, min(n, 200))])
        add("binomalt_huge_n(bound vacuous)", "binomalt %d %d" % (n, k))
    for n in list(range(0, 12)) + [60, 170, 171, 1000, 1 << 63, U64 - 2]:
        add("binomalt_k_gt_n(model-only)", "binomalt %d %d" % (n, min(n + 1 + rng.randint(0, 3), U64 - 1)))

    # ---- logistic on f32-representable x in +-745, with -x next to x
    npts = 20000 if quick else 2000000
    per = 500
    for _ in range(npts // (2 * per)):
        xs = []
        for _ in range(per):
            x = sample_x(rng)
            xs += [x, -x]
        add("logisticv", "logisticv " + vec(xs))
    cover["logistic_points"] = (npts // (2 * per)) * 2 * per
    # ---- exhaustive sweep over the f32 bit patterns of [0, 745] (and their negations): range, monotonicity, reflection, hash
    if quick:
        starts = [0, 0x00800000 - 10000, 0x3f800000 - 10000, f32bits(36.7368) - 10000, f32bits(709.7827) - 10000, F32_745 - 19999]
        starts += [rng.randint(0, F32_745 - 20000) for _ in range(6)]
        for a in starts:
            add("logsweep", "logsweep %d %d" % (a, a + 19999))
        cover["logsweep_patterns"] = 20000 * len(starts)
    else:
        nchunk = 64
        step = (F32_745 + 1 + nchunk - 1) // nchunk
        a = 0
        while a <= F32_745:
            b = min(a + step - 1, F32_745)
            add("logsweep", "logsweep %d %d" % (a, b))
            a = b + 1
        cover["logsweep_patterns"] = F32_745 + 1

    # ---- logit, round trips
    nl = 4000 if quick else 200000
    for _ in range(nl):
        add("logit_in", "logit " + f2h(sample_p(rng)))
    for _ in range(nl // 10):
        p = rng.choice([-rng.loguniform(1e-320, 1e3), 1.0 + rng.loguniform(2.3e-16, 1e3), float("nan"),
                        float("inf"), float("-inf"), 1.0000000000000002, -5e-324])
        add("logit_out", "logit " + f2h(p))
    for _ in range(nl):
        add("rt1", "rt1 " + f2h(rng.choice([-1, 1]) * sample_x(rng)))
        add("rt2", "rt2 " + f2h(sample_p(rng)))

    # ---- Box-Cox
    nb = 4000 if quick else 200000
    for _ in range(nb):
        x = rng.loguniform(1e-6, 1e6)
        lam = sample_lambda(rng)
        add("boxcox", "boxcox %s %s" % (f2h(x), f2h(lam)))
        # shifted: x + alpha in (1e-6, 1e6) with shifts of both signs
        s = rng.loguniform(1e-6, 1e6)
        alpha = rng.choice([-1, 1]) * rng.loguniform(1e-6, 1e6)
        if rng.chance(0.1):
            alpha = rng.choice([0.0, -0.0, 1.0, -1.0])
        xx = s - alpha
        add("boxcoxs", "boxcoxs %s %s %s" % (f2h(xx), f2h(lam), f2h(alpha)))
    for _ in range(nb // 8):
        lam = sample_lambda(rng)
        x = rng.choice([0.0, -0.0, -rng.loguniform(1e-6, 1e6), float("nan"), -5e-324])
        add("boxcox_reject", "boxcox %s %s" % (f2h(x), f2h(lam)))
        alpha = rng.choice([-1, 1]) * rng.loguniform(1e-6, 1e6)
        r = rng.random()
        if r < 0.4:
            xx = -alpha                                   # x + alpha = 0
        elif r < 0.8:
            xx = -alpha - rng.loguniform(1e-9, 1e6)       # negative sum
        else:
            xx = -alpha * (1 + rng.choice([-1, 1]) * 2.0 ** -52)   # one ulp either side of the boundary
        add("boxcoxs_boundary", "boxcoxs %s %s %s" % (f2h(xx), f2h(lam), f2h(alpha)))

    # ---- softmax with a shifted copy
    ns_ = 250 if quick else 6000
    for j in range(ns_):
        n = rng.choice([1, 2, 3, 8, 1000]) if rng.chance(0.1) else (rng.randint(1, 60) if rng.chance(0.6) else rng.randint(1, 1000))
        if quick and n > 300 and not rng.chance(0.3):
            n = rng.randint(1, 300)
        xs = softmax_vec(rng, n)
        m = max(abs(v) for v in xs)
        room = max(1e4 - m, 0.0)
        if rng.chance(0.5):
            c = rng.randint(-int(room * 1024), int(room * 1024)) / 1024.0
        else:
            c = rng.uniform(-room, room)
        add("softmax2", "softmax2 %s %s" % (f2h(c), vec(xs)))
    add("softmax_empty", "softmax2 %s 0" % f2h(1.0))
    strata(rng.fork("strata"), add, quick)
    return lines, cover


# ------------------------------------------------------------------------------------------ generic strata
SPECIALS = [0.0, -0.0, 1.0, -1.0, 2.0, 3.0, 0.5, 1.5, 2.5, 1.0 / 3.0, 2.0 / 3.0, 4.0, 8.0, 1024.0, 0.25, 0.125,
            math.nextafter(1.0, 2.0), math.nextafter(1.0, 0.0), math.nextafter(2.0, 3.0), math.nextafter(2.0, 0.0),
            math.nextafter(0.5, 1.0), math.nextafter(0.5, 0.0), 10.0, 100.0]
SOFTMAX_LENGTHS = sorted(set(list(range(1, 42)) + [2 ** k + d for k in range(3, 10) for d in (-1, 0, 1)] +
                         [8 * m + r for m in (6, 7, 12, 25, 31, 62, 99, 120, 124) for r in range(8)] +
                         [96, 100, 255, 256, 257, 511, 512, 513, 768, 992, 993, 997, 999, 1000]))


def strata(rng, add, quick):
    """Deterministic boundary strata (tools/GENERIC_STRATA.md): special values, size boundaries, threshold bands."""
    E = 2.0 ** -52
    # ---- logit: the edges of [0,1] from both sides (arguments a hair outside must be rejected, not tolerated)
    edge = [1e-17, -1e-17, 1e-300, -1e-300, 5e-324, -5e-324, 2.0 ** -1022, -(2.0 ** -1022), -(2.0 ** -1060), 2.0 ** -1060,
            1.0 + E, 1.0 + 2 * E, 1.0 + 3 * E, 1.0 - E / 2, 1.0 - E, 1.0 + 1e-15, 1.0 + 1e-12, 1.0 + 1e-9, 1.0 + 1e-6,
            -1e-15, -1e-12, -1e-9, -1e-6, -1e-3, -1.0, 2.0, 1.5, 1e300, -1e300, 0.0, -0.0, 1.0, 0.5,
            float("inf"), float("-inf"), float("nan")]
    for p in edge + [v for v in SPECIALS if 0 <= v <= 1]:
        add("logit_edge", "logit " + f2h(p))
        add("rt2_edge", "rt2 " + f2h(p))
    for _ in range(30 if quick else 600):
        add("logit_edge", "logit " + f2h(-rng.loguniform(5e-324, 1e-290)))            # negative subnormal .. tiny
        add("logit_edge", "logit " + f2h(1.0 + E * rng.randint(1, 64)))                # a few ulps above one
        add("logit_edge", "logit " + f2h(-rng.loguniform(1e-30, 1e-10)))
    # ---- logistic / round trip: exp overflow (709.78), saturation to 1 (36.74), flush to 0 (-745.13), specials
    bands = []
    for c in (709.782712893384, 36.7368005696771, 36.04365338911715, 745.1332191019411, 708.3964185322641, 0.0, 1.0, 0.5, 2.0, 3.0, 1.0 / 3.0, 2.0 / 3.0):
        v = c
        for _ in range(3):
            bands += [v, -v]
            v = math.nextafter(v, math.inf)
        v = c
        for _ in range(3):
            v = math.nextafter(v, -math.inf)
            bands += [v, -v]
    bands += [float(i) / 2 for i in range(-80, 81)]
    add("logistic_bands", "logisticv " + vec(bands))
    for x in bands:
        if abs(x) <= 745.2:
            add("rt1_bands", "rt1 " + f2h(x))
    # ---- binomial coefficient
    B = 1 << 63
    M = (1 << 64) - 1
    for n in [B, B + 1, B + 2, B + 12345, M - 2, M - 1, M, B - 1, B - 2, (1 << 62) + 1, rng.randint(B, M), rng.randint(B, M)]:
        for k in (n, n - 1, n - 2, n - 3, 0, 1, 2, 3):
            add("binom_k>=2^63", "binom %d %d" % (n, k))
        add("binom_k>=2^63", "binom %d %d" % (n, B))
        add("binom_k>=2^63", "binom %d %d" % (n, n // 2))
    two32 = 1 << 32
    for n in ([two32 + d for d in range(-3, 12)] + [6074000999 + d for d in range(-3, 5)] + [two32 * 2, two32 * 2 + 1, 3037000500, 3037000499,
              4294967297, 5000000000, 6000000000] + [rng.randint(two32 + 1, 6074000999) for _ in range(20 if quick else 300)]):
        for k in (2, n - 2):
            add("binom_n>2^32_k=2", "binom %d %d" % (n, k))
    for k in (3, 4, 5, 8):      # the same band for the next few k: n around 2^(64/k) .. threshold
        r = int(round(2 ** (64.0 / k)))
        for n in [r + d for d in range(-2, 3)] + [2 * r, 3 * r]:
            if n >= k:
                add("binom_small_k_band", "binom %d %d" % (n, k))
                add("binom_small_k_band", "binom %d %d" % (n, n - k))
    # ---- Box-Cox: small |lambda| bands, special x (x^lambda - 1 = 0 at x = 1), special lambda
    lam_band = []
    for e in range(-12, -1):
        base = 10.0 ** e
        lam_band += [base, -base, math.nextafter(base, 0.0), math.nextafter(base, 1.0), -math.nextafter(base, 0.0), 3 * base, -7 * base]
    lam_band += [2.0 ** -k for k in (10, 13, 14, 20, 26, 27, 30, 40, 52, 53)] + [-(2.0 ** -k) for k in (13, 20, 27, 40)]
    for lam in lam_band:
        for x in (rng.loguniform(1e-6, 1e6), rng.choice([2.0, 0.5, 10.0, 1e6, 1e-6, 3.0, math.e])):
            add("boxcox_lambda_band", "boxcox %s %s" % (f2h(x), f2h(lam)))
        s_ = rng.loguniform(1e-6, 1e6)
        al = rng.choice([-1, 1]) * rng.loguniform(1e-6, 1e6)
        add("boxcoxs_lambda_band", "boxcoxs %s %s %s" % (f2h(s_ - al), f2h(lam), f2h(al)))
    for _ in range(300 if quick else 20000):
        lam = rng.choice([-1, 1]) * rng.loguniform(1e-8, 1e-4)
        x = rng.loguniform(1e-6, 1e6)
        if rng.chance(0.5):
            add("boxcox_lambda_1e-8..1e-4", "boxcox %s %s" % (f2h(x), f2h(lam)))
        else:
            al = rng.choice([-1, 1]) * rng.loguniform(1e-6, 1e6)
            add("boxcoxs_lambda_1e-8..1e-4", "boxcoxs %s %s %s" % (f2h(x - al), f2h(lam), f2h(al)))
    lam_special = [v for v in SPECIALS if abs(v) <= 5] + [-2.0, -3.0, -0.5, 5.0, -5.0, -1.0 / 3.0]   # lambda in +-5
    for x in [v for v in SPECIALS if v > 0] + [1e-6, 1e6, math.nextafter(1e6, 0.0), math.nextafter(1e-6, 1.0), math.e]:
        for lam in (lam_special if not quick else [rng.choice(lam_special) for _ in range(6)] + [0.0, 0.5, 1.0]):
            add("boxcox_special", "boxcox %s %s" % (f2h(x), f2h(lam)))
            al = rng.choice([0.0, -0.0, 1.0, -1.0, 0.5, -0.5, 2.0, -2.0, 1024.0, -1024.0])
            if rng.chance(0.5):
                add("boxcoxs_special", "boxcoxs %s %s %s" % (f2h(x - al), f2h(lam), f2h(al)))
    # ---- softmax: every residue of the length mod 8 / 16 / 32, powers of two and neighbours, up to 1000
    lens = SOFTMAX_LENGTHS if not quick else sorted(set(list(range(1, 34)) + [rng.choice(SOFTMAX_LENGTHS) for _ in range(40)] +
                                                        [63, 64, 65, 127, 128, 129, 255, 256, 257, 511, 512, 513, 993, 997, 999, 1000]))
    for n in lens:
        style = rng.randint(0, 4)
        if style == 0:          # all far below -745: without the max shift every exponential underflows
            xs = [rng.uniform(-1e4, -745.2) for _ in range(n)]
        elif style == 1:        # narrow band below -745
            off = rng.uniform(-9000, -800)
            xs = [off + rng.uniform(-20, 20) for _ in range(n)]
        elif style == 2:        # distinct moderately spread values: every partial sum matters
            xs = [rng.uniform(-3, 3) for _ in range(n)]
        elif style == 3:        # all equal / max(x) == 0
            v = rng.choice([0.0, -0.0, 1.0, -1000.0, 1e4, -1e4, 0.5])
            xs = [v] * n
            if n > 1 and rng.chance(0.5):
                xs[rng.randint(0, n - 1)] = max(v - rng.choice([1.0, 0.5, 1e-9, 800.0]), -1e4)
        else:                   # specials mixed in, maximum exactly 0
            xs = [-abs(rng.choice(SPECIALS + [rng.uniform(0, 50)])) for _ in range(n)]
            xs[rng.randint(0, n - 1)] = 0.0
        m = max(abs(v) for v in xs)
        room = max(1e4 - m, 0.0)
        c = rng.choice([0.0, 1.0, -1.0, 0.5, rng.uniform(-room, room), float(int(rng.uniform(-room, room)))])
        if abs(c) > room:
            c = 0.0
        add("softmax_len_strata", "softmax2 %s %s" % (f2h(c), vec(xs)))
    # binom_coeff_alt around the z < 0.5 / overflow constants of gamma is out of reach (arguments are n + 1 >= 1)



def model_line(line):
    return line


def nontrivial(line, reply):
    if reply.startswith("#"):
        return None
    return line[:200]


# ------------------------------------------------------------------------------------------ oracle
STATS = {}


def note(k, v):
    if v > STATS.get(k, 0.0):
        STATS[k] = v


def chk_close(fails, i, key, what, got, ref, tol, statkey, scale):
    """|got - ref| <= tol, ref an mpf/Fraction/float; records the observed error in units of `scale`."""
    m = mp()
    if got != got:
        fails.append(Failure(i, key, "%s: got NaN, expected %s" % (what, m.nstr(m.mpf(ref), 20))))
        return
    if math.isinf(got):
        err = m.inf
    else:
        err = abs(m.mpf(got) - ref)
    if scale > 0 and err != m.inf:
        note(statkey, float(err / scale))
    if err > tol:
        fails.append(Failure(i, key, "%s: got %r, expected %s (|error| %s > tolerance %s)" % (
            what, got, m.nstr(m.mpf(ref), 20), m.nstr(err, 5), m.nstr(m.mpf(tol), 5)), m.nstr(m.mpf(ref), 20)))


def oracle(lines, impl):
    m = mp()
    mpf = m.mpf
    fails = []
    logi = []           # (x, value) of every logistic evaluation, for the global monotonicity check
    sweep_edges = []    # (a, b, p_first, q_first, p_last, q_last, line) of every sweep chunk
    binom_seen = {}
    for i, (l, rep) in enumerate(zip(lines, impl)):
        t = l.split()
        op = t[0]
        st, toks = parse_reply(rep)
        if st == "skip":
            continue
        # ------------------------------------------------------------------ binom
        if op == "binom":
            n, k = int(t[1]), int(t[2])
            key = "binom:%d:%d" % (n, k)
            if k > n:
                continue            # outside the statement (the source underflows: panic); model compared
            c = comb_if_fits(n, k)
            if c is not None:
                if st != "ok" or int(toks[0]) != c:
                    fails.append(Failure(i, key, "binom_coeff(%d,%d) = %s, expected the exact value %d (fits in 64 bits)" % (
                        n, k, rep.strip(), c), str(c)))
                else:
                    binom_seen[(n, k)] = c
            # a value that does not fit is outside the statement: guard (0) or overflow panic, model compared
            continue
        if op == "binomalt":
            n, k = int(t[1]), int(t[2])
            key = "binomalt:%d:%d" % (n, k)
            if k > n:
                continue            # `n - k` underflows (panic): outside the statement, model compared
            c = comb_if_fits(n, k)
            if c is None:
                continue            # does not fit in 64 bits (the cast saturates): model compared
            if st != "ok":
                fails.append(Failure(i, key, "binom_coeff_alt(%d,%d): %s" % (n, k, rep.strip())))
                continue
            got = int(toks[0])
            uu = 2.0 ** -53
            lgs = [m.loggamma(mpf(v) + 1) for v in (n, k, n - k)]
            L1 = max(mpf(1), lgs[0])
            # (a) documented inexactness ("by 1 or 2" from n ~ 50 on): relative 1e-9, stated as such, wherever the old gamma route
            #     was finite (n <= 170)
            if n <= 170:
                tol = max(2, int(c * 1e-9))
                note("binomalt_rel_1e-9", abs(got - c) / max(c, 1) / 1e-9)
                if abs(got - c) > tol:
                    fails.append(Failure(i, key, "binom_coeff_alt(%d,%d) = %d, exact %d: off by %d > %d" % (n, k, got, c, abs(got - c), tol), str(c)))
                    continue
            # (b) exactness implied by Cv.C17.binomAlt_exact_of_relAcc: ln_gamma within LNGAMMA_ENFORCED max(1, ln Gamma) (C09's oracle
            #     bound, re-checked there on every run) moves the exponent by at most the sum of the three bounds; at f64 the two
            #     subtractions add half an ulp of |ln Gamma(n+1)| and of ln C, exp one ulp.  If C(n,k) (e^that - 1) < 1/2 the rounded
            #     result must be C(n,k).
            dl = LNGAMMA_ENFORCED * sum(max(mpf(1), v) for v in lgs) + uu * (lgs[0] + m.log(max(c, 1))) + 2 * uu
            if c * m.expm1(dl) * 1.02 < 0.5:
                note("binomalt_exact_clause_largest_C", float(c))
                if got != c:
                    fails.append(Failure(i, "binomalt:exact:%d:%d" % (n, k), "binom_coeff_alt(%d,%d) = %d but C(n,k) = %d and C(n,k) (e^%.3g - 1) < 1/2: "
                                         "with ln_gamma accurate to %g max(1, ln Gamma) the rounded value must be exact" % (
                                             n, k, got, c, float(dl), LNGAMMA_ENFORCED), str(c)))
                    continue
            # (c) every n (regression guard of F52, where the result was 0 or 2^64 - 1 for n >= 171): in log space the error is at most
            #     BINOMALT_C (eps_lg + u) max(1, ln Gamma(n+1)) with eps_lg the observed ln_gamma accuracy, then .round() (half a unit)
            #     and the saturating cast
            B = BINOMALT_C * (LNGAMMA_OBSERVED + uu) * L1
            if B < 40:
                lo = mpf(c) * m.exp(-B) - 0.5
                hi = mpf(c) * m.exp(B) + 0.5
                if got >= c:
                    d = m.log(max(mpf(got) - 0.5, mpf(c)) / c)
                else:
                    d = m.log(mpf(c) / (mpf(got) + 0.5))
                note("binomalt_logerr/((eps_lg+u)lnGamma)", float(d / ((LNGAMMA_OBSERVED + uu) * L1)))
                ok_ = (lo <= got <= hi) or (got == U64 - 1 and hi >= U64 - 1)
                if not ok_:
                    fails.append(Failure(i, "binomalt:bound:%d:%d" % (n, k), "binom_coeff_alt(%d,%d) = %d, exact %d: relative error %.3g exceeds "
                                         "e^B - 1 with B = %d (eps_lg + u) ln Gamma(%d) = %.3g" % (
                                             n, k, got, c, abs(got - c) / c, BINOMALT_C, n + 1, float(B)), str(c)))
            continue
        if op == "logsweep":
            a, b = int(t[1]), int(t[2])
            if st != "ok" or len(toks) != 12:
                fails.append(Failure(i, "logistic:sweep", "sweep reply malformed: %s" % rep[:80]))
                continue
            cnt, br, bm, bs, fb, zeros, ones = (int(v) for v in toks[:7])
            xbad = f32(fb) if fb < (1 << 32) else None
            if cnt != b - a + 1:
                fails.append(Failure(i, "logistic:sweep", "sweep %d..%d evaluated %d patterns" % (a, b, cnt)))
            if br:
                fails.append(Failure(i, "logistic:range", "%d f32 arguments in patterns %d..%d with logistic(+-x) outside [0,1], first x = %r" % (br, a, b, xbad)))
            if bm:
                fails.append(Failure(i, "logistic:monotone", "%d adjacent f32 arguments in patterns %d..%d where logistic decreases, first at x = %r" % (bm, a, b, xbad)))
            if bs:
                fails.append(Failure(i, "logistic:symmetry", "%d f32 arguments in patterns %d..%d with |logistic(x) + logistic(-x) - 1| > 200 eps, first x = %r" % (bs, a, b, xbad)))
            # exact zeros: logistic(-x) = 0 exactly when exp(x) overflows (x > ln f64::MAX), and nowhere else
            tb = f32bits(EXP_OVERFLOW)
            if f32(tb) <= EXP_OVERFLOW:
                tb += 1
            want0 = max(0, b - max(a, tb) + 1)
            if zeros != want0:
                fails.append(Failure(i, "logistic:underflow-zero", "patterns %d..%d: logistic(-x) is exactly 0 for %d arguments, expected %d (those with exp(x) = inf)" % (a, b, zeros, want0)))
            sweep_edges.append((a, b, h2f(toks[8]), h2f(toks[9]), h2f(toks[10]), h2f(toks[11]), i))
            continue
        # ------------------------------------------------------------------ logistic
        if op == "logisticv":
            n = int(t[1])
            xs = [h2f(v) for v in t[2:2 + n]]
            key = "logistic"
            if st != "ok" or len(toks) != n + 1:
                fails.append(Failure(i, key, "logistic vector reply malformed: %s" % rep[:80]))
                continue
            vs = [h2f(v) for v in toks[1:]]
            table = {}
            for x, v in zip(xs, vs):
                if x != x:
                    continue
                if not (0.0 <= v <= 1.0):
                    fails.append(Failure(i, "logistic:range", "logistic(%r) = %r is outside [0,1]" % (x, v)))
                    continue
                table[x] = v
                logi.append((x, v))
                if x < -EXP_OVERFLOW and v != 0.0:
                    # specified behaviour: exp(-x) overflows to inf and 1/(1+inf) is exactly 0 (the true value is a positive subnormal)
                    fails.append(Failure(i, "logistic:underflow-zero", "logistic(%r) = %r, expected exactly 0 (exp(%r) = inf)" % (x, v, -x), f2h(0.0)))
                    continue
                if math.isinf(x):
                    ref = mpf(1) if x > 0 else mpf(0)
                else:
                    ref = 1 / (1 + m.exp(-mpf(x)))
                # forward error of 1/(1+exp(-x)): exp 1 ulp, add and divide half an ulp each; a result in the
                # subnormal range (x < -708.4) may be flushed to 0 when exp(-x) overflows: absolute 2^-1022
                chk_close(fails, i, "logistic:value", "logistic(%r)" % x, v, ref, 400 * EPS * ref + MINNORM,
                          "logistic_rel_eps", EPS * ref if ref > MINNORM else 0)
            for x, v in table.items():
                if -x in table and x >= 0:
                    w = table[-x]
                    d = abs(Fraction(v) + Fraction(w) - 1)
                    note("logistic_symm_eps", float(d) / EPS)
                    if d > 200 * EPS:
                        fails.append(Failure(i, "logistic:symmetry", "logistic(%r) + logistic(%r) = 1 %+g" % (x, -x, float(Fraction(v) + Fraction(w) - 1))))
            continue
        # ------------------------------------------------------------------ logit
        if op == "logit":
            p = h2f(t[1])
            inside = (p == p) and 0.0 <= p <= 1.0
            if not inside:
                if st != "panic":
                    fails.append(Failure(i, "logit:reject", "logit(%r) returned %s instead of rejecting an argument outside [0,1]" % (p, rep.strip())))
                continue
            if st != "ok":
                fails.append(Failure(i, "logit:defined", "logit(%r): %s for an argument inside [0,1]" % (p, st)))
                continue
            r = h2f(toks[0])
            if p == 0.0:
                if r != float("-inf"):
                    fails.append(Failure(i, "logit:value", "logit(0) = %r, expected -inf" % r))
                continue
            if p == 1.0:
                if r != float("inf"):
                    fails.append(Failure(i, "logit:value", "logit(1) = %r, expected +inf" % r))
                continue
            ref = m.log(mpf(p) / (1 - mpf(p)))
            # 1-p and p/(1-p) half an ulp each (relative), ln turns that into an absolute error; ln itself 1 ulp
            chk_close(fails, i, "logit:value", "logit(%r)" % p, r, ref, 400 * EPS * (1 + abs(ref)),
                      "logit_eps", EPS * (1 + abs(ref)))
            continue
        if op == "rt1":
            x = h2f(t[1])
            if st != "ok":
                fails.append(Failure(i, "rt1", "logit(logistic(%r)): %s" % (x, st)))
                continue
            p, r = h2f(toks[0]), h2f(toks[1])
            if not (0.0 <= p <= 1.0):
                fails.append(Failure(i, "logistic:range", "logistic(%r) = %r is outside [0,1]" % (x, p)))
                continue
            if p == 1.0 or p == 0.0:
                # the information is lost to rounding of logistic(x) (|x| > 36.7 resp. exp overflow): only the sign
                if (p == 1.0 and not (r == float("inf") and x > 0)) or (p == 0.0 and not (r == float("-inf") and x < 0)):
                    fails.append(Failure(i, "rt1", "logit(logistic(%r)) = %r with logistic = %r" % (x, r, p)))
                continue
            # logistic(x) carries a relative error of a few eps; logit amplifies it by 1/(1-p)
            cond = 1 / (1 - mpf(p))
            scale = EPS * (1 + abs(x) + cond)
            chk_close(fails, i, "rt1", "logit(logistic(%r))" % x, r, mpf(x), 400 * scale, "rt1_eps", scale)
            continue
        if op == "rt2":
            p = h2f(t[1])
            if not ((p == p) and 0.0 <= p <= 1.0):
                if st != "panic":
                    fails.append(Failure(i, "logit:reject", "logit(%r) returned %s instead of rejecting an argument outside [0,1]" % (p, rep.strip())))
                continue
            if st != "ok":
                fails.append(Failure(i, "rt2", "logistic(logit(%r)): %s" % (p, st)))
                continue
            q, r = h2f(toks[0]), h2f(toks[1])
            if math.isinf(q):
                if not ((p == 0.0 and r == 0.0) or (p == 1.0 and r == 1.0)):
                    fails.append(Failure(i, "rt2", "logistic(logit(%r)) = %r (logit = %r)" % (p, r, q)))
                continue
            # logit carries an absolute error of a few eps(1+|q|); logistic' = p(1-p)
            scale = EPS * (p * (1 + abs(q) * (1 - p)) + p)
            chk_close(fails, i, "rt2", "logistic(logit(%r))" % p, r, mpf(p), 400 * scale + MINNORM, "rt2_eps",
                      scale if p > 1e-290 else 0)
            continue
        # ------------------------------------------------------------------ Box-Cox
        if op in ("boxcox", "boxcoxs"):
            x, lam = h2f(t[1]), h2f(t[2])
            alpha = h2f(t[3]) if op == "boxcoxs" else 0.0
            if x != x or lam != lam or alpha != alpha:
                if x != x and st != "panic":
                    fails.append(Failure(i, op + ":domain", "%s(NaN, ...) returned %s" % (op, rep.strip())))
                continue
            s = Fraction(x) + Fraction(alpha)
            if s <= 0:
                if st != "panic":
                    fails.append(Failure(i, op + ":domain", "%s(x=%r, lambda=%r, shift=%r): x + shift = %g <= 0 but the call returned %s" % (
                        op, x, lam, alpha, float(s), rep.strip())))
                continue
            if st != "ok":
                fails.append(Failure(i, op + ":domain", "%s(x=%r, lambda=%r, shift=%r): x + shift = %g > 0 but the call panicked" % (
                    op, x, lam, alpha, float(s))))
                continue
            r = h2f(toks[0])
            sm = mpf(s.numerator) / mpf(s.denominator)
            sf = x + alpha                      # the float the code works with; relative error <= eps/2
            if lam == 0.0:
                ref = m.log(sm)
                # d ln = ds/s: eps/2 from the rounded sum, 1 ulp from ln
                scale = EPS * (1 + abs(ref))
                chk_close(fails, i, op + ":log", "%s(%r, 0, %r)" % (op, x, alpha), r, ref, 400 * scale, "boxcox_log_eps", scale)
            else:
                lm = mpf(lam)
                pw = sm ** lm
                ref = (pw - 1) / lm
                # cancellation-aware forward bound: pow carries (1 + |lambda ln s|) ulp of |s^lambda| (rounded sum),
                # the subtraction and the division half an ulp each
                scale = EPS * (pw * (1 + abs(lm * m.log(sm))) + abs(pw - 1)) / abs(lm)
                chk_close(fails, i, op + ":value", "%s(%r, %r, %r)" % (op, x, lam, alpha), r, ref, 400 * scale + 8 * TINY,
                          "boxcox_eps", scale)
            continue
        # ------------------------------------------------------------------ softmax
        if op == "softmax2":
            c = h2f(t[1])
            n = int(t[2])
            xs = [h2f(v) for v in t[3:3 + n]]
            key = "softmax"
            if st != "ok":
                fails.append(Failure(i, key, "softmax on %d finite entries: %s" % (n, st)))
                continue
            if n == 0:
                if toks != ["0", "0"]:
                    fails.append(Failure(i, key, "softmax of the empty vector: %s" % rep[:60]))
                continue
            if len(toks) != 2 * n + 2:
                fails.append(Failure(i, key, "softmax reply has %d tokens for n = %d" % (len(toks), n)))
                continue
            a = [h2f(v) for v in toks[1:1 + n]]
            b = [h2f(v) for v in toks[2 + n:]]
            ys = [v + c for v in xs]
            for name, inp, out in (("x", xs, a), ("x+c", ys, b)):
                bad = [j for j in range(n) if not (out[j] >= 0.0) or math.isinf(out[j])]
                if bad:
                    fails.append(Failure(i, "softmax:nonneg", "softmax(%s)[%d] = %r is not a non-negative finite number (input %r, n = %d)" % (
                        name, bad[0], out[bad[0]], inp[bad[0]], n)))
                    break
                mx_ = max(inp)
                uz = [j for j in range(n) if inp[j] - mx_ < -745.2 and out[j] != 0.0]
                if uz:
                    fails.append(Failure(i, "softmax:underflow-zero", "softmax(%s)[%d] = %r for an entry %r below the maximum: exp underflows, expected exactly 0" % (
                        name, uz[0], out[uz[0]], mx_ - inp[uz[0]]), f2h(0.0)))
                    break
                tot = sum(Fraction(v) for v in out)
                note("softmax_sum_neps", float(abs(tot - 1)) / (max(n, 2) * EPS))
                if abs(tot - 1) > max(n, 2) * EPS:
                    fails.append(Failure(i, "softmax:sum", "softmax(%s) sums to 1 %+g with n = %d (allowed n*eps = %g)" % (
                        name, float(tot - 1), n, max(n, 2) * EPS)))
                    break
                order = sorted(range(n), key=lambda j: inp[j])
                for u, v in zip(order, order[1:]):
                    if out[u] > out[v] or (inp[u] == inp[v] and out[u] != out[v]):
                        fails.append(Failure(i, "softmax:order", "softmax(%s): inputs %r <= %r but outputs %r, %r" % (
                            name, inp[u], inp[v], out[u], out[v])))
                        break
                # reference exp(x_i - max)/sum
                mx = max(inp)
                es = [m.exp(mpf(v) - mpf(mx)) for v in inp]
                S = sum(es)
                for j in range(n):
                    ref = es[j] / S
                    d = abs(inp[j] - mx)
                    scale = EPS * (2 + n / 2.0 + d) * ref
                    chk_close(fails, i, "softmax:value", "softmax(%s)[%d] (n = %d)" % (name, j, n), out[j], ref,
                              200 * scale + 4 * TINY, "softmax_val_eps", scale if ref > MINNORM else 0)
            else:
                # shift invariance: the rounding of x_i + c perturbs the arguments by eta_i, an argument perturbation
                # eta changes every output by a factor within exp(+-2 eta); both evaluations carry their own rounding
                eta = max(abs(Fraction(ys[j]) - Fraction(xs[j]) - Fraction(c)) for j in range(n))
                mx = max(xs)
                for j in range(n):
                    d = abs(xs[j] - mx)
                    scale = (4 * float(eta) + 2 * EPS * (2 + n / 2.0 + d)) * max(a[j], b[j])
                    err = abs(a[j] - b[j])
                    if scale > 0:
                        note("softmax_shift", err / scale)
                    if err > 100 * scale + 4 * TINY:
                        fails.append(Failure(i, "softmax:shift", "softmax(x)[%d] = %r but softmax(x + %r)[%d] = %r (n = %d)" % (
                            j, a[j], c, j, b[j], n)))
                        break
            continue
    # ---------------------------------------------------------------------- global checks
    sweep_edges.sort()
    for (a0, b0, _, _, pl, ql, _), (a1, b1, pf, qf, _, _, i1) in zip(sweep_edges, sweep_edges[1:]):
        if a1 == b0 + 1 and not (pf >= pl and qf <= ql):
            fails.append(Failure(i1, "logistic:monotone", "logistic decreases between the f32 patterns %d and %d (chunk boundary)" % (b0, a1)))
    logi.sort()
    for (x0, v0), (x1, v1) in zip(logi, logi[1:]):
        if v0 > v1:
            fails.append(Failure(None, "logistic:monotone", "logistic(%r) = %r > logistic(%r) = %r" % (x0, v0, x1, v1)))
            break
    for (n, k), c in binom_seen.items():
        if (n, n - k) in binom_seen and binom_seen[(n, n - k)] != c:
            fails.append(Failure(None, "binom:symmetry", "binom_coeff(%d,%d) != binom_coeff(%d,%d)" % (n, k, n, n - k)))
        if k >= 1 and (n - 1, k) in binom_seen and (n - 1, k - 1) in binom_seen:
            if binom_seen[(n - 1, k)] + binom_seen[(n - 1, k - 1)] != c:
                fails.append(Failure(None, "binom:pascal", "Pascal's rule fails at (%d,%d)" % (n, k)))
    return fails

# --- source tie (translator tools/rs2lean.py: the straight-line functions of this property are regenerated from /repo/src on every run
# into lean/Compute/Generated/SrcC17.lean and proved equal to the hand model in Props/SrcTieC17.lean)
from . import srctie
srctie.wire(globals(), 'C17')

# --- deep theorems (Rounding3)
PROOF_MODULES = PROOF_MODULES + ['Compute.Lemmas.LogRounding', 'Compute.Props.Rounding3']
REQUIRED_THEOREMS = REQUIRED_THEOREMS + ['Cv.Rounding3.softmax_sum_error_stdmodel', 'Cv.Rounding3.softmax_entry_near', 'Cv.Rounding3.logistic_error', 'Cv.Rounding3.logistic_range_stdmodel', 'Cv.Rounding3.stdmodel_softmax_note', 'Cv.Rounding3.stdmodel_logistic_note']
NOT_PROVED = [x for x in NOT_PROVED if not any(k in str(x) for k in ('floating-point rounding of the transforms',))]
NOT_PROVED = NOT_PROVED + ['rounding of logit and Box-Cox (oracle only); for softmax and logistic the float-level claims ARE proved in the standard model with libm exp/ln of relative error <= u_f (Props/Rounding3): every computed softmax entry > 0 and |sum - 1| <= gamma_(n+1), entries within an explicit factor of the exact ones, logistic in (0,1] with relative error <= gamma_2 + gamma^f_1']

# --- deep theorems (Rounding5: float-level bounds in the standard model, wired by the lead)
PROOF_MODULES = PROOF_MODULES + [m for m in ['Compute.Lemmas.Rounding5', 'Compute.Props.Rounding5'] if m not in PROOF_MODULES]
REQUIRED_THEOREMS = REQUIRED_THEOREMS + ['Cv.Rounding5.logit_error', 'Cv.Rounding5.boxcox_zero_error', 'Cv.Rounding5.boxcox_error', 'Cv.Rounding5.boxcoxShifted_eq']
NOT_PROVED = [('all float-level claims are proved in the standard model with libm exp/ln/pow of relative error <= u_f: softmax/logistic (Props/Rounding3); logit within u_f |logit p| + (1+u_f) gamma_2 for 0 < p < 1, Box-Cox within gamma_2 |bc| + (1+gamma_2) u_f x^lambda/|lambda| (lambda = 0: u_f |ln x|), boxcox_shifted = boxcox at the computed x+alpha (Props/Rounding5); the endpoints p = 0, 1 (infinite results) are oracle only' if str(x).startswith('rounding of logit and Box-Cox') else x) for x in NOT_PROVED]


# --- review fixes (owner of C16/C17, after review-d): NOT_PROVED lists what is not proved, and every sentence about the standard-model
# float theorems carries the no-underflow proviso (the theorems themselves live in Props/Rounding3, Lemmas/LogRounding: not this owner's files)
_FLOAT_ENTRY = (
    "everything at f64 OUTSIDE the standard model (libm exp/ln/pow of relative error <= u_f and NO under/overflow), which includes part of the "
    "property's own domain: for x < -708.39 (logistic) resp. x_i - max < -708 (softmax) the computed values may be exactly 0 "
    "(logistic(-710.0) = 0 although the true value is 4.5e-309; softmax [0,-800,1e4] = [0,0,1]), so at f64 the range of logistic is [0,1], "
    "not (0,1], softmax entries are >= 0, not > 0, and no relative-error bound holds there; the oracle demands values in [0,1] resp. >= 0 and "
    "EXACT zeros where exp under/overflows (keys logistic:underflow-zero, softmax:underflow-zero). Inside the standard model the owner of "
    "Props/Rounding3 and Props/Rounding5 proves: softmax entries > 0 and |sum - 1| <= gamma_(n+1) for lengths <= 999 (the contract allows "
    "1000), entries within an explicit factor of the exact ones, logistic in (0,1] with relative error <= gamma_2 + gamma^f_1, logit within "
    "u_f |logit p| + (1+u_f) gamma_2 for 0 < p < 1, Box-Cox within gamma_2 |bc| + (1+gamma_2) u_f x^lambda/|lambda|; the endpoints p = 0, 1 "
    "of logit (infinite results) are oracle only")
NOT_PROVED = [(_FLOAT_ENTRY if ("standard model" in str(x) and "softmax" in str(x)) else x) for x in NOT_PROVED]

# --- review repairs in the Rounding layer (renamed stdmodel_* theorems, underflow-aware variants, genuine FlModel instance; wired by the lead)
PROOF_MODULES = PROOF_MODULES + [m for m in ['Compute.Lemmas.FlModelGrid', 'Compute.Props.RoundingGrid'] if m not in PROOF_MODULES]
REQUIRED_THEOREMS = REQUIRED_THEOREMS + [t for t in ['Cv.Rounding3U.logistic_range_ufl', 'Cv.Rounding3U.softmax_sum_error_ufl', 'Cv.FlModel.grid_abs_sub_le', 'Cv.FlModel.grid_idem', 'Cv.FlModel.grid_mono', 'Cv.FlModel.grid_rnd_one', 'Cv.FlModel.grid_rnd_natCast', 'Cv.FlModel.grid_rnd_dyadic', 'Cv.FlModel.f64grid_u', 'Cv.FlModel.f64grid_mono'] if t not in REQUIRED_THEOREMS]
NOT_PROVED = list(NOT_PROVED) + ['theorems named stdmodel_* hold in the idealised standard model (fl(x) = x(1+d) for every operation, library functions with relative error <= u_f for every argument) at u = 2^-53; they describe binary64 only where nothing overflows or underflows (for exp: arguments in [-708.39, 709.78]); outside that range computed values may be exactly 0 or inf', 'under ExpLnUfl (exp computed as e^x(1+d)+eta, underflow allowed) logistic, softmax, RBF and RQ values are proved in [0,1] resp. >= 0 (namespace Rounding3U); strict positivity is a theorem of the no-underflow model only; logistic(800) = 1 and an RBF value of exactly 0 are exhibited', 'FlModel has a genuine instance, FlModel.grid p (radix 2, p digits, round to nearest, unbounded exponent; f64grid has u = 2^-53), proved to satisfy the standard model and to be idempotent and monotone, with integers <= 2^p and dyadics exact (Lemmas/FlModelGrid); headline rounding theorems are instantiated on it (Props/RoundingGrid); overflow and underflow remain outside the model']


# --- FINAL block (owner of C16/C17, after review2-b): the complete, final NOT_PROVED as a literal list (supersedes every rewrite above), and
# the theorems the claim text cites
REQUIRED_THEOREMS = REQUIRED_THEOREMS + [t for t in [
    "Cv.C17.binom_underflow", "Cv.C17.logit_defined_iff", "Cv.C17.logistic_mono", "Cv.C17.softmax_order_strict", "Cv.C17.softmax_length",
    "Cv.C17.boxcox_rejects", "Cv.C17.boxcoxShifted_formula", "Cv.C17.boxcoxShifted_zero", "Cv.C17.boxcoxBody_tendsto_zero",
    "Cv.C17.logGammaAcc_of_rel", "Cv.C17.altValue_bounds"] if t not in REQUIRED_THEOREMS]
# the owner of Lemmas/LogRounding renamed two required theorems (review2-b); map the old names wherever an earlier block still lists them
_RENAMED = {"Cv.Rounding3.softmax_sum_error_stdmodel": "Cv.Rounding3.softmax_sum_error_stdmodel",
            "Cv.Rounding3.logistic_range_stdmodel": "Cv.Rounding3.logistic_range_stdmodel"}
REQUIRED_THEOREMS = list(dict.fromkeys(_RENAMED.get(t, t) for t in REQUIRED_THEOREMS))
NOT_PROVED = [
    "accuracy of libm exp/ln/pow (a hypothesis u_f of every float-level theorem; measured by the mpmath oracle)",
    "logistic o logit = id is proved on the open interval (0,1) only; at p = 0 and p = 1 the real-number model carries the junk values of the "
    "totalised log 0 and 1/0, the code returns -inf / +inf (proved to be the one-sided limits: logit_tendsto_zero / logit_tendsto_one) and the "
    "oracle checks those two results exactly",
    "accuracy of logistic against mpmath is SAMPLED (2e6 of the 2.29e9 f32 arguments = 0.09 % in the thorough tier, 2e4 in the quick tier); "
    "range [0,1], monotonicity, reflection within 200 eps, the exact zeros and the model tie are decided on EVERY f32 in +-745 by the "
    "exhaustive logsweep of the thorough tier only (quick: 12 chunks of 20000 patterns)",
    "binom_coeff_alt: the accuracy of the Lanczos ln_gamma is a HYPOTHESIS (LogGammaAcc / LogGammaRelAcc) of binomAlt_exact_of_acc and its "
    "corollaries, never established for the model ln_gamma (the C09 oracle enforces 1e-12 max(1,|ln Gamma|) and observes 2e-15 at f64), and the "
    "f64 rounding of the two subtractions and of exp comes on top of it (added to the bound by the oracle); given delta = 1e-9 the result is "
    "proved exact for C(n,k) <= 1.6e8 over the reals; symmetry is proved for commutative subtraction only (it fails at f64); for very large n "
    "the absolute error of ln_gamma (about u n ln n) exceeds 1 and the result is meaningless (oracle bound vacuous there, tie only)",
    "softmax theorems over the reals take the fold seed as any lower bound of the entries (the reals have no -infinity)",
    "float-level theorems exist in two idealised models, both owned by Props/Rounding3 + Lemmas/LogRounding: (1) the standard model "
    "(stdmodel_*, logistic_range_stdmodel, softmax_sum_error_stdmodel; every operation and exp/ln/pow with relative error only, NO underflow and NO overflow): "
    "softmax entries > 0 and |sum - 1| <= gamma_(n+1) for lengths <= 1000 (gamma_1001), entries within an explicit factor of the exact ones, "
    "logistic in (0,1] with relative error <= gamma_2 + gamma^f_1, logit and Box-Cox error bounds (Props/Rounding5); it describes binary64 only "
    "while nothing under- or overflows, for exp: arguments in [-708.39, 709.78]; (2) the underflow-aware model ExpLnUfl (exp x = e^x (1+d) + eta; "
    "underflow allowed, OVERFLOW still excluded): logistic_range_ufl gives logistic in [0,1], softmax_sum_error_ufl gives softmax entries >= 0 "
    "and |sum - 1| <= gamma_(n+1) UNDER THE HYPOTHESIS hS that the computed sum of exponentials is positive (true at f64 because the term of "
    "the maximum is exp(0) = 1; discharged in an example by the owner of that file, not in the theorem); the exact zeros of softmax "
    "([0,-800,1e4] -> [0,0,1]) and of the RBF kernel are UNDERFLOW and are covered by these _ufl variants",
    "NOT covered by either model: the exact 0 of logistic for x < -709.78 (577 001 f32 arguments in [-745, -709.78), e.g. logistic(-710.0) = 0 "
    "while the true value is 4.5e-309). It comes from OVERFLOW of exp(-x) = exp(710) = inf and 1/(1+inf) = 0, not from underflow: in every "
    "ExpLnUfl model logistic is strictly positive, so no theorem reaches that regime (and the strict positivity 0 < logistic is a theorem of "
    "BOTH models, false of binary64 there). It is specified by the oracle clause logistic:underflow-zero (result exactly 0 iff exp(-x) = inf) "
    "and decided on every f32 argument by the exhaustive logsweep of the thorough tier (0 violations, 577 001 exact zeros); at f64 the range "
    "of logistic is [0,1]",
    "overflow and underflow are outside FlModel altogether (its genuine instance FlModel.grid has an unbounded exponent, Lemmas/FlModelGrid); the "
    "endpoints p = 0, 1 of logit (infinite results) are oracle only",
]
