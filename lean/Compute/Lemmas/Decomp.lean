import Compute.Model.Solve
import Compute.Model.MatrixLinalg
import Mathlib.Algebra.BigOperators.Group.List.Basic
import Mathlib.Algebra.Ring.Defs
import Mathlib.Tactic.Ring
/-
Helper lemmas for C01 / C11: the shape helpers `isSquare`, `isMatrix`, reads `rd`, and the unrolled
dot product as a plain sum.
-/
namespace Cv.LA

theorem isSquare_some {len n : Nat} (h : isSquare len = some n) : n * n = len := by
  unfold isSquare at h
  have := List.find?_some h
  simpa using this

theorem isSquare_sq (n : Nat) : isSquare (n * n) = some n := by
  cases h : isSquare (n * n) with
  | none =>
    unfold isSquare at h
    rw [List.find?_eq_none] at h
    have := h n (by simp; exact Nat.lt_succ_of_le (Nat.le_mul_self n))
    simp at this
  | some k =>
    have hk := isSquare_some h
    have : k = n := Nat.mul_self_inj.mp hk
    rw [this]

theorem isSquare_eq_some_iff {len n : Nat} : isSquare len = some n ↔ n * n = len :=
  ⟨isSquare_some, fun h => h ▸ isSquare_sq n⟩

theorem isMatrix_eq_some_iff {len r c : Nat} : isMatrix len r = some c ↔ r ≠ 0 ∧ r * c = len := by
  unfold isMatrix
  by_cases hr : r = 0
  · simp [hr]
  · simp only [hr, if_false]
    constructor
    · intro h
      split at h
      · rename_i h2
        cases h
        exact ⟨hr, h2⟩
      · cases h
    · rintro ⟨_, h⟩
      have : len / r = c := by
        rw [← h, Nat.mul_div_cancel_left c (Nat.pos_of_ne_zero hr)]
      rw [this, if_pos h]

section rd
variable {α : Type} [Zero α]

theorem rd_eq_getElem (a : List α) (i : Nat) (h : i < a.length) : rd a i = a[i] := by
  simp [rd, List.getD_eq_getElem?_getD, List.getElem?_eq_getElem h]

theorem rd_map_range (f : Nat → α) (n i : Nat) (h : i < n) : rd ((List.range n).map f) i = f i := by
  rw [rd_eq_getElem _ _ (by simpa using h)]
  simp

theorem rd_append_left (a b : List α) (i : Nat) (h : i < a.length) : rd (a ++ b) i = rd a i := by
  simp [rd, List.getD_eq_getElem?_getD, List.getElem?_append_left h]

theorem rd_append_length (a : List α) (x : α) : rd (a ++ [x]) a.length = x := by
  simp [rd, List.getD_eq_getElem?_getD]

theorem rd_cons_zero (x : α) (a : List α) : rd (x :: a) 0 = x := by simp [rd]

theorem rd_cons_succ (x : α) (a : List α) (i : Nat) : rd (x :: a) (i + 1) = rd a i := by simp [rd]

theorem rd_drop (a : List α) (k i : Nat) : rd (a.drop k) i = rd a (k + i) := by
  simp [rd, List.getD_eq_getElem?_getD]

end rd

section dot
variable {α : Type} [CommSemiring α]

theorem foldl_add_eq (l : List α) (s : α) : l.foldl (· + ·) s = s + l.sum := by
  induction l generalizing s with
  | nil => simp
  | cons x xs ih => simp [ih, add_assoc]

theorem dot8Go_eq (s : α) (x y : List α) : dot8Go s x y = s + (List.zipWith (· * ·) x y).sum := by
  fun_induction dot8Go s x y with
  | case1 s x0 x1 x2 x3 x4 x5 x6 x7 xs y0 y1 y2 y3 y4 y5 y6 y7 ys ih =>
    rw [ih]; simp [List.zipWith_cons_cons, List.sum_cons]; ring
  | case2 s xs ys _ => exact foldl_add_eq _ _

theorem dot8_eq_sum (x y : List α) : dot8 x y = (List.zipWith (· * ·) x y).sum := by
  simp [dot8, dot8Go_eq]

end dot
end Cv.LA
