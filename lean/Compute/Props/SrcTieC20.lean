import Compute.Model.GpKernels
import Compute.Generated.SrcC20
/-
Source tie for C20 (`src/predict/gps/kernels.rs`): the scalar `forward` bodies of the macros
`impl_kernel_f64_for_rbf!` / `impl_kernel_f64_for_rq!` (instantiated for `f64` and `&f64`; the translator checks
that every instantiation is a scalar) are regenerated from the Rust source into `Compute/Generated/SrcC20.lean`
on every run; the theorems say they are the hand-written `Cv.Gp.RBF.fwd` / `Cv.Gp.RQ.fwd` of
`Compute/Model/GpKernels.lean`, as functions, for every scalar type.  Proofs: `rfl` (the model only names the
sub-terms `two`, `denom`).
-/
set_option linter.unusedSectionVars false
namespace Cv.SrcTie.C20

variable {α : Type} [Add α] [Sub α] [Mul α] [Div α] [Neg α] [Zero α] [One α] [NatCast α] [IntCast α]
  [LT α] [DecidableLT α] [LE α] [DecidableLE α] [BEq α] [Cv.Transc α]

/-- `(-(x - y).powi(2) / (2. * self.length_scale.powi(2))).exp() * self.var` is `RBF.fwd`. -/
theorem rbfFwd_eq : (Cv.Src.C20.rbfFwd : Cv.Gp.RBF α → α → α → α) = Cv.Gp.RBF.fwd := rfl

/-- `(1. + (x - y).powi(2) / (2. * self.alpha * self.length_scale.powi(2))).powf(-self.alpha) * self.var` is `RQ.fwd`. -/
theorem rqFwd_eq : (Cv.Src.C20.rqFwd : Cv.Gp.RQ α → α → α → α) = Cv.Gp.RQ.fwd := rfl

example : (Cv.Src.C20.rqFwd : Cv.Gp.RQ Float → Float → Float → Float) = Cv.Gp.RQ.fwd := rqFwd_eq

end Cv.SrcTie.C20
