import Compute.Lemmas.CholSolve
import Mathlib.LinearAlgebra.Matrix.NonsingularInverse
import Mathlib.LinearAlgebra.Matrix.Nondegenerate
import Mathlib.LinearAlgebra.Matrix.Block
/-
Bridge between the flat row-major arrays of the model and Mathlib's `Matrix (Fin n) (Fin n) F`:
`A·x = b` entrywise ⇔ `toMatrix a *ᵥ toVec x = toVec b`; the Cholesky factor makes `A` non-singular;
a solver that answers every right-hand side correctly proves `A` non-singular.
-/
set_option linter.unusedSectionVars false
namespace Cv.LA
open Finset

section
variable {F : Type} [Field F]

/-- the `n × n` matrix stored row-major in `a` -/
def toMatrix (n : Nat) (a : List F) : Matrix (Fin n) (Fin n) F := fun i j => rd a (i.1 * n + j.1)

/-- the vector stored in `x` -/
def toVec (n : Nat) (x : List F) : Fin n → F := fun i => rd x i.1

theorem mulVec_toMatrix (n : Nat) (a x : List F) (i : Fin n) :
    (toMatrix n a).mulVec (toVec n x) i = ∑ j ∈ range n, rd a (i.1 * n + j) * rd x j := by
  rw [← Fin.sum_univ_eq_sum_range (fun j => rd a (i.1 * n + j) * rd x j) n]
  rfl

/-- entrywise `A·x = b` is `A *ᵥ x = b` -/
theorem solves_iff_mulVec (n : Nat) (a x b : List F) :
    (∀ i, i < n → ∑ j ∈ range n, rd a (i * n + j) * rd x j = rd b i) ↔
      (toMatrix n a).mulVec (toVec n x) = toVec n b := by
  constructor
  · intro h
    funext i
    rw [mulVec_toMatrix]
    exact h i.1 i.2
  · intro h i hi
    have := congrFun h ⟨i, hi⟩
    rw [mulVec_toMatrix] at this
    exact this

theorem list_eq_of_toVec_eq (n : Nat) (x y : List F) (hx : x.length = n) (hy : y.length = n)
    (h : toVec n x = toVec n y) : x = y := by
  apply List.ext_getElem (by rw [hx, hy])
  intro i h1 h2
  have := congrFun h ⟨i, by omega⟩
  simp only [toVec] at this
  rwa [rd_eq_getElem _ _ h1, rd_eq_getElem _ _ h2] at this

theorem toVec_ofFn (n : Nat) (v : Fin n → F) : toVec n (List.ofFn v) = v := by
  funext i
  simp only [toVec]
  rw [rd_eq_getElem _ _ (by simp)]
  simp

/-- a solution of `A·x = b` for non-singular `A` is `A⁻¹ b` -/
theorem toVec_eq_inv_mulVec (n : Nat) (a x b : List F) (hdet : (toMatrix n a).det ≠ 0)
    (h : ∀ i, i < n → ∑ j ∈ range n, rd a (i * n + j) * rd x j = rd b i) :
    toVec n x = (toMatrix n a)⁻¹.mulVec (toVec n b) := by
  have h' := (solves_iff_mulVec n a x b).mp h
  have hu : IsUnit (toMatrix n a).det := isUnit_iff_ne_zero.mpr hdet
  rw [← h', Matrix.mulVec_mulVec, Matrix.nonsing_inv_mul _ hu, Matrix.one_mulVec]

/-- uniqueness of the solution of a non-singular system -/
theorem solution_unique (n : Nat) (a x y b : List F) (hdet : (toMatrix n a).det ≠ 0)
    (hx : x.length = n) (hy : y.length = n)
    (h1 : ∀ i, i < n → ∑ j ∈ range n, rd a (i * n + j) * rd x j = rd b i)
    (h2 : ∀ i, i < n → ∑ j ∈ range n, rd a (i * n + j) * rd y j = rd b i) : x = y :=
  list_eq_of_toVec_eq n x y hx hy
    ((toVec_eq_inv_mulVec n a x b hdet h1).trans (toVec_eq_inv_mulVec n a y b hdet h2).symm)

/-- **`L·Lᵀ` with a lower-triangular `L` of non-zero diagonal is non-singular.** -/
theorem chol_det_ne_zero (n : Nat) (a l : List F)
    (hd : ∀ i, i < n → rd l (i * n + i) ≠ 0)
    (hlow : ∀ r c, r < n → c < n → r < c → rd l (r * n + c) = 0)
    (hA : ∀ i j, i < n → j < n → ∑ k ∈ range n, rd l (i * n + k) * rd l (j * n + k) = rd a (i * n + j)) :
    (toMatrix n a).det ≠ 0 := by
  have hmul : toMatrix n a = toMatrix n l * (toMatrix n l).transpose := by
    ext i j
    rw [Matrix.mul_apply]
    simp only [toMatrix, Matrix.transpose_apply]
    rw [Fin.sum_univ_eq_sum_range (fun k => rd l (i.1 * n + k) * rd l (j.1 * n + k)) n]
    exact (hA i.1 j.1 i.2 j.2).symm
  have htri : (toMatrix n l).IsLowerTriangular := by
    intro i j hij
    exact hlow i.1 j.1 i.2 j.2 (by simpa using hij)
  have hdetl : (toMatrix n l).det ≠ 0 := by
    rw [Matrix.det_of_isLowerTriangular _ htri]
    exact Finset.prod_ne_zero_iff.mpr fun i _ => hd i.1 i.2
  rw [hmul, Matrix.det_mul, Matrix.det_transpose]
  exact mul_ne_zero hdetl hdetl

/-- a procedure that produces a solution of `A·x = v` for every `v` witnesses that `A` is non-singular -/
theorem det_ne_zero_of_solver (n : Nat) (a : List F)
    (h : ∀ v : Fin n → F, ∃ x : List F, ∀ i : Fin n, ∑ j ∈ range n, rd a (i.1 * n + j) * rd x j = v i) :
    (toMatrix n a).det ≠ 0 := by
  have hs : Function.Surjective (toMatrix n a).mulVec := by
    intro v
    obtain ⟨x, hx⟩ := h v
    refine ⟨toVec n x, ?_⟩
    funext i
    rw [mulVec_toMatrix]
    exact hx i
  have hu := Matrix.mulVec_surjective_iff_isUnit.mp hs
  exact isUnit_iff_ne_zero.mp ((Matrix.isUnit_iff_isUnit_det _).mp hu)

end
end Cv.LA
