import Compute.Drv.Common
import Compute.Model.Scalar
import Compute.Model.Rng
import Compute.Model.Resample
/-
Driver for C19 and for the validation of the generator model.  Protocol: see /verif/exec/src/bin/c19.rs.
Every random reply ends with the generator state after the call.
-/
open Cv

def c19Join (ts : List String) : String := " ".intercalate (ts.filter (· ≠ ""))

def c19State (body : String) (g : Rng) : String := ok (c19Join [body, toString g.s.toNat])

def c19Draws {β : Type} (sh : List β → String) (r : Option (List β × Rng)) : String :=
  match r with
  | none => panicked
  | some (vs, g) => c19State (sh vs) g

def c19ShowNats (vs : List Nat) : String := " ".intercalate (vs.map toString)
def c19ShowInts (vs : List Int) : String := " ".intercalate (vs.map toString)

def c19Nested (rs : List (List Float)) : String :=
  c19Join [toString rs.length, c19ShowNats (rs.map List.length), showFloats rs.flatten]

def c19Rng (kind : String) (rest : List String) : String :=
  let F := lemireFuel
  match kind with
  | "u64" => withArgs (do let s ← pU64; let n ← pNat; pure (s, n)) rest fun (s, n) =>
      let (vs, g) := Rng.drawN Rng.u64 n (Rng.ofSeed s); c19State (c19ShowNats (vs.map UInt64.toNat)) g
  | "u32" => withArgs (do let s ← pU64; let n ← pNat; pure (s, n)) rest fun (s, n) =>
      let (vs, g) := Rng.drawN Rng.u32 n (Rng.ofSeed s); c19State (c19ShowNats (vs.map UInt32.toNat)) g
  | "i64" => withArgs (do let s ← pU64; let n ← pNat; pure (s, n)) rest fun (s, n) =>
      let (vs, g) := Rng.drawN Rng.i64 n (Rng.ofSeed s); c19State (c19ShowInts vs) g
  | "i32" => withArgs (do let s ← pU64; let n ← pNat; pure (s, n)) rest fun (s, n) =>
      let (vs, g) := Rng.drawN Rng.i32 n (Rng.ofSeed s); c19State (c19ShowInts vs) g
  | "f64" => withArgs (do let s ← pU64; let n ← pNat; pure (s, n)) rest fun (s, n) =>
      let (vs, g) := Rng.drawN (Rng.f64 (α := Float)) n (Rng.ofSeed s); c19State (showFloats vs) g
  | "u64lt" => withArgs (do let s ← pU64; let m ← pU64; let n ← pNat; pure (s, m, n)) rest fun (s, m, n) =>
      c19Draws (fun vs => c19ShowNats (vs.map UInt64.toNat)) (Rng.drawN? (Rng.u64LessThan F m) n (Rng.ofSeed s))
  | "i64lt" => withArgs (do let s ← pU64; let m ← pInt; let n ← pNat; pure (s, m, n)) rest fun (s, m, n) =>
      c19Draws c19ShowInts (Rng.drawN? (Rng.i64LessThan F m) n (Rng.ofSeed s))
  | "u64rg" => withArgs (do let s ← pU64; let a ← pU64; let b ← pU64; let n ← pNat; pure (s, a, b, n)) rest
      fun (s, a, b, n) =>
      c19Draws (fun vs => c19ShowNats (vs.map UInt64.toNat)) (Rng.drawN? (Rng.u64InRange F a b) n (Rng.ofSeed s))
  | "i64rg" => withArgs (do let s ← pU64; let a ← pInt; let b ← pInt; let n ← pNat; pure (s, a, b, n)) rest
      fun (s, a, b, n) =>
      c19Draws c19ShowInts (Rng.drawN? (Rng.i64InRange F a b) n (Rng.ofSeed s))
  | "f64lt" => withArgs (do let s ← pU64; let m ← pFloat; let n ← pNat; pure (s, m, n)) rest fun (s, m, n) =>
      c19Draws showFloats (Rng.drawN? (Rng.f64LessThan m) n (Rng.ofSeed s))
  | "f64rg" => withArgs (do let s ← pU64; let a ← pFloat; let b ← pFloat; let n ← pNat; pure (s, a, b, n)) rest
      fun (s, a, b, n) =>
      c19Draws showFloats (Rng.drawN? (Rng.f64InRange a b) n (Rng.ofSeed s))
  | _ => badOp

def c19Step (args : List String) : String :=
  let F := lemireFuel
  match args with
  | "rng" :: kind :: rest => c19Rng kind rest
  | "du" :: rest =>
    withArgs (do let s ← pU64; let a ← pInt; let b ← pInt; let n ← pNat; pure (s, a, b, n)) rest
      fun (s, a, b, n) =>
      if DiscreteUniform.valid a b then
        c19Draws showFloats (DiscreteUniform.sampleN (α := Float) F a b n (Rng.ofSeed s))
      else panicked
  | "uni" :: rest =>
    withArgs (do let s ← pU64; let a ← pFloat; let b ← pFloat; let n ← pNat; pure (s, a, b, n)) rest
      fun (s, a, b, n) =>
      if Uniform.valid a b then
        let (vs, g) := Uniform.sampleN a b n (Rng.ofSeed s); c19State (showFloats vs) g
      else panicked
  | "boot" :: rest =>
    withArgs (do let s ← pU64; let nb ← pNat; let d ← pVec; pure (s, nb, d)) rest fun (s, nb, d) =>
      match Resample.bootstrap F d nb (Rng.ofSeed s) with
      | none => panicked
      | some (rs, g) => c19State (c19Nested rs) g
  | "jack" :: rest =>
    withArgs pVec rest fun d =>
      match Resample.jackknife d with
      | none => panicked
      | some rs => ok (c19Nested rs)
  | "shuf" :: rest =>
    withArgs (do let s ← pU64; let d ← pVec; pure (s, d)) rest fun (s, d) =>
      match Resample.shuffle F d (Rng.ofSeed s) with
      | none => panicked
      | some (r, g) => c19State (showVec r) g
  | "shuf2" :: rest =>
    withArgs (do let s ← pU64; let a ← pVec; let b ← pVec; pure (s, a, b)) rest fun (s, a, b) =>
      match Resample.shuffleTwo F a b (Rng.ofSeed s) with
      | none => panicked
      | some (ra, rb, g) => c19State (showVec ra ++ " " ++ showVec rb) g
  | _ => badOp

def main (args : List String) : IO UInt32 := mainWith () (fun _ t => ((), c19Step t)) args
