import Compute.Model.Timeseries
import Compute.Lemmas.C13
import Mathlib.Algebra.Order.BigOperators.Group.List
import Mathlib.Algebra.Order.Field.Basic
import Mathlib.Algebra.Order.Ring.Abs
import Mathlib.Logic.Function.Iterate
import Mathlib.Tactic.Ring
import Mathlib.Tactic.Linarith
import Mathlib.Analysis.Normed.Algebra.GelfandFormula
import Mathlib.Analysis.Matrix.Normed
import Mathlib.Analysis.SpecificLimits.Basic
import Mathlib.LinearAlgebra.Matrix.Charpoly.Eigs
import Mathlib.Data.Matrix.Mul
import Mathlib.LinearAlgebra.Matrix.ToLinearEquiv
import Mathlib.LinearAlgebra.Matrix.NonsingularInverse
/-
Helper lemmas for C13Conv: the forecasting loop `predictGo` as the iteration of a window step, prefix
stability, and the block-contraction bound in an ordered field.
-/
namespace Cv.C13CL
open Cv Cv.TS Cv.C13L

section core
variable {α : Type} [Add α] [Sub α] [Mul α] [Zero α]

/-- One step of the forecasting loop of `predict` on the centred window (oldest value first): drop the oldest
value, append the new centred forecast `dot8 w coeffs`. -/
def stepW (coeffs w : List α) : List α := w.drop 1 ++ [dot8 w coeffs]

/-- the centred window `predict` starts from: the last `coeffs.len()` values minus the intercept -/
def window0 (coeffs : List α) (ic : α) (data : List α) : List α :=
  (data.drop (data.length - coeffs.length)).map (· - ic)

/-- the `k`-th centred forecast (`k = 0` is the first one) -/
def zfc (coeffs w : List α) (k : Nat) : α := dot8 ((stepW coeffs)^[k] w) coeffs

omit [Sub α] in
theorem predictGo_eq_iterate (coeffs : List α) (n : Nat) (w : List α) :
    predictGo coeffs n w = (List.range n).map fun k => zfc coeffs w k := by
  induction n generalizing w with
  | zero => simp [predictGo]
  | succ n ih =>
    rw [predictGo, ih, List.range_succ_eq_map, List.map_cons, List.map_map]
    rfl

omit [Sub α] in
theorem predictGo_length (coeffs : List α) (n : Nat) (w : List α) : (predictGo coeffs n w).length = n := by
  simp [predictGo_eq_iterate]

omit [Sub α] in
theorem predictGo_getElem? (coeffs : List α) (n k : Nat) (w : List α) (h : k < n) :
    (predictGo coeffs n w)[k]? = some (zfc coeffs w k) := by
  simp [predictGo_eq_iterate, List.getElem?_map, List.getElem?_range h]

omit [Sub α] in
/-- the loop run for `m ≤ n` steps produces the first `m` values of the loop run for `n` steps -/
theorem predictGo_take (coeffs : List α) (m n : Nat) (w : List α) (h : m ≤ n) :
    (predictGo coeffs n w).take m = predictGo coeffs m w := by
  rw [predictGo_eq_iterate, predictGo_eq_iterate, ← List.map_take, List.take_range, Nat.min_eq_left h]

end core

section ordered
variable {α : Type} [Field α] [LinearOrder α] [IsStrictOrderedRing α]

/-- `Σ_j |φ_j|` -/
def absSum (coeffs : List α) : α := (coeffs.map (|·|)).sum

theorem absSum_nonneg (coeffs : List α) : 0 ≤ absSum coeffs := by
  apply List.sum_nonneg
  intro x hx
  obtain ⟨y, _, rfl⟩ := List.mem_map.mp hx
  exact abs_nonneg y

omit [IsStrictOrderedRing α] in
theorem absSum_cons (x : α) (l : List α) : absSum (x :: l) = |x| + absSum l := by simp [absSum]

/-- the largest magnitude in a window -/
def maxAbs (w : List α) : α := w.foldr (fun x m => max |x| m) 0

omit [IsStrictOrderedRing α] in
theorem maxAbs_nonneg (w : List α) : 0 ≤ maxAbs w := by
  induction w with
  | nil => simp [maxAbs]
  | cons x w ih => exact le_max_of_le_right ih

omit [IsStrictOrderedRing α] in
theorem le_maxAbs (w : List α) : ∀ x ∈ w, |x| ≤ maxAbs w := by
  induction w with
  | nil => simp
  | cons y w ih =>
    intro x hx
    rcases List.mem_cons.mp hx with rfl | h
    · exact le_max_left _ _
    · exact le_max_of_le_right (ih x h)

/-- `|Σ w_j c_j| ≤ B · Σ|c_j|` when every `|w_j| ≤ B` -/
theorem abs_dot_le (W C : List α) (B : α) (hB0 : 0 ≤ B) (hB : ∀ x ∈ W, |x| ≤ B) :
    |(List.zipWith (· * ·) W C).sum| ≤ B * absSum C := by
  induction W generalizing C with
  | nil => simpa using mul_nonneg hB0 (absSum_nonneg C)
  | cons x W ih =>
    cases C with
    | nil => simpa using mul_nonneg hB0 (absSum_nonneg ([] : List α))
    | cons y C =>
      rw [List.zipWith_cons_cons, List.sum_cons, absSum_cons]
      have h1 : |x * y| ≤ B * |y| := by
        rw [abs_mul]
        exact mul_le_mul_of_nonneg_right (hB x (List.mem_cons_self)) (abs_nonneg y)
      have h2 := ih C (fun z hz => hB z (List.mem_cons_of_mem _ hz))
      calc |x * y + (List.zipWith (· * ·) W C).sum| ≤ |x * y| + |(List.zipWith (· * ·) W C).sum| := abs_add_le _ _
        _ ≤ B * |y| + B * absSum C := add_le_add h1 h2
        _ = B * (|y| + absSum C) := by ring

/-- **block contraction, window form.**  After `k` steps of the loop the window still has `p` entries and its `j`-th
entry (the value with global index `k + j`, indices `0 … p−1` being the initial window) is bounded by
`c^⌊(k+j)/p⌋ · M`. -/
theorem window_bound (coeffs : List α) (M : α) (hp : 0 < coeffs.length) (hc : absSum coeffs ≤ 1)
    (w : List α) (hw : w.length = coeffs.length) (hwM : ∀ x ∈ w, |x| ≤ M) (k : Nat) :
    ((stepW coeffs)^[k] w).length = coeffs.length ∧
      (∀ j x, ((stepW coeffs)^[k] w)[j]? = some x → |x| ≤ absSum coeffs ^ ((k + j) / coeffs.length) * M) ∧
        |zfc coeffs w k| ≤ absSum coeffs ^ (k / coeffs.length + 1) * M := by
  have hM : 0 ≤ M := by
    obtain ⟨x, hx⟩ := List.exists_mem_of_length_pos (by omega : 0 < w.length)
    exact le_trans (abs_nonneg x) (hwM x hx)
  have hc0 := absSum_nonneg coeffs
  -- the bound on the forecast follows from the bound on the window
  have hf : ∀ k, (∀ j x, ((stepW coeffs)^[k] w)[j]? = some x →
      |x| ≤ absSum coeffs ^ ((k + j) / coeffs.length) * M) →
      |zfc coeffs w k| ≤ absSum coeffs ^ (k / coeffs.length + 1) * M := by
    intro k hk
    rw [zfc, dot8_eq]
    have := abs_dot_le ((stepW coeffs)^[k] w) coeffs (absSum coeffs ^ (k / coeffs.length) * M)
      (mul_nonneg (pow_nonneg hc0 _) hM) (by
        intro x hx
        obtain ⟨j, hj⟩ := List.getElem?_of_mem hx
        refine le_trans (hk j x hj) (mul_le_mul_of_nonneg_right ?_ hM)
        exact pow_le_pow_of_le_one hc0 hc (Nat.div_le_div_right (Nat.le_add_right k j)))
    rw [pow_succ]
    calc _ ≤ absSum coeffs ^ (k / coeffs.length) * M * absSum coeffs := this
      _ = _ := by ring
  suffices h : ((stepW coeffs)^[k] w).length = coeffs.length ∧
      ∀ j x, ((stepW coeffs)^[k] w)[j]? = some x → |x| ≤ absSum coeffs ^ ((k + j) / coeffs.length) * M from
    ⟨h.1, h.2, hf k h.2⟩
  induction k with
  | zero =>
    refine ⟨hw, fun j x hj => ?_⟩
    have hjl : j < w.length := by
      by_contra hn
      rw [Function.iterate_zero, id, List.getElem?_eq_none (by omega)] at hj
      cases hj
    rw [Nat.zero_add, Nat.div_eq_of_lt (by omega), pow_zero, one_mul]
    exact hwM x (List.mem_of_getElem? hj)
  | succ k ih =>
    obtain ⟨hl, hb⟩ := ih
    have hfk := hf k hb
    rw [Function.iterate_succ_apply']
    set W := (stepW coeffs)^[k] w with hW
    have hd : (W.drop 1).length = coeffs.length - 1 := by simp [hl]
    refine ⟨by simp [stepW, hl]; omega, fun j x hj => ?_⟩
    rw [stepW, List.getElem?_append] at hj
    split at hj
    · rw [List.getElem?_drop] at hj
      have := hb (1 + j) x hj
      rwa [show k + (1 + j) = k + 1 + j by omega] at this
    · rename_i hjn
      rw [hd] at hjn
      have hj0 : j - (W.drop 1).length = 0 := by
        by_contra hne
        rw [List.getElem?_eq_none (by simp; omega)] at hj
        cases hj
      rw [hj0, List.getElem?_cons_zero, Option.some.injEq] at hj
      subst hj
      have hj' : j = coeffs.length - 1 := by rw [hd] at hj0; omega
      have : (k + 1 + j) / coeffs.length = k / coeffs.length + 1 := by
        rw [hj', show k + 1 + (coeffs.length - 1) = k + coeffs.length by omega, Nat.add_div_right _ hp]
      rw [this]
      exact hfk

end ordered

/-! ## the companion matrix of the recursion -/

section companion
variable {α : Type} [CommRing α]

/-- Companion matrix of the stored coefficients acting on the window (oldest value first): rows `0 … p−2` shift the
window, the last row holds the stored coefficients (`coeffs[j]` multiplies window entry `j`). -/
def companion (coeffs : List α) : Matrix (Fin coeffs.length) (Fin coeffs.length) α :=
  fun i j => if i.val + 1 < coeffs.length then (if j.val = i.val + 1 then 1 else 0) else coeffs[j]

/-- a window as a vector -/
def toVec (p : Nat) (w : List α) : Fin p → α := fun i => w.getD i 0

theorem stepW_length (coeffs w : List α) (hp : 0 < w.length) : (stepW coeffs w).length = w.length := by
  simp [stepW]; omega

theorem stepW_iter_length (coeffs w : List α) (hp : 0 < w.length) (k : Nat) :
    ((stepW coeffs)^[k] w).length = w.length := by
  induction k with
  | zero => rfl
  | succ k ih => rw [Function.iterate_succ_apply', stepW_length _ _ (by omega), ih]

theorem dot8_eq_fin_sum (coeffs w : List α) (hw : w.length = coeffs.length) :
    dot8 w coeffs = ∑ j : Fin coeffs.length, coeffs[j] * w.getD j 0 := by
  rw [dot8_eq]
  have : List.zipWith (· * ·) w coeffs = List.ofFn (fun j : Fin coeffs.length => coeffs[j] * w.getD j 0) := by
    apply List.ext_getElem (by simp [hw])
    intro n h1 h2
    have hn : n < w.length := by simp at h1; omega
    simp [List.getD_eq_getElem?_getD, List.getElem?_eq_getElem hn]
    exact mul_comm _ _
  rw [this, List.sum_ofFn]

/-- one step of the forecasting loop is multiplication of the window by the companion matrix -/
theorem toVec_stepW (coeffs w : List α) (hw : w.length = coeffs.length) :
    toVec coeffs.length (stepW coeffs w) = (companion coeffs).mulVec (toVec coeffs.length w) := by
  funext i
  simp only [Matrix.mulVec, dotProduct, toVec, companion]
  by_cases hi : i.val + 1 < coeffs.length
  · simp only [hi, if_true]
    rw [Finset.sum_eq_single (⟨i.val + 1, hi⟩ : Fin coeffs.length)]
    · simp only [if_true, one_mul]
      rw [stepW, List.getD_eq_getElem?_getD, List.getD_eq_getElem?_getD,
        List.getElem?_append_left (by simp; omega), List.getElem?_drop, Nat.add_comm]
    · intro j _ hj
      have : j.val ≠ i.val + 1 := fun h => hj (Fin.ext h)
      simp [this]
    · intro h; exact absurd (Finset.mem_univ _) h
  · simp only [hi, if_false]
    have hi' : i.val = (w.drop 1).length := by have := i.isLt; simp; omega
    rw [← dot8_eq_fin_sum coeffs w hw, stepW, List.getD_eq_getElem?_getD, hi',
      List.getElem?_append_right (le_refl _)]
    simp

/-- `k` steps of the loop are multiplication by the `k`-th power of the companion matrix -/
theorem toVec_iterate (coeffs w : List α) (hp : 0 < coeffs.length) (hw : w.length = coeffs.length) (k : Nat) :
    toVec coeffs.length ((stepW coeffs)^[k] w) = ((companion coeffs) ^ k).mulVec (toVec coeffs.length w) := by
  induction k with
  | zero => simp
  | succ k ih =>
    rw [Function.iterate_succ_apply', toVec_stepW coeffs _ (by rw [stepW_iter_length _ _ (by omega), hw]), ih,
      Matrix.mulVec_mulVec, ← pow_succ']

/-- the `k`-th centred forecast is the last entry of `C^(k+1) · w₀` -/
theorem zfc_eq_companion (coeffs w : List α) (hp : 0 < coeffs.length) (hw : w.length = coeffs.length) (k : Nat) :
    zfc coeffs w k =
      (((companion coeffs) ^ (k + 1)).mulVec (toVec coeffs.length w)) ⟨coeffs.length - 1, by omega⟩ := by
  rw [← toVec_iterate coeffs w hp hw (k + 1), Function.iterate_succ_apply']
  have hl := stepW_iter_length coeffs w (by omega) k
  simp only [toVec, stepW]
  rw [List.getD_eq_getElem?_getD, List.getElem?_append_right (by simp [hl, hw])]
  simp [hl, hw, zfc]

end companion

/-! ## eigenvalues of the companion matrix are roots of the AR characteristic polynomial -/

section eigen
variable {α β : Type} [CommRing α] [Field β]

theorem mapCompanion_apply (f : α →+* β) (coeffs : List α) (i j : Fin coeffs.length) :
    (f.mapMatrix (companion coeffs)) i j =
      if i.val + 1 < coeffs.length then (if j.val = i.val + 1 then 1 else 0) else f coeffs[j] := by
  simp only [RingHom.mapMatrix_apply, Matrix.map_apply, companion]
  split
  · split <;> simp
  · rfl

theorem mapCompanion_mulVec_shift (f : α →+* β) (coeffs : List α) (v : Fin coeffs.length → β)
    (i : Fin coeffs.length) (hi : i.val + 1 < coeffs.length) :
    (f.mapMatrix (companion coeffs)).mulVec v i = v ⟨i.val + 1, hi⟩ := by
  simp only [Matrix.mulVec, dotProduct, mapCompanion_apply, hi, if_true]
  rw [Finset.sum_eq_single (⟨i.val + 1, hi⟩ : Fin coeffs.length)]
  · simp
  · intro j _ hj
    have : j.val ≠ i.val + 1 := fun h => hj (Fin.ext h)
    simp [this]
  · intro h; exact absurd (Finset.mem_univ _) h

theorem mapCompanion_mulVec_last (f : α →+* β) (coeffs : List α) (v : Fin coeffs.length → β)
    (i : Fin coeffs.length) (hi : ¬ i.val + 1 < coeffs.length) :
    (f.mapMatrix (companion coeffs)).mulVec v i = ∑ j : Fin coeffs.length, f coeffs[j] * v j := by
  simp only [Matrix.mulVec, dotProduct, mapCompanion_apply, hi, if_false]

/-- **An eigenvalue `z` of the companion matrix is a root of the AR characteristic polynomial**:
`z^p = Σ_j coeffs[j] z^j`, i.e. `z^p − φ₁ z^{p−1} − … − φ_p = 0` (`coeffs[j] = φ_{p−j}`). -/
theorem companion_eigen_root (f : α →+* β) (coeffs : List α) (hp : 0 < coeffs.length) (z : β)
    (v : Fin coeffs.length → β) (hv : v ≠ 0) (h : (f.mapMatrix (companion coeffs)).mulVec v = z • v) :
    z ^ coeffs.length = ∑ j : Fin coeffs.length, f coeffs[j] * z ^ (j : ℕ) := by
  have hstep : ∀ (i : ℕ) (hi : i + 1 < coeffs.length), v ⟨i + 1, hi⟩ = z * v ⟨i, by omega⟩ := by
    intro i hi
    have := congrFun h ⟨i, by omega⟩
    rw [mapCompanion_mulVec_shift f coeffs v ⟨i, by omega⟩ hi] at this
    simpa using this
  have hpow : ∀ (i : ℕ) (hi : i < coeffs.length), v ⟨i, hi⟩ = z ^ i * v ⟨0, hp⟩ := by
    intro i
    induction i with
    | zero => intro _; simp
    | succ i ih =>
      intro hi
      rw [hstep i hi, ih (by omega)]
      ring
  have hv0 : v ⟨0, hp⟩ ≠ 0 := by
    intro h0
    apply hv
    funext i
    rw [show i = ⟨i.val, i.isLt⟩ from rfl, hpow i.val i.isLt, h0]
    simp
  have hlast := congrFun h ⟨coeffs.length - 1, by omega⟩
  rw [mapCompanion_mulVec_last f coeffs v ⟨coeffs.length - 1, by omega⟩ (by simp; omega)] at hlast
  simp only [Pi.smul_apply, smul_eq_mul] at hlast
  rw [hpow (coeffs.length - 1) (by omega)] at hlast
  have hsum : ∑ j : Fin coeffs.length, f coeffs[j] * v j =
      (∑ j : Fin coeffs.length, f coeffs[j] * z ^ (j : ℕ)) * v ⟨0, hp⟩ := by
    rw [Finset.sum_mul]
    refine Finset.sum_congr rfl fun j _ => ?_
    rw [show j = ⟨j.val, j.isLt⟩ from rfl, hpow j.val j.isLt]
    ring
  rw [hsum] at hlast
  have hz : z * (z ^ (coeffs.length - 1) * v ⟨0, hp⟩) = z ^ coeffs.length * v ⟨0, hp⟩ := by
    rw [← mul_assoc, ← pow_succ', Nat.sub_add_cancel hp]
  rw [hz] at hlast
  exact (mul_right_cancel₀ hv0 hlast).symm

/-- every point of the spectrum of the (mapped) companion matrix is a root of the characteristic polynomial -/
theorem companion_spectrum_root (f : α →+* β) (coeffs : List α) (hp : 0 < coeffs.length) (z : β)
    (hz : z ∈ spectrum β (f.mapMatrix (companion coeffs))) :
    z ^ coeffs.length = ∑ j : Fin coeffs.length, f coeffs[j] * z ^ (j : ℕ) := by
  rw [spectrum.mem_iff, Matrix.isUnit_iff_isUnit_det, isUnit_iff_ne_zero, not_not] at hz
  obtain ⟨v, hv, hmv⟩ := Matrix.exists_mulVec_eq_zero_iff.mpr hz
  refine companion_eigen_root f coeffs hp z v hv ?_
  rw [Matrix.sub_mulVec, Algebra.algebraMap_eq_smul_one, Matrix.smul_mulVec, Matrix.one_mulVec, sub_eq_zero] at hmv
  exact hmv.symm

end eigen

/-! ## Gelfand's formula: spectral radius `< 1` forces the powers to 0 -/

section gelfand
open Filter Topology ENNReal

theorem pow_tendsto_zero_of_spectralRadius_lt_one {A : Type*} [NormedRing A] [NormedAlgebra ℂ A]
    [CompleteSpace A] (a : A) (h : spectralRadius ℂ a < 1) : Tendsto (fun n : ℕ => a ^ n) atTop (𝓝 0) := by
  obtain ⟨r, hr1, hr2⟩ := exists_between h
  have hG := spectrum.pow_nnnorm_pow_one_div_tendsto_nhds_spectralRadius a
  have hev : ∀ᶠ n : ℕ in atTop, (‖a ^ n‖₊ : ℝ≥0∞) ≤ r ^ n := by
    filter_upwards [(tendsto_order.1 hG).2 r hr1, eventually_ge_atTop 1] with n hn hn1
    have hn0 : (n : ℝ) ≠ 0 := by exact_mod_cast (by omega : n ≠ 0)
    have : (‖a ^ n‖₊ : ℝ≥0∞) = ((‖a ^ n‖₊ : ℝ≥0∞) ^ (1 / n : ℝ)) ^ (n : ℝ) := by
      rw [← ENNReal.rpow_mul, one_div_mul_cancel hn0, ENNReal.rpow_one]
    rw [this, ENNReal.rpow_natCast]
    exact pow_le_pow_left' hn.le n
  rw [tendsto_zero_iff_enorm_tendsto_zero]
  refine tendsto_of_tendsto_of_tendsto_of_le_of_le' tendsto_const_nhds
    (ENNReal.tendsto_pow_atTop_nhds_zero_of_lt_one hr2) (Eventually.of_forall fun _ => zero_le) ?_
  filter_upwards [hev] with n hn
  simpa [enorm_eq_nnnorm] using hn

section mat
attribute [local instance] Matrix.linftyOpNormedRing Matrix.linftyOpNormedAlgebra

/-- entries of the powers of a complex matrix with spectral radius `< 1` tend to 0 -/
theorem matrix_pow_entry_tendsto_zero {p : ℕ} (M : Matrix (Fin p) (Fin p) ℂ) (h : spectralRadius ℂ M < 1)
    (i j : Fin p) : Tendsto (fun n : ℕ => (M ^ n) i j) atTop (𝓝 0) := by
  have := pow_tendsto_zero_of_spectralRadius_lt_one M h
  exact tendsto_pi_nhds.mp (tendsto_pi_nhds.mp this i) j

/-- all eigenvalues (roots of the characteristic polynomial) strictly inside the unit disc ⇒ spectral radius `< 1` -/
theorem spectralRadius_lt_one_of_roots {p : ℕ} (hp : 0 < p) (M : Matrix (Fin p) (Fin p) ℂ)
    (h : ∀ z : ℂ, M.charpoly.IsRoot z → ‖z‖ < 1) : spectralRadius ℂ M < 1 := by
  have : Nonempty (Fin p) := ⟨⟨0, hp⟩⟩
  have := spectrum.spectralRadius_lt_of_forall_lt M (r := 1) (fun z hz => by
    have := h z (Matrix.mem_spectrum_iff_isRoot_charpoly.mp hz)
    exact_mod_cast (show (‖z‖₊ : ℝ) < 1 from this))
  simpa using this

end mat

/-- entries of the powers of a *real* matrix whose complexification has spectral radius `< 1` tend to 0 -/
theorem real_matrix_pow_entry_tendsto_zero {p : ℕ} (M : Matrix (Fin p) (Fin p) ℝ)
    (h : spectralRadius ℂ (Complex.ofRealHom.mapMatrix M) < 1) (i j : Fin p) :
    Tendsto (fun n : ℕ => (M ^ n) i j) atTop (𝓝 0) := by
  have hc := matrix_pow_entry_tendsto_zero _ h i j
  have hre := (Complex.continuous_re.tendsto 0).comp hc
  simp only [Complex.zero_re] at hre
  refine hre.congr fun n => ?_
  simp only [Function.comp, ← map_pow]
  simp

end gelfand

end Cv.C13CL
