#!/bin/sh
# tools/seedbatch.sh <seedroot> <name:Cxx> ...   — run several seeds, append one summary line each to out/seedlog.txt
ROOT="$1"; shift
mkdir -p /verif/out
for item in "$@"; do
  name="${item%%:*}"; pid="${item##*:}"
  out=$(/verif/tools/seedtest.sh "$ROOT/$name" "$pid" 2>&1)
  line=$(echo "$out" | grep -E "^VIOLATION|^KNOWN-FINDING|^INFRA|PATCH-DOES-NOT" | head -2 | tr '\n' ' ')
  stat=$(echo "$out" | grep -E "^\[C[0-9]+ " | tail -1)
  echo "$(date +%H:%M:%S) $name $pid :: $(echo "$out" | tail -1) :: $line :: $stat" >> /verif/out/seedlog.txt
done
