import Compute.Model.VecOps
import Compute.Generated.SrcC04Loops
import Compute.Lemmas.SrcLoops
/-
Source tie for C04, iterator chains (`src/linalg/utils.rs`): `logsumexp`, `logmeanexp`, `prod`, `norm`.

`Compute/Generated/SrcC04Loops.lean` is regenerated from the Rust source on every run (`tools/rs2lean.py`, option
`loops`).  `prod` and `norm` ARE the hand models of `Compute/Model/VecOps.lean` (`rfl`).

`logsumexp` / `logmeanexp`: the hand model is NOT syntactically the source.  The source sums with
`Iterator::sum::<f64>()`, a left fold from `-0.0` (`Cv.iterSum`); the model's `shiftedExpSum` folds from `0`.
What is proved, for every scalar type:
* `logsumexp_src`, `logmeanexp_src`: the regenerated function is the model's formula with `iterSum` in the place of
  `shiftedExpSum` (same maximum, same shifted exponentials in the same order, same `ln`, same final addition);
* `iterSum_shifted_eq_of`: the two sums agree on a non-empty input as soon as the FIRST addition agrees,
  `-0 + exp a = 0 + exp a` — an IEEE fact (`exp` never returns `-0.0`) that Lean cannot prove for its opaque
  `Float`, hence a hypothesis; `logsumexp_eq_of` / `logmeanexp_eq_of` conclude equality with the model under it.
  (Empty input: `ln(-0.0)` vs `ln(0.0)`, resp. `ln(-0.0/0.0)` vs `ln(0.0/0.0)` — equal at `Float` (−∞, NaN), but
  not syntactically; stated as `logsumexp_nil` / `logmeanexp_nil` with the corresponding hypothesis.)
  The bit-exact tie covers the `Float` instance in all cases.
`is_matrix` (a `Result`; `Ok` = `some`, `Err` / division by zero = `none`) and `inf_norm` (nested `for` loops with `push`)
are proved equal to the model `infNormL`, which inlines the two tests of `is_matrix` and writes the loops as maps.
No algebra on the scalar is used.
-/
set_option linter.unusedSectionVars false
namespace Cv.SrcTie.C04Loops

variable {α : Type} [Add α] [Sub α] [Mul α] [Div α] [Neg α] [Zero α] [One α] [NatCast α] [IntCast α]
  [LT α] [DecidableLT α] [LE α] [DecidableLE α] [BEq α] [Cv.Transc α] [Inhabited α]

open Cv.VecOps

/-- `prod`: `x.iter().product()` = left fold of `*` from `1`. -/
theorem prod_eq (x : List α) : Cv.Src.C04Loops.prod x = prodL x := rfl

/-- `norm`: `dot(x, x).sqrt()` with the unrolled kernel `dot8`. -/
theorem norm_eq (x : List α) : Cv.Src.C04Loops.norm x = normL x := rfl

/-- `logsumexp` as the source computes it (F55): the empty slice returns `f64::NEG_INFINITY` (the parameter `ninf`) before anything
else; otherwise the model's formula over the iterator sum (seed `-0.0`). -/
theorem logsumexp_src (isNaN : α → Bool) (nan : α) (ninf : α) (x : List α) :
    Cv.Src.C04Loops.logsumexp isNaN nan ninf x =
      (if x.isEmpty then ninf else
        (let m := maxL isNaN nan x
         Cv.Transc.ln (Cv.iterSum (x.map fun v => Cv.Transc.exp (v - m))) + m)) := rfl

/-- `logmeanexp` as the source computes it. -/
theorem logmeanexp_src (isNaN : α → Bool) (nan : α) (x : List α) :
    Cv.Src.C04Loops.logmeanexp isNaN nan x =
      (let m := maxL isNaN nan x
       Cv.Transc.ln (Cv.iterSum (x.map fun v => Cv.Transc.exp (v - m)) / (x.length : α)) + m) := rfl

/-- On a non-empty input the iterator sum (seed `-0.0`) and the model's sum (seed `0`) differ only in their first
addition. -/
theorem iterSum_shifted_eq_of (h0 : ∀ a : α, (-0 : α) + Cv.Transc.exp a = 0 + Cv.Transc.exp a)
    (m : α) (x : List α) (hx : x ≠ []) :
    Cv.iterSum (x.map fun v => Cv.Transc.exp (v - m)) = shiftedExpSum m x := by
  cases x with
  | nil => exact absurd rfl hx
  | cons a r =>
    unfold Cv.iterSum shiftedExpSum
    simp only [List.map_cons, List.foldl_cons]
    rw [h0]

/-- `logsumexp` is the model `logsumexpE` for EVERY input (the empty case is decided before the sum is formed, so no hypothesis on
the input is needed any more; `h0` is only used on a non-empty input). -/
theorem logsumexp_eq_of (h0 : ∀ a : α, (-0 : α) + Cv.Transc.exp a = 0 + Cv.Transc.exp a)
    (isNaN : α → Bool) (nan : α) (ninf : α) (x : List α) :
    Cv.Src.C04Loops.logsumexp isNaN nan ninf x = logsumexpE isNaN nan ninf x := by
  cases x with
  | nil => rfl
  | cons a l =>
    rw [logsumexp_src]
    unfold logsumexpE logsumexpL
    simp only [List.isEmpty_cons, Bool.false_eq_true, if_false, iterSum_shifted_eq_of h0 _ (a :: l) (by simp)]

theorem logmeanexp_eq_of (h0 : ∀ a : α, (-0 : α) + Cv.Transc.exp a = 0 + Cv.Transc.exp a)
    (isNaN : α → Bool) (nan : α) (x : List α) (hx : x ≠ []) :
    Cv.Src.C04Loops.logmeanexp isNaN nan x = logmeanexpL isNaN nan x := by
  rw [logmeanexp_src]
  unfold logmeanexpL
  simp only [iterSum_shifted_eq_of h0 _ x hx]

/-- Empty input (F55): `f64::NEG_INFINITY`, without any hypothesis. -/
theorem logsumexp_nil (isNaN : α → Bool) (nan : α) (ninf : α) :
    Cv.Src.C04Loops.logsumexp isNaN nan ninf [] = ninf := rfl

/-- Empty input of `logmeanexp` (unchanged by F55): the source takes `ln` of `-0.0 / 0`, the model of `0 / 0`. -/
theorem logmeanexp_nil (hln : Cv.Transc.ln ((-0 : α) / ((0 : Nat) : α)) = Cv.Transc.ln ((0 : α) / ((0 : Nat) : α)))
    (isNaN : α → Bool) (nan : α) :
    Cv.Src.C04Loops.logmeanexp isNaN nan [] = logmeanexpL isNaN nan [] := by
  rw [logmeanexp_src]
  unfold logmeanexpL shiftedExpSum Cv.iterSum
  simp only [List.map_nil, List.foldl_nil, List.length_nil]
  rw [hln]

/-! ### `is_matrix`, `inf_norm` -/

/-- `is_matrix(m, nrows)`: `Ok(m.len() / nrows)` iff `nrows ≠ 0` (else the division panics) and the division is
exact (else `Err`) — the two tests the model of `inf_norm` inlines. -/
theorem isMatrix_eq (m : List α) (nrows : Nat) :
    Cv.Src.C04Loops.isMatrix m nrows =
      (if nrows = 0 then none else
        if nrows * (m.length / nrows) ≠ m.length then none else some (m.length / nrows)) := by
  unfold Cv.Src.C04Loops.isMatrix
  by_cases h0 : nrows = 0
  · have h' : ¬ 0 < nrows := by omega
    rw [if_neg h', if_pos h0]
  · have h' : 0 < nrows := by omega
    rw [if_pos h', if_neg h0]
    by_cases h1 : nrows * (m.length / nrows) = m.length
    · simp only [h1, if_true, ne_eq, not_true_eq_false, if_false]
    · simp only [h1, if_false, ne_eq, not_false_eq_true, if_true]

/-- `inf_norm`: `is_matrix(x, nrows).unwrap()`, the nested loops
`for i in 0..nrows { let mut s = 0.; for j in 0..ncols { s += x[i * ncols + j].abs(); } abs_row_sums.push(s); }`
and `max(&abs_row_sums)`.  The model writes the loops as maps (`push` in a loop = `map`, `s += g(j)` = fold of `+`
over the mapped terms: `SrcLoops.foldl_push_eq_map`, `foldl_comp_eq_foldl_map`) — same additions in the same order. -/
theorem infNorm_eq (isNaN : α → Bool) (nan : α) (x : List α) (nrows : Nat) :
    Cv.Src.C04Loops.infNorm isNaN nan x nrows = infNormL isNaN nan x nrows := by
  unfold Cv.Src.C04Loops.infNorm infNormL
  rw [isMatrix_eq]
  by_cases h0 : nrows = 0
  · rw [if_pos h0, if_pos h0]; rfl
  · rw [if_neg h0, if_neg h0]
    by_cases h1 : nrows * (x.length / nrows) ≠ x.length
    · rw [if_pos h1, if_pos h1]; rfl
    · rw [if_neg h1, if_neg h1]
      simp only [Option.bind_some]
      rw [Cv.SrcLoops.foldl_push_eq_map
        (fun i => List.foldl (fun (s : α) (j : Nat) => s + Cv.Transc.abs x[i * (x.length / nrows) + j]!) 0
          (List.range (x.length / nrows)))]
      simp only [List.nil_append]
      congr 2
      apply List.map_congr_left
      intro i _
      exact Cv.SrcLoops.foldl_comp_eq_foldl_map (· + ·) (fun j => Cv.Transc.abs x[i * (x.length / nrows) + j]!) 0 _

end Cv.SrcTie.C04Loops
