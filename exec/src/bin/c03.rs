//! C03 executor: the samplers of `compute::distributions`.
//!
//! Every request carries its own seed (`alea::set_seed`); every reply of a correspondence op ends with the
//! generator state after the call (`alea::get_seed()`).  Each request runs in its own thread under a
//! wall-clock cap: a sampler that does not return is reported as `! diverged` (alea's generator is
//! thread-local, so an abandoned thread cannot disturb later requests).
//!
//! s <dist> <seed> <n> <params…>            -> n draws (sample_n), state
//! m <dist> <seed> <r> <c> <params…>        -> r c <r*c draws> state              (sample_matrix)
//! mvn <seed> <n> <d> <mean d> <cr> <cc> <cov cr*cc>  -> rows cols <data> state   (DistributionND::sample_n)
//! q <dist> <seed> <n> <K> <params…>        -> len nan nonint min max  (h m (v c)*m | o K v*K) state
//!        summary of n draws: histogram when there are at most 4096 distinct values, otherwise the K order
//!        statistics of ranks 1 + floor(j (n-1) / (K-1)), j = 0..K-1 (1-based) of the sorted sample
//! qmvn <seed> <n> <d> <mean d> <cov d*d> <m> (<w d> <c>)*m <K>
//!        -> rows cols nan m K (v*K)*m state : order statistics of w·x + c over the n rows x of sample_n(n)
//!
//! h <mode> <dist> <seed> <n> <init params…> <target params…>     -> as `s`, but the object is built with the init
//!        parameters and brought to the target ones by mode u = `update(&[..])`, f = setters first-to-last,
//!        r = setters last-to-first, before sampling
//! hq <mode> <dist> <seed> <n> <K> <init params…> <target params…> -> as `q`, same object history
//!
//! r <route> <dist> <seed> <n> <params…>   -> as `s` (n draws, state) through a peripheral route of the same object:
//!        single = n calls of `sample()`; twice = `sample_n(n/3)` then `sample_n(n - n/3)` on the same object;
//!        clone = the draws come from a `clone()` of the constructed object; default = `Default::default()` brought to
//!        the parameters by `update`
//! mvns <seed> <n> <d> <mean d> <cr> <cc> <cov>  -> as `mvn`, but the rows are n calls of `MVN::sample()`
//!
//! c <ctor> <dist> <seed> <n> <params…>    -> as `s` (n draws, state); the object is obtained through the construction route
//! cq <ctor> <dist> <seed> <n> <K> <params…> -> as `q`, same construction route
//!        ctor = base[.clone]; base: new = `X::new(params)`; default = `X::default()` (the params of the request are the
//!        documented default parameters and are NOT used to build the object); reset = `new(params)` then every setter
//!        with the same value; update = `new(params)` then `update(&params)`; default-setters / default-update =
//!        `X::default()` brought to the params by the setters / by `update`; `.clone` samples from a clone of that object
//!
//! dist / params: normal mu sigma | gamma a b | beta a b | chi2 k | t dof | poisson lam | binomial n p |
//!   exp lam | gumbel mu beta | pareto alpha xm | uniform a b | du lo hi | bern p
use compute::distributions::*;
use compute::prelude::Matrix;
use cvexec::*;
use std::panic::{catch_unwind, AssertUnwindSafe};
use std::sync::mpsc;
use std::time::Duration;

#[derive(Clone, Debug)]
enum D {
    Normal(f64, f64),
    Gamma(f64, f64),
    Beta(f64, f64),
    Chi2(usize),
    T(f64),
    Poisson(f64),
    Binomial(u64, f64),
    Exp(f64),
    Gumbel(f64, f64),
    Pareto(f64, f64),
    Uniform(f64, f64),
    Du(i64, i64),
    Bern(f64),
}

fn parse_dist(name: &str, t: &mut Toks) -> R<D> {
    Ok(match name {
        "normal" => D::Normal(t.f64()?, t.f64()?),
        "gamma" => D::Gamma(t.f64()?, t.f64()?),
        "beta" => D::Beta(t.f64()?, t.f64()?),
        "chi2" => D::Chi2(t.usize()?),
        "t" => D::T(t.f64()?),
        "poisson" => D::Poisson(t.f64()?),
        "binomial" => D::Binomial(t.u64()?, t.f64()?),
        "exp" => D::Exp(t.f64()?),
        "gumbel" => D::Gumbel(t.f64()?, t.f64()?),
        "pareto" => D::Pareto(t.f64()?, t.f64()?),
        "uniform" => D::Uniform(t.f64()?, t.f64()?),
        "du" => D::Du(t.i64()?, t.i64()?),
        "bern" => D::Bern(t.f64()?),
        _ => return Err(BadOp),
    })
}

fn build(d: &D) -> Box<dyn Distribution1D> {
    match *d {
        D::Normal(a, b) => Box::new(Normal::new(a, b)),
        D::Gamma(a, b) => Box::new(Gamma::new(a, b)),
        D::Beta(a, b) => Box::new(Beta::new(a, b)),
        D::Chi2(k) => Box::new(ChiSquared::new(k)),
        D::T(v) => Box::new(T::new(v)),
        D::Poisson(l) => Box::new(Poisson::new(l)),
        D::Binomial(n, p) => Box::new(Binomial::new(n, p)),
        D::Exp(l) => Box::new(Exponential::new(l)),
        D::Gumbel(a, b) => Box::new(Gumbel::new(a, b)),
        D::Pareto(a, b) => Box::new(Pareto::new(a, b)),
        D::Uniform(a, b) => Box::new(Uniform::new(a, b)),
        D::Du(a, b) => Box::new(DiscreteUniform::new(a, b)),
        D::Bern(p) => Box::new(Bernoulli::new(p)),
    }
}

/// `clone()` of the constructed object (the original is dropped first).
fn build_clone(d: &D) -> Box<dyn Distribution1D> {
    macro_rules! cl {
        ($e:expr) => {{
            let o = $e;
            let c = o.clone();
            let _ = o;
            Box::new(c)
        }};
    }
    match *d {
        D::Normal(a, b) => cl!(Normal::new(a, b)),
        D::Gamma(a, b) => cl!(Gamma::new(a, b)),
        D::Beta(a, b) => cl!(Beta::new(a, b)),
        D::Chi2(k) => cl!(ChiSquared::new(k)),
        D::T(v) => cl!(T::new(v)),
        D::Poisson(l) => cl!(Poisson::new(l)),
        D::Binomial(n, p) => cl!(Binomial::new(n, p)),
        D::Exp(l) => cl!(Exponential::new(l)),
        D::Gumbel(a, b) => cl!(Gumbel::new(a, b)),
        D::Pareto(a, b) => cl!(Pareto::new(a, b)),
        D::Uniform(a, b) => cl!(Uniform::new(a, b)),
        D::Du(a, b) => cl!(DiscreteUniform::new(a, b)),
        D::Bern(p) => cl!(Bernoulli::new(p)),
    }
}

/// `Default::default()` brought to the parameters by `update`.
fn build_default(d: &D) -> Box<dyn Distribution1D> {
    macro_rules! df {
        ($ty:ident, $upd:expr) => {{
            let mut o = $ty::default();
            o.update(&$upd);
            Box::new(o)
        }};
    }
    match *d {
        D::Normal(a, b) => df!(Normal, [a, b]),
        D::Gamma(a, b) => df!(Gamma, [a, b]),
        D::Beta(a, b) => df!(Beta, [a, b]),
        D::Chi2(k) => df!(ChiSquared, [k as f64]),
        D::T(v) => df!(T, [v]),
        D::Poisson(l) => df!(Poisson, [l]),
        D::Binomial(n, p) => df!(Binomial, [n as f64, p]),
        D::Exp(l) => df!(Exponential, [l]),
        D::Gumbel(a, b) => df!(Gumbel, [a, b]),
        D::Pareto(a, b) => df!(Pareto, [a, b]),
        D::Uniform(a, b) => df!(Uniform, [a, b]),
        D::Du(a, b) => df!(DiscreteUniform, [a as f64, b as f64]),
        D::Bern(p) => df!(Bernoulli, [p]),
    }
}

fn build_ctor_known(ctor: &str) -> Option<()> {
    let base = ctor.strip_suffix(".clone").unwrap_or(ctor);
    if matches!(base, "new" | "default" | "reset" | "update" | "default-setters" | "default-update") {
        Some(())
    } else {
        None
    }
}

/// Object obtained through a construction route (see the header).
fn build_ctor(ctor: &str, d: &D) -> Option<Box<dyn Distribution1D>> {
    let (base, cl) = match ctor.strip_suffix(".clone") {
        Some(b) => (b, true),
        None => (ctor, false),
    };
    if !matches!(base, "new" | "default" | "reset" | "update" | "default-setters" | "default-update") {
        return None;
    }
    macro_rules! mk {
        ($ty:ident, $new:expr, $set:expr, $upd:expr) => {{
            let mut o: $ty = match base {
                "new" | "reset" | "update" => $new,
                _ => $ty::default(),
            };
            match base {
                "reset" | "default-setters" => {
                    let f: &dyn Fn(&mut $ty) = &$set;
                    f(&mut o)
                }
                "update" | "default-update" => o.update(&$upd),
                _ => {}
            }
            if cl {
                let c = o.clone();
                let _ = o;
                Some(Box::new(c) as Box<dyn Distribution1D>)
            } else {
                Some(Box::new(o) as Box<dyn Distribution1D>)
            }
        }};
    }
    match *d {
        D::Normal(a, b) => mk!(Normal, Normal::new(a, b), |o: &mut Normal| { o.set_mu(a); o.set_sigma(b); }, [a, b]),
        D::Gamma(a, b) => mk!(Gamma, Gamma::new(a, b), |o: &mut Gamma| { o.set_alpha(a); o.set_beta(b); }, [a, b]),
        D::Beta(a, b) => mk!(Beta, Beta::new(a, b), |o: &mut Beta| { o.set_alpha(a); o.set_beta(b); }, [a, b]),
        D::Chi2(k) => mk!(ChiSquared, ChiSquared::new(k), |o: &mut ChiSquared| { o.set_dof(k); }, [k as f64]),
        D::T(v) => mk!(T, T::new(v), |o: &mut T| { o.set_dof(v); }, [v]),
        D::Poisson(l) => mk!(Poisson, Poisson::new(l), |o: &mut Poisson| { o.set_lambda(l); }, [l]),
        D::Binomial(n, p) => mk!(Binomial, Binomial::new(n, p), |o: &mut Binomial| { o.set_n(n); o.set_p(p); }, [n as f64, p]),
        D::Exp(l) => mk!(Exponential, Exponential::new(l), |o: &mut Exponential| { o.set_lambda(l); }, [l]),
        D::Gumbel(a, b) => mk!(Gumbel, Gumbel::new(a, b), |o: &mut Gumbel| { o.set_mu(a); o.set_beta(b); }, [a, b]),
        D::Pareto(a, b) => mk!(Pareto, Pareto::new(a, b), |o: &mut Pareto| { o.set_alpha(a); o.set_minval(b); }, [a, b]),
        // the bound setters check against the other current bound (default object: [0, 1]): pick the order that is legal
        D::Uniform(a, b) => mk!(
            Uniform,
            Uniform::new(a, b),
            |o: &mut Uniform| {
                if base == "reset" || a <= 1. {
                    o.set_lower(a);
                    o.set_upper(b);
                } else {
                    o.set_upper(b);
                    o.set_lower(a);
                }
            },
            [a, b]
        ),
        D::Du(a, b) => mk!(
            DiscreteUniform,
            DiscreteUniform::new(a, b),
            |o: &mut DiscreteUniform| {
                if base == "reset" || a <= 1 {
                    o.set_lower(a);
                    o.set_upper(b);
                } else {
                    o.set_upper(b);
                    o.set_lower(a);
                }
            },
            [a as f64, b as f64]
        ),
        D::Bern(p) => mk!(Bernoulli, Bernoulli::new(p), |o: &mut Bernoulli| { o.set_p(p); }, [p]),
    }
}

/// Build the object with `init`, then bring it to `target` through `update` / the individual setters.
fn build_via(mode: &str, init: &D, target: &D) -> Box<dyn Distribution1D> {
    macro_rules! two {
        ($ty:ident, $a0:expr, $b0:expr, $a:expr, $b:expr, $sa:ident, $sb:ident, $upd:expr) => {{
            let mut o = $ty::new($a0, $b0);
            match mode {
                "u" => o.update(&$upd),
                "f" => {
                    o.$sa($a);
                    o.$sb($b);
                }
                _ => {
                    o.$sb($b);
                    o.$sa($a);
                }
            }
            Box::new(o)
        }};
    }
    macro_rules! one {
        ($ty:ident, $a0:expr, $a:expr, $sa:ident, $upd:expr) => {{
            let mut o = $ty::new($a0);
            match mode {
                "u" => o.update(&$upd),
                _ => {
                    o.$sa($a);
                }
            }
            Box::new(o)
        }};
    }
    match (init, target) {
        (&D::Normal(a0, b0), &D::Normal(a, b)) => two!(Normal, a0, b0, a, b, set_mu, set_sigma, [a, b]),
        (&D::Gamma(a0, b0), &D::Gamma(a, b)) => two!(Gamma, a0, b0, a, b, set_alpha, set_beta, [a, b]),
        (&D::Beta(a0, b0), &D::Beta(a, b)) => two!(Beta, a0, b0, a, b, set_alpha, set_beta, [a, b]),
        (&D::Chi2(k0), &D::Chi2(k)) => one!(ChiSquared, k0, k, set_dof, [k as f64]),
        (&D::T(v0), &D::T(v)) => one!(T, v0, v, set_dof, [v]),
        (&D::Poisson(l0), &D::Poisson(l)) => one!(Poisson, l0, l, set_lambda, [l]),
        (&D::Binomial(n0, p0), &D::Binomial(n, p)) => two!(Binomial, n0, p0, n, p, set_n, set_p, [n as f64, p]),
        (&D::Exp(l0), &D::Exp(l)) => one!(Exponential, l0, l, set_lambda, [l]),
        (&D::Gumbel(a0, b0), &D::Gumbel(a, b)) => two!(Gumbel, a0, b0, a, b, set_mu, set_beta, [a, b]),
        (&D::Pareto(a0, b0), &D::Pareto(a, b)) => two!(Pareto, a0, b0, a, b, set_alpha, set_minval, [a, b]),
        (&D::Uniform(a0, b0), &D::Uniform(a, b)) => two!(Uniform, a0, b0, a, b, set_lower, set_upper, [a, b]),
        (&D::Du(a0, b0), &D::Du(a, b)) => two!(DiscreteUniform, a0, b0, a, b, set_lower, set_upper, [a as f64, b as f64]),
        (&D::Bern(p0), &D::Bern(p)) => one!(Bernoulli, p0, p, set_p, [p]),
        _ => unreachable!(),
    }
}

/// Run `f` in a fresh thread; `! panic` if it panics, `! diverged` if it does not finish within `cap`.
fn capped<F: FnOnce() -> String + Send + 'static>(cap: Duration, f: F) -> String {
    let (tx, rx) = mpsc::channel();
    std::thread::Builder::new()
        .stack_size(64 << 20)
        .spawn(move || {
            let r = catch_unwind(AssertUnwindSafe(f));
            let _ = tx.send(r);
        })
        .expect("spawn");
    match rx.recv_timeout(cap) {
        Ok(Ok(s)) => s,
        Ok(Err(_)) => "! panic".to_string(),
        Err(mpsc::RecvTimeoutError::Timeout) => "! diverged".to_string(),
        Err(mpsc::RecvTimeoutError::Disconnected) => "! panic".to_string(),
    }
}

fn with_state(mut s: String) -> String {
    if !s.is_empty() {
        s.push(' ');
    }
    s.push_str(&alea::get_seed().to_string());
    s
}

fn ranks(n: usize, k: usize) -> Vec<usize> {
    // 0-based indices of the recorded order statistics
    if n == 0 {
        return vec![];
    }
    if k < 2 {
        return vec![0];
    }
    (0..k).map(|j| ((j as u128 * (n as u128 - 1)) / (k as u128 - 1)) as usize).collect()
}

/// (nan count, sorted finite-or-infinite values)
fn sorted(mut v: Vec<f64>) -> (usize, Vec<f64>) {
    let before = v.len();
    v.retain(|x| !x.is_nan());
    let nan = before - v.len();
    v.sort_by(|a, b| a.total_cmp(b));
    (nan, v)
}

fn order_stats(v: &[f64], k: usize) -> String {
    let r = ranks(v.len(), k);
    let vals: Vec<f64> = r.iter().map(|&i| v[i]).collect();
    format!("o {} {}", vals.len(), show_fs(&vals)).trim_end().to_string()
}

fn summary(draws: Vec<f64>, k: usize) -> String {
    let len = draws.len();
    let nonint = draws.iter().filter(|x| !x.is_nan() && (x.is_infinite() || x.fract() != 0.0)).count();
    let (nan, v) = sorted(draws);
    let (mn, mx) = if v.is_empty() { (f64::NAN, f64::NAN) } else { (v[0], v[v.len() - 1]) };
    let mut distinct: Vec<(f64, usize)> = Vec::new();
    for &x in &v {
        match distinct.last_mut() {
            Some((y, c)) if *y == x => *c += 1,
            _ => {
                if distinct.len() > 4096 {
                    break;
                }
                distinct.push((x, 1))
            }
        }
    }
    let body = if distinct.len() <= 4096 {
        let mut s = format!("h {}", distinct.len());
        for (x, c) in &distinct {
            s.push_str(&format!(" {} {}", show_f(*x), c));
        }
        s
    } else {
        order_stats(&v, k)
    };
    format!("{} {} {} {} {} {}", len, nan, nonint, show_f(mn), show_f(mx), body)
}

fn step(_: &mut (), t: &mut Toks) -> R<String> {
    let op = t.tok()?;
    match op {
        "s" => {
            let name = t.tok()?;
            let (seed, n) = (t.u64()?, t.usize()?);
            let d = parse_dist(name, t)?;
            t.end()?;
            Ok(capped(Duration::from_secs(30), move || {
                let dist = build(&d);
                alea::set_seed(seed);
                let v = dist.sample_n(n);
                ok(with_state(show_fs(&v)))
            }))
        }
        "m" => {
            let name = t.tok()?;
            let (seed, r, c) = (t.u64()?, t.usize()?, t.usize()?);
            let d = parse_dist(name, t)?;
            t.end()?;
            if r >= (1 << 31) || c >= (1 << 31) || r * c >= (1 << 31) {
                return Err(BadOp);
            }
            Ok(capped(Duration::from_secs(30), move || {
                let dist = build(&d);
                alea::set_seed(seed);
                let m = dist.sample_matrix(r, c);
                let body = format!("{} {} {}", m.nrows, m.ncols, show_fs(&m.data)).trim_end().to_string();
                ok(with_state(body))
            }))
        }
        "mvn" => {
            let (seed, n, d) = (t.u64()?, t.usize()?, t.usize()?);
            let mean = t.f64s(d)?;
            let (cr, cc) = (t.usize()?, t.usize()?);
            let cov = t.f64s(cr * cc)?;
            t.end()?;
            Ok(capped(Duration::from_secs(30), move || {
                let c = Matrix::new(cov, cr as i32, cc as i32);
                let dist = MVN::new(mean, c);
                alea::set_seed(seed);
                let m = dist.sample_n(n);
                let body = format!("{} {} {}", m.nrows, m.ncols, show_fs(&m.data)).trim_end().to_string();
                ok(with_state(body))
            }))
        }
        "q" => {
            let name = t.tok()?;
            let (seed, n, k) = (t.u64()?, t.usize()?, t.usize()?);
            let d = parse_dist(name, t)?;
            t.end()?;
            Ok(capped(Duration::from_secs(120), move || {
                let dist = build(&d);
                alea::set_seed(seed);
                let v = dist.sample_n(n);
                ok(with_state(summary(v.to_vec(), k)))
            }))
        }
        "c" | "cq" => {
            let is_q = op == "cq";
            let ctor = t.tok()?.to_string();
            let name = t.tok()?;
            let (seed, n) = (t.u64()?, t.usize()?);
            let k = if is_q { t.usize()? } else { 0 };
            let d = parse_dist(name, t)?;
            t.end()?;
            if build_ctor_known(&ctor).is_none() {
                return Err(BadOp);
            }
            Ok(capped(Duration::from_secs(if is_q { 120 } else { 30 }), move || {
                let dist = build_ctor(&ctor, &d).expect("ctor");
                alea::set_seed(seed);
                let v = dist.sample_n(n);
                if is_q {
                    ok(with_state(summary(v.to_vec(), k)))
                } else {
                    ok(with_state(show_fs(&v)))
                }
            }))
        }
        "r" => {
            let route = t.tok()?.to_string();
            if !matches!(route.as_str(), "single" | "twice" | "clone" | "default") {
                return Err(BadOp);
            }
            let name = t.tok()?;
            let (seed, n) = (t.u64()?, t.usize()?);
            let d = parse_dist(name, t)?;
            t.end()?;
            Ok(capped(Duration::from_secs(30), move || {
                let dist = match route.as_str() {
                    "clone" => build_clone(&d),
                    "default" => build_default(&d),
                    _ => build(&d),
                };
                alea::set_seed(seed);
                let v: Vec<f64> = match route.as_str() {
                    "single" => (0..n).map(|_| dist.sample()).collect(),
                    "twice" => {
                        let mut a = dist.sample_n(n / 3).to_vec();
                        a.extend(dist.sample_n(n - n / 3).to_vec());
                        a
                    }
                    _ => dist.sample_n(n).to_vec(),
                };
                ok(with_state(show_fs(&v)))
            }))
        }
        "mvns" => {
            let (seed, n, d) = (t.u64()?, t.usize()?, t.usize()?);
            let mean = t.f64s(d)?;
            let (cr, cc) = (t.usize()?, t.usize()?);
            let cov = t.f64s(cr * cc)?;
            t.end()?;
            Ok(capped(Duration::from_secs(30), move || {
                let c = Matrix::new(cov, cr as i32, cc as i32);
                let dist = MVN::new(mean, c);
                alea::set_seed(seed);
                let mut data: Vec<f64> = Vec::new();
                let mut cols = dist.get_dim();
                for _ in 0..n {
                    let x = dist.sample();
                    cols = x.len();
                    data.extend(x.to_vec());
                }
                let body = format!("{} {} {}", n, cols, show_fs(&data)).trim_end().to_string();
                ok(with_state(body))
            }))
        }
        "h" | "hq" => {
            let is_q = op == "hq";
            let mode = t.tok()?.to_string();
            if !matches!(mode.as_str(), "u" | "f" | "r") {
                return Err(BadOp);
            }
            let name = t.tok()?;
            let (seed, n) = (t.u64()?, t.usize()?);
            let k = if is_q { t.usize()? } else { 0 };
            let init = parse_dist(name, t)?;
            let target = parse_dist(name, t)?;
            t.end()?;
            Ok(capped(Duration::from_secs(if is_q { 120 } else { 30 }), move || {
                let dist = build_via(&mode, &init, &target);
                alea::set_seed(seed);
                let v = dist.sample_n(n);
                if is_q {
                    ok(with_state(summary(v.to_vec(), k)))
                } else {
                    ok(with_state(show_fs(&v)))
                }
            }))
        }
        "qmvn" => {
            let (seed, n, d) = (t.u64()?, t.usize()?, t.usize()?);
            let mean = t.f64s(d)?;
            let cov = t.f64s(d * d)?;
            let m = t.usize()?;
            let mut fs: Vec<(Vec<f64>, f64)> = Vec::new();
            for _ in 0..m {
                let w = t.f64s(d)?;
                let c = t.f64()?;
                fs.push((w, c));
            }
            let k = t.usize()?;
            t.end()?;
            Ok(capped(Duration::from_secs(240), move || {
                let c = Matrix::new(cov, d as i32, d as i32);
                let dist = MVN::new(mean, c);
                alea::set_seed(seed);
                let x = dist.sample_n(n);
                let data: Vec<f64> = x.data.to_vec();
                let nan = data.iter().filter(|v| v.is_nan()).count();
                let mut s = format!("{} {} {} {} {}", x.nrows, x.ncols, nan, fs.len(), k);
                if x.ncols == d && data.len() == n * d {
                    for (w, c) in &fs {
                        let vals: Vec<f64> = (0..n)
                            .map(|i| {
                                let mut a = *c;
                                for j in 0..d {
                                    a += w[j] * data[i * d + j];
                                }
                                a
                            })
                            .collect();
                        let (_, sv) = sorted(vals);
                        let r = ranks(sv.len(), k);
                        let os: Vec<f64> = r.iter().map(|&i| sv[i]).collect();
                        s.push(' ');
                        s.push_str(&show_fs(&os));
                    }
                }
                ok(with_state(s))
            }))
        }
        _ => Err(BadOp),
    }
}

fn main() {
    run((), step);
}
