/-
Model of `src/functions/combinatorial.rs::binom_coeff` (u64 arithmetic on `Nat` with explicit range
checks).  Core Lean only.

    pub fn binom_coeff(n: u64, k: u64) -> u64 {
        let mut nk = k;
        if k > n - k { nk = n - k; }                       // `n - k` underflows when k > n
        let mut c = 1;
        for i in 1..=nk {
            if c / i > std::u64::MAX / nk { return 0; }    // the guard
            c = c / i * (n - i + 1) + c % i * (n - i + 1) / i;
        }
        c
    }

Outcomes are kept apart: a value, the guard (`return 0`), an arithmetic overflow of one of the
64-bit operations of the update (panic with overflow checks, wrap-around without), and the
underflow of `n - k` for `k > n`.
-/
namespace Cv

inductive BinomOut where
  | val (c : Nat)
  | guard
  | overflow
  | underflow
  deriving DecidableEq, Repr

def u64Max : Nat := 2 ^ 64 - 1

/-- The loop `for i in i..=nk` with `steps` iterations left and accumulator `c`. -/
def binomGo (n nk : Nat) : Nat → Nat → Nat → BinomOut
  | 0, _, c => .val c
  | steps + 1, i, c =>
    if c / i > u64Max / nk then .guard
    else
      let m := n - i + 1
      let a := c / i * m
      let b := c % i * m
      if a > u64Max ∨ b > u64Max ∨ a + b / i > u64Max then .overflow
      else binomGo n nk steps (i + 1) (a + b / i)

def binomCoeff (n k : Nat) : BinomOut :=
  if k > n then .underflow
  else
    let nk := if k > n - k then n - k else k
    binomGo n nk nk 1 1

end Cv
