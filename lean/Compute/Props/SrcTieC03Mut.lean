import Compute.Model.Samplers
import Compute.Generated.SrcC03Mut
/-
Source tie for C03, fifth pass (`Compute/Generated/SrcC03Mut.lean`, regenerated from the Rust source on every run by
`tools/rs2lean.py`): the routing conditions of `Poisson::sample` and `Binomial::sample` as Boolean / scalar fragments, and the
compositions `T::sample`, `Beta::sample` as functions of the draws of their sub-samplers.

* `Poisson_sample_route`: the model's `Poisson.sample` branches on exactly the generated condition (`lambda < 10.`).
* `Binomial_sample_routes`: the model's `Binomial.sample`, below its first test (`n == 0 || p == 0.`, which the model renders with
  `<` and is NOT tied here), is: the generated end-point test, the generated flip `p > 0.5`, the generated flipped probability,
  the generated threshold `p * n <= 30.` choosing inversion or BTPE, and the un-flip `n - res` (checked subtraction).
* `T_sample_eq` / `Beta_sample_eq`: whenever the sub-samplers return (`some`), the model's value is the generated formula applied to
  those draws, and its generator state is the state after them, in the source's order (normal then gamma; alpha-gamma then
  beta-gamma then, only in the underflow branch, one uniform).
* redraw loops (F53 / F54): `Exponential_sampleLoop_eq`, `Gumbel_sampleLoop_eq`, `Pareto_sampleLoop_eq` tie the WHOLE sampler bodies
  (`let mut u = D; while u == 0. { u = D; } formula(u)`, over the generator the model uses) to the models' `X.sample fuel ..`, including the
  redraw condition `== 0.` (`redrawWhile_eq_redrawNonzero`); `Gamma_prepareLoop_eq` does the same for the boost block of
  `Gamma::sample` against `Gamma.prepare`.  The loops are fuel-bounded on both sides (`none` = `fuel` zero draws in a row).
No algebra on the scalar is used.
-/
set_option linter.unusedSectionVars false
namespace Cv.SrcTie.C03Mut

variable {α : Type} [Add α] [Sub α] [Mul α] [Div α] [Neg α] [Zero α] [One α] [NatCast α] [IntCast α]
  [LT α] [DecidableLT α] [LE α] [DecidableLE α] [BEq α] [Cv.Transc α] [Cv.OfLit α] [Cv.Log1p α] [Cv.ToU64 α]
  [Inhabited α] [Cv.FiniteTest α]

open Cv Cv.Src.C03Mut

theorem Poisson_sample_route (fuel : Nat) (lambda : α) (g : Rng) :
    Poisson.sample fuel lambda g =
      if Poisson_route lambda = true then Poisson.sampleMult fuel lambda g else Poisson.samplePtrs fuel lambda g := by
  unfold Poisson.sample Poisson_route
  simp only [decide_eq_true_eq]

theorem Binomial_sample_routes (fuel ifuel n : Nat) (p : α) (g : Rng) (h0 : ¬ (n = 0 ∨ ¬ (p < 0 ∨ 0 < p))) :
    Binomial.sample fuel ifuel n p g =
      if Binomial_edge p = true then some ((n : α), g)
      else
        let switch := Binomial_switch p
        let p' := Binomial_p p switch
        let res := if Binomial_small p' n = true then Binomial.inversion fuel n p' g else Binomial.btpe fuel ifuel n p' g
        match res with
        | none => none
        | some (r, g) =>
          if switch = true then (if r ≤ n then some (((n - r : Nat) : α), g) else none)
          else some ((r : α), g) := by
  unfold Binomial.sample Binomial_edge Binomial_switch Binomial_p Binomial_small
  rw [if_neg h0]
  simp only [decide_eq_true_eq]
  rfl

theorem T_sample_eq (fuel : Nat) (dof z gm : α) (g g1 g2 : Rng)
    (hz : Normal.sample fuel (0 : α) 1 g = some (z, g1))
    (hv : Gamma.valid (dof / ((2 : Nat) : α)) (1 : α) = true)
    (hg : Gamma.sample fuel (dof / ((2 : Nat) : α)) 1 g1 = some (gm, g2)) :
    T.sample fuel dof g = some (T_sample z (fun _ _ => gm) dof, g2) := by
  unfold T.sample T_sample
  simp only [hz, hv, hg, if_true]

theorem Beta_sample_eq (fuel : Nat) (alpha beta x y : α) (g g1 g2 : Rng)
    (hx : Gamma.sample fuel alpha 1 g = some (x, g1)) (hy : Gamma.sample fuel beta 1 g1 = some (y, g2)) :
    Beta.sample fuel alpha beta g =
      some (Beta_sample x y (g2.f64 (α := α)).1 alpha beta, if (x + y == 0) = true then (g2.f64 (α := α)).2 else g2) := by
  unfold Beta.sample Beta_sample
  simp only [hx, hy]
  split <;> rfl

/-! ### redraw loops (F53, F54): `let mut u = D; while u == 0. { u = D; } tail(u)` -/

/-- The translator's spelling of the redraw loop with the source's condition `u == 0.` is the model's `redrawNonzero`. -/
theorem redrawWhile_eq_redrawNonzero (draw : Rng → α × Rng) (fuel : Nat) (g : Rng) :
    Cv.SrcDraw.redrawWhile (fun (u : α) => decide ((u == 0) = true)) draw fuel g = redrawNonzero draw fuel g := by
  have hc : (fun (u : α) => decide ((u == 0) = true)) = fun u => u == 0 := by
    funext u
    exact Bool.decide_eq_true
  rw [hc]
  induction fuel generalizing g with
  | zero => rfl
  | succ n ih =>
    show (if ((draw g).1 == 0) = true then Cv.SrcDraw.redrawWhile (fun u => u == 0) draw n (draw g).2 else some (draw g)) =
      (if ((draw g).1 == 0) = true then redrawNonzero draw n (draw g).2 else some (draw g))
    rw [ih]

/-- `Exponential::sample` as a whole: the redraw loop on the cached `Uniform(0, 1)` sub-sampler, then `-u.ln() / self.lambda`. -/
theorem Exponential_sampleLoop_eq (fuel : Nat) (lambda : α) (g : Rng) :
    Exponential_sampleLoop (UniformF.sample (0 : α) 1) fuel lambda g = Exponential.sample fuel lambda g := by
  unfold Exponential_sampleLoop Exponential.sample
  rw [redrawWhile_eq_redrawNonzero]
  rfl

/-- `Gumbel::sample` as a whole. -/
theorem Gumbel_sampleLoop_eq (fuel : Nat) (mu beta : α) (g : Rng) :
    Gumbel_sampleLoop (UniformF.sample (0 : α) 1) fuel mu beta g = Gumbel.sample fuel mu beta g := by
  unfold Gumbel_sampleLoop Gumbel.sample
  rw [redrawWhile_eq_redrawNonzero]
  rfl

/-- `Pareto::sample` as a whole: the redraw loop on `alea::f64()`. -/
theorem Pareto_sampleLoop_eq (fuel : Nat) (alpha minval : α) (g : Rng) :
    Pareto_sampleLoop (fun g => g.f64 (α := α)) fuel alpha minval g = Pareto.sample fuel alpha minval g := by
  unfold Pareto_sampleLoop Pareto.sample
  rw [redrawWhile_eq_redrawNonzero]
  rfl

/-- The `then` block of `Gamma::sample`'s boost (shape below 1): the redraw loop, then `(alpha + 1., u.powf(1. / alpha))`. -/
theorem Gamma_prepareLoop_eq (fuel : Nat) (alpha : α) (g : Rng) (h : alpha < 1) :
    Gamma.prepare fuel alpha g =
      (Gamma_prepareLoop (UniformF.sample (0 : α) 1) fuel alpha g).map fun q => (q.1.1, q.1.2, q.2) := by
  unfold Gamma.prepare Gamma_prepareLoop
  rw [if_pos h, redrawWhile_eq_redrawNonzero]
  cases redrawNonzero (UniformF.sample (0 : α) 1) fuel g <;> rfl

/-- the value after that loop, as a function of the final draw -/
theorem Gamma_boost_eq (alpha u : α) : Gamma_boost u alpha = (alpha + 1, Transc.pow u (1 / alpha)) := rfl

end Cv.SrcTie.C03Mut
