import Compute.Model.Special
import Mathlib.Analysis.SpecialFunctions.Pow.Real
import Mathlib.Analysis.SpecialFunctions.Trigonometric.Basic
import Mathlib.Tactic.Ring
import Mathlib.Tactic.Linarith
import Mathlib.Tactic.NormNum
import Mathlib.Tactic.Positivity
/-
Helper material for C09: literal decoding (bits ↔ exact rational), the real-number instances of the scalar
interface (`Transc ℝ`, `OfLit ℝ`, scoped in `Cv.C09`), and elementary lemmas used by `Props/C09.lean`.
-/
namespace Cv

/-- IEEE-754 binary64 decoding check, on integers only: `l.num / l.den` is exactly the (normal) double with bit
pattern `l.bits`:  `(-1)^s · (2^52 + frac) · 2^(e - 1075) = num / den`, cross-multiplied. -/
def Lit.valid (l : Lit) : Bool :=
  let b := l.bits.toNat
  let s := b / 2 ^ 63
  let e := (b / 2 ^ 52) % 2 ^ 11
  let m : Int := ((2 ^ 52 + b % 2 ^ 52 : Nat) : Int)
  let sgn : Int := if s = 1 then -1 else 1
  decide (0 < e ∧ e < 2047 ∧ 0 < l.den ∧ l.num * (2 ^ 1075 : Nat) = sgn * m * (2 ^ e : Nat) * (l.den : Int))

namespace C09

/-- `OfLit ℝ`: a source literal is its exact rational value. -/
noncomputable scoped instance instOfLitReal : OfLit ℝ := ⟨fun l => (l.num : ℝ) / (l.den : ℝ)⟩

/-- `Transc ℝ`: Mathlib's real functions (`pow` is `Real.rpow`). -/
noncomputable scoped instance instTranscReal : Transc ℝ where
  sqrt := Real.sqrt
  exp := Real.exp
  ln := Real.log
  pow := fun x y => x ^ y
  sin := Real.sin
  cos := Real.cos
  tan := Real.tan
  abs := fun x => |x|
  floor := fun x => (⌊x⌋ : ℝ)
  ceil := fun x => (⌈x⌉ : ℝ)

theorem ofLit_real (l : Lit) : (ofLit l : ℝ) = (l.num : ℝ) / (l.den : ℝ) := rfl

/-- `SignBit ℝ`: one zero, no NaN — "sign bit clear" is `0 ≤ x`. -/
noncomputable scoped instance instSignBitReal : SignBit ℝ := ⟨fun x => decide (0 ≤ x)⟩

theorem signBit_real (x : ℝ) : SignBit.isSignPositive x = decide (0 ≤ x) := rfl

/-- A sign-bit predicate on an ordered field that is the order test `0 ≤ x` (the only lawful choice on a type with a
single zero and no NaN). -/
class LawfulSignBitField (α : Type) [Zero α] [LE α] [SignBit α] : Prop where
  sign_iff : ∀ x : α, SignBit.isSignPositive x = true ↔ (0 : α) ≤ x

instance : LawfulSignBitField ℝ := ⟨fun x => by simp [signBit_real]⟩

/-! ### Helper lemmas for `Props/C09.lean` -/
open Cv.Special

theorem transc_exp (x : ℝ) : Transc.exp x = Real.exp x := rfl
theorem transc_pow (x y : ℝ) : Transc.pow x y = x ^ y := rfl
theorem transc_sqrt (x : ℝ) : Transc.sqrt x = Real.sqrt x := rfl

/-- Bounds of the quartic on `[0,1]` for any coefficients in the stated boxes (the doubles of the source are). -/
theorem erfPoly_box (a1 a2 a3 a4 a5 t : ℝ)
    (h1 : 1/4 ≤ a1 ∧ a1 ≤ 26/100) (h2 : -29/100 ≤ a2 ∧ a2 ≤ 0) (h3 : 142/100 ≤ a3 ∧ a3 ≤ 143/100)
    (h4 : -146/100 ≤ a4 ∧ a4 ≤ -145/100) (h5 : 106/100 ≤ a5 ∧ a5 ≤ 107/100) (ht : 0 ≤ t) (ht1 : t ≤ 1) :
    0 ≤ ((((a5 * t + a4) * t) + a3) * t + a2) * t + a1 ∧ ((((a5 * t + a4) * t) + a3) * t + a2) * t + a1 ≤ 2 := by
  have t2 : 0 ≤ t ^ 2 := by positivity
  have t3 : 0 ≤ t ^ 3 := by positivity
  have t4 : 0 ≤ t ^ 4 := by positivity
  have t2le : t ^ 2 ≤ 1 := by nlinarith
  have t43 : t ^ 4 ≤ t ^ 3 := by nlinarith [mul_nonneg t3 (sub_nonneg.mpr ht1)]
  constructor
  · have hq1 : 0 ≤ 1/4 - 29/100 * t + 1/2 * t ^ 2 := by nlinarith [sq_nonneg (t - 29/100)]
    have hq2 : 0 ≤ 92/100 - 146/100 * t + 106/100 * t ^ 2 := by nlinarith [sq_nonneg (t - 73/106)]
    have e : ((((a5 * t + a4) * t) + a3) * t + a2) * t + a1 =
        (a1 - 1/4) + (a2 + 29/100) * t + (a3 - 142/100) * t ^ 2 + (a4 + 146/100) * t ^ 3 + (a5 - 106/100) * t ^ 4
          + (1/4 - 29/100 * t + 1/2 * t ^ 2) + t ^ 2 * (92/100 - 146/100 * t + 106/100 * t ^ 2) := by ring
    rw [e]
    have := mul_nonneg (by linarith [h2.1] : 0 ≤ a2 + 29/100) ht
    have := mul_nonneg (by linarith [h3.1] : 0 ≤ a3 - 142/100) t2
    have := mul_nonneg (by linarith [h4.1] : 0 ≤ a4 + 146/100) t3
    have := mul_nonneg (by linarith [h5.1] : 0 ≤ a5 - 106/100) t4
    have := mul_nonneg t2 hq2
    linarith [h1.1]
  · have e : ((((a5 * t + a4) * t) + a3) * t + a2) * t + a1 =
        a1 + a2 * t + a3 * t ^ 2 + a4 * t ^ 3 + a5 * t ^ 4 := by ring
    rw [e]
    have : a2 * t ≤ 0 := mul_nonpos_of_nonpos_of_nonneg h2.2 ht
    have : a3 * t ^ 2 ≤ 143/100 := by nlinarith [h3.1, h3.2]
    have : a5 * t ^ 4 ≤ a5 * t ^ 3 := mul_le_mul_of_nonneg_left t43 (by linarith [h5.1])
    have : (a4 + a5) * t ^ 3 ≤ 0 := mul_nonpos_of_nonpos_of_nonneg (by linarith [h4.2, h5.2]) t3
    nlinarith [h1.2]

theorem lanczosT_real (z : ℝ) : lanczosT z = z + 543 / 128 := by
  simp only [lanczosT, gC, half, two, ofLit_real, C09T.gBase]; norm_num; ring

theorem halfPow_real (z : ℝ) : halfPow z = (z + 543 / 128) ^ ((z - 1 / 2) / 2) := by
  simp only [halfPow, transc_pow, lanczosT_real, half, two]; congr 1; norm_num; ring

theorem two_rpow_nat (n : ℕ) : (2 : ℝ) ^ (n : ℝ) = (2 : ℝ) ^ n := Real.rpow_natCast 2 n

set_option maxRecDepth 100000 in
set_option exponentiation.threshold 2000 in
theorem factorial_142_lt : Nat.factorial 142 < 2 ^ 1024 := by decide +kernel

/-- `t·P(t) ≤ 1` on `[0,1]` from the exact identity `1 - t·P(t) = (1 - P(1)) + (1 - t)·R(t)`, where `R` has the tail sums
of the coefficients as coefficients; needs `P(1) ≤ 1` exactly. -/
theorem erfPoly_le_one (a1 a2 a3 a4 a5 t : ℝ)
    (h5 : 1 ≤ a5) (h4 : -4/10 ≤ a4 + a5) (h3 : 1 ≤ a3 + a4 + a5) (h2 : 0 ≤ a2 + a3 + a4 + a5)
    (h1 : 0 ≤ a1 + a2 + a3 + a4 + a5) (hS : a1 + a2 + a3 + a4 + a5 ≤ 1) (ht : 0 ≤ t) (ht1 : t ≤ 1) :
    (((((a5 * t + a4) * t) + a3) * t + a2) * t + a1) * t ≤ 1 := by
  have t2 : 0 ≤ t ^ 2 := by positivity
  have t3 : 0 ≤ t ^ 3 := by positivity
  have t4 : 0 ≤ t ^ 4 := by positivity
  have e : 1 - (((((a5 * t + a4) * t) + a3) * t + a2) * t + a1) * t =
      (1 - (a1 + a2 + a3 + a4 + a5)) + (1 - t) * ((a1 + a2 + a3 + a4 + a5) + (a2 + a3 + a4 + a5) * t
        + (a3 + a4 + a5) * t ^ 2 + (a4 + a5) * t ^ 3 + a5 * t ^ 4) := by ring
  have hR : 0 ≤ (a1 + a2 + a3 + a4 + a5) + (a2 + a3 + a4 + a5) * t + (a3 + a4 + a5) * t ^ 2
      + (a4 + a5) * t ^ 3 + a5 * t ^ 4 := by
    have c1 : 0 ≤ (a2 + a3 + a4 + a5) * t := mul_nonneg h2 ht
    have c2 : 1 * t ^ 2 ≤ (a3 + a4 + a5) * t ^ 2 := mul_le_mul_of_nonneg_right h3 t2
    have c3 : -4/10 * t ^ 3 ≤ (a4 + a5) * t ^ 3 := mul_le_mul_of_nonneg_right h4 t3
    have c4 : 0 ≤ a5 * t ^ 4 := mul_nonneg (by linarith) t4
    have c5 : t ^ 3 ≤ t ^ 2 := by nlinarith [mul_nonneg t2 (sub_nonneg.mpr ht1)]
    nlinarith
  have := mul_nonneg (sub_nonneg.mpr ht1) hR
  linarith

theorem transc_ln (x : ℝ) : Transc.ln x = Real.log x := rfl

theorem powi_real_nat (x : ℝ) : powi x (1 : Int) = x ∧ powi x (2 : Int) = x ^ 2 ∧ powi x (4 : Int) = x ^ 4 ∧
    powi x (6 : Int) = x ^ 6 ∧ powi x (8 : Int) = x ^ 8 ∧ powi x (10 : Int) = x ^ 10 ∧ powi x (12 : Int) = x ^ 12 ∧
    powi x (14 : Int) = x ^ 14 := by
  refine ⟨?_, ?_, ?_, ?_, ?_, ?_, ?_, ?_⟩ <;> (simp [powi, powiNat, powiNat.go]; try ring)

/-- Horner evaluation of an integer polynomial (ascending coefficients) at a real point. -/
noncomputable def evalPoly : List Int → ℝ → ℝ
  | [], _ => 0
  | c :: cs, z => Int.cast c + z * evalPoly cs z

theorem evalPoly_pos (z : ℝ) (hz : 0 < z) : ∀ cs : List Int, cs ≠ [] → (∀ c ∈ cs, 0 < c) → 0 < evalPoly cs z := by
  intro cs
  induction cs with
  | nil => intro h; exact absurd rfl h
  | cons c rest ih =>
    intro _ hc
    have hc0 : (0 : ℝ) < Int.cast c := by exact_mod_cast hc c (by simp)
    by_cases hr : rest = []
    · subst hr; simpa [evalPoly] using hc0
    · have := ih hr (fun d hd => hc d (by simp [hd]))
      have h2 : 0 < z * evalPoly rest z := mul_pos hz this
      simp only [evalPoly]
      linarith

set_option maxRecDepth 100000 in
set_option exponentiation.threshold 2000 in
theorem factorial_171_gt : 2 ^ 1024 < Nat.factorial 171 := by decide +kernel

end C09
end Cv
