import Compute.Drv.Common
import Compute.Model.Scalar
import Compute.Model.Rng
import Compute.Model.Samplers
/-
Driver for C03.  Protocol: see /verif/exec/src/bin/c03.rs.  Every reply ends with the generator state after
the call.  `none` of a sampler = `! diverged` (fuel exhausted), except for the panics that can be decided
before sampling (constructor asserts, integer overflow), which are `! panic`.
-/
open Cv

/-- fuel of every rejection loop, per draw -/
def c03Fuel : Nat := 100000
/-- fuel of the recurrence loops of BTPE step 5.1 -/
def c03IFuel : Nat := 100000000

abbrev C03Sampler := Rng → Option (Float × Rng)

inductive C03Ctor where
  | bad
  | panic
  | ok (f : C03Sampler)

def c03Parse {β} (p : P β) (args : List String) : Option β :=
  match (do let a ← p; pEnd; pure a : P β).run args with
  | some (a, _) => some a
  | none => none

def c03Two : P (Float × Float) := do let a ← pFloat; let b ← pFloat; pure (a, b)

def c03Ctor (dist : String) (ps : List String) : C03Ctor :=
  let F := c03Fuel
  match dist with
  | "normal" => match c03Parse c03Two ps with
    | none => .bad
    | some (mu, sigma) => if Normal.valid sigma then .ok (Normal.sample F mu sigma) else .panic
  | "gamma" => match c03Parse c03Two ps with
    | none => .bad
    | some (a, b) => if Gamma.valid a b then .ok (Gamma.sample F a b) else .panic
  | "beta" => match c03Parse c03Two ps with
    | none => .bad
    | some (a, b) => if Beta.valid a b then .ok (Beta.sample F a b) else .panic
  | "chi2" => match c03Parse pNat ps with
    | none => .bad
    | some k => if ChiSquared.valid k then .ok (ChiSquared.sample F k) else .panic
  | "t" => match c03Parse pFloat ps with
    | none => .bad
    | some d =>
      if T.valid d then
        (if Gamma.valid (d / 2) (1 : Float) then .ok (T.sample F d)
         else .ok (fun g => match Normal.sample F (0 : Float) 1 g with | none => none | some _ => none))
      else .panic
  | "poisson" => match c03Parse pFloat ps with
    | none => .bad
    | some l => if Poisson.valid l then .ok (Poisson.sample F l) else .panic
  | "binomial" => match c03Parse (do let n ← pNat; let p ← pFloat; pure (n, p)) ps with
    | none => .bad
    | some (n, p) => if Binomial.valid p then .ok (Binomial.sample F c03IFuel n p) else .panic
  | "exp" => match c03Parse pFloat ps with
    | none => .bad
    | some l => if Exponential.valid l then .ok (Exponential.sample F l) else .panic
  | "gumbel" => match c03Parse c03Two ps with
    | none => .bad
    | some (mu, b) => if Gumbel.valid b then .ok (Gumbel.sample F mu b) else .panic
  | "pareto" => match c03Parse c03Two ps with
    | none => .bad
    | some (a, m) => if Pareto.valid a m then .ok (Pareto.sample F a m) else .panic
  | "uniform" => match c03Parse c03Two ps with
    | none => .bad
    | some (a, b) => if Uniform.valid a b then .ok (total (UniformF.sample a b)) else .panic
  | "du" => match c03Parse (do let a ← pInt; let b ← pInt; pure (a, b)) ps with
    | none => .bad
    | some (a, b) => if DiscreteUniform.valid a b then .ok (DiscreteUniform.sample lemireFuel a b) else .panic
  | "bern" => match c03Parse pFloat ps with
    | none => .bad
    | some p => if Bernoulli.valid p then .ok (total (Bernoulli.sample p)) else .panic
  | _ => .bad

/-- panics that happen inside `sample` and are decidable from the parameters -/
def c03SamplePanics (dist : String) (ps : List String) : Bool :=
  match dist with
  | "t" => match c03Parse pFloat ps with
    | some d => !Gamma.valid (d / 2) (1 : Float)
    | none => false
  | "du" => match c03Parse (do let a ← pInt; let b ← pInt; pure (a, b)) ps with
    | some (a, b) => decide (a < b) && !(decide (b + 1 < 2 ^ 63) && decide (b + 1 - a < 2 ^ 63))
    | none => false
  | _ => false

def c03Fail (dist : String) (ps : List String) : String :=
  if c03SamplePanics dist ps then panicked else diverged

/-! ### summaries of long streams (`q`, `qmvn`): the same reply as `summary` / `qmvn` in exec/src/bin/c03.rs -/

/-- key of `f64::total_cmp`: the order of the keys as unsigned integers is the total order of the floats -/
@[inline] def c03Key (x : Float) : UInt64 :=
  let b := x.toBits
  if b >>> 63 == 1 then ~~~b else b ||| 0x8000000000000000

@[inline] def c03Swap (a : FloatArray) (i j : Nat) : FloatArray :=
  let x := a.get! i
  let y := a.get! j
  (a.set! i y).set! j x

/-- three-way partition of `a[i, gt)` around the key `p`; `a[lo, lt)` are below, `a[lt, i)` equal, `a[gt, hi)` above -/
partial def c03Part (p : UInt64) (a : FloatArray) (lt i gt : Nat) : FloatArray × Nat × Nat :=
  if i < gt then
    let k := c03Key (a.get! i)
    if k < p then c03Part p (c03Swap a lt i) (lt + 1) (i + 1) gt
    else if p < k then c03Part p (c03Swap a i (gt - 1)) lt i (gt - 1)
    else c03Part p a lt (i + 1) gt
  else (a, lt, gt)

/-- sort `a[lo, hi)` by `total_cmp` (three-way quicksort: many equal values are the normal case for discrete laws) -/
partial def c03Sort (a : FloatArray) (lo hi : Nat) : FloatArray :=
  if hi ≤ lo + 1 then a
  else
    let p := c03Key (a.get! ((lo + hi) / 2))
    let (a, lt, gt) := c03Part p a lo lo hi
    c03Sort (c03Sort a lo lt) gt hi

/-- `n` draws into an unboxed array; `none` = a draw ran out of fuel -/
def c03DrawArr (f : C03Sampler) : Nat → FloatArray → Rng → Option (FloatArray × Rng)
  | 0, acc, g => some (acc, g)
  | n + 1, acc, g =>
    match f g with
    | none => none
    | some (x, g) => c03DrawArr f n (acc.push x) g

/-- 0-based indices of the recorded order statistics: `j (n-1) / (k-1)`, `j < k` -/
def c03Ranks (n k : Nat) : List Nat :=
  if n = 0 then [] else if k < 2 then [0] else (List.range k).map fun j => j * (n - 1) / (k - 1)

/-- NaNs removed (count returned), rest sorted -/
def c03Sorted (v : FloatArray) : Nat × FloatArray :=
  let w := v.foldl (fun (acc : FloatArray) x => if x.isNaN then acc else acc.push x) (FloatArray.emptyWithCapacity v.size)
  (v.size - w.size, c03Sort w 0 w.size)

def c03OrderStats (v : FloatArray) (k : Nat) : List Float := (c03Ranks v.size k).map fun i => v.get! i

/-- runs of equal values of a sorted array, first representative and length; stops once more than 4097 runs exist -/
partial def c03Runs (v : FloatArray) (i : Nat) (acc : Array (Float × Nat)) : Array (Float × Nat) :=
  if i < v.size then
    let x := v.get! i
    if acc.size > 0 && (acc[acc.size - 1]!).1 == x then
      c03Runs v (i + 1) (acc.modify (acc.size - 1) fun (y, c) => (y, c + 1))
    else if acc.size > 4096 then acc
    else c03Runs v (i + 1) (acc.push (x, 1))
  else acc

def c03Summary (draws : FloatArray) (k : Nat) : String :=
  let len := draws.size
  let nonint := draws.foldl (fun (c : Nat) x => if !x.isNaN && (x.isInf || x.floor != x) then c + 1 else c) 0
  let (nan, v) := c03Sorted draws
  let nanF : Float := 0.0 / 0.0
  let mn := if v.size = 0 then nanF else v.get! 0
  let mx := if v.size = 0 then nanF else v.get! (v.size - 1)
  let runs := c03Runs v 0 #[]
  let body :=
    if runs.size ≤ 4096 then
      runs.foldl (fun (s : String) (x, c) => s ++ " " ++ showFloat x ++ " " ++ toString c) ("h " ++ toString runs.size)
    else
      let os := c03OrderStats v k
      if os.isEmpty then "o 0" else "o " ++ toString os.length ++ " " ++ showFloats os
  toString len ++ " " ++ toString nan ++ " " ++ toString nonint ++ " " ++ showFloat mn ++ " " ++ showFloat mx ++ " " ++ body

/-- rows of `MVN::sample_n` appended to an unboxed array -/
def c03MvnRows (d : MVN.Dist Float) : Nat → FloatArray → Rng → Option (FloatArray × Rng)
  | 0, acc, g => some (acc, g)
  | n + 1, acc, g =>
    match MVN.sample c03Fuel d g with
    | none => none
    | some (x, g) => c03MvnRows d n (x.foldl (fun a y => a.push y) acc) g

def c03Step (args : List String) : String :=
  match args with
  | "s" :: dist :: seed :: n :: ps =>
    match seed.toNat?, n.toNat? with
    | some seed, some n =>
      match c03Ctor dist ps with
      | .bad => badOp
      | .panic => panicked
      | .ok f =>
        match sampleN f n (Rng.ofSeed (UInt64.ofNat seed)) with
        | none => c03Fail dist ps
        | some (xs, g) => ok ((if xs.isEmpty then "" else showFloats xs ++ " ") ++ toString g.s.toNat)
    | _, _ => badOp
  | "m" :: dist :: seed :: r :: c :: ps =>
    match seed.toNat?, r.toNat?, c.toNat? with
    | some seed, some r, some c =>
      match c03Ctor dist ps with
      | .bad => badOp
      | .panic => panicked
      | .ok f =>
        if r * c ≥ 2 ^ 31 ∨ r ≥ 2 ^ 31 ∨ c ≥ 2 ^ 31 then badOp
        else
        match Rng.drawN? f (r * c) (Rng.ofSeed (UInt64.ofNat seed)) with
        | none => c03Fail dist ps
        | some (xs, g) =>
          match LA.M.new xs r c with
          | none => panicked
          | some m => ok (toString m.nrows ++ " " ++ toString m.ncols ++ " "
              ++ (if xs.isEmpty then "" else showFloats m.data ++ " ") ++ toString g.s.toNat)
    | _, _, _ => badOp
  | "q" :: dist :: seed :: n :: k :: ps =>
    match seed.toNat?, n.toNat?, k.toNat? with
    | some seed, some n, some k =>
      match c03Ctor dist ps with
      | .bad => badOp
      | .panic => panicked
      | .ok f =>
        match c03DrawArr f n (FloatArray.emptyWithCapacity n) (Rng.ofSeed (UInt64.ofNat seed)) with
        | none => c03Fail dist ps
        | some (xs, g) => ok (c03Summary xs k ++ " " ++ toString g.s.toNat)
    | _, _, _ => badOp
  | "qmvn" :: rest =>
    withArgs (do let s ← pU64; let n ← pNat; let d ← pNat; let mean ← pMany pFloat d; let cov ← pMany pFloat (d * d)
                 let m ← pNat
                 let fs ← pMany (do let w ← pMany pFloat d; let c ← pFloat; pure (w, c)) m
                 let k ← pNat; pure (s, n, d, mean, cov, fs, k)) rest
      fun (s, n, d, mean, cov, fs, k) =>
      match LA.M.new cov d d with
      | none => panicked
      | some covm =>
        match MVN.new mean covm with
        | none => panicked
        | some dist =>
          match c03MvnRows dist n (FloatArray.emptyWithCapacity (n * d)) (Rng.ofSeed s) with
          | none => panicked
          | some (data, g) =>
            let nan := data.foldl (fun (c : Nat) x => if x.isNaN then c + 1 else c) 0
            let head := toString n ++ " " ++ toString d ++ " " ++ toString nan ++ " " ++ toString fs.length ++ " " ++ toString k
            let body := fs.foldl (fun (acc : String) (w, c) =>
              let wa := FloatArray.mk w.toArray
              let vals := (List.range n).foldl (fun (v : FloatArray) i =>
                v.push ((List.range d).foldl (fun (a : Float) j => a + wa.get! j * data.get! (i * d + j)) c))
                (FloatArray.emptyWithCapacity n)
              let (_, sv) := c03Sorted vals
              acc ++ " " ++ showFloats (c03OrderStats sv k)) head
            ok (body ++ " " ++ toString g.s.toNat)
  | "mvn" :: rest =>
    withArgs (do let s ← pU64; let n ← pNat; let d ← pNat; let mean ← pMany pFloat d
                 let cr ← pNat; let cc ← pNat; let cov ← pMany pFloat (cr * cc); pure (s, n, mean, cr, cc, cov)) rest
      fun (s, n, mean, cr, cc, cov) =>
      match LA.M.new cov cr cc with
      | none => panicked
      | some covm =>
        match MVN.new mean covm with
        | none => panicked
        | some d =>
          match MVN.sampleN c03Fuel d n (Rng.ofSeed s) with
          | none => panicked
          | some (m, g) => ok (toString m.nrows ++ " " ++ toString m.ncols ++ " "
              ++ (if m.data.isEmpty then "" else showFloats m.data ++ " ") ++ toString g.s.toNat)
  | _ => badOp

/-- One request line -> one reply line (as `Cv.runFile`, stateless). -/
def c03Line (line : String) : String :=
  let toks := tokens line
  if toks.isEmpty then "#" else if toks.head!.startsWith "#" then "#" else c03Step toks

/-- The requests are independent (every line carries its seed), so they are evaluated as parallel tasks and the
replies written in request order. -/
def main (args : List String) : IO UInt32 := do
  match args with
  | [i, o] =>
    let lines ← IO.FS.lines i
    let tasks := lines.map fun line => Task.spawn fun _ => c03Line line
    let h ← IO.FS.Handle.mk o .write
    for t in tasks do
      h.putStrLn t.get
    h.flush
    pure 0
  | _ => IO.eprintln "usage: cv_c03 <ops-file> <out-file>"; pure 2
