"""C04 — element-wise arithmetic and maps are exact at every length and operand form.

Translator (EXTRACT): a small `macro_rules!` expander for the operator / map macro fan-out of
vec.rs, matrix.rs, vops.rs, broadcast.rs -> lean/Compute/Generated/C04Wiring.lean (enums + rows).
Generator / oracle: see `gen` and `oracle` below."""
import math
import os
import re
import subprocess
from fractions import Fraction

from .common import Failure, f2h, h2f, parse_reply, EXEC, OUT

ID = "C04"
BIN = "c04"
PROOF_MODULES = ["Compute.Props.C04", "Compute.Lemmas.C04Kernels", "Compute.Lemmas.C04Rows", "Compute.Lemmas.C04Maps",
                 "Compute.Lemmas.C04Reductions", "Compute.Lemmas.C04Real", "Compute.Lemmas.C04Powi", "Compute.Props.C04Review", "Compute.Props.C04Special"]

# ============================================================================ translator
TOKS = {"+": "add", "-": "sub", "*": "mul", "/": "div", "+=": "add", "-=": "sub", "*=": "mul", "/=": "div"}
FAMS = {
    "makefn_vops_binary": "binary", "makefn_vops_binary_mut": "binaryMut", "makefn_vops_unary": "unary",
    "makefn_vops_unary_with_arg_i": "unaryArgI", "makefn_vops_unary_with_arg_f": "unaryArgF",
    "makefn_vsops": "vs", "makefn_vsops_mut": "vsMut", "makefn_svops": "sv",
}
TRAITS = {"Add": "add", "Sub": "sub", "Mul": "mul", "Div": "div", "AddAssign": "addAssign",
          "SubAssign": "subAssign", "MulAssign": "mulAssign", "DivAssign": "divAssign"}
TYS = {"Vector": "vector", "&Vector": "vectorRef", "Matrix": "matrix", "&Matrix": "matrixRef", "f64": "f64"}


def _strip_comments(src):
    return re.sub(r"//[^\n]*", "", src)


def _match(src, i, open_c, close_c):
    """src[i] == open_c; index just past the matching close_c."""
    d = 0
    for j in range(i, len(src)):
        if src[j] == open_c:
            d += 1
        elif src[j] == close_c:
            d -= 1
            if d == 0:
                return j + 1
    raise ValueError("unbalanced %s" % open_c)


def parse_macros(src):
    """macro_rules! name { (pattern) => { body } ; }  (single arm) -> {name: (pattern, body)}"""
    out = {}
    for m in re.finditer(r"macro_rules!\s+(\w+)\s*\{", src):
        end = _match(src, m.end() - 1, "{", "}")
        inner = src[m.end():end - 1]
        p0 = inner.index("(")
        p1 = _match(inner, p0, "(", ")")
        rest = inner[p1:]
        arrow = rest.index("=>")
        b0 = rest.index("{", arrow)
        b1 = _match(rest, b0, "{", "}")
        if re.search(r"\S", rest[b1:].replace(";", "")):
            raise ValueError("macro %s has more than one arm" % m.group(1))
        out[m.group(1)] = (inner[p0 + 1:p1 - 1], rest[b0 + 1:b1 - 1])
    return out


def strip_macro_defs(src):
    res, i = [], 0
    for m in re.finditer(r"macro_rules!\s+(\w+)\s*\{", src):
        if m.start() < i:
            continue
        end = _match(src, m.end() - 1, "{", "}")
        res.append(src[i:m.start()])
        i = end
    res.append(src[i:])
    return "".join(res)


def split_args(s):
    args, d, cur = [], 0, ""
    for ch in s:
        if ch in "([{":
            d += 1
        elif ch in ")]}":
            d -= 1
        if ch == "," and d == 0:
            args.append(cur.strip())
            cur = ""
        else:
            cur += ch
    if cur.strip():
        args.append(cur.strip())
    return args


def expand(macros, name, argstr, depth=0):
    """Textual expansion of `name!(argstr)` for the macro shapes used in vec.rs / matrix.rs."""
    if depth > 8:
        raise ValueError("macro recursion")
    pat, body = macros[name]
    args = split_args(argstr)
    rep = re.fullmatch(r"\s*\$\(\s*\$(\w+)\s*:\s*ident\s*\)\s*,\s*\+\s*", pat)
    if rep:  # ($($x:ident),+) => { $( ... )+ }
        v = rep.group(1)
        m = re.search(r"\$\(", body)
        e = _match(body, m.end() - 1, "(", ")")
        if not body[e:].lstrip().startswith("+"):
            raise ValueError("repetition shape of %s" % name)
        inner = body[m.end():e - 1]
        text = "\n".join(inner.replace("$" + v, a) for a in args)
    else:
        pat2 = re.sub(r"\$\(\s*,\s*\$\w+\s*:\s*\w+\s*\)\?", "", pat)       # optional trailing `$(, $to_owned: ident)?`
        params = re.findall(r"\$(\w+)\s*:\s*\w+", pat2)
        if len(args) < len(params):
            raise ValueError("arity of %s: %r vs %r" % (name, params, args))
        text = body
        for p, a in sorted(zip(params, args), key=lambda pa: -len(pa[0])):
            text = text.replace("$($" + p + ")::+", a)
            text = re.sub(r"\$" + p + r"\b", a.replace("\\", "\\\\"), text)
    # nested invocations
    out = []
    pos = 0
    for m in re.finditer(r"\b(\w+)!\s*\(", text):
        if m.group(1) not in macros or m.start() < pos:
            continue
        e = _match(text, m.end() - 1, "(", ")")
        out.append(text[pos:m.start()])
        out.append(expand(macros, m.group(1), text[m.end():e - 1], depth + 1))
        pos = e
        if text[pos:pos + 1] == ";":
            pos += 1
    out.append(text[pos:])
    return "".join(out)


def expand_file(src):
    src = _strip_comments(src)
    macros = parse_macros(src)
    top = strip_macro_defs(src).split("#[cfg(test)]")[0]
    out, pos = [], 0
    for m in re.finditer(r"^(\w+)!\s*\(", top, re.M):
        if m.group(1) not in macros or m.start() < pos:
            continue
        e = _match(top, m.end() - 1, "(", ")")
        out.append(top[pos:m.start()])
        out.append(expand(macros, m.group(1), top[m.end():e - 1]))
        pos = e
    out.append(top[pos:])
    return "".join(out), macros


def impl_blocks(text, trait_names):
    """concrete `impl [ops::]Trait<Other> for Self { .. }` blocks -> (trait, self, other, body)"""
    res = []
    for m in re.finditer(r"impl\s+(?:ops::)?(\w+)<([&\w]+)>\s+for\s+([&\w]+)\s*\{", text):
        if m.group(1) not in trait_names:
            continue
        e = _match(text, m.end() - 1, "{", "}")
        res.append((m.group(1), m.group(3), m.group(2), text[m.end():e - 1]))
    return res


def _argsrc(a):
    a = a.strip()
    m = re.fullmatch(r"(?:&mut\s*|&)?(self|other)(\.data)?", a)
    if not m:
        raise ValueError("unexpected kernel argument %r" % a)
    return m.group(1), bool(m.group(2))


def _nows(t):
    return re.sub(r"\s+", "", t)


def _lanes_regex(stmt, zip_expr=None):
    """accepted spellings of the 8 lanes of one chunk, whitespace-free; stmt(i) = the statement for index expression i"""
    e = re.escape
    alts = [e("".join(stmt("idx" if k == 0 else "idx+%d" % k) for k in range(8))),                 # 8 literal lanes, in order
            e("forlanein0..8{" + stmt("idx+lane") + "}"),                                            # lane loop
            e("forlanein0..8{letat=idx+lane;" + stmt("at") + "}")]
    if zip_expr is not None:                                                                         # zip over the block slices
        alts.append(e("letblock=idx..idx+8;for(out,x)inv[block.clone()].iter_mut().zip(&v1[block]){*out=" + zip_expr + ";}"))
    return "(?:" + "|".join(alts) + ")"


def kernel_macro_regex(name):
    """whitespace-free regex for the whole body of one `makefn_*!` macro (attributes removed)"""
    e = re.escape
    alloc = "letn=v1.len();letmutv=Vec::with_capacity(n);unsafe{v.set_len(n);}letchunks=(n-(n%8))/8;"
    noalloc = "letn=v1.len();letchunks=(n-(n%8))/8;"

    def chunk(stmt, zip_expr=None, braces=False):
        r = e("foriin0..chunks{letidx=i*8;assert!(n>idx+7);") + _lanes_regex(stmt, zip_expr) + e("}")
        return "(?:" + e("{") + r + e("}") + "|" + r + ")" if braces else r

    def tail(stmt):
        return e("forjin(chunks*8)..n{" + stmt("j") + "}")

    if name == "makefn_vops_binary":
        st = lambda i: "v[%s]=v1[%s]$opv2[%s];" % (i, i, i)
        return e("pub(crate)fn$opname(v1:&[f64],v2:&[f64])->Vec<f64>{assert_eq!(v1.len(),v2.len());" + alloc) + chunk(st, None, True) + tail(st) + e("v}")
    if name == "makefn_vops_binary_mut":
        st = lambda i: "v1[%s]$opv2[%s];" % (i, i)
        return e("pub(crate)fn$opname(v1:&mut[f64],v2:&[f64]){assert_eq!(v1.len(),v2.len());" + noalloc) + chunk(st) + tail(st) + e("}")
    if name == "makefn_vops_unary":
        st = lambda i: "v[%s]=v1[%s].$op();" % (i, i)
        return e("pub(crate)fn$opname(v1:&[f64])->Vec<f64>{" + alloc) + chunk(st, "x.$op()") + tail(st) + e("v}")
    if name == "makefn_vops_unary_with_arg_f":
        st = lambda i: "v[%s]=v1[%s].$op(arg);" % (i, i)
        return e("pub(crate)fn$opname(v1:&[f64],arg:$argtype)->Vec<f64>{" + alloc) + chunk(st, "x.$op(arg)") + tail(st) + e("v}")
    if name == "makefn_vops_unary_with_arg_i":
        st = lambda i: "v[%s]=v1[%s].$op(arg);" % (i, i)
        s2 = lambda i: "v[%s]=v1[%s]*v1[%s];" % (i, i, i)
        s3 = lambda i: "v[%s]=v1[%s]*v1[%s]*v1[%s];" % (i, i, i, i)
        return (e("pub(crate)fn$opname(v1:&[f64],arg:$argtype)->Vec<f64>{" + alloc + "ifarg==2{") + chunk(s2) + e("}elseifarg==3{") + chunk(s3)
                + e("}else{") + chunk(st) + e("}") + tail(st) + e("v}"))
    if name == "makefn_vsops":
        st = lambda i: "v[%s]=v1[%s]$opscalar;" % (i, i)
        return e("pub(crate)fn$opname(v1:&[f64],scalar:f64)->Vec<f64>{" + alloc) + chunk(st, "x$opscalar") + tail(st) + e("v}")
    if name == "makefn_vsops_mut":
        st = lambda i: "v1[%s]$opscalar;" % i
        return e("pub(crate)fn$opname(v1:&mut[f64],scalar:f64){" + noalloc) + chunk(st) + tail(st) + e("}")
    if name == "makefn_svops":
        st = lambda i: "v[%s]=scalar$opv1[%s];" % (i, i)
        return e("pub(crate)fn$opname(scalar:f64,v1:&[f64])->Vec<f64>{" + alloc) + chunk(st, "scalar$opx") + tail(st) + e("v}")
    raise KeyError(name)


METHOD_OF = {"Add": "add", "Sub": "sub", "Mul": "mul", "Div": "div", "AddAssign": "add_assign", "SubAssign": "sub_assign",
             "MulAssign": "mul_assign", "DivAssign": "div_assign"}
_CALL = r"(?P<callee>[a-z]\w*)\((?P<args>[^()]*)\)"
IMPL_TEMPLATES = [   # whitespace-free full bodies of one expanded `impl ops::Trait<Other> for Self { .. }`
    ("vec", r"typeOutput=Vector;fn(?P<m>\w+)\(self,other:(?P<oty>[&\w]+)\)->Self::Output\{Vector\{v:" + _CALL + r"\}\}"),
    ("bcast", r"typeOutput=Matrix;fn(?P<m>\w+)\(self,other:(?P<oty>[&\w]+)\)->Self::Output\{" + _CALL + r"\}"),
    ("matnew", r"typeOutput=Matrix;fn(?P<m>\w+)\(self,other:(?P<oty>[&\w]+)\)->Self::Output\{Matrix::new\(" + _CALL
               + r",(?P<sh>self|other)\.nrowsasi32,(?P=sh)\.ncolsasi32,?\)\}"),
    ("assign", r"fn(?P<m>\w+)\(&mutself,other:(?P<oty>[&\w]+)\)\{" + _CALL + r";\}"),
    ("assign_assert", r"fn(?P<m>\w+)\(&mutself,other:(?P<oty>[&\w]+)\)\{assert_eq!\(self\.shape\(\),other\.shape\(\),\"[^\"]*\"\);" + _CALL + r";\}"),
]


def extract_tables(repo):
    d = os.path.join(repo, "src", "linalg", "array")
    vops = _strip_comments(open(os.path.join(d, "vops.rs")).read())
    vec_src = open(os.path.join(d, "vec.rs")).read()
    mat_src = open(os.path.join(d, "matrix.rs")).read()
    bc_src = _strip_comments(open(os.path.join(d, "broadcast.rs")).read())

    # ---- kernels: makefn_*!(name, tok [, argtype]);
    kerns = []  # (name, fam, tok|None, ufn|None)
    for m in re.finditer(r"^(makefn_\w+)!\(([^)]*)\);", vops, re.M):
        fam = FAMS[m.group(1)]
        a = split_args(m.group(2))
        if fam in ("unary", "unaryArgI", "unaryArgF"):
            kerns.append((a[0], fam, None, a[1]))
        else:
            kerns.append((a[0], fam, TOKS[a[1]], None))
    if len(kerns) != 4 * 5 + 29 + 2:
        raise ValueError("expected 51 kernels in vops.rs, found %d" % len(kerns))
    # every kernel macro body is matched IN FULL (signature, allocation, chunk loop with each of its 8 lanes, tail loop, result)
    # against the template the model of Model/Vops.lean was written from; see `kernel_macro_regex`.  Anything else is an alarm.
    vm = parse_macros(vops)
    for name in FAMS:
        if name not in vm:
            raise ValueError("kernel macro %s disappeared from vops.rs" % name)
        body = _nows(re.sub(r"#\[[^\]]*\]", "", vm[name][1]))
        if not re.fullmatch(kernel_macro_regex(name), body):
            raise ValueError("kernel macro %s: its body no longer matches the modelled template (8 lanes idx..idx+7 with the "
                             "family's operand order, or the same statement in a `for lane in 0..8` / block-zip loop; tail loop "
                             "`for j in (chunks * 8)..n`)" % name)
    extra_macros = sorted(set(vm) - set(FAMS))
    if extra_macros:
        raise ValueError("vops.rs defines kernel macros the model does not know: %s" % ", ".join(extra_macros))
    kern_names = {k[0] for k in kerns}

    def op_rows(text, want_self):
        rows = []
        blocks = impl_blocks(text, TRAITS)
        loose = len(re.findall(r"\bimpl\b[^{;]*?\b(?:%s)\s*<" % "|".join(TRAITS), text))
        if loose != len(blocks):
            raise ValueError("%d `impl <ops trait><..>` headers but only %d have the plain form the translator reads" % (loose, len(blocks)))
        for tr, slf, oth, body in blocks:
            if slf not in TYS or oth not in TYS:
                raise ValueError("impl %s<%s> for %s: operand type outside {Vector, &Vector, Matrix, &Matrix, f64}" % (tr, oth, slf))
            kinds = {TYS[slf].replace("Ref", ""), TYS[oth].replace("Ref", "")}
            if "vector" in kinds and "matrix" in kinds:
                continue  # Matrix ∘ Vector broadcasting: property C12
            if want_self not in kinds:
                if kinds == {"f64"}:
                    raise ValueError("impl %s<%s> for %s in a container file" % (tr, oth, slf))
                continue
            flat = _nows(body)
            hits = [(k, m) for k, rx in IMPL_TEMPLATES for m in [re.fullmatch(rx, flat)] if m]
            if len(hits) != 1:
                raise ValueError("impl %s<%s> for %s: the body is not exactly one kernel call in one of the modelled wrappers "
                                 "(`Vector { v: k(..) }`, `k(..)`, `Matrix::new(k(..), X.nrows as i32, X.ncols as i32)`, "
                                 "`[assert_eq!(shapes);] k(..);`): %s" % (tr, oth, slf, flat[:160]))
            kind, m = hits[0]
            if m.group("m") != METHOD_OF[tr] or m.group("oty") != oth:
                raise ValueError("impl %s<%s> for %s: method `%s(.., other: %s)` does not belong to the trait header" % (tr, oth, slf, m.group("m"), m.group("oty")))
            callee = m.group("callee")
            if not (callee in kern_names or callee.startswith("broadcast_")):
                raise ValueError("impl %s<%s> for %s calls %s, which is neither a vops kernel nor a broadcast function" % (tr, oth, slf, callee))
            assign = tr.endswith("Assign")
            cont = "matrix" if "matrix" in kinds else "vector"
            ok_kind = {("vector", False): ("vec",), ("vector", True): ("assign",),
                       ("matrix", False): ("bcast", "matnew"), ("matrix", True): ("assign", "assign_assert")}[(cont, assign)]
            if kind not in ok_kind or (kind == "bcast") != callee.startswith("broadcast_"):
                raise ValueError("impl %s<%s> for %s: wrapper `%s` does not fit the operand kinds" % (tr, oth, slf, kind))
            a = split_args(m.group("args"))
            if len(a) != 2:
                raise ValueError("kernel call arity in impl %s<%s> for %s" % (tr, oth, slf))
            (s1, d1), (s2, d2) = _argsrc(a[0]), _argsrc(a[1])
            for (s_, dd) in ((s1, d1), (s2, d2)):
                ty = slf if s_ == "self" else oth
                if dd != (ty in ("Matrix", "&Matrix")) and not callee.startswith("broadcast_"):
                    raise ValueError("`.data` projection mismatch in impl %s<%s> for %s" % (tr, oth, slf))
            shape_from = m.group("sh") if kind == "matnew" else "none"
            rows.append((TRAITS[tr], TYS[slf], TYS[oth], callee, s1, s2, shape_from, kind == "assign_assert"))
        return rows

    # ---- nothing outside the two scanned regions may implement an operator for Vector / Matrix: an `impl` anywhere in the crate is
    # as good as one in vec.rs (after `#[cfg(test)]`, in array/mod.rs, in another module); and every invocation of one of the
    # fan-out macros must be a top-level one (the only kind `expand_file` expands)
    optraits = "|".join(list(TRAITS) + ["Neg"])
    hdr = re.compile(r"\bimpl\b(?:\s*<[^>{;]*>)?\s*(?:[\w:]+::)?(?:%s)\b\s*(?:<[^{;]*?>)?\s+for\s+[^{;]*\{" % optraits)
    srcroot = os.path.join(repo, "src")
    for root, _dirs, fnames in os.walk(srcroot):
        for fnm in fnames:
            if not fnm.endswith(".rs"):
                continue
            full = os.path.join(root, fnm)
            rel = os.path.relpath(full, srcroot)
            txt = _strip_comments(open(full).read())
            if rel in (os.path.join("linalg", "array", "vec.rs"), os.path.join("linalg", "array", "matrix.rs")):
                k = txt.find("#[cfg(test)]")
                txt = "" if k < 0 else txt[k:]
                where = rel + " after #[cfg(test)]"
            else:
                where = rel
            for m in hdr.finditer(txt):
                if re.search(r"\b(Vector|Matrix)\b", m.group(0)):
                    raise ValueError("operator impl for Vector/Matrix outside the scanned part of vec.rs / matrix.rs (%s): %s" % (where, _nows(m.group(0))[:100]))
            if rel.startswith(os.path.join("linalg", "array")) and rel.split(os.sep)[-1] in ("mod.rs", "vec.rs", "matrix.rs", "vops.rs"):
                if re.search(r"\b(?:vec_\w*op\w*|mat_\w*op\w*|impl_mat_\w+|impl_unary\w+|impl_vec_\w+|makefn_\w+)!\s*\(", strip_macro_defs(txt)) and where != rel:
                    raise ValueError("fan-out macro invoked after #[cfg(test)] in %s" % rel)
                if fnm == "mod.rs" and re.search(r"\w+!\s*\(|\bimpl\b|\bfn\b", txt):
                    raise ValueError("array/mod.rs contains code (expected only `mod` / `use` items)")

    def all_invocations_top_level(src, label):
        body = strip_macro_defs(_strip_comments(src)).split("#[cfg(test)]")[0]
        names = set(parse_macros(_strip_comments(src)))
        anywhere = len(re.findall(r"\b(?:%s)!\s*\(" % "|".join(sorted(names)), body)) if names else 0
        top = len([m for m in re.finditer(r"^(\w+)!\s*\(", body, re.M) if m.group(1) in names])
        if anywhere != top:
            raise ValueError("%s: %d macro invocations, only %d at top level (nested invocations are not expanded)" % (label, anywhere, top))
    all_invocations_top_level(vec_src, "vec.rs")
    all_invocations_top_level(mat_src, "matrix.rs")
    all_invocations_top_level(open(os.path.join(d, "vops.rs")).read(), "vops.rs")

    vec_x, _ = expand_file(vec_src)
    mat_x, _ = expand_file(mat_src)
    vec_rows = op_rows(vec_x, "vector")
    mat_rows = op_rows(mat_x, "matrix")
    if len(vec_rows) != 4 * 4 + 4 * 2 + 4 * 4 + 4:
        raise ValueError("expected 44 Vector operator impls, found %d" % len(vec_rows))
    if len(mat_rows) != 4 * 4 + 4 * 2 + 4 * 4 + 4:
        raise ValueError("expected 44 Matrix operator impls, found %d" % len(mat_rows))

    # ---- negation
    def neg_body(src, ty):
        ms = [m for m in re.finditer(r"impl\s+Neg\s+for\s+([&\w]+)\s*\{", src)]
        if len(ms) != 1 or ms[0].group(1) != ty or len(re.findall(r"\bimpl\b[^{;]*\bNeg\b", src)) != 1:
            raise ValueError("expected exactly one `impl Neg for %s`" % ty)
        e_ = _match(src, ms[0].end() - 1, "{", "}")
        return _nows(src[ms[0].end():e_ - 1])
    if neg_body(_strip_comments(vec_src), "Vector") != "typeOutput=Self;fnneg(self)->Self::Output{self.v.into_iter().map(|x|-x).collect()}":
        raise ValueError("Neg for Vector changed")
    if neg_body(_strip_comments(mat_src), "Matrix") != "typeOutput=Self;fnneg(self)->Self::Output{Matrix::new(-self.data,self.nrowsasi32,self.ncolsasi32)}":
        raise ValueError("Neg for Matrix changed")

    # ---- unary maps
    vec_maps, vec_argmaps = [], []
    for m in re.finditer(r"pub fn (\w+)\(&self\) -> Self \{\s*(\w+)\(&self\.v\)\.into\(\)\s*\}", vec_x):
        vec_maps.append((m.group(1), m.group(2)))
    for m in re.finditer(r"pub fn (\w+)\(&self, arg: (\w+)\) -> Self \{\s*(\w+)\(&self\.v, arg\)\.into\(\)\s*\}", vec_x):
        vec_argmaps.append((m.group(1), m.group(3)))
    mat_maps = [(m.group(1), m.group(2)) for m in re.finditer(
        r"pub fn (\w+)\(&self\) -> Self \{\s*Self::new\(self\.data\.(\w+)\(\), self\.nrows as i32, self\.ncols as i32\)\s*\}", mat_x)]
    mat_argmaps = [(m.group(1), m.group(2)) for m in re.finditer(
        r"pub fn (\w+)\(&self, arg: \w+\) -> Self \{\s*Self::new\(self\.data\.(\w+)\(arg\), self\.nrows as i32, self\.ncols as i32\)\s*\}", mat_x)]
    if len(vec_maps) != 29 or len(mat_maps) != 29 or len(vec_argmaps) != 2 or len(mat_argmaps) != 2:
        raise ValueError("unary map fan-out changed: %d %d %d %d" % (len(vec_maps), len(mat_maps), len(vec_argmaps), len(mat_argmaps)))

    # ---- broadcast_op!(+, broadcast_add, matmatadd) ; makefn_matops!(matmatadd, vadd)
    bdefs = [(a[1], TOKS[a[0]], a[2]) for a in (split_args(m.group(1)) for m in re.finditer(r"^broadcast_op!\(([^)]*)\);", bc_src, re.M))]
    bm = parse_macros(bc_src)["broadcast_op"][1]
    if not re.search(r"\[Broadcast::None, Broadcast::None\] => \{\s*assert_eq!\(m1\.shape\(\), m2\.shape\(\)\);\s*\$matmatfn\(m1, m2\)\s*\}", bm):
        raise ValueError("broadcast_op! equal-shape arm changed")
    mmdefs = [tuple(split_args(m.group(1))) for m in re.finditer(r"^makefn_matops!\(([^)]*)\);", _strip_comments(mat_src), re.M)]
    mm = parse_macros(_strip_comments(mat_src))["makefn_matops"][1]
    if not re.fullmatch(r'pubfn\$fn\(m1:&Matrix,m2:&Matrix\)->Matrix\{assert_eq!\(m1\.shape\(\),m2\.shape\(\),"[^"]*"\);'
                        r"Matrix::new\(\$innerfn\(&m1\.data,&m2\.data\),m1\.nrowsasi32,m1\.ncolsasi32,?\)\}", _nows(mm)):
        raise ValueError("makefn_matops! body changed")
    if len(bdefs) != 4 or len(mmdefs) != 4:
        raise ValueError("broadcast/matmat fan-out changed")
    # ---- utils.rs `sum` / `dot` (the shared kernels Cv.sum8 / Cv.dot8): the default-feature block of each function is compared
    # in full with the text the model was written from.  Their association decides the float result, so any other spelling is
    # reported as a NOTE (tie by bit-exact correspondence only for that run), not silently accepted.
    utils = _strip_comments(open(os.path.join(repo, "src", "linalg", "utils.rs")).read())

    def default_block(fn_header):
        m = re.search(fn_header, utils)
        if not m:
            return None
        body = utils[m.end() - 1:_match(utils, m.end() - 1, "{", "}")]
        b = re.search(r'#\[cfg\(not\(feature = "blas"\)\)\]\s*\{', body)
        if not b:
            return None
        pre = _nows(body[1:b.start()])
        pre = re.sub(r'#\[cfg\(feature="blas"\)\]\{.*?\}\}', "", pre)     # the BLAS alternative (off by default)
        return pre + "|" + _nows(body[b.end() - 1:_match(body, b.end() - 1, "{", "}")])
    want_sum = ("letn=x.len();|{letchunks=(n-(n%8))/8;letmuts=0.;foriin0..chunks{letidx=i*8;assert!(n>idx+7);s+="
                + "+".join("x[idx%s]" % ("" if k == 0 else "+%d" % k) for k in range(8)) + ";}forjinx.iter().take(n).skip(chunks*8){s+=j;}s}")
    want_dot = ("assert_eq!(x.len(),y.len());|{letn=x.len();letchunks=(n-(n%8))/8;letmuts=0.;foriin0..chunks{letidx=i*8;assert!(n>idx+7);s+="
                + "+".join("x[idx%s]*y[idx%s]" % (("", "") if k == 0 else ("+%d" % k, "+%d" % k)) for k in range(8)) + ";}forjin(chunks*8)..n{s+=x[j]*y[j];}s}")
    if default_block(r"pub fn sum\(x: &\[f64\]\) -> f64 \{") != want_sum:
        _DRIFT.append("utils::sum is no longer spelled as the text Cv.sum8 was written from (8-term chunk sums added to s, then the tail)")
    if default_block(r"pub fn dot\(x: &\[f64\], y: &\[f64\]\) -> f64 \{") != want_dot:
        _DRIFT.append("utils::dot is no longer spelled as the text Cv.dot8 was written from (assert, 8-product chunk sums added to s, then the tail)")
    return dict(kerns=kerns, vec_rows=vec_rows, mat_rows=mat_rows, vec_maps=vec_maps, vec_argmaps=vec_argmaps,
                mat_maps=mat_maps, mat_argmaps=mat_argmaps, bdefs=bdefs, mmdefs=mmdefs)


def _enum(name, ctors, doc):
    return "/-- %s -/\ninductive %s where\n%s\nderiving DecidableEq, Repr\n\n" % (
        doc, name, "\n".join("  | %s" % c for c in ctors))


def lean_wiring(t):
    ufns = []
    for k in t["kerns"]:
        if k[3] and k[3] not in ufns:
            ufns.append(k[3])
    for (meth, _) in t["vec_maps"] + t["vec_argmaps"] + t["mat_maps"] + t["mat_argmaps"]:
        if meth not in ufns:
            ufns.append(meth)
    for (_, inner) in t["mat_maps"] + t["mat_argmaps"]:
        if inner not in ufns:
            ufns.append(inner)
    bfns = [b[0] for b in t["bdefs"]]
    mmfns = [m[0] for m in t["mmdefs"]]
    for r in t["mat_rows"]:
        if r[3].startswith("broadcast_") and r[3] not in bfns:
            raise ValueError("unknown broadcast function %s" % r[3])
    for b in t["bdefs"]:
        if b[2] not in mmfns:
            raise ValueError("unknown matmat function %s" % b[2])
    kn = [k[0] for k in t["kerns"]]
    s = "/- GENERATED by tools/cv/c04.py (EXTRACT) from /repo/src/linalg/array/{vops,vec,matrix,broadcast}.rs.\n"
    s += "   Do not edit: regenerated on every `./check C04`; the theorems of Props/C04.lean are re-checked over it. -/\n"
    s += "namespace Cv.C04W\n\n"
    s += _enum("Tok", ["add", "sub", "mul", "div"], "operator tokens `+ - * /` (and `+= -= *= /=` in the `_mut` families)")
    s += _enum("Fam", ["binary", "binaryMut", "unary", "unaryArgI", "unaryArgF", "vs", "vsMut", "sv"], "the kernel macros of vops.rs")
    s += _enum("UFn", ufns, "`f64` methods named by the unary kernels / map methods")
    s += _enum("Kern", kn, "kernels defined by `makefn_*!` invocations in vops.rs")
    s += _enum("BFn", bfns, "`broadcast_op!` instances (broadcast.rs)")
    s += _enum("MMFn", mmfns, "`makefn_matops!` instances (matrix.rs)")
    s += _enum("Ty", ["vector", "vectorRef", "matrix", "matrixRef", "f64"], "operand types of the `std::ops` impls")
    s += _enum("Trait", ["add", "sub", "mul", "div", "addAssign", "subAssign", "mulAssign", "divAssign"], "`std::ops` traits")
    s += _enum("Src", ["self", "other"], "which operand an argument position of the kernel call receives")
    s += _enum("ShapeSrc", ["none", "self", "other"], "`Matrix::new(.., X.nrows, X.ncols)`")
    s += "/-- what a kernel name was generated from: `makefn_<fam>!(name, tok)` / `(name, method[, argtype])` -/\n"
    s += "structure KDef where\n  fam : Fam\n  tok : Option Tok\n  ufn : Option UFn\nderiving DecidableEq, Repr\n\n"
    s += "def kdef : Kern → KDef\n"
    for (n, fam, tok, ufn) in t["kerns"]:
        s += "  | .%s => ⟨.%s, %s, %s⟩\n" % (n, fam, "some .%s" % tok if tok else "none", "some .%s" % ufn if ufn else "none")
    s += "\ndef allKerns : List Kern := [%s]\n\n" % ", ".join("." + n for n in kn)
    s += "/-- `broadcast_op!(tok, name, matmatfn)` -/\ndef bdef : BFn → Tok × MMFn\n"
    for (n, tok, mmf) in t["bdefs"]:
        s += "  | .%s => (.%s, .%s)\n" % (n, tok, mmf)
    s += "\n/-- `makefn_matops!(name, kernel)` -/\ndef mmdef : MMFn → Kern\n"
    for (n, k) in t["mmdefs"]:
        s += "  | .%s => .%s\n" % (n, k)
    s += "\ninductive Callee where\n  | kern (k : Kern)\n  | bcast (b : BFn)\nderiving DecidableEq, Repr\n\n"
    s += ("/-- one `impl std::ops::<trait><other> for self` after macro expansion: the function called, which operand\n"
          "goes into its first / second argument, where the result shape comes from, whether shapes are asserted equal -/\n"
          "structure OpRow where\n  trait : Trait\n  self : Ty\n  other : Ty\n  callee : Callee\n  arg1 : Src\n  arg2 : Src\n"
          "  shapeFrom : ShapeSrc\n  shapeAssert : Bool\nderiving DecidableEq, Repr\n\n")

    def rows(name, rs, doc):
        out = "/-- %s -/\ndef %s : List OpRow := [\n" % (doc, name)
        items = []
        for (tr, slf, oth, callee, a1, a2, sf, asr) in rs:
            c = ".bcast .%s" % callee if callee.startswith("broadcast_") else ".kern .%s" % callee
            items.append("  ⟨.%s, .%s, .%s, %s, .%s, .%s, .%s, %s⟩" % (tr, slf, oth, c, a1, a2, sf, "true" if asr else "false"))
        return out + ",\n".join(items) + "]\n\n"

    s += rows("vecOpRows", t["vec_rows"], "vec.rs: every `impl ops::*` whose operands are Vector / &Vector / f64")
    s += rows("matOpRows", t["mat_rows"], "matrix.rs: every `impl ops::*` whose operands are Matrix / &Matrix / f64")
    s += "/-- vec.rs `impl_unaryops_vector!(kernel, method)`: (method, kernel) -/\ndef vecMaps : List (UFn × Kern) := [%s]\n\n" % ", ".join("(.%s, .%s)" % mk for mk in t["vec_maps"])
    s += "/-- vec.rs `impl_unaryops_with_arg_vector!` -/\ndef vecArgMaps : List (UFn × Kern) := [%s]\n\n" % ", ".join("(.%s, .%s)" % mk for mk in t["vec_argmaps"])
    s += "/-- matrix.rs `impl_unary_ops_matrix!`: (Matrix method, Vector method it calls on `self.data`) -/\ndef matMaps : List (UFn × UFn) := [%s]\n\n" % ", ".join("(.%s, .%s)" % mk for mk in t["mat_maps"])
    s += "def matArgMaps : List (UFn × UFn) := [%s]\n\n" % ", ".join("(.%s, .%s)" % mk for mk in t["mat_argmaps"])
    s += "end Cv.C04W\n"
    return s


_DRIFT = []


def EXTRACT(repo):
    del _DRIFT[:]
    files = {"Compute/Generated/C04Wiring.lean": lean_wiring(extract_tables(repo))}
    if _DRIFT:
        from .common import SourceDrift
        raise SourceDrift(" || ".join(_DRIFT), files)
    return files


# ============================================================================ generator
REQUIRED_THEOREMS = [
    "Cv.C04.vbin_spec", "Cv.C04.vbinMut_spec", "Cv.C04.vs_spec", "Cv.C04.vsMut_spec", "Cv.C04.sv_spec", "Cv.C04.vun_spec",
    "Cv.C04.vunArgF_spec", "Cv.C04.vpowi_spec", "Cv.C04.vpowi_eq_map_powi", "Cv.C04.vpowi_eq_map_zpow", "Cv.C04.powi_eq_pow", "Cv.C04.powi_eq_zpow",
    "Cv.C04.vecOpRows_wellWired", "Cv.C04.matOpRows_wellWired", "Cv.C04.vecOpRows_complete", "Cv.C04.matOpRows_complete",
    "Cv.C04.kernels_complete", "Cv.C04.vector_forms_exact", "Cv.C04.matrix_forms_exact", "Cv.C04.matrix_assign_shape_mismatch",
    "Cv.C04.vector_maps_exact", "Cv.C04.matrix_maps_exact", "Cv.C04.vecMapI_eq_map", "Cv.C04.matMapI_eq_map",
    "Cv.C04.vecMapF_spec", "Cv.C04.matMapF_spec", "Cv.C04.negVal_mat",
    "Cv.C04.sum8_eq_sum", "Cv.C04.dot8_eq_sum_mul", "Cv.C04.dot?_spec", "Cv.C04.prodL_eq_prod", "Cv.C04.normL_real",
    "Cv.C04.maxL_isGreatest", "Cv.C04.logsumexpL_real", "Cv.C04.logmeanexpL_real", "Cv.C04.shifted_bounds",
    "Cv.C04.infNormL_real", "Cv.C04.infNormL_panics", "Cv.C04.matInfNorm_real",
    "Cv.C04.powi_two_of", "Cv.C04.powi_three_of", "Cv.C04.vpowi_eq_map_powi_of", "Cv.C04.vecMapI_eq_map_powi_of",
    "Cv.C04.matMapI_eq_map_powi_of", "Cv.C04.matrix_op_mismatch",
    "Cv.C04.logsumexpE_nil", "Cv.C04.logsumexpE_of_ne", "Cv.C04.logsumexpE_real",
    "Cv.C04.shiftedExpSum_filter", "Cv.C04.logsumexpL_filter", "Cv.C04.logmeanexpL_counts_all", "Cv.C04.logmeanexpL_eq_logsumexpL_sub_log",
]
RULE = ("all lengths 0..40 x {4 operators x every one of the 11 operator forms of Vector and of Matrix (owned/borrowed, vector, "
        "scalar-left, scalar-right, assign; all 11 in both tiers), negation, 29 unary maps, powi (exponents 0,1,2,3,-1,-2,5,..), powf, 7 reductions}, "
        "then random lengths up to 1e4; long inputs built from a compact description on both sides (small integers: exact oracle) at lengths "
        "16384, 16385, 16391, 20000, 32769, 50000, 65543, 100000, 131079 (thorough: 2^k, 2^k+-1, 2^k+-7 for k = 12..17, 20000, 50000, "
        "100000, 300000) for every reduction (sum, norm x3 routes, prod, max, logsumexp, logmeanexp, dot free + Vector::dot, Matrix::inf_norm) "
        "and a sample of element-wise kernels (digest of the result); threshold-band strata: logsumexp/logmeanexp (free + Vector method) with maxima in "
        "[690, 709.78], in the underflow band [-745.2, -690], straddling +-709, lengths 1..300; map arguments at the "
        "overflow/underflow/tiny-argument thresholds of exp, exp2, exp_m1, ln_1p, sinh, cosh, ...; special-entry mixes for logsumexp / "
        "logmeanexp at lengths 1..20 (only NaN, only -inf, NaN with -inf, -inf with finite, +inf with finite, NaN with finite, all kinds; "
        "free functions and Vector methods); every special exponent of powf "
        "(+-1/2, +-1/3, +-1/4, +-1, +-2, +-3, +-0, +-1.5, +-1e-3, +-10, +-inf, NaN) and powi (0, +-1..+-4, i32::MIN, i32::MAX) on Vector "
        "and Matrix; scalar sweeps of all 29 methods on random bit patterns / near +-1 / cubes (10x for cbrt, asinh, acosh, atanh, "
        "which the model spells itself); every request is compared with the model (no tables); every map on a list of special arguments (0, +-1, +-1/2, powers of two, multiples of pi/4, pi/6); non-trivial = distinct (request kind, operator/function, operand kinds, "
        "ownership, length) class with a reply")
EXHAUSTIVE = {"quick": False, "thorough": False}
NOT_PROVED = [
    "T-B: floating-point rounding bounds |sum8 x - sum x| <= gamma_(n-1) sum|x_i| (and for dot, prod, norm, inf_norm, "
    "logsumexp) are not theorems; they are checked by the oracle against exact rational / 40-digit references on every run",
    "that the IEEE-754 operations + - * / and the libm functions of Lean's Float coincide with Rust's f64 methods is "
    "measured by the bit-exact correspondence run, not proved; the same holds for the model's spelling of Rust std's own "
    "formulas for asinh / acosh / atanh (Cv.asinhF, Cv.acoshF, Cv.atanhF over ln_1p, hypot, sqrt, ln) and for f64::cbrt "
    "as the correctly rounded cube root (Cv.cbrtF, exact integer arithmetic): measured bit-identical on 1.2e6 (each "
    "formula) and 1.0e7 (cbrt) random + special arguments, and re-measured on every run by the scalar sweep lines",
    "Matrix op Matrix with different (broadcast-compatible) shapes is property C12; here only equal shapes and "
    "non-broadcastable mismatches",
    "logsumexp / logmeanexp theorems assume non-empty input without NaN (over the reals); inputs containing +inf or only "
    "-inf return NaN in the implementation (inf - inf) and are outside the stated domain (finite log-domain inputs); "
    "the empty slice: logsumexp(&[]) = f64::NEG_INFINITY is the guard of the repaired function (F55), theorem "
    "logsumexpE_nil and an unconditional oracle check; logmeanexp(&[]) is undefined (0/0) and not judged",
    "the correspondence between the Rust text of the impl / kernel-macro bodies and the hand-written model functions "
    "(runKern2, vbin, vs, sv, ...) is a full-text template match in the translator plus the bit-exact run, not a "
    "source-generated Lean definition proved equal to the model (the rs2lean translator covers logsumexp with its empty guard, logmeanexp, "
    "prod, norm, is_matrix, inf_norm, and sum / dot in SrcC04Mut; inside the other functions dot and max are substituted by name)",
]
TRUSTED = [
    "tools/cv/c04.py EXTRACT: textual macro_rules! expander producing Generated/C04Wiring.lean from vops.rs, vec.rs, matrix.rs, "
    "broadcast.rs.  Every expanded `impl ops::..` body must match in full one of five wrapper templates around exactly one kernel "
    "call, every operand type must be Vector/&Vector/Matrix/&Matrix/f64, every `makefn_*!` macro body must match in full the "
    "template its model (Model/Vops.lean, runKern2 in Model/VecOps.lean: hand-written) was transcribed from - all 8 lanes in "
    "order with the family operand order (literal lanes, a `for lane in 0..8` loop or a block-zip loop), chunk count, assert, "
    "tail loop `(chunks*8)..n` - likewise Neg, makefn_matops! and the map methods; every .rs file of the crate (array/mod.rs and the "
    "text after #[cfg(test)] included) is scanned for operator impls mentioning Vector / Matrix outside the two expanded regions, and "
    "nested macro invocations are rejected; anything else is an extraction alarm (VIOLATION).  That these templates mean what the model says is a reading of Rust text, not a proof; the behaviour is "
    "additionally tied bit for bit at every length.  utils::sum / utils::dot: default-feature block compared in full with the "
    "text Cv.sum8 / Cv.dot8 were written from (a different spelling is a NOTE: correspondence-only for that run); the "
    "functions themselves are regenerated and proved equal to Cv.sum8 / Cv.dot8 in Props/SrcTieC04Mut.lean (sum_eq, dot_eq; "
    "translator owner, wired into this check by the lead through srctie.wire_mut); the vops kernel macros are not in the "
    "translator table (macro_rules! instances)",
    "@[extern \"hypot\"] Cv.hypotF (Model/VopsScalar.lean) and @[extern \"log1p\"/\"expm1\"] (Model/Scalar.lean): the C functions of "
    "the glibc both executables link; used only by the Float driver, never by a theorem",
    "element operators and scalar methods are IEEE/libm operations on f64, one per position (compared bit for bit with the "
    "Rust scalar call on every generated position)",
    "no request is implementation-only any more: asinh/acosh/atanh are tied through Rust std's formulas (std does not call "
    "libm for them: asinh(x) = ln_1p(|x| + |x|/(hypot(1,1/|x|) + 1/|x|)).copysign(x), acosh(x) = NaN for x < 1 else "
    "ln(x + sqrt(x-1)*sqrt(x+1)), atanh(x) = 0.5*ln_1p(2x/(1-x)); the libm asinh/acosh/atanh of Lean's Float differ from "
    "Rust on 8.7-10.3 % of arguments), hypot through the C function both sides call; cbrt: Lean's Float.cbrt (glibc) "
    "differs from Rust's f64::cbrt on 5269225 of 10000170 swept arguments (52.7 %), by at most 3 ulp - Rust's is the "
    "correctly rounded cube root (core-math port; checked exactly on 3e5 arguments), which the model computes exactly "
    "(0 differences on the same 10000170 arguments); sweeps: tools/cv/c04_sweep.py",
]
ASSUMPTIONS = [
    "matrices are built through Matrix::new (data.len() == nrows*ncols); public fields are not corrupted by hand",
    "provisos of the rounding theorems (Props/Rounding*.lean, owned by the lead) as they apply to f64: the standard model "
    "fl(a op b) = (a op b)(1+d), |d| <= u holds only in the absence of overflow and (for * and /) underflow; sum8_error_pred "
    "(gamma_(n-1)) and dot8_error (gamma_n) additionally need idempotent rounding (M.Idem) and representable inputs (Rep); "
    "logsumexp_error / logmeanexp_error assume a relative-error exp (false for f64 once x - max < -745: the term underflows; only "
    "stdmodel_logsumexp_note with spread max - min <= 700 and n <= 10000 applies to f64 as stated) and do not cover overflow of "
    "v - xmax for inputs near +-f64::MAX of opposite signs; the oracle ranges are chosen inside these provisos",
    "logsumexp / logmeanexp value theorems: non-empty input without NaN and without infinities (the empty slice is the separate "
    "guard theorem logsumexpE_nil)",
]
OPS = ["add", "sub", "mul", "div"]
MAPS = ["ln", "ln_1p", "log10", "log2", "exp", "exp2", "exp_m1", "sin", "cos", "tan", "sinh", "cosh", "tanh", "asin",
        "acos", "atan", "asinh", "acosh", "atanh", "sqrt", "cbrt", "abs", "floor", "ceil", "to_radians", "to_degrees",
        "recip", "round", "signum"]
TABLE_FNS = set()      # maps whose scalar function the model cannot reproduce bit-wise would be passed as tables (op `mapt`): none left
SWEEP_FNS = ["cbrt", "asinh", "acosh", "atanh"]   # model-side formulas / exact rounding rather than a shared libm call: swept harder
POWI_EXPS = [0, 1, 2, 3, -1, -2, 5, 4, -3, 7, 10, -7, 31]
REDS = ["sum", "prod", "norm", "max", "logsumexp", "logmeanexp"]
INF = float("inf")
NAN = float("nan")
SPECIALS = [0.0, -0.0, INF, -INF, NAN, 5e-324, -5e-324, 1e-310, -3e-309, 2.2250738585072014e-308,
            1.7976931348623157e308, -1.7976931348623157e308, 1.0, -1.0, 0.5, 2.0, 1e-170, 1e170]
U = Fraction(1, 2 ** 53)
SC = 2 ** 1074


def V(xs):
    xs = list(xs)
    return "v 0" if not xs else "v %d %s" % (len(xs), " ".join(f2h(x) for x in xs))


def M(r, c, xs):
    xs = list(xs)
    return "m %d %d %s" % (r, c, "0" if not xs else "%d %s" % (len(xs), " ".join(f2h(x) for x in xs)))


def S(x):
    return "s " + f2h(x)


def distinct(rng, n, base=1.0):
    return [base + i + rng.randint(1, 15) / 16.0 for i in range(n)]


def mixed(rng, n, p_special=0.15):
    return [rng.choice(SPECIALS) if rng.chance(p_special) else rng.normal() * 10.0 ** rng.randint(-3, 3) for _ in range(n)]


def data(rng, n):
    k = rng.randint(0, 3)
    if k == 0:
        return distinct(rng, n, float(rng.randint(-40, 40)))
    if k == 1:
        return mixed(rng, n)
    if k == 2:
        return [rng.normal() for _ in range(n)]
    return mixed(rng, n, 0.5)


def map_data(rng, fn, n):
    k = rng.randint(0, 7)
    if k == 7:
        return [rng.choice(SPECIAL_ARGS) for _ in range(n)]
    if k >= 5:
        e = edge_values(rng, fn, n)
        if e is not None:
            return e
        k = rng.randint(0, 4)
    if k == 0:
        return mixed(rng, n)
    if k == 1:
        return [rng.uniform(-1.0, 1.0) for _ in range(n)]
    if k == 2:
        return [rng.loguniform(1e-12, 1e12) * (1 if fn in ("ln", "log2", "log10", "sqrt", "acosh") or rng.chance(0.5) else -1) for _ in range(n)]
    if k == 3:
        return [rng.uniform(-720.0, 720.0) for _ in range(n)]
    return distinct(rng, n, float(rng.randint(-3, 3)))


def shapes_of(n, rng):
    """a factorisation r*c = n"""
    if n == 0:
        return rng.choice([(0, 0), (0, 3), (3, 0), (0, 1), (1, 0)])
    divs = [d for d in range(1, n + 1) if n % d == 0] if n <= 5000 else [1, n]
    r = rng.choice(divs)
    return (r, n // r)


def scalar(rng):
    return rng.choice(SPECIALS) if rng.chance(0.15) else rng.normal() * 10.0 ** rng.randint(-2, 2)


def op_forms(rng, n, cont, ops, cover, full):
    """every operator form of one container at length n"""
    out = []
    for op in ops:
        def cv(xs):
            if cont == "v":
                return V(xs)
            return M(sh[0], sh[1], xs)
        sh = shapes_of(n, rng)
        forms = [("bin", sr, orf, "cc") for sr in (0, 1) for orf in (0, 1)] + \
                [("bin", sr, 0, "cs") for sr in (0, 1)] + [("bin", 0, orf, "sc") for orf in (0, 1)] + \
                [("asg", 0, orf, "cc") for orf in (0, 1)] + [("asg", 0, 0, "cs")]
        if not full:
            forms = [forms[(n + k * 3 + OPS.index(op)) % len(forms)] for k in range(4)]
        for (kind, sr, orf, ks) in forms:
            sh = shapes_of(n, rng)
            a, b = data(rng, n), data(rng, n)
            s = scalar(rng)
            if kind == "bin":
                if ks == "cc":
                    out.append("bin %s %d %d %s %s" % (op, sr, orf, cv(a), cv(b)))
                elif ks == "cs":
                    out.append("bin %s %d 0 %s %s" % (op, sr, cv(a), S(s)))
                else:
                    out.append("bin %s 0 %d %s %s" % (op, orf, S(s), cv(b)))
            else:
                if ks == "cc":
                    out.append("asg %s %d %s %s" % (op, orf, cv(a), cv(b)))
                else:
                    out.append("asg %s 0 %s %s" % (op, cv(a), S(s)))
            cover["forms_" + cont] = cover.get("forms_" + cont, 0) + 1
    return out


def mismatch_lines(rng, n, cover):
    out = []
    op = rng.choice(OPS)
    k = rng.choice([1, 2, 7, 8, 9, 16])
    n2 = n + k if rng.chance(0.5) or n < k else n - k
    a, b = data(rng, n), data(rng, n2)
    out.append("bin %s %d %d %s %s" % (op, rng.randint(0, 1), rng.randint(0, 1), V(a), V(b)))
    out.append("asg %s %d %s %s" % (rng.choice(OPS), rng.randint(0, 1), V(a), V(b)))
    out.append("dot %s %s" % (V(a)[2:], V(b)[2:]))
    # matrices: same element count but different shape, and different counts; all dimensions >= 2 (no broadcasting)
    r, c = rng.randint(2, 6), rng.randint(2, 6)
    r2, c2 = rng.choice([(c, r), (r + 1, c), (r, c + 2), (r + 3, c + 1)])
    if (r2, c2) != (r, c):
        out.append("bin %s %d %d %s %s" % (rng.choice(OPS), rng.randint(0, 1), rng.randint(0, 1), M(r, c, data(rng, r * c)), M(r2, c2, data(rng, r2 * c2))))
        out.append("asg %s %d %s %s" % (rng.choice(OPS), rng.randint(0, 1), M(r, c, data(rng, r * c)), M(r2, c2, data(rng, r2 * c2))))
    # Matrix::new with a wrong element count
    out.append("neg %s" % M(r, c, data(rng, r * c + rng.choice([-1, 1, c]))))
    cover["mismatch"] = cover.get("mismatch", 0) + len(out)
    return out


def map_lines(rng, n, cont, fns, cover):
    out = []
    for fn in fns:
        x = map_data(rng, fn, n)
        sh = shapes_of(n, rng)
        opnd = V(x) if cont == "v" else M(sh[0], sh[1], x)
        out.append("map %s %s" % (fn, opnd))
        out.append("scal %s %s" % (fn, V(x)[2:]))
        cover["maps"] = cover.get("maps", 0) + 1
    return out


I32_MIN, I32_MAX = -2147483648, 2147483647
POWF_SPECIAL = [0.5, -0.5, 1.0 / 3.0, -1.0 / 3.0, 0.25, -0.25, 1.0, -1.0, 2.0, -2.0, 3.0, -3.0, 0.0, -0.0, 1.5, -1.5,
                1e-3, -1e-3, 10.0, -10.0, INF, -INF, NAN, 2.0 / 3.0, -2.0 / 3.0, 4.0, 0.75, 1.0 / 7.0]
POWI_SPECIAL = [0, 1, -1, 2, -2, 3, -3, 4, -4, I32_MIN, I32_MAX, I32_MIN + 1, I32_MAX - 1, 1073741824, 65536]
# arguments a library might special-case: zeros, +-1, +-1/2, powers of two over the whole exponent range, multiples of
# pi/4 and pi/6 (nearest f64), small integers, e
SPECIAL_ARGS = ([0.0, -0.0, 1.0, -1.0, 0.5, -0.5, 2.0, -2.0, 3.0, -3.0, 4.0, 8.0, 10.0, 100.0, 1000.0, 0.25, 0.125, 1.5, -1.5,
                 math.e, 1.0 / math.e, 1.0 / 3.0, INF, -INF, NAN]
                + [2.0 ** k for k in (-1074, -1073, -1023, -1022, -537, -53, -52, -27, -26, -1, 1, 10, 26, 27, 28, 29, 52, 53, 63, 64, 511, 512, 1023)]
                + [-(2.0 ** k) for k in (-1074, -1022, -52, 10, 53, 1023)]
                + [k * math.pi / 4 for k in range(-8, 9) if k] + [math.pi / 6, -math.pi / 6, math.pi / 3, 5 * math.pi / 6, 180.0, 90.0, 360.0, 45.0])


def pow_data(rng, n, p_neg=0.2):
    return [rng.choice(SPECIAL_ARGS) if rng.chance(0.2) else abs(rng.normal()) * 10.0 ** rng.randint(-2, 2) * (-1 if rng.chance(p_neg) else 1)
            for _ in range(n)]


def special_pow_lines(rng, cover, reps):
    """every special exponent of powf / powi on both containers, at lengths that cross the unroll width"""
    out = []
    for cont in ("v", "m"):
        for p in POWF_SPECIAL:
            for _ in range(reps):
                n = rng.randint(1, 20)
                x = pow_data(rng, n)
                sh = shapes_of(n, rng)
                out.append("powf %s %s" % (f2h(p), V(x) if cont == "v" else M(sh[0], sh[1], x)))
                out.append("scalf %s %s" % (f2h(p), V(x)[2:]))
                cover["powf_special"] = cover.get("powf_special", 0) + 1
        for e in POWI_SPECIAL:
            for _ in range(reps):
                n = rng.randint(1, 20)
                x = pow_data(rng, n, 0.4)
                if abs(e) > 1000:   # informative bases for huge exponents: 1 +- tiny, exact +-1, 0, inf
                    x = [rng.choice([1.0, -1.0, 0.0, -0.0, INF, -INF, NAN, 0.5, -2.0]) if rng.chance(0.3)
                         else (1.0 + rng.normal() * 10.0 ** rng.randint(-12, -7)) * rng.choice([1, -1]) for _ in range(n)]
                sh = shapes_of(n, rng)
                out.append("powi %d %s" % (e, V(x) if cont == "v" else M(sh[0], sh[1], x)))
                out.append("scali %d %s" % (e, V(x)[2:]))
                cover["powi_special"] = cover.get("powi_special", 0) + 1
    return out


def special_map_lines(rng, cover):
    """every unary map on the whole list of special arguments, both containers"""
    out = []
    for cont in ("v", "m"):
        for fn in MAPS:
            x = list(SPECIAL_ARGS) + [math.nextafter(v, rng.choice([INF, -INF])) for v in SPECIAL_ARGS if v == v and abs(v) != INF and rng.chance(0.3)]
            rng.shuffle(x)
            sh = shapes_of(len(x), rng)
            out.append("map %s %s" % (fn, V(x) if cont == "v" else M(sh[0], sh[1], x)))
            out.append("scal %s %s" % (fn, V(x)[2:]))
            cover["maps_special_args"] = cover.get("maps_special_args", 0) + 1
    return out


def pow_lines(rng, n, cont, exps, nf, cover):
    out = []
    for e in exps:
        x = [rng.choice(SPECIALS) if rng.chance(0.1) else rng.normal() * 10.0 ** rng.randint(-2, 2) for _ in range(n)]
        sh = shapes_of(n, rng)
        out.append("powi %d %s" % (e, V(x) if cont == "v" else M(sh[0], sh[1], x)))
        out.append("scali %d %s" % (e, V(x)[2:]))
        cover["powi"] = cover.get("powi", 0) + 1
    for _ in range(nf):
        p = rng.choice(POWF_SPECIAL + [rng.normal() * 3])
        x = [rng.choice(SPECIALS) if rng.chance(0.1) else abs(rng.normal()) * 10.0 ** rng.randint(-2, 2) * (1 if rng.chance(0.8) else -1) for _ in range(n)]
        sh = shapes_of(n, rng)
        out.append("powf %s %s" % (f2h(p), V(x) if cont == "v" else M(sh[0], sh[1], x)))
        out.append("scalf %s %s" % (f2h(p), V(x)[2:]))
        cover["powf"] = cover.get("powf", 0) + 1
    return out


def red_data(rng, name, n):
    k = rng.randint(0, 3)
    if name in ("logsumexp", "logmeanexp"):
        if n >= 1 and rng.chance(0.4):
            return band_data(rng, n)
        if k == 0:
            return [rng.uniform(-1e4, 1e4) for _ in range(n)]
        if k == 1:
            c = rng.uniform(-1e4, 1e4)
            return [c + rng.normal() * rng.choice([1e-3, 1.0, 30.0]) for _ in range(n)]
        if k == 2:
            return [rng.choice([0.0, -0.0, 1e4, -1e4, 745.0, -745.0, 709.8, rng.normal()]) for _ in range(n)]
        return [rng.normal() * 10.0 ** rng.randint(-3, 3) for _ in range(n)]
    if name == "prod":
        if k == 0:
            return [rng.choice(SPECIALS[:4] + [2.0, -1.0, 0.5]) if rng.chance(0.05) else rng.uniform(0.5, 2.0) * rng.choice([1, -1]) for _ in range(n)]
        return [rng.uniform(0.7, 1.4) * rng.choice([1, -1]) for _ in range(n)]
    if name == "max":
        return mixed(rng, n, 0.3)
    if k == 0:
        return mixed(rng, n, 0.03)
    if k == 1:
        return [rng.normal() * 10.0 ** rng.randint(-8, 8) for _ in range(n)]
    if k == 2:
        return distinct(rng, n, float(rng.randint(-40, 40)))
    return [rng.normal() for _ in range(n)]


EXP_OVF = 709.782712893384     # ln(f64::MAX): exp overflows above
EXP_UNF = -745.1332191019411   # exp underflows to 0 below (ln of the smallest subnormal)


def band_data(rng, n):
    """log-domain inputs around the thresholds of exp: a computation that does not shift by the maximum (or shifts by
    something else) overflows / underflows here although every single exp() is finite / non-zero."""
    k = rng.randint(0, 5)
    near = lambda m, w: [m - rng.uniform(0.0, w) for _ in range(n - 1)] + [m]
    if k == 0:      # maximum in [690, 709.78], all elements within 0..10 of it
        xs = near(rng.uniform(690.0, EXP_OVF), rng.choice([0.0, 0.1, 1.0, 10.0]))
    elif k == 1:    # maximum just below fixed candidate cut-offs, elements tightly packed
        xs = near(rng.choice([700.0, 705.0, 708.0, 708.9, 708.99, 709.0, 709.5, 709.78, 710.0, 690.0]) - rng.choice([0.0, 1e-9, 0.01]),
                  rng.choice([0.0, 0.5, 3.0]))
    elif k == 2:    # all negative, maximum in the underflow band
        xs = near(rng.uniform(EXP_UNF - 0.1, -690.0), rng.choice([0.0, 1.0, 10.0, 60.0]))
    elif k == 3:    # straddling +-709
        xs = [rng.choice([1, -1]) * rng.uniform(700.0, 720.0) for _ in range(n)]
    elif k == 4:    # a band maximum with a far tail
        xs = near(rng.uniform(695.0, 709.7), 5.0)
        xs = [v if rng.chance(0.7) else v - rng.uniform(700.0, 1500.0) for v in xs[:-1]] + [xs[-1]]
    else:           # mirrored: negative maxima near -709 / -745 with packed elements
        xs = near(-rng.choice([690.0, 700.0, 708.0, 709.0, 709.78, 740.0, 745.0, 745.13, 746.0]), rng.choice([0.0, 0.5, 5.0]))
    rng.shuffle(xs)
    return xs


def band_lines(rng, n, cover):
    out = []
    for name in ("logsumexp", "logmeanexp"):
        for form in ("free", "meth"):
            out.append("red %s %s %s" % (name, form, V(band_data(rng, n))))
            cover["red_band_" + name] = cover.get("red_band_" + name, 0) + 1
    return out


# arguments at the thresholds of the scalar functions behind the maps
MAP_EDGES = {
    "exp": [EXP_OVF, 709.78, 709.79, 710.0, 709.0, EXP_UNF, -745.13, -745.14, -745.2, -708.4, -708.39, 1e-300, -1e-17, 5e-324],
    "exp2": [1023.9999, 1024.0, 1023.0, -1074.0, -1074.5, -1075.0, -1075.1, -1022.0, 1e-17],
    "exp_m1": [1e-300, -1e-300, 5e-324, 1e-17, -1e-17, 2.2e-16, -1.1e-16, 1e-8, -1e-8, EXP_OVF, 709.79, -36.0, -37.5, -745.2, -0.0],
    "ln_1p": [1e-300, -1e-300, 5e-324, 1e-17, -1e-17, 2.2e-16, -1.1e-16, 1e-8, -1e-8, -1.0, -0.9999999999999999, -1.0000000000000002, 1e308, -0.0],
    "sinh": [710.0, 710.4, 710.5, 711.0, -710.4, -710.5, 709.78, 1e-17, -1e-300, 22.0],
    "cosh": [710.0, 710.4, 710.5, 711.0, -710.5, 709.78, 1e-9, 22.0],
    "tanh": [1e-300, 1e-17, 19.0, 19.1, 22.0, -22.0, 1e-8],
    "ln": [5e-324, 2.2250738585072014e-308, 1.0, 0.9999999999999999, 1.0000000000000002, 1.7976931348623157e308, 0.0, -0.0],
    "log2": [5e-324, 2.2250738585072014e-308, 1.0, 2.0, 0.9999999999999999, 1.7976931348623157e308],
    "log10": [5e-324, 1.0, 10.0, 1e22, 1e23, 0.9999999999999999, 1.7976931348623157e308],
    "sqrt": [5e-324, 2.2250738585072014e-308, 1.7976931348623157e308, 4.0, 2.0],
    "asin": [1.0, -1.0, 1.0000000000000002, 0.9999999999999999, 1e-9, 1e-300],
    "acos": [1.0, -1.0, 1.0000000000000002, 0.9999999999999999, 1e-9],
    "atanh": [1.0, -1.0, 0.9999999999999999, 1e-9, 1e-300, 1.0000000000000002],
    "acosh": [1.0, 0.9999999999999999, 1.0000000000000002, 1e308, 2.0 ** 28, 2.0 ** 29],
    "asinh": [1e-300, 1e-9, 2.0 ** -28, 2.0 ** 28, 1e308, -1e308],
    "sin": [1e-300, 1e-9, math.pi, 1e22, 1.7976931348623157e308], "cos": [1e-9, math.pi / 2, 1e22], "tan": [math.pi / 2, 1e-9, 1e22],
    "round": [0.5, -0.5, 0.49999999999999994, 1.5, 2.5, -2.5, 4503599627370495.5, 4503599627370496.0, 9007199254740993.0],
    "floor": [-0.5, 0.5, -1e-300, 4503599627370495.5], "ceil": [-0.5, 0.5, 1e-300, -4503599627370495.5],
    "recip": [5e-324, 1.7976931348623157e308, 4.4501477170144023e-308, 5.562684646268003e-309, -0.0],
    "cbrt": [5e-324, -5e-324, 8.0, -27.0, 1.7976931348623157e308],
}


def edge_values(rng, fn, n):
    """n arguments for map `fn`: its threshold arguments, their neighbours, and a few jittered copies"""
    e = MAP_EDGES.get(fn)
    if not e:
        return None
    out = []
    for _ in range(n):
        v = rng.choice(e)
        r = rng.randint(0, 3)
        if r == 1:
            v = math.nextafter(v, INF)
        elif r == 2:
            v = math.nextafter(v, -INF)
        elif r == 3:
            v = v * (1.0 + rng.normal() * 1e-3)
        out.append(v)
    return out


LSE_MIXES = ["only_nan", "only_ninf", "nan_ninf", "ninf_finite", "pinf_finite", "nan_finite", "all_kinds"]


def lse_special_data(rng, mix, n):
    """special-value mixes for logsumexp / logmeanexp: the result must not depend on WHICH entries are skipped or counted"""
    def fin():
        return rng.choice([0.0, -0.0, rng.normal(), rng.uniform(-5.0, 5.0), 1000.0, -1000.0, 1000.0 - rng.random(), -1000.0 + rng.random(), 709.5, -745.0])
    if mix == "only_nan":
        xs = [NAN] * n
    elif mix == "only_ninf":
        xs = [-INF] * n
    elif mix == "nan_ninf":
        k = rng.randint(1, n - 1) if n > 1 else 1
        xs = [NAN] * k + [-INF] * (n - k)
    elif mix == "ninf_finite":
        k = rng.randint(1, n - 1) if n > 1 else 0       # 1..n-1 entries at -inf (n = 1: the single finite entry)
        xs = [-INF] * k + [fin() for _ in range(n - k)]
    elif mix == "pinf_finite":
        k = rng.randint(1, max(1, n - 1))
        xs = [INF] * k + [fin() for _ in range(n - k)]
    elif mix == "nan_finite":
        k = rng.randint(1, max(1, n - 1))
        xs = [NAN] * k + [fin() for _ in range(n - k)]
    else:
        xs = [rng.choice([-INF, INF, NAN, -0.0, 0.0, fin(), 1000.0, -1000.0]) for _ in range(n)]
    rng.shuffle(xs)
    return xs


def lse_special_lines(rng, cover, reps):
    out = []
    combos = [(nm, fm) for nm in ("logsumexp", "logmeanexp") for fm in ("free", "meth")]
    for n in range(1, 21):
        for mi, mix in enumerate(LSE_MIXES):
            for r in range(reps):
                for (nm, fm) in (combos if reps > 1 else [combos[(n + mi) % 4], combos[(n + mi + 2) % 4]]):
                    out.append("red %s %s %s" % (nm, fm, V(lse_special_data(rng, mix, n))))
                    cover["red_special_" + mix] = cover.get("red_special_" + mix, 0) + 1
    return out


def red_lines(rng, n, cover, names=REDS):
    out = []
    for name in names:
        x = red_data(rng, name, n)
        form = rng.choice(["free", "meth"])
        if rng.chance(0.3) and not (form == "meth" and name in ("logsumexp", "logmeanexp")):
            sh = shapes_of(n, rng)
            out.append("red %s %s %s" % (name, form, M(sh[0], sh[1], x)))
        else:
            out.append("red %s %s %s" % (name, form, V(x)))
        cover["red_" + name] = cover.get("red_" + name, 0) + 1
    a, b = red_data(rng, "sum", n), red_data(rng, "sum", n)
    out.append("dot %s %s" % (V(a)[2:], V(b)[2:]))
    cover["dot"] = cover.get("dot", 0) + 1
    return out


def infnorm_lines(rng, r, c, cover):
    x = red_data(rng, "sum", r * c)
    cover["infnorm"] = cover.get("infnorm", 0) + 2
    out = ["infnorm meth %s" % M(r, c, x), "infnorm free %d %s" % (r, V(x)[2:])]
    if rng.chance(0.2):
        out.append("infnorm free %d %s" % (r + 1 + rng.randint(0, 2), V(x + [1.0] if (r * c) % (r + 1) == 0 else x)[2:]))
    return out


def rand_bits_floats(rng, n):
    """uniform over all 2^64 bit patterns: every exponent, subnormals, infinities, NaNs"""
    import struct as _st
    return [_st.unpack("<d", _st.pack("<Q", rng.u64()))[0] for _ in range(n)]


def sweep_lines(rng, quick, cover):
    """plain scalar loops (model: List.map of the Float spelling; implementation: the f64 method) on random bit patterns
    and on arguments near the branch points, for every map; the four functions that the model does not take from the
    shared libm get ten times as many arguments"""
    out = []
    base = 300 if quick else 4000
    for fn in MAPS:
        n = base * (10 if fn in SWEEP_FNS else 1)
        xs = rand_bits_floats(rng, n // 2)
        for _ in range(n // 4):
            k = rng.randint(1, 60)
            xs.append((1.0 + rng.choice([-1, 1]) * rng.random() * 2.0 ** -k) * rng.choice([1.0, -1.0]))
        xs += [rng.normal() * 10.0 ** rng.randint(-300, 300) for _ in range(n // 8)]
        xs += [float(rng.randint(-1000, 1000)) ** 3 for _ in range(n // 16)] + [rng.uniform(-1.0, 1.0) for _ in range(n // 16)]
        xs += SPECIAL_ARGS
        for i in range(0, len(xs), 5000):
            out.append("scal %s %s" % (fn, V(xs[i:i + 5000])[2:]))
        cover["scalar_sweep_args"] = cover.get("scalar_sweep_args", 0) + len(xs)
    return out


# ---------------------------------------------------------------------------- long inputs (`long` requests)
# Operands are built on both sides from `<kind> <seed> <n>` (exec/src/bin/c04.rs gen_data, Drv/C04.lean genData, `long_data` here),
# so a 131079-element request is a 40-byte line.  Data are small integers: every partial sum / product is an integer below 2^53, so
# the exact value is the only admissible float result whatever the association (blocked, unrolled, pairwise ...).
LONG_KINDS = ["ones", "iota", "hash", "pm1"]
M64 = (1 << 64) - 1


def long_data(kind, seed, n):
    import numpy as np
    i = np.arange(n, dtype=np.uint64)
    if kind == "ones":
        return np.ones(n)
    if kind == "iota":
        return (i % np.uint64(17)).astype(np.float64) - 8.0
    with np.errstate(over="ignore"):
        z = np.uint64(seed) + i * np.uint64(0x9E3779B97F4A7C15)
        z = (z ^ (z >> np.uint64(30))) * np.uint64(0xBF58476D1CE4E5B9)
        z = (z ^ (z >> np.uint64(27))) * np.uint64(0x94D049BB133111EB)
        z = z ^ (z >> np.uint64(31))
    if kind == "hash":
        return (z % np.uint64(13)).astype(np.float64) - 6.0
    if kind == "pm1":
        return np.where((z >> np.uint64(40)) & np.uint64(1) == 1, -1.0, 1.0)
    raise ValueError(kind)


def long_digest(r):
    import numpy as np
    n = len(r)
    with np.errstate(over="ignore"):
        h = int((r.view(np.uint64) * (np.uint64(2) * np.arange(n, dtype=np.uint64) + np.uint64(1))).sum(dtype=np.uint64))
    return "%d %016x %s %s" % (n, h & M64, f2h(float(r[0])) if n else "-", f2h(float(r[-1])) if n else "-")


LONG_EW = ["vadd", "vsub", "vmul", "svmul", "svsub", "vssub", "vsdiv", "asgadd", "asgsmul", "abs", "powi3", "powi2", "neg", "mmadd"]


def long_lengths(quick, rng):
    if quick:
        return [16384, 16385, 16391, 20000, 32769, 50000, 65543, 100000, 131079]
    ls = []
    for k in range(12, 18):
        ls += [2 ** k + d for d in (0, 1, -1, 7, -7)]
    return ls + [20000, 50000, 100000, 300000, rng.randint(16385, 200000), rng.randint(16385, 200000)]


def long_lines(rng, quick, cover):
    out = []
    for li, n in enumerate(long_lengths(quick, rng)):
        sd = lambda: rng.randint(0, 10 ** 9)
        forms = ["free", "meth", "mat"]
        out.append("long red sum %s %s %d %d" % (forms[li % 3], rng.choice(["iota", "hash", "ones"]), sd(), n))
        for f in forms:
            out.append("long red norm %s %s %d %d" % (f, rng.choice(["hash", "ones", "iota"]), sd(), n))
        out.append("long red prod %s pm1 %d %d" % (forms[(li + 1) % 3], sd(), n))
        out.append("long red max %s hash %d %d" % (forms[(li + 2) % 3], sd(), n))
        out.append("long red logsumexp %s ones 0 %d" % (["free", "meth"][li % 2], n))
        out.append("long red logsumexp %s hash %d %d" % (["meth", "free"][li % 2], sd(), n))
        out.append("long red logmeanexp %s hash %d %d" % (["free", "meth"][li % 2], sd(), n))
        out.append("long dot free hash %d iota %d %d" % (sd(), sd(), n))
        out.append("long dot meth ones 0 ones 0 %d" % n)
        out.append("long dot %s pm1 %d hash %d %d" % (["free", "meth"][li % 2], sd(), sd(), n))
        r = next(d for d in (64, 8, 5, 3, 1) if n % d == 0)
        out.append("long infnorm meth %d hash %d %d" % (r, sd(), n))
        ops = LONG_EW if not quick else [LONG_EW[(li * 3 + j) % len(LONG_EW)] for j in range(3)]
        for op in ops:
            out.append("long ew %s hash %d %s %d %d" % (op, sd(), rng.choice(["iota", "pm1", "hash"]), sd(), n))
        if not quick:
            out.append("long red sum free hash %d %d" % (sd(), n))
            out.append("long red sum meth iota 0 %d" % n)
        cover["long_lengths"] = cover.get("long_lengths", 0) + 1
    cover["long_lines"] = len(out)
    return out


def add_tables(lines):
    """`map f <operand>` for the functions Lean cannot reproduce bit-wise -> `mapt f <operand> <table>`, where the
    table holds the scalar results f(x[i]) computed by the Rust scalar method (executor op `scal`)."""
    idx = [i for i, l in enumerate(lines) if l.startswith("map ") and l.split()[1] in TABLE_FNS]
    if not idx:
        return lines
    exe = os.path.join(EXEC, "target", "debug", BIN)
    d = os.path.join(OUT, ID)
    os.makedirs(d, exist_ok=True)
    req, rep = os.path.join(d, "tables.txt"), os.path.join(d, "tables.out")
    with open(req, "w") as f:
        for i in idx:
            t = lines[i].split()
            dat = t[3:] if t[2] == "v" else t[5:]
            f.write("scal %s %s\n" % (t[1], " ".join(dat)))
    subprocess.run([exe, req, rep], check=True, timeout=600)
    replies = open(rep).read().splitlines()
    lines = list(lines)
    for i, r in zip(idx, replies):
        if not r.startswith("= "):
            raise RuntimeError("table request failed: " + r)
        lines[i] = "mapt" + lines[i][3:] + " " + r[2:]
    return lines


def corpus():
    z = "m 0 0 0"
    return [
        # F33 (fixed): zero-sized matrices are values
        "neg " + z, "map abs m 0 3 0", "bin add 0 1 m 0 3 0 m 0 3 0", "asg mul 0 m 3 0 0 m 3 0 0", "bin sub 1 0 %s s %s" % (z, f2h(1.5)),
        "red sum meth m 0 0 0", "powi 2 m 0 0 0", "infnorm meth m 0 0 0", "infnorm meth m 3 0 0",
        # unroll boundary witnesses: lengths 7, 8, 9 with distinct entries, scalar on either side of a non-commutative operator
        "bin sub 0 0 s %s %s" % (f2h(100.0), V([float(i) for i in range(1, 10)])),
        "bin div 1 0 %s s %s" % (V([float(i) for i in range(1, 9)]), f2h(3.0)),
        "powi 3 %s" % V([1.1 * i for i in range(1, 18)]), "scali 3 %s" % V([1.1 * i for i in range(1, 18)])[2:],
        "powi 2 %s" % V([1.1 * i for i in range(1, 8)]), "scali 2 %s" % V([1.1 * i for i in range(1, 8)])[2:],
        # log-sum-exp far outside the exp range
        "red logsumexp free v 0", "red logsumexp meth v 0",     # F55 (fixed): was NaN, must be -inf
        "red logsumexp free %s" % V([1e4, 1e4 - 1.0, -1e4]), "red logmeanexp meth %s" % V([-1e4, -1e4 + 2.0]),
        # sums of finite exponentials that overflow / underflow without the max-shift (seeded change C04d)
        "red logsumexp free %s" % V([708.9] * 3), "red logsumexp meth %s" % V([708.0] * 7), "red logsumexp free %s" % V([705.0] * 200),
        "red logmeanexp free %s" % V([708.9] * 3), "red logmeanexp meth %s" % V([709.5, 709.7, 709.78]),
        "red logsumexp meth %s" % V([-745.2, -746.0, -750.0]), "red logmeanexp free %s" % V([-745.2, -746.0, -750.0]),
        "red logsumexp free %s" % V([-708.0] * 50), "red logsumexp free %s" % V([709.0, -709.0, 708.5, -745.0]),
        # powf with exponents a library might special-case (seeded change C20g: sqrt/cbrt fast path losing the reciprocal)
        "powf %s %s" % (f2h(-0.5), V([4.0, 9.0, 0.25, 2.0, 1e10, 16.0, 1.0, 3.0, 100.0])), "scalf %s %s" % (f2h(-0.5), V([4.0, 9.0, 0.25, 2.0, 1e10, 16.0, 1.0, 3.0, 100.0])[2:]),
        "powf %s %s" % (f2h(-1.0 / 3.0), M(2, 2, [8.0, 27.0, 2.0, 0.001])), "scalf %s %s" % (f2h(-1.0 / 3.0), V([8.0, 27.0, 2.0, 0.001])[2:]),
        "powf %s %s" % (f2h(0.5), V([-0.0, -INF, 4.0])), "scalf %s %s" % (f2h(0.5), V([-0.0, -INF, 4.0])[2:]),
        # special entries of the log-domain reductions (seeded changes C04r: -inf entries dropped from the COUNT of logmeanexp;
        # C04s: NaN-only slices answered with -inf)
        "red logmeanexp free %s" % V([-INF, 0.0, 0.0, 0.0]), "red logmeanexp meth %s" % V([-INF, 1000.0, 1000.0, -INF]),
        "red logmeanexp free %s" % V([1.5, -INF]), "red logsumexp meth %s" % V([-INF, -1000.0, -INF, -1000.5]),
        "red logsumexp free %s" % V([NAN]), "red logsumexp meth %s" % V([NAN, NAN]), "red logsumexp free %s" % V([-INF, NAN]),
        "red logmeanexp free %s" % V([NAN, -INF, NAN]), "red logsumexp free %s" % V([NAN, 1.0, -INF]),
        "red logsumexp free %s" % V([-INF, -INF]), "red logmeanexp meth %s" % V([INF, 1.0]), "red logsumexp meth %s" % V([-INF]),
        # long inputs (seeded change C04w: a blocked `dot` dropping the final partial block of 16384)
        "long dot free ones 0 ones 0 20000", "long dot meth ones 0 ones 0 20000", "long red norm meth ones 0 20000",
        "long red norm mat ones 0 16385", "long red sum free ones 0 20000",
        "red max free %s" % V([0.0, -0.0]), "red max free %s" % V([-0.0, 0.0]), "red max free %s" % V([NAN, -0.0, NAN, 0.0]),
    ]


def gen(rng, tier):
    lines, cover = [], {}
    quick = tier == "quick"
    for n in range(0, 41):
        lines += op_forms(rng, n, "v", OPS, cover, True)
        lines += op_forms(rng, n, "m", OPS, cover, True)
        lines += ["neg " + V(data(rng, n)), "neg " + M(*shapes_of(n, rng), data(rng, n))]
        lines += mismatch_lines(rng, n, cover)
        lines += map_lines(rng, n, "v", MAPS, cover)
        lines += map_lines(rng, n, "m", MAPS if not quick else [MAPS[(n * 5 + k) % 29] for k in range(5)], cover)
        ex = POWI_EXPS[:7] if quick else POWI_EXPS
        lines += pow_lines(rng, n, "v", ex, 2 if quick else 5, cover)
        lines += pow_lines(rng, n, "m", [2, 3, ex[n % len(ex)]], 1, cover)
        lines += red_lines(rng, n, cover)
        if not quick:
            lines += red_lines(rng, n, cover)
    lines += lse_special_lines(rng, cover, 1 if quick else 3)
    lines += long_lines(rng, quick, cover)
    lines += sweep_lines(rng, quick, cover)
    lines += special_pow_lines(rng, cover, 1 if quick else 4)
    lines += special_map_lines(rng, cover)
    # threshold bands of exp for the log-domain reductions: every length 1..40, then lengths up to 300
    for n in list(range(1, 41)) + [rng.randint(41, 300) for _ in range(40 if quick else 400)]:
        lines += band_lines(rng, n, cover)
        if not quick:
            lines += band_lines(rng, n, cover)
    for r in range(0, 7):
        for c in range(0, 7):
            lines += infnorm_lines(rng, r, c, cover)
    nrand = 60 if quick else 700
    for i in range(nrand):
        n = rng.randint(41, 10000) if i % 3 else rng.randint(41, 300)
        k = rng.randint(0, 9)
        cont = rng.choice(["v", "m"])
        if k <= 2:
            ls = op_forms(rng, n, cont, [rng.choice(OPS)], cover, True)
            lines += [rng.choice(ls) for _ in range(2)]
        elif k <= 4:
            lines += map_lines(rng, n, cont, [rng.choice(MAPS)], cover)
        elif k == 5:
            lines += pow_lines(rng, n, cont, [rng.choice(POWI_EXPS)], 1, cover)
        elif k == 6:
            lines += mismatch_lines(rng, n, cover)[:3]
        elif k == 7:
            r = rng.randint(1, 60)
            lines += infnorm_lines(rng, r, max(1, n // r // 4), cover)
        else:
            lines += red_lines(rng, n, cover, [rng.choice(REDS), rng.choice(REDS)])
        cover["random_length_lines"] = cover.get("random_length_lines", 0) + 1
    cover["lengths_exhaustive"] = "0..40"
    return add_tables(lines), cover


def model_line(line):
    t = line.split(None, 2)
    if t[0] == "scal" and t[1] in TABLE_FNS:
        return None
    return line


def nontrivial(line, reply):
    if not reply.startswith("="):
        return None
    t = line.split()
    if t[0] == "long":
        return " ".join(x for x in t if not x.isdigit() or x == t[-1])
    kinds = [x for x in t if x in ("v", "m", "s")]
    if t[0] in ("bin", "asg"):
        n = len(reply.split("|")[0].split())
        return " ".join(t[:4] + kinds + [str(n)])
    return " ".join(t[:2] + kinds[:1] + [str(len(reply.split("|")[0].split()))])


# ============================================================================ oracle
def pyop(op, a, b):
    if op == "add":
        return a + b
    if op == "sub":
        return a - b
    if op == "mul":
        return a * b
    try:
        return a / b
    except ZeroDivisionError:
        if a != a or a == 0:
            return NAN
        return math.copysign(INF, a) * math.copysign(1.0, b)


def py_exact(fn, x):
    """scalar functions that Python evaluates exactly as IEEE-754 prescribes; None = no independent reference"""
    if fn == "abs":
        return math.fabs(x)
    if fn == "recip":
        return pyop("div", 1.0, x)
    if fn == "signum":
        return NAN if x != x else math.copysign(1.0, x)
    if fn == "sqrt":
        return math.sqrt(x) if x >= 0 else (NAN if x == x else NAN)
    if fn == "to_radians":
        return x * (math.pi / 180.0)
    if fn == "to_degrees":
        return x * 57.29577951308232
    if fn in ("floor", "ceil", "round"):
        if x != x or x in (INF, -INF) or abs(x) >= 2.0 ** 52:
            return x
        if fn == "floor":
            r = float(math.floor(x))
        elif fn == "ceil":
            r = float(math.ceil(x))
        else:
            t = math.trunc(x)
            if abs(x - t) >= 0.5:
                t += 1 if x > 0 else -1
            r = float(t)
        return math.copysign(r, x) if r == 0 else r
    return None


def parse_operand(t, i):
    """-> (kind, shape, [hex tokens], next index); shape None for vectors/scalars; kind 'bad' if Matrix::new must panic"""
    k = t[i]
    if k == "v":
        n = int(t[i + 1])
        return ("v", None, t[i + 2:i + 2 + n], i + 2 + n)
    if k == "m":
        r, c, n = int(t[i + 1]), int(t[i + 2]), int(t[i + 3])
        return ("m" if r * c == n else "bad", (r, c), t[i + 4:i + 4 + n], i + 4 + n)
    if k == "s":
        return ("s", None, [t[i + 1]], i + 2)
    raise ValueError("operand")


def parse_vals(toks):
    """reply groups separated by `|` -> [(kind, shape, [hex])]"""
    groups, cur = [], []
    for x in toks:
        if x == "|":
            groups.append(cur)
            cur = []
        else:
            cur.append(x)
    groups.append(cur)
    out = []
    for g in groups:
        if g[0] == "v":
            out.append(("v", None, g[2:] if int(g[1]) == len(g) - 2 else None))
        elif g[0] == "m":
            out.append(("m", (int(g[1]), int(g[2])), g[3:]))
        else:
            out.append(("s", None, g[1:]))
    return out


def gamma(k):
    return Fraction(k) * U / (1 - Fraction(k) * U) if k > 0 else Fraction(0)


def scaled(x):
    n, d = x.as_integer_ratio()
    return n * (SC // d)


def finite(xs):
    return all(x == x and x not in (INF, -INF) for x in xs)


def special_sum_class(xs):
    """sum of values containing NaN / infinities (finite part moderate): expected token"""
    if any(x != x for x in xs) or (INF in xs and -INF in xs):
        return "nan"
    return f2h(INF) if INF in xs else f2h(-INF)


OBS = {}   # observed error / bound ratios (printed into the evidence through coverage by `gen`'s caller is not possible; kept for calibration runs)


def note(name, err, bound):
    if bound > 0:
        r = float(Fraction(err) / Fraction(bound))
        if r > OBS.get(name, 0.0):
            OBS[name] = r


EMPTY_LSE_KEY = "red:logsumexp:empty"   # F55 (fixed be4665b): logsumexp(&[]) must be f64::NEG_INFINITY - regression guard


def check_reduction(name, xs, got_tok, n_nominal=None):
    """-> None if fine, else message.  Worst-case bounds of the standard model of floating-point arithmetic
    (Higham, Accuracy and Stability, §3-4), valid for every summation order."""
    n = len(xs)
    got = h2f(got_tok)
    if name == "max":
        vals = [x for x in xs if x == x]
        if not vals:
            return None if got_tok == "nan" else "max of no (non-NaN) element must be NaN"
        m = max(vals)
        return None if got == m else "max is %r, expected %r" % (got, m)
    if name in ("sum", "dot", "norm"):
        if name == "sum":
            terms = xs
            exact = sum(scaled(x) for x in xs) if finite(xs) else None
        else:
            a, b = xs
            if not (finite(a) and finite(b)):
                return None
            exact = sum(scaled(p) * scaled(q) for p, q in zip(a, b))
            n = len(a)
        if name == "sum":
            if not finite(xs):
                exp = special_sum_class(xs)
                fin = [abs(x) for x in xs if x == x and abs(x) != INF]
                if fin and sum(fin) > 1e300:
                    return None
                return None if got_tok == exp else "sum is %s, expected %s" % (got_tok, exp)
            mag = sum(abs(scaled(x)) for x in xs)
            if mag >= scaled(1e306):
                return None
            err = abs(scaled(got) - exact) if got == got and abs(got) != INF else None
            if err is None:
                return "sum of finite moderate values is %s" % got_tok
            bound = gamma(max(n - 1, 0)) * mag
            note("sum", err, bound)
            return None if err <= bound else "|sum - exact| = %.3e exceeds gamma_(n-1)*sum|x| = %.3e (n=%d)" % (float(Fraction(err, SC)), float(bound / SC), n)
        a, b = xs
        mag = sum(abs(scaled(p) * scaled(q)) for p, q in zip(a, b))
        if mag >= scaled(1e300) * SC:
            return None
        if got != got or abs(got) == INF:
            return "%s of finite moderate values is %s" % (name, got_tok)
        under = Fraction(n) * SC            # n products, each may lose up to 2^-1075 < 2^-1074 to underflow
        if name == "dot":
            err = abs(scaled(got) * SC - exact)
            bound = gamma(n) * mag + under
            note("dot", err, bound)
            return None if err <= bound else "|dot - exact| = %.3e exceeds gamma_n*sum|x_i y_i| = %.3e (n=%d)" % (float(Fraction(err, SC * SC)), float(bound / (SC * SC)), n)
        # norm = sqrt(fl(dot(x,x))): norm^2 = D(1+theta)^2, |theta| <= gamma_(n+2)  (no underflow: checked by the generator's ranges)
        if exact == 0:
            return None if got == 0 else "norm of the zero vector is %r" % got
        if exact < scaled(1e-280) * SC:
            return None
        g2 = scaled(got) ** 2
        gm = gamma(n + 2)
        bound = (2 * gm + gm * gm) * exact
        err = abs(g2 - exact)
        note("norm", err, bound)
        return None if err <= bound else "norm^2 differs from sum x_i^2 by a relative %.3e > 2*gamma_(n+2) (n=%d)" % (float(Fraction(err) / exact), n)
    if name == "prod":
        if n == 0:
            return None if got == 1.0 else "empty product is %r" % got
        if not finite(xs):
            return None
        if any(x == 0 for x in xs):
            neg = sum(1 for x in xs if math.copysign(1.0, x) < 0) % 2
            exp = -0.0 if neg else 0.0
            return None if got_tok == f2h(exp) else "product with a zero factor is %s, expected %s" % (got_tok, f2h(exp))
        exact = Fraction(1)
        lg = 0.0
        for x in xs:
            lg += math.log2(abs(x))
        if abs(lg) > 900:
            return None
        # partial products must stay normal too
        s = 0.0
        for x in xs:
            s += math.log2(abs(x))
            if abs(s) > 900:
                return None
        for x in xs:
            exact *= Fraction(x)
        if got != got or abs(got) == INF:
            return "product of moderate values is %s" % got_tok
        err = abs(Fraction(got) - exact)
        bound = gamma(n) * abs(exact)
        note("prod", err, bound)
        return None if err <= bound else "|prod - exact| / |exact| = %.3e exceeds gamma_n (n=%d)" % (float(err / abs(exact)), n)
    if name in ("logsumexp", "logmeanexp"):
        if n == 0 and name == "logsumexp":
            return None if got_tok == f2h(-INF) else (
                "logsumexp of the empty slice is %s; the definition ln(sum over no element) = ln 0 gives -inf (fff0000000000000)" % got_tok)
        if n == 0:
            return None
        full = xs
        if not finite(xs):
            # special entries.  What the code (and the model: Model/VecOps.lean) computes, read off its formula:
            #  * a NaN entry makes v - xmax NaN for that entry (xmax ignores NaN) -> the sum and the result are NaN;
            #  * -inf entries next to at least one finite entry: xmax is finite, exp(-inf - xmax) = 0, so they add nothing to the sum
            #    but COUNT in the length of logmeanexp -> judged against the reference with exp(-inf) = 0 and the full n;
            #  * +inf present, or only -inf entries: inf - inf = NaN; the mathematical value is +inf resp. -inf.  Outside the stated
            #    domain (finite log-domain inputs): NaN or that limit are both accepted, any other value is not.
            if any(v != v for v in xs):
                return None if got_tok == "nan" else "%s of a slice containing NaN is %s, expected NaN" % (name, got_tok)
            if INF in xs or all(v == -INF for v in xs):
                lim = f2h(INF if INF in xs else -INF)
                return None if got_tok in ("nan", lim) else (
                    "%s of a slice with %s is %s: neither NaN nor the limit value %s" % (name, "+inf" if INF in xs else "only -inf", got_tok, lim))
            xs = [v for v in xs if v != -INF]      # at least one finite entry remains
        import mpmath
        mpmath.mp.dps = 40
        m = max(xs)
        ssum = mpmath.mpf(0)
        import collections
        for v, cnt in collections.Counter(xs).items():
            if v - m > -200:
                ssum += cnt * mpmath.exp(mpmath.mpf(v) - mpmath.mpf(m))
        ref = mpmath.log(ssum) + mpmath.mpf(m)
        if name == "logmeanexp":
            ref -= mpmath.log(n)
        if got != got or abs(got) == INF:
            return "%s of %d entries (%d finite, max |x| = %.3g, the others -inf) is %s, reference %s: overflow / invalid" % (
                name, n, len(xs), max(abs(v) for v in xs), got_tok, mpmath.nstr(ref, 17))
        err = abs(mpmath.mpf(got) - ref)
        # error budget: subtraction + exp (<= (745+2)u relative on each non-negligible term), sum gamma_(n-1),
        # division u, ln 2u*|ln S| <= 2u ln n, final addition u*|result|; times 20 for slack (observed max ratio 0.01)
        u = 2.0 ** -53
        bound = 20 * ((750 + n + 4 + 2 * math.log(max(n, 2))) * u + 2 * u * float(abs(ref)) + 2 * u * abs(m))
        note(name, Fraction(float(err)), Fraction(bound))
        return None if err <= bound else "%s = %r differs from log-sum-exp reference %s by %.3e > %.3e" % (name, got, mpmath.nstr(ref, 20), float(err), bound)
    return None


def oracle(lines, impl):
    fails = []
    # scalar references: (fn, arg, x) -> f(x) from the `scal*` lines of this run
    ref = {}
    for l, rep in zip(lines, impl):
        t = l.split()
        if t[0] in ("scal", "scali", "scalf"):
            st, toks = parse_reply(rep)
            if st != "ok":
                continue
            xs = t[3:3 + int(t[2])]
            ys = toks[1:]
            for x, y in zip(xs, ys):
                ref[(t[0], t[1], x)] = y

    def fail(i, key, msg, exp=None):
        fails.append(Failure(i, key, msg, exp))

    for i, (l, rep) in enumerate(zip(lines, impl)):
        t = l.split()
        st, toks = parse_reply(rep)
        if st == "skip":
            continue
        kind = t[0]
        if kind == "long":
            sub = t[1]
            n = int(t[-1])
            key = "long:%s:%s:n%d" % (sub, t[2], n)
            if st != "ok":
                fail(i, key, "%s: %s instead of a value" % (" ".join(t[:4]), st))
                continue
            if sub == "red":
                name, form = t[2], t[3]
                d = long_data(t[4], int(t[5]), n)
                if name in ("logsumexp", "logmeanexp"):
                    msg = check_reduction(name, [float(v) for v in d], toks[0])
                else:
                    ints = d.astype("int64")
                    if name == "sum":
                        e = float(int(ints.sum()))
                    elif name == "norm":
                        e = math.sqrt(float(int((ints * ints).sum())))
                    elif name == "prod":
                        e = -1.0 if int((ints < 0).sum()) % 2 else 1.0
                    else:
                        e = float(ints.max())
                    msg = None if toks[0] == f2h(e) else "%s of %d small integers (%s) is %s = %r, the exact value is %s = %r" % (
                        name, n, t[4], toks[0], h2f(toks[0]), f2h(e), e)
                if msg:
                    fail(i, key, msg)
            elif sub == "dot":
                a = long_data(t[3], int(t[4]), n).astype("int64")
                b = long_data(t[5], int(t[6]), n).astype("int64")
                e = float(int((a * b).sum()))
                if toks[0] != f2h(e):
                    fail(i, key, "dot of two length-%d small-integer vectors is %s = %r, the exact value is %r (difference %r: terms were dropped or added)" % (
                        n, toks[0], h2f(toks[0]), e, h2f(toks[0]) - e), f2h(e))
            elif sub == "infnorm":
                r = int(t[3])
                d = long_data(t[4], int(t[5]), n).astype("int64")
                e = float(int(abs(d).reshape(r, n // r).sum(axis=1).max()))
                if toks[0] != f2h(e):
                    fail(i, key, "inf_norm of a %dx%d small-integer matrix is %s, the exact value is %r" % (r, n // r, toks[0], e), f2h(e))
            elif sub == "ew":
                op = t[2]
                x = long_data(t[3], int(t[4]), n)
                y = long_data(t[5], int(t[6]), n)
                r = {"vadd": lambda: x + y, "vsub": lambda: x - y, "vmul": lambda: x * y, "svmul": lambda: 3.0 * x, "svsub": lambda: 100.0 - x,
                     "vssub": lambda: x - 2.0, "vsdiv": lambda: x / 4.0, "asgadd": lambda: x + y, "asgsmul": lambda: x * 5.0,
                     "abs": lambda: abs(x), "powi3": lambda: x * x * x, "powi2": lambda: x * x, "neg": lambda: -x, "mmadd": lambda: x + y}[op]()
                e = long_digest(r)
                if " ".join(toks) != e:
                    fail(i, key, "element-wise %s on length %d: (len, digest, first, last) = %s, expected %s" % (op, n, " ".join(toks), e), e)
            continue
        if kind in ("bin", "asg"):
            op = t[1]
            j = 4 if kind == "bin" else 3
            sr = int(t[2]) if kind == "bin" else 0
            orf = int(t[3]) if kind == "bin" else int(t[2])
            ka, sha, da, j = parse_operand(t, j)
            kb, shb, db, j = parse_operand(t, j)
            key = "%s:%s:%s%s:%d%d:n%d" % (kind, op, ka, kb, sr, orf, len(da) if ka != "s" else len(db))
            must_panic = ka == "bad" or kb == "bad"
            if not must_panic and ka != "s" and kb != "s":
                if ka == "v":
                    must_panic = len(da) != len(db)
                else:
                    if sha != shb and (1 in sha or 1 in shb or 0 in sha or 0 in shb):
                        continue  # broadcasting shapes: property C12
                    must_panic = sha != shb
            if must_panic:
                if st != "panic":
                    fail(i, key, "length/shape mismatch (%s%s vs %s%s) yielded %s instead of a panic" % (len(da), sha or "", len(db), shb or "", st))
                continue
            if st != "ok":
                fail(i, key, "%s on conforming operands: %s instead of a value" % (op, st))
                continue
            vals = parse_vals(toks)
            cont = ka if ka != "s" else kb
            shape = sha if ka != "s" else shb
            n = len(da) if ka != "s" else len(db)
            xa = [h2f(x) for x in da]
            xb = [h2f(x) for x in db]
            exp = []
            for p in range(n):
                a = xa[p] if ka != "s" else xa[0]
                b = xb[p] if kb != "s" else xb[0]
                exp.append(f2h(pyop(op, a, b)))
            rk, rsh, rd = vals[0]
            if rk != cont or rsh != shape or rd is None or len(rd) != n:
                fail(i, key, "result is %s %s with %s entries, expected %s %s with %d" % (rk, rsh, None if rd is None else len(rd), cont, shape, n))
                continue
            bad = [p for p in range(n) if rd[p] != exp[p]]
            if bad:
                p = bad[0]
                fail(i, key, "position %d is %s, expected %s (%d positions differ)" % (p, rd[p], exp[p], len(bad)), exp[p])
                continue
            # borrowed operands must be unchanged
            echoes = vals[1:]
            want = []
            if kind == "bin" and sr == 1 and ka != "s":
                want.append((ka, sha, da))
            if orf == 1 and kb != "s":
                want.append((kb, shb, db))
            if len(echoes) != len(want) or any(e != w for e, w in zip(echoes, want)):
                fail(i, key, "a borrowed operand was modified (or not echoed)")
            continue
        if kind == "neg":
            ka, sha, da, j = parse_operand(t, 1)
            key = "neg:%s:n%d" % (ka, len(da))
            if ka == "bad":
                if st != "panic":
                    fail(i, key, "Matrix::new with %d entries for shape %s did not panic" % (len(da), sha))
                continue
            if st != "ok":
                fail(i, key, "negation: %s instead of a value" % st)
                continue
            rk, rsh, rd = parse_vals(toks)[0]
            exp = [f2h(-h2f(x)) for x in da]
            if rk != ka or rsh != sha or rd != exp:
                fail(i, key, "negation result differs from element-wise -x (shape %s vs %s)" % (rsh, sha))
            continue
        if kind in ("map", "mapt", "powi", "powf"):
            if kind in ("map", "mapt"):
                fn, rk_ = t[1], ("scal", t[1])
                ka, sha, da, j = parse_operand(t, 2)
            else:
                fn = kind
                rk_ = ("scali" if kind == "powi" else "scalf", t[1])
                ka, sha, da, j = parse_operand(t, 2)
            key = "%s:%s:%s:n%d" % (kind if kind != "mapt" else "map", t[1], ka, len(da))
            if st != "ok":
                fail(i, key, "%s: %s instead of a value" % (fn, st))
                continue
            vals = parse_vals(toks)
            rk, rsh, rd = vals[0]
            if rk != ka or rsh != sha or rd is None or len(rd) != len(da):
                fail(i, key, "map result has kind/shape %s %s, expected %s %s with %d entries" % (rk, rsh, ka, sha, len(da)))
                continue
            for p, x in enumerate(da):
                e = ref.get((rk_[0], rk_[1], x))
                if e is None:
                    fail(i, key, "no scalar reference for %s(%s)" % (fn, x))
                    break
                if rd[p] != e:
                    fail(i, key, "position %d: %s(%s) is %s but the scalar f64 method gives %s" % (p, fn, x, rd[p], e), e)
                    break
            else:
                if len(vals) != 2 or vals[1] != (ka, sha, da):
                    fail(i, key, "the operand of a map was modified")
            continue
        if kind in ("scal", "scali", "scalf"):
            # validate the scalar reference itself where Python is exact
            if st != "ok":
                fail(i, "scal:%s" % t[1], "scalar loop: %s" % st)
                continue
            xs = t[3:3 + int(t[2])]
            ys = toks[1:]
            for x, y in zip(xs, ys):
                if kind == "scal":
                    e = py_exact(t[1], h2f(x))
                elif kind == "scali" and t[1] in ("0", "1", "2", "-1"):
                    v = h2f(x)
                    e = {"0": 1.0, "1": v, "2": v * v, "-1": pyop("div", 1.0, v)}[t[1]]
                else:
                    e = None
                if e is not None and f2h(e) != y:
                    fail(i, "scal:%s" % t[1], "scalar %s(%s) = %s, IEEE-754 gives %s" % (t[1], x, y, f2h(e)), f2h(e))
                    break
            continue
        if kind == "red":
            name = t[1]
            ka, sha, da, j = parse_operand(t, 3)
            key = "red:%s:%s:n%d" % (name, t[2], len(da))
            if name == "logsumexp" and len(da) == 0:
                key = EMPTY_LSE_KEY
            if ka == "bad":
                continue
            if st != "ok":
                fail(i, key, "%s: %s instead of a value" % (name, st))
                continue
            xs = [h2f(x) for x in da]
            msg = check_reduction(name, (xs, xs) if name == "norm" else xs, toks[0])
            if msg:
                fail(i, key, msg)
            continue
        if kind == "dot":
            n1 = int(t[1])
            a = [h2f(x) for x in t[2:2 + n1]]
            n2 = int(t[2 + n1])
            b = [h2f(x) for x in t[3 + n1:3 + n1 + n2]]
            key = "dot:n%d:%d" % (n1, n2)
            if n1 != n2:
                if st != "panic":
                    fail(i, key, "dot of lengths %d, %d yielded %s instead of a panic" % (n1, n2, st))
                continue
            if st != "ok":
                fail(i, key, "dot: %s instead of a value" % st)
                continue
            msg = check_reduction("dot", (a, b), toks[0])
            if msg:
                fail(i, key, msg)
            continue
        if kind == "infnorm":
            if t[1] == "free":
                r = int(t[2])
                n = int(t[3])
                xs = [h2f(x) for x in t[4:4 + n]]
                key = "infnorm:free:%d:n%d" % (r, n)
                if r == 0 or n % r != 0:
                    if st != "panic":
                        fail(i, key, "inf_norm of %d entries with %d rows yielded %s instead of a panic" % (n, r, st))
                    continue
                c = n // r
            else:
                ka, sha, da, j = parse_operand(t, 2)
                if ka == "bad":
                    continue
                r, c = sha
                xs = [h2f(x) for x in da]
                key = "infnorm:meth:%dx%d" % (r, c)
            if st != "ok":
                fail(i, key, "inf_norm: %s instead of a value" % st)
                continue
            if r == 0 or not finite(xs):
                continue
            rows = [sum(abs(scaled(x)) for x in xs[a * c:(a + 1) * c]) for a in range(r)]
            exact = max(rows)
            if exact >= scaled(1e306):
                continue
            got = h2f(toks[0])
            if got != got or abs(got) == INF:
                fail(i, key, "inf_norm of finite values is %s" % toks[0])
                continue
            err = abs(scaled(got) - exact)
            bound = gamma(max(c - 1, 0)) * exact
            note("infnorm", err, bound)
            if err > bound:
                fail(i, key, "|inf_norm - max_i sum_j |x_ij|| = %.3e exceeds gamma_(c-1) * value (c=%d)" % (float(Fraction(err, SC)), c))
            continue
    return fails

# --- deep theorems (second pass; modules written in their own files, wired here by the lead)
PROOF_MODULES = PROOF_MODULES + ['Compute.Props.Rounding']
REQUIRED_THEOREMS = REQUIRED_THEOREMS + ['Cv.Rounding.sum8_error', 'Cv.Rounding.sum8_error_pred', 'Cv.Rounding.dot8_error', 'Cv.Rounding.prodL_error', 'Cv.FlModel.higham_lemma_3_1']
_np = list(NOT_PROVED)
_np[0] = 'rounding bounds for norm, inf_norm, logsumexp (need a rounded Transc instance) are checked by the oracle only; for sum, dot and prod the worst-case bounds ARE proved in the standard model of floating-point arithmetic (Props/Rounding: |sum8 x - sum x| <= gamma_(n-1) sum|x|, dot: gamma_n, prod: gamma_n relative), the trusted link being that IEEE binary64 round-to-nearest satisfies fl(a op b) = (a op b)(1+d), |d| <= 2^-53, barring overflow/underflow'
NOT_PROVED = [x for x in _np if x is not None]

# --- deep theorems (2: module of higham_lemma_3_1)
PROOF_MODULES = PROOF_MODULES + ['Compute.Lemmas.FlModel']
REQUIRED_THEOREMS = REQUIRED_THEOREMS + []
_np = list(NOT_PROVED)
NOT_PROVED = [x for x in _np if x is not None]

# --- deep theorems (Rounding2)
PROOF_MODULES = PROOF_MODULES + ['Compute.Lemmas.NormRounding', 'Compute.Props.Rounding2']
REQUIRED_THEOREMS = REQUIRED_THEOREMS + ['Cv.Rounding2.normL_error', 'Cv.Rounding2.normL_error_idem', 'Cv.Rounding2.infNormL_error']
NOT_PROVED = [x for x in NOT_PROVED if not any(k in str(x) for k in ('rounding bounds for norm, inf_norm, logsumexp',))]
NOT_PROVED = NOT_PROVED + ['rounding of logsumexp / logmeanexp (oracle only); norm and inf_norm bounds ARE proved in the standard model with a sqrt of relative error <= u (Props/Rounding2)']

# --- deep theorems (Rounding3)
PROOF_MODULES = PROOF_MODULES + ['Compute.Lemmas.LogRounding', 'Compute.Props.Rounding3']
REQUIRED_THEOREMS = REQUIRED_THEOREMS + ['Cv.Rounding3.logsumexp_error', 'Cv.Rounding3.logmeanexp_error', 'Cv.Rounding3.shiftedExpSum_near', 'Cv.Rounding3.stdmodel_logsumexp_note']
NOT_PROVED = [x for x in NOT_PROVED if not any(k in str(x) for k in ('rounding of logsumexp',))]

# --- source tie, loops (tools/rs2lean.py loops=True: accumulation loops and iterator chains regenerated from /repo/src into
# Generated/SrcC04Loops.lean and proved equal to the hand model in Props/SrcTieC04Loops.lean)
from . import srctie
srctie.wire_loops(globals(), 'C04')
PROOF_MODULES = PROOF_MODULES + ['Compute.Lemmas.SrcLoops']

# --- source tie, the 8-way kernels (translator: utils::sum and utils::dot regenerated from /repo/src into Generated/SrcC04Mut.lean and proved
# equal to Cv.sum8 / Cv.dot8 - the association every float-level theorem is about - in Props/SrcTieC04Mut.lean)
from . import srctie
srctie.wire_mut(globals(), 'C04')

# --- review repairs in the Rounding layer (renamed stdmodel_* theorems, underflow-aware variants, genuine FlModel instance; wired by the lead)
PROOF_MODULES = PROOF_MODULES + [m for m in ['Compute.Lemmas.FlModelGrid', 'Compute.Props.RoundingGrid'] if m not in PROOF_MODULES]
REQUIRED_THEOREMS = REQUIRED_THEOREMS + [t for t in ['Cv.Rounding3U.logistic_range_ufl', 'Cv.Rounding3U.softmax_sum_error_ufl', 'Cv.FlModel.grid_abs_sub_le', 'Cv.FlModel.grid_idem', 'Cv.FlModel.grid_mono', 'Cv.FlModel.grid_rnd_one', 'Cv.FlModel.grid_rnd_natCast', 'Cv.FlModel.grid_rnd_dyadic', 'Cv.FlModel.f64grid_u', 'Cv.FlModel.f64grid_mono'] if t not in REQUIRED_THEOREMS]
NOT_PROVED = list(NOT_PROVED) + ['theorems named stdmodel_* hold in the idealised standard model (fl(x) = x(1+d) for every operation, library functions with relative error <= u_f for every argument) at u = 2^-53; they describe binary64 only where nothing overflows or underflows (for exp: arguments in [-708.39, 709.78]); outside that range computed values may be exactly 0 or inf', 'under ExpLnUfl (exp computed as e^x(1+d)+eta, underflow allowed) logistic, softmax, RBF and RQ values are proved in [0,1] resp. >= 0 (namespace Rounding3U); strict positivity is a theorem of the no-underflow model only; logistic(800) = 1 and an RBF value of exactly 0 are exhibited', 'FlModel has a genuine instance, FlModel.grid p (radix 2, p digits, round to nearest, unbounded exponent; f64grid has u = 2^-53), proved to satisfy the standard model and to be idempotent and monotone, with integers <= 2^p and dyadics exact (Lemmas/FlModelGrid); headline rounding theorems are instantiated on it (Props/RoundingGrid); overflow and underflow remain outside the model']

# --- FINAL texts (review round 2; owner of C04).  One coherent block: this is the value the manifest / evidence see.  The REQUIRED_THEOREMS
# and PROOF_MODULES accumulated above are kept as they are; the bullets below say which of them are about C04 and which about the shared layers.
NOT_PROVED = [
    # --- C04 proper
    "that the IEEE-754 operations + - * / and the libm functions of the Lean Float coincide with the Rust f64 methods is measured by the "
    "bit-exact correspondence run, not proved; likewise the model spelling of the Rust std formulas for asinh / acosh / atanh (Cv.asinhF, "
    "Cv.acoshF, Cv.atanhF over ln_1p, hypot, sqrt, ln) and f64::cbrt as the correctly rounded cube root (Cv.cbrtF): measured bit-identical on "
    "1.2e6 (each formula) and 1.0e7 (cbrt) arguments and re-measured on every run by the scalar sweep lines",
    "the link between the Rust text of the operator impls / kernel macros and the hand-written model functions (runKern2, vbin, vs, sv, vun, "
    "vunArgI, ...) is a full-text template match in the translator of this file (whole crate scanned for stray operator impls) plus the "
    "bit-exact run, not a generated Lean definition proved equal to the model; the wiring theorems are therefore about each operator form OF "
    "THE MODEL",
    "source tie by regeneration (translator owner): prod_eq, norm_eq, isMatrix_eq, infNorm_eq, sum_eq, dot_eq and logsumexp_src / "
    "logmeanexp_src are unconditional; equality of the regenerated logsumexp / logmeanexp with the model, logsumexp_eq_of / logmeanexp_eq_of, "
    "carries the hypothesis h0 : -0 + exp a = 0 + exp a (the Rust iterator sum starts from -0.0, the model from 0; an IEEE fact, exp never "
    "returns -0.0, that Lean cannot prove of its opaque Float), and logmeanexp_eq_of additionally x != []; inside these functions dot and max "
    "are substituted by name",
    "Matrix op Matrix with different broadcast-compatible shapes is property C12; here: equal shapes (matrix_forms_exact) and, for operands "
    "with at least one row and one column (C12.Good), shapes that do not broadcast (matrix_op_mismatch); zero-sized operands of unequal "
    "shape are not covered by a theorem (tie and C12 only)",
    "logsumexp / logmeanexp value theorems (logsumexpL_real, logsumexpE_real, logmeanexpL_real, shifted_bounds) assume non-empty input "
    "without NaN over the reals; inputs containing +inf or only -inf return NaN in the implementation (inf - inf) and are outside the stated "
    "domain: for them the oracle accepts NaN or the limit value only; a NaN entry must give NaN and -inf entries next to a finite one are "
    "judged with exp(-inf) = 0 and the FULL length (theorems logsumexpL_filter, logmeanexpL_counts_all for any scalar where such an entry "
    "has a zero shifted exponential; NaN propagation itself is a Float fact observed by the tie, not proved); the empty slice: logsumexp "
    "of no element is f64::NEG_INFINITY by the guard of the repaired function (F55; logsumexpE_nil is an "
    "rfl-level unfolding of that guard, the regression guard is the unconditional oracle check); logmeanexp of no element is undefined (0/0, "
    "NaN) and not judged",
    # --- the shared rounding layer (Props/Rounding*.lean, Lemmas/FlModel*.lean; owned by the lead / Rounding owner; required here because the
    # C04 statement speaks of worst-case rounding bounds)
    "ROUNDING LAYER (shared, not specific to C04): sum8_error (gamma_n), sum8_error_pred (gamma_(n-1); idempotent rounding and representable "
    "inputs), dot8_error (gamma_n; idempotent rounding), prodL_error, normL_error(_idem), infNormL_error, logsumexp_error / logmeanexp_error, "
    "shiftedExpSum_near, stdmodel_logsumexp_note are theorems of the standard model fl(x op y) = (x op y)(1+d), |d| <= u, with library "
    "functions of relative error <= u_f for every argument; they describe binary64 only where nothing overflows or underflows (for exp: "
    "arguments in [-708.39, 709.78], i.e. spread max - min <= 700 for logsumexp; overflow of v - xmax for opposite-sign inputs near "
    "f64::MAX is not covered); outside that range computed values may be exactly 0 or inf",
    "ROUNDING LAYER, general statements required here but not about C04 code: Rounding3U.logistic_range_ufl and softmax_sum_error_ufl "
    "(underflow-aware exp model ExpLnUfl: logistic / softmax / kernel values, properties C17 / C20) and the FlModel.grid_* / f64grid_* "
    "theorems (a genuine instance of the model: radix 2, p digits, round to nearest, unbounded exponent; u = 2^-53 for f64grid; idempotent, "
    "monotone, integers <= 2^p and dyadics exact); overflow and underflow remain outside that instance",
    "that the computed reductions stay within these bounds on actual f64 data is additionally decided per run by the oracle (exact rational / "
    "40-digit references, same worst-case constants) on inputs inside the provisos",
]
