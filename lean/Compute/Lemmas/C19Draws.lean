import Compute.Lemmas.C19Rng
/-
Structure of a sequence of draws (`Rng.drawN?`): concatenation, nesting, and the statement that the `j`-th value of a
successful sequence is the sampler evaluated at the `j`-th generator state of that very run (the state after the
previous `j` draws).  No Mathlib.
-/
namespace Cv.Rng

variable {β : Type}

/-- State of the run after the first `j` draws (`none` if one of them does not return). -/
def stateAfter (f : Rng → Option (β × Rng)) (j : Nat) (g : Rng) : Option Rng := (drawN? f j g).map (·.2)

theorem drawN?_zero (f : Rng → Option (β × Rng)) (g : Rng) : drawN? f 0 g = some ([], g) := rfl

theorem drawN?_succ (f : Rng → Option (β × Rng)) (n : Nat) (g : Rng) :
    drawN? f (n + 1) g = (f g).bind fun p => (drawN? f n p.2).map fun q => (p.1 :: q.1, q.2) := rfl

/-- `a + b` draws are `a` draws followed by `b` draws from the state reached. -/
theorem drawN?_add (f : Rng → Option (β × Rng)) (a b : Nat) (g : Rng) :
    drawN? f (a + b) g = (drawN? f a g).bind fun p => (drawN? f b p.2).map fun q => (p.1 ++ q.1, q.2) := by
  induction a generalizing g with
  | zero =>
    rw [Nat.zero_add, drawN?_zero, Option.bind_some]
    cases drawN? f b g with
    | none => rfl
    | some q => rfl
  | succ a ih =>
    rw [show a + 1 + b = (a + b) + 1 by omega, drawN?_succ, drawN?_succ]
    cases hf : f g with
    | none => rfl
    | some p =>
      simp only [Option.bind_some]
      rw [ih]
      cases drawN? f a p.2 with
      | none => rfl
      | some p' =>
        simp only [Option.bind_some, Option.map_some]
        cases drawN? f b p'.2 with
        | none => rfl
        | some q => rfl

/-- `nb` blocks of `n` draws are `nb * n` draws, block boundaries forgotten. -/
theorem drawN?_nested (f : Rng → Option (β × Rng)) (n nb : Nat) (g : Rng) :
    (drawN? (drawN? f n) nb g).map (fun p => (p.1.flatten, p.2)) = drawN? f (nb * n) g := by
  induction nb generalizing g with
  | zero => rw [Nat.zero_mul]; rfl
  | succ k ih =>
    rw [drawN?_succ, show (k + 1) * n = n + k * n by rw [Nat.succ_mul]; omega, drawN?_add f n (k * n)]
    cases drawN? f n g with
    | none => rfl
    | some p =>
      simp only [Option.bind_some]
      rw [← ih]
      cases drawN? (drawN? f n) k p.2 with
      | none => rfl
      | some q => rfl

/-- In a successful run of `k` draws the `j`-th value is `f` evaluated at the state after the first `j` draws of the
same run. -/
theorem drawN?_getElem {f : Rng → Option (β × Rng)} {k : Nat} {g g' : Rng} {xs : List β}
    (h : drawN? f k g = some (xs, g')) (j : Nat) (hj : j < xs.length) :
    ∃ gj gj', stateAfter f j g = some gj ∧ f gj = some (xs[j], gj') := by
  induction k generalizing g xs j with
  | zero =>
    simp only [drawN?_zero, Option.some.injEq, Prod.mk.injEq] at h
    rw [← h.1] at hj; exact absurd hj (Nat.not_lt_zero _)
  | succ k ih =>
    rw [drawN?_succ, Option.bind_eq_some_iff] at h
    obtain ⟨p, hp, h⟩ := h
    rw [Option.map_eq_some_iff] at h
    obtain ⟨q, hq, he⟩ := h
    simp only [Prod.mk.injEq] at he
    obtain ⟨hxs, hg⟩ := he
    subst hxs
    cases j with
    | zero => exact ⟨g, p.2, rfl, by simpa using hp⟩
    | succ j =>
      obtain ⟨gj, gj', hs, hf⟩ := ih (g := p.2) (xs := q.1) (by rw [hq, ← hg]) j (by simpa using hj)
      refine ⟨gj, gj', ?_, by simpa using hf⟩
      unfold stateAfter at hs ⊢
      rw [drawN?_succ, hp, Option.bind_some, Option.map_map]
      rw [Option.map_eq_some_iff] at hs ⊢
      obtain ⟨r, hr, hr2⟩ := hs
      exact ⟨r, hr, hr2⟩

/-- A run of `k` draws fails only because one of ITS OWN draws fails: there is a `j < k` such that the first `j`
draws return, reaching state `gj`, and `f gj = none`. -/
theorem drawN?_none_at {f : Rng → Option (β × Rng)} {k : Nat} {g : Rng} (h : drawN? f k g = none) :
    ∃ j, j < k ∧ ∃ gj, stateAfter f j g = some gj ∧ f gj = none := by
  induction k generalizing g with
  | zero => simp [drawN?_zero] at h
  | succ k ih =>
    rw [drawN?_succ] at h
    cases hf : f g with
    | none => exact ⟨0, Nat.succ_pos _, g, rfl, hf⟩
    | some p =>
      rw [hf, Option.bind_some, Option.map_eq_none_iff] at h
      obtain ⟨j, hj, gj, hs, hn⟩ := ih h
      refine ⟨j + 1, by omega, gj, ?_, hn⟩
      unfold stateAfter at hs ⊢
      rw [drawN?_succ, hf, Option.bind_some, Option.map_map]
      rw [Option.map_eq_some_iff] at hs ⊢
      obtain ⟨r, hr, hr2⟩ := hs
      exact ⟨r, hr, hr2⟩

/-- Conversely, a run returns as soon as each of its own draws returns. -/
theorem drawN?_isSome {f : Rng → Option (β × Rng)} {k : Nat} {g : Rng}
    (h : ∀ j, j < k → ∀ gj, stateAfter f j g = some gj → (f gj).isSome) : (drawN? f k g).isSome := by
  cases hd : drawN? f k g with
  | some r => rfl
  | none =>
    obtain ⟨j, hj, gj, hs, hn⟩ := drawN?_none_at hd
    have := h j hj gj hs
    rw [hn] at this
    exact this

end Cv.Rng
