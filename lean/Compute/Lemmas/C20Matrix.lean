import Compute.Model.GpKernels
import Compute.Lemmas.Mat
import Compute.Lemmas.C04Kernels
import Compute.Lemmas.C04Maps
import Compute.Props.C12
/-
C20 — the matrix `forward` of the covariance kernels (as repaired by F50), step by step, for an ARBITRARY scalar
type: every intermediate matrix of the expression

    (-(x - y.reshape(1, -1)).powi(2) / (2. * l.powi(2))).exp() * var        (x, y reshaped to columns)

is the `n × m` table of an explicit entry function.  The only law used is `powi a 2 = a * a` (the `vpowi` kernel
writes `a * a` inside full chunks of 8 and `a.powi(2)` in the remainder; for IEEE doubles both are the same
double).  The pieces come from the colleagues' theorems: `C12.broadcast_spec` (broadcast classifier),
`C04.v*_eq` / `C04.vunArgI_spec` (the unrolled element-wise kernels are maps).
-/
namespace Cv.C20
open Cv Cv.Gp Cv.Mat Cv.Vops

set_option linter.unusedSectionVars false

variable {α : Type} [Inhabited α]

/-- `M` is the `n × m` table of `f` (shape, data invariant, every entry). -/
def IsTab (M : Mat α) (n m : Nat) (f : Nat → Nat → α) : Prop :=
  M.nrows = n ∧ M.ncols = m ∧ M.WF ∧ ∀ i j, i < n → j < m → M.get i j = f i j

theorem IsTab.congr {M : Mat α} {n m : Nat} {f g : Nat → Nat → α} (h : IsTab M n m f)
    (hfg : ∀ i j, i < n → j < m → f i j = g i j) : IsTab M n m g :=
  ⟨h.1, h.2.1, h.2.2.1, fun i j hi hj => (h.2.2.2 i j hi hj).trans (hfg i j hi hj)⟩

/-- `Matrix::new` around an element-wise map of the data keeps the shape; entries are mapped. -/
theorem wrap_map (M : Mat α) (n m : Nat) (f : Nat → Nat → α) (g : α → α) (h : IsTab M n m f) :
    ∃ M', wrap (M.data.map g) M.nrows M.ncols = some M' ∧ IsTab M' n m (fun i j => g (f i j)) := by
  obtain ⟨hn, hm, hw, he⟩ := h
  have hw' : M.data.length = M.nrows * M.ncols := hw
  refine ⟨⟨M.data.map g, M.nrows, M.ncols⟩, ?_, hn, hm, ?_, ?_⟩
  · simp [wrap, hw']
  · simp [Mat.WF, hw']
  · intro i j hi hj
    have hk : i * M.ncols + j < M.data.length := by
      rw [hw']; exact idx_lt (hn ▸ hi) (hm ▸ hj)
    rw [get_mk_map g M.data M.nrows M.ncols i j hk]
    exact congrArg g (he i j hi hj)

/-! ### reshape -/

theorem vecReshape_col (v : List α) : Shape.vecReshape v (-1) 1 = some ⟨v, v.length, 1⟩ := by
  simp [Shape.vecReshape, Shape.mnew, Shape.reshapeMut, Shape.reshapeDims, Nat.mod_one]

theorem reshape_col (M : Mat α) (hw : M.WF) : Shape.reshape M (-1) 1 = some ⟨M.data, M.data.length, 1⟩ := by
  have hw' : M.data.length = M.nrows * M.ncols := hw
  have h0 : (0 : Int) ≤ ↑M.nrows * ↑M.ncols := Int.mul_nonneg (Int.natCast_nonneg _) (Int.natCast_nonneg _)
  have h1 : ((M.nrows : Int) * M.ncols).toNat = M.nrows * M.ncols := by rw [← Int.natCast_mul, Int.toNat_natCast]
  simp [Shape.reshape, Shape.mnew, Shape.reshapeMut, Shape.reshapeDims, hw', h0, h1]

theorem reshape_row (M : Mat α) (hw : M.WF) : Shape.reshape M 1 (-1) = some ⟨M.data, 1, M.data.length⟩ := by
  have hw' : M.data.length = M.nrows * M.ncols := hw
  have h0 : (0 : Int) ≤ ↑M.nrows * ↑M.ncols := Int.mul_nonneg (Int.natCast_nonneg _) (Int.natCast_nonneg _)
  have h1 : ((M.nrows : Int) * M.ncols).toNat = M.nrows * M.ncols := by rw [← Int.natCast_mul, Int.toNat_natCast]
  simp [Shape.reshape, Shape.mnew, Shape.reshapeMut, Shape.reshapeDims, hw', h0, h1]

/-- Well-formed point set: a `Matrix` argument satisfies the data invariant (any shape `r × c`). -/
def PtsWF : Pts α → Prop
  | .vec _ => True
  | .mat m => m.WF

theorem pts_reshape_col (p : Pts α) (hp : PtsWF p) :
    p.reshape (-1) 1 = some ⟨p.points, p.points.length, 1⟩ := by
  cases p with
  | vec v => exact vecReshape_col v
  | mat m => exact reshape_col m hp

/-! ### `powi(2)` -/

/-- `vpowi(v, 2)` is the map `a ↦ a * a` as soon as the scalar `powi(2)` is `a * a`. -/
theorem vunArgI_two (mul : α → α → α) (f : α → Int → α) (x : List α) (h2 : ∀ a, f a 2 = mul a a) :
    vunArgI mul f 2 x = x.map (fun a => mul a a) := by
  rw [C04.vunArgI_spec]
  have hc : C04.powiChunk mul f 2 = fun a => mul a a := by funext a; simp [C04.powiChunk]
  have hf : (f · 2) = fun a => mul a a := by funext a; exact h2 a
  rw [hc, hf, ← List.map_append, List.take_append_drop]

section ops
variable [Add α] [Sub α] [Mul α] [Div α] [Neg α] [Zero α] [One α] [NatCast α] [Transc α]

/-! ### broadcast step -/

/-- `column ∘ row`: an `n × 1` against a `1 × m` matrix gives the `n × m` outer table. -/
theorem bcast_col_row (op : α → α → α) (a b : List α) (hn : 0 < a.length) (hm : 0 < b.length) :
    ∃ R, broadcastOp op ⟨a, a.length, 1⟩ ⟨b, 1, b.length⟩ = some R ∧
      IsTab R a.length b.length (fun i j => op a[i]! b[j]!) := by
  have gA : C12.Good (⟨a, a.length, 1⟩ : Mat α) := ⟨by simp [Mat.WF], hn, by simp⟩
  have gB : C12.Good (⟨b, 1, b.length⟩ : Mat α) := ⟨by simp [Mat.WF], by simp, hm⟩
  have hc : C12.Compat a.length 1 1 b.length := ⟨Or.inr (Or.inr rfl), Or.inr (Or.inl rfl)⟩
  obtain ⟨R, hR, rn, rm, rw_, re⟩ := C12.broadcast_spec op _ _ gA gB hc
  simp only at rn rm
  have rn' : R.nrows = a.length := by rw [rn]; omega
  have rm' : R.ncols = b.length := by rw [rm]; omega
  refine ⟨R, hR, rn', rm', rw_, ?_⟩
  intro i j hi hj
  rw [re i j (by omega) (by omega)]
  simp only [C12.bget, Mat.get]
  have e1 : (if a.length = 1 then 0 else i) = i := by split <;> omega
  have e2 : (if b.length = 1 then 0 else j) = j := by split <;> omega
  simp [e1, e2]

/-! ### the squared-distance table and the two kernels -/

/-- `(x - y.reshape(1,-1)).powi(2)`: the `n × m` table of `(xᵢ - yⱼ) * (xᵢ - yⱼ)`. -/
theorem sqDist_tab (hp : ∀ a : α, powi a 2 = a * a) (x y : Pts α) (hx : PtsWF x) (hy : PtsWF y)
    (hxn : 0 < x.points.length) (hyn : 0 < y.points.length) :
    ∃ T, sqDist x y = some T ∧ IsTab T x.points.length y.points.length
      (fun i j => (x.points[i]! - y.points[j]!) * (x.points[i]! - y.points[j]!)) := by
  obtain ⟨D, hD, tD⟩ := bcast_col_row (· - ·) x.points y.points hxn hyn
  obtain ⟨T, hT, tT⟩ := wrap_map D _ _ _ (fun a => a * a) tD
  refine ⟨T, ?_, tT⟩
  have r2 : Shape.reshape (⟨y.points, y.points.length, 1⟩ : Mat α) 1 (-1) = some ⟨y.points, 1, y.points.length⟩ :=
    reshape_row (⟨y.points, y.points.length, 1⟩ : Mat α) (by simp [Mat.WF])
  simp only [sqDist, pts_reshape_col x hx, pts_reshape_col y hy, r2, hD, mpowi, vunArgI_two _ _ _ hp, hT,
    Option.bind_eq_bind, Option.bind_some]

/-- **RBF matrix form = scalar form, any scalar type with `powi a 2 = a * a`**: never panics on non-empty
well-formed point sets; the result is the `n × m` table of the scalar `forward`. -/
theorem rbf_fwdM_tab (hp : ∀ a : α, powi a 2 = a * a) (k : RBF α) (x y : Pts α) (hx : PtsWF x) (hy : PtsWF y)
    (hxn : 0 < x.points.length) (hyn : 0 < y.points.length) :
    ∃ R, k.fwdM x y = some R ∧
      IsTab R x.points.length y.points.length (fun i j => k.fwd x.points[i]! y.points[j]!) := by
  obtain ⟨T, hT, tT⟩ := sqDist_tab hp x y hx hy hxn hyn
  obtain ⟨N, hN, tN⟩ := wrap_map T _ _ _ (fun v => -v) tT
  obtain ⟨Q, hQ, tQ⟩ := wrap_map N _ _ _ (fun v => v / k.denom) tN
  obtain ⟨E, hE, tE⟩ := wrap_map Q _ _ _ exp tQ
  obtain ⟨R, hR, tR⟩ := wrap_map E _ _ _ (fun v => v * k.var) tE
  refine ⟨R, ?_, tR.congr fun i j _ _ => by simp only [RBF.fwd, hp]⟩
  simp only [RBF.fwdM, hT, hN, C04.vs_eq, hQ, C04.vun_eq, hE, hR, Option.bind_eq_bind, Option.bind_some]

/-- **RQ matrix form = scalar form, any scalar type with `powi a 2 = a * a`.** -/
theorem rq_fwdM_tab (hp : ∀ a : α, powi a 2 = a * a) (k : RQ α) (x y : Pts α) (hx : PtsWF x) (hy : PtsWF y)
    (hxn : 0 < x.points.length) (hyn : 0 < y.points.length) :
    ∃ R, k.fwdM x y = some R ∧
      IsTab R x.points.length y.points.length (fun i j => k.fwd x.points[i]! y.points[j]!) := by
  obtain ⟨T, hT, tT⟩ := sqDist_tab hp x y hx hy hxn hyn
  obtain ⟨Q, hQ, tQ⟩ := wrap_map T _ _ _ (fun v => v / k.denom) tT
  obtain ⟨P, hP, tP⟩ := wrap_map Q _ _ _ (fun v => 1 + v) tQ
  obtain ⟨W, hW, tW⟩ := wrap_map P _ _ _ (fun v => pow v (-k.alpha)) tP
  obtain ⟨R, hR, tR⟩ := wrap_map W _ _ _ (fun v => v * k.var) tW
  refine ⟨R, ?_, tR.congr fun i j _ _ => by simp only [RQ.fwd, hp]⟩
  simp only [RQ.fwdM, hT, C04.vs_eq, hQ, C04.sv_eq, hP, C04.vunArgF_eq, hW, hR, Option.bind_eq_bind, Option.bind_some]

end ops
end Cv.C20
