import Compute.Props.C11Lu
import Compute.Lemmas.LuCorrect5
/-
C11 (deep) — the LU factorisation as a Mathlib matrix identity, and the determinant:
`L * U = P·A`, `det (P·A) = ∏ U[k,k]`, and `Matrix::det` returns `det (P·A) · parity`.
-/
set_option linter.unusedSectionVars false
namespace Cv.C11Lu
open Cv Cv.LA Cv.LA.Lu Finset

section general
variable {α : Type} [Field α] [BEq α] [LawfulBEq α] [LT α] [DecidableLT α] [LE α] [DecidableLE α]
  [Transc α]

/-- matrix form of `lu_correct` (any field, with the side condition on zero pivots) -/
theorem lu_correct_matrix_of_cond (n : Nat) (a f : List α) (p : List Nat) (ha : a.length = n * n)
    (h : lu a = some (f, p))
    (hz : ∀ k i, k < i → i < n → rd f (k * n + k) = 0 → rd f (i * n + k) = 0) :
    Lmat n f * Umat n f = PAmat n a p ∧ (PAmat n a p).det = ∏ k : Fin n, rd f (k.1 * n + k.1) := by
  obtain ⟨n', hn', -, -, hlu⟩ := lu_correct a f p h
  have e : n' = n := Nat.mul_self_inj.mp (by rw [hn', ha])
  subst e
  exact ⟨Lmat_mul_Umat n' a f p (hlu hz), det_PAmat n' a f p (hlu hz)⟩

end general

section ordered
variable {F : Type} [Field F] [LinearOrder F] [IsStrictOrderedRing F] [Transc F] [BEq F] [LawfulBEq F]

/-- **lu_correct_matrix**: `L * U = P·A` as `Matrix (Fin n) (Fin n) F`, for every square input. -/
theorem lu_correct_matrix (habs : ∀ x : F, Transc.abs x = |x|) (n : Nat) (a f : List F) (p : List Nat)
    (ha : a.length = n * n) (h : lu a = some (f, p)) :
    Lmat n f * Umat n f = PAmat n a p := by
  obtain ⟨n', hn', -, -, hlu⟩ := lu_correct_ordered habs a f p h
  have e : n' = n := Nat.mul_self_inj.mp (by rw [hn', ha])
  subst e
  exact Lmat_mul_Umat n' a f p hlu

/-- **lu_det**: the product of the diagonal of the packed factor is the determinant of the
row-permuted input, `∏ U[k,k] = det (P·A)`, singular inputs included. -/
theorem lu_det (habs : ∀ x : F, Transc.abs x = |x|) (n : Nat) (a f : List F) (p : List Nat)
    (ha : a.length = n * n) (h : lu a = some (f, p)) :
    (PAmat n a p).det = ∏ k : Fin n, rd f (k.1 * n + k.1) := by
  obtain ⟨n', hn', -, -, hlu⟩ := lu_correct_ordered habs a f p h
  have e : n' = n := Nat.mul_self_inj.mp (by rw [hn', ha])
  subst e
  exact det_PAmat n' a f p hlu

/-- all pivots are non-zero iff `P·A` is non-singular -/
theorem lu_pivots_ne_zero_iff_det (habs : ∀ x : F, Transc.abs x = |x|) (n : Nat) (a f : List F)
    (p : List Nat) (ha : a.length = n * n) (h : lu a = some (f, p)) :
    (∀ k, k < n → rd f (k * n + k) ≠ 0) ↔ (PAmat n a p).det ≠ 0 := by
  rw [lu_det habs n a f p ha h, Finset.prod_ne_zero_iff]
  constructor
  · intro hd k _; exact hd k.1 k.2
  · intro hd k hk; exact hd ⟨k, hk⟩ (Finset.mem_univ _)

theorem prod_foldl_eq (g : Nat → F) (n : Nat) :
    M.prod ((List.range n).map g) = ∏ k ∈ range n, g k := by
  unfold M.prod
  rw [← List.prod_eq_foldl]
  induction n with
  | zero => simp
  | succ n ih => rw [List.range_succ, List.map_append, List.prod_append, ih, Finset.prod_range_succ]; simp

/-- **matrix_det_correct**: whatever `Matrix::det` returns is `det (P·A)` times the parity scalar it
computed from the pivot vector. -/
theorem matrix_det_correct (habs : ∀ x : F, Transc.abs x = |x|) (m : Mat F) (d : F) (hw : m.WF)
    (hsq : m.nrows = m.ncols) (h : M.det m = some d) :
    ∃ f piv s, M.lu m = some (f, piv) ∧ M.parityScalar (piv.map Int.ofNat) = some s ∧
      d = (PAmat m.ncols m.data piv).det * s := by
  rw [C11.det_spec] at h
  cases hlu : M.lu m with
  | none => simp [hlu] at h
  | some fp =>
    obtain ⟨f, piv⟩ := fp
    simp only [hlu, Option.bind_some] at h
    cases hs : (M.parityScalar (piv.map Int.ofNat) : Option F) with
    | none => simp [hs] at h
    | some s =>
      simp only [hs, Option.bind_some, Option.some.injEq] at h
      refine ⟨f, piv, s, rfl, hs, ?_⟩
      have hlu0 := hlu
      rw [C11.matrix_lu_eq_slice m hw hsq] at hlu
      cases hlu' : LA.lu m.data with
      | none => simp [hlu'] at hlu
      | some fp' =>
        obtain ⟨fd, piv'⟩ := fp'
        simp only [hlu', Option.map_some, Option.some.injEq, Prod.mk.injEq] at hlu
        obtain ⟨hf, hpv⟩ := hlu
        subst hpv
        have hml : m.data.length = m.ncols * m.ncols := by rw [hw, hsq]
        rw [lu_det habs m.ncols m.data fd piv' hml hlu', ← h, ← hf]
        simp only [M.diag, hsq, Nat.min_self]
        rw [prod_foldl_eq (fun i => rd fd (i * m.ncols + i)) m.ncols,
          Finset.prod_range (fun i => rd fd (i * m.ncols + i))]

end ordered

section examples
open Cv.C01

/-- `det (P·A) = 2·2·(−3/4) = −3` on the 3×3 example -/
example : (PAmat 3 exA exP).det = ∏ k : Fin 3, rd exF (k.1 * 3 + k.1) :=
  lu_det abs_rat 3 exA exF exP rfl ex_lu

example : M.det (⟨exA, 3, 3⟩ : Mat ℚ) = some (-3) := by decide +kernel

end examples
end Cv.C11Lu
