import Compute.Model.Special
import Compute.Generated.SrcC09
/-
Source tie for C09 (`src/functions/gamma.rs`, `erf` of `src/functions/statistical.rs`):
`Compute/Generated/SrcC09.lean` is regenerated from the Rust source by `tools/rs2lean.py` on every run.

`gamma`, `ln_gamma` and `erf` are recursive and `gamma` / `ln_gamma` contain the Lanczos `for` loop, which is
outside the translated subset.  The translator therefore emits the STEP of each function: the recursive call is
the parameter `g`, the loop accumulator `x` is a parameter (`gammaStep g z x`, `lnGammaStep g z x`, `erfStep g x`).
The hand model (`Compute/Model/Special.lean`) has the closed forms after the (at most one) reflection / sign
step, `gammaFn`, `lnGammaFn`, `erfFn` (`Props/C09.lean` proves the fuelled transcriptions equal to them).  The
theorems say: the closed form IS the regenerated step applied to the non-reflected branch (`gammaPos`,
`lnGammaPos`, `erfPos`) and to the model of the loop (`lanczosSum`) — all by `rfl`: the condition (`z < 0.5`,
`x.is_sign_positive()`), the reflection formulas, `t`, `half_pow` and both final products / sums are the source's own terms.
What stays outside this tie: the loop itself (tied by the regenerated table `C09T.lanczos` + bit-exact runs)
and `digamma` (see the note at the end).
-/
set_option linter.unusedSectionVars false
namespace Cv.SrcTie.C09
open Cv.Special

variable {α : Type} [Add α] [Sub α] [Mul α] [Div α] [Neg α] [Zero α] [One α] [NatCast α] [IntCast α]
  [LT α] [DecidableLT α] [LE α] [DecidableLE α] [BEq α] [Cv.Transc α] [Cv.OfLit α] [Cv.SignBit α]

/-- `gamma(a) * gamma(b) / gamma(a + b)` is `betaFn`. -/
theorem beta_eq : (Cv.Src.C09.beta : α → α → α) = betaFn := rfl

/-- `gamma`: `if z < 0.5 { PI / ((PI * z).sin() * gamma(1. - z)) } else { …; sqrt(2π) * half_pow * exp(-t) * half_pow * x }`
with the recursive call answered by the non-reflected branch and `x` by the model of the loop is `gammaFn`. -/
theorem gamma_eq : (fun z : α => Cv.Src.C09.gammaStep gammaPos z (lanczosSum z)) = gammaFn := rfl

/-- the `else` branch alone (any `g`): the code after the loop is `gammaPos`. -/
theorem gamma_else_eq (g : α → α) (z : α) (h : ¬ z < half) : Cv.Src.C09.gammaStep g z (lanczosSum z) = gammaPos z := by
  unfold Cv.Src.C09.gammaStep
  exact if_neg h

/-- `ln_gamma`: `if z < 0.5 { (PI / (PI * z).sin().abs()).ln() - ln_gamma(1. - z) } else { …; 0.5 * (2π).ln() + … + x.ln() }`. -/
theorem lnGamma_eq : (fun z : α => Cv.Src.C09.lnGammaStep lnGammaPos z (lanczosSum z)) = lnGammaFn := rfl

theorem lnGamma_else_eq (g : α → α) (z : α) (h : ¬ z < half) :
    Cv.Src.C09.lnGammaStep g z (lanczosSum z) = lnGammaPos z := by
  unfold Cv.Src.C09.lnGammaStep
  exact if_neg h

/-- `erf` (since F56): `if x.is_sign_positive() { let t = 1. / (1. + ERF_P * x); 1. - (Horner) * t * (-x * x).exp() } else { -erf(-x) }`
with the recursive call answered by the sign-positive branch is `erfFn` (`is_sign_positive` = `Cv.SignBit.isSignPositive`). -/
theorem erf_eq : (Cv.Src.C09.erfStep erfPos : α → α) = erfFn := rfl

/-- the sign-positive branch alone (any `g`) is `erfPos`. -/
theorem erf_then_eq (g : α → α) (x : α) (h : Cv.SignBit.isSignPositive x = true) : Cv.Src.C09.erfStep g x = erfPos x := by
  unfold Cv.Src.C09.erfStep
  exact if_pos h

/-- One fuelled step of the faithful recursive transcription `erfF` is the regenerated step. -/
theorem erfF_step (n : Nat) (x : α) :
    erfF (n + 1) x = if Cv.SignBit.isSignPositive x = true then some (Cv.Src.C09.erfStep (fun _ => x) x)
      else (erfF n (-x)).map fun e => Cv.Src.C09.erfStep (fun _ => e) x := by
  show (if Cv.SignBit.isSignPositive x = true then some (erfPos x) else (erfF n (-x)).map fun e => -e) = _
  by_cases h : Cv.SignBit.isSignPositive x = true
  · rw [if_pos h, if_pos h]; exact congrArg some (erf_then_eq _ x h).symm
  · rw [if_neg h, if_neg h]
    cases erfF n (-x) with
    | none => rfl
    | some e =>
      show some (-e) = some (Cv.Src.C09.erfStep (fun _ => e) x)
      unfold Cv.Src.C09.erfStep
      rw [if_neg h]

/-
NOT tied here — `digamma`: the source writes the asymptotic series as one expression
`x.ln() - 1. / (2. * x) - 1. / (12. * x.powi(2)) + …`; the model folds the regenerated table `C09T.digammaSeries`
with `digammaTerm`, which spells every term `num / (den * x.powi(k))`, i.e. the first term as `1 / (2 * x.powi(1))`
(`powi x 1` unfolds to `1 * x`) and the numerators `1.` as `((1 : Nat) : α)`.  Equal at `Float` bit for bit (`1 * x = x`;
checked by the correspondence) and over any field, but not the same term, so no `rfl` theorem exists; its tie
remains the regenerated table plus the bit-exact runs.
-/

end Cv.SrcTie.C09
