import Compute.Model.Tape
import Mathlib.Algebra.Ring.Defs
import Mathlib.Algebra.Ring.Int.Defs
import Mathlib.Tactic.Ring
/-
Correctness of the reverse sweep of `Compute/Model/Tape.lean` on the ring fragment of the RPN
objective language: over any commutative ring, for programs built from
`param const x add sub mul neg`, `gradAt` returns the formal partial derivatives
(forward-mode dual-number semantics `dualEval`, defined here as the independent SPEC).
-/
namespace Cv.AD

set_option linter.unusedSectionVars false

variable {R : Type} [CommRing R] [Div R] [Cv.Transc R]

/-! ### SPEC: forward-mode dual numbers over the stack machine -/

/-- value and formal partial derivatives (`d i` = ∂/∂θᵢ) -/
structure Dual (R : Type) where
  val : R
  d : Nat → R

/-- the instructions of the ring fragment -/
inductive RingOp : Op R → Prop
  | param (i : Nat) : RingOp (.param i)
  | const (c : R) : RingOp (.const c)
  | x : RingOp .x
  | add : RingOp .add
  | sub : RingOp .sub
  | mul : RingOp .mul
  | neg : RingOp .neg

/-- textbook differentiation rules; instructions outside the fragment are `none` -/
def dualStep (θ : List R) (x? : Option R) (st : List (Dual R)) : Op R → Option (List (Dual R))
  | .param i => match θ[i]? with
    | some p => some (⟨p, fun j => if j = i then 1 else 0⟩ :: st)
    | none => none
  | .const c => some (⟨c, fun _ => 0⟩ :: st)
  | .x => match x? with
    | some x => some (⟨x, fun _ => 0⟩ :: st)
    | none => none
  | .add => match st with
    | b :: a :: st => some (⟨a.val + b.val, fun j => a.d j + b.d j⟩ :: st)
    | _ => none
  | .sub => match st with
    | b :: a :: st => some (⟨a.val - b.val, fun j => a.d j - b.d j⟩ :: st)
    | _ => none
  | .mul => match st with
    | b :: a :: st => some (⟨a.val * b.val, fun j => a.d j * b.val + a.val * b.d j⟩ :: st)
    | _ => none
  | .neg => match st with
    | a :: st => some (⟨-a.val, fun j => -a.d j⟩ :: st)
    | _ => none
  | _ => none

def dualRun (θ : List R) (x? : Option R) : List (Op R) → List (Dual R) → Option (List (Dual R))
  | [], st => some st
  | o :: os, st =>
    match dualStep θ x? st o with
    | none => none
    | some st => dualRun θ x? os st

/-- the program's value and formal partial derivatives at `θ` (final stack must be one item) -/
def dualEval (prog : List (Op R)) (θ : List R) (x? : Option R) : Option (Dual R) :=
  match dualRun θ x? prog [] with
  | some [D] => some D
  | _ => none

/-! ### finite dot product `Σ_{i<k} f i * g i` -/

def dot (f g : Nat → R) : Nat → R
  | 0 => 0
  | k + 1 => dot f g k + f k * g k

theorem dot_congr {f f' g g' : Nat → R} (k : Nat) (hf : ∀ i, i < k → f i = f' i)
    (hg : ∀ i, i < k → g i = g' i) : dot f g k = dot f' g' k := by
  induction k with
  | zero => rfl
  | succ k ih =>
    simp only [dot]
    rw [ih (fun i hi => hf i (by omega)) (fun i hi => hg i (by omega)), hf k (by omega),
      hg k (by omega)]

theorem dot_bump (f g : Nat → R) (a : Nat) (c : R) (k : Nat) :
    dot (fun i => if a = i then f i + c else f i) g k
      = dot f g k + (if a < k then c * g a else 0) := by
  induction k with
  | zero => simp [dot]
  | succ k ih =>
    simp only [dot, ih]
    by_cases h1 : a = k
    · subst h1; simp; ring
    · by_cases h2 : a < k
      · have : a < k + 1 := by omega
        simp [h1, h2, this]; ring
      · have : ¬ a < k + 1 := by omega
        simp [h1, h2, this]

theorem dot_delta_right (f g : Nat → R) (j k : Nat)
    (hg : ∀ i, i < k → g i = if j = i then 1 else 0) :
    dot f g k = if j < k then f j else 0 := by
  induction k with
  | zero => simp [dot]
  | succ k ih =>
    simp only [dot]
    rw [ih (fun i hi => hg i (by omega)), hg k (by omega)]
    by_cases h1 : j = k
    · subst h1; simp
    · by_cases h2 : j < k
      · have : j < k + 1 := by omega
        simp [h1, h2, this]
      · have : ¬ j < k + 1 := by omega
        simp [h1, h2, this]

theorem dot_delta_left (f g : Nat → R) (o k : Nat)
    (hf : ∀ i, i < k → f i = if o = i then 1 else 0) :
    dot f g k = if o < k then g o else 0 := by
  induction k with
  | zero => simp [dot]
  | succ k ih =>
    simp only [dot]
    rw [ih (fun i hi => hf i (by omega)), hf k (by omega)]
    by_cases h1 : o = k
    · subst h1; simp
    · by_cases h2 : o < k
      · have : o < k + 1 := by omega
        simp [h1, h2, this]
      · have : ¬ o < k + 1 := by omega
        simp [h1, h2, this]

/-! ### tangents (forward mode on the tape) -/

/-- Tangent of node `i` in direction (leaf) `j`, on a tape whose first `n` nodes are the leaves. -/
def tan (t : Tape R) (n j : Nat) (i : Nat) : R :=
  if i < n then (if j = i then 1 else 0) else
    match t[i]? with
    | none => 0
    | some nd =>
      if _h : nd.d0 < i ∧ nd.d1 < i then nd.w0 * tan t n j nd.d0 + nd.w1 * tan t n j nd.d1 else 0
termination_by i
decreasing_by all_goals omega

theorem tan_leaf (t : Tape R) (n j i : Nat) (h : i < n) :
    tan t n j i = if j = i then 1 else 0 := by
  rw [tan]; simp [h]

theorem tan_node (t : Tape R) (n j i : Nat) (hn : n ≤ i) (hi : i < t.size)
    (h0 : t[i].d0 < i) (h1 : t[i].d1 < i) :
    tan t n j i = t[i].w0 * tan t n j t[i].d0 + t[i].w1 * tan t n j t[i].d1 := by
  rw [tan]
  have : ¬ i < n := by omega
  simp [this, hi, h0, h1]

theorem tan_push (t : Tape R) (nd : Node R) (n j i : Nat) (hi : i < t.size) :
    tan (t.push nd) n j i = tan t n j i := by
  induction i using Nat.strong_induction_on with
  | _ i ih =>
    rw [tan.eq_1 (t.push nd) n j i, tan.eq_1 t n j i]
    by_cases hl : i < n
    · simp [hl]
    · simp only [hl, if_false, Array.getElem?_push_lt hi]
      simp only [Array.getElem?_eq_getElem hi]
      by_cases hd : t[i].d0 < i ∧ t[i].d1 < i
      · simp only [hd, and_self, dite_true]
        rw [ih _ hd.1 (by omega), ih _ hd.2 (by omega)]
      · simp [hd]

/-! ### the tape invariant -/

/-- the first `n` nodes are leaves (zero weights), every later node depends on earlier nodes -/
structure TapeOK (t : Tape R) (n : Nat) : Prop where
  le : n ≤ t.size
  leaf : ∀ i (h : i < t.size), i < n → t[i].w0 = 0 ∧ t[i].w1 = 0
  inner : ∀ i (h : i < t.size), n ≤ i → t[i].d0 < i ∧ t[i].d1 < i

/-! ### the reverse sweep -/

/-- derivative array as a function -/
def fn (d : Array R) : Nat → R := fun i => d.getD i 0

theorem fn_modify (d : Array R) (a : Nat) (c : R) (i : Nat) (ha : a < d.size) :
    fn (d.modify a (fun y => y + c)) i = if a = i then fn d i + c else fn d i := by
  simp only [fn, Array.getD_eq_getD_getElem?, Array.getElem?_modify]
  by_cases h : a = i
  · subst h; simp [ha]
  · simp [h]

theorem modify_id (d : Array R) (a : Nat) (f : R → R) (hf : ∀ y, f y = y) :
    d.modify a f = d := by
  apply Array.ext (by simp)
  intro i h1 h2
  rw [Array.getElem_modify]
  split <;> simp [hf]

theorem sweepStep_size (t : Tape R) (d : Array R) (k : Nat) :
    (sweepStep t d k).size = d.size := by
  unfold sweepStep
  split <;> simp

theorem sweepFrom_size (t : Tape R) (k : Nat) (d : Array R) :
    (sweepFrom t k d).size = d.size := by
  induction k generalizing d with
  | zero => rfl
  | succ k ih => rw [sweepFrom, ih, sweepStep_size]

theorem sweepStep_leaf {t : Tape R} {n : Nat} (hOK : TapeOK t n) (d : Array R) (k : Nat)
    (hk : k < n) : sweepStep t d k = d := by
  have hks : k < t.size := Nat.lt_of_lt_of_le hk hOK.le
  have hw := hOK.leaf k hks hk
  unfold sweepStep
  simp only [Array.getElem?_eq_getElem hks]
  rw [modify_id, modify_id]
  all_goals
    intro y
    simp only [hw.1, hw.2]
    ring

theorem sweepFrom_leaf {t : Tape R} {n : Nat} (hOK : TapeOK t n) (k : Nat) (d : Array R)
    (hk : k ≤ n) : sweepFrom t k d = d := by
  induction k generalizing d with
  | zero => rfl
  | succ k ih => rw [sweepFrom, sweepStep_leaf hOK d k (by omega), ih d (by omega)]

/-- one step at an inner node moves `d[k] * tan k` into the prefix sum -/
theorem sweepStep_dot {t : Tape R} {n : Nat} (hOK : TapeOK t n) (j : Nat) (d : Array R) (k : Nat)
    (hn : n ≤ k) (hks : k < t.size) (hd : d.size = t.size) :
    dot (fn (sweepStep t d k)) (tan t n j) k = dot (fn d) (tan t n j) (k + 1) := by
  have hdep := hOK.inner k hks hn
  have h0 : t[k].d0 < d.size := by omega
  have h1 : t[k].d1 < d.size := by omega
  unfold sweepStep
  simp only [Array.getElem?_eq_getElem hks]
  have hx : (d.modify t[k].d0 (fun y => y + t[k].w0 * d.getD k 0)).getD k 0 = d.getD k 0 := by
    have := fn_modify d t[k].d0 (t[k].w0 * d.getD k 0) k h0
    simp only [fn] at this
    rw [this, if_neg (by omega)]
  rw [hx]
  have h1' : t[k].d1 < (d.modify t[k].d0 (fun y => y + t[k].w0 * d.getD k 0)).size := by
    simpa using h1
  rw [dot_congr k (fun i _ => fn_modify (d.modify t[k].d0 (fun y => y + t[k].w0 * d.getD k 0))
    t[k].d1 (t[k].w1 * d.getD k 0) i h1') (fun i _ => rfl)]
  rw [dot_bump]
  rw [dot_congr k (fun i _ => fn_modify d t[k].d0 _ i h0) (fun i _ => rfl)]
  rw [dot_bump]
  simp only [hdep.1, hdep.2, if_true, dot]
  rw [tan_node t n j k hn hks hdep.1 hdep.2]
  simp only [fn]
  ring

theorem sweepFrom_dot {t : Tape R} {n : Nat} (hOK : TapeOK t n) (j : Nat) (k : Nat) (d : Array R)
    (hn : n ≤ k) (hks : k ≤ t.size) (hd : d.size = t.size) :
    dot (fn (sweepFrom t k d)) (tan t n j) n = dot (fn d) (tan t n j) k := by
  induction k generalizing d with
  | zero =>
    have : n = 0 := by omega
    subst this; rfl
  | succ k ih =>
    by_cases hk : n = k + 1
    · rw [sweepFrom_leaf hOK _ _ (by omega), hk]
    · rw [sweepFrom, ih _ (by omega) (by omega) (by rw [sweepStep_size, hd]),
        sweepStep_dot hOK j d k (by omega) (by omega) hd]

/-- **the sweep lemma**: on a well-formed tape the reverse sweep from output `o` leaves in slot
`j` (a leaf) the forward tangent of `o` in direction `j`. -/
theorem sweep_correct {t : Tape R} {n : Nat} (hOK : TapeOK t n) (r : Var R) (hr : r.loc < t.size)
    (j : Nat) (hj : j < n) : (grad t r).getD j 0 = tan t n j r.loc := by
  unfold grad
  have hsz : ((Array.replicate t.size (0 : R)).setIfInBounds r.loc 1).size = t.size := by simp
  have h1 := sweepFrom_dot hOK j t.size _ hOK.le (Nat.le_refl _) hsz
  rw [dot_delta_right _ _ j n (fun i hi => tan_leaf t n j i hi), if_pos hj] at h1
  rw [dot_delta_left _ _ r.loc t.size, if_pos hr] at h1
  · exact h1
  · intro i hi
    simp only [fn, Array.getD_eq_getD_getElem?, Array.getElem?_setIfInBounds,
      Array.getElem?_replicate, Array.size_replicate]
    by_cases h : r.loc = i
    · simp [h, hi]
    · simp [h, hi]

/-! ### growing the tape -/

/-- `t'` extends `t` without changing the tangents of the nodes of `t` -/
def Grows (t t' : Tape R) : Prop :=
  t.size ≤ t'.size ∧ ∀ n j i, i < t.size → tan t' n j i = tan t n j i

theorem Grows.refl (t : Tape R) : Grows t t := ⟨Nat.le_refl _, fun _ _ _ _ => rfl⟩

theorem Grows.trans {t t1 t2 : Tape R} (h1 : Grows t t1) (h2 : Grows t1 t2) : Grows t t2 :=
  ⟨Nat.le_trans h1.1 h2.1, fun n j i hi => by
    rw [h2.2 n j i (Nat.lt_of_lt_of_le hi h1.1), h1.2 n j i hi]⟩

theorem grows_push (t : Tape R) (nd : Node R) : Grows t (t.push nd) :=
  ⟨by simp, fun n j i hi => tan_push t nd n j i hi⟩

/-- stack cell vs. dual number -/
def Rel (t : Tape R) (n : Nat) : Item R → Dual R → Prop
  | .c a, D => D.val = a ∧ ∀ j, D.d j = 0
  | .v x, D => x.loc < t.size ∧ D.val = x.val ∧ ∀ j, tan t n j x.loc = D.d j

def StackRel (t : Tape R) (n : Nat) : List (Item R) → List (Dual R) → Prop
  | [], [] => True
  | a :: as, D :: Ds => Rel t n a D ∧ StackRel t n as Ds
  | [], _ :: _ => False
  | _ :: _, [] => False

theorem rel_mono {t t' : Tape R} {n : Nat} (hg : Grows t t') {a : Item R} {D : Dual R}
    (h : Rel t n a D) : Rel t' n a D := by
  cases a with
  | c a => exact h
  | v x =>
    obtain ⟨h1, h2, h3⟩ := h
    exact ⟨Nat.lt_of_lt_of_le h1 hg.1, h2, fun j => by rw [hg.2 n j _ h1]; exact h3 j⟩

theorem stackRel_mono {t t' : Tape R} {n : Nat} (hg : Grows t t') :
    ∀ {st : List (Item R)} {Ds : List (Dual R)}, StackRel t n st Ds → StackRel t' n st Ds
  | [], [], _ => trivial
  | _ :: _, _ :: _, h => ⟨rel_mono hg h.1, stackRel_mono hg h.2⟩
  | [], _ :: _, h => h.elim
  | _ :: _, [], h => h.elim

theorem stackRel_cons {t : Tape R} {n : Nat} {a : Item R} {D : Dual R} {as : List (Item R)}
    {Ds : List (Dual R)} (h1 : Rel t n a D) (h2 : StackRel t n as Ds) :
    StackRel t n (a :: as) (D :: Ds) := ⟨h1, h2⟩

/-- result of an operator: tape still well formed, grown, result related to `D` -/
def Out (t : Tape R) (n : Nat) (p : Item R × Tape R) (D : Dual R) : Prop :=
  TapeOK p.2 n ∧ Grows t p.2 ∧ Rel p.2 n p.1 D

theorem out_trans {t t1 : Tape R} {n : Nat} {p : Item R × Tape R} {D : Dual R}
    (hg : Grows t t1) (h : Out t1 n p D) : Out t n p D :=
  ⟨h.1, hg.trans h.2.1, h.2.2⟩

theorem tapeOK_push {t : Tape R} {n : Nat} (hOK : TapeOK t n) (w0 w1 : R) (d0 d1 : Nat)
    (h0 : d0 < t.size) (h1 : d1 < t.size) : TapeOK (t.push ⟨w0, w1, d0, d1⟩) n := by
  refine ⟨by simp; have := hOK.le; omega, ?_, ?_⟩
  · intro i hi hin
    have hi' : i < t.size := Nat.lt_of_lt_of_le hin hOK.le
    rw [Array.getElem_push_lt hi']
    exact hOK.leaf i hi' hin
  · intro i hi hin
    by_cases hi' : i < t.size
    · rw [Array.getElem_push_lt hi']
      exact hOK.inner i hi' hin
    · have : i = t.size := by simp at hi; omega
      subst this
      simp [h0, h1]

theorem out_mk {t : Tape R} {n : Nat} (hOK : TapeOK t n) (v w0 w1 : R) (d0 d1 : Nat)
    (h0 : d0 < t.size) (h1 : d1 < t.size) (D : Dual R) (hv : D.val = v)
    (hd : ∀ j, w0 * tan t n j d0 + w1 * tan t n j d1 = D.d j) :
    Out t n (Item.v (mk t v d0 d1 w0 w1).1, (mk t v d0 d1 w0 w1).2) D := by
  have hOK' := tapeOK_push hOK w0 w1 d0 d1 h0 h1
  refine ⟨hOK', grows_push _ _, ?_, hv, ?_⟩
  · simp [mk]
  · intro j
    show tan (t.push ⟨w0, w1, d0, d1⟩) n j t.size = D.d j
    rw [tan_node _ n j t.size hOK.le (by simp)]
    · simp only [Array.getElem_push_eq]
      rw [tan_push _ _ _ _ _ h0, tan_push _ _ _ _ _ h1]
      exact hd j
    · simpa using h0
    · simpa using h1

/-! ### the item-level operators -/

theorem iAdd_ok {t : Tape R} {n : Nat} (hOK : TapeOK t n) {a b : Item R} {Da Db : Dual R}
    (ha : Rel t n a Da) (hb : Rel t n b Db) :
    Out t n (iAdd t a b) ⟨Da.val + Db.val, fun j => Da.d j + Db.d j⟩ := by
  cases a with
  | c a =>
    cases b with
    | c b =>
      exact ⟨hOK, Grows.refl t, by simp [ha.1, hb.1], fun j => by simp [ha.2 j, hb.2 j]⟩
    | v b =>
      refine out_mk hOK _ _ _ _ _ hb.1 hb.1 _ ?_ ?_
      · simp [ha.1, hb.2.1, add_comm]
      · intro j; simp only [hb.2.2 j, ha.2 j]; ring
  | v a =>
    cases b with
    | c b =>
      refine out_mk hOK _ _ _ _ _ ha.1 ha.1 _ ?_ ?_
      · simp [ha.2.1, hb.1]
      · intro j; simp only [ha.2.2 j, hb.2 j]; ring
    | v b =>
      refine out_mk hOK _ _ _ _ _ ha.1 hb.1 _ ?_ ?_
      · simp [ha.2.1, hb.2.1]
      · intro j; simp only [ha.2.2 j, hb.2.2 j]; ring

theorem iMul_ok {t : Tape R} {n : Nat} (hOK : TapeOK t n) {a b : Item R} {Da Db : Dual R}
    (ha : Rel t n a Da) (hb : Rel t n b Db) :
    Out t n (iMul t a b) ⟨Da.val * Db.val, fun j => Da.d j * Db.val + Da.val * Db.d j⟩ := by
  cases a with
  | c a =>
    cases b with
    | c b =>
      exact ⟨hOK, Grows.refl t, by simp [ha.1, hb.1], fun j => by simp [ha.2 j, hb.2 j]⟩
    | v b =>
      refine out_mk hOK _ _ _ _ _ hb.1 hb.1 _ ?_ ?_
      · simp [ha.1, hb.2.1, mul_comm]
      · intro j; simp only [hb.2.2 j, ha.2 j, ha.1]; ring
  | v a =>
    cases b with
    | c b =>
      refine out_mk hOK _ _ _ _ _ ha.1 ha.1 _ ?_ ?_
      · simp [ha.2.1, hb.1]
      · intro j; simp only [ha.2.2 j, hb.2 j, hb.1]; ring
    | v b =>
      refine out_mk hOK _ _ _ _ _ ha.1 hb.1 _ ?_ ?_
      · simp [ha.2.1, hb.2.1]
      · intro j; simp only [ha.2.2 j, hb.2.2 j, ← ha.2.1, ← hb.2.1]; ring

theorem iNeg_ok {t : Tape R} {n : Nat} (hOK : TapeOK t n) {a : Item R} {Da : Dual R}
    (ha : Rel t n a Da) :
    Out t n (iNeg t a) ⟨-Da.val, fun j => -Da.d j⟩ := by
  cases a with
  | c a =>
    exact ⟨hOK, Grows.refl t, by simp [ha.1], fun j => by simp [ha.2 j]⟩
  | v a =>
    refine out_mk hOK _ _ _ _ _ ha.1 ha.1 _ ?_ ?_
    · simp [ha.2.1]
    · intro j; simp only [ha.2.2 j]; ring

theorem iSub_ok {t : Tape R} {n : Nat} (hOK : TapeOK t n) {a b : Item R} {Da Db : Dual R}
    (ha : Rel t n a Da) (hb : Rel t n b Db) :
    Out t n (iSub t a b) ⟨Da.val - Db.val, fun j => Da.d j - Db.d j⟩ := by
  cases a with
  | c a =>
    cases b with
    | c b =>
      exact ⟨hOK, Grows.refl t, by simp [ha.1, hb.1], fun j => by simp [ha.2 j, hb.2 j]⟩
    | v b =>
      refine out_mk hOK _ _ _ _ _ hb.1 hb.1 _ ?_ ?_
      · simp [ha.1, hb.2.1]
      · intro j; simp only [hb.2.2 j, ha.2 j]; ring
  | v a =>
    cases b with
    | c b =>
      refine out_mk hOK _ _ _ _ _ ha.1 ha.1 _ ?_ ?_
      · simp [ha.2.1, hb.1, sub_eq_add_neg]
      · intro j; simp only [ha.2.2 j, hb.2 j]; ring
    | v b =>
      -- two nodes: `nb = b * (-1)`, then `a + nb`
      have h1 : Out t n (Item.v (negV t b).1, (negV t b).2) ⟨-Db.val, fun j => -Db.d j⟩ := by
        refine out_mk hOK _ _ _ _ _ hb.1 hb.1 _ ?_ ?_
        · simp [hb.2.1]
        · intro j; simp only [hb.2.2 j]; ring
      obtain ⟨hOK1, hg1, hnb⟩ := h1
      have ha1 : Rel (negV t b).2 n (Item.v a) Da := rel_mono hg1 ha
      refine out_trans hg1 ?_
      refine out_mk hOK1 _ _ _ _ _ ha1.1 hnb.1 _ ?_ ?_
      · simp [ha.2.1, hb.2.1, sub_eq_add_neg]
      · intro j
        have := hnb.2.2 j
        simp only at this
        simp only [ha1.2.2 j, this]; ring

/-! ### the interpreter invariant -/

/-- the parameter `Var`s are the leaves `0 … n-1` holding `θ` -/
def ParamsOK (ps : List (Var R)) (θ : List R) : Prop :=
  ∀ i, ps[i]? = (θ[i]?).map (fun x => (⟨x, i⟩ : Var R))

theorem stepOp_ok {θ : List R} {ps : List (Var R)} {n : Nat} {x? : Option R} {t t' : Tape R}
    {st st' : List (Item R)} {Ds : List (Dual R)} {o : Op R}
    (hn : n = θ.length) (hps : ParamsOK ps θ) (hOK : TapeOK t n) (hst : StackRel t n st Ds)
    (ho : RingOp o) (h : stepOp ps x? st t o = some (st', t')) :
    ∃ Ds', dualStep θ x? Ds o = some Ds' ∧ TapeOK t' n ∧ Grows t t' ∧ StackRel t' n st' Ds' := by
  cases ho with
  | param i =>
    simp only [stepOp, hps i] at h
    cases hθ : θ[i]? with
    | none => simp [hθ] at h
    | some p =>
      simp only [hθ, Option.map_some, Option.some.injEq, Prod.mk.injEq] at h
      obtain ⟨rfl, rfl⟩ := h
      have hi : i < n := by
        rw [hn]
        exact (List.getElem?_eq_some_iff.mp hθ).1
      refine ⟨⟨p, fun j => if j = i then 1 else 0⟩ :: Ds, by simp [dualStep, hθ], hOK,
        Grows.refl _, stackRel_cons ?_ hst⟩
      exact ⟨Nat.lt_of_lt_of_le hi hOK.le, rfl, fun j => tan_leaf t n j i hi⟩
  | const c =>
    simp only [stepOp, Option.some.injEq, Prod.mk.injEq] at h
    obtain ⟨rfl, rfl⟩ := h
    exact ⟨_, rfl, hOK, Grows.refl _, stackRel_cons ⟨rfl, fun _ => rfl⟩ hst⟩
  | x =>
    cases x? with
    | none => simp [stepOp] at h
    | some x =>
      simp only [stepOp, Option.some.injEq, Prod.mk.injEq] at h
      obtain ⟨rfl, rfl⟩ := h
      exact ⟨_, rfl, hOK, Grows.refl _, stackRel_cons ⟨rfl, fun _ => rfl⟩ hst⟩
  | add =>
    rcases st with _ | ⟨b, _ | ⟨a, st0⟩⟩
    · simp [stepOp] at h
    · simp [stepOp] at h
    rcases Ds with _ | ⟨Db, _ | ⟨Da, Ds0⟩⟩
    · simp [StackRel] at hst
    · simp [StackRel] at hst
    simp only [StackRel] at hst
    obtain ⟨hb, ha, hrest⟩ := hst
    obtain ⟨h1, h2, h3⟩ := iAdd_ok hOK ha hb
    simp only [stepOp] at h
    generalize iAdd t a b = p at h h1 h2 h3
    obtain ⟨r, t1⟩ := p
    simp only [Option.some.injEq, Prod.mk.injEq] at h
    obtain ⟨rfl, rfl⟩ := h
    exact ⟨_, rfl, h1, h2, stackRel_cons h3 (stackRel_mono h2 hrest)⟩
  | sub =>
    rcases st with _ | ⟨b, _ | ⟨a, st0⟩⟩
    · simp [stepOp] at h
    · simp [stepOp] at h
    rcases Ds with _ | ⟨Db, _ | ⟨Da, Ds0⟩⟩
    · simp [StackRel] at hst
    · simp [StackRel] at hst
    simp only [StackRel] at hst
    obtain ⟨hb, ha, hrest⟩ := hst
    obtain ⟨h1, h2, h3⟩ := iSub_ok hOK ha hb
    simp only [stepOp] at h
    generalize iSub t a b = p at h h1 h2 h3
    obtain ⟨r, t1⟩ := p
    simp only [Option.some.injEq, Prod.mk.injEq] at h
    obtain ⟨rfl, rfl⟩ := h
    exact ⟨_, rfl, h1, h2, stackRel_cons h3 (stackRel_mono h2 hrest)⟩
  | mul =>
    rcases st with _ | ⟨b, _ | ⟨a, st0⟩⟩
    · simp [stepOp] at h
    · simp [stepOp] at h
    rcases Ds with _ | ⟨Db, _ | ⟨Da, Ds0⟩⟩
    · simp [StackRel] at hst
    · simp [StackRel] at hst
    simp only [StackRel] at hst
    obtain ⟨hb, ha, hrest⟩ := hst
    obtain ⟨h1, h2, h3⟩ := iMul_ok hOK ha hb
    simp only [stepOp] at h
    generalize iMul t a b = p at h h1 h2 h3
    obtain ⟨r, t1⟩ := p
    simp only [Option.some.injEq, Prod.mk.injEq] at h
    obtain ⟨rfl, rfl⟩ := h
    exact ⟨_, rfl, h1, h2, stackRel_cons h3 (stackRel_mono h2 hrest)⟩
  | neg =>
    rcases st with _ | ⟨a, st0⟩
    · simp [stepOp] at h
    rcases Ds with _ | ⟨Da, Ds0⟩
    · simp [StackRel] at hst
    simp only [StackRel] at hst
    obtain ⟨ha, hrest⟩ := hst
    obtain ⟨h1, h2, h3⟩ := iNeg_ok hOK ha
    simp only [stepOp] at h
    generalize iNeg t a = p at h h1 h2 h3
    obtain ⟨r, t1⟩ := p
    simp only [Option.some.injEq, Prod.mk.injEq] at h
    obtain ⟨rfl, rfl⟩ := h
    exact ⟨_, rfl, h1, h2, stackRel_cons h3 (stackRel_mono h2 hrest)⟩

theorem runOps_ok {θ : List R} {ps : List (Var R)} {n : Nat} {x? : Option R}
    (hn : n = θ.length) (hps : ParamsOK ps θ) :
    ∀ (prog : List (Op R)) {t t' : Tape R} {st st' : List (Item R)} {Ds : List (Dual R)},
      (∀ o ∈ prog, RingOp o) → TapeOK t n → StackRel t n st Ds →
      runOps ps x? prog st t = some (st', t') →
      ∃ Ds', dualRun θ x? prog Ds = some Ds' ∧ TapeOK t' n ∧ StackRel t' n st' Ds'
  | [], t, t', st, st', Ds, _, hOK, hst, h => by
    simp only [runOps, Option.some.injEq, Prod.mk.injEq] at h
    obtain ⟨rfl, rfl⟩ := h
    exact ⟨Ds, rfl, hOK, hst⟩
  | o :: os, t, t', st, st', Ds, hp, hOK, hst, h => by
    simp only [runOps] at h
    cases hs : stepOp ps x? st t o with
    | none => simp [hs] at h
    | some q =>
      obtain ⟨st1, t1⟩ := q
      simp only [hs] at h
      obtain ⟨Ds1, hd1, hOK1, _, hst1⟩ :=
        stepOp_ok hn hps hOK hst (hp o (List.mem_cons_self ..)) hs
      obtain ⟨Ds', hd', hOK', hst'⟩ :=
        runOps_ok hn hps os (fun o ho => hp o (List.mem_cons_of_mem _ ho)) hOK1 hst1 h
      exact ⟨Ds', by simp only [dualRun, hd1]; exact hd', hOK', hst'⟩

/-! ### the parameter leaves -/

def AllLeaf (t : Tape R) : Prop := ∀ i (h : i < t.size), t[i].w0 = 0 ∧ t[i].w1 = 0

theorem addVars_spec (xs : List R) : ∀ (t : Tape R), AllLeaf t →
    AllLeaf (addVars t xs).2 ∧ (addVars t xs).2.size = t.size + xs.length ∧
      ∀ i, (addVars t xs).1[i]? = (xs[i]?).map (fun x => (⟨x, t.size + i⟩ : Var R)) := by
  induction xs with
  | nil => intro t ht; exact ⟨ht, rfl, fun i => by simp [addVars]⟩
  | cons x xs ih =>
    intro t ht
    have ht1 : AllLeaf (t.push ⟨0, 0, t.size, t.size⟩) := by
      intro i hi
      by_cases hi' : i < t.size
      · rw [Array.getElem_push_lt hi']; exact ht i hi'
      · have : i = t.size := by simp at hi; omega
        subst this; simp
    obtain ⟨h1, h2, h3⟩ := ih _ ht1
    have e : addVars t (x :: xs) =
        (⟨x, t.size⟩ :: (addVars (t.push ⟨0, 0, t.size, t.size⟩) xs).1,
          (addVars (t.push ⟨0, 0, t.size, t.size⟩) xs).2) := rfl
    rw [e]
    refine ⟨h1, ?_, ?_⟩
    · rw [h2]; simp; omega
    · intro i
      cases i with
      | zero => simp
      | succ i =>
        simp only [List.getElem?_cons_succ, h3 i, Array.size_push]
        have : t.size + 1 + i = t.size + (i + 1) := by omega
        rw [this]

/-! ### the headline theorems -/

theorem evalProg_ok (prog : List (Op R)) (θ : List R) (x? : Option R)
    (hp : ∀ o ∈ prog, RingOp o) (r : Var R) (t' : Tape R)
    (h : evalProg prog (addVars (#[] : Tape R) θ).1 x? (addVars (#[] : Tape R) θ).2 = some (r, t')) :
    ∃ D, dualEval prog θ x? = some D ∧ r.val = D.val ∧
      wrt (grad t' r) (addVars (#[] : Tape R) θ).1 = (List.range θ.length).map D.d := by
  obtain ⟨hleaf, hsize, hps⟩ := addVars_spec θ (#[] : Tape R) (fun i hi => by simp at hi)
  generalize (addVars (#[] : Tape R) θ).1 = ps at h hps ⊢
  generalize (addVars (#[] : Tape R) θ).2 = t at h hleaf hsize
  have hsize' : t.size = θ.length := by simpa using hsize
  have hps' : ParamsOK ps θ := fun i => by simpa using hps i
  have hOK : TapeOK t θ.length :=
    ⟨by omega, fun i hi _ => hleaf i hi, fun i hi hn => by omega⟩
  unfold evalProg at h
  split at h
  next st1 r1 t1 hrun =>
    simp only [Option.some.injEq, Prod.mk.injEq] at h
    obtain ⟨rfl, rfl⟩ := h
    obtain ⟨Ds', hd, hOK', hst'⟩ :=
      runOps_ok (x? := x?) rfl hps' prog hp hOK (show StackRel t θ.length [] [] from trivial) hrun
    rcases Ds' with _ | ⟨D, _ | ⟨D2, Ds2⟩⟩
    · simp [StackRel] at hst'
    · simp only [StackRel, and_true] at hst'
      obtain ⟨hloc, hval, htan⟩ := hst'
      refine ⟨D, by simp [dualEval, hd], hval.symm, ?_⟩
      apply List.ext_getElem?
      intro i
      simp only [wrt, List.getElem?_map, hps' i]
      by_cases hi : i < θ.length
      · rw [List.getElem?_range hi, List.getElem?_eq_getElem hi]
        simp only [Option.map_some]
        rw [sweep_correct hOK' r1 hloc i hi, htan i]
      · have h1 : θ[i]? = none := List.getElem?_eq_none (by omega)
        have h2 : (List.range θ.length)[i]? = none := List.getElem?_eq_none (by simp; omega)
        rw [h1, h2]; rfl
    · simp [StackRel] at hst'
  next => exact absurd h (by simp)

/-- **Value and gradient**: whenever the model returns `(v, g)` on a ring-fragment program, `v` is
the program's value and `g` is the list of its formal partial derivatives w.r.t. `θ₀ … θₙ₋₁`. -/
theorem valGradAt_ring_correct (prog : List (Op R)) (θ : List R) (x? : Option R)
    (hp : ∀ o ∈ prog, RingOp o) (v : R) (g : List R) (h : valGradAt prog θ x? = some (v, g)) :
    ∃ D, dualEval prog θ x? = some D ∧ v = D.val ∧ g = (List.range θ.length).map D.d := by
  unfold valGradAt at h
  simp only at h
  split at h
  · exact absurd h (by simp)
  next r t' he =>
    simp only [Option.some.injEq, Prod.mk.injEq] at h
    obtain ⟨rfl, rfl⟩ := h
    exact evalProg_ok prog θ x? hp r t' he

/-- **Headline**: over any commutative ring, on programs of the ring fragment the reverse sweep
returns the formal partial derivatives. -/
theorem gradAt_ring_correct (prog : List (Op R)) (θ : List R)
    (hp : ∀ o ∈ prog, RingOp o) (g : List R) (h : gradAt prog θ = some g) :
    ∃ D, dualEval prog θ none = some D ∧ g = (List.range θ.length).map D.d := by
  unfold gradAt at h
  simp only at h
  split at h
  · exact absurd h (by simp)
  next r t' he =>
    simp only [Option.some.injEq] at h
    obtain rfl := h
    obtain ⟨D, h1, _, h3⟩ := evalProg_ok prog θ none hp r t' he
    exact ⟨D, h1, h3⟩

/-! ### non-vacuity: `p0 * p1 + p0` at `θ = (2, 3)` over `ℤ` -/
section nonvacuity

/-- uninterpreted extra structure required by the model's signatures (never used on the fragment) -/
local instance : Cv.Transc ℤ := ⟨id, id, id, fun a _ => a, id, id, id, id, id, id⟩

/-- `p0 * p1 + p0` -/
def exProg : List (Op ℤ) := [.param 0, .param 1, .mul, .param 0, .add]

theorem exProg_ring : ∀ o ∈ exProg, RingOp o := by
  intro o ho
  simp only [exProg, List.mem_cons, List.not_mem_nil, or_false] at ho
  rcases ho with rfl | rfl | rfl | rfl | rfl <;> constructor

/-- the model (with the instances of the commutative ring `ℤ`) returns `(∂/∂p0, ∂/∂p1) = (4, 2)` -/
example : gradAt exProg [2, 3] = some [4, 2] := by decide

example : valGradAt exProg [2, 3] none = some (8, [4, 2]) := by decide

/-- … and the theorem applies to it -/
example : ∃ D, dualEval exProg [2, 3] none = some D ∧ [4, 2] = (List.range 2).map D.d :=
  gradAt_ring_correct exProg [2, 3] exProg_ring [4, 2] (by decide)

end nonvacuity

end Cv.AD
