import Compute.Model.Mat
import Compute.Model.Scalar
import Compute.Model.Shape
/-
Model of `src/linalg/rotations.rs`: the six 3×3 rotation matrices, first as a function of the two
numbers `c = cos(angle)`, `s = sin(angle)` (what the theorems are about: any commutative ring with
`c² + s² = 1`), then with `c, s` taken from `Transc`.  No Mathlib imports.
-/
namespace Cv
namespace Rot
variable {α : Type}

inductive Axis where
  | X | Y | Z
deriving Repr, DecidableEq

section
variable [Zero α] [One α] [Neg α]

/-- The array literal of `rotation_matrix_cw` for the given axis. -/
def cwData (c s : α) : Axis → List α
  | .X => [1, 0, 0,
           0, c, s,
           0, -s, c]
  | .Y => [c, 0, -s,
           0, 1, 0,
           s, 0, c]
  | .Z => [c, s, 0,
           -s, c, 0,
           0, 0, 1]

/-- The array literal of `rotation_matrix_ccw`. -/
def ccwData (c s : α) : Axis → List α
  | .X => [1, 0, 0,
           0, c, -s,
           0, s, c]
  | .Y => [c, 0, s,
           0, 1, 0,
           -s, 0, c]
  | .Z => [c, -s, 0,
           s, c, 0,
           0, 0, 1]

/-- `Matrix::new(data, 3, 3)`. -/
def cwCS (c s : α) (ax : Axis) : Option (Mat α) := Shape.mnew (cwData c s ax) 3 3
def ccwCS (c s : α) (ax : Axis) : Option (Mat α) := Shape.mnew (ccwData c s ax) 3 3

/-- `rotation_matrix_cw(angle, axis)`. -/
def rotationMatrixCw [Transc α] (angle : α) (ax : Axis) : Option (Mat α) :=
  cwCS (Transc.cos angle) (Transc.sin angle) ax

/-- `rotation_matrix_ccw(angle, axis)`. -/
def rotationMatrixCcw [Transc α] (angle : α) (ax : Axis) : Option (Mat α) :=
  ccwCS (Transc.cos angle) (Transc.sin angle) ax

end
end Rot
end Cv
