"""C15 — shape operations and constructors preserve data and the matrix invariant.

Sessions: every program starts with `load`; each further line applies one public structural operation to
the current matrix (or queries it) on both executors.  The oracle replays the same session on a plain
list-of-rows reference model written independently of the Lean model and decides the property on the
implementation's replies."""
import math
from fractions import Fraction

from .common import Failure, f2h, h2f, parse_reply, vec

ID = "C15"
BIN = "c15"
PROOF_MODULES = ["Compute.Props.C15", "Compute.Props.C15Extra", "Compute.Props.C15Review"]
REQUIRED_THEOREMS = [
    "Cv.C15.applyOp_wf", "Cv.C15.wf_preserved", "Cv.C15.wf_preserved_keep",
    "Cv.C15.reshape_keeps_data", "Cv.C15.reshape_isSome_iff", "Cv.C15.reshape_rejects",
    "Cv.C15.rows_t", "Cv.C15.rows_hcat", "Cv.C15.rows_vcat", "Cv.C15.rows_hrepeat", "Cv.C15.rows_vrepeat",
    "Cv.C15.rows_reshape", "Cv.C15.getRow_spec", "Cv.C15.getCol_spec", "Cv.C15.applyRow_spec", "Cv.C15.applyCol_spec",
    "Cv.C15.get2_spec", "Cv.C15.flatIdx_spec", "Cv.C15.diag_spec",
    "Cv.C15.eye_entry", "Cv.C15.diagMatrix_entry", "Cv.C15.toeplitz_entry", "Cv.C15.vandermonde_entry", "Cv.C15.design_entry",
    "Cv.C15.linspace_spec", "Cv.C15.linspace_one", "Cv.C15.arange_spec",
    "Cv.C15.rot_orthogonal", "Cv.C15.rot_det", "Cv.C15.rot_cw_eq_ccw_transpose",
    "Cv.C15.isSymmetric_iff", "Cv.C15.isUpperTriangular_iff", "Cv.C15.isLowerTriangular_iff", "Cv.C15.isDesign_spec",
    "Cv.C15.vecCloseTo_iff", "Cv.C15.vecCloseTo_never_opposite_sign", "Cv.C15.vecEq_iff", "Cv.C15.vecEq_opposite_sign",
    "Cv.C15.transposeData_spec", "Cv.C15.colToRowMajor_spec", "Cv.C15.isSymmetricU_spec", "Cv.C15.diagU_spec",
    "Cv.C15.Legacy.F24_breaks_invariant", "Cv.C15.Legacy.F25_wrong_diagonal", "Cv.C15.Legacy.F38_panics_on_tall",
    # coverage extension (Props/C15Extra.lean)
    "Cv.C15.size_eq_length", "Cv.C15.size_after_run", "Cv.C15.vecZeros_spec", "Cv.C15.vecOnes_spec", "Cv.C15.vecEmptyN_length",
    "Cv.C15.withShape_spec", "Cv.C15.withShapeFill_spec", "Cv.C15.withCapacity_spec", "Cv.C15.dataMutSet_spec",
    "Cv.C15.sumRows_length", "Cv.C15.sumCols_length", "Cv.C15.sumRows_get", "Cv.C15.sumCols_get", "Cv.C15.sumRows_sum",
    "Cv.C15.sumCols_sum", "Cv.C15.stableSort_eq_insertionSort", "Cv.C15.vecSort_spec", "Cv.C15.vecSort_linearOrder",
    "Cv.C15.vecSort_none_iff", "Cv.C15.vecSort_short", "Cv.C15.applyOpX_wf", "Cv.C15.wf_preserved_X", "Cv.C15.wf_preserved_keep_X",
    # after the independent review: the square predicates, the Matrix-level comparisons, agreement of the hand models
    # that C11 / C13 carry of the same Rust functions (Props/C15Review.lean)
    "Cv.C15.isSquare_iff", "Cv.C15.isSquareLen_iff", "Cv.C15.closeTo_iff", "Cv.C15.matEq_iff",
    "Cv.C15.closeTo_never_opposite_sign", "Cv.C15.toeplitz_models_agree", "Cv.C15.isSquare_models_agree",
    "Cv.C15.isUpperTriangular_models_agree", "Cv.C15.rot_three_five_instance",
]
RULE = ("random sessions of 1..40 operations (19 structural state-changing kinds + 6 of the coverage extension, 16 query "
        "kinds) on matrices loaded with 1..8 rows/columns (non-square included, occasional zero dimensions) and grown up to "
        "33x40, reply = shape + data bits after every operation; directed strata (block-size boundaries, nearly symmetric "
        "squares, near-grid arange stops, tolerance boundaries +-1 ulp, opposite-sign pairs over the whole exponent range, "
        "scalar magnitudes 2^-1074..2^1023 for angles / end points / steps / tolerances); constructors over sizes 1..64; "
        "non-trivial = distinct (operation, result shape / argument size, outcome class)")
EXHAUSTIVE = {"quick": False, "thorough": False}
NOT_PROVED = [
    "READING of `never equate values of opposite sign`: proved literally for close_to (Vector and Matrix: "
    "vecCloseTo_never_opposite_sign, closeTo_never_opposite_sign, any tolerance, any magnitude). It is FALSE read literally "
    "for the absolute-epsilon PartialEq of Vector / Matrix, whose definition |a - b| <= f64::EPSILON equates 1e-17 and -1e-17 "
    "(witness `veq [1e-17] [-1e-17]` -> true, also a kernel-checked example over Q in Props/C15Review); what is proved "
    "for PartialEq is its definition (vecEq_iff, matEq_iff) and that opposite-signed values are equated ONLY when both lie "
    "within epsilon of zero (vecEq_opposite_sign); the oracle demands the definition",
    "IEEE rounding of the grid constructors (linspace/arange end points, vandermonde powers) and of sum_rows / sum_cols: "
    "theorems are over fields / monoids; the float results are judged by the oracle against exact rational references",
    "arange for a non-positive step (descending grids) is tied and checked by the oracle only; arange_spec assumes step > 0",
    "slice-level is_square uses an f32 square root; modelled by Nat.sqrt (valid for len < 2^24), tied by "
    "correspondence on every length 0..4200 in the thorough tier",
    "sin/cos of the rotation constructors are libm values: orthogonality and det = 1 are proved from c^2+s^2=1, "
    "the float residual is bounded by the oracle (<= 400 eps, observed 0.68 eps) and every entry is compared with sin/cos of "
    "the angle to 4 ulp at every magnitude",
    "reads outside data on a matrix that violates data.len() = nrows*ncols (public fields set by hand, push / truncate through "
    "data_mut) are not modelled",
    "Matrix::with_capacity(r, c) panics for every r*c > 0 (it hands an empty vector to Matrix::new): modelled and proved "
    "(withCapacity_spec); judged consistent with the invariant, reported to the lead as an API observation",
]
TRUSTED = [
    "element values are never recomputed by structural operations (bit patterns compared), except the affine map "
    "x*k+b used as the closure of apply_along_row/col (two IEEE operations per entry)",
    "HAND-MODELLED, NOT SOURCE-TIED (Model/Shape.lean, Model/ShapeExtra.lean; tied to the Rust text only at run time by the "
    "bit-exact stateful correspondence and the list-of-rows oracle): Matrix::new, reshape, reshape_mut, t, t_mut, hcat, vcat, "
    "hrepeat, vrepeat, apply_along_row, apply_along_col, get_row_as_vector, get_col_as_vector, flat_idx, flat_idx_replace, "
    "Index / IndexMut ([i], [[i,j]]), Matrix::diag, to_vec, is_square, is_symmetric, is_upper_triangular, is_lower_triangular, "
    "close_to, PartialEq (Matrix and Vector), Vector::close_to, to_matrix, Vector::reshape, zeros, ones, shape, size, with_shape, "
    "with_capacity, data_mut, sum_rows, sum_cols, Vector::{new, empty, empty_n, zeros, ones, with_capacity, sort}, "
    "utils::{design, is_design, is_matrix, is_square, is_symmetric} and approx_eq::rel_diff. The translator-generated source "
    "tie (Generated/SrcC15Mut.lean) covers only linspace, arange, diag (slice), vandermonde, transpose, row_to_col_major, "
    "col_to_row_major, diag_matrix, toeplitz, eye and the rotation matrices",
    "Rust slice::sort_by is a stable comparison sort that compares every element of a slice of length >= 2 at least once "
    "(so a NaN always reaches partial_cmp(..).unwrap())",
]
ASSUMPTIONS = [
    "matrix sizes < 2^31 (i32 casts in Matrix::new / reshape are then exact)",
    "matrices with a zero dimension are outside the quantifier of the property (1..8 rows/columns): the session "
    "oracle checks only the element-count invariant there (exact expectations for the coverage-extension operations); model "
    "and implementation are still compared bit for bit",
]

EPS = 2.0 ** -52
MAXSIZE = 400


# ------------------------------------------------------------------------------------------ reference model
class Ref:
    """Plain row-major list-of-rows matrix (shape kept explicitly so that zero dimensions are representable)."""

    def __init__(self, rows, r, c):
        self.rows, self.r, self.c = rows, r, c

    @staticmethod
    def from_flat(d, r, c):
        return Ref([list(d[i * c:(i + 1) * c]) for i in range(r)], r, c)

    def flat(self):
        return [x for row in self.rows for x in row]

    def zero_dim(self):
        return self.r == 0 or self.c == 0


PANIC = "panic"
UNSPEC = "unspecified"


def infer_shape(n, nr, nc):
    """NumPy-style target shape for `n` elements; None = impossible (must be rejected)."""
    if nr >= 0 and nc >= 0:
        return (nr, nc) if nr * nc == n else None
    if nr == -1 and nc > 0:
        return (n // nc, nc) if n % nc == 0 else None
    if nc == -1 and nr > 0:
        return (nr, n // nr) if n % nr == 0 else None
    return None


def ref_new(d, nr, nc):
    s = infer_shape(len(d), nr, nc)
    if s is None:
        return PANIC
    return Ref.from_flat(d, s[0], s[1])


def affine(x, k, b):
    return x * k + b


def ref_apply(m, t):
    """Expected effect of the state-changing request `t` (tokens) on reference matrix `m`:
    a Ref, PANIC, or UNSPEC (zero-dimension corner outside the property's quantifier)."""
    op = t[0]
    if op in ("load", "vreshape"):
        d = [h2f(x) for x in t[4:]]
        return ref_new(d, int(t[1]), int(t[2]))
    if op in XSTATE_OPS:
        return ref_apply_x(m, t)
    if m.zero_dim() and op not in ("load", "vreshape"):
        return UNSPEC
    if op in ("reshape", "reshape_mut"):
        return ref_new(m.flat(), int(t[1]), int(t[2]))
    if op in ("t", "t_mut", "r2c", "c2r"):
        return Ref([[m.rows[i][j] for i in range(m.r)] for j in range(m.c)], m.c, m.r)
    if op in ("hcat", "vcat"):
        o = ref_new([h2f(x) for x in t[4:]], int(t[1]), int(t[2]))
        if o == PANIC:
            return PANIC
        if o.zero_dim():
            return UNSPEC
        if op == "hcat":
            if o.r != m.r:
                return PANIC
            return Ref([a + b for a, b in zip(m.rows, o.rows)], m.r, m.c + o.c)
        if o.c != m.c:
            return PANIC
        return Ref([list(x) for x in m.rows] + [list(x) for x in o.rows], m.r + o.r, m.c)
    if op == "hrepeat":
        n = int(t[1])
        if n == 0:
            return UNSPEC
        return Ref([row * n for row in m.rows], m.r, m.c * n)
    if op == "vrepeat":
        n = int(t[1])
        if n == 0:
            return UNSPEC
        return Ref([list(row) for _ in range(n) for row in m.rows], m.r * n, m.c)
    if op == "arow":
        i, k, b = int(t[1]), h2f(t[2]), h2f(t[3])
        if i >= m.r:
            return PANIC
        rows = [list(x) for x in m.rows]
        rows[i] = [affine(x, k, b) for x in rows[i]]
        return Ref(rows, m.r, m.c)
    if op == "acol":
        j, k, b = int(t[1]), h2f(t[2]), h2f(t[3])
        if j >= m.c:
            return PANIC
        rows = [list(x) for x in m.rows]
        for row in rows:
            row[j] = affine(row[j], k, b)
        return Ref(rows, m.r, m.c)
    if op == "fset":
        k, v = int(t[1]), h2f(t[2])
        if k >= m.r * m.c:
            return PANIC
        rows = [list(x) for x in m.rows]
        rows[k // m.c][k % m.c] = v
        return Ref(rows, m.r, m.c)
    if op == "set2":
        i, j, v = int(t[1]), int(t[2]), h2f(t[3])
        if i >= m.r or j >= m.c:
            return PANIC
        rows = [list(x) for x in m.rows]
        rows[i][j] = v
        return Ref(rows, m.r, m.c)
    if op == "tovec_tomat":
        return Ref([m.flat()], 1, m.r * m.c)
    if op == "rowmat":
        i = int(t[1])
        if i >= m.r:
            return PANIC
        return Ref([list(m.rows[i])], 1, m.c)
    if op == "colmat":
        j = int(t[1])
        if j >= m.c:
            return PANIC
        return Ref([[row[j] for row in m.rows]], 1, m.r)
    if op == "diagmat":
        n = min(m.r, m.c)
        return Ref([[m.rows[i][i] for i in range(n)]], 1, n)
    raise KeyError(op)


def is_nan(x):
    return x != x


def stable_sorted(d):
    """Reference sort: Python's sort is stable and compares with `<` only, so -0.0 / 0.0 keep their input order."""
    return sorted(d)


def sort_expect(d):
    """Vector::sort: a NaN in a slice of length >= 2 makes `partial_cmp(..).unwrap()` panic."""
    if len(d) >= 2 and any(is_nan(x) for x in d):
        return PANIC
    return stable_sorted(d)


def ref_apply_x(m, t):
    """Coverage extension (sort through data_mut, element write through data_mut, with_shape, with_capacity,
    row / column sums as a new matrix).  Defined for zero dimensions as well."""
    op = t[0]
    if op == "sort_data":
        e = sort_expect(m.flat())
        return PANIC if e == PANIC else Ref.from_flat(e, m.r, m.c)
    if op == "dmset":
        k, v = int(t[1]), h2f(t[2])
        if k >= m.r * m.c:
            return PANIC
        d = m.flat()
        d[k] = v
        return Ref.from_flat(d, m.r, m.c)
    if op == "with_shape_fill":
        r, c, v = int(t[1]), int(t[2]), h2f(t[3])
        return Ref.from_flat([v] * (r * c), r, c)
    if op == "with_capacity":
        r, c = int(t[1]), int(t[2])
        # an "empty matrix with capacity r*c" can satisfy the invariant only with r*c = 0
        return Ref.from_flat([], r, c) if r * c == 0 else PANIC
    if op == "sumrows_mat":     # approximate (plain left-to-right float sums): used by the generator only
        return Ref([[sum(row, 0.0) for row in m.rows]], 1, m.r)
    if op == "sumcols_mat":
        return Ref([[sum((row[j] for row in m.rows), 0.0) for j in range(m.c)]], 1, m.c)
    raise KeyError(op)


SUM_C = 32.0           # |sum - exact| <= SUM_C * n * eps * sum|a_i|   (observed max ratio 0.30 over seeds 1..5; theory <= 1)


def check_sum(vals, got, what):
    """One row/column sum against the exact rational sum."""
    n = len(vals)
    if any(is_nan(x) for x in vals):
        return None if is_nan(got) else "%s of values containing NaN is %r, expected NaN" % (what, got)
    pinf, ninf = any(x == math.inf for x in vals), any(x == -math.inf for x in vals)
    if pinf or ninf:
        if any(abs(x) > 1e300 and abs(x) != math.inf for x in vals):
            return None
        if pinf and ninf:
            return None if is_nan(got) else "%s of +inf and -inf is %r, expected NaN" % (what, got)
        e = math.inf if pinf else -math.inf
        return None if got == e else "%s is %r, expected %r" % (what, got, e)
    sabs = sum(Fraction(abs(x)) for x in vals)
    if sabs > Fraction(10) ** 300:
        return None          # intermediate overflow possible: not judged
    if is_nan(got) or abs(got) == math.inf:
        return "%s of finite values is %r" % (what, got)
    ex = sum(Fraction(x) for x in vals)
    err = abs(Fraction(got) - ex)
    if sabs == 0:
        return None if got == 0 else "%s of zeros is %r" % (what, got)
    ratio = err / (max(n, 1) * Fraction(EPS) * sabs)
    OBS["sum"] = max(OBS["sum"], float(ratio))
    if ratio > SUM_C:
        return "%s = %r differs from the exact sum %.17g by %.3g (bound %g n eps sum|a|)" % (what, got, float(ex), float(err), SUM_C)
    return None


def check_sums(m, axis, toks):
    """`toks` = `len v1 ... vlen` reply of sum_rows (axis 0) / sum_cols (axis 1) for reference matrix m."""
    want = m.r if axis == 0 else m.c
    if int(toks[0]) != want or len(toks) != 1 + want:
        return "%s has %s entries, expected %d" % ("sum_rows" if axis == 0 else "sum_cols", toks[0], want)
    for k in range(want):
        vals = m.rows[k] if axis == 0 else [row[k] for row in m.rows]
        msg = check_sum(vals, h2f(toks[1 + k]), "%s[%d]" % ("sum_rows" if axis == 0 else "sum_cols", k))
        if msg:
            return msg
    return None


def check_sorted(d, toks):
    """Exact permutation + sortedness + stability of a sort reply `len v1 ...` for input d (no panic expected)."""
    out = toks[1:]
    if int(toks[0]) != len(d) or len(out) != len(d):
        return "sorted vector has %s entries, expected %d" % (toks[0], len(d))
    if sorted(out) != sorted(f2h(x) for x in d):
        return "sorted vector is not a permutation of the input (as bit patterns)"
    v = [h2f(x) for x in out]
    for a, b in zip(v, v[1:]):
        if not (a <= b):
            return "sorted vector is not non-decreasing: %r before %r" % (a, b)
    if out != [f2h(x) for x in stable_sorted(d)]:
        return "sort is not stable (equal keys -0.0 / 0.0 reordered)"
    return None


XSTATE_OPS = {"sort_data", "dmset", "with_shape_fill", "with_capacity", "sumrows_mat", "sumcols_mat"}
XQUERY_OPS = {"shape", "size", "sum_rows", "sum_cols"}
XSTATELESS_OPS = {"vnew", "vempty", "vzeros", "vones", "vwith_capacity", "vempty_n", "vsort", "with_shape"}
STATE_OPS = {"load", "vreshape", "reshape", "reshape_mut", "t", "t_mut", "hcat", "vcat", "hrepeat", "vrepeat",
             "arow", "acol", "fset", "set2", "tovec_tomat", "rowmat", "colmat", "diagmat", "r2c", "c2r"}
QUERY_OPS = {"row", "col", "fidx", "get2", "diag", "tovec", "is_sq", "is_sym", "is_up", "is_lo", "close", "eq"}


def finite(xs):
    return all(x == x and abs(x) != math.inf for x in xs)


def rel_diff(x, y):
    if x == 0:
        return abs(y)
    if y == 0:
        return abs(x)
    ax, ay = abs(x), abs(y)
    return abs(ax - ay) / min(ax, ay)


def close_def(a, b, tol):
    """Definition of `close_to` on two equally long lists; returns (verdict, opposite_sign_pair_present)."""
    opp = any((x < 0 < y) or (y < 0 < x) for x, y in zip(a, b))
    if opp:
        return False, True
    return all(not (rel_diff(x, y) > tol) for x, y in zip(a, b)), False


def eq_def(a, b):
    return all(not (abs(x - y) > EPS) for x, y in zip(a, b))


def ref_query(m, t):
    """Expected reply tokens of a query (list of str), PANIC or UNSPEC."""
    op = t[0]
    if m.zero_dim():
        return UNSPEC
    if op == "row":
        i = int(t[1])
        return PANIC if i >= m.r else vec(m.rows[i]).split()
    if op == "col":
        j = int(t[1])
        return PANIC if j >= m.c else vec([row[j] for row in m.rows]).split()
    if op == "fidx":
        k = int(t[1])
        return PANIC if k >= m.r * m.c else [f2h(m.flat()[k])]
    if op == "get2":
        i, j = int(t[1]), int(t[2])
        return PANIC if (i >= m.r or j >= m.c) else [f2h(m.rows[i][j])]
    if op == "diag":
        return vec([m.rows[i][i] for i in range(min(m.r, m.c))]).split()
    if op == "tovec":
        return vec(m.flat()).split()
    if op == "is_sq":
        return ["1" if m.r == m.c else "0"]
    if op == "is_sym":
        if m.r != m.c:
            return ["0"]
        ok = all(not (abs(m.rows[i][j] - m.rows[j][i]) > EPS) for i in range(m.r) for j in range(m.c))
        return ["1" if ok else "0"]
    if op == "is_up":
        ok = all(m.rows[i][j] == 0 for i in range(m.r) for j in range(m.c) if i > j)
        return ["1" if ok else "0"]
    if op == "is_lo":
        ok = all(m.rows[i][j] == 0 for i in range(m.r) for j in range(m.c) if i < j)
        return ["1" if ok else "0"]
    if op in ("close", "eq"):
        n = int(t[3])
        o = ref_new([h2f(x) for x in t[4:4 + n]], int(t[1]), int(t[2]))
        if o == PANIC:
            return PANIC
        if (o.r, o.c) != (m.r, m.c):
            return ["0"]
        if op == "eq":
            return ["1" if eq_def(m.flat(), o.flat()) else "0"]
        tol = h2f(t[4 + n])
        return ["1" if close_def(m.flat(), o.flat(), tol)[0] else "0"]
    raise KeyError(op)


# ------------------------------------------------------------------------------------------ stateless references
def isqrt_exact(n):
    s = math.isqrt(n)
    return s if s * s == n else None


def chunks(d, c, r):
    return [list(d[i * c:(i + 1) * c]) for i in range(r)]


def ref_stateless(t):
    """-> ('exact', tokens) | ('panic',) | ('unspec',) | ('custom', fn(tokens)->msg|None)"""
    op = t[0]
    if op in ("vclose", "veq"):
        n = int(t[1])
        a = [h2f(x) for x in t[2:2 + n]]
        k = int(t[2 + n])
        b = [h2f(x) for x in t[3 + n:3 + n + k]]
        if n != k:
            return ("exact", ["0"])
        if op == "veq":
            return ("exact", ["1" if eq_def(a, b) else "0"])
        tol = h2f(t[3 + n + k])
        return ("exact", ["1" if close_def(a, b, tol)[0] else "0"])
    if op in ("zeros", "ones"):
        r, c = int(t[1]), int(t[2])
        if r == 0 or c == 0:
            return ("unspec",)
        return ("exact", [str(r), str(c)] + [f2h(0.0 if op == "zeros" else 1.0)] * (r * c))
    if op == "eye":
        d = int(t[1])
        if d == 0:
            return ("unspec",)
        return ("exact", [str(d), str(d)] + [f2h(1.0 if i == j else 0.0) for i in range(d) for j in range(d)])
    if op == "is_matrix":
        n, r = int(t[1]), int(t[2])
        if r == 0:
            return ("unspec",)
        return ("exact", ["ok", str(n // r)] if n % r == 0 else ["err"])
    if op == "is_square_u":
        s = isqrt_exact(int(t[1]))
        return ("exact", ["err"] if s is None else ["ok", str(s)])
    if op == "is_design":
        r = int(t[1])
        d = [h2f(x) for x in t[3:]]
        if r == 0 or len(d) == 0:
            return ("unspec",)
        if len(d) % r != 0:
            return ("panic",)
        c = len(d) // r
        rows = chunks(d, c, r)
        return ("exact", ["1" if all(not (abs(row[0] - 1.0) > EPS) for row in rows) else "0"])
    if op in ("is_sym_u", "diag_u"):
        d = [h2f(x) for x in t[2:]]
        n = isqrt_exact(len(d))
        if n is None:
            return ("panic",)
        rows = chunks(d, n, n)
        if op == "diag_u":
            return ("exact", vec([rows[i][i] for i in range(n)]).split())
        return ("exact", ["1" if all(not (abs(rows[i][j] - rows[j][i]) > EPS) for i in range(n) for j in range(n)) else "0"])
    if op in ("r2c_u", "transpose_u", "c2r_u"):
        r = int(t[1])
        d = [h2f(x) for x in t[3:]]
        if r == 0 or len(d) == 0:
            return ("unspec",)
        if len(d) % r != 0:
            return ("panic",)
        c = len(d) // r
        if op == "c2r_u":
            cols = chunks(d, r, c)      # column-major input: c columns of r entries
            return ("exact", vec([cols[j][i] for i in range(r) for j in range(c)]).split())
        rows = chunks(d, c, r)
        return ("exact", vec([rows[i][j] for j in range(c) for i in range(r)]).split())
    if op == "diag_matrix":
        d = [h2f(x) for x in t[2:]]
        n = len(d)
        return ("exact", vec([d[i] if i == j else 0.0 for i in range(n) for j in range(n)]).split())
    if op == "toeplitz":
        d = [h2f(x) for x in t[2:]]
        n = len(d)
        return ("exact", vec([d[abs(i - j)] for i in range(n) for j in range(n)]).split())
    if op == "design":
        r = int(t[1])
        d = [h2f(x) for x in t[3:]]
        if r == 0:
            return ("unspec",)
        if len(d) % r != 0:
            return ("panic",)
        k = len(d) // r
        return ("exact", vec([1.0 if j == 0 else d[(j - 1) * r + i] for i in range(r) for j in range(k + 1)]).split())
    if op == "vandermonde":
        n = int(t[1])
        d = [h2f(x) for x in t[3:]]
        return ("custom", lambda toks: check_vandermonde(d, n, toks))
    if op == "arange":
        a, b, s = h2f(t[1]), h2f(t[2]), h2f(t[3])
        return ("custom", lambda toks: check_arange(a, b, s, toks))
    if op == "linspace":
        a, b, n = h2f(t[1]), h2f(t[2]), int(t[3])
        if n == 0:
            return ("unspec",)
        return ("custom", lambda toks: check_linspace(a, b, n, toks))
    if op == "rot":
        return ("custom", lambda toks: check_rot(t[1], t[2], h2f(t[3]), toks))
    raise KeyError(op)


# tolerances: calibrated on seeds 1..5 (see MAX_OBS printed into the evidence coverage); each constant is
# >= 100x the largest value observed.
VDM_C = 400.0         # |powi(x,i) - x^i| <= VDM_C * (log2(i+1)+1) * eps * |x^i|  (observed max factor 2.96, seeds 1..5)
LIN_C = 400.0         # |linspace[i] - exact| <= LIN_C * eps * max(|a|,|b|)        (observed max 1.6)
ROT_C = 400.0         # |R^T R - I|, |det R - 1| <= ROT_C * eps                    (observed max 0.65)
OBS = {"vdm": 0.0, "lin": 0.0, "rot": 0.0, "sum": 0.0}


def check_vandermonde(d, n, toks):
    if int(toks[0]) != len(d) * n or len(toks) != 1 + len(d) * n:
        return "vandermonde has %s entries, expected %d" % (toks[0], len(d) * n)
    for a, x in enumerate(d):
        fx = Fraction(x)
        for i in range(n):
            got = h2f(toks[1 + a * n + i])
            if i == 0 and got != 1.0:
                return "entry (%d,0) is %r, expected 1" % (a, got)
            if i == 1 and toks[1 + a * n + i] != f2h(x) and not (x == 0):
                return "entry (%d,1) is %r, expected %r" % (a, got, x)
            ex = fx ** i
            if ex == 0:
                if got != 0.0:
                    return "entry (%d,%d) is %r, expected 0" % (a, i, got)
                continue
            if abs(ex) > Fraction(2) ** 1000 or abs(ex) < Fraction(2) ** -1000:
                continue  # overflow/underflow region: not judged
            err = abs(Fraction(got) - ex) / abs(ex) / Fraction(EPS)
            bound = VDM_C * (math.log2(i + 1) + 1)
            OBS["vdm"] = max(OBS["vdm"], float(err) / (math.log2(i + 1) + 1))
            if err > bound:
                return "entry (%d,%d) = %r differs from %r^%d by %.3g eps (bound %.3g)" % (a, i, got, x, i, float(err), bound)
    return None


def check_arange(a, b, s, toks):
    n = int(toks[0])
    if len(toks) != 1 + n:
        return "arange: length token %d but %d values" % (n, len(toks) - 1)
    if not finite([a, b, s]) or s == 0:
        return None  # non-finite arguments: outside the property (model and implementation still compared)
    q = (Fraction(b) - Fraction(a)) / Fraction(s)
    want = max(0, math.ceil(q))
    # the quotient is formed in floating point: when the exact ratio is within a few ulps of an integer the
    # count may legitimately be that integer or the next one
    near = round(q)
    slack = abs(q - near) <= 8 * Fraction(EPS) * max(1, abs(q))
    okc = (n == want) or (slack and n in (max(0, near), max(0, near) + 1))
    if not okc:
        return "arange(%r,%r,%r) has %d points, expected ceil(%.17g) = %d (half-open convention)" % (a, b, s, n, float(q), want)
    for i in range(n):
        e = f2h(a + float(i) * s)
        if toks[1 + i] != e:
            return "arange point %d is %s, expected start + i*step = %s" % (i, toks[1 + i], e)
    return None


def check_linspace(a, b, n, toks):
    if int(toks[0]) != n or len(toks) != 1 + n:
        return "linspace has %s points, expected %d" % (toks[0], n)
    vals = [h2f(x) for x in toks[1:]]
    if not finite([a, b]):
        return None
    if n == 1:
        if vals[0] != a:
            return "linspace(%r,%r,1) = [%r], expected [%r] (start point)" % (a, b, vals[0], a)
        return None
    if vals[0] != a:
        return "first point %r is not the start %r" % (vals[0], a)
    scale = max(abs(a), abs(b))
    fa, fb = Fraction(a), Fraction(b)
    for i, v in enumerate(vals):
        if v != v:
            return "point %d is NaN" % i
        ex = fa + (fb - fa) * i / (n - 1)
        err = abs(Fraction(v) - ex)
        # gradual underflow: the quotient, the product i*width and the sum each carry an absolute error of up to half
        # the smallest subnormal, the first one amplified by i <= n (only matters for end points near 1e-308 and below)
        floor = Fraction(4 * (n + 2)) * Fraction(2) ** -1074
        if scale > 0:
            OBS["lin"] = max(OBS["lin"], float(err / (Fraction(scale) * Fraction(EPS) + floor)))
        if err > Fraction(LIN_C * EPS) * Fraction(scale) + floor:
            return "point %d = %r differs from start + i*(stop-start)/(n-1) = %.17g by %.3g" % (i, v, float(ex), float(err))
    return None


def rot_pattern(dirn, ax, c, s):
    if dirn == "ccw":
        s = -s
    if ax == "x":
        return [1, 0, 0, 0, c, s, 0, -s, c]
    if ax == "y":
        return [c, 0, -s, 0, 1, 0, s, 0, c]
    return [c, s, 0, -s, c, 0, 0, 0, 1]


def check_rot(dirn, ax, ang, toks):
    if toks[:2] != ["3", "3"] or len(toks) != 11:
        return "rotation matrix is not 3x3"
    m = [h2f(x) for x in toks[2:]]
    if ang != ang or abs(ang) == math.inf:
        # sin / cos of NaN or +-inf are NaN: the constant entries must still be 0 / 1, the trigonometric ones NaN
        pat = rot_pattern(dirn, ax, 0.5, 0.25)
        for k in range(9):
            if isinstance(pat[k], int):
                if m[k] != float(pat[k]):
                    return "entry %d is %r, expected %r" % (k, m[k], float(pat[k]))
            elif m[k] == m[k]:
                return "entry %d is %r for a non-finite angle, expected NaN" % (k, m[k])
        return None
    # the six trigonometric entries are +-cos / +-sin of the angle (4 ulp of the value allowed against this libm, at
    # every magnitude: sin x = x for tiny x, exact argument reduction for huge x), the others 0/1
    pat = rot_pattern(dirn, ax, math.cos(ang), math.sin(ang))
    for k in range(9):
        e = float(pat[k])
        if isinstance(pat[k], int) or e == 0.0:
            if m[k] != e:
                return "entry %d is %r, expected %r" % (k, m[k], e)
        elif abs(m[k] - e) > 4 * math.ulp(e):
            return "entry %d is %r, expected %r (sin/cos of the angle %r)" % (k, m[k], e, ang)
    F = [Fraction(x) for x in m]
    R = [F[0:3], F[3:6], F[6:9]]
    worst = Fraction(0)
    for i in range(3):
        for j in range(3):
            g = sum(R[k][i] * R[k][j] for k in range(3)) - (1 if i == j else 0)
            worst = max(worst, abs(g))
    det = (R[0][0] * (R[1][1] * R[2][2] - R[1][2] * R[2][1]) - R[0][1] * (R[1][0] * R[2][2] - R[1][2] * R[2][0])
           + R[0][2] * (R[1][0] * R[2][1] - R[1][1] * R[2][0]))
    worst = max(worst, abs(det - 1))
    OBS["rot"] = max(OBS["rot"], float(worst / Fraction(EPS)))
    if worst > Fraction(ROT_C * EPS):
        return "rotation not orthogonal / unit determinant: residual %.3g" % float(worst)
    return None


# ------------------------------------------------------------------------------------------ oracle
def oracle_extra(fails, i, l, t, st, toks, m):
    """Clauses of the coverage extension; returns the new reference state."""
    op = t[0]

    def fail(key, msg, exp=None):
        fails.append(Failure(i, key, msg, exp))

    if op in XSTATE_OPS:
        got = None
        if st == "ok":
            r, c = int(toks[0]), int(toks[1])
            if len(toks) - 2 != r * c:
                fail("%s:wf" % op, "matrix invariant broken: %dx%d holds %d elements" % (r, c, len(toks) - 2))
                return Ref.from_flat(([h2f(x) for x in toks[2:]] + [0.0] * (r * c))[:r * c], r, c)
            got = Ref.from_flat([h2f(x) for x in toks[2:]], r, c)
        if op in ("sumrows_mat", "sumcols_mat"):
            if st == "panic":
                fail("%s:panic" % op, "valid request on a %dx%d matrix panicked" % (m.r, m.c))
                return m
            axis = 0 if op == "sumrows_mat" else 1
            want = m.r if axis == 0 else m.c
            if (got.r, got.c) != (1, want):
                fail("%s:data" % op, "result is %dx%d, expected 1x%d" % (got.r, got.c, want))
                return got
            msg = check_sums(m, axis, [str(want)] + toks[2:])
            if msg:
                fail("%s:value" % op, msg)
            return got
        if op == "with_capacity" and int(t[1]) * int(t[2]) > 0:
            # `Matrix::with_capacity(r, c)` hands an EMPTY vector to `Matrix::new(.., r, c)`: the invariant allows
            # only a panic (current behaviour) or a matrix without elements
            if st == "ok" and len(toks) != 2:
                fail("with_capacity:data", "with_capacity returned %d elements, an empty matrix was announced" % (len(toks) - 2))
            return got if got is not None else m
        exp = ref_apply_x(m, t)
        if exp == PANIC:
            if st != "panic":
                fail("%s:accepted-impossible" % op, "impossible request accepted: %s -> %s" % (l[:80], " ".join(toks)[:80]))
                return got
            return m
        if st == "panic":
            fail("%s:panic" % op, "valid request on a %dx%d matrix panicked: %s" % (m.r, m.c, l[:80]))
            return m
        if op == "sort_data":
            msg = None
            if (got.r, got.c) != (m.r, m.c):
                msg = "sort changed the shape %dx%d to %dx%d" % (m.r, m.c, got.r, got.c)
            else:
                msg = check_sorted(m.flat(), [str(m.r * m.c)] + toks[2:])
            if msg:
                fail("sort_data:data", msg)
                return got
            return exp
        etoks = [str(exp.r), str(exp.c)] + [f2h(x) for x in exp.flat()]
        if toks != etoks:
            fail("%s:data" % op, "after `%s` on a %dx%d matrix the implementation holds %s, expected %s"
                 % (" ".join(t[:4]), m.r, m.c, " ".join(toks)[:160], " ".join(etoks)[:160]), " ".join(etoks))
            return got
        return exp
    if st == "panic" and not (op == "vsort"):
        fail("%s:panic" % op, "valid request panicked: %s" % l[:100])
        return m
    if op == "shape":
        if toks != [str(m.r), str(m.c)]:
            fail("shape:value", "shape() = %s, the matrix is %dx%d" % (" ".join(toks), m.r, m.c))
    elif op == "size":
        if toks != [str(m.r * m.c)]:
            fail("size:value", "size() = %s, the matrix is %dx%d" % (" ".join(toks), m.r, m.c))
    elif op in ("sum_rows", "sum_cols"):
        msg = check_sums(m, 0 if op == "sum_rows" else 1, toks)
        if msg:
            fail("%s:value" % op, msg)
    elif op == "vnew":
        if toks != t[1:]:
            fail("vnew:value", "Vector::new changed its data")
    elif op == "vempty":
        if toks != ["0"]:
            fail("vempty:value", "Vector::empty() has %s elements" % toks[0])
    elif op in ("vzeros", "vones"):
        n = int(t[1])
        e = vec([0.0 if op == "vzeros" else 1.0] * n).split()
        if toks != e:
            fail("%s:value" % op, "%s(%d) = %s" % (op, n, " ".join(toks)[:100]))
    elif op == "vwith_capacity":
        if toks != ["0"]:
            fail("vwith_capacity:value", "Vector::with_capacity(n) has %s elements" % toks[0])
    elif op == "vempty_n":
        if toks != [t[1]]:
            fail("vempty_n:value", "Vector::empty_n(%s) has %s elements" % (t[1], toks[0]))
    elif op == "with_shape":
        r, c = int(t[1]), int(t[2])
        if toks != [str(r), str(c), str(r * c)]:
            fail("with_shape:value", "Matrix::with_shape(%d,%d) reports %s" % (r, c, " ".join(toks)))
    elif op == "vsort":
        d = [h2f(x) for x in t[2:]]
        e = sort_expect(d)
        if e == PANIC:
            if st != "panic":
                fail("vsort:accepted-impossible", "sort of a vector containing NaN returned %s" % " ".join(toks)[:100])
        elif st == "panic":
            fail("vsort:panic", "sort of a NaN-free vector panicked: %s" % l[:100])
        else:
            msg = check_sorted(d, toks)
            if msg:
                fail("vsort:value", msg)
    return m


def opclass(t):
    return t[0]


def oracle(lines, impl):
    fails = []
    m = Ref([], 0, 0)
    rot_seen = {}
    for i, (l, rep) in enumerate(zip(lines, impl)):
        t = l.split()
        if not t:
            continue
        op = t[0]
        st, toks = parse_reply(rep)
        if st == "skip":
            continue
        if st not in ("ok", "panic"):
            fails.append(Failure(i, "%s:infra" % op, "unexpected reply %r" % rep))
            continue
        if op in XSTATE_OPS or op in XQUERY_OPS or op in XSTATELESS_OPS:
            m = oracle_extra(fails, i, l, t, st, toks, m)
            continue
        if op in STATE_OPS:
            exp = ref_apply(m, t)
            # the element-count invariant is checked on every reply, whatever the expectation
            got = None
            if st == "ok":
                r, c = int(toks[0]), int(toks[1])
                if len(toks) - 2 != r * c:
                    fails.append(Failure(i, "%s:wf" % op, "matrix invariant broken: %dx%d holds %d elements" % (r, c, len(toks) - 2)))
                    m = Ref.from_flat([h2f(x) for x in toks[2:2 + r * c]] + [0.0] * max(0, r * c - len(toks) + 2), r, c)
                    continue
                got = Ref.from_flat([h2f(x) for x in toks[2:]], r, c)
            if exp == UNSPEC:
                if got is not None:
                    m = got
                continue
            if exp == PANIC:
                if st != "panic":
                    fails.append(Failure(i, "%s:accepted-impossible" % op, "impossible request accepted: %s -> %s" % (l[:80], rep[:80])))
                    m = got
                continue
            if st == "panic":
                fails.append(Failure(i, "%s:panic" % op, "valid request on a %dx%d matrix panicked: %s" % (m.r, m.c, l[:80])))
                continue
            etoks = [str(exp.r), str(exp.c)] + [f2h(x) for x in exp.flat()]
            if toks != etoks:
                fails.append(Failure(i, "%s:data" % op, "after `%s` on a %dx%d matrix the implementation holds %s, the row-major reference %s"
                                     % (" ".join(t[:3]), m.r, m.c, " ".join(toks)[:160], " ".join(etoks)[:160]), " ".join(etoks)))
                m = got
            else:
                m = exp
            continue
        if op in QUERY_OPS:
            exp = ref_query(m, t)
            if exp == UNSPEC:
                continue
            if exp == PANIC:
                if st != "panic":
                    fails.append(Failure(i, "%s:accepted-impossible" % op, "out-of-range query answered: %s -> %s" % (l[:80], rep[:80])))
                continue
            if st == "panic":
                fails.append(Failure(i, "%s:panic" % op, "valid query on a %dx%d matrix panicked: %s" % (m.r, m.c, l[:80])))
                continue
            if op == "close" and toks == ["1"]:
                n = int(t[3])
                o = [h2f(x) for x in t[4:4 + n]]
                if close_def(m.flat(), o, h2f(t[4 + n]))[1]:
                    fails.append(Failure(i, "close_to:opposite-sign", "Matrix::close_to equated values of opposite sign: %s" % l[:120], "0"))
                    continue
            if toks != exp:
                fails.append(Failure(i, "%s:value" % op, "`%s` on a %dx%d matrix answered %s, definition gives %s"
                                     % (" ".join(t[:3]), m.r, m.c, " ".join(toks)[:120], " ".join(exp)[:120]), " ".join(exp)))
            continue
        # stateless
        kind = ref_stateless(t)
        if kind[0] == "unspec":
            continue
        if kind[0] == "panic":
            if st != "panic":
                fails.append(Failure(i, "%s:accepted-impossible" % op, "impossible request accepted: %s -> %s" % (l[:80], rep[:80])))
            continue
        if st == "panic":
            fails.append(Failure(i, "%s:panic" % op, "valid request panicked: %s" % l[:120]))
            continue
        if kind[0] == "exact":
            if op == "vclose" and toks == ["1"]:
                n = int(t[1])
                a = [h2f(x) for x in t[2:2 + n]]
                b = [h2f(x) for x in t[3 + n:3 + n + int(t[2 + n])]]
                if len(a) == len(b) and close_def(a, b, 0.0)[1]:
                    fails.append(Failure(i, "close_to:opposite-sign", "Vector::close_to equated values of opposite sign: %s" % l[:120], "0"))
                    continue
            if toks != kind[1]:
                fails.append(Failure(i, "%s:value" % op, "`%s` answered %s, definition gives %s" % (l[:60], " ".join(toks)[:120], " ".join(kind[1])[:120]),
                                     " ".join(kind[1])))
            continue
        msg = kind[1](toks)
        if msg:
            fails.append(Failure(i, "%s:value" % op, msg))
        if op == "rot" and st == "ok":
            # cw = ccw^T, bit for bit, for the same axis and angle
            k = (t[2], t[3])
            rot_seen.setdefault(k, {})[t[1]] = toks[2:]
            if len(rot_seen[k]) == 2:
                cw, ccw = rot_seen[k]["cw"], rot_seen[k]["ccw"]
                tr = [ccw[c * 3 + r] for r in range(3) for c in range(3)]
                if cw != tr:
                    fails.append(Failure(i, "rot:cw-vs-ccw", "rotation_matrix_cw is not the transpose of rotation_matrix_ccw for axis %s angle %s" % k))
                del rot_seen[k]
    return fails


# ------------------------------------------------------------------------------------------ generator
def mat_line(op, nr, nc, d, extra=""):
    s = "%s %d %d %s" % (op, nr, nc, vec(d))
    return s + (" " + extra if extra else "")


SPECIAL = [0.0, -0.0, 1.0, -1.0, float("inf"), float("-inf"), 5e-324, 1.7976931348623157e308, float("nan")]


EXACT = [0.5, -0.5, 1.5, 2.5, 1.0 / 3.0, 2.0 / 3.0, 2.0, 3.0, 4.0, 1024.0, 0.25, 2.0 ** -52, 1.0 + 2.0 ** -52, 1.0 - 2.0 ** -53,
         2.0 - 2.0 ** -52, 2.0 + 2.0 ** -51, 1e-300, -1e-300, 1e300, -1e300, 1e-310, 2.0 ** 500, 2.0 ** -500, -0.0, 0.1, 0.3]


def rand_val(rng, structural=True):
    u = rng.random()
    if u < 0.08:
        return rng.choice(EXACT)
    if u < 0.55:
        return rng.normal() * 10 ** rng.randint(-2, 2)
    if u < 0.85:
        return float(rng.randint(-9, 9))
    if u < 0.93:
        return 0.0
    if structural:
        return rng.choice(SPECIAL)
    return rng.normal()


def rand_data(rng, n, structural=True):
    return [rand_val(rng, structural) for _ in range(n)]


def special_matrix(rng, r, c):
    """Matrices on which the predicates have a non-trivial answer."""
    kind = rng.randint(0, 5)
    a = [[float(rng.randint(1, 9)) * (1 if rng.chance(0.8) else -1) for _ in range(c)] for _ in range(r)]
    if kind == 0:  # symmetric (square part)
        for i in range(r):
            for j in range(c):
                if j < r and i < c and i > j:
                    a[i][j] = a[j][i]
    elif kind == 1:  # upper triangular
        for i in range(r):
            for j in range(c):
                if i > j:
                    a[i][j] = 0.0 if rng.chance(0.7) else -0.0
    elif kind == 2:  # lower triangular
        for i in range(r):
            for j in range(c):
                if i < j:
                    a[i][j] = 0.0
    elif kind == 3:  # diagonal
        for i in range(r):
            for j in range(c):
                if i != j:
                    a[i][j] = 0.0
    elif kind == 4:  # almost symmetric: one entry off by 1 or 2 ulp-ish of EPS
        for i in range(r):
            for j in range(c):
                if j < r and i < c and i > j:
                    a[i][j] = a[j][i]
        if r > 1 and c > 1:
            a[1][0] = a[0][1] + rng.choice([EPS / 2, EPS, 2 * EPS, 4 * EPS])
    else:  # one sub-diagonal nonzero somewhere in an otherwise upper triangular matrix
        for i in range(r):
            for j in range(c):
                if i > j:
                    a[i][j] = 0.0
        if r > 1:
            i = rng.randint(1, r - 1)
            j = rng.randint(0, min(i, c) - 1) if min(i, c) > 0 else 0
            a[i][j] = float("nan") if rng.chance(0.2) else 3.0
    return [x for row in a for x in row]


def perturb(rng, d):
    """A comparison operand derived from `d`: identical, relatively perturbed, sign-flipped, zeroed."""
    mode = rng.randint(0, 6)
    out = list(d)
    if mode == 0 or not out:
        return out
    k = rng.randint(0, len(out) - 1)
    x = out[k]
    if mode == 1:
        out[k] = x * (1 + rng.choice([1e-13, 1e-10, 1e-7, 1e-4, 1e-2]) * rng.choice([1, -1]))
    elif mode == 2:
        out[k] = -x
    elif mode == 3:
        out[k] = 0.0
    elif mode == 4:
        out[k] = x + rng.choice([EPS / 2, EPS, 2 * EPS, 1e-9]) * rng.choice([1, -1])
    elif mode == 5:
        out = [y * (1 + 1e-12) for y in out]
    else:
        out[k] = -x * (1 + 1e-12) if x != 0 else -1e-12
    return out


def gen_program(rng, lines, cover, nops):
    """One session; the generator tracks the state with the reference model to aim its operands."""
    r, c = rng.randint(1, 8), rng.randint(1, 8)
    u = rng.random()
    if u < 0.3:
        d = special_matrix(rng, r, c)
    else:
        d = rand_data(rng, r * c)
    first = mat_line("load" if rng.chance(0.8) else "vreshape", r if rng.chance(0.85) else -1, c, d)
    if rng.chance(0.01):
        r0 = rng.choice([(0, c), (r, 0), (0, 0)])
        first = mat_line("load", r0[0], r0[1], [])
    lines.append(first)
    m = ref_apply(Ref([], 0, 0), first.split())
    if m in (PANIC, UNSPEC):
        m = Ref([], 0, 0)
    for _ in range(nops):
        bad = rng.chance(0.12)
        kind = rng.choice(["reshape", "reshape_mut", "t", "t_mut", "hcat", "vcat", "hrepeat", "vrepeat", "arow", "acol",
                           "fset", "set2", "tovec_tomat", "rowmat", "colmat", "diagmat", "r2c", "c2r",
                           "row", "col", "fidx", "get2", "diag", "tovec", "is_sq", "is_sym", "is_up", "is_lo", "close", "eq",
                           "reshape", "t", "hcat", "vcat", "is_up", "is_sym", "close", "load",
                           "shape", "size", "sum_rows", "sum_cols", "sort_data", "dmset"])
        size = m.r * m.c
        if kind in ("reshape", "reshape_mut"):
            divs = [k for k in range(1, max(size, 1) + 1) if size % k == 0] or [1]
            a = rng.choice(divs)
            b = size // a if a else 0
            form = rng.randint(0, 3)
            if bad:
                a = rng.choice([a + 1, max(1, a - 1), 0, -2, 7, 5])
                if rng.chance(0.3):
                    b = rng.choice([-1, -2, 0])
            if form == 0:
                line = "%s %d %d" % (kind, a, b)
            elif form == 1:
                line = "%s -1 %d" % (kind, b if not bad else a)
            elif form == 2:
                line = "%s %d -1" % (kind, a)
            else:
                line = "%s %d %d" % (kind, b, a)
            if bad and rng.chance(0.1):
                line = "%s -1 -1" % kind
        elif kind in ("t", "t_mut", "tovec_tomat", "diagmat", "r2c", "c2r", "diag", "tovec", "is_sq", "is_sym", "is_up", "is_lo",
                      "shape", "size", "sum_rows", "sum_cols", "sort_data"):
            line = kind
        elif kind in ("hcat", "vcat"):
            if kind == "hcat":
                rr, cc = m.r, rng.randint(1, 4)
            else:
                rr, cc = rng.randint(1, 4), m.c
            if bad:
                if kind == "hcat":
                    rr = rr + rng.choice([1, 2]) if rr < 2 or rng.chance(0.5) else rr - 1
                else:
                    cc = cc + rng.choice([1, 2]) if cc < 2 or rng.chance(0.5) else cc - 1
            if size + rr * cc > MAXSIZE or rr * cc == 0:
                continue
            u = rng.random()
            if u < 0.2 and not bad and m.r * m.c > 0:
                # operand = the current matrix itself (cat with a clone): same shape always fits
                dd, rr, cc = m.flat(), m.r, m.c
            else:
                dd = rand_data(rng, rr * cc)
            line = mat_line(kind, rr if rng.chance(0.9) else -1, cc, dd)
        elif kind in ("hrepeat", "vrepeat"):
            n = rng.choice([1, 2, 2, 3, 4])
            if rng.chance(0.01):
                n = 0
            if size * n > MAXSIZE:
                continue
            line = "%s %d" % (kind, n)
        elif kind in ("arow", "rowmat", "row"):
            i = rng.randint(0, max(m.r - 1, 0)) if not bad else m.r + rng.randint(0, 2)
            line = "%s %d" % (kind, i)
            if kind == "arow":
                line += " %s %s" % (f2h(rng.choice([2.0, -1.0, 0.5, 1.0, rng.normal()])), f2h(rng.choice([0.0, 1.0, rng.normal()])))
        elif kind in ("acol", "colmat", "col"):
            j = rng.randint(0, max(m.c - 1, 0)) if not bad else m.c + rng.randint(0, 2)
            line = "%s %d" % (kind, j)
            if kind == "acol":
                line += " %s %s" % (f2h(rng.choice([2.0, -1.0, 0.5, 1.0, rng.normal()])), f2h(rng.choice([0.0, 1.0, rng.normal()])))
        elif kind in ("fset", "fidx", "dmset"):
            k = rng.randint(0, max(size - 1, 0)) if not bad else size + rng.randint(0, 3)
            line = "%s %d" % (kind, k)
            if kind in ("fset", "dmset"):
                line += " " + f2h(rand_val(rng))
        elif kind in ("set2", "get2"):
            i = rng.randint(0, max(m.r - 1, 0))
            j = rng.randint(0, max(m.c - 1, 0))
            if bad:
                if rng.chance(0.5):
                    i = m.r + rng.randint(0, 2)
                else:
                    j = m.c + rng.randint(0, 2)
            line = "%s %d %d" % (kind, i, j)
            if kind == "set2":
                line += " " + f2h(rand_val(rng))
        elif kind in ("close", "eq"):
            dd = perturb(rng, m.flat())
            rr, cc = m.r, m.c
            if bad and size > 0:
                rr, cc = (m.c, m.r) if m.r != m.c else (1, size)
            line = mat_line(kind, rr, cc, dd)
            if kind == "close":
                line += " " + f2h(rng.choice([1e-9, 1e-6, 1e-12, 1e-3, 0.5, 2.0, 0.0]))
        elif kind == "load":
            rr, cc = rng.randint(1, 8), rng.randint(1, 8)
            dd = special_matrix(rng, rr, cc) if rng.chance(0.5) else rand_data(rng, rr * cc)
            if bad:
                dd = dd[:-1] if rng.chance(0.5) else dd + [1.0]
            line = mat_line("load", rr, cc, dd)
        else:
            continue
        lines.append(line)
        t = line.split()
        cover[kind] = cover.get(kind, 0) + 1
        if t[0] in STATE_OPS or t[0] in XSTATE_OPS:
            e = ref_apply(m, t)
            if e == UNSPEC:
                # zero-dimension corner: restart the session with a fresh matrix so that the generator's
                # picture of the state is accurate again
                cover["zero_dim_corner"] = cover.get("zero_dim_corner", 0) + 1
                rr, cc = rng.randint(1, 6), rng.randint(1, 6)
                if rng.chance(0.5):
                    for q in ("t", "is_up", "acol 3 %s %s" % (f2h(1.0), f2h(1.0)), "tovec", "hrepeat 2", "vrepeat 2", "diag", "r2c", "c2r"):
                        if rng.chance(0.4):
                            lines.append(q)
                nl = mat_line("load", rr, cc, rand_data(rng, rr * cc))
                lines.append(nl)
                m = ref_apply(m, nl.split())
            elif e == PANIC:
                cover["expected_panic"] = cover.get("expected_panic", 0) + 1
            else:
                m = e


def gen_stateless(rng, lines, cover, n):
    kinds = ["vclose", "veq", "zeros", "ones", "eye", "is_matrix", "is_square_u", "is_design", "is_sym_u", "diag_u",
             "r2c_u", "c2r_u", "transpose_u", "diag_matrix", "toeplitz", "design", "vandermonde", "arange", "linspace", "rot",
             "arange", "linspace", "vclose"]
    for _ in range(n):
        k = rng.choice(kinds)
        cover[k] = cover.get(k, 0) + 1
        if k in ("vclose", "veq"):
            ln = rng.randint(1, 12)
            a = rand_data(rng, ln, structural=False)
            if rng.chance(0.3):
                a = [x if rng.chance(0.7) else rng.choice([0.0, -0.0, 1e-300, -1e-300, 1e-12, -1e-12]) for x in a]
            b = perturb(rng, a)
            if rng.chance(0.05):
                b = b[:-1]
            line = "%s %s %s" % (k, vec(a), vec(b))
            if k == "vclose":
                line += " " + f2h(rng.choice([1e-9, 1e-6, 1e-12, 1e-3, 0.5, 2.0, 10.0, 0.0, 1e300]))
            lines.append(line)
        elif k in ("zeros", "ones"):
            lines.append("%s %d %d" % (k, rng.randint(1, 64) if rng.chance(0.98) else 0, rng.randint(1, 64) if rng.chance(0.98) else 0))
        elif k == "eye":
            lines.append("eye %d" % rng.randint(0 if rng.chance(0.02) else 1, 64))
        elif k == "is_matrix":
            lines.append("is_matrix %d %d" % (rng.randint(0, 200), rng.randint(0 if rng.chance(0.05) else 1, 20)))
        elif k == "is_square_u":
            s = rng.randint(0, 64)
            lines.append("is_square_u %d" % (s * s + rng.choice([0, 0, 1, -1, 2]) if s > 0 else rng.randint(0, 3)))
        elif k == "is_design":
            r, c = rng.randint(1, 12), rng.randint(1, 6)
            d = rand_data(rng, r * c, structural=False)
            if rng.chance(0.8):
                for i in range(r):
                    d[i * c] = 1.0
                if rng.chance(0.3):
                    d[rng.randint(0, r - 1) * c] = 1.0 + rng.choice([EPS / 2, EPS, 2 * EPS, -EPS / 2, -2 * EPS, 1e-3])
            if rng.chance(0.05):
                d = d + [2.0]
            lines.append("is_design %d %s" % (r, vec(d)))
        elif k in ("is_sym_u", "diag_u"):
            n_ = rng.randint(1, 10)
            d = special_matrix(rng, n_, n_) if rng.chance(0.7) else rand_data(rng, n_ * n_, structural=(k == "diag_u"))
            if rng.chance(0.05):
                d = d + [1.0]
            lines.append("%s %s" % (k, vec(d)))
        elif k in ("r2c_u", "c2r_u", "transpose_u"):
            r, c = rng.randint(1, 12), rng.randint(1, 12)
            d = rand_data(rng, r * c)
            if rng.chance(0.05):
                d = d + [1.0]
            lines.append("%s %d %s" % (k, r if rng.chance(0.98) else 0, vec(d)))
        elif k in ("diag_matrix", "toeplitz"):
            lines.append("%s %s" % (k, vec(rand_data(rng, rng.randint(1, 64) if rng.chance(0.97) else 0))))
        elif k == "design":
            r, c = rng.randint(1, 64), rng.randint(0, 5)
            d = rand_data(rng, r * c)
            if rng.chance(0.05):
                d = d + [1.0]
            lines.append("design %d %s" % (r if rng.chance(0.98) else 0, vec(d)))
        elif k == "vandermonde":
            m_ = rng.randint(1, 16)
            n_ = rng.randint(1, 64) if rng.chance(0.3) else rng.randint(1, 8)
            d = [rng.choice([rng.normal(), rng.uniform(-2, 2), float(rng.randint(-3, 3)), rng.normal() * 10]) for _ in range(m_)]
            lines.append("vandermonde %d %s" % (n_, vec(d)))
        elif k == "arange":
            a = rng.choice([0.0, 1.0, rng.normal() * 3, float(rng.randint(-5, 5)), rng.uniform(-10, 10)])
            u = rng.random()
            if u < 0.35:        # exact integer ratio in real arithmetic, decimal step
                step = rng.choice([0.1, 0.2, 0.3, 0.25, 0.5, 0.7, 1.0, 1.5, 0.01, 3.0, 0.05])
                cnt = rng.randint(1, 64)
                b = a + cnt * step
                if rng.chance(0.3):
                    b = float(Fraction(a) + cnt * Fraction(step)) if abs(a) < 1e6 else b
            elif u < 0.85:      # non-integer ratio
                step = rng.choice([rng.uniform(0.01, 2.0), rng.loguniform(1e-3, 10.0)])
                cnt = rng.uniform(0.05, 64.0)
                b = a + cnt * step
            elif u < 0.93:      # negative step, descending
                step = -rng.uniform(0.05, 2.0)
                b = a + rng.uniform(0.05, 40.0) * step
            else:               # empty: stop on the wrong side
                step = rng.uniform(0.05, 2.0) * rng.choice([1, -1])
                b = a - rng.uniform(0.0, 5.0) * step
            if rng.chance(0.02):
                a, b, step = rng.choice([(float("nan"), 1.0, 0.5), (0.0, float("nan"), 0.5), (0.0, 1.0, float("inf")),
                                         (0.0, 1.0, float("nan")), (0.0, -1.0, float("inf")), (5.0, 5.0, 1.0)])
            lines.append("arange %s %s %s" % (f2h(a), f2h(b), f2h(step)))
        elif k == "linspace":
            a = rng.choice([0.0, 1.0, -50.0, rng.normal() * 10, float(rng.randint(-9, 9)), rng.uniform(-1e3, 1e3)])
            b = rng.choice([1.0, 40.0, rng.normal() * 10, float(rng.randint(-9, 9)), a + rng.uniform(0, 5), a])
            n_ = rng.randint(1, 64)
            if rng.chance(0.03):
                n_ = 0
            lines.append("linspace %s %s %d" % (f2h(a), f2h(b), n_))
        elif k == "rot":
            ang = rng.choice([rng.uniform(-4 * math.pi, 4 * math.pi), rng.choice([0.0, math.pi, math.pi / 2, -math.pi / 2, 2 * math.pi, math.pi / 6, 1.0])])
            ax = rng.choice(["x", "y", "z"])
            lines.append("rot cw %s %s" % (ax, f2h(ang)))
            lines.append("rot ccw %s %s" % (ax, f2h(ang)))


SIGN_MAGS = [1e-320, 5e-324, 1e-310, 1e-300, 1e-200, 1e-170, 1e-162, 1e-161, 1e-100, 1e-10, 1.0, 1e100, 1e154, 1e155, 1e200, 1e300,
             1.7976931348623157e308]
SIGN_TOLS = [0.0, 1e-300, 1e-12, 1e-6, 1.0, 1e300, float("inf")]


def gen_sign_strata(rng, lines, cover, n):
    """close_to / PartialEq over the whole exponent range: opposite-sign pairs (a, -a(1 +- k ulp)) whose product
    underflows / overflows, same-sign near-equal pairs (must be close), signed zeros; placed at a random position
    among equal entries, as vectors (vclose / veq) and as matrices (load + close / eq)."""
    for _ in range(n):
        mag = rng.choice(SIGN_MAGS) * rng.choice([1.0, 1.0, rng.uniform(0.5, 2.0)])
        if mag == 0.0 or mag == float("inf"):
            mag = rng.choice(SIGN_MAGS)
        a = mag * rng.choice([1, -1])
        k = rng.choice([0, 0, 1, -1, 2, 5, -5])
        kind = rng.randint(0, 5)
        if kind <= 2:       # opposite sign, (nearly) equal magnitude
            b = -a * (1 + k * EPS)
            cls = "opposite"
        elif kind == 3:     # same sign, nearly equal: must be close for every tol >= k ulp
            b = a * (1 + k * EPS)
            cls = "same"
        elif kind == 4:     # signed zeros against each other / against a tiny value
            a = rng.choice([0.0, -0.0])
            b = rng.choice([0.0, -0.0, mag, -mag])
            cls = "zero"
        else:               # opposite sign, different magnitudes (one factor tiny, one huge)
            b = -rng.choice(SIGN_MAGS) * (1 if a > 0 else -1)
            cls = "opposite-mixed"
        ln = rng.randint(1, 9)
        base = [rng.choice([1.0, -2.5, 0.0, mag, -mag, 3e-200, 7e150]) for _ in range(ln)]
        pos = rng.randint(0, ln - 1)
        xs, ys = list(base), list(base)
        xs[pos], ys[pos] = a, b
        if rng.chance(0.5):
            xs, ys = ys, xs
        tol = rng.choice(SIGN_TOLS)
        cover["sign:" + cls] = cover.get("sign:" + cls, 0) + 1
        form = rng.randint(0, 3)
        if form == 0:
            lines.append("vclose %s %s %s" % (vec(xs), vec(ys), f2h(tol)))
        elif form == 1:
            lines.append("veq %s %s" % (vec(xs), vec(ys)))
        else:
            divs = [d for d in range(1, ln + 1) if ln % d == 0]
            r = rng.choice(divs)
            lines.append(mat_line("load", r, ln // r, xs))
            if form == 2:
                lines.append(mat_line("close", r, ln // r, ys, f2h(tol)))
            else:
                lines.append(mat_line("eq", r, ln // r, ys))


BOUNDARY_N = [1, 2, 3, 4, 5, 7, 8, 9, 15, 16, 17, 31, 32, 33, 63, 64]
GROW_SHAPES = [(9, 9), (9, 17), (17, 9), (10, 12), (12, 10), (33, 40), (16, 16), (16, 9), (9, 16), (15, 17), (8, 9), (9, 8),
               (24, 25), (11, 9), (9, 10), (17, 17), (1, 17), (17, 1), (2, 33), (33, 2), (8, 8), (8, 16), (25, 9)]


def distinct_data(rng, n, base=0.0):
    """pairwise distinct values, so that a misplaced or dropped entry is always visible"""
    off = rng.uniform(0.0, 0.5)
    return [base + i + off + (0.25 if rng.chance(0.3) else 0.0) for i in range(n)]


def grow_session(rng, lines, R, C):
    """load a small matrix (<= 8x8), grow it to R x C with hrepeat / vrepeat / hcat / vcat only, then transpose
    through every route; the replies carry the whole data, so any misplaced corner entry shows."""
    r, c = rng.randint(1, min(8, R)), rng.randint(1, min(8, C))
    lines.append(mat_line("load", r, c, distinct_data(rng, r * c)))
    base = 1000.0
    cols_first = rng.chance(0.5)
    for phase in (0, 1):
        grow_cols = (phase == 0) == cols_first
        while (c < C) if grow_cols else (r < R):
            cur, tgt = (c, C) if grow_cols else (r, R)
            if cur * 2 <= tgt and rng.chance(0.6):
                k = rng.choice([n for n in (2, 3, 4) if cur * n <= tgt])
                lines.append("%s %d" % ("hrepeat" if grow_cols else "vrepeat", k))
                cur *= k
            else:
                add = rng.randint(1, min(tgt - cur, 8))
                if grow_cols:
                    lines.append(mat_line("hcat", r, add, distinct_data(rng, r * add, base)))
                else:
                    lines.append(mat_line("vcat", add, c, distinct_data(rng, add * c, base)))
                base += 1000.0
                cur += add
            if grow_cols:
                c = cur
            else:
                r = cur
    route = rng.randint(0, 3)
    lines.extend([["t", "t_mut"], ["t_mut", "t"], ["r2c", "c2r"], ["c2r", "t_mut", "r2c"]][route])
    lines.extend(["diag", "col %d" % rng.randint(0, (C if len([["t", "t_mut"], ["t_mut", "t"], ["r2c", "c2r"], ["c2r", "t_mut", "r2c"]][route]) % 2 == 0 else R) - 1)])
    if rng.chance(0.5):
        lines.extend(["reshape -1 %d" % C, "t"])


def near_symmetric(rng, n):
    """square data that is_symmetric() accepts although it is not symmetric"""
    kind = rng.randint(0, 3)
    a = [[0.0] * n for _ in range(n)]
    for i in range(n):
        for j in range(i, n):
            if kind == 0:      # values in [0.25, 1): mirror entries one ulp apart
                v = rng.uniform(0.25, 0.99)
                a[i][j] = v
                a[j][i] = v if i == j else math.nextafter(v, rng.choice([0.0, 2.0]))
            elif kind == 1:    # arbitrary tiny entries (all differences far below EPSILON)
                a[i][j] = rng.normal() * 1e-17
                a[j][i] = rng.normal() * 1e-17
            elif kind == 2:    # subnormals and signed zeros
                a[i][j] = rng.choice([5e-324, -5e-324, 1e-310, 0.0, -0.0, 3e-320])
                a[j][i] = rng.choice([5e-324, -5e-324, 1e-310, 0.0, -0.0, 3e-320])
            else:              # differences exactly EPS/2, EPS (accepted) next to an ordinary symmetric part
                v = float(rng.randint(-3, 3)) * 0.125
                a[i][j] = v
                a[j][i] = v if i == j else v + rng.choice([EPS / 2, EPS, -EPS, EPS / 4]) * (1.0 if abs(v) < 1 else 0.0)
    return [x for row in a for x in row]


def ulp_neighbours(x):
    return [math.nextafter(x, -math.inf), x, math.nextafter(x, math.inf)]


def gen_directed(rng, lines, cover, scale):
    """Directed strata (tools/GENERIC_STRATA.md): size boundaries of blocked paths, in-place vs copying variants on
    nearly symmetric squares, near-grid arange stops, tolerance boundaries +-1 ulp, tall/wide triangular shapes."""
    n0 = len(lines)
    # A. grow beyond 8x8, then transpose by every route (+ slice-level helpers on the same shapes)
    shapes = list(GROW_SHAPES)
    for _ in range(scale * 4):
        shapes.append((rng.randint(9, 40), rng.randint(9, 33)))
    for (R, C) in shapes:
        grow_session(rng, lines, R, C)
        if rng.chance(0.5):
            d = distinct_data(rng, R * C)
            lines.append("%s %d %s" % (rng.choice(["transpose_u", "r2c_u", "c2r_u"]), R, vec(d)))
    cover["directed:grow_then_transpose"] = len(shapes)
    # B. t_mut vs t() on squares that pass is_symmetric without being symmetric
    for _ in range(30 * scale):
        n = rng.choice([2, 2, 3, 4, 5, 8, 9, 16, 17])
        d = near_symmetric(rng, n)
        lines.extend([mat_line("load", n, n, d), "is_sym", "t_mut", "is_sym", "t_mut", mat_line("load", n, n, d), "t", "tovec",
                      mat_line("eq", n, n, d)])
    cover["directed:near_symmetric_t_mut"] = 30 * scale
    # C. arange: stop a hair before / at / past a grid point, both step signs
    for _ in range(60 * scale):
        step = rng.choice([0.5, 1.0, 0.1, 0.25, 0.3, 2.0, 1.0 / 3.0, rng.uniform(0.01, 3.0)]) * rng.choice([1, 1, -1])
        start = rng.choice([0.0, 1.0, 10.0, -2.0, 0.1, rng.uniform(-5, 5)])
        k = rng.randint(1, 40)
        for rel in (rng.choice([1e-10, 1e-12, 3e-10, 9e-10, 1e-9, 1.1e-9, 1e-8, 1e-6]), 0.0, -rng.choice([1e-10, 1e-12, 1e-9, 1e-8])):
            stop = start + k * step + rel * step * rng.choice([1.0, float(k)])
            lines.append("arange %s %s %s" % (f2h(start), f2h(stop), f2h(step)))
    for (a, b, st) in [(0.0, 1.0000000001, 0.5), (10.0, 7.9999999999, -1.0), (1.0, 4.0, 0.1), (-2.0, 6.0, 0.2), (0.0, 4.0, 1.0),
                       (0.0, 0.3, 0.1), (0.0, 0.9, 0.3), (0.0, 1.0, 1.0 / 3.0), (5.0, 0.0, -0.5), (0.0, 2.0 ** 500, 2.0 ** 497),
                       (0.0, 3e-300, 1e-300), (1e300, 1.5e300, 1e299)]:
        lines.append("arange %s %s %s" % (f2h(a), f2h(b), f2h(st)))
    cover["directed:arange_near_grid"] = 180 * scale + 12
    # D. linspace: n = 1, 2, 3 and block boundaries; special end points; extreme scale
    for n in BOUNDARY_N:
        a, b = rng.choice([(0.0, 1.0), (2.0, 2.0), (-0.0, 1.0), (1.0, -1.0), (1.0 / 3.0, 2.0 / 3.0), (-50.0, 40.0), (0.5, 3.0)])
        lines.append("linspace %s %s %d" % (f2h(a), f2h(b), n))
        lines.append("linspace %s %s %d" % (f2h(a * 2.0 ** 500), f2h(b * 2.0 ** 500), n))
        lines.append("linspace %s %s %d" % (f2h(a * 2.0 ** -500), f2h(b * 2.0 ** -500), n))
    for n in (1, 2):
        for (a, b) in [(0.0, 1.0), (3.0, 3.0), (-1.0, 1.0), (1e300, -1e300), (5.0, 5.0 + 2.0 ** -50)]:
            lines.append("linspace %s %s %d" % (f2h(a), f2h(b), n))
    # E. repeats of row / column vectors, then transposes
    for _ in range(12 * scale):
        ln = rng.choice([1, 2, 3, 7, 8, 9, 16, 17])
        n = rng.choice([1, 2, 3, 7, 8, 9, 16, 17])
        rowv = rng.chance(0.5)
        lines.append(mat_line("load", 1 if rowv else ln, ln if rowv else 1, distinct_data(rng, ln)))
        lines.extend(["%s %d" % (rng.choice(["hrepeat", "vrepeat"]), n), "t_mut", "%s 2" % rng.choice(["hrepeat", "vrepeat"]), "t", "tovec"])
    # F. reshape / reshape_mut / new / Vector::reshape with -1: divisible and not
    for size in (1, 2, 6, 7, 12, 16, 36, 63, 64, 65):
        d = distinct_data(rng, size)
        lines.append(mat_line("load", 1, size, d))
        ks = sorted(set([1, 2, 3, 4, 5, 7, 8, 9, size - 1, size, size + 1, 2 * size]) - {0, -1})
        for k in ks:
            form = rng.randint(0, 3)
            op = rng.choice(["reshape", "reshape_mut"])
            if form == 0:
                lines.append("%s -1 %d" % (op, k))
            elif form == 1:
                lines.append("%s %d -1" % (op, k))
            elif form == 2:
                lines.append(mat_line(rng.choice(["load", "vreshape"]), -1, k, d))
            else:
                lines.append(mat_line(rng.choice(["load", "vreshape"]), k, -1, d))
        lines.extend(["reshape -1 0", "reshape 0 -1", "reshape_mut -1 -1", "reshape -2 %d" % size, "reshape_mut %d -2" % size, "tovec"])
    # G. triangular predicates on tall and wide matrices: a single non-zero outside the square block
    for _ in range(40 * scale):
        r, c = rng.choice([(rng.randint(1, 8), rng.randint(1, 8)), (9, 3), (3, 9), (17, 2), (2, 17), (8, 1), (1, 8), (5, 2), (2, 5),
                           (4, 3), (3, 4), (6, 4)])
        upper = rng.chance(0.5)
        a = [[(float(rng.randint(1, 9)) if ((j >= i) if upper else (j <= i)) else rng.choice([0.0, 0.0, -0.0])) for j in range(c)] for i in range(r)]
        cand = [(i, j) for i in range(r) for j in range(c) if ((i > j) if upper else (j > i))]
        outside = [(i, j) for (i, j) in cand if ((i >= c) if upper else (j >= r))]
        mode = rng.randint(0, 3)
        if mode == 1 and cand:
            i, j = rng.choice(cand)
            a[i][j] = rng.choice([3.0, 5e-324, float("nan"), -1e-300])
        elif mode >= 2 and outside:
            i, j = rng.choice(outside)
            a[i][j] = rng.choice([3.0, 5e-324, float("nan"), -1e-300])
        lines.extend([mat_line("load", r, c, [x for row in a for x in row]), "is_up", "is_lo", "t", "is_up", "is_lo", "t_mut", "is_up"])
    cover["directed:triangular_tall_wide"] = 40 * scale
    # H. tolerance boundaries +-1 ulp: is_symmetric / PartialEq at EPSILON, close_to at tol
    for _ in range(15 * scale):
        for d in ulp_neighbours(EPS) + [EPS / 2, 2 * EPS]:
            sgn = rng.choice([1.0, -1.0])
            n = rng.choice([2, 3])
            base = [0.0] * (n * n)
            base[1] = 0.0
            base[n] = sgn * d                       # |a01 - a10| = d exactly
            lines.extend([mat_line("load", n, n, base), "is_sym", mat_line("eq", n, n, [0.0] * (n * n))])
            lines.append("veq %s %s" % (vec([1.0, 0.0, 2.0]), vec([1.0, sgn * d, 2.0])))
            lines.append("is_sym_u %s" % vec(base))
            lines.append("is_design 2 %s" % vec([1.0 + sgn * d, 5.0, 1.0, 6.0]))
        for base, diff in ((1.0, EPS), (1.0, 2 * EPS), (-1.0, -EPS), (2.0, 2 * EPS)):   # base + diff is exact
            lines.append("veq %s %s" % (vec([base]), vec([base + diff])))
            lines.extend([mat_line("load", 2, 2, [5.0, base, base + diff, 7.0]), "is_sym"])
        k = rng.choice([1, 2, 3, 8, 1000])
        a = rng.choice([1.0, -1.0, 2.0, 0.5, 1e-300, 1e300])
        b = a * (1 + k * EPS)
        rd = rel_diff(a, b)
        for tol in ulp_neighbours(rd):
            lines.append("vclose %s %s %s" % (vec([3.0, a]), vec([3.0, b]), f2h(tol)))
            lines.append("vclose %s %s %s" % (vec([b]), vec([a]), f2h(tol)))
            lines.extend([mat_line("load", 1, 2, [a, 3.0]), mat_line("close", 1, 2, [b, 3.0], f2h(tol))])
        y = rng.choice([1e-9, 1e-6, 0.5, 1e-300])
        for tol in ulp_neighbours(y):                                                    # rel_diff(0, y) = |y|
            lines.append("vclose %s %s %s" % (vec([0.0]), vec([y * rng.choice([1, -1])]), f2h(tol)))
            lines.append("vclose %s %s %s" % (vec([-y]), vec([-0.0]), f2h(tol)))
    cover["directed:tolerance_boundaries"] = 15 * scale
    # J. constructors at the size boundaries (block edges 8 / 16 / 32 / 64 and neighbours)
    for n in BOUNDARY_N:
        lines.extend(["eye %d" % n, "zeros %d %d" % (n, rng.choice(BOUNDARY_N)), "ones %d %d" % (rng.choice(BOUNDARY_N), n),
                      "toeplitz %s" % vec(distinct_data(rng, n)), "diag_matrix %s" % vec(distinct_data(rng, n)),
                      "diag_u %s" % vec(distinct_data(rng, n * n)) if n <= 33 else "eye %d" % n,
                      "design %d %s" % (n, vec(distinct_data(rng, n * rng.randint(0, 3)))),
                      "vandermonde %d %s" % (n, vec([rng.choice([0.0, -0.0, 1.0, -1.0, 0.5, 2.0, -2.0, 1.0 / 3.0, 1.5]) for _ in range(3)])),
                      "vandermonde 4 %s" % vec([rng.uniform(-2, 2) for _ in range(n)])])
        m_ = rng.choice(BOUNDARY_N[:12])
        lines.append("%s %d %s" % (rng.choice(["transpose_u", "r2c_u", "c2r_u"]), n, vec(distinct_data(rng, n * m_))))
    # extreme scale: exact power-of-two scaling through the in-place maps
    for _ in range(4 * scale):
        r, c = rng.randint(1, 8), rng.randint(1, 8)
        lines.extend([mat_line("load", r, c, rand_data(rng, r * c, structural=False)),
                      "arow %d %s %s" % (rng.randint(0, r - 1), f2h(2.0 ** rng.choice([500, -500, 1, -1])), f2h(0.0)),
                      "acol %d %s %s" % (rng.randint(0, c - 1), f2h(2.0 ** rng.choice([500, -500, 1, -1])), f2h(-0.0)), "t_mut", "tovec"])
    cover["directed:lines"] = len(lines) - n0


SORT_LENS = [0, 1, 2, 3, 4, 7, 8, 9, 15, 16, 17, 19, 20, 21, 31, 32, 33, 63, 64, 65, 100, 257]
SUM_WIDTHS = [1, 2, 3, 7, 8, 9, 15, 16, 17, 23, 24, 25, 31, 32, 33]


def sum_data(rng, n, kind):
    if kind == 0:
        return [rng.normal() * 10 ** rng.randint(-3, 3) for _ in range(n)]
    if kind == 1:
        return [float(rng.randint(-9, 9)) for _ in range(n)]
    if kind == 2:   # cancellation: large terms of both signs and small ones
        return [rng.choice([1e16, -1e16, 1.0, -1.0, 0.1, 1e-8, 3.0]) for _ in range(n)]
    if kind == 3:   # signed zeros only
        return [rng.choice([0.0, -0.0]) for _ in range(n)]
    if kind == 4:   # special entries at random positions
        d = [rng.normal() for _ in range(n)]
        for _ in range(rng.randint(1, 2)):
            d[rng.randint(0, n - 1)] = rng.choice([float("nan"), float("inf"), float("-inf"), -0.0, 0.0, 1e300, 5e-324])
        return d
    if kind == 5:   # extreme scale (exact powers of two)
        sc = 2.0 ** rng.choice([500, -500])
        return [float(rng.randint(-9, 9)) * sc for _ in range(n)]
    return [rng.choice(EXACT) for _ in range(n)]


def sort_data(rng, n):
    kind = rng.randint(0, 8)
    if kind == 0:
        d = [rng.normal() for _ in range(n)]
    elif kind == 1:   # many ties
        d = [float(rng.randint(-3, 3)) for _ in range(n)]
    elif kind == 2:   # signed zeros among equal keys: stability is observable
        d = [rng.choice([0.0, -0.0, 0.0, -0.0, 1.0, -1.0]) for _ in range(n)]
    elif kind == 3:   # already sorted / reversed / sawtooth
        d = sorted(rng.normal() for _ in range(n))
        if rng.chance(0.5):
            d.reverse()
        elif rng.chance(0.3) and n > 2:
            d = d[n // 2:] + d[:n // 2]
    elif kind == 4:   # all equal
        d = [rng.choice([0.0, -0.0, 2.5])] * n
    elif kind == 5:   # infinities, subnormals, extremes
        d = [rng.choice([float("inf"), float("-inf"), 5e-324, -5e-324, 1e308, -1e308, 0.0, -0.0, 1.0]) for _ in range(n)]
    elif kind == 6:   # one NaN: first / last / middle
        d = [rng.normal() for _ in range(n)]
        if n:
            d[rng.choice([0, n - 1, n // 2, rng.randint(0, n - 1)])] = float("nan")
    elif kind == 7:   # several NaNs
        d = [rng.choice([float("nan"), 1.0, 2.0]) for _ in range(n)]
    else:
        d = [rng.choice(EXACT) for _ in range(n)]
    return d


def gen_extra(rng, lines, cover, scale):
    """Coverage extension: shape/size, with_shape, with_capacity, data_mut writes, sum_rows / sum_cols (8-way kernel
    widths 7..9, 15..17, ...; 0 rows / 0 columns; 1 x n and n x 1; NaN, +-0, inf), Vector constructors, Vector::sort
    (in place on a live matrix, then further operations on the same object)."""
    n0 = len(lines)
    # sums on every width around the 8-way blocks, tall / wide / vectors
    shapes = [(1, w) for w in SUM_WIDTHS] + [(w, 1) for w in SUM_WIDTHS] + [(3, w) for w in SUM_WIDTHS] + [(w, 2) for w in SUM_WIDTHS]
    for _ in range(20 * scale):
        shapes.append((rng.randint(1, 12), rng.choice(SUM_WIDTHS + [rng.randint(1, 40)])))
    for (r, c) in shapes:
        d = sum_data(rng, r * c, rng.randint(0, 6))
        lines.extend([mat_line("load", r, c, d), "shape", "size", "sum_rows", "sum_cols"])
        u = rng.random()
        if u < 0.3:
            lines.extend(["t_mut", "sum_rows", "sum_cols"])
        elif u < 0.5:
            lines.extend(["sumrows_mat", "shape", "sum_rows", "sum_cols"])
        elif u < 0.7:
            lines.extend(["sumcols_mat", "shape", "size", "sum_cols", "hrepeat 2", "sum_rows"])
        elif u < 0.85:
            lines.extend(["sort_data", "sum_rows", "sum_cols"])
    # zero rows / zero columns
    for _ in range(6 * scale):
        c = rng.choice([1, 3, 8, 9])
        lines.extend([mat_line("load", 0, c, []), "shape", "size", "sum_rows", "sum_cols", "sort_data", "sumcols_mat", "shape",
                      mat_line("load", c, 0, []), "shape", "size", "sum_rows", "sum_cols", "sumrows_mat", "sum_cols", "sort_data",
                      mat_line("load", 2, c, sum_data(rng, 2 * c, 0)), "hrepeat 0", "shape", "size", "sum_rows", "sum_cols",
                      mat_line("load", 2, c, sum_data(rng, 2 * c, 0)), "vrepeat 0", "shape", "size", "sum_rows", "sum_cols", "dmset 0 " + f2h(1.0)])
    # in-place sort of a live matrix, then further operations on the same object
    for _ in range(25 * scale):
        r, c = rng.choice([(1, rng.choice(SORT_LENS[1:16])), (rng.choice(SORT_LENS[1:12]), 1), (rng.randint(2, 6), rng.randint(2, 9))])
        d = sort_data(rng, r * c)
        lines.extend([mat_line("load", r, c, d), "sort_data", "shape", "tovec", rng.choice(["t", "t_mut", "r2c"]), "sort_data",
                      "diag", "dmset %d %s" % (rng.randint(0, r * c - 1 + (1 if rng.chance(0.15) else 0)), f2h(rand_val(rng))),
                      "fidx %d" % rng.randint(0, r * c - 1), "row 0", "sum_rows", "sort_data", "reshape -1 1", "is_lo",
                      "get2 %d 0" % rng.randint(0, r * c - 1), "size"])
    # data_mut writes followed by reads through the shape operations
    for _ in range(10 * scale):
        r, c = rng.randint(1, 8), rng.randint(1, 8)
        lines.append(mat_line("load", r, c, distinct_data(rng, r * c)))
        for _ in range(rng.randint(1, 4)):
            k = rng.randint(0, r * c - 1)
            lines.extend(["dmset %d %s" % (k, f2h(rand_val(rng))), "fidx %d" % k, "get2 %d %d" % (k // c, k % c), "row %d" % (k // c),
                          "col %d" % (k % c)])
        lines.extend(["dmset %d %s" % (r * c + rng.randint(0, 2), f2h(1.0)), "t", "tovec", "sum_cols"])
    # with_shape / with_capacity, then use the object
    for _ in range(10 * scale):
        r, c = rng.choice(BOUNDARY_N[:11]), rng.choice(BOUNDARY_N[:11])
        v = rng.choice([0.0, -0.0, 1.0, 2.5, float("nan"), 1e300, rng.normal()])
        lines.extend(["with_shape %d %d" % (r, c), "with_shape_fill %d %d %s" % (r, c, f2h(v)), "shape", "size", "sum_rows", "t", "is_sym",
                      "dmset %d %s" % (rng.randint(0, r * c - 1), f2h(3.0)), "sort_data" if rng.chance(0.5) else "diag", "hcat %d 1 %s" % (c if rng.chance(0.1) else -1, vec([9.0] * (r if rng.chance(0.9) else r + 1)))])
        lines.extend(["with_capacity %d %d" % (r, c), "shape", "size"])
    for (r, c) in [(0, 0), (0, 3), (3, 0), (0, 1), (1, 0)]:
        lines.extend(["with_capacity %d %d" % (r, c), "shape", "size", "tovec", "sum_rows", "sum_cols",
                      "with_shape %d %d" % (r, c), "with_shape_fill %d %d %s" % (r, c, f2h(1.0)), "shape", "size"])
    # Vector constructors and Vector::sort at the length boundaries
    for n in BOUNDARY_N + [0, 65, 100]:
        lines.extend(["vzeros %d" % n, "vones %d" % n, "vwith_capacity %d" % n, "vempty_n %d" % n, "vnew %s" % vec(rand_data(rng, n))])
    lines.append("vempty")
    for n in SORT_LENS:
        for _ in range(2 * scale if n > 1 else 1):
            lines.append("vsort %s" % vec(sort_data(rng, n)))
    for _ in range(40 * scale):
        lines.append("vsort %s" % vec(sort_data(rng, rng.choice(SORT_LENS))))
    cover["extra:lines"] = len(lines) - n0


def scalar_magnitudes(rng, full):
    """Real scalars across the whole exponent range: +-2^-k (k = 0..60, 1022, 1074), +-1e-k (k = 1..16), thresholds a
    fast path might use, each with an ulp neighbour (all neighbours when `full`)."""
    bases = [2.0 ** -k for k in list(range(0, 61)) + [1022, 1074]] + [10.0 ** -k for k in range(1, 17)]
    bases += [1e-2, 0.5e-2, 2e-2, 1e-3, 0.1, 0.25, 0.5, 0.7853981633974483, 1e-4, 1e-5, 1e-6, 1e-7, 1.49e-8, 1e-8, 2.1e-8]
    out = []
    for b in bases:
        cand = [b, math.nextafter(b, 0.0), math.nextafter(b, math.inf)]
        pick = cand if full else [b, rng.choice(cand[1:])]
        for x in pick:
            for sg in ((1.0, -1.0) if full else (rng.choice([1.0, -1.0]),)):
                out.append(sg * x)
    return out


def angle_strata(rng, full):
    """Angle magnitudes for the rotation constructors."""
    angs = scalar_magnitudes(rng, full)
    for k in range(1, 9):                      # multiples and near-multiples of pi/2 (so also of pi and 2 pi)
        a = k * (math.pi / 2)
        for x in (a, math.nextafter(a, 0.0), math.nextafter(a, math.inf)):
            angs.append(x)
            if full or rng.chance(0.5):
                angs.append(-x)
    for k in (2, 3, 10, 20, 30, 52, 53, 54, 64, 100, 200, 500, 1000, 1022, 1023):   # huge angles
        a = 2.0 ** k
        angs.extend([a, -a] if full else [a * rng.choice([1.0, -1.0])])
        angs.append(math.nextafter(a, 0.0))
    angs.extend([1e22, -1e22, 1.7976931348623157e308, 1e300, 6.283185307179586e15, 0.0, -0.0, float("nan"), float("inf"), float("-inf")])
    return angs


def gen_scalar_strata(rng, lines, cover, full):
    """Magnitude strata for everything in the property that is parameterised by a real scalar: rotation angles,
    linspace / arange end points and steps, close_to tolerances (each also judged by the bit-exact tie)."""
    n0 = len(lines)
    angs = angle_strata(rng, full)
    for a in angs:
        for ax in (("x", "y", "z") if full else (rng.choice(["x", "y", "z"]),)):
            lines.append("rot cw %s %s" % (ax, f2h(a)))
            lines.append("rot ccw %s %s" % (ax, f2h(a)))
    cover["scalar:rot_angles"] = len(angs)
    cover["scalar:rot_small_angle_window(|a|<1e-2,a!=0)"] = sum(1 for a in angs if 0 < abs(a) < 1e-2)
    mags = scalar_magnitudes(rng, False)
    sub = mags if full else [x for i, x in enumerate(mags) if i % 3 == 0]
    nl = 0
    for x in sub:
        n = rng.choice([2, 3, 5, 8, 9, 17, 64])
        a, b = rng.choice([(0.0, x), (x, -x), (x, 2 * x), (1.0, 1.0 + x), (-x, 0.0)])
        lines.append("linspace %s %s %d" % (f2h(a), f2h(b), n))
        step = abs(x)
        cnt = rng.randint(1, 40)
        start = rng.choice([0.0, step, -3 * step, 1.0 if step >= 2.0 ** -40 else 0.0])
        stop = start + cnt * step + rng.choice([0.0, 0.5, -0.5, 1e-10]) * step
        if step > 0 and abs(stop - start) / step < 100:
            sg = rng.choice([1.0, -1.0])
            lines.append("arange %s %s %s" % (f2h(sg * start), f2h(sg * stop), f2h(sg * step)))
            nl += 1
    cover["scalar:linspace_arange_magnitudes"] = len(sub) + nl
    nt = 0
    for k in (range(0, 53) if full else range(0, 53, 3)):
        tol = 2.0 ** -k                      # 1 and 1 + 2^-k are exact: rel_diff = 2^-k exactly
        for tt in ulp_neighbours(tol):
            lines.append("vclose %s %s %s" % (vec([1.0, 2.0]), vec([1.0 + tol, 2.0]), f2h(tt)))
            lines.append("vclose %s %s %s" % (vec([-1.0 - tol]), vec([-1.0]), f2h(tt)))
            nt += 2
    for k in range(1, 17, 1 if full else 3):
        tol = 10.0 ** -k
        y = tol
        for tt in ulp_neighbours(tol):
            lines.append("vclose %s %s %s" % (vec([0.0, 5.0]), vec([y, 5.0]), f2h(tt)))      # rel_diff(0, y) = |y|
            lines.extend([mat_line("load", 1, 2, [y, 5.0]), mat_line("close", 1, 2, [0.0, 5.0], f2h(tt))])
            nt += 3
    for tt in (0.0, -0.0, 5e-324, 2.0 ** -1022, float("inf"), float("nan"), -1.0, 1e300):
        lines.append("vclose %s %s %s" % (vec([1.0, 0.0]), vec([1.0, 0.0]), f2h(tt)))
        lines.append("vclose %s %s %s" % (vec([1.0]), vec([1.0 + EPS]), f2h(tt)))
        nt += 2
    cover["scalar:close_to_tolerances"] = nt
    cover["scalar:lines"] = len(lines) - n0


def corpus():
    one = f2h(1.0)
    h = lambda xs: vec(xs)
    return [
        # F24: reshape_mut(-1, 4) on 6 elements must panic, state unchanged
        "load 2 3 " + h([1, 2, 3, 4, 5, 6]), "reshape_mut -1 4", "tovec", "reshape_mut 4 -1", "reshape -1 4", "reshape_mut -1 3",
        # F25: diag of a non-square matrix
        "load 2 3 " + h([1, 2, 3, 4, 5, 6]), "diag", "t", "diag", "diagmat",
        # F26: arange(0, 1, 0.3) has 4 points
        "arange %s %s %s" % (f2h(0.0), f2h(1.0), f2h(0.3)),
        # F27: close_to never equates values of opposite sign
        "vclose %s %s %s" % (h([1.0]), h([-1.0]), f2h(1e-9)),
        "load 1 2 " + h([1.0, 2.0]), "close 1 2 %s %s" % (h([-1.0, 2.0]), f2h(1e-9)), "close 1 2 %s %s" % (h([1.0, 2.0]), f2h(1e-9)),
        # F33: zero-sized shapes are accepted when the data is empty
        "zeros 0 3", "load 0 0 0",
        # non-square transposes in both forms, concatenations with self
        "load 2 3 " + h([1, 2, 3, 4, 5, 6]), "t", "t_mut", "hcat 2 1 " + h([7, 8]), "vcat 1 4 " + h([9, 10, 11, 12]), "hrepeat 2", "vrepeat 2",
        "rot cw z " + one, "rot ccw z " + one,
        "linspace %s %s 6" % (f2h(2.0), f2h(4.0)),
        # F38: is_upper_triangular on a matrix with nrows >= ncols + 2 answers instead of panicking
        "load 3 1 " + h([1.0, 0.0, 0.0]), "is_up", "is_lo", "load 4 2 " + h([1, 2, 0, 3, 0, 0, 0, 0]), "is_up",
        "load 4 2 " + h([1, 2, 0, 3, 0, 0, 0, 5]), "is_up",
        # F39: linspace with a single point is the start point
        "linspace %s %s 1" % (f2h(0.0), f2h(1.0)), "linspace %s %s 1" % (f2h(2.0), f2h(2.0)), "linspace %s %s 2" % (f2h(0.0), f2h(1.0)),
        # round-7 seed C15p: "small angle fast path" (sin x = x, cos x = 1 - x^2/2 for |x| < 1e-2)
        "rot cw x " + f2h(0.009), "rot ccw x " + f2h(0.009), "rot cw z " + f2h(-1e-3), "rot ccw z " + f2h(-1e-3),
        "rot cw y " + f2h(2.0 ** -7), "rot ccw y " + f2h(2.0 ** -7),
        # adopted reading for the absolute-epsilon PartialEq: opposite signs within EPSILON of zero ARE equal (definition)
        "veq %s %s" % (h([1e-17]), h([-1e-17])), "veq %s %s" % (h([1.0]), h([-1.0])), "veq %s %s" % (h([2e-16]), h([-2e-16])),
        # seeded change C15d: sign test by `a * b < 0` misses pairs whose product underflows to -0.0
        "vclose %s %s %s" % (h([1e-300]), h([-1e-300]), f2h(0.0)),
        "vclose %s %s %s" % (h([1.0, 1e-170, 2.0]), h([1.0, -1e-170, 2.0]), f2h(1e-6)),
        "load 1 2 " + h([-1e-320, 1.0]), "close 1 2 %s %s" % (h([1e-320, 1.0]), f2h(1.0)),
        "vclose %s %s %s" % (h([1e200]), h([-1e200]), f2h(float("inf"))),
        "vclose %s %s %s" % (h([1e-300]), h([1e-300]), f2h(0.0)),
    ]


def gen(rng, tier):
    lines = []
    cover = {}
    nprog = 500 if tier == "quick" else 12000
    for _ in range(nprog):
        gen_program(rng, lines, cover, rng.randint(1, 40))
    for ln in range(0, 4200 if tier == "thorough" else 300):
        lines.append("is_square_u %d" % ln)
    gen_stateless(rng, lines, cover, 2500 if tier == "quick" else 60000)
    gen_sign_strata(rng, lines, cover, 1500 if tier == "quick" else 30000)
    gen_directed(rng, lines, cover, 1 if tier == "quick" else 8)
    gen_extra(rng, lines, cover, 1 if tier == "quick" else 8)
    gen_scalar_strata(rng, lines, cover, tier != "quick")
    cover["programs"] = nprog
    cover["max_observed_error_in_eps"] = OBS   # filled by the oracle (same dict object): calibration of VDM_C, LIN_C, ROT_C
    return lines, cover


def nontrivial(line, reply):
    t = line.split()
    if not t or reply.startswith("#"):
        return None
    st, toks = parse_reply(reply)
    if t[0] in STATE_OPS or t[0] in XSTATE_OPS:
        return "%s:%s" % (t[0], "panic" if st == "panic" else " ".join(toks[:2]))
    if t[0] in QUERY_OPS:
        return "%s:%s:%s" % (t[0], " ".join(t[1:3]), "panic" if st == "panic" else (toks[0] if toks else ""))
    if t[0] in ("arange", "linspace", "rot"):
        return "%s:%s" % (t[0], " ".join(t[1:4]))
    return "%s:%s:%s" % (t[0], t[1] if len(t) > 1 else "", "panic" if st == "panic" else (toks[0] if toks else ""))

# --- deep theorems (C15Sim)
PROOF_MODULES = PROOF_MODULES + ['Compute.Props.C15Sim']
REQUIRED_THEOREMS = REQUIRED_THEOREMS + ['Cv.C15Sim.applyOp_sim', 'Cv.C15Sim.simulation', 'Cv.C15Sim.simulation_keep', 'Cv.C15Sim.simulation_nonempty', 'Cv.C15Sim.run_count', 'Cv.C15Sim.queries_sim', 'Cv.C15Sim.proper_necessary']
NOT_PROVED = [x for x in NOT_PROVED if not any(k in str(x) for k in ('one simulation theorem', 'operation by operation'))]
NOT_PROVED = NOT_PROVED + ['the whole-program simulation theorem (Props/C15Sim: every program of the 19 operations commutes with an independent list-of-rows reference, panics included) holds for programs that never apply an operation to a 0-row matrix: a list of rows cannot represent a 0 x c matrix with c > 0 (proper_necessary shows the side condition cannot be dropped)']

# --- source tie, in-place mutation / nested loops / decision trees (tools/rs2lean.py mut=True: regenerated from /repo/src into
# Generated/SrcC15Mut.lean and proved equal to the hand model in Props/SrcTieC15Mut.lean)
from . import srctie
srctie.wire_mut(globals(), 'C15')
