import Compute.Props.C13
import Compute.Props.C01SolveApps
import Mathlib.Analysis.SpecialFunctions.Pow.Real
import Mathlib.LinearAlgebra.Matrix.Determinant.Basic
/-
C13 — review additions: an instantiation of `Cv.C01Solve.ar_fit_total` over `ℝ` (its hypothesis "exact `sqrt`" cannot
be met over `ℚ`), with every hypothesis discharged on an order-2 fit whose coefficient reversal is visible.
-/
namespace Cv.C13R
open Cv Cv.TS Cv.C13 Cv.C01Solve Cv.LA

section real

/-- `Transc ℝ` with Mathlib's `Real.sqrt` and `|·|` (the other fields are not used by the solver). -/
noncomputable local instance (priority := high) instTranscRealC13R : Cv.Transc ℝ where
  sqrt := Real.sqrt
  exp := Real.exp
  ln := Real.log
  pow := Real.rpow
  sin := Real.sin
  cos := Real.cos
  tan := Real.tan
  abs x := |x|
  floor x := ⌊x⌋
  ceil x := ⌈x⌉

/-- the data of the witness: `1, 0, −1, 0` -/
def exData : List ℝ := [1, 0, -1, 0]

theorem exData_var : acovS exData 0 = 1 / 2 := by
  norm_num [acovS, meanS, exData, Finset.sum_range_succ]

theorem exData_r1 : acf exData 1 = 0 := by
  rw [acf_def exData 1 (by rw [exData_var]; norm_num)]
  norm_num [acovS, meanS, exData, Finset.sum_range_succ]

theorem exData_r2 : acf exData 2 = -1 / 2 := by
  rw [acf_def exData 2 (by rw [exData_var]; norm_num)]
  norm_num [acovS, meanS, exData, Finset.sum_range_succ]

theorem exData_r0 : acf exData 0 = 1 := acf_zero exData (by rw [exData_var]; norm_num)

/-- the autocorrelation matrix of the witness is non-singular (it is the identity) -/
theorem exData_det : (toMatrix 2 (toeplitz ((fitAcf 2 exData).take 2))).det ≠ 0 := by
  have hd : exData ≠ [] := by simp [exData]
  have e : ∀ a b : Nat, a < 2 → b < 2 → rd (toeplitz ((fitAcf 2 exData).take 2)) (a * 2 + b) =
      acf exData ((if b ≤ a then a - b else b - a : Nat) : Int) := by
    intro a b ha hb
    obtain ⟨hl, he⟩ := fit_toeplitz_entry 2 exData hd a b ha hb
    rw [← he, bang_eq_rd _ _ (by rw [hl]; omega)]
  rw [Matrix.det_fin_two]
  simp only [toMatrix]
  have e00 := e 0 0 (by norm_num) (by norm_num)
  have e01 := e 0 1 (by norm_num) (by norm_num)
  have e10 := e 1 0 (by norm_num) (by norm_num)
  have e11 := e 1 1 (by norm_num) (by norm_num)
  norm_num at e00 e01 e10 e11
  simp only [Fin.val_zero, Fin.val_one, Fin.isValue]
  norm_num
  rw [e00, e01, e10, e11, exData_r0, exData_r1]
  norm_num

/-- **`ar_fit_total` instantiated over `ℝ`**, every hypothesis discharged: the order-2 fit of `1, 0, −1, 0` does not
panic and its coefficients solve the Yule–Walker equations. -/
theorem ar_fit_total_real_example :
    ∃ ic co, arFit 2 exData = some (ic, co) ∧ co.length = 2 ∧
      ∀ i, i < 2 →
        ∑ j ∈ Finset.range 2, acf exData ((if j ≤ i then i - j else j - i : Nat) : Int) * co.reverse[j]! =
          acf exData ((i + 1 : Nat) : Int) :=
  ar_fit_total (fun _ => rfl) (fun x hx => Real.sqrt_pos.mpr hx)
    (fun x hx => Real.mul_self_sqrt (le_of_lt hx)) 2 exData (by simp [exData]) (by norm_num) exData_det

/-- … and the equations pin the coefficients down: `φ₁ = 0`, `φ₂ = −1/2` (stored reversed). -/
theorem ar_fit_total_real_example_coeffs :
    ∃ ic co, arFit 2 exData = some (ic, co) ∧ co.reverse[0]! = 0 ∧ co.reverse[1]! = -1 / 2 := by
  obtain ⟨ic, co, h1, _, h3⟩ := ar_fit_total_real_example
  refine ⟨ic, co, h1, ?_, ?_⟩
  · have := h3 0 (by norm_num)
    norm_num [Finset.sum_range_succ] at this
    rw [exData_r0, exData_r1] at this
    simpa using this
  · have := h3 1 (by norm_num)
    norm_num [Finset.sum_range_succ] at this
    rw [exData_r0, exData_r1, exData_r2] at this
    simpa using this

end real

end Cv.C13R
