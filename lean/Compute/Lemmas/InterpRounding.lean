import Compute.Lemmas.NormRounding
import Compute.Lemmas.C16
import Compute.Model.Interp
/-
Worst-case rounding-error analysis of the interior formula of `interp1d_linear`
(`Model/Interp.lean`, `interpOne`): `ratio*y[i] + (1-ratio)*y[i-1]`, `ratio = (t-x[i-1])/(x[i]-x[i-1])`,
in the standard model, and exactness at the knots.
-/
namespace Cv.Rounding2
open Cv Cv.FlModel Cv.Rounding Cv.C16

variable {M : FlModel}

/-- the interior formula of the source, in the arithmetic of the scalar type -/
def interiorF {α : Type} [Add α] [Sub α] [Mul α] [Div α] [One α] (t a b ya yb : α) : α :=
  let ratio := (t - a) / (b - a)
  ratio * yb + (1 - ratio) * ya

/-! ### real-number core -/

theorem abs_mul_le_mul {a b A B : ℝ} (ha : |a| ≤ A) (hb : |b| ≤ B) : |a * b| ≤ A * B := by
  rw [abs_mul]; exact mul_le_mul ha hb (abs_nonneg _) (le_trans (abs_nonneg _) ha)

theorem interior_core (r ya yb P q e g3 g5 Y : ℝ) (hr0 : 0 ≤ r) (hr1 : r ≤ 1)
    (hP : |P - 1| ≤ g5) (hq : |q - 1| ≤ g3) (he : |e - 1| ≤ g3) (h35 : g3 ≤ g5)
    (hya : |ya| ≤ Y) (hyb : |yb| ≤ Y) :
    |r * yb * P + (1 - r * e) * ya * q - (ya + r * (yb - ya))| ≤ (g5 + g3 + g5 * g3) * Y := by
  have hg3 : 0 ≤ g3 := le_trans (abs_nonneg _) hq
  have hg5 : 0 ≤ g5 := le_trans (abs_nonneg _) hP
  have hY : 0 ≤ Y := le_trans (abs_nonneg _) hya
  have key : r * yb * P + (1 - r * e) * ya * q - (ya + r * (yb - ya)) =
      r * yb * (P - 1) + ya * (1 - r) * (q - 1) - ya * r * (e - 1) * q := by ring
  have hr : |r| ≤ r := le_of_eq (abs_of_nonneg hr0)
  have hr' : |1 - r| ≤ 1 - r := le_of_eq (abs_of_nonneg (by linarith))
  have hq1 : |q| ≤ 1 + g3 := by
    have : q = 1 + (q - 1) := by ring
    rw [this]
    refine le_trans (abs_add_le _ _) ?_
    simpa using hq
  have a1 : |r * yb * (P - 1)| ≤ r * Y * g5 := abs_mul_le_mul (abs_mul_le_mul hr hyb) hP
  have a2 : |ya * (1 - r) * (q - 1)| ≤ Y * (1 - r) * g3 := abs_mul_le_mul (abs_mul_le_mul hya hr') hq
  have a3 : |ya * r * (e - 1) * q| ≤ Y * r * g3 * (1 + g3) :=
    abs_mul_le_mul (abs_mul_le_mul (abs_mul_le_mul hya hr) he) hq1
  rw [key]
  have b1 := abs_sub (r * yb * (P - 1) + ya * (1 - r) * (q - 1)) (ya * r * (e - 1) * q)
  have b2 := abs_add_le (r * yb * (P - 1)) (ya * (1 - r) * (q - 1))
  have c1 : r * Y * g5 ≤ Y * g5 := by nlinarith [mul_nonneg hY hg5]
  have c2 : Y * r * g3 * (1 + g3) ≤ Y * r * g3 + Y * g3 * g5 := by
    have : r * g3 * g3 ≤ 1 * g3 * g5 := by
      have h1 : r * g3 ≤ 1 * g3 := mul_le_mul_of_nonneg_right hr1 hg3
      exact mul_le_mul h1 h35 hg3 (by linarith)
    nlinarith
  nlinarith

/-! ### the interior formula in rounded arithmetic -/

theorem rnd_pos_of_pos {d : ℝ} (hd : 0 < d) : 0 < M.rnd d := by
  obtain ⟨δ, hδ, h⟩ := M.std d
  rw [h]
  have := (Fac.one_add hδ).pos
  positivity

/-- **structure of the computed interior value**: `v̂ = r·y_b·P + (1 − r·e)·y_a·q` with `r` the exact
ratio, `e`, `q` 3-fold and `P` a 5-fold rounding factor -/
theorem interiorF_struct (t a b ya yb : Fl M) :
    ∃ e P q : ℝ, M.Fac 3 e ∧ M.Fac 5 P ∧ M.Fac 3 q ∧
      (interiorF t a b ya yb).val =
        (t.val - a.val) / (b.val - a.val) * yb.val * P
          + (1 - (t.val - a.val) / (b.val - a.val) * e) * ya.val * q := by
  obtain ⟨δ1, hδ1, h1⟩ := M.std (t.val - a.val)
  obtain ⟨δ2, hδ2, h2⟩ := M.std (b.val - a.val)
  obtain ⟨δ3, hδ3, h3⟩ := M.std (M.rnd (t.val - a.val) / M.rnd (b.val - a.val))
  set rh := M.rnd (M.rnd (t.val - a.val) / M.rnd (b.val - a.val)) with hrh
  obtain ⟨δ4, hδ4, h4⟩ := M.std (rh * yb.val)
  obtain ⟨δ5, hδ5, h5⟩ := M.std (1 - rh)
  obtain ⟨δ6, hδ6, h6⟩ := M.std (M.rnd (1 - rh) * ya.val)
  obtain ⟨δ7, hδ7, h7⟩ := M.std (M.rnd (rh * yb.val) + M.rnd (M.rnd (1 - rh) * ya.val))
  have he : M.Fac 3 ((1 + δ1) * (1 + δ3) * (1 + δ2)⁻¹) :=
    ((Fac.one_add hδ1).mul (Fac.one_add hδ3)).mul (Fac.one_add hδ2).inv
  have hrh' : rh = (t.val - a.val) / (b.val - a.val) * ((1 + δ1) * (1 + δ3) * (1 + δ2)⁻¹) := by
    rw [h3, h1, h2, div_eq_mul_inv, div_eq_mul_inv, mul_inv]; ring
  refine ⟨(1 + δ1) * (1 + δ3) * (1 + δ2)⁻¹, (1 + δ1) * (1 + δ3) * (1 + δ2)⁻¹ * ((1 + δ4) * (1 + δ7)),
    (1 + δ5) * (1 + δ6) * (1 + δ7), he, he.mul ((Fac.one_add hδ4).mul (Fac.one_add hδ7)),
    ((Fac.one_add hδ5).mul (Fac.one_add hδ6)).mul (Fac.one_add hδ7), ?_⟩
  show M.rnd (M.rnd (rh * yb.val) + M.rnd (M.rnd ((1 : ℝ) - rh) * ya.val)) = _
  rw [h7, h4, h6, h5]
  clear_value rh
  subst hrh'
  ring

/-- **Forward error of the interior formula** (standard model only): for `a < b`, `a ≤ t ≤ b` the
computed `ratio*y_b + (1-ratio)*y_a` is within `γ₈·max(|y_a|,|y_b|)` of the point on the chord. -/
theorem interiorF_error (t a b ya yb : Fl M) (hab : a.val < b.val) (hat : a.val ≤ t.val)
    (htb : t.val ≤ b.val) (h : ((8 : Nat) : ℝ) * M.u < 1) :
    |(interiorF t a b ya yb).val -
        (ya.val + (t.val - a.val) / (b.val - a.val) * (yb.val - ya.val))| ≤
      M.γ 8 * max |ya.val| |yb.val| := by
  obtain ⟨e, P, q, he, hP, hq, hv⟩ := interiorF_struct t a b ya yb
  have hu := M.u_nonneg
  have h3 : ((3 : Nat) : ℝ) * M.u < 1 := by push_cast at h ⊢; linarith
  have h5 : ((5 : Nat) : ℝ) * M.u < 1 := by push_cast at h ⊢; linarith
  have hd : 0 < b.val - a.val := by linarith
  have hr0 : 0 ≤ (t.val - a.val) / (b.val - a.val) := div_nonneg (by linarith) hd.le
  have hr1 : (t.val - a.val) / (b.val - a.val) ≤ 1 := by rw [div_le_one hd]; linarith
  rw [hv]
  have := interior_core _ ya.val yb.val P q e (M.γ 3) (M.γ 5) (max |ya.val| |yb.val|) hr0 hr1
    (hP.abs_sub_one_le h5) (hq.abs_sub_one_le h3) (he.abs_sub_one_le h3)
    (M.γ_mono (by omega) h5) (le_max_left _ _) (le_max_right _ _)
  refine le_trans this (mul_le_mul_of_nonneg_right ?_ (le_trans (abs_nonneg _) (le_max_left _ _)))
  exact M.γ_add_le 5 3 h

/-- **exactness at the left knot**: `t = a` returns `y_a` when `y_a` is representable and `rnd 1 = 1` -/
theorem interiorF_left (a b ya yb : Fl M) (h1 : M.rnd 1 = 1) (hya : ya.Rep) :
    interiorF a a b ya yb = ya := by
  apply Fl.ext
  show M.rnd (M.rnd (M.rnd (M.rnd (a.val - a.val) / M.rnd (b.val - a.val)) * yb.val)
    + M.rnd (M.rnd ((1 : ℝ) - M.rnd (M.rnd (a.val - a.val) / M.rnd (b.val - a.val))) * ya.val)) = ya.val
  have hya' : M.rnd ya.val = ya.val := hya
  simp [M.rnd_zero, h1, hya']

/-- **exactness at the right knot**: `t = b` returns `y_b` when `y_b` is representable, `rnd 1 = 1`
and `a < b` -/
theorem interiorF_right (a b ya yb : Fl M) (hab : a.val < b.val) (h1 : M.rnd 1 = 1) (hyb : yb.Rep) :
    interiorF b a b ya yb = yb := by
  apply Fl.ext
  show M.rnd (M.rnd (M.rnd (M.rnd (b.val - a.val) / M.rnd (b.val - a.val)) * yb.val)
    + M.rnd (M.rnd ((1 : ℝ) - M.rnd (M.rnd (b.val - a.val) / M.rnd (b.val - a.val))) * ya.val)) = yb.val
  have hyb' : M.rnd yb.val = yb.val := hyb
  have hd : M.rnd (b.val - a.val) ≠ 0 := (rnd_pos_of_pos (by linarith)).ne'
  rw [div_self hd, h1]
  simp [M.rnd_zero, hyb']

/-! ### the tie to `interpOne` at `Fl M` -/

theorem scanIdx_val (t : Fl M) (l : List (Fl M)) : scanIdx t l = scanIdx t.val (vals l) := by
  induction l with
  | nil => rfl
  | cons a l ih =>
    simp only [scanIdx, vals, List.map_cons]
    by_cases h : t.val < a.val
    · rw [if_pos (show a > t from h), if_pos (show a.val > t.val from h)]
    · rw [if_neg (show ¬ a > t from h), if_neg (show ¬ a.val > t.val from h)]
      simp only [vals] at ih
      rw [ih]

theorem idx_val (t : Fl M) (x : List (Fl M)) :
    scanIdx t (x.take (x.length - 1)) = idxOf (vals x) t.val := by
  rw [scanIdx_val]
  unfold idxOf
  simp [vals, List.map_take]

theorem bang_val (x : List (Fl M)) (i : Nat) (hi : i < x.length) :
    (x[i]!).val = (vals x)[i]'(by simpa [vals] using hi) := by
  rw [getElem!_pos x i hi]
  simp [vals]

/-- what `interpOne` computes inside the data range, at `Fl M` (comparisons are exact) -/
theorem interpOne_interior (x y : List (Fl M)) (mode : ExtrapMode (Fl M)) (t : Fl M)
    (hn : x.length ≠ 0) (h0 : scanIdx t (x.take (x.length - 1)) ≠ 0)
    (hr : ¬ (x[x.length - 1]!).val < t.val) :
    interpOne x y mode t = some (interiorF t
      x[scanIdx t (x.take (x.length - 1)) - 1]! x[scanIdx t (x.take (x.length - 1))]!
      y[scanIdx t (x.take (x.length - 1)) - 1]! y[scanIdx t (x.take (x.length - 1))]!) := by
  unfold interpOne
  simp only [hn, if_false]
  rw [if_neg (by
    simp only [gt_iff_lt, not_or]
    exact ⟨h0, hr⟩)]
  rfl

theorem bang_val' (x : List (Fl M)) (i : Nat) (hi : i < x.length) : (x[i]!).val = (vals x)[i]! := by
  have hi' : i < (vals x).length := by simpa [vals] using hi
  rw [bang_val x i hi, getElem!_pos (vals x) i hi']

/-- bracketing by the scan, including the last knot -/
theorem bracket_le {x y : List ℝ} (hk : Knots x y) (t : ℝ)
    (h0 : x[0]'(by have := hk.two; omega) ≤ t) (h1 : t ≤ x[x.length - 1]'(by have := hk.two; omega)) :
    ∃ (_ : 1 ≤ idxOf x t) (_ : idxOf x t < x.length), x[idxOf x t - 1] ≤ t ∧ t ≤ x[idxOf x t] := by
  have h2 := hk.two
  rcases lt_or_eq_of_le h1 with hlt | heq
  · obtain ⟨a, b, c, d⟩ := scan_brackets hk t h0 hlt
    exact ⟨a, b, c, d.le⟩
  · have hi := idxOf_right hk t (le_of_eq heq.symm)
    refine ⟨by omega, by omega, ?_, ?_⟩
    · simp only [hi]
      exact le_of_le_of_eq (hk.le (by omega) (by omega)) heq.symm
    · simp only [hi]; exact h1

/-- **C16, interior branch, rounded arithmetic**: for strictly increasing knots and a target inside
`[x₀, x_{n-1}]` the call succeeds and the value is within `γ₈·max(|y_{i-1}|,|y_i|)` (`γ₈ ≈ 8u`; the
oracle checks `16u`) of the point `lineAt` on the chord through the two neighbouring knots
(`i = idxOf` the index found by the scan, `x_{i-1} ≤ t ≤ x_i`). -/
theorem interpOne_error (x y : List (Fl M)) (mode : ExtrapMode (Fl M)) (t : Fl M)
    (hk : Knots (vals x) (vals y))
    (h0 : (vals x)[0]'(by have := hk.two; omega) ≤ t.val)
    (h1 : t.val ≤ (vals x)[(vals x).length - 1]'(by have := hk.two; omega))
    (h : ((8 : Nat) : ℝ) * M.u < 1) :
    ∃ v, interpOne x y mode t = some v ∧
      |v.val - lineAt (vals x) (vals y) (idxOf (vals x) t.val) t.val| ≤
        M.γ 8 * max |(vals y)[idxOf (vals x) t.val - 1]!| |(vals y)[idxOf (vals x) t.val]!| := by
  have h2 := hk.two
  have hlx : (vals x).length = x.length := by simp [vals]
  have hly : (vals y).length = y.length := by simp [vals]
  have hxy : x.length = y.length := by rw [← hlx, ← hly]; exact hk.len
  obtain ⟨hi0, hi1, hb0, hb1⟩ := bracket_le hk t.val h0 h1
  set i := idxOf (vals x) t.val with hi
  have hn : x.length ≠ 0 := by omega
  have hidx : scanIdx t (x.take (x.length - 1)) = i := idx_val t x
  have hr : ¬ (x[x.length - 1]!).val < t.val := by
    rw [bang_val x _ (by omega)]
    simp only [hlx] at h1
    exact not_lt.mpr h1
  refine ⟨_, interpOne_interior x y mode t hn (by rw [hidx]; omega) hr, ?_⟩
  rw [hidx]
  have ea : (x[i - 1]!).val = (vals x)[i - 1]! := bang_val' x _ (by omega)
  have eb : (x[i]!).val = (vals x)[i]! := bang_val' x _ (by omega)
  have eya : (y[i - 1]!).val = (vals y)[i - 1]! := bang_val' y _ (by omega)
  have eyb : (y[i]!).val = (vals y)[i]! := bang_val' y _ (by omega)
  have ga : (vals x)[i - 1]! = (vals x)[i - 1]'(by omega) := getElem!_pos _ _ (by omega)
  have gb : (vals x)[i]! = (vals x)[i]'(by omega) := getElem!_pos _ _ (by omega)
  have hab : (x[i - 1]!).val < (x[i]!).val := by
    rw [ea, eb, ga, gb]; exact hk.lt (by omega) (by omega)
  have := interiorF_error t x[i - 1]! x[i]! y[i - 1]! y[i]! hab (by rw [ea, ga]; exact hb0)
    (by rw [eb, gb]; exact hb1) h
  rw [ea, eb, eya, eyb] at this
  unfold lineAt
  exact this

/-- **C16, value at the knots, rounded arithmetic**: a target equal to the knot `x_k` returns exactly
`y_k`, provided `y_k` is representable and `rnd 1 = 1` (both true of `f64`). -/
theorem interpOne_knot_exact (x y : List (Fl M)) (mode : ExtrapMode (Fl M))
    (hk : Knots (vals x) (vals y)) (k : Nat) (hkn : k < x.length) (h1 : M.rnd 1 = 1)
    (hy : (y[k]!).Rep) :
    interpOne x y mode x[k]! = some y[k]! := by
  have h2 := hk.two
  have hlx : (vals x).length = x.length := by simp [vals]
  have hly : (vals y).length = y.length := by simp [vals]
  have hxy : x.length = y.length := by rw [← hlx, ← hly]; exact hk.len
  have ht : (x[k]!).val = (vals x)[k]'(by omega) := bang_val x k hkn
  have h0 : (vals x)[0]'(by omega) ≤ (x[k]!).val := by rw [ht]; exact hk.le (Nat.zero_le k) (by omega)
  have hlast : (x[k]!).val ≤ (vals x)[(vals x).length - 1]'(by omega) := by
    rw [ht]; exact hk.le (by omega) (by omega)
  obtain ⟨hi0, hi1, hb0, hb1⟩ := bracket_le hk (x[k]!).val h0 hlast
  have hn : x.length ≠ 0 := by omega
  have hidx : scanIdx x[k]! (x.take (x.length - 1)) = idxOf (vals x) (x[k]!).val := idx_val _ x
  have hr : ¬ (x[x.length - 1]!).val < (x[k]!).val := by
    rw [bang_val x _ (by omega)]
    simp only [hlx] at hlast
    exact not_lt.mpr hlast
  rw [interpOne_interior x y mode x[k]! hn (by rw [hidx]; omega) hr, hidx]
  by_cases hkl : k = x.length - 1
  · -- last knot: the scan runs through, `t = x_i`
    have hi : idxOf (vals x) (x[k]!).val = x.length - 1 := by
      have := idxOf_right hk (x[k]!).val (by rw [ht]; simp only [hlx, hkl]; exact le_refl _)
      rw [this, hlx]
    rw [hi, ← hkl]
    have hab : (x[k - 1]!).val < (x[k]!).val := by
      rw [bang_val x (k - 1) (by omega), bang_val x k hkn]
      exact hk.lt (by omega) (by omega)
    rw [interiorF_right _ _ _ _ hab h1 hy]
  · -- `x_k ≤ t < x_{k+1}`: the scan stops at `k + 1`, `t = x_{i-1}`
    have hlt : (x[k]!).val < (vals x)[(vals x).length - 1]'(by omega) := by
      rw [ht]; exact hk.lt (by omega) (by omega)
    obtain ⟨_, _, c, d⟩ := scan_brackets hk (x[k]!).val h0 hlt
    have c' := le_of_le_of_eq c ht
    have d' := lt_of_eq_of_lt ht.symm d
    have hi : idxOf (vals x) (x[k]!).val = k + 1 := by
      by_contra hne
      rcases Nat.lt_or_ge (idxOf (vals x) (x[k]!).val) (k + 1) with h' | h'
      · have := hk.le (i := idxOf (vals x) (x[k]!).val) (j := k) (by omega) (by omega)
        exact absurd (lt_of_lt_of_le d' this) (lt_irrefl _)
      · have := hk.lt (i := k) (j := idxOf (vals x) (x[k]!).val - 1) (by omega) (by omega)
        exact absurd (lt_of_lt_of_le this c') (lt_irrefl _)
    rw [hi, Nat.add_sub_cancel, interiorF_left _ _ _ _ h1 hy]

end Cv.Rounding2
