"""C08 — descriptive statistics equal their textbook definitions.

Request lines (implementation side): `<op> <form> <tag> <args>`; `form` 0 = free function on a slice, 1 = Vector
method / Vector argument, 2 = Matrix method (mean var sample_var std sample_std min max on an r x c matrix); `tag` = `<regime>[:<group>:<k>]` (group = metamorphic family: exact shifts by a constant
or power-of-two scalings of one base data set).  The model sees `<op> <args>`.

Oracle.  Reference values are exact rationals (every double is a dyadic rational; sums of products are computed
with Python integers).  Tolerances are those of a numerically stable (backward stable) algorithm:

  mean         |r - mu|          <= C_MEAN * n*eps * max|x|
  co-moment S = sum (x-mx)(y-my)  (variance: y = x)
               |S_r - S|         <= C_S * ( n*eps * (|x|_2 sqrt(M2y) + |y|_2 sqrt(M2x))/2  +  n*eps^2 |x|_2 |y|_2 )
  i.e. relative error n*eps*kappa with kappa = |x|_2/sqrt(M2) the condition number of the variance (Chan, Golub,
  LeVeque 1983: bound of the updating (Welford/West) algorithm); the second-order term is what separates a stable
  algorithm from the textbook sum-of-squares formula (whose error is eps*|x|^2, a factor 1/(n*eps) larger).
  std          |r^2 - var|       <= bound(var) + 4 eps var
  min / max / argmin / argmax / Matrix argmin/argmax : exact (value equality; first index attaining it)
  hist_bin_centers: one rounding of the exact midpoint: |r - mid| <= 2^-52 |mid|
  exact shifts: members of a group have the same exact statistic; pairwise difference <= sum of their bounds
  power-of-two scalings: bit-exact s^p * base (p = 1 mean/std/min/max, 2 var/cov), indices unchanged.

Calibration (VERIF_SEED=1..5, quick+thorough, CV_CALIB=1 prints the maxima): see C_MEAN, C_S below.
"""
import math
import os
from fractions import Fraction

from .common import Failure, f2h, h2f, parse_reply, vec

ID = "C08"
BIN = "c08"
PROOF_MODULES = ["Compute.Props.C08"]
REQUIRED_THEOREMS = [
    "Cv.C08.welford_inv",
    "Cv.C08.var_eq", "Cv.C08.sampleVar_eq", "Cv.C08.std_eq", "Cv.C08.sampleStd_eq",
    "Cv.C08.welfordMean_eq", "Cv.C08.mean_eq", "Cv.C08.means_agree",
    "Cv.C08.covariance_eq", "Cv.C08.sampleCovariance_eq",
    "Cv.C08.onepass_eq_sampleCovariance", "Cv.C08.online_eq_sampleCovariance",
    "Cv.C08.var_shift", "Cv.C08.var_scale", "Cv.C08.cov_shift", "Cv.C08.cov_scale",
    "Cv.C08.argmin_first_min", "Cv.C08.argmax_first_max",
    "Cv.C08.minFold_eq", "Cv.C08.maxFold_eq",
    "Cv.C08.matArgmin_eq", "Cv.C08.histBinCenters_eq",
]
RULE = ("15 statistics x 2 call forms x 11 data regimes (small integers, gaussian, offset with mean/sd up to 1e8, "
        "constant, sorted, reversed, tied, signed zeros, exact-shift families, power-of-two scaling families, "
        "non-finite [correspondence only]) x lengths 0..1e4; non-trivial = distinct (op, regime, length) class")
EXHAUSTIVE = {"quick": False, "thorough": False}
NOT_PROVED = [
    "floating-point rounding: the 'within the rounding-error bound of a numerically stable algorithm' clause is "
    "decided by the oracle (exact rational reference, condition-number-scaled bound), not by a theorem",
    "argmin/argmax for data containing +inf/-inf or values beyond the f64::MAX/f64::MIN seeds (documented: "
    "argmin [inf, MAX] = 0); the theorems assume every datum <= seed (>= seed), true of all finite doubles",
]
TRUSTED = ["Iterator::sum::<f64>() folds from -0.0 and f64::min/max keep the accumulator on ties (observed, compared bit for bit)"]
ASSUMPTIONS = ["data finite, |x| in [1e-100, 1e100] or 0 (no overflow/underflow of squares); lengths < 2^53"]

EPS = 2.0 ** -53
# calibrated: max observed ratio error/(bound with C = 1) over VERIF_SEED=1..5 quick and one thorough run:
#   mean 0.51, welford mean 0.50, var/svar 0.74, std 0.50, cov 0.76, scov 0.69, onepass 1.60 (sorted data: the
#   shift x[0] is an extreme), online 0.99   ->  C >= 100 x those.  (Theory: constants of 4..8 for n*eps*kappa.)
C_MEAN = 64.0
C_S = 200.0
TINY = 1e-300

UNARY = ["mean", "wmean", "var", "svar", "std", "sstd", "min", "max", "argmin", "argmax"]
COVS = ["cov", "scov", "scov1", "scovo"]


# ------------------------------------------------------------------ generator
def model_line(line):
    t = line.split()
    return " ".join([t[0]] + t[3:])


def gen_data(rng, regime, n):
    if regime == "int":
        return [float(rng.randint(-50, 50)) for _ in range(n)]
    if regime == "gauss":
        s = 10.0 ** rng.randint(-3, 3)
        return [rng.normal() * s for _ in range(n)]
    if regime == "offset":
        sd = 10.0 ** rng.randint(-2, 2)
        mu = sd * 10.0 ** rng.uniform(0, 8) * rng.choice([1.0, -1.0])
        return [mu + sd * rng.normal() for _ in range(n)]
    if regime == "const":
        c = rng.choice([0.0, -0.0, 1.0, rng.normal() * 10.0 ** rng.randint(-3, 8), 0.1, 1e8 + 0.1])
        return [c] * n
    if regime in ("sorted", "reversed"):
        base = gen_data(rng, rng.choice(["gauss", "offset", "int"]), n)
        base.sort(reverse=(regime == "reversed"))
        return base
    if regime == "tied":
        pool = [rng.normal() for _ in range(rng.randint(1, 4))] + [float(rng.randint(-3, 3))]
        return [rng.choice(pool) for _ in range(n)]
    if regime == "szero":
        pool = [0.0, -0.0, 0.0, -0.0, rng.choice([1.0, -1.0, 5e-324, -5e-324, 0.5])]
        return [rng.choice(pool) for _ in range(n)]
    if regime == "nonfinite":
        pool = [float("inf"), float("-inf"), float("nan"), 1.7976931348623157e308, -1.7976931348623157e308,
                0.0, -0.0, 1.0, -1.0, rng.normal()]
        return [rng.choice(pool) for _ in range(n)]
    raise ValueError(regime)


def grid_data(rng, n):
    """multiples of 2^-10 in (-2^10, 2^10): adding an integer |c| <= 2^30 is exact."""
    return [rng.randint(-(1 << 20) + 1, (1 << 20) - 1) / 1024.0 for _ in range(n)]


def pick_n(rng, tier, lo=0):
    r = rng.random()
    if r < 0.45:
        return rng.randint(lo, 20)
    if r < 0.85:
        return rng.randint(lo, 300)
    if r < 0.97 or tier == "quick" and r < 0.995:
        return rng.randint(300, 2000)
    return rng.randint(2000, 10000)


def unary_lines(rng, ops, tag, d):
    # form 0 = free function, 1 = Vector method, 2 = Matrix method (the seven macro-generated reductions of
    # matrix.rs on an r x c matrix holding the same data; for the other ops form 2 is the Vector route)
    return ["%s %d %s %s" % (op, rng.randint(0, 2), tag, vec(d)) for op in ops]


def cov_lines(rng, tag, x, y):
    return ["%s %d %s %s %s" % (op, rng.randint(0, 1), tag, vec(x), vec(y)) for op in COVS]


def corpus():
    L = []
    # witnesses of the repaired defects F17, F18, F19
    L += cov_lines(_ZeroRng(), "int", [0.0, 1.0, 2.0], [0.0, 1.0, 2.0])
    L.append("hbc 0 int " + vec([0.0, 1.0, 3.0, 7.0]))
    # panics / degenerate sizes
    L += ["svar 0 int 0", "sstd 1 int 0", "scov 0 int 0 0", "scov1 0 int 0 0", "scovo 0 int 0 0", "cov 0 int 0 0",
          "cov 0 int " + vec([1.0]) + " " + vec([1.0, 2.0]), "margmin 0 int 0 0", "margmax 0 int 2 0", "margmin 0 int 0 3",
          "mean 0 int 0", "var 0 int 0", "min 0 int 0", "argmin 0 int 0", "hbc 0 int 0", "hbc 1 int " + vec([1.0])]
    # signed zeros and ties
    for d in ([0.0, -0.0], [-0.0, 0.0], [1.0, 1.0, 0.0, 0.0, 2.0, 2.0], [-0.0, -0.0]):
        L += unary_lines(_ZeroRng(), ["min", "max", "argmin", "argmax", "mean", "var"], "szero", d)
    L += cov_lines(_ZeroRng(), "szero", [-0.0, -0.0], [1.0, 1.0])
    # seeds of argmin/argmax
    big = 1.7976931348623157e308
    L += unary_lines(_ZeroRng(), ["argmin", "argmax", "min", "max"], "nonfinite", [float("inf"), big])
    L += unary_lines(_ZeroRng(), ["argmin", "argmax", "min", "max"], "nonfinite", [float("-inf"), -big])
    L += unary_lines(_ZeroRng(), ["argmin", "argmax", "min", "max"], "const", [big, big])
    L += unary_lines(_ZeroRng(), ["argmin", "argmax", "min", "max"], "const", [-big, -big])
    # Matrix call form of the seven reductions (1 x n, n x 1, non-square, empty)
    for d in ([3.0, 1.0, 2.0], [1.0, 2.0, 4.0, 8.0, 16.0, 32.0], [5.0], [], [1.0, -1.0, 0.5, 0.25, 7.0, 7.0, 7.0, 2.0, 9.0, -3.0, 0.0, 11.0]):
        L += ["%s 2 matrixform %s" % (op, vec(d)) for op in ("mean", "var", "svar", "std", "sstd", "min", "max")]
    # heavily offset data (textbook one-pass formula loses everything here)
    L += unary_lines(_ZeroRng(), ["var", "svar", "std", "sstd", "mean", "wmean"], "offset", [1e8 + 1, 1e8 + 2, 1e8 + 3, 1e8 + 4])
    L += cov_lines(_ZeroRng(), "offset", [1e8 + 1, 1e8 + 2, 1e8 + 3, 1e8 + 4], [-1e8 + 4, -1e8 + 3, -1e8 + 2, -1e8 + 1.5])
    return L


class _ZeroRng:
    def randint(self, a, b):
        return a


def gen(rng, tier):
    lines = []
    cover = {}

    def bump(k, c=1):
        cover[k] = cover.get(k, 0) + c

    regimes = ["int", "gauss", "offset", "const", "sorted", "reversed", "tied", "szero"]
    rounds = 60 if tier == "quick" else 700
    for _ in range(rounds):
        for regime in regimes:
            n = pick_n(rng, tier)
            d = gen_data(rng, regime, n)
            ops = UNARY if rng.chance(0.3) else [rng.choice(UNARY) for _ in range(3)]
            lines += unary_lines(rng, ops, regime, d)
            bump("unary:" + regime, len(ops))
            bump("n=0" if n == 0 else "n=1" if n == 1 else "n<=20" if n <= 20 else "n<=300" if n <= 300 else "n<=2000" if n <= 2000 else "n<=10000")
            # paired data
            n = pick_n(rng, tier)
            x = gen_data(rng, regime, n)
            r2 = rng.choice([regime, "gauss", "offset"])
            if rng.chance(0.3):  # correlated
                a, b = rng.normal(), rng.normal() * 10.0 ** rng.randint(-2, 6)
                y = [a * v + b + 0.1 * rng.normal() for v in x]
            else:
                y = gen_data(rng, r2, n)
            if rng.chance(0.03):
                y = y + [1.0]  # length mismatch -> panic
                bump("cov:length-mismatch")
            lines += cov_lines(rng, regime, x, y)
            bump("cov:" + regime, 4)
            # histogram edges
            m = rng.randint(0, 40)
            if rng.chance(0.5):
                lo, w = rng.normal() * 10, rng.loguniform(1e-3, 1e3)
                e = [lo + w * i for i in range(m)]
                bump("hbc:uniform")
            else:
                e = sorted(gen_data(rng, rng.choice(["gauss", "offset", "int"]), m))
                bump("hbc:nonuniform")
            lines.append("hbc %d %s %s" % (rng.randint(0, 1), "edges", vec(e)))
            # matrix wrappers
            r, c = rng.randint(0, 7), rng.randint(0, 7)
            d = gen_data(rng, rng.choice(["tied", "gauss", "int", "szero"]), r * c)
            for op in ("margmin", "margmax"):
                lines.append("%s 0 %s %d %d %s" % (op, "matrix", r, c, " ".join(f2h(v) for v in d)))
            bump("matrix:zero-dim" if r * c == 0 else "matrix")
        # exact shift family
        g = len(lines)
        n = max(2, pick_n(rng, tier, 2))
        zx, zy = grid_data(rng, n), grid_data(rng, n)
        shifts = [(0, 0)] + [(rng.choice([1, -1]) * rng.randint(1, 1 << rng.randint(1, 30)),
                              rng.choice([1, -1]) * rng.randint(1, 1 << rng.randint(1, 30))) for _ in range(2)]
        for k, (cx, cy) in enumerate(shifts):
            x = [v + cx for v in zx]
            y = [v + cy for v in zy]
            tag = "shift:%d:%d" % (g, k)
            lines += unary_lines(rng, ["var", "svar", "std", "sstd"], tag, x)
            lines += cov_lines(rng, tag, x, y)
        bump("shift-family")
        # power-of-two scaling family
        g = len(lines)
        n = max(2, pick_n(rng, tier, 2))
        bx = gen_data(rng, rng.choice(["gauss", "offset", "int", "tied"]), n)
        by = gen_data(rng, rng.choice(["gauss", "offset", "int"]), n)
        for k, (ex, ey) in enumerate([(0, 0), (rng.randint(-20, 20), rng.randint(-20, 20)), (rng.randint(-20, 20), 0)]):
            x = [v * 2.0 ** ex for v in bx]
            y = [v * 2.0 ** ey for v in by]
            tag = "scale:%d:%d:%d:%d" % (g, k, ex, ey)
            lines += unary_lines(rng, UNARY, tag, x)
            lines += cov_lines(rng, tag, x, y)
        bump("scale-family")
        # non-finite data: correspondence only
        d = gen_data(rng, "nonfinite", rng.randint(0, 12))
        lines += unary_lines(rng, ["min", "max", "argmin", "argmax", "mean", "var"], "nonfinite", d)
        bump("nonfinite", 6)
    lines += strata(rng.fork("strata"), tier, bump)
    return lines, cover


# ------------------------------------------------------------------ generic strata (tools/GENERIC_STRATA.md)
BOUNDARY_LENGTHS = [1, 2, 3, 4, 5, 6, 7, 8, 9, 15, 16, 17, 23, 24, 25, 31, 32, 33, 63, 64, 65, 127, 128, 129, 255, 256, 257,
                    511, 512, 513, 1023, 1024, 1025, 1026, 2047, 2048, 2049, 2050, 4095, 4096, 4097, 8191, 8192, 8193, 10000]
BLOCK_LENGTHS = [1023, 1024, 1025, 1026, 2047, 2048, 2049, 2050]


def _nextafter(x, d):
    return math.nextafter(x, d)


def special_pool(rng):
    """exact special values: integers, half-integers, 1/3, 2/3, powers of two and 1-ulp neighbours, 0, -0, +-1,
    tiny and (moderately) huge magnitudes inside the stated data range."""
    k = rng.randint(-30, 30)
    p2 = 2.0 ** k
    return [0.0, -0.0, 1.0, -1.0, 0.5, 1.5, -2.5, 2.0, 3.0, 1.0 / 3.0, 2.0 / 3.0, -1.0 / 3.0, p2, _nextafter(p2, 0.0),
            _nextafter(p2, 4.0 * p2), -p2, 4503599627370496.0, 9007199254740992.0, 1e-300, -1e-300, 5e-324, 2.2250738585072014e-308,
            1e100, -1e100, float(rng.randint(-1000, 1000)), rng.randint(-99, 99) + 0.5]


def special_data(rng, n, frac=0.3, moderate=False):
    pool = special_pool(rng)
    if moderate:
        pool = [v for v in pool if v == 0.0 or 1e-12 < abs(v) < 1e12]
    s = 10.0 ** rng.randint(-2, 2)
    return [rng.choice(pool) if rng.chance(frac) else rng.normal() * s for _ in range(n)]


def centre_data(rng, n):
    """data in which a datum equals the running mean exactly (the Welford delta is exactly 0 there)."""
    kind = rng.randint(0, 5)
    c = float(rng.randint(-20, 20)) if rng.chance(0.7) else rng.randint(-2000, 2000) / 8.0
    if kind == 0:      # starts with 0 (the initial mean) / zeros inside
        d = [0.0] + [float(rng.randint(-5, 5)) for _ in range(n - 1)]
    elif kind == 1:    # symmetric pair then the centre, repeatedly
        d = []
        while len(d) < n:
            w = float(rng.randint(1, 9))
            d += [c - w, c + w, c]
    elif kind == 2:    # integers with ties: the mean of the first k is an integer that follows
        d = [c, c, c + 2.0, c, c + 1.0, c + 1.0]
        while len(d) < n:
            m = sum(d) / len(d)
            d.append(m if m == math.floor(m) and rng.chance(0.7) else float(rng.randint(-9, 9)) + c)
    elif kind == 3:    # constant, then one step, then the new mean
        k = max(1, n // 2)
        d = [c] * k + [c + (k + 1.0)] + [c + 1.0] * max(0, n - k - 1)
    elif kind == 4:    # every datum after the first equals the running mean
        d = [c] * n
    else:              # leading signed zeros and revisits of 0
        d = [rng.choice([0.0, -0.0]) for _ in range(min(n, 3))] + [rng.choice([0.0, 1.0, -1.0, -0.0]) for _ in range(max(0, n - 3))]
    return d[:n]


def strata(rng, tier, bump):
    L = []
    thorough = tier != "quick"
    reps = 1 if not thorough else 6
    # (1) data revisiting their running mean (round-3 seed C08f)
    for _ in range(40 * reps):
        n = rng.choice([1, 2, 3, 4, 5, 6, 7, 8, 9, 12, 16, 17, 33, rng.randint(1, 200)])
        d = centre_data(rng, n)
        L += unary_lines(rng, UNARY if rng.chance(0.4) else ["mean", "wmean", "var", "svar", "std", rng.choice(UNARY)], "centre", d)
        if rng.chance(0.5):
            L += cov_lines(rng, "centre", d, centre_data(rng, len(d)) if rng.chance(0.5) else [float(rng.randint(-9, 9)) for _ in d])
        bump("strata:centre")
    # (2) length boundaries: 2^k-1, 2^k, 2^k+1, multiples of 8; blocked / merged accumulation at 1024, 2048 (seed C08e)
    for _ in range(reps):
        for n in BOUNDARY_LENGTHS:
            regime = rng.choice(["int", "gauss", "offset", "tied", "sorted"])
            d = gen_data(rng, regime, n)
            ops = ["mean", "wmean", "var", rng.choice(UNARY)] if not thorough else UNARY
            if n in BLOCK_LENGTHS:
                ops = ["mean", "wmean", "var", "svar", "std", "sstd", "argmin", "argmax", "min", "max"]
            L += unary_lines(rng, ops, regime, d)
            if n in BLOCK_LENGTHS or n <= 33 or thorough:
                y = gen_data(rng, rng.choice(["gauss", "offset", regime]), n)
                L += cov_lines(rng, regime, d, y)
            bump("strata:length")
        for n in BLOCK_LENGTHS:   # the extremum / the only outlier sits right at the block boundary
            d = [1.0] * n
            k = rng.choice([1022, 1023, 1024, 2046, 2047, 2048, n - 1])
            k = min(k, n - 1)
            d[k] = -3.0
            L += unary_lines(rng, ["argmin", "min", "var", "wmean", "mean"], "tied", d)
            d2 = [-v for v in d]
            L += unary_lines(rng, ["argmax", "max"], "tied", d2)
    # (3) n = 0, 1, 2, 3 for every statistic, with special values
    for _ in range(12 * reps):
        for n in (1, 1, 2, 3):
            d = special_data(rng, n, 0.7, moderate=True)
            L += unary_lines(rng, UNARY, "special", d)
            L += cov_lines(rng, "special", d, special_data(rng, n, 0.7, moderate=True))
            bump("strata:n<=3")
    # (4) exact special values mixed into random data (extreme magnitudes only for the order statistics and the mean)
    for _ in range(30 * reps):
        n = rng.choice([1, 2, 3, 5, 8, 9, 16, 17, rng.randint(1, 120)])
        d = special_data(rng, n, 0.3, moderate=True)
        L += unary_lines(rng, [rng.choice(UNARY) for _ in range(4)], "special", d)
        if rng.chance(0.4):
            L += cov_lines(rng, "special", d, special_data(rng, n, 0.3, moderate=True))
        e = special_data(rng, n, 0.4)
        L += unary_lines(rng, ["min", "max", "argmin", "argmax"], "special", e)
        L.append("hbc %d %s %s" % (rng.randint(0, 1), "edges", vec(sorted(special_data(rng, rng.randint(0, 12), 0.4, moderate=True)))))
        bump("strata:special")
    # (5) tied extrema, including +0 / -0 ties, at the first / last / several positions
    for _ in range(25 * reps):
        n = rng.choice([2, 3, 4, 8, 9, 17, rng.randint(2, 60)])
        lo, hi = sorted([rng.choice([0.0, -0.0, 1.0, -1.0, rng.normal()]), rng.choice([0.0, -0.0, 2.0, -2.0, rng.normal()])])
        d = [rng.uniform(lo, hi) if lo < hi and rng.chance(0.4) else rng.choice([lo, hi]) for _ in range(n)]
        zmix = lambda v: rng.choice([0.0, -0.0]) if v == 0.0 else v
        d = [zmix(v) for v in d]
        for pos in rng.choice([[0], [n - 1], [0, n - 1], [n // 2, n - 1], []]):
            d[pos] = zmix(rng.choice([lo, hi]))
        L += unary_lines(rng, ["argmin", "argmax", "min", "max"], "tied", d)
        r = rng.choice([1, 2, 3, n])
        c = max(1, n // r)
        dd = (d * 3)[:r * c]
        for op in ("margmin", "margmax"):
            L.append("%s 0 %s %d %d %s" % (op, "matrix", r, c, " ".join(f2h(v) for v in dd)))
        bump("strata:ties")
    # (6) Matrix argmin / argmax on non-square shapes, both orientations, 1 x n and n x 1 (round-3 seed C08g)
    shapes = [(1, 1), (1, 2), (2, 1), (1, 7), (7, 1), (2, 3), (3, 2), (2, 5), (5, 2), (3, 7), (7, 3), (1, 33), (33, 1), (4, 9), (9, 4),
              (16, 17), (17, 16), (8, 3), (3, 8), (1, 64), (64, 1), (5, 13), (13, 5)]
    for _ in range(reps):
        for (r, c) in shapes:
            for trial in range(2):
                d = gen_data(rng, rng.choice(["gauss", "int", "tied"]), r * c)
                # put the unique extremum in the last row / last column / a corner from time to time
                pos = rng.choice([r * c - 1, (r - 1) * c, c - 1, rng.randint(0, r * c - 1)])
                if trial == 0:
                    d[pos] = min(d) - 1.0
                    d[r * c - 1 - pos] = max(d) + 1.0
                for op in ("margmin", "margmax"):
                    L.append("%s 0 %s %d %d %s" % (op, "matrix", r, c, " ".join(f2h(v) for v in d)))
            bump("strata:matrix-nonsquare")
    # (7) heavily offset paired data for the two-pass covariances (and the others), small and boundary lengths
    for _ in range(40 * reps):
        n = rng.choice([2, 3, 4, 5, 7, 8, 9, 16, 17, 31, 33, rng.randint(2, 400)])
        sx, sy = 10.0 ** rng.randint(-1, 1), 10.0 ** rng.randint(-1, 1)
        mx = sx * 10.0 ** rng.uniform(3, 8) * rng.choice([1.0, -1.0])
        my = sy * 10.0 ** rng.uniform(3, 8) * rng.choice([1.0, -1.0])
        if rng.chance(0.3):
            mx = float(round(mx))
            my = float(round(my))
        x = [mx + sx * rng.normal() for _ in range(n)]
        if rng.chance(0.5):
            y = [my + sy * rng.normal() for _ in range(n)]
        else:
            a = rng.choice([1.0, -1.0, 0.5, 2.0])
            y = [my + a * (v - mx) + 0.1 * sy * rng.normal() for v in x]
        L += cov_lines(rng, "offset", x, y)
        if rng.chance(0.3):
            L += unary_lines(rng, ["var", "svar", "std"], "offset", x)
        bump("strata:offset-pairs")
    # (8) extreme scale: exact powers of two far from 1 must scale the results exactly
    for _ in range(6 * reps):
        g = 10 ** 9 + len(L)
        n = max(2, rng.choice([2, 3, 8, 9, 17, rng.randint(2, 100)]))
        bx = gen_data(rng, rng.choice(["gauss", "int", "tied"]), n)
        by = gen_data(rng, rng.choice(["gauss", "int"]), n)
        for k, (ex, ey) in enumerate([(0, 0), (500, 0), (-500, 0)]):
            tag = "scale:%d:%d:%d:%d" % (g, k, ex, ey)
            L += unary_lines(rng, ["mean", "wmean", "min", "max", "argmin", "argmax"], tag, [v * 2.0 ** ex for v in bx])
        g += 1
        for k, (ex, ey) in enumerate([(0, 0), (200, 150), (-200, -150), (200, -200)]):
            tag = "scale:%d:%d:%d:%d" % (g, k, ex, ey)
            x = [v * 2.0 ** ex for v in bx]
            y = [v * 2.0 ** ey for v in by]
            L += unary_lines(rng, ["var", "svar", "std", "sstd", "mean"], tag, x)
            L += cov_lines(rng, tag, x, y)
        bump("strata:extreme-scale")
    return L


def _zero_blind(tok):
    return "0000000000000000" if tok == "8000000000000000" else tok


def replies_agree(line, impl, model):
    """Bit-exact, except that the sign of a zero result of `min`/`max` is not compared: `f64::min`/`f64::max`
    lower to LLVM `minnum`/`maxnum`, which may return either zero for the operands (+0, -0); the compiled
    fold of this toolchain returns -0 for min [1,0,1,0,-0,...] but +0 for min [0,-0]."""
    if impl == model:
        return True
    if line.split()[0] in ("min", "max"):
        return [_zero_blind(t) for t in impl.split()] == [_zero_blind(t) for t in model.split()]
    return False


def nontrivial(line, reply):
    if not reply.startswith("="):
        return None
    t = line.split()
    n = int(t[3]) if not t[0].startswith("marg") else int(t[3]) * int(t[4])
    return "%s:%s:%d" % (t[0], t[2].split(":")[0], n)


# ------------------------------------------------------------------ oracle
def ints(xs):
    """doubles -> (integers, D) with x_i = k_i / D exactly (D a power of two)."""
    rs = [x.as_integer_ratio() for x in xs]
    D = max([d for _, d in rs] or [1])
    return [p * (D // d) for p, d in rs], D


def fl(q):
    try:
        return float(q)
    except OverflowError:
        return float("inf")


class Stats:
    """exact co-moment of (x, y): S = sum (x-mx)(y-my), with the stable-algorithm bound on it."""

    def __init__(self, x, y):
        n = len(x)
        self.n = n
        ix, Dx = ints(x)
        iy, Dy = (ix, Dx) if y is x else ints(y)
        sx, sy = sum(ix), sum(iy)
        sxy = sum(a * b for a, b in zip(ix, iy))
        sxx = sum(a * a for a in ix)
        syy = sxx if y is x else sum(b * b for b in iy)
        self.S = Fraction(n * sxy - sx * sy, n * Dx * Dy)
        m2x = Fraction(n * sxx - sx * sx, n * Dx * Dx)
        m2y = Fraction(n * syy - sy * sy, n * Dy * Dy)
        nx = math.sqrt(fl(Fraction(sxx, Dx * Dx)))
        ny = math.sqrt(fl(Fraction(syy, Dy * Dy)))
        self.unit = (n * EPS * (nx * math.sqrt(fl(m2y)) + ny * math.sqrt(fl(m2x))) / 2
                     + n * EPS * EPS * nx * ny + TINY)
        self.bound = C_S * self.unit


CALIB = {}


def calib(k, v):
    if v > CALIB.get(k, 0.0):
        CALIB[k] = v


def first_index(d, v):
    for i, x in enumerate(d):
        if x == v:
            return i
    return 0


def oracle(lines, impl):
    fails = []
    groups = {}   # (family, gid, op) -> list of (k, exps, value, bound, idx)
    covres = {}   # data key -> {op: (value, n, bound, idx)}

    def bad(i, key, msg, exp=None):
        fails.append(Failure(i, key, msg, exp))

    for i, (l, rep) in enumerate(zip(lines, impl)):
        t = l.split()
        op, tag = t[0], t[2]
        regime = tag.split(":")[0]
        st, toks = parse_reply(rep)
        if st == "skip" or st == "bad":
            continue
        if regime == "nonfinite":
            continue
        key = "%s:%s" % (op, regime)
        # ---------------- matrix wrappers
        if op in ("margmin", "margmax"):
            r, c = int(t[3]), int(t[4])
            d = [h2f(v) for v in t[5:]]
            if c == 0:
                if st != "panic":
                    bad(i, key, "ncols = 0 yet a value was returned")
                continue
            if st != "ok":
                bad(i, key, "%s instead of a position" % st)
                continue
            k = first_index(d, (min if op == "margmin" else max)(d)) if d else 0
            exp = "%d %d" % (k // c, k % c)
            if " ".join(toks) != exp:
                bad(i, key, "position (%s), expected first extremum at (%s)" % (" ".join(toks), exp), exp)
            continue
        n = int(t[3])
        x = [h2f(v) for v in t[4:4 + n]]
        # ---------------- covariance family
        if op in COVS:
            ny = int(t[4 + n])
            y = [h2f(v) for v in t[5 + n:]]
            if n != ny:
                if st != "panic":
                    bad(i, key, "length mismatch %d/%d did not panic" % (n, ny))
                continue
            if n == 0 and op in ("scov", "scov1"):
                if st != "panic":
                    bad(i, key, "n = 0: usize underflow expected")
                continue
            if n < (1 if op == "cov" else 2):
                continue  # statistic undefined (0/0)
            if st != "ok":
                bad(i, key, "%s instead of a value" % st)
                continue
            r = h2f(toks[0])
            dk = " ".join(t[3:])
            S = covres.get(dk, {}).get("_S") or Stats(x, y)
            div = n if op == "cov" else n - 1
            exact = S.S / div
            bnd = S.bound / div
            if not math.isfinite(r):
                bad(i, key, "non-finite result %r for finite data, exact %r" % (r, fl(exact)), f2h(fl(exact)))
                continue
            err = abs(Fraction(r) - exact)
            calib("S:" + op, fl(err) / (S.unit / div))
            if err > bnd:
                bad(i, key, "n=%d: %r differs from the exact %s %r by %.3g > stable-algorithm bound %.3g" % (
                    n, r, op, fl(exact), fl(err), bnd), f2h(fl(exact)))
            covres.setdefault(dk, {"_S": S})[op] = (r, n, bnd, i)
            fam = tag.split(":")
            if fam[0] in ("shift", "scale"):
                groups.setdefault((fam[0], fam[1], op), []).append((fam, r, bnd, i))
            continue
        # ---------------- one-sample statistics
        if op == "hbc":
            m = max(n - 1, 0)
            if st != "ok" or int(toks[0]) != m or len(toks) != 1 + m:
                bad(i, key, "expected %d centres, got %s" % (m, rep[:60]))
                continue
            for j in range(m):
                mid = (Fraction(x[j]) + Fraction(x[j + 1])) / 2
                r = h2f(toks[1 + j])
                if not math.isfinite(r) or abs(Fraction(r) - mid) > abs(mid) * Fraction(1, 2 ** 52) + Fraction(1, 10 ** 320):
                    bad(i, key, "centre %d is %r, midpoint of [%r, %r] is %r" % (j, r, x[j], x[j + 1], fl(mid)), f2h(fl(mid)))
                    break
            continue
        if op in ("svar", "sstd") and n == 0:
            if st != "panic":
                bad(i, key, "n = 0: usize underflow expected")
            continue
        if st != "ok":
            bad(i, key, "%s instead of a value" % st)
            continue
        fam = tag.split(":")
        if op in ("argmin", "argmax"):
            r = int(toks[0])
            if n == 0:
                continue
            k = first_index(x, (min if op == "argmin" else max)(x))
            if r != k:
                bad(i, key, "index %d, first %s is at %d" % (r, "minimum" if op == "argmin" else "maximum", k), str(k))
            if fam[0] == "scale":
                groups.setdefault(("scale", fam[1], op), []).append((fam, r, 0.0, i))
            continue
        if n == 0 or (n == 1 and op in ("svar", "sstd")):
            continue  # undefined (0/0): correspondence only
        r = h2f(toks[0])
        if op in ("min", "max"):
            e = (min if op == "min" else max)(x)
            if not (r == e):
                bad(i, key, "%r, expected %r" % (r, e), f2h(e))
        elif op in ("mean", "wmean"):
            ix, D = ints(x)
            mu = Fraction(sum(ix), n * D)
            unit = n * EPS * max(abs(v) for v in x) + TINY
            err = abs(Fraction(r) - mu) if math.isfinite(r) else Fraction(10) ** 400
            calib(op, fl(err) / unit)
            if err > C_MEAN * unit:
                bad(i, key, "n=%d: %r differs from the exact mean %r by %.3g > %.3g" % (n, r, fl(mu), fl(err), C_MEAN * unit), f2h(fl(mu)))
        else:  # var svar std sstd
            dk = " ".join(t[3:])
            S = covres.get(dk, {}).get("_S") or Stats(x, x)
            covres.setdefault(dk, {"_S": S})
            div = n if op in ("var", "std") else n - 1
            exact = S.S / div
            bnd = S.bound / div
            if not math.isfinite(r) or r < 0:
                bad(i, key, "result %r, exact variance %r" % (r, fl(exact)))
                continue
            if op in ("std", "sstd"):
                val = Fraction(r) ** 2
                bnd_here = bnd + 4 * EPS * fl(exact)
            else:
                val, bnd_here = Fraction(r), bnd
            err = abs(val - exact)
            calib("S:" + op, fl(err) / (S.unit / div + (4 * EPS * fl(exact) if op in ("std", "sstd") else 0)))
            if err > bnd_here:
                bad(i, key, "n=%d: %r%s differs from the exact %r by %.3g > stable-algorithm bound %.3g" % (
                    n, r, "^2" if op in ("std", "sstd") else "", fl(exact), fl(err), bnd_here),
                    f2h(math.sqrt(fl(exact)) if op in ("std", "sstd") else fl(exact)))
            if fam[0] == "shift":
                # compare variances (std squared) across the family
                groups.setdefault(("shift", fam[1], op), []).append((fam, fl(val), bnd_here, i))
        if fam[0] == "scale":
            groups.setdefault(("scale", fam[1], op), []).append((fam, r, 0.0, i))

    # ---------------- cross-agreement of the covariance algorithms on the same data
    for dk, res in covres.items():
        have = [(op, res[op]) for op in COVS if op in res]
        for a in range(len(have)):
            for b in range(a + 1, len(have)):
                (opa, (ra, n, ba, ia)), (opb, (rb, _, bb, ib)) = have[a], have[b]
                fa = n if opa == "cov" else n - 1   # compare co-moments
                fb = n if opb == "cov" else n - 1
                if abs(Fraction(ra) * fa - Fraction(rb) * fb) > Fraction(ba) * fa + Fraction(bb) * fb:
                    bad(ib, "agree:%s:%s" % (opa, opb), "%s = %r and %s = %r disagree beyond the sum of their bounds" % (opa, ra, opb, rb))

    # ---------------- metamorphic families
    for (famname, gid, op), members in groups.items():
        base = [m for m in members if m[0][2] == "0"]
        if not base:
            continue
        _, r0, b0, i0 = base[0]
        for fam, r, b, i in members:
            if fam[2] == "0":
                continue
            if famname == "shift":
                if abs(r - r0) > b + b0:
                    bad(i, "shift:" + op, "adding a constant changed %s from %r to %r (allowed %.3g)" % (op, r0, r, b + b0))
            else:
                ex, ey = int(fam[3]), int(fam[4])
                if op in ("argmin", "argmax"):
                    exp = r0
                elif op in ("mean", "wmean", "std", "sstd", "min", "max"):
                    exp = r0 * 2.0 ** ex
                elif op in ("var", "svar"):
                    exp = r0 * 2.0 ** (2 * ex)
                else:
                    exp = r0 * 2.0 ** (ex + ey)
                if not (r == exp):
                    bad(i, "scale:" + op, "scaling the data by 2^%d (2^%d) gave %r, expected exactly %r" % (ex, ey, r, exp))
    if os.environ.get("CV_CALIB"):
        print("CALIB C08", {k: round(v, 5) for k, v in sorted(CALIB.items())})
    return fails

# --- deep theorems (second pass; modules written in their own files, wired here by the lead)
PROOF_MODULES = PROOF_MODULES + ['Compute.Props.Rounding']
REQUIRED_THEOREMS = REQUIRED_THEOREMS + ['Cv.Rounding.mean_error', 'Cv.Rounding.mean_error_add_two', 'Cv.Rounding.welfordMean_error', 'Cv.Rounding.iterSum_error']
_np = list(NOT_PROVED)
_np[0] = 'floating-point rounding of variance / covariance: decided by the oracle (exact rational reference, condition-number-scaled bound); for both mean algorithms the rounding-error bounds ARE proved in the standard model (Props/Rounding: mean_error gamma_n, welfordMean_error ~ (n/2+6.5) u max|x|)'
NOT_PROVED = [x for x in _np if x is not None]

# --- deep theorems (Rounding2)
PROOF_MODULES = PROOF_MODULES + ['Compute.Lemmas.StatRounding', 'Compute.Lemmas.WelfordRounding', 'Compute.Props.Rounding2']
REQUIRED_THEOREMS = REQUIRED_THEOREMS + ['Cv.Rounding2.covariance_error', 'Cv.Rounding2.sampleCovariance_error', 'Cv.Rounding2.covariance_self_error', 'Cv.Rounding2.shiftedCo_eq', 'Cv.Rounding2.absComoment_shift', 'Cv.Rounding2.welfordM2_error', 'Cv.Rounding2.var_error', 'Cv.Rounding2.sampleVar_error', 'Cv.Rounding2.welford_mean_term_necessary']
NOT_PROVED = [x for x in NOT_PROVED if not any(k in str(x) for k in ('floating-point rounding of variance / covariance',))]
NOT_PROVED = NOT_PROVED + ["rounding of the one-pass and online covariance algorithms (oracle only); for the two-pass covariance/variance and for Welford's M2 / var / sample_var the bounds ARE proved in the standard model (Props/Rounding2): two-pass error = gamma_(n+5) x centred first-order scale (exactly shift-invariant) + second-order terms in the means; Welford's bound necessarily contains a mean term (welford_mean_term_necessary)"]

# --- source tie, loops (tools/rs2lean.py loops=True: accumulation loops and iterator chains regenerated from /repo/src into
# Generated/SrcC08Loops.lean and proved equal to the hand model in Props/SrcTieC08Loops.lean)
from . import srctie
srctie.wire_loops(globals(), 'C08')
PROOF_MODULES = PROOF_MODULES + ['Compute.Lemmas.SrcLoops']

# --- deep theorems (Rounding5: float-level bounds in the standard model, wired by the lead)
PROOF_MODULES = PROOF_MODULES + [m for m in ['Compute.Lemmas.Rounding5', 'Compute.Props.Rounding5'] if m not in PROOF_MODULES]
REQUIRED_THEOREMS = REQUIRED_THEOREMS + ['Cv.Rounding5.onepass_error', 'Cv.Rounding5.onepass_exact_eq_comoment', 'Cv.Rounding5.online_error_partial', 'Cv.Rounding5.online_pert_partial']
NOT_PROVED = list(NOT_PROVED) + ['the one-pass covariance IS bounded by theorem in the standard model (Props/Rounding5 onepass_error: (gamma_(n+6) sum|dx dy| + gamma_(2n+8) (sum|dx|)(sum|dy|)/n)/(n-1) with data shifted by the first point, exhibiting the cancellation-sensitivity); for the online algorithm only the accumulation is bounded (online_error_partial: gamma_(n+4) relative to the products of deviations from the computed running means, exact counter assumed) - the effect of the running-mean errors is oracle only']

# --- deep theorems (Rounding6: end-to-end residual / backward-error bounds in the standard model, wired by the lead)
PROOF_MODULES = PROOF_MODULES + [m for m in ['Compute.Lemmas.Rounding6', 'Compute.Props.Rounding6'] if m not in PROOF_MODULES]
REQUIRED_THEOREMS = REQUIRED_THEOREMS + ['Cv.Rounding6.online_error', 'Cv.Rounding6.online_means', 'Cv.Rounding6.comoment_snoc', 'Cv.Rounding6.onlineC_invariant']
NOT_PROVED = list(NOT_PROVED) + ["the online covariance IS bounded by theorem (Props/Rounding6 online_error: (gamma_(n+4)(n Rx Ry + D) + D)/(n-1), D = n(Rx Ey + Ry Ex + Ex Ey), E = (n/2+6.5) u max|.|; representable data, exact counter), its running means being Welford's (online_means)"]

# --- review pass (review-b C08: B1 guards, B2 Matrix call form, B3, B4, C5-C8): one consistent set of claim texts.
# The blocks above build the lists incrementally; the texts below REPLACE the accumulated NOT_PROVED / TRUSTED /
# ASSUMPTIONS / RULE so that no sentence contradicts another.
REQUIRED_THEOREMS = REQUIRED_THEOREMS + ['Cv.C08.degenerate_sizes', 'Cv.C08.panicking_sizes', 'Cv.C08.cov_shift_all',
                                         'Cv.C08.sampleVar_shift', 'Cv.C08.matArgmax_eq']
RULE = ("15 statistics x 3 call forms (free function, Vector method, Matrix method for the seven macro-generated reductions "
        "mean/var/sample_var/std/sample_std/min/max on 1 x n, n x 1 and non-square shapes) x 11 data regimes (small integers, "
        "gaussian, offset with mean/sd up to 1e8, constant, sorted, reversed, tied, signed zeros, exact-shift families, "
        "power-of-two scaling families incl. 2^+-500, non-finite [correspondence only]) x lengths 0..1e4 with every 2^k-1, 2^k, "
        "2^k+1 and 1023..1026, 2047..2050; non-trivial = distinct (op, regime, length) class")
NOT_PROVED = [
    "floating-point rounding is covered by theorems in the standard model only where listed here: both mean algorithms "
    "(Props/Rounding), the two-pass covariance / variance and Welford M2 / var / sample_var (Props/Rounding2), the one-pass "
    "covariance (Props/Rounding5 onepass_error) and the online covariance (Props/Rounding6 online_error). The standard model "
    "quantifies over all reals (no overflow / underflow), its concrete instances in Lemmas/FlModel are toy roundings, and binary64 "
    "is linked to it only informally; the rounding clause of the property is therefore DECIDED by the bit-exact tie plus the "
    "exact-rational oracle with the condition-number-scaled bound, the theorems explain the form of that bound",
    "NO rounding theorem exists for std, sample_std (one square root after var) and hist_bin_centers (one addition, one halving): "
    "oracle only (std: |r^2 - var| within the variance bound + 4 eps var; hist: one rounding of the exact midpoint)",
    "several rounding theorems in files not owned by this property still carry the size guard 1 <= n where the statistic needs "
    "2 <= n (WelfordRounding.sampleVar_error, StatRounding.sampleCovariance_error, Rounding5.online_error_partial, "
    "Rounding6.online_error), no guard where 1 <= n is needed (Rounding5.onepass_error with an empty tail, Rounding.mean_error, "
    "Rounding.mean_error_add_two): at those sizes they speak about Lean's x/0 = 0, not about the code (which returns NaN)",
    "argmin/argmax for data containing +inf/-inf or values beyond the f64::MAX/f64::MIN seeds (documented by theorem "
    "argmin_all_ge_seed: argmin [inf, MAX] = 0); the first-index theorems assume every datum <= seed (>= seed), true of all finite doubles",
    "signed zeros: the order theorems are over a linear order, where +0 and -0 are one point; which zero min/max return and that "
    "argmin/argmax treat them as a tie is decided by the oracle and the correspondence only",
    "the unrolled utils::sum (anchor mechanism 2) is NOT regenerated from the source: Generated/SrcC08Loops maps the name `sum` to "
    "the hand model Cv.sum8; its body and tail are tied by the bit-exact correspondence only (lengths 0..1e4 incl. every residue "
    "mod 8), and sum8 = List.sum is a theorem (Lemmas/C08 sum8_eq)",
    "the Vector / Matrix wrappers are one-line forwards (`$fn(&self.v)`, `self.data.$fn()`); they have no separate model and are "
    "tied by running them (call forms 1 and 2) against the model of the free function",
]
TRUSTED = [
    "Iterator::sum::<f64>() folds from -0.0 (observed; compared bit for bit on every covariance / trapezoid line)",
    "f64::min / f64::max: NaN-ignoring, modelled as keeping the accumulator on ties; the SIGN OF A ZERO RESULT of min / max is "
    "NOT compared (replies_agree masks it for these two ops only): they lower to LLVM minnum / maxnum, which may return either "
    "zero, and the compiled fold of this toolchain returns -0 for min [1,0,1,0,-0,...] but +0 for min [0,-0]. Every other reply "
    "token, and every other op, is compared bit for bit",
]
ASSUMPTIONS = [
    "the property quantifies over all finite data; the generator draws |x| in [1e-100, 1e100] or 0 for the moment statistics "
    "(beyond that squares overflow / underflow in ANY algorithm and the oracle would have no definition to compare with), and the "
    "full finite range incl. subnormals and 1e300 for min / max / argmin / argmax",
    "lengths < 2^53 (usize -> f64 exact); sizes 0 and 1 are outside the statistic definitions (theorems degenerate_sizes, "
    "panicking_sizes state what is returned; the oracle checks the panics and skips the 0/0 values)",
    "the executor is built with overflow checks (n - 1 at n = 0 panics); a release build wraps and returns NaN there",
]

# --- review repairs in the Rounding layer (renamed stdmodel_* theorems, underflow-aware variants, genuine FlModel instance; wired by the lead)
PROOF_MODULES = PROOF_MODULES + [m for m in ['Compute.Lemmas.FlModelGrid', 'Compute.Props.RoundingGrid'] if m not in PROOF_MODULES]
REQUIRED_THEOREMS = REQUIRED_THEOREMS + [t for t in ['Cv.FlModel.grid_abs_sub_le', 'Cv.FlModel.grid_idem', 'Cv.FlModel.grid_mono', 'Cv.FlModel.grid_rnd_one', 'Cv.FlModel.grid_rnd_natCast', 'Cv.FlModel.grid_rnd_dyadic', 'Cv.FlModel.f64grid_u', 'Cv.FlModel.f64grid_mono'] if t not in REQUIRED_THEOREMS]
NOT_PROVED = list(NOT_PROVED) + ['theorems named stdmodel_* hold in the idealised standard model (fl(x) = x(1+d) for every operation, library functions with relative error <= u_f for every argument) at u = 2^-53; they describe binary64 only where nothing overflows or underflows (for exp: arguments in [-708.39, 709.78]); outside that range computed values may be exactly 0 or inf', 'variance and covariance rounding bounds require n >= 2 (n >= 1 for the population versions); smaller sizes are excluded (the code returns NaN there)', 'FlModel has a genuine instance, FlModel.grid p (radix 2, p digits, round to nearest, unbounded exponent; f64grid has u = 2^-53), proved to satisfy the standard model and to be idempotent and monotone, with integers <= 2^p and dyadics exact (Lemmas/FlModelGrid); headline rounding theorems are instantiated on it (Props/RoundingGrid); overflow and underflow remain outside the model']

# --- FINAL claim texts (review round 2): literal, complete, replaces everything accumulated above.
REQUIRED_THEOREMS = REQUIRED_THEOREMS + [t for t in ['Cv.C08.argmin_all_ge_seed', 'Cv.C08.sampleVar_scale'] if t not in REQUIRED_THEOREMS]
NOT_PROVED = [
    "the rounding clause of the property (within the bound of a numerically stable algorithm; unchanged by a constant shift even "
    "when the mean is far larger than the spread) is DECIDED by the bit-exact tie plus the exact-rational oracle with the "
    "condition-number-scaled bound, not by a theorem about binary64. What IS proved is the form of that bound in the standard model "
    "fl(x) = x(1+d), |d| <= u, for every operation and every real (no overflow, no underflow): both mean algorithms (Props/Rounding), "
    "the two-pass covariance / variance and the Welford M2 / var / sample_var (Props/Rounding2), the one-pass covariance "
    "(Props/Rounding5 onepass_error) and the online covariance (Props/Rounding6 online_error); variance and covariance bounds carry "
    "the guards n >= 2 (sample) / n >= 1 (population, one-pass tail). The model has a genuine instance, FlModel.grid p (radix 2, p "
    "digits, round to nearest with ties half-up - not ties-to-even -, unbounded exponent; f64grid has u = 2^-53), proved to satisfy "
    "the standard model, to be idempotent and monotone, with integers <= 2^p and dyadics exact (Lemmas/FlModelGrid), and the headline "
    "bounds are instantiated on it (Props/RoundingGrid); binary64 differs from f64grid by its finite exponent range and its tie rule",
    "Rounding.mean_error and Rounding.mean_error_add_two (file not owned by this property) carry no guard n >= 1: at n = 0 they speak "
    "about the convention x/0 = 0, not about the code (which returns NaN)",
    "NO rounding theorem exists for std, sample_std (one square root after var) and hist_bin_centers (one addition, one halving): "
    "oracle only (std: |r^2 - var| within the variance bound + 4 eps var; hist: one rounding of the exact midpoint)",
    "argmin/argmax for data containing +inf/-inf or values beyond the f64::MAX/f64::MIN seeds: the first-index theorems assume every "
    "datum <= seed (>= seed), true of all finite doubles; outside, theorem argmin_all_ge_seed shows argmin [inf, MAX] = 0",
    "signed zeros: the order theorems are over a linear order, where +0 and -0 are one point; which zero min/max return and that "
    "argmin/argmax treat them as a tie is decided by the oracle and the correspondence only",
    "the unrolled utils::sum (anchor mechanism 2) is NOT regenerated from the source: Generated/SrcC08Loops maps the name `sum` to "
    "the hand model Cv.sum8; its body and tail are tied by the bit-exact correspondence only (lengths 0..1e4 incl. every residue "
    "mod 8), and sum8 = List.sum is a theorem (Lemmas/C08 sum8_eq)",
    "the Vector / Matrix wrappers are one-line forwards (`$fn(&self.v)`, `self.data.$fn()`); they have no separate model and are "
    "tied by running them (call forms 1 and 2) against the model of the free function",
    "theorems named stdmodel_* hold in the idealised standard model at u = 2^-53; they describe binary64 only where nothing "
    "overflows or underflows",
]
REQUIRED_THEOREMS = REQUIRED_THEOREMS + [t for t in ['Cv.C08.covariance_algorithms_agree', 'Cv.C08.matArgmin_zero_cols'] if t not in REQUIRED_THEOREMS]
