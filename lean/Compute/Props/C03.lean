import Compute.Model.Samplers
import Compute.Lemmas.C09
import Compute.Lemmas.C19Rng
import Compute.Lemmas.C03
import Compute.Lemmas.C03Discrete
import Compute.Props.C05
import Mathlib.Analysis.SpecialFunctions.Pow.Real
import Mathlib.Analysis.SpecialFunctions.Log.Basic
import Mathlib.Tactic.Ring
import Mathlib.Tactic.Linarith
import Mathlib.Tactic.NormNum
import Mathlib.Tactic.Positivity
import Mathlib.Tactic.FieldSimp
/-
C03 — samplers draw from the distribution they describe, in every parameter regime.

What is proved here, about the model `Compute/Model/Samplers.lean` (the same definitions the compiled driver runs at
`Float`, tied bit for bit to the Rust samplers on every check) instantiated at `ℝ`:

* the generated tables are the doubles of the source (`lits_valid`) and are internally consistent (`zig_*`: the `K`/`W`
  floor relation exactly, equal layer areas to a relative `10⁻⁹`, `2²⁴·W[126] = R` to `10⁻⁹`) — NOT that `Y[i] = exp(−x²/2)`;
* inverse-CDF laws in exact arithmetic, for every parameter and EVERY generator state for which the call returns (the redraw
  loop of repair F53 hands the formula the first non-zero uniform `u ∈ (0,1)` of the stream): Exponential, Pareto, Gumbel
  (`CDF (sample) = u` or `1 − u`, support), with termination at the first non-zero uniform; Uniform; Bernoulli
  (`sample = 1 ↔ u < p`); since `u ↦ 1 − u` preserves the uniform law these are the distributional statements;
* the Poisson multiplication method returns `k` iff `∏_{i≤k} u_i > e^{−λ} ≥ ∏_{i≤k+1} u_i`, and terminates for every state;
  binomial inversion walks the exact binomial mass function, returns the generalised inverse of its CDF at `u`, is `≤ n`, and
  terminates within `n + 1` iterations for every state;
* support: DiscreteUniform in `[lower, upper]`, Uniform in `[a,b]`, Bernoulli in `{0,1}`; PARTIAL correctness (`_partial`: every
  returning call, termination of the rejection loop not proved) for Gamma `> 0` (all shapes, after repair F54), χ² `> 0`,
  Beta in `[0,1]`; the gamma boost `Gamma(α) = U^{1/α}·Gamma(α+1)` with `U` the first non-zero uniform;
* MVN: a returned draw is `μ + L z` (`mvn_sample_spec_partial`; `Props/C03Mvn.lean` derives the hypotheses and `L Lᵀ = Σ` from `MVN.new`);
* `sample_n` returns exactly `n` consecutive draws of the stream, `sample_matrix` / MVN `sample_n` shapes;
* unfolding-level facts that only pin the model's compositions (χ² = Gamma(k/2, ½), Beta ratio, t formula, routing, flip,
  `mvn_sample_eq`): `rfl` / `simp [def]`, not results; `legacy_gamma_sqrt_domain` is about the code deleted by repair F20.

Non-vacuity of every "the call returns" hypothesis: `Props/C03Witness.lean` (concrete generator states, evaluated in the kernel).
NOT proved (see `NOT_PROVED` in tools/cv/c03.py): the laws of the rejection samplers (Ziggurat, Marsaglia–Tsang, PTRS, BTPE),
termination of their loops, uniformity of wyrand.  They are covered by the bit-exact tie + the DKW search.
-/
set_option linter.unusedSectionVars false
set_option linter.unusedSimpArgs false
set_option linter.unusedVariables false

namespace Cv.C03
open Cv Cv.C03L
open scoped Cv.C09 Cv.C03L

/-! ### Generated tables -/

/-- Every literal of the generated table: the rational `num/den` is exactly the double with the recorded bits. -/
theorem lits_valid : (∀ l ∈ C03T.scalarLits, l.valid = true) ∧ (∀ l ∈ C03T.zigY.toList, l.valid = true)
    ∧ (∀ l ∈ C03T.zigW.toList, l.valid = true) := by decide +kernel

theorem zig_tables_size : C03T.zigK.size = 128 ∧ C03T.zigY.size = 128 ∧ C03T.zigW.size = 128 := by decide +kernel

/-- The Ziggurat layer heights decrease strictly and the strip widths increase strictly (exact rational comparison of
the doubles in the source tables). -/
theorem zigY_strictly_decreasing :
    ∀ i < 127, C03T.zigY[i + 1]!.num * (C03T.zigY[i]!.den : Int) < C03T.zigY[i]!.num * (C03T.zigY[i + 1]!.den : Int) := by
  decide +kernel

/-! #### Internal consistency of the Ziggurat tables (exact rational arithmetic on the doubles of the source)

With `x_i = 2²⁴·W[i]` the right edge of layer `i`: `K[i] = ⌊2²⁴·x_{i-1}/x_i⌋` (fast-acceptance threshold), all layers
have the same area `x_i·(Y[i] − Y[i+1])` (to the 12 printed digits), and `x_126 = R` is the tail cut.  An edit of a single
entry of `K`, `Y`, `W` or of `R` in the source breaks one of these kernel-checked facts. -/

/-- `K[i]·W[i] ≤ 2²⁴·W[i-1] < (K[i]+1)·W[i]`, cross-multiplied. -/
def zigKOk (i : Nat) : Bool :=
  let w := C03T.zigW[i]!
  let w' := C03T.zigW[i - 1]!
  let k : Int := (C03T.zigK[i]! : Int)
  decide (k * w.num * (w'.den : Int) ≤ 2 ^ 24 * w'.num * (w.den : Int)
    ∧ 2 ^ 24 * w'.num * (w.den : Int) < (k + 1) * w.num * (w'.den : Int))

theorem zig_K_consistent : C03T.zigK[0]! = 0 ∧ ∀ i < 128, 1 ≤ i → zigKOk i = true := by decide +kernel

def zigAreaNum (i : Nat) : Int :=
  C03T.zigW[i]!.num * (C03T.zigY[i]!.num * (C03T.zigY[i + 1]!.den : Int) - C03T.zigY[i + 1]!.num * (C03T.zigY[i]!.den : Int))
def zigAreaDen (i : Nat) : Int :=
  (C03T.zigW[i]!.den : Int) * (C03T.zigY[i]!.den : Int) * (C03T.zigY[i + 1]!.den : Int)

/-- areas of layers `i` and `i+1` agree to a relative `10⁻⁹` -/
def zigAreaOk (i : Nat) : Bool :=
  let a := zigAreaNum i * zigAreaDen (i + 1)
  let b := zigAreaNum (i + 1) * zigAreaDen i
  decide (0 < a ∧ (a - b).natAbs * 10 ^ 9 ≤ a.natAbs)

theorem zig_equal_area : ∀ i < 126, zigAreaOk i = true := by decide +kernel

/-- `|2²⁴·W[126] − R| ≤ 10⁻⁹` -/
theorem zig_R_consistent :
    let w := C03T.zigW[126]!
    let r := C03T.zigR
    ((2 ^ 24 * w.num * (r.den : Int) - r.num * (w.den : Int)).natAbs : Int) * 10 ^ 9 ≤ (w.den : Int) * (r.den : Int) := by
  decide +kernel

/-! ### 1. The uniform draw -/

/-- `alea::f64()` lies in `[0, 1)`, for every generator state. -/
theorem f64_range (g : Rng) : 0 ≤ (g.f64 (α := ℝ)).1 ∧ (g.f64 (α := ℝ)).1 < 1 := f64_mem g

/-! ### 2. Inverse-CDF laws (exact arithmetic) -/

/-- CDF of the exponential law with rate `lam`, on `x ≥ 0`. -/
noncomputable def expCDF (lam x : ℝ) : ℝ := 1 - Real.exp (-lam * x)
/-- CDF of the Pareto law, on `x ≥ xm`. -/
noncomputable def paretoCDF (alpha xm x : ℝ) : ℝ := 1 - (xm / x) ^ alpha
/-- CDF of the Gumbel law. -/
noncomputable def gumbelCDF (mu beta x : ℝ) : ℝ := Real.exp (-Real.exp (-(x - mu) / beta))
/-- CDF of the uniform law on `[a, b]`, on `a ≤ x ≤ b`. -/
noncomputable def uniformCDF (a b x : ℝ) : ℝ := (x - a) / (b - a)

/-- The uniform that the redraw loop `while u == 0.` (repair F53) hands to the inverse-cdf formula: index `k` is the first
non-zero uniform of the stream starting in state `g`. -/
def FirstNonzero (g : Rng) (k : Nat) : Prop := (∀ j < k, uAt g j = 0) ∧ uAt g k ≠ 0

theorem firstNonzero_pos {g : Rng} {k : Nat} (h : FirstNonzero g k) : 0 < uAt g k ∧ uAt g k < 1 :=
  ⟨lt_of_le_of_ne (uAt_mem g k).1 (Ne.symm h.2), (uAt_mem g k).2⟩

theorem firstNonzero_unique {g : Rng} {k k' : Nat} (h : FirstNonzero g k) (h' : FirstNonzero g k') : k = k' := by
  rcases Nat.lt_trichotomy k k' with hlt | heq | hgt
  · exact absurd (h'.1 k hlt) h.2
  · exact heq
  · exact absurd (h.1 k' hgt) h'.2

/-- What every returning call of the three inverse-cdf samplers does with the generator: `k + 1` uniforms are consumed,
the first `k` are exactly `0`, and the formula is applied to the `k`-th, which lies in `(0, 1)`. -/
theorem redraw_unit_spec (fuel : Nat) (g g' : Rng) (u : ℝ)
    (h : redrawNonzero (UniformF.sample (0 : ℝ) 1) fuel g = some (u, g')) :
    ∃ k, k < fuel ∧ FirstNonzero g k ∧ u = uAt g k ∧ g' = stAfter g (k + 1) := by
  rw [uniformF_unit_fun] at h
  obtain ⟨k, _, h2, h3, h4, h5, h6⟩ := redraw_f64_spec g fuel 0 u g' h
  exact ⟨k, by omega, ⟨fun j hj => h3 j (Nat.zero_le _) hj, h4⟩, h5, h6⟩

/-- **Termination of the redraw loop**: it ends at the first state whose uniform is not `0` (given that much fuel). -/
theorem redraw_unit_returns (fuel : Nat) (g : Rng) (k : Nat) (hk : FirstNonzero g k) (hf : k < fuel) :
    redrawNonzero (UniformF.sample (0 : ℝ) 1) fuel g = some (uAt g k, stAfter g (k + 1)) := by
  rw [uniformF_unit_fun]
  exact redraw_f64_complete g fuel 0 k (Nat.zero_le _) (by omega) (fun j _ hj => hk.1 j hj) hk.2

/-- The F53 witness state: after `alea::set_seed(0x5F89E29B87429BD1)` the first uniform is exactly `0` (the state wraps to
`0`) and the second is not: the samplers consume two uniforms there. -/
theorem f53_state : FirstNonzero (Rng.ofSeed 0x5F89E29B87429BD1) 1 := by
  have h0 : ((Rng.ofSeed 0x5F89E29B87429BD1).f53).1 = 0 := by decide +kernel
  have h1 : ((stAfter (Rng.ofSeed 0x5F89E29B87429BD1) 1).f53).1 ≠ 0 := by
    show (((Rng.ofSeed 0x5F89E29B87429BD1).u64).2.f53).1 ≠ 0
    decide +kernel
  constructor
  · intro j hj
    have : j = 0 := by omega
    subst this
    show ((Rng.ofSeed 0x5F89E29B87429BD1).f64 (α := ℝ)).1 = 0
    rw [f64_eq, h0]; simp
  · exact (f64_pos_of_f53_ne_zero _ h1).ne'

/-- an ordinary state: the first uniform is already non-zero -/
theorem firstNonzero_zero_of_pos (g : Rng) (h : (g.f53).1 ≠ 0) : FirstNonzero g 0 :=
  ⟨fun j hj => absurd hj (Nat.not_lt_zero _), (f64_pos_of_f53_ne_zero g h).ne'⟩

/-- **Exponential** (every generator state for which the call returns, every rate `> 0`): with `u` the first non-zero
uniform of the stream, `F(sample) = 1 - u`, the draw is `> 0`, and the state is the one right after `u`. -/
theorem exponential_inverse_cdf (lam : ℝ) (hl : 0 < lam) (fuel : Nat) (g g' : Rng) (x : ℝ)
    (h : Exponential.sample fuel lam g = some (x, g')) :
    ∃ k, k < fuel ∧ FirstNonzero g k ∧ expCDF lam x = 1 - uAt g k ∧ 0 < x ∧ g' = stAfter g (k + 1) := by
  unfold Exponential.sample at h
  cases hr : redrawNonzero (UniformF.sample (0 : ℝ) 1) fuel g with
  | none => simp [hr] at h
  | some r =>
    obtain ⟨u, g1⟩ := r
    simp only [hr, Option.map_some, Option.some.injEq, Prod.mk.injEq] at h
    obtain ⟨k, hk, hfn, hu, hg⟩ := redraw_unit_spec fuel g g1 u hr
    obtain ⟨hpos, hlt⟩ := firstNonzero_pos hfn
    refine ⟨k, hk, hfn, ?_, ?_, by rw [← h.2, hg]⟩
    · rw [← h.1, hu]
      simp only [Exponential.ofU, expCDF, Transc.ln]
      have : -lam * (-Real.log (uAt g k) / lam) = Real.log (uAt g k) := by field_simp
      rw [this, Real.exp_log hpos]
    · rw [← h.1, hu]
      simp only [Exponential.ofU, Transc.ln]
      have := Real.log_neg hpos hlt
      exact div_pos (by linarith) hl

/-- **Exponential, termination**: the call returns as soon as the stream has a non-zero uniform within the fuel. -/
theorem exponential_returns (lam : ℝ) (fuel : Nat) (g : Rng) (k : Nat) (hk : FirstNonzero g k) (hf : k < fuel) :
    Exponential.sample fuel lam g = some (Exponential.ofU lam (uAt g k), stAfter g (k + 1)) := by
  simp [Exponential.sample, redraw_unit_returns fuel g k hk hf]

example : ∃ x g', Exponential.sample 1 (2 : ℝ) ⟨0⟩ = some (x, g') :=
  ⟨_, _, exponential_returns 2 1 ⟨0⟩ 0 (firstNonzero_zero_of_pos _ (by decide +kernel)) (by omega)⟩
/-- at the F53 state the sampler redraws once and returns a finite positive value computed from the second uniform -/
example : ∃ x g', Exponential.sample 2 (1 : ℝ) (Rng.ofSeed 0x5F89E29B87429BD1) = some (x, g') ∧ 0 < x := by
  have h := exponential_returns 1 2 _ 1 f53_state (by omega)
  obtain ⟨k, _, _, _, hx, _⟩ := exponential_inverse_cdf 1 one_pos 2 _ _ _ h
  exact ⟨_, _, h, hx⟩

/-- **Pareto** (every returning call): `F(sample) = 1 - u` and `sample ≥ x_m`, `u` the first non-zero uniform. -/
theorem pareto_inverse_cdf (alpha xm : ℝ) (ha : 0 < alpha) (hm : 0 < xm) (fuel : Nat) (g g' : Rng) (x : ℝ)
    (h : Pareto.sample fuel alpha xm g = some (x, g')) :
    ∃ k, k < fuel ∧ FirstNonzero g k ∧ paretoCDF alpha xm x = 1 - uAt g k ∧ xm ≤ x ∧ g' = stAfter g (k + 1) := by
  unfold Pareto.sample at h
  cases hr : redrawNonzero (fun g => g.f64 (α := ℝ)) fuel g with
  | none => simp [hr] at h
  | some r =>
    obtain ⟨u, g1⟩ := r
    simp only [hr, Option.map_some, Option.some.injEq, Prod.mk.injEq] at h
    obtain ⟨k, _, h2, h3, h4, h5, h6⟩ := redraw_f64_spec g fuel 0 u g1 hr
    have hfn : FirstNonzero g k := ⟨fun j hj => h3 j (Nat.zero_le _) hj, h4⟩
    obtain ⟨hpos, hlt⟩ := firstNonzero_pos hfn
    have hp : 0 < uAt g k ^ (1 / alpha) := Real.rpow_pos_of_pos hpos _
    refine ⟨k, by omega, hfn, ?_, ?_, by rw [← h.2, h6]⟩
    · rw [← h.1, h5]
      simp only [Pareto.ofU, paretoCDF, Transc.pow]
      have h1 : xm / (xm / uAt g k ^ (1 / alpha)) = uAt g k ^ (1 / alpha) := by field_simp
      rw [h1, ← Real.rpow_mul hpos.le]
      have : 1 / alpha * alpha = 1 := by field_simp
      rw [this, Real.rpow_one]
    · rw [← h.1, h5]
      simp only [Pareto.ofU, Transc.pow]
      have hle : uAt g k ^ (1 / alpha) ≤ 1 := Real.rpow_le_one hpos.le hlt.le (by positivity)
      rw [le_div_iff₀ hp]
      nlinarith

theorem pareto_returns (alpha xm : ℝ) (fuel : Nat) (g : Rng) (k : Nat) (hk : FirstNonzero g k) (hf : k < fuel) :
    Pareto.sample fuel alpha xm g = some (Pareto.ofU alpha xm (uAt g k), stAfter g (k + 1)) := by
  have := redraw_f64_complete g fuel 0 k (Nat.zero_le _) (by omega) (fun j _ hj => hk.1 j hj) hk.2
  have h0 : stAfter g 0 = g := rfl
  rw [h0] at this
  simp [Pareto.sample, this]

example : ∃ x g', Pareto.sample 2 (3 : ℝ) 1 (Rng.ofSeed 0x5F89E29B87429BD1) = some (x, g') ∧ 1 ≤ x := by
  have h := pareto_returns 3 1 2 _ 1 f53_state (by omega)
  obtain ⟨k, _, _, _, hx, _⟩ := pareto_inverse_cdf 3 1 (by norm_num) one_pos 2 _ _ _ h
  exact ⟨_, _, h, hx⟩

/-- **Gumbel** (every returning call): `F(sample) = u`, `u` the first non-zero uniform. -/
theorem gumbel_inverse_cdf (mu beta : ℝ) (hb : 0 < beta) (fuel : Nat) (g g' : Rng) (x : ℝ)
    (h : Gumbel.sample fuel mu beta g = some (x, g')) :
    ∃ k, k < fuel ∧ FirstNonzero g k ∧ gumbelCDF mu beta x = uAt g k ∧ g' = stAfter g (k + 1) := by
  unfold Gumbel.sample at h
  cases hr : redrawNonzero (UniformF.sample (0 : ℝ) 1) fuel g with
  | none => simp [hr] at h
  | some r =>
    obtain ⟨u, g1⟩ := r
    simp only [hr, Option.map_some, Option.some.injEq, Prod.mk.injEq] at h
    obtain ⟨k, hk, hfn, hu, hg⟩ := redraw_unit_spec fuel g g1 u hr
    obtain ⟨hpos, hlt⟩ := firstNonzero_pos hfn
    refine ⟨k, hk, hfn, ?_, by rw [← h.2, hg]⟩
    rw [← h.1, hu]
    simp only [Gumbel.ofU, gumbelCDF, Transc.ln]
    have hl : 0 < -Real.log (uAt g k) := by
      have := Real.log_neg hpos hlt
      linarith
    have : -(mu - beta * Real.log (-Real.log (uAt g k)) - mu) / beta = Real.log (-Real.log (uAt g k)) := by
      field_simp; ring
    rw [this, Real.exp_log hl, neg_neg, Real.exp_log hpos]

theorem gumbel_returns (mu beta : ℝ) (fuel : Nat) (g : Rng) (k : Nat) (hk : FirstNonzero g k) (hf : k < fuel) :
    Gumbel.sample fuel mu beta g = some (Gumbel.ofU mu beta (uAt g k), stAfter g (k + 1)) := by
  simp [Gumbel.sample, redraw_unit_returns fuel g k hk hf]

example : ∃ x g', Gumbel.sample 2 (0 : ℝ) 1 (Rng.ofSeed 0x5F89E29B87429BD1) = some (x, g') :=
  ⟨_, _, gumbel_returns 0 1 2 _ 1 f53_state (by omega)⟩

/-- **Uniform.** For `a < b` and every draw: `F(sample) = u`. -/
theorem uniform_inverse_cdf (a b : ℝ) (hab : a < b) (g : Rng) :
    uniformCDF a b (UniformF.sample a b g).1 = (g.f64 (α := ℝ)).1 ∧ (UniformF.sample a b g).2 = (g.f64 (α := ℝ)).2 := by
  simp only [uniformF_real, Uniform.sample, uniformCDF]
  refine ⟨?_, trivial⟩
  have : b - a ≠ 0 := by linarith
  field_simp
  ring

/-- **Bernoulli.** For `0 < p < 1` the draw is `1` exactly when `u < p` (an event of probability `p` under the uniform
law), and `0` otherwise; one uniform is consumed. -/
theorem bernoulli_law (p : ℝ) (h0 : 0 < p) (h1 : p < 1) (g : Rng) :
    ((Bernoulli.sample p g).1 = 1 ↔ (g.f64 (α := ℝ)).1 < p) ∧
    ((Bernoulli.sample p g).1 = 0 ↔ ¬ (g.f64 (α := ℝ)).1 < p) ∧ (Bernoulli.sample p g).2 = (g.f64 (α := ℝ)).2 := by
  have e1 : (p < 1 ∨ 1 < p) := Or.inl h1
  have e0 : (p < 0 ∨ 0 < p) := Or.inr h0
  simp only [Bernoulli.sample, e1, e0, not_true_eq_false, if_false]
  by_cases hu : (g.f64 (α := ℝ)).1 < p <;> simp [hu]

/-- Degenerate Bernoulli laws draw nothing from the generator. -/
theorem bernoulli_degenerate (g : Rng) :
    Bernoulli.sample (1 : ℝ) g = (1, g) ∧ Bernoulli.sample (0 : ℝ) g = (0, g) := by
  constructor <;> simp [Bernoulli.sample]

/-! ### 4a. Support of the inverse-CDF samplers -/

/-- Pareto draws are `≥ x_m`: every returning call, every generator state (the redraw loop removes `u = 0`). -/
theorem pareto_support_partial (alpha xm : ℝ) (ha : 0 < alpha) (hm : 0 < xm) (fuel : Nat) (g g' : Rng) (x : ℝ)
    (h : Pareto.sample fuel alpha xm g = some (x, g')) : xm ≤ x := by
  obtain ⟨_, _, _, _, hx, _⟩ := pareto_inverse_cdf alpha xm ha hm fuel g g' x h
  exact hx

/-- Exponential draws are `> 0`: every returning call, every generator state. -/
theorem exponential_support_partial (lam : ℝ) (hl : 0 < lam) (fuel : Nat) (g g' : Rng) (x : ℝ)
    (h : Exponential.sample fuel lam g = some (x, g')) : 0 < x := by
  obtain ⟨_, _, _, _, hx, _⟩ := exponential_inverse_cdf lam hl fuel g g' x h
  exact hx

/-- Uniform draws lie in `[a, b]` (in fact in `[a, b)`), for every state; equal bounds give the bound. -/
theorem uniform_support (a b : ℝ) (hab : a ≤ b) (g : Rng) :
    a ≤ (UniformF.sample a b g).1 ∧ (UniformF.sample a b g).1 ≤ b := by
  simp only [uniformF_real, Uniform.sample]
  obtain ⟨h0, h1⟩ := f64_mem g
  set u := (g.f64 (α := ℝ)).1
  constructor <;> nlinarith

theorem uniform_degenerate (a : ℝ) (g : Rng) : (UniformF.sample a a g).1 = a := by
  simp [uniformF_real, Uniform.sample]

/-- **DiscreteUniform support** (every returning call): the draw is an integer `i` with `lower ≤ i ≤ upper`, cast to the
scalar type (uses the range theorem of Lemire's bounded draw, `Lemmas/C19Rng.lean`); equal bounds return the bound without
touching the generator. -/
theorem discrete_uniform_support_partial (fuel : Nat) (lo hi : Int) (g g' : Rng) (x : ℝ)
    (h : DiscreteUniform.sample (α := ℝ) fuel lo hi g = some (x, g')) :
    ∃ i : Int, x = (i : ℝ) ∧ lo ≤ i ∧ i ≤ hi ∧ DiscreteUniform.sampleInt fuel lo hi g = some (i, g') := by
  unfold DiscreteUniform.sample at h
  cases hs : DiscreteUniform.sampleInt fuel lo hi g with
  | none => simp [hs] at h
  | some r =>
    obtain ⟨i, g1⟩ := r
    simp [hs] at h
    obtain ⟨hlo, hhi⟩ := DiscreteUniform.sampleInt_range hs
    exact ⟨i, h.1.symm, hlo, hhi, by rw [h.2]⟩

theorem discrete_uniform_degenerate (fuel : Nat) (lo : Int) (g : Rng) :
    DiscreteUniform.sample (α := ℝ) fuel lo lo g = some ((lo : ℝ), g) := by
  simp [DiscreteUniform.sample, DiscreteUniform.sampleInt_eq]

/-- Bernoulli draws are `0` or `1`, for every `p` and every state. -/
theorem bernoulli_support (p : ℝ) (g : Rng) : (Bernoulli.sample p g).1 = 0 ∨ (Bernoulli.sample p g).1 = 1 := by
  simp only [Bernoulli.sample]
  split_ifs <;> simp

/-! ### 3. Compositions -/

/-- **Chi-squared** with `k` degrees of freedom is sampled as `Gamma(k/2, rate 1/2)` (any scalar type). -/
theorem chi_squared_is_gamma (fuel k : Nat) (g : Rng) :
    ChiSquared.sample (α := ℝ) fuel k g = Gamma.sample fuel ((k : ℝ) / 2) (1 / 2) g := by
  simp [ChiSquared.sample, halfC]

/-- **Beta** is `X / (X + Y)` with `X ~ Gamma(α, 1)` drawn first and `Y ~ Gamma(β, 1)` drawn from the state left by `X`
(whenever the two variates are not both zero — over `ℝ` with positive draws: always). -/
theorem beta_is_gamma_ratio (fuel : Nat) (a b : ℝ) (g g1 g2 : Rng) (x y : ℝ)
    (hx : Gamma.sample fuel a 1 g = some (x, g1)) (hy : Gamma.sample fuel b 1 g1 = some (y, g2)) (hxy : x + y ≠ 0) :
    Beta.sample fuel a b g = some (x / (x + y), g2) := by
  simp [Beta.sample, hx, hy, hxy]

/-- **Beta, underflow branch (repair F43).** When both variates are `0` one more uniform `u` is drawn and the end point `1`
is returned iff `u (α + β) < α` (probability `α/(α+β)`, the limit law of `Beta(tα, tβ)` as `t → 0`), else `0`. -/
theorem beta_underflow_branch (fuel : Nat) (a b : ℝ) (g g1 g2 : Rng) (x y : ℝ)
    (hx : Gamma.sample fuel a 1 g = some (x, g1)) (hy : Gamma.sample fuel b 1 g1 = some (y, g2)) (hxy : x + y = 0) :
    Beta.sample fuel a b g =
      some (if (g2.f64 (α := ℝ)).1 * (a + b) < a then 1 else 0, (g2.f64 (α := ℝ)).2) := by
  simp [Beta.sample, hx, hy, hxy]

/-- Beta fails (does not return) exactly when one of its two gamma draws does. -/
theorem beta_none_iff (fuel : Nat) (a b : ℝ) (g : Rng) :
    Beta.sample fuel a b g = none ↔
      Gamma.sample fuel a 1 g = none ∨ ∃ x g1, Gamma.sample fuel a 1 g = some (x, g1) ∧ Gamma.sample fuel b 1 g1 = none := by
  unfold Beta.sample
  cases hx : Gamma.sample fuel a 1 g with
  | none => simp
  | some r =>
    obtain ⟨x, g1⟩ := r
    cases hy : Gamma.sample fuel b 1 g1 with
    | none => simp [hy]
    | some r2 =>
      obtain ⟨y, g2⟩ := r2
      simp only [hy]
      split_ifs <;> simp [hy]

/-- **Student t** is `√(ν/2) · Z / √G` with `Z` standard normal drawn first and `G ~ Gamma(ν/2, 1)` second. -/
theorem t_formula (fuel : Nat) (nu : ℝ) (hnu : 0 < nu) (g g1 g2 : Rng) (z gm : ℝ)
    (hz : Normal.sample fuel (0 : ℝ) 1 g = some (z, g1)) (hg : Gamma.sample fuel (nu / 2) 1 g1 = some (gm, g2)) :
    T.sample fuel nu g = some (Real.sqrt (nu / 2) * z / Real.sqrt gm, g2) := by
  have hv : Gamma.valid (nu / ((2 : Nat) : ℝ)) (1 : ℝ) = true := by
    simpa [Gamma.valid] using hnu
  simp only [T.sample, hz, hv, if_true]
  have : nu / ((2 : Nat) : ℝ) = nu / 2 := by norm_num
  rw [this, hg]
  rfl

/-- **Poisson routing.** Multiplication method below rate 10, PTRS from 10 on. -/
theorem poisson_routing (fuel : Nat) (lam : ℝ) (g : Rng) :
    (lam < 10 → Poisson.sample fuel lam g = Poisson.sampleMult fuel lam g) ∧
    (10 ≤ lam → Poisson.sample fuel lam g = Poisson.samplePtrs fuel lam g) := by
  constructor <;> intro h <;> simp only [Poisson.sample]
  · simp [h]
  · simp [not_lt.mpr h]

/-- **Binomial, degenerate parameters** draw nothing: `n = 0` or `p = 0` give `0`, `p = 1` gives `n`. -/
theorem binomial_degenerate (fuel ifuel n : Nat) (p : ℝ) (g : Rng) :
    Binomial.sample fuel ifuel 0 p g = some (0, g) ∧ Binomial.sample fuel ifuel n (0 : ℝ) g = some (0, g) ∧
    (0 < n → Binomial.sample fuel ifuel n (1 : ℝ) g = some ((n : ℝ), g)) := by
  refine ⟨by simp [Binomial.sample], by simp [Binomial.sample], ?_⟩
  intro hn
  have hn' : n ≠ 0 := by omega
  have he : (0 : ℝ) ≤ epsC := by unfold epsC; positivity
  simp [Binomial.sample, hn', Transc.abs, he]

/-- The count before the flip: inversion when `n p' ≤ 30`, BTPE otherwise. -/
noncomputable def binomialRoute (fuel ifuel n : Nat) (p' : ℝ) (g : Rng) : Option (Nat × Rng) :=
  if p' * (n : ℝ) ≤ 30 then Binomial.inversion fuel n p' g else Binomial.btpe fuel ifuel n p' g

/-- **Binomial routing, `p ≤ 1/2`** (`0 < n`, `0 < p`): the draw is the count of the routed sampler at `p`. -/
theorem binomial_routing (fuel ifuel n : Nat) (p : ℝ) (g : Rng) (hn : 0 < n) (hp : 0 < p) (h2 : p ≤ 1 / 2) :
    Binomial.sample fuel ifuel n p g = (binomialRoute fuel ifuel n p g).map (fun r => ((r.1 : ℝ), r.2)) := by
  have hn' : n ≠ 0 := by omega
  have e0 : (p < 0 ∨ 0 < p) := Or.inr hp
  have he : (epsC : ℝ) = 1 / 2 ^ 52 := by unfold epsC; norm_num
  have e1 : ¬ (|p - 1| ≤ (epsC : ℝ)) := by
    rw [he, abs_of_neg (by linarith)]
    have : (1 : ℝ) / 2 ^ 52 < 1 / 2 := by norm_num
    intro h; linarith
  have e2 : ¬ ((1 : ℝ) / 2 < p) := not_lt.mpr h2
  simp only [Binomial.sample, binomialRoute, hn', e0, Transc.abs, e1, halfC, false_or, not_true_eq_false, if_false]
  norm_num [e2]
  cases h : (if p * (n : ℝ) ≤ 30 then Binomial.inversion fuel n p g else Binomial.btpe fuel ifuel n p g) <;> simp

/-- **Binomial flip, `p > 1/2`** (`0 < n`, `|p - 1| > 2⁻⁵²`): the routed sampler runs at `1 - p` and the draw is `n - r`
(the subtraction is checked: `r > n` would be a panic). -/
theorem binomial_flip (fuel ifuel n : Nat) (p : ℝ) (g : Rng) (hn : 0 < n) (h2 : 1 / 2 < p) (h1 : epsC < |p - 1|) :
    Binomial.sample fuel ifuel n p g =
      (binomialRoute fuel ifuel n (1 - p) g).bind (fun r => if r.1 ≤ n then some (((n - r.1 : Nat) : ℝ), r.2) else none) := by
  have hn' : n ≠ 0 := by omega
  have e0 : (p < 0 ∨ 0 < p) := Or.inr (by linarith)
  have e1 : ¬ (|p - 1| ≤ (epsC : ℝ)) := not_le.mpr h1
  simp only [Binomial.sample, binomialRoute, hn', e0, Transc.abs, e1, halfC, false_or, not_true_eq_false, if_false]
  norm_num [h2]
  cases h : (if (1 - p) * (n : ℝ) ≤ 30 then Binomial.inversion fuel n (1 - p) g else Binomial.btpe fuel ifuel n (1 - p) g) <;> simp

/-- **Gamma boost (repairs F20, F54).** Below shape 1 the sampler takes the first non-zero uniform `U` of the stream (redraw
loop) and returns `U^{1/α}` times what the Marsaglia–Tsang loop returns for shape `α + 1` from the state after that draw. -/
theorem gamma_boost (fuel : Nat) (a b : ℝ) (ha0 : 0 ≤ a) (ha : a < 1) (g : Rng) :
    Gamma.sample fuel a b g =
      (redrawNonzero (UniformF.sample (0 : ℝ) 1) fuel g).bind fun r =>
        (Gamma.sample fuel (a + 1) b r.2).map fun y => (r.1 ^ (1 / a) * y.1, y.2) := by
  have h2 : ¬ (a + 1 < 1) := by linarith
  simp only [Gamma.sample, Gamma.prepare, ha, h2, if_true, if_false, Transc.pow]
  cases hr : redrawNonzero (UniformF.sample (0 : ℝ) 1) fuel g with
  | none => rfl
  | some r =>
    simp only [Option.map_some, Option.bind_some]
    exact gamma_loop_boost fuel _ _ b fuel _

/-- From shape 1 on there is no boost and no extra draw. -/
theorem gamma_no_boost (fuel : Nat) (a b : ℝ) (ha : 1 ≤ a) (g : Rng) :
    Gamma.sample fuel a b g = Gamma.loop fuel 1 (a - 1 / 3) b fuel g := by
  have h2 : ¬ (a < 1) := by linarith
  simp [Gamma.sample, Gamma.prepare, h2]

/-! ### 4b. Support of the gamma family -/

/-- Every value returned by the Marsaglia–Tsang loop is positive when `boost, d, rate > 0` (the loop only accepts `v > 0`). -/
theorem gamma_loop_pos_partial (zf : Nat) (boost d beta : ℝ) (hb : 0 < boost) (hd : 0 < d) (hbeta : 0 < beta)
    (fuel : Nat) (g g' : Rng) (x : ℝ) (h : Gamma.loop zf boost d beta fuel g = some (x, g')) : 0 < x :=
  gamma_loop_pos' zf boost d beta hb hd hbeta fuel g g' x h

/-- **Gamma support.** For shape `≥ 1` every returned draw is `> 0`. -/
theorem gamma_support_ge_one_partial (fuel : Nat) (a b : ℝ) (ha : 1 ≤ a) (hb : 0 < b) (g g' : Rng) (x : ℝ)
    (h : Gamma.sample fuel a b g = some (x, g')) : 0 < x := by
  rw [gamma_no_boost fuel a b ha] at h
  exact gamma_loop_pos_partial fuel 1 _ b one_pos (by linarith) hb fuel g g' x h

/-- **Gamma support below shape 1** (after F54): every returned draw is `> 0` — the boosting uniform is the first non-zero
one, hence in `(0, 1)`. -/
theorem gamma_support_lt_one_partial (fuel : Nat) (a b : ℝ) (ha0 : 0 < a) (ha : a < 1) (hb : 0 < b) (g g' : Rng) (x : ℝ)
    (h : Gamma.sample fuel a b g = some (x, g')) : 0 < x := by
  rw [gamma_boost fuel a b ha0.le ha] at h
  cases hr : redrawNonzero (UniformF.sample (0 : ℝ) 1) fuel g with
  | none => simp [hr] at h
  | some r =>
    obtain ⟨u, g1⟩ := r
    obtain ⟨k, _, hfn, hu, _⟩ := redraw_unit_spec fuel g g1 u hr
    have hupos : 0 < u := by rw [hu]; exact (firstNonzero_pos hfn).1
    simp only [hr, Option.bind_some] at h
    cases hs : Gamma.sample fuel (a + 1) b g1 with
    | none => simp [hs] at h
    | some y =>
      obtain ⟨y, g2⟩ := y
      simp [hs] at h
      have hy : 0 < y := gamma_support_ge_one_partial fuel (a + 1) b (by linarith) hb _ g2 y hs
      rw [← h.1]
      exact mul_pos (Real.rpow_pos_of_pos hupos _) hy

/-- **Gamma support**, every valid shape and rate: returned draws are `> 0`. -/
theorem gamma_support_pos_partial (fuel : Nat) (a b : ℝ) (ha : 0 < a) (hb : 0 < b) (g g' : Rng) (x : ℝ)
    (h : Gamma.sample fuel a b g = some (x, g')) : 0 < x := by
  by_cases h1 : a < 1
  · exact gamma_support_lt_one_partial fuel a b ha h1 hb g g' x h
  · exact gamma_support_ge_one_partial fuel a b (not_lt.mp h1) hb g g' x h

theorem gamma_support_nonneg_partial (fuel : Nat) (a b : ℝ) (ha : 0 < a) (hb : 0 < b) (g g' : Rng) (x : ℝ)
    (h : Gamma.sample fuel a b g = some (x, g')) : 0 ≤ x := (gamma_support_pos_partial fuel a b ha hb g g' x h).le

/-- Chi-squared draws are `> 0` (every `dof ≥ 1`, every returning call; after F54 also at the zero-uniform states). -/
theorem chi_squared_support_partial (fuel k : Nat) (hk : 0 < k) (g g' : Rng) (x : ℝ)
    (h : ChiSquared.sample (α := ℝ) fuel k g = some (x, g')) : 0 < x := by
  rw [chi_squared_is_gamma] at h
  have hk' : (0 : ℝ) < (k : ℝ) / 2 := by positivity
  exact gamma_support_pos_partial fuel _ _ hk' (by norm_num) g g' x h

/-- **Beta support**: every returned draw lies in `[0, 1]` (valid shapes). -/
theorem beta_sample_support_partial (fuel : Nat) (a b : ℝ) (ha : 0 < a) (hb : 0 < b) (g g' : Rng) (v : ℝ)
    (h : Beta.sample fuel a b g = some (v, g')) : 0 ≤ v ∧ v ≤ 1 := by
  unfold Beta.sample at h
  cases hx : Gamma.sample fuel a 1 g with
  | none => simp [hx] at h
  | some r =>
    obtain ⟨x, g1⟩ := r
    cases hy : Gamma.sample fuel b 1 g1 with
    | none => simp [hx, hy] at h
    | some r2 =>
      obtain ⟨y, g2⟩ := r2
      have hx0 : 0 ≤ x := gamma_support_nonneg_partial fuel a 1 ha one_pos g g1 x hx
      have hy0 : 0 ≤ y := gamma_support_nonneg_partial fuel b 1 hb one_pos g1 g2 y hy
      simp only [hx, hy] at h
      split_ifs at h with h0 h1
      · simp at h; rw [← h.1]; norm_num
      · simp at h; rw [← h.1]; norm_num
      · simp at h
        rw [← h.1]
        have hne : x + y ≠ 0 := by simpa using h0
        have hpos : 0 < x + y := lt_of_le_of_ne (by linarith) (Ne.symm hne)
        exact ⟨by positivity, by rw [div_le_one hpos]; linarith⟩

/-- The Poisson multiplication method returns a natural number (so a non-negative integer-valued `f64`). -/
theorem poisson_mult_count (fuel : Nat) (lam : ℝ) (g g' : Rng) (x : ℝ)
    (h : Poisson.sampleMult fuel lam g = some (x, g')) : ∃ k : Nat, x = (k : ℝ) ∧ Poisson.sampleMultNat fuel lam g = some (k, g') := by
  unfold Poisson.sampleMult at h
  cases hs : Poisson.sampleMultNat fuel lam g with
  | none => simp [hs] at h
  | some r => obtain ⟨k, g1⟩ := r; simp [hs] at h; exact ⟨k, h.1.symm, by rw [h.2]⟩

/-! ### 2b. The two exact discrete samplers -/

/-- **Poisson, multiplication method.** If the sampler returns `k` then `k + 1` uniforms `u_0 … u_k` were consumed and
`u_0 ⋯ u_j > e^{-λ}` for every `j < k` while `u_0 ⋯ u_k ≤ e^{-λ}`: `k` is the number of partial products above the
limit — the textbook characterisation of a Poisson(λ) count by unit-rate exponential inter-arrival times. -/
theorem poisson_mult_spec (fuel : Nat) (lam : ℝ) (g g' : Rng) (k : Nat)
    (h : Poisson.sampleMultNat fuel lam g = some (k, g')) :
    g' = stAfter g (k + 1) ∧ (∀ j < k, Real.exp (-lam) < prodU g (j + 1)) ∧ prodU g (k + 1) ≤ Real.exp (-lam) := by
  have h' : Poisson.multLoop (Real.exp (-lam)) fuel 0 (prodU g (0 + 1)) (stAfter g (0 + 1)) = some (k, g') := by
    have e : prodU g (0 + 1) = (g.f64 (α := ℝ)).1 := by simp [prodU, uAt, stAfter]
    rw [e]; exact h
  obtain ⟨_, h2, h3, h4⟩ := multLoop_spec (Real.exp (-lam)) g fuel 0 k g' h'
  exact ⟨h2, fun j hj => h3 j (Nat.zero_le _) hj, h4⟩

/-- Conversely, with more than `k` units of fuel, the first index `k` at which the running product is `≤ e^{-λ}` is returned. -/
theorem poisson_mult_complete (fuel : Nat) (lam : ℝ) (g : Rng) (k : Nat) (hf : k < fuel)
    (hb : ∀ j < k, Real.exp (-lam) < prodU g (j + 1)) (ha : prodU g (k + 1) ≤ Real.exp (-lam)) :
    Poisson.sampleMultNat fuel lam g = some (k, stAfter g (k + 1)) := by
  have := multLoop_complete (Real.exp (-lam)) g fuel 0 k (Nat.zero_le _) (by omega) (fun j _ hj => hb j hj) ha
  have e : prodU g (0 + 1) = (g.f64 (α := ℝ)).1 := by simp [prodU, uAt, stAfter]
  rw [e] at this
  exact this

/-- The Poisson count is determined by the stream: two indices satisfying the characterisation coincide. -/
theorem poisson_mult_unique (lam : ℝ) (g : Rng) (k k' : Nat)
    (hb : ∀ j < k, Real.exp (-lam) < prodU g (j + 1)) (ha : prodU g (k + 1) ≤ Real.exp (-lam))
    (hb' : ∀ j < k', Real.exp (-lam) < prodU g (j + 1)) (ha' : prodU g (k' + 1) ≤ Real.exp (-lam)) : k = k' := by
  rcases Nat.lt_trichotomy k k' with h | h | h
  · have := hb' k h; linarith
  · exact h
  · have := hb k' h; linarith

/-- **Binomial inversion** (every `n`, `0 < p < 1`): one uniform `u` is consumed; the loop walks the exact binomial mass
function (`binTerm_succ`: the factor `a/x − s` turns `C(n,x−1) p^{x−1} q^{n−x+1}` into `C(n,x) p^x q^{n−x}`), and the
returned `k` is the generalised inverse of the binomial CDF at `u`: `F(j) < u` for `j < k` and `u ≤ F(k)`. -/
theorem binomial_inversion_spec (fuel n : Nat) (p : ℝ) (h0 : 0 < p) (h1 : p < 1) (g g' : Rng) (k : Nat)
    (h : Binomial.inversion fuel n p g = some (k, g')) :
    g' = (g.f64 (α := ℝ)).2 ∧ (∀ j < k, binCDF n p j < (g.f64 (α := ℝ)).1) ∧ (g.f64 (α := ℝ)).1 ≤ binCDF n p k := by
  have hpow : Transc.exp (((n : ℕ) : ℝ) * Log1p.log1p (-p)) = (1 - p) ^ n := by
    show Real.exp ((n : ℝ) * Real.log (1 + -p)) = (1 - p) ^ n
    have hq : 0 < 1 + -p := by linarith
    rw [mul_comm, Real.exp_mul, Real.exp_log hq, Real.rpow_natCast]
    first | rfl | (congr 1; ring)
  simp only [Binomial.inversion, hpow] at h
  cases hl : Binomial.invLoop (((n : ℝ) + 1) * (p / (1 - p))) (p / (1 - p)) fuel (g.f64 (α := ℝ)).1 ((1 - p) ^ n) 0 with
  | none => rw [hl] at h; simp at h
  | some x =>
    rw [hl] at h
    simp only [Option.map_some, Option.some.injEq, Prod.mk.injEq] at h
    obtain ⟨hx, hg⟩ := h
    subst hx
    have e0 : binTerm n p 0 = (1 - p) ^ n := by simp [binTerm]
    have e1 : (g.f64 (α := ℝ)).1 - (binCDF n p 0 - binTerm n p 0) = (g.f64 (α := ℝ)).1 := by simp [binCDF]
    rw [← e0, ← e1] at hl
    obtain ⟨_, h3, h4⟩ := invLoop_spec n p h0 h1 _ fuel 0 x hl
    exact ⟨hg.symm, fun j hj => h3 j (Nat.zero_le _) hj, h4⟩

/-- The count returned by inversion is at most `n` (the mass function sums to `1 > u`). -/
theorem binomial_inversion_le (fuel n : Nat) (p : ℝ) (h0 : 0 < p) (h1 : p < 1) (g g' : Rng) (k : Nat)
    (h : Binomial.inversion fuel n p g = some (k, g')) : k ≤ n := by
  obtain ⟨_, hb, _⟩ := binomial_inversion_spec fuel n p h0 h1 g g' k h
  by_contra hk
  have := hb n (by omega)
  rw [binCDF_top] at this
  have := (f64_mem g).2
  linarith

/-! #### Termination of the two exact discrete samplers (over ℝ, every generator state) -/

/-- **The Poisson multiplication method terminates**, for every rate and every generator state: the uniforms are
`≤ 1 - 2⁻⁵³`, so the running product falls to `e^{-λ}` after finitely many draws; with that much fuel the sampler returns. -/
theorem poisson_mult_terminates (lam : ℝ) (g : Rng) :
    ∃ k, Poisson.sampleMultNat (k + 1) lam g = some (k, stAfter g (k + 1)) := by
  classical
  have hex : ∃ k, prodU g (k + 1) ≤ Real.exp (-lam) := exists_prodU_le g _ (Real.exp_pos _)
  refine ⟨Nat.find hex, poisson_mult_complete _ lam g _ (Nat.lt_succ_self _) ?_ (Nat.find_spec hex)⟩
  intro j hj
  exact not_le.mp (Nat.find_min hex hj)

/-- more fuel never changes that: any fuel above the count returns the same count -/
theorem poisson_mult_terminates_fuel (lam : ℝ) (g : Rng) :
    ∃ k, ∀ fuel, k < fuel → Poisson.sampleMultNat fuel lam g = some (k, stAfter g (k + 1)) := by
  classical
  have hex : ∃ k, prodU g (k + 1) ≤ Real.exp (-lam) := exists_prodU_le g _ (Real.exp_pos _)
  refine ⟨Nat.find hex, fun fuel hf => poisson_mult_complete fuel lam g _ hf ?_ (Nat.find_spec hex)⟩
  intro j hj
  exact not_le.mp (Nat.find_min hex hj)

/-- **Binomial inversion terminates** (`0 < p < 1`, every `n`, every generator state) within `n + 1` iterations: the mass
function sums to `1 > u`, so the first `k` with `u ≤ F(k)` exists and is `≤ n`. -/
theorem binomial_inversion_terminates (n : Nat) (p : ℝ) (h0 : 0 < p) (h1 : p < 1) (g : Rng) :
    ∃ k, k ≤ n ∧ ∀ fuel, n < fuel → Binomial.inversion fuel n p g = some (k, (g.f64 (α := ℝ)).2) := by
  classical
  have hu := (f64_mem g).2
  have hex : ∃ k, (g.f64 (α := ℝ)).1 ≤ binCDF n p k := ⟨n, by rw [binCDF_top]; exact hu.le⟩
  have hkn : Nat.find hex ≤ n := Nat.find_min' hex (by rw [binCDF_top]; exact hu.le)
  refine ⟨Nat.find hex, hkn, fun fuel hf => ?_⟩
  have hpow : Transc.exp (((n : ℕ) : ℝ) * Log1p.log1p (-p)) = (1 - p) ^ n := by
    show Real.exp ((n : ℝ) * Real.log (1 + -p)) = (1 - p) ^ n
    have hq : 0 < 1 + -p := by linarith
    rw [mul_comm, Real.exp_mul, Real.exp_log hq, Real.rpow_natCast]
    first | rfl | (congr 1; ring)
  have e0 : binTerm n p 0 = (1 - p) ^ n := by simp [binTerm]
  have e1 : (g.f64 (α := ℝ)).1 - (binCDF n p 0 - binTerm n p 0) = (g.f64 (α := ℝ)).1 := by simp [binCDF]
  have hc := invLoop_complete n p h0 h1 (g.f64 (α := ℝ)).1 fuel 0 (Nat.find hex) (Nat.zero_le _) (by omega)
    (fun j _ hj => not_le.mp (Nat.find_min hex hj)) (Nat.find_spec hex)
  rw [e1, e0] at hc
  simp only [Binomial.inversion, hpow, hc, Option.map_some]

/-- The mass function the loop walks is the binomial one and sums to one. -/
theorem binomial_mass_total (n : Nat) (p : ℝ) : binCDF n p n = 1 := binCDF_top n p

/-! ### 3b. Multivariate normal -/

/-- **MVN shape of the composition**: `z` = `dim` consecutive standard normal draws, result `mean + L·z` (`Dot` trait,
Matrix·Vector) — as a function of `z`. -/
theorem mvn_sample_eq (fuel : Nat) (d : MVN.Dist ℝ) (g : Rng) :
    MVN.sample fuel d g =
      (Rng.drawN? (Normal.sample fuel (0 : ℝ) 1) d.mean.length g).bind fun r =>
        (DotT.dotMV .dot d.chol r.1).bind fun lz => (MVN.vadd d.mean lz).map fun x => (x, r.2) := by
  unfold MVN.sample sampleN
  cases Rng.drawN? (Normal.sample fuel (0 : ℝ) 1) d.mean.length g with
  | none => rfl
  | some r =>
    obtain ⟨z, g1⟩ := r
    simp only [Option.bind]
    cases DotT.dotMV C05W.Meth.dot d.chol z <;> rfl

/-- **MVN = μ + L z.** With a well-formed `dim × dim` factor `L` and a mean of length `dim > 0`: if the `dim` normal draws
return `z`, the sample is the vector with entries `μ_i + Σ_k L[i,k] z_k`, and the state is the one left by the draws. -/
theorem mvn_sample_spec_partial (fuel : Nat) (d : MVN.Dist ℝ) (g g' : Rng) (z : List ℝ) (dim : Nat) (hdim : 0 < dim)
    (hmean : d.mean.length = dim) (hr : d.chol.nrows = dim) (hc : d.chol.ncols = dim) (hwf : d.chol.WF)
    (hz : Rng.drawN? (Normal.sample fuel (0 : ℝ) 1) dim g = some (z, g')) :
    ∃ x, MVN.sample fuel d g = some (x, g') ∧ x.length = dim ∧
      ∀ i, i < dim → x[i]! = d.mean[i]! + ∑ k ∈ Finset.range dim, d.chol.data[i * dim + k]! * z[k]! := by
  have hzl : z.length = dim := drawN_length _ _ _ _ _ hz
  obtain ⟨lz, hlz, hlen, hent⟩ := C05.dotMV_spec (α := ℝ) .dot d.chol z hwf (by omega) (by omega)
    (by simp [C05.flagA, hc, hzl])
  simp only [C05.flagA] at hlen hent
  have hlen' : lz.length = dim := by simpa [hr] using hlen
  refine ⟨List.zipWith (· + ·) d.mean lz, ?_, by simp [hmean, hlen'], ?_⟩
  · rw [mvn_sample_eq, hmean, hz]
    simp [hlz, MVN.vadd, hmean, hlen']
  · intro i hi
    have h1 : i < d.mean.length := by omega
    have h2 : i < lz.length := by omega
    have h3 : i < (List.zipWith (· + ·) d.mean lz).length := by simp; omega
    rw [getElem!_pos _ i h3, List.getElem_zipWith, getElem!_pos _ i h1]
    have := hent i h2
    rw [getElem!_pos _ i h2] at this
    rw [this, hzl]
    simp [C05L.opEntry, hc]

/-- **MVN sample_n** returns `n` rows of length `dim`, flattened row by row into an `n × dim` matrix. -/
theorem mvn_sampleN_shape (fuel : Nat) (d : MVN.Dist ℝ) (n : Nat) (g g' : Rng) (m : Mat ℝ)
    (h : MVN.sampleN fuel d n g = some (m, g')) :
    m.nrows = n ∧ m.ncols = d.mean.length ∧ m.data.length = n * d.mean.length ∧
      ∃ rows, Rng.drawN? (MVN.sample fuel d) n g = some (rows, g') ∧ rows.length = n ∧ m.data = rows.flatten := by
  unfold MVN.sampleN at h
  cases hs : Rng.drawN? (MVN.sample fuel d) n g with
  | none => simp [hs] at h
  | some p =>
    obtain ⟨rows, g1⟩ := p
    simp only [hs, LA.M.new] at h
    split_ifs at h with hl
    simp at h
    obtain ⟨hm, hg⟩ := h
    subst hm; subst hg
    exact ⟨rfl, rfl, hl.symm, rows, rfl, drawN_length _ _ _ _ _ hs, rfl⟩


/-! ### 5. Domain witness of the legacy gamma sampler (F20) and its repair -/

/-- Legacy code (`d = shape - 1/3` without the boost): for `shape < 1/3` the argument `9 d` of the square root is negative
on every iteration — outside the domain of `sqrt` (IEEE: NaN, so `v > 0` never holds and the loop never exits). -/
theorem legacy_gamma_sqrt_domain (a : ℝ) (ha : a < 1 / 3) : 9 * (a - 1 / 3) < 0 := by linarith

example : (9 : ℝ) * ((1 / 5 : ℝ) - 1 / 3) < 0 := legacy_gamma_sqrt_domain _ (by norm_num)

/-- Repaired code: the shape used by the loop is `≥ 1` for every valid shape, so the argument of the square root is
positive (`≥ 6`). -/
theorem gamma_sqrt_domain (fuel : Nat) (a : ℝ) (ha : 0 < a) (g : Rng) (r : ℝ × ℝ × Rng)
    (h : Gamma.prepare fuel a g = some r) : 6 ≤ 9 * (r.1 - 1 / 3) := by
  unfold Gamma.prepare at h
  split_ifs at h with h1
  · cases hr : redrawNonzero (UniformF.sample (0 : ℝ) 1) fuel g with
    | none => simp [hr] at h
    | some q => simp [hr] at h; rw [← h]; simp; linarith
  · simp at h; rw [← h]; simp; linarith

/-! ### 4c. Bulk sampling -/

/-- **sample_n** returns exactly `n` draws. -/
theorem sampleN_length {β : Type} (f : Rng → Option (β × Rng)) (n : Nat) (g g' : Rng) (xs : List β)
    (h : Rng.drawN? f n g = some (xs, g')) : xs.length = n := drawN_length f n g g' xs h

/-- **sample_n draws are consecutive in the stream**: the `i`-th draw is `f` applied to the state left by the `(i-1)`-th. -/
theorem sampleN_consecutive {β : Type} (f : Rng → Option (β × Rng)) (n : Nat) (g g' : Rng) (xs : List β)
    (h : Rng.drawN? f n g = some (xs, g')) :
    ∃ st : Nat → Rng, st 0 = g ∧ st n = g' ∧ ∀ i (hi : i < xs.length), f (st i) = some (xs[i], st (i + 1)) :=
  drawN_chain f n g g' xs h

/-- `sample_n` at a real distribution: `Distribution1D::sample_n` is `drawN?` of `sample`. -/
theorem sampleN_eq (f : Rng → Option (ℝ × Rng)) (n : Nat) (g : Rng) : sampleN f n g = Rng.drawN? f n g := rfl

/-- **sample_matrix** has shape `r × c`, holds `r·c` entries, and these are the `r·c` consecutive draws of `sample_n`. -/
theorem sampleMatrix_shape (f : Rng → Option (ℝ × Rng)) (r c : Nat) (g g' : Rng) (m : Mat ℝ)
    (h : sampleMatrix f r c g = some (m, g')) :
    m.nrows = r ∧ m.ncols = c ∧ m.data.length = r * c ∧ sampleN f (r * c) g = some (m.data, g') := by
  unfold sampleMatrix at h
  cases hs : sampleN f (r * c) g with
  | none => simp [hs] at h
  | some p =>
    obtain ⟨d, g1⟩ := p
    have hl := drawN_length f (r * c) g g1 d hs
    simp only [hs, LA.M.new, hl, if_true] at h
    simp at h
    obtain ⟨hm, hg⟩ := h
    subst hm; subst hg
    exact ⟨rfl, rfl, hl, rfl⟩

/-- `sample_matrix` returns whenever the `r·c` draws return. -/
theorem sampleMatrix_total (f : Rng → Option (ℝ × Rng)) (r c : Nat) (g g' : Rng) (d : List ℝ)
    (h : sampleN f (r * c) g = some (d, g')) : sampleMatrix f r c g = some (⟨d, r, c⟩, g') := by
  have hl := drawN_length f (r * c) g g' d h
  simp [sampleMatrix, h, LA.M.new, hl]

end Cv.C03
