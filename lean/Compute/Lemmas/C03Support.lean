import Compute.Props.C03
import Mathlib.Algebra.Order.Floor.Ring
import Mathlib.Analysis.SpecialFunctions.Sqrt
/-
C03, support of the rejection samplers — helper lemmas over `ℝ` (instances of `Cv.C09` / `Cv.C03L`):
numeric boxes for the source literals, the arithmetic behind the acceptance regions of PTRS and BTPE, and the
loop invariants.
-/
set_option linter.unusedSectionVars false
set_option linter.unusedSimpArgs false
set_option linter.unusedVariables false

namespace Cv.C03Support
open Cv Cv.C03L Cv.C09
open scoped Cv.C09 Cv.C03L

/-! ### generalities -/

theorem halfC_real : (halfC : ℝ) = 1 / 2 := by norm_num [halfC]

theorem floor_def (x : ℝ) : (Transc.floor x : ℝ) = ((⌊x⌋ : ℤ) : ℝ) := rfl
theorem abs_def (x : ℝ) : (Transc.abs x : ℝ) = |x| := rfl
theorem sqrt_def (x : ℝ) : (Transc.sqrt x : ℝ) = Real.sqrt x := rfl
theorem ln_def (x : ℝ) : (Transc.ln x : ℝ) = Real.log x := rfl

theorem intCast_nat_of_nonneg (z : ℤ) (h : (0 : ℝ) ≤ (z : ℝ)) : ∃ k : ℕ, (z : ℝ) = (k : ℝ) := by
  have hz : 0 ≤ z := by exact_mod_cast h
  refine ⟨z.toNat, ?_⟩
  rw [← Int.cast_natCast, Int.toNat_of_nonneg hz]

/-- `y` is a natural number not exceeding `n`. -/
def InRange (n : ℕ) (y : ℝ) : Prop := ∃ k : ℕ, y = (k : ℝ) ∧ k ≤ n

/-- The floor of `x` is a natural number `≤ n` as soon as the lower end is guaranteed either by `0 ≤ x` or by the test
`¬ ⌊x⌋ < 0`, and the upper end either by `x ≤ n` or by the test `¬ n < ⌊x⌋`. -/
theorem floor_inRange (n : ℕ) (x : ℝ) (h0 : 0 ≤ x ∨ ¬ (Transc.floor x : ℝ) < 0)
    (h1 : x ≤ (n : ℝ) ∨ ¬ ((n : ℝ) < Transc.floor x)) : InRange n (Transc.floor x) := by
  rw [floor_def] at *
  have hz : 0 ≤ ⌊x⌋ := by
    rcases h0 with h | h
    · exact Int.floor_nonneg.mpr h
    · have := not_lt.mp h; exact_mod_cast this
  have hn : ⌊x⌋ ≤ (n : ℤ) := by
    rcases h1 with h | h
    · have : ⌊x⌋ ≤ ⌊(n : ℝ)⌋ := Int.floor_mono h
      simpa using this
    · have := not_lt.mp h; exact_mod_cast this
  refine ⟨⌊x⌋.toNat, ?_, ?_⟩
  · rw [← Int.cast_natCast, Int.toNat_of_nonneg hz]
  · omega

/-! ### PTRS -/

theorem ptrs_lits :
    ((93 / 100 : ℝ) ≤ ofLit C03T.ptrsB0 ∧ (ofLit C03T.ptrsB0 : ℝ) ≤ 94 / 100) ∧
    ((5 / 2 : ℝ) ≤ ofLit C03T.ptrsB1 ∧ (ofLit C03T.ptrsB1 : ℝ) ≤ 13 / 5) ∧
    ((1 / 20 : ℝ) ≤ ofLit C03T.ptrsA0 ∧ (ofLit C03T.ptrsA0 : ℝ) ≤ 3 / 50) ∧
    ((3 / 125 : ℝ) ≤ ofLit C03T.ptrsA1 ∧ (ofLit C03T.ptrsA1 : ℝ) ≤ 1 / 40) ∧
    (42 / 100 : ℝ) ≤ ofLit C03T.ptrsK0 ∧ (69 / 1000 : ℝ) ≤ ofLit C03T.ptrsUs1 := by
  simp only [ofLit_real, C03T.ptrsB0, C03T.ptrsB1, C03T.ptrsA0, C03T.ptrsA1, C03T.ptrsK0, C03T.ptrsUs1]
  norm_num

/-- The arithmetic behind the fast acceptance of PTRS: for `√λ = s ≥ 2` and `us = 1/2 − |U| ≥ c₁ ≈ 0.07`, the argument of
the floor is non-negative (constants in boxes around the source literals). -/
theorem ptrs_fast_arith (s B0 B1 A0 A1 K0 c1 U : ℝ) (hs : 2 ≤ s)
    (hB0 : 93 / 100 ≤ B0 ∧ B0 ≤ 94 / 100) (hB1 : 5 / 2 ≤ B1 ∧ B1 ≤ 13 / 5)
    (hA0 : 1 / 20 ≤ A0 ∧ A0 ≤ 3 / 50) (hA1 : 3 / 125 ≤ A1 ∧ A1 ≤ 1 / 40) (hK0 : 42 / 100 ≤ K0)
    (hc1 : 69 / 1000 ≤ c1) (hus : c1 ≤ 1 / 2 - |U|) :
    0 ≤ (2 * (-A0 + A1 * (B0 + B1 * s)) / (1 / 2 - |U|) + (B0 + B1 * s)) * U + s * s + K0 := by
  set b := B0 + B1 * s with hb
  set a := -A0 + A1 * b with ha
  set us := 1 / 2 - |U| with hus'
  have hs0 : 0 ≤ s := by linarith
  have hb_lo : 593 / 100 ≤ b := by
    have : 5 / 2 * s ≤ B1 * s := mul_le_mul_of_nonneg_right hB1.1 hs0
    rw [hb]; linarith [hB0.1]
  have hb_hi : b ≤ 94 / 100 + 13 / 5 * s := by
    have : B1 * s ≤ 13 / 5 * s := mul_le_mul_of_nonneg_right hB1.2 hs0
    rw [hb]; linarith [hB0.2]
  have hb0 : 0 ≤ b := by linarith
  have ha_lo : 0 < a := by
    have : 3 / 125 * b ≤ A1 * b := mul_le_mul_of_nonneg_right hA1.1 hb0
    rw [ha]; nlinarith [hA0.2]
  have ha_hi : a ≤ -1 / 20 + 1 / 40 * b := by
    have : A1 * b ≤ 1 / 40 * b := mul_le_mul_of_nonneg_right hA1.2 hb0
    rw [ha]; linarith [hA0.1]
  have hus0 : 0 < us := by linarith
  have hd : |U| ≤ 431 / 1000 := by rw [hus'] at hus; linarith
  have hT1 : 2 * a / us ≤ 30 * a := by
    rw [div_le_iff₀ hus0]
    nlinarith
  have hT0 : 0 < 2 * a / us + b := by
    have : 0 < 2 * a / us := div_pos (by linarith) hus0
    linarith
  have hT : 2 * a / us + b ≤ 145 / 1000 + 455 / 100 * s := by
    nlinarith
  have hU : -|U| ≤ U := neg_abs_le U
  have h1 : (2 * a / us + b) * (-|U|) ≤ (2 * a / us + b) * U := mul_le_mul_of_nonneg_left hU hT0.le
  have h2 : (2 * a / us + b) * |U| ≤ (145 / 1000 + 455 / 100 * s) * (431 / 1000) :=
    mul_le_mul hT hd (abs_nonneg U) (by linarith)
  have h3 : 2 * s ≤ s * s := by nlinarith
  nlinarith

/-- One iteration of the PTRS loop, with the draws named. -/
theorem ptrsLoop_succ (c : Poisson.Ptrs ℝ) (fuel : ℕ) (g : Rng) :
    Poisson.ptrsLoop c (fuel + 1) g =
      (let f1 := (g.f64 (α := ℝ)).1
       let g1 := (g.f64 (α := ℝ)).2
       let U := f1 - halfC
       let V := (g1.f64 (α := ℝ)).1
       let g2 := (g1.f64 (α := ℝ)).2
       let us := halfC - Transc.abs U
       let k := Transc.floor ((((2 : Nat) : ℝ) * c.a / us + c.b) * U + c.lam + ofLit C03T.ptrsK0)
       if decide (ofLit C03T.ptrsUs1 ≤ us) && decide (V ≤ c.vr) then some (k, g2)
       else if decide (k < 0) || (decide (us < ofLit C03T.ptrsUs2) && decide (us < V)) then Poisson.ptrsLoop c fuel g2
       else if Transc.ln V + Transc.ln c.invalpha - Transc.ln (c.a / (us * us) + c.b)
          ≤ -c.lam + k * c.loglam - lnGammaFn (k + 1) then some (k, g2)
       else Poisson.ptrsLoop c fuel g2) := rfl

/-- In the fast-acceptance branch of PTRS (`us ≥ 0.07`) the argument of the floor is `≥ 0` whenever `λ ≥ 4`. -/
theorem ptrs_fast_nonneg (lam : ℝ) (hl : 4 ≤ lam) (U : ℝ)
    (hus : (ofLit C03T.ptrsUs1 : ℝ) ≤ halfC - Transc.abs U) :
    0 ≤ (((2 : Nat) : ℝ) * (Poisson.ptrsSetup lam).a / (halfC - Transc.abs U) + (Poisson.ptrsSetup lam).b) * U
          + (Poisson.ptrsSetup lam).lam + ofLit C03T.ptrsK0 := by
  obtain ⟨hB0, hB1, hA0, hA1, hK0, hc1⟩ := ptrs_lits
  have hl0 : 0 ≤ lam := by linarith
  have hs : 2 ≤ Real.sqrt lam := by
    have : Real.sqrt 4 ≤ Real.sqrt lam := Real.sqrt_le_sqrt hl
    have h4 : Real.sqrt 4 = 2 := by
      rw [show (4 : ℝ) = 2 ^ 2 by norm_num]; exact Real.sqrt_sq (by norm_num)
    linarith
  have hss : Real.sqrt lam * Real.sqrt lam = lam := Real.mul_self_sqrt hl0
  rw [halfC_real, abs_def] at hus ⊢
  have := ptrs_fast_arith (Real.sqrt lam) _ _ _ _ _ _ U hs hB0 hB1 hA0 hA1 hK0 hc1 hus
  rw [hss] at this
  have e : ((2 : Nat) : ℝ) = 2 := by norm_num
  simpa [Poisson.ptrsSetup, sqrt_def, e] using this

/-- **Loop invariant of PTRS**: for `λ ≥ 4` every returned value is a natural number. -/
theorem ptrsLoop_nat (lam : ℝ) (hl : 4 ≤ lam) : ∀ (fuel : ℕ) (g g' : Rng) (k : ℝ),
    Poisson.ptrsLoop (Poisson.ptrsSetup lam) fuel g = some (k, g') → ∃ n : ℕ, k = (n : ℝ) := by
  intro fuel
  induction fuel with
  | zero => intro g g' k h; simp [Poisson.ptrsLoop] at h
  | succ f ih =>
    intro g g' k h
    rw [ptrsLoop_succ] at h
    simp only [] at h
    split_ifs at h with h1 h2 h3
    · -- fast acceptance: no test on `k`
      simp only [Bool.and_eq_true, decide_eq_true_eq] at h1
      simp only [Option.some.injEq, Prod.mk.injEq] at h
      rw [← h.1, floor_def]
      apply intCast_nat_of_nonneg
      have := ptrs_fast_nonneg lam hl _ h1.1
      exact_mod_cast Int.floor_nonneg.mpr this
    · exact ih _ _ _ h
    · -- full test: reached only when `¬ k < 0`
      simp only [Bool.or_eq_true, decide_eq_true_eq, not_or] at h2
      simp only [Option.some.injEq, Prod.mk.injEq] at h
      rw [← h.1]
      rw [floor_def] at h2 ⊢
      exact intCast_nat_of_nonneg _ (not_lt.mp h2.1)
    · exact ih _ _ _ h

/-! ### BTPE -/

theorem btpe_lits :
    ((219 / 100 : ℝ) ≤ ofLit C03T.btpeP1a ∧ (ofLit C03T.btpeP1a : ℝ) ≤ 22 / 10) ∧
    ((459 / 100 : ℝ) ≤ ofLit C03T.btpeP1b ∧ (ofLit C03T.btpeP1b : ℝ) ≤ 47 / 10) ∧
    (0 : ℝ) < ofLit C03T.btpeC0 ∧ (0 : ℝ) < ofLit C03T.btpeC1 ∧ (0 : ℝ) < ofLit C03T.btpeC2 := by
  simp only [ofLit_real, C03T.btpeP1a, C03T.btpeP1b, C03T.btpeC0, C03T.btpeC1, C03T.btpeC2]
  norm_num

/-- What the acceptance regions of BTPE need from the set-up constants. -/
structure Good (n : ℕ) (c : Binomial.Btpe ℝ) : Prop where
  nf : c.nf = (n : ℝ)
  p1pos : 0 < c.p1
  xl_def : c.xl = c.xm - c.p1
  xr_def : c.xr = c.xm + c.p1
  xl0 : 0 ≤ c.xm - c.p1
  xrn : c.xm + c.p1 ≤ (n : ℝ)
  cpos : 0 < c.c
  p2_def : c.p2 = c.p1 * (1 + 2 * c.c)
  llpos : 0 < c.ll
  lrpos : 0 < c.lr

/-- Steps 1–4 of BTPE: every candidate that is accepted directly or passed on to step 5 is an integer in `[0, n]`.
Triangle and parallelogram: by the geometry `(xl, xr] ⊆ [0, n]` (no test); left tail: `y ≥ 0` by the explicit test,
`y ≤ xl` because `ln v ≤ 0`; right tail: `y ≤ n` by the explicit test, `y ≥ xr` because `ln v ≤ 0`. -/
theorem region_inRange {n : ℕ} {c : Binomial.Btpe ℝ} (hc : Good n c) (u v : ℝ) (hu : 0 ≤ u) (hv0 : 0 ≤ v) (hv1 : v < 1) :
    match Binomial.region c u v with
    | .accept y => InRange n y
    | .retry => True
    | .test y _ => InRange n y := by
  have hlog : Real.log v ≤ 0 := Real.log_nonpos hv0 hv1.le
  have hp1 := hc.p1pos
  unfold Binomial.region
  by_cases h1 : c.p1 < u
  · rw [if_neg (not_not.mpr h1)]
    by_cases h2 : c.p2 < u
    · rw [if_neg (not_not.mpr h2)]
      by_cases h3 : c.p3 < u
      · rw [if_neg (not_not.mpr h3)]
        -- right tail
        simp only []
        split_ifs with h4
        · trivial
        · apply floor_inRange n _ (Or.inl ?_) (Or.inr (by rw [← hc.nf]; exact h4))
          rw [ln_def, hc.xr_def]
          have : Real.log v / c.lr ≤ 0 := div_nonpos_of_nonpos_of_nonneg hlog hc.lrpos.le
          linarith [hc.xl0]
      · rw [if_pos h3]
        -- left tail
        simp only []
        split_ifs with h4
        · trivial
        · apply floor_inRange n _ (Or.inr h4) (Or.inl ?_)
          rw [ln_def, hc.xl_def]
          have : Real.log v / c.ll ≤ 0 := div_nonpos_of_nonpos_of_nonneg hlog hc.llpos.le
          linarith [hc.xrn]
    · rw [if_pos h2]
      -- parallelogram
      simp only []
      have hx0 : 0 ≤ (u - c.p1) / c.c := div_nonneg (by linarith) hc.cpos.le
      have hx1 : (u - c.p1) / c.c ≤ 2 * c.p1 := by
        rw [div_le_iff₀ hc.cpos]
        have := not_lt.mp h2
        rw [hc.p2_def] at this
        nlinarith
      split_ifs with h4
      · trivial
      · apply floor_inRange n _ (Or.inl ?_) (Or.inl ?_)
        · rw [hc.xl_def]; linarith [hc.xl0]
        · rw [hc.xl_def]; linarith [hc.xrn]
  · rw [if_pos h1]
    -- triangle
    have hle := not_lt.mp h1
    have : c.p1 * v ≤ c.p1 := by nlinarith
    have : 0 ≤ c.p1 * v := mul_nonneg hp1.le hv0
    apply floor_inRange n _ (Or.inl ?_) (Or.inl ?_)
    · linarith [hc.xl0]
    · linarith [hc.xrn]

/-- **Loop invariant of BTPE**: every value the loop returns is an integer in `[0, n]`. -/
theorem btpeLoop_inRange {n : ℕ} {c : Binomial.Btpe ℝ} (hc : Good n c) (hp4 : 0 ≤ c.p4) (ifuel : ℕ) :
    ∀ (fuel : ℕ) (g g' : Rng) (y : ℝ), Binomial.btpeLoop c ifuel fuel g = some (y, g') → InRange n y := by
  intro fuel
  induction fuel with
  | zero => intro g g' y h; simp [Binomial.btpeLoop] at h
  | succ f ih =>
    intro g g' y h
    simp only [Binomial.btpeLoop, uniformF_real, Uniform.sample] at h
    have hu : 0 ≤ (c.p4 - 0) * (g.f64 (α := ℝ)).1 + 0 := by
      have := (f64_mem g).1
      simp only [sub_zero, add_zero]; positivity
    have hv := f64_mem (g.f64 (α := ℝ)).2
    have hv' : 0 ≤ (1 - 0) * ((g.f64 (α := ℝ)).2.f64 (α := ℝ)).1 + 0 ∧ (1 - 0) * ((g.f64 (α := ℝ)).2.f64 (α := ℝ)).1 + 0 < 1 := by
      simpa using hv
    have hreg := region_inRange hc _ _ hu hv'.1 hv'.2
    cases hr : Binomial.region c ((c.p4 - 0) * (g.f64 (α := ℝ)).1 + 0) ((1 - 0) * ((g.f64 (α := ℝ)).2.f64 (α := ℝ)).1 + 0) with
    | accept y0 =>
      rw [hr] at hreg h
      simp only [Option.some.injEq, Prod.mk.injEq] at h
      rw [← h.1]; exact hreg
    | retry =>
      rw [hr] at h
      exact ih _ _ _ h
    | test y0 v0 =>
      rw [hr] at hreg h
      simp only [] at h
      cases hs : Binomial.step5 c ifuel y0 v0 with
      | none => rw [hs] at h; simp at h
      | some b =>
        rw [hs] at h
        cases b with
        | true =>
          simp only [Option.some.injEq, Prod.mk.injEq] at h
          rw [← h.1]; exact hreg
        | false => exact ih _ _ _ h

/-- The set-up constants of BTPE are good whenever `0 < r ≤ 1/2` and `n r > 30` (`r = min(p, 1 − p)`; what
`Binomial::sample` guarantees when it routes to BTPE). -/
theorem btpeSetup_good (n : ℕ) (p : ℝ) (h0 : 0 < (Binomial.btpeSetup n p).r) (h1 : (Binomial.btpeSetup n p).r ≤ 1 / 2)
    (hn : 30 < (n : ℝ) * (Binomial.btpeSetup n p).r) : Good n (Binomial.btpeSetup n p) := by
  obtain ⟨hP1a, hP1b, hC0, hC1, hC2⟩ := btpe_lits
  set r := (Binomial.btpeSetup n p).r with hr
  set q : ℝ := 1 - r with hq
  set nrq : ℝ := (n : ℝ) * r * q with hnrq
  set fm : ℝ := (n : ℝ) * r + r with hfm
  set w : ℝ := Real.sqrt nrq with hw
  set A : ℝ := ofLit C03T.btpeP1a * w - ofLit C03T.btpeP1b * q with hA
  have hn0 : (0 : ℝ) ≤ (n : ℝ) := Nat.cast_nonneg n
  have hq1 : 1 / 2 ≤ q := by rw [hq]; linarith
  have hq2 : q < 1 := by rw [hq]; linarith
  have hnrq_lo : 15 < nrq := by rw [hnrq]; nlinarith
  have hnrq_hi : nrq ≤ (n : ℝ) * r := by rw [hnrq]; nlinarith
  have hw0 : 0 ≤ w := Real.sqrt_nonneg _
  have hww : w * w = nrq := Real.mul_self_sqrt (by linarith)
  have hw3 : 3 ≤ w := by
    by_contra hlt
    have : w < 3 := not_le.mp hlt
    nlinarith
  -- the three facts
  have hA1 : 1 ≤ A := by
    have : 219 / 100 * w ≤ ofLit C03T.btpeP1a * w := mul_le_mul_of_nonneg_right hP1a.1 hw0
    have : ofLit C03T.btpeP1b * q ≤ 47 / 10 * 1 := mul_le_mul hP1b.2 hq2.le (by linarith) (by norm_num)
    rw [hA]; linarith
  have hAfm : A ≤ fm := by
    have e1 : ofLit C03T.btpeP1a * w ≤ 22 / 10 * w := mul_le_mul_of_nonneg_right hP1a.2 hw0
    have e2 : 0 ≤ ofLit C03T.btpeP1b * q := mul_nonneg (by linarith [hP1b.1]) (by linarith)
    have e3 : 22 / 10 * w ≤ (n : ℝ) * r := by nlinarith [sq_nonneg (w - 5)]
    rw [hA, hfm]; linarith
  have hAn : fm + 1 + A ≤ (n : ℝ) := by
    have e1 : ofLit C03T.btpeP1a * w ≤ 22 / 10 * w := mul_le_mul_of_nonneg_right hP1a.2 hw0
    have e2 : 459 / 100 * (1 / 2) ≤ ofLit C03T.btpeP1b * q := mul_le_mul hP1b.1 hq1 (by norm_num) (by linarith [hP1b.1])
    have e3 : 2 * (w * w) ≤ (n : ℝ) * q := by
      rw [hww, hnrq]
      have : (n : ℝ) * r * q = ((n : ℝ) * q) * r := by ring
      rw [this]
      have : (n : ℝ) * q * r ≤ (n : ℝ) * q * (1 / 2) := mul_le_mul_of_nonneg_left h1 (mul_nonneg hn0 (by linarith))
      linarith
    have e4 : (n : ℝ) = (n : ℝ) * r + (n : ℝ) * q := by rw [hq]; ring
    rw [hA, hfm]
    nlinarith [sq_nonneg (w - 55 / 100)]
  -- integer parts
  set mi : ℤ := ⌊fm⌋ with hmi
  set ai : ℤ := ⌊A⌋ with hai
  have hai1 : (1 : ℝ) ≤ (ai : ℝ) := by
    have : (1 : ℤ) ≤ ai := Int.le_floor.mpr (by simpa using hA1)
    exact_mod_cast this
  have haimi : (ai : ℝ) ≤ (mi : ℝ) := by
    have : ai ≤ mi := Int.floor_mono hAfm
    exact_mod_cast this
  have hmifm : (mi : ℝ) ≤ fm := Int.floor_le fm
  have hfmmi : fm < (mi : ℝ) + 1 := Int.lt_floor_add_one fm
  have haiA : (ai : ℝ) ≤ A := Int.floor_le A
  have hfm0 : 0 < fm := by rw [hfm]; nlinarith
  -- the fields
  have em : (Binomial.btpeSetup n p).m = (mi : ℝ) := rfl
  have ep1 : (Binomial.btpeSetup n p).p1 = (ai : ℝ) + 1 / 2 := by
    show Transc.floor (ofLit C03T.btpeP1a * Transc.sqrt nrq - ofLit C03T.btpeP1b * q) + halfC = _
    rw [halfC_real]; rfl
  have exm : (Binomial.btpeSetup n p).xm = (mi : ℝ) + 1 / 2 := by
    show Transc.floor fm + halfC = _
    rw [halfC_real]; rfl
  have exl : (Binomial.btpeSetup n p).xl = (Binomial.btpeSetup n p).xm - (Binomial.btpeSetup n p).p1 := rfl
  have exr : (Binomial.btpeSetup n p).xr = (Binomial.btpeSetup n p).xm + (Binomial.btpeSetup n p).p1 := rfl
  have lam_pos : ∀ x : ℝ, 0 < x → 0 < Binomial.lam x := by
    intro x hx
    unfold Binomial.lam
    have : 0 < 1 + x / ((2 : Nat) : ℝ) := by positivity
    exact mul_pos hx this
  refine ⟨rfl, ?_, exl, exr, ?_, ?_, ?_, ?_, ?_, ?_⟩
  · rw [ep1]; linarith
  · rw [exm, ep1]; linarith
  · rw [exm, ep1]; linarith
  · show 0 < ofLit C03T.btpeC0 + ofLit C03T.btpeC1 / (ofLit C03T.btpeC2 + (Binomial.btpeSetup n p).m)
    rw [em]
    have : 0 < ofLit C03T.btpeC2 + (mi : ℝ) := by linarith
    positivity
  · show (Binomial.btpeSetup n p).p1 * (1 + ((2 : Nat) : ℝ) * (Binomial.btpeSetup n p).c) = _
    norm_num
  · show 0 < Binomial.lam ((fm - (Binomial.btpeSetup n p).xl) / (fm - (Binomial.btpeSetup n p).xl * r))
    apply lam_pos
    rw [exl, exm, ep1]
    have hxl0 : 0 ≤ (mi : ℝ) + 1 / 2 - ((ai : ℝ) + 1 / 2) := by linarith
    have hxlm : (mi : ℝ) + 1 / 2 - ((ai : ℝ) + 1 / 2) ≤ fm := by linarith
    apply div_pos
    · linarith
    · nlinarith
  · show 0 < Binomial.lam (((Binomial.btpeSetup n p).xr - fm) / ((Binomial.btpeSetup n p).xr * q))
    apply lam_pos
    rw [exr, exm, ep1]
    apply div_pos
    · linarith
    · apply mul_pos <;> linarith

/-! ### Ziggurat -/

theorem zigW_nonneg : ∀ i < 128, 0 ≤ C03T.zigW[i]!.num := by decide +kernel

theorem zW_nonneg (i : ℕ) (hi : i < 128) : (0 : ℝ) ≤ Normal.zW i := by
  unfold Normal.zW
  rw [ofLit_real]
  have := zigW_nonneg i hi
  apply div_nonneg
  · exact_mod_cast this
  · exact Nat.cast_nonneg _

theorem zR_pos : (0 : ℝ) < Normal.zR := by
  unfold Normal.zR
  simp only [ofLit_real, C03T.zigR]; norm_num

theorem layer_lt (u : UInt64) : (u &&& 0x7F).toNat < 128 := by
  rw [UInt64.toNat_and]
  have : u.toNat &&& (0x7F : UInt64).toNat ≤ (0x7F : UInt64).toNat := Nat.and_le_right
  have e : (0x7F : UInt64).toNat = 127 := by decide
  omega

/-- The candidate abscissa of a wedge / tail iteration is `≥ 0`; in the tail it is `≥ R` and the argument of `ln_1p` is
`> −1` (so the logarithm is finite). -/
theorem wedgeOrTail_nonneg (i j : ℕ) (hi : i < 128) (g : Rng) :
    0 ≤ (Normal.wedgeOrTail (α := ℝ) i j g).1 ∧
      (¬ i < 127 → Normal.zR ≤ (Normal.wedgeOrTail (α := ℝ) i j g).1 ∧ 0 < 1 + -(g.f64 (α := ℝ)).1) := by
  unfold Normal.wedgeOrTail
  by_cases h : i < 127
  · simp only [h, if_true, not_true_eq_false, false_implies, and_true]
    exact mul_nonneg (Nat.cast_nonneg j) (zW_nonneg i hi)
  · simp only [h, if_false, not_false_eq_true, true_implies]
    obtain ⟨h0, h1⟩ := f64_mem g
    have harg : 0 < 1 + -(g.f64 (α := ℝ)).1 := by linarith
    have hlog : Real.log (1 + -(g.f64 (α := ℝ)).1) ≤ 0 := Real.log_nonpos harg.le (by linarith)
    have hR := zR_pos
    have hx : Normal.zR ≤ Normal.zR - Log1p.log1p (-(g.f64 (α := ℝ)).1) / Normal.zR := by
      show Normal.zR ≤ Normal.zR - Real.log (1 + -(g.f64 (α := ℝ)).1) / Normal.zR
      have : Real.log (1 + -(g.f64 (α := ℝ)).1) / Normal.zR ≤ 0 := div_nonpos_of_nonpos_of_nonneg hlog hR.le
      linarith
    exact ⟨by linarith, hx, harg⟩

/-- The value returned by an accepting branch: `μ ± x σ`. -/
theorem out_form (mu sigma s x : ℝ) : Normal.out mu sigma s x = s * x * sigma + mu := rfl

/-- The sign factor is `±1`. -/
theorem sign_pm (u : UInt64) : ((if u &&& 0x80 != 0 then (1 : ℝ) else -1) = 1 ∨ (if u &&& 0x80 != 0 then (1 : ℝ) else -1) = -1) := by
  split_ifs <;> simp

/-! ### Gamma with a zero boosting uniform

Before repair F54 a boosting uniform equal to `0` made the draw exactly `0` (`gamma_zero_of_zero_uniform`, removed: the code
now redraws, `C03.gamma_support_lt_one_partial` proves `0 < x` for every returning call). -/

end Cv.C03Support
