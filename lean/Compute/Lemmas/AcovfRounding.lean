import Compute.Lemmas.StatRounding
import Compute.Model.Timeseries
/-
Worst-case rounding-error analysis (standard model, `Lemmas/FlModel.lean`) of the biased sample
autocovariance `timeseries::acovf` (`TS.acovf`): the mean by the unrolled `sum8` divided by the rounded
length, then the lagged cross sum as an iterator sum, times the rounded reciprocal `1/n`.

It is the two-pass covariance analysis of `Lemmas/StatRounding.lean` (`cterms_factor`, `iterSum_pert`,
`shiftedCo_change`, `shiftedAbs_le`) applied to the pairs `(x_{i+k}, x_i)`, `i = 0..n−k−1`, both
centred about the *same* computed mean `m̂`.  New phenomenon for a lag `k > 0`: the two columns of pairs
are not the whole series, so `Σ (x_{i+k} − x̄)` and `Σ (x_i − x̄)` do not vanish — the error `x̄ − m̂` of
the mean enters to *first* order through the edge sum `lagD` (it is second order only for `k = 0`,
`acovf_zero_error`).
-/
namespace Cv.Rounding3
open Cv Cv.FlModel Cv.Rounding Cv.C08

variable {M : FlModel}

/-! ### exact quantities (over ℝ) -/

/-- the pairs `(x_{i+k}, x_i)`, `i = 0..n−k−1` -/
def lagPairs (X : List ℝ) (k : Nat) : List (ℝ × ℝ) := List.zip (X.drop k) X

/-- `Σ_i (x_{i+k} − x̄)(x_i − x̄)`: `n` times the exact biased autocovariance at lag `k` -/
noncomputable def lagCo (X : List ℝ) (k : Nat) : ℝ :=
  ((lagPairs X k).map fun p => (p.1 - mu X) * (p.2 - mu X)).sum

/-- `Σ_i |x_{i+k} − x̄||x_i − x̄|`: the first-order scale -/
noncomputable def lagAbs (X : List ℝ) (k : Nat) : ℝ :=
  ((lagPairs X k).map fun p => |p.1 - mu X| * |p.2 - mu X|).sum

/-- `Σ_i |x_{i+k} − x̄| + Σ_i |x_i − x̄|` (at most `2·Σ|xᵢ − x̄|`) -/
noncomputable def lagS (X : List ℝ) (k : Nat) : ℝ :=
  ((lagPairs X k).map fun p => |p.1 - mu X|).sum + ((lagPairs X k).map fun p => |p.2 - mu X|).sum

/-- the signed edge sum `Σ_i (x_{i+k} − x̄) + Σ_i (x_i − x̄)` (`= −Σ_{i<k}(xᵢ−x̄) − Σ_{i≥n−k}(xᵢ−x̄)`;
zero for `k = 0`) -/
noncomputable def lagD (X : List ℝ) (k : Nat) : ℝ :=
  ((lagPairs X k).map fun p => p.1 - mu X).sum + ((lagPairs X k).map fun p => p.2 - mu X).sum

theorem lagPairs_length (X : List ℝ) (k : Nat) : (lagPairs X k).length = X.length - k := by
  simp [lagPairs]

theorem lagAbs_nonneg (X : List ℝ) (k : Nat) : 0 ≤ lagAbs X k := by
  unfold lagAbs
  apply List.sum_nonneg
  intro a ha
  obtain ⟨p, _, rfl⟩ := List.mem_map.mp ha
  positivity

theorem lagS_nonneg (X : List ℝ) (k : Nat) : 0 ≤ lagS X k := by
  unfold lagS
  apply add_nonneg <;>
  · apply List.sum_nonneg
    intro a ha
    obtain ⟨p, _, rfl⟩ := List.mem_map.mp ha
    positivity

theorem lagD_zero (X : List ℝ) : lagD X 0 = 0 := by
  unfold lagD lagPairs
  simp only [List.drop_zero]
  rw [Rounding2.map_fst_zip_fun X X rfl (fun t => t - mu X),
    Rounding2.map_snd_zip_fun X X rfl (fun t => t - mu X), Rounding2.sum_sub_mu]
  ring

theorem lagCo_zero (X : List ℝ) : lagCo X 0 = m2 X := by
  rw [m2_eq_comoment]
  unfold lagCo lagPairs comoment
  simp

theorem lagAbs_zero (X : List ℝ) : lagAbs X 0 = m2 X := by
  unfold lagAbs lagPairs m2
  simp only [List.drop_zero]
  rw [zip_self_map]
  congr 1
  apply List.map_congr_left
  intro a _
  rw [← abs_mul, ← pow_two, abs_of_nonneg (sq_nonneg _)]

theorem lagS_zero (X : List ℝ) : lagS X 0 = 2 * Rounding2.absDev X := by
  unfold lagS lagPairs Rounding2.absDev
  simp only [List.drop_zero]
  rw [Rounding2.map_fst_zip_fun X X rfl (fun t => |t - mu X|),
    Rounding2.map_snd_zip_fun X X rfl (fun t => |t - mu X|)]
  ring

/-! ### structure of the computed autocovariance -/

theorem vals_drop (ts : List (Fl M)) (k : Nat) : vals (ts.drop k) = (vals ts).drop k := by
  simp [vals, List.map_drop]

/-- **structure of the computed `acovf`**: `Σ_i (x_{i+k} − m̂)(x_i − m̂)/n · f_i` with `m̂` the *computed*
mean and every `f_i` a product of at most `(n − k) + 6` rounding factors (two subtractions, the product,
`n − k` additions of the iterator sum, the cast of `n`, the reciprocal, the final product). -/
theorem acovf_pert (ts : List (Fl M)) (k : Int) :
    M.Pert (ts.length - k.natAbs + 6) (TS.acovf ts k).val
      ((Rounding2.cprods (mean ts).val (mean ts).val (ts.drop k.natAbs) ts).map
        (· / (ts.length : ℝ))) := by
  set m : Fl M := mean ts with hm
  set L : List (Fl M) := List.zipWith (fun a b => (a - m) * (b - m)) (ts.drop k.natAbs) ts with hL
  obtain ⟨gs, hl, hg, he⟩ := Rounding2.cterms_factor m m (ts.drop k.natAbs) ts
  have hp := Rounding2.iterSum_pert L
  rw [hL, he] at hp
  have hlen : (List.zipWith (fun a b => (a - m) * (b - m)) (ts.drop k.natAbs) ts).length
      = ts.length - k.natAbs := by simp
  rw [hlen] at hp
  have hp' := Pert.comp _ gs _ hl hg hp
  obtain ⟨δ1, hδ1, h1⟩ := M.std (1 / M.rnd (ts.length : ℝ))
  obtain ⟨δ2, hδ2, h2⟩ := M.std (ts.length : ℝ)
  obtain ⟨δ3, hδ3, h3⟩ := M.std (M.rnd (1 / M.rnd (ts.length : ℝ)) * (iterSum L).val)
  have hF : M.Fac (1 + 1 + 1) ((1 + δ1) * (1 + δ2)⁻¹ * (1 + δ3)) :=
    ((Fac.one_add hδ1).mul (Fac.one_add hδ2).inv).mul (Fac.one_add hδ3)
  have hval : (TS.acovf ts k).val =
      (iterSum L).val / (ts.length : ℝ) * ((1 + δ1) * (1 + δ2)⁻¹ * (1 + δ3)) := by
    show M.rnd (M.rnd (1 / M.rnd (ts.length : ℝ)) * (iterSum L).val) = _
    rw [h3, h1, h2, one_div, mul_inv]
    ring
  rw [hval]
  have := (hp'.div_const (ts.length : ℝ)).scale hF
  rw [show 3 + (ts.length - k.natAbs) + (1 + 1 + 1) = ts.length - k.natAbs + 6 by omega] at this
  exact this

/-- **Forward error of `acovf`, general form** (standard model only), in terms of a bound `ε` for the
error of the computed mean.  With `γ = γ_{(n−k)+6}`, `N = n − k` the number of terms:

  `|ĉ_k − lagCo/n| ≤ ( γ·(lagAbs + ε·lagS + N·ε²) + ε·|lagD| + N·ε² ) / n`. -/
theorem acovf_error_eps (ts : List (Fl M)) (k : Int) (ε : ℝ)
    (hε : |(mean ts).val - mu (vals ts)| ≤ ε)
    (h : ((ts.length - k.natAbs + 6 : Nat) : ℝ) * M.u < 1) :
    |(TS.acovf ts k).val - lagCo (vals ts) k.natAbs / ts.length| ≤
      (M.γ (ts.length - k.natAbs + 6) *
          (lagAbs (vals ts) k.natAbs + ε * lagS (vals ts) k.natAbs
            + ((ts.length - k.natAbs : Nat) : ℝ) * ε ^ 2)
        + ε * |lagD (vals ts) k.natAbs| + ((ts.length - k.natAbs : Nat) : ℝ) * ε ^ 2) / ts.length := by
  have herr := (acovf_pert ts k).error h
  rw [sum_map_div, sum_map_abs_div _ _ (Nat.cast_nonneg _), Rounding2.sum_map_abs_cprods] at herr
  set X := vals ts with hX
  set κ := k.natAbs with hκ
  set P := lagPairs X κ with hP
  set mh := (mean ts).val with hmh
  have hzip : List.zip (vals (ts.drop κ)) X = P := by
    rw [vals_drop]; rfl
  rw [hzip] at herr
  have hT : (Rounding2.cprods mh mh (ts.drop κ) ts).sum = Rounding2.shiftedCo P mh mh := by
    unfold Rounding2.shiftedCo
    show ((List.zip (vals (ts.drop κ)) (vals ts)).map _).sum = _
    rw [hzip]
  rw [hT] at herr
  have hid := Rounding2.shiftedCo_change P mh mh (mu X) (mu X)
  have hab := Rounding2.shiftedAbs_le P mh mh (mu X) (mu X)
  have hPl : ((P.length : Nat) : ℝ) = ((ts.length - κ : Nat) : ℝ) := by
    rw [hP, lagPairs_length, hX]; simp [vals]
  rw [hPl] at hid hab
  set T := Rounding2.shiftedCo P mh mh with hTdef
  set Tabs := (P.map fun p => |(p.1 - mh) * (p.2 - mh)|).sum with hTabs
  set Δ := mu X - mh with hΔ
  set N : ℝ := ((ts.length - κ : Nat) : ℝ) with hN
  have hN0 : 0 ≤ N := Nat.cast_nonneg _
  have hΔε : |Δ| ≤ ε := by rw [hΔ, abs_sub_comm]; exact hε
  have hε0 : 0 ≤ ε := le_trans (abs_nonneg _) hε
  have hΔ2 : Δ * Δ ≤ ε ^ 2 := by
    have : |Δ| * |Δ| ≤ ε * ε := mul_le_mul hΔε hΔε (abs_nonneg _) hε0
    rw [abs_mul_abs_self] at this
    rw [pow_two]; exact this
  have hΔabs2 : |Δ| * |Δ| ≤ ε ^ 2 := by rw [abs_mul_abs_self]; exact hΔ2
  -- T = lagCo + Δ·lagD + N·Δ²
  have hT' : T = lagCo X κ + Δ * lagD X κ + N * (Δ * Δ) := by
    rw [hid]; unfold lagCo lagD Rounding2.shiftedCo; ring
  -- Tabs ≤ lagAbs + |Δ|·lagS + N·Δ²
  have hTabs' : Tabs ≤ lagAbs X κ + ε * lagS X κ + N * ε ^ 2 := by
    have h1 : Tabs ≤ lagAbs X κ + |Δ| * lagS X κ + N * (|Δ| * |Δ|) := by
      refine le_trans hab (le_of_eq ?_)
      unfold lagAbs lagS; ring
    have h2 : |Δ| * lagS X κ ≤ ε * lagS X κ := mul_le_mul_of_nonneg_right hΔε (lagS_nonneg _ _)
    have h3 : N * (|Δ| * |Δ|) ≤ N * ε ^ 2 := mul_le_mul_of_nonneg_left hΔabs2 hN0
    linarith
  have hγ := M.γ_nonneg (ts.length - κ + 6) h
  have hn0 : (0 : ℝ) ≤ ts.length := Nat.cast_nonneg _
  have e1 : (TS.acovf ts k).val - lagCo X κ / ts.length =
      ((TS.acovf ts k).val - T / ts.length) + (T - lagCo X κ) / ts.length := by ring
  have e2 : |(T - lagCo X κ) / ts.length| ≤ (ε * |lagD X κ| + N * ε ^ 2) / ts.length := by
    rw [abs_div, abs_of_nonneg hn0]
    apply div_le_div_of_nonneg_right _ hn0
    rw [hT']
    have : lagCo X κ + Δ * lagD X κ + N * (Δ * Δ) - lagCo X κ = Δ * lagD X κ + N * (Δ * Δ) := by ring
    rw [this]
    refine le_trans (abs_add_le _ _) ?_
    rw [abs_mul, abs_mul, abs_of_nonneg hN0, abs_mul_self]
    have a1 : |Δ| * |lagD X κ| ≤ ε * |lagD X κ| := mul_le_mul_of_nonneg_right hΔε (abs_nonneg _)
    have a2 : N * (Δ * Δ) ≤ N * ε ^ 2 := mul_le_mul_of_nonneg_left hΔ2 hN0
    linarith
  have e3 : M.γ (ts.length - κ + 6) * (Tabs / ts.length) ≤
      M.γ (ts.length - κ + 6) * (lagAbs X κ + ε * lagS X κ + N * ε ^ 2) / ts.length := by
    rw [mul_div_assoc]
    exact mul_le_mul_of_nonneg_left (div_le_div_of_nonneg_right hTabs' hn0) hγ
  rw [e1]
  refine le_trans (abs_add_le _ _) ?_
  refine le_trans (add_le_add (le_trans herr e3) e2) (le_of_eq ?_)
  ring

/-- **Forward error of `acovf`** (biased autocovariance at lag `k` of a series of length `n`; standard
model only).  With `ε = γ_{n+2}·(Σ|xᵢ|)/n` (the bound for the error of the computed mean),
`γ = γ_{(n−k)+6}`, `N = n − k`:

  `|ĉ_k − c_k| ≤ ( γ·(Σ|x_{i+k}−x̄||x_i−x̄| + ε·lagS + N·ε²) + ε·|lagD| + N·ε² ) / n`.

The first-order term `γ·lagAbs/n` involves only centred data; the mean error enters through the edge
sum `lagD` (`|lagD| ≤ lagS ≤ 2Σ|xᵢ−x̄|`, zero for `k = 0`) and in second order. -/
theorem acovf_error (ts : List (Fl M)) (k : Int) (h : ((ts.length + 6 : Nat) : ℝ) * M.u < 1) :
    |(TS.acovf ts k).val - lagCo (vals ts) k.natAbs / ts.length| ≤
      (M.γ (ts.length - k.natAbs + 6) *
          (lagAbs (vals ts) k.natAbs
            + (M.γ (ts.length + 2) * Rounding2.meanAbs (vals ts)) * lagS (vals ts) k.natAbs
            + ((ts.length - k.natAbs : Nat) : ℝ) * (M.γ (ts.length + 2) * Rounding2.meanAbs (vals ts)) ^ 2)
        + (M.γ (ts.length + 2) * Rounding2.meanAbs (vals ts)) * |lagD (vals ts) k.natAbs|
        + ((ts.length - k.natAbs : Nat) : ℝ) * (M.γ (ts.length + 2) * Rounding2.meanAbs (vals ts)) ^ 2)
        / ts.length := by
  have hu := M.u_nonneg
  have h2 : ((ts.length + 2 : Nat) : ℝ) * M.u < 1 := by
    push_cast at h ⊢; nlinarith
  have h6 : ((ts.length - k.natAbs + 6 : Nat) : ℝ) * M.u < 1 := by
    have : ((ts.length - k.natAbs + 6 : Nat) : ℝ) ≤ ((ts.length + 6 : Nat) : ℝ) :=
      Nat.cast_le.mpr (by omega)
    exact lt_of_le_of_lt (mul_le_mul_of_nonneg_right this hu) h
  exact acovf_error_eps ts k _ (Rounding2.mean_sub_mu_le ts h2) h6

/-- **Lag 0 (the biased variance computed by `acovf`)**: the mean enters in second order only,

  `|ĉ_0 − M2/n| ≤ ( γ_{n+6}·(M2 + 2ε·Σ|xᵢ−x̄| + n·ε²) + n·ε² ) / n`,  `ε = γ_{n+2}·mean|x|`,

i.e. relative error `γ_{n+6}` plus second-order terms, whatever the size of the mean. -/
theorem acovf_zero_error (ts : List (Fl M)) (h : ((ts.length + 6 : Nat) : ℝ) * M.u < 1) :
    |(TS.acovf ts 0).val - m2 (vals ts) / ts.length| ≤
      (M.γ (ts.length + 6) *
          (m2 (vals ts)
            + (M.γ (ts.length + 2) * Rounding2.meanAbs (vals ts)) * (2 * Rounding2.absDev (vals ts))
            + (ts.length : ℝ) * (M.γ (ts.length + 2) * Rounding2.meanAbs (vals ts)) ^ 2)
        + (ts.length : ℝ) * (M.γ (ts.length + 2) * Rounding2.meanAbs (vals ts)) ^ 2) / ts.length := by
  have := acovf_error ts 0 h
  simp only [Int.natAbs_zero, Nat.sub_zero, lagCo_zero, lagAbs_zero, lagS_zero, lagD_zero, abs_zero,
    mul_zero, add_zero] at this
  exact this

/-! ### the first-order mean term at lags `k > 0` is necessary -/

section necessity
variable (p c : ℝ) (hc0 : 0 ≤ c) (hc1 : c < 1)

/-- `acovf` at lag 1 on the three points `p − 1, p + 2, p − 1` in the model whose only rounding error is
`rnd p = p(1+c)` (idempotent, data representable): the sum `3p` is exact, the mean `p` is hit and rounded
to `p + t`, `t = p·c`; everything else is exact, and the computed autocovariance is `2(t² − t − 2)/3`
while the exact one is `−4/3`. -/
theorem acovf_bump_value (hp : 3 < p) (ht : p * c < 1) :
    (TS.acovf ([⟨p - 1⟩, ⟨p + 2⟩, ⟨p - 1⟩] : List (Fl (FlModel.bump p c hc0 hc1))) 1).val
      = 2 * ((p * c) ^ 2 - p * c - 2) / 3 := by
  set M := FlModel.bump p c hc0 hc1 with hM
  have r (x : ℝ) (h : x ≠ p) : M.rnd x = x := if_neg h
  have rp : M.rnd p = p * (1 + c) := if_pos rfl
  have ht0 : 0 ≤ p * c := mul_nonneg (by linarith) hc0
  set t := p * c with htdef
  have hl : t ^ 2 - t - 2 < 0 := by nlinarith
  -- the mean
  have hsum : (sum8 ([⟨p - 1⟩, ⟨p + 2⟩, ⟨p - 1⟩] : List (Fl M))).val = 3 * p := by
    simp only [sum8, sum8Go, List.foldl_cons, List.foldl_nil, Fl.add_val, Fl.zero_val]
    rw [zero_add, r (p - 1) (by linarith), show p - 1 + (p + 2) = 2 * p + 1 by ring,
      r (2 * p + 1) (by linarith), show 2 * p + 1 + (p - 1) = 3 * p by ring, r (3 * p) (by linarith)]
  have hm : TS.mean ([⟨p - 1⟩, ⟨p + 2⟩, ⟨p - 1⟩] : List (Fl M)) = ⟨p + t⟩ := by
    apply Fl.ext
    show M.rnd ((sum8 ([⟨p - 1⟩, ⟨p + 2⟩, ⟨p - 1⟩] : List (Fl M))).val / M.rnd (((3 : Nat) : ℝ))) = p + t
    rw [hsum, show (((3 : Nat) : ℝ)) = 3 by norm_num, r 3 (by linarith), show 3 * p / 3 = p by ring, rp,
      htdef]
    ring
  -- the centred values and their products
  have d1 : ((⟨p + 2⟩ : Fl M) - ⟨p + t⟩) = ⟨2 - t⟩ := by
    apply Fl.ext
    show M.rnd (p + 2 - (p + t)) = 2 - t
    rw [show p + 2 - (p + t) = 2 - t by ring, r (2 - t) (by linarith)]
  have d0 : ((⟨p - 1⟩ : Fl M) - ⟨p + t⟩) = ⟨-1 - t⟩ := by
    apply Fl.ext
    show M.rnd (p - 1 - (p + t)) = -1 - t
    rw [show p - 1 - (p + t) = -1 - t by ring, r (-1 - t) (by linarith)]
  have pr1 : ((⟨2 - t⟩ : Fl M) * ⟨-1 - t⟩) = ⟨t ^ 2 - t - 2⟩ := by
    apply Fl.ext
    show M.rnd ((2 - t) * (-1 - t)) = t ^ 2 - t - 2
    rw [show (2 - t) * (-1 - t) = t ^ 2 - t - 2 by ring, r _ (by linarith)]
  have pr2 : ((⟨-1 - t⟩ : Fl M) * ⟨2 - t⟩) = ⟨t ^ 2 - t - 2⟩ := by
    apply Fl.ext
    show M.rnd ((-1 - t) * (2 - t)) = t ^ 2 - t - 2
    rw [show (-1 - t) * (2 - t) = t ^ 2 - t - 2 by ring, r _ (by linarith)]
  have s1 : (-(0 : Fl M) + ⟨t ^ 2 - t - 2⟩) = ⟨t ^ 2 - t - 2⟩ := by
    apply Fl.ext
    show M.rnd (-(0 : ℝ) + (t ^ 2 - t - 2)) = t ^ 2 - t - 2
    rw [neg_zero, zero_add, r _ (by linarith)]
  have s2 : ((⟨t ^ 2 - t - 2⟩ : Fl M) + ⟨t ^ 2 - t - 2⟩) = ⟨2 * (t ^ 2 - t - 2)⟩ := by
    apply Fl.ext
    show M.rnd ((t ^ 2 - t - 2) + (t ^ 2 - t - 2)) = 2 * (t ^ 2 - t - 2)
    rw [show (t ^ 2 - t - 2) + (t ^ 2 - t - 2) = 2 * (t ^ 2 - t - 2) by ring, r _ (by linarith)]
  have inv3 : ((1 : Fl M) / ((3 : Nat) : Fl M)) = ⟨1 / 3⟩ := by
    apply Fl.ext
    show M.rnd (1 / M.rnd (((3 : Nat) : ℝ))) = 1 / 3
    rw [show (((3 : Nat) : ℝ)) = 3 by norm_num, r 3 (by linarith), r (1 / 3) (by linarith)]
  have fin : ((⟨1 / 3⟩ : Fl M) * ⟨2 * (t ^ 2 - t - 2)⟩) = ⟨2 * (t ^ 2 - t - 2) / 3⟩ := by
    apply Fl.ext
    show M.rnd (1 / 3 * (2 * (t ^ 2 - t - 2))) = 2 * (t ^ 2 - t - 2) / 3
    rw [show (1 : ℝ) / 3 * (2 * (t ^ 2 - t - 2)) = 2 * (t ^ 2 - t - 2) / 3 by ring, r _ (by linarith)]
  have hval : TS.acovf ([⟨p - 1⟩, ⟨p + 2⟩, ⟨p - 1⟩] : List (Fl M)) 1 = ⟨2 * (t ^ 2 - t - 2) / 3⟩ := by
    simp only [TS.acovf, hm, TS.lagProducts, TS.iterSum, Int.natAbs_one, List.drop_succ_cons,
      List.drop_zero, List.zipWith_cons_cons, List.zipWith_nil_left, List.foldl_cons, List.foldl_nil,
      List.length_cons, List.length_nil, d1, d0, pr1, pr2, s1, s2]
    exact (congrArg (· * (⟨2 * (t ^ 2 - t - 2)⟩ : Fl M)) inv3).trans fin
  rw [hval]

/-- **the first-order mean term of `acovf_error` at lag `k > 0` is necessary**: no bound consisting of a
first-order term in the *centred* data plus a *second-order* term in the mean,
`|ĉ_1 − c_1| ≤ K·( u·(lagAbs + lagS) + n·(u·mean|x|)² )`, holds in the standard model, whatever the
constant `K` — even for `n = 3`, idempotent rounding and representable data.  (At lag 0 such a bound does
hold: `acovf_zero_error`.)  Witness: the points `p − 1, p + 2, p − 1` in the model whose only rounding error
is `rnd p = p(1+c)`; the mean `p` is hit; `p·c = 1/(18(|K|+1))`, `p = 40(|K|+1) + 10`. -/
theorem acovf_mean_term_first_order (K : ℝ) : ∃ (M : FlModel) (ts : List (Fl M)),
    M.Idem ∧ (∀ a ∈ ts, a.Rep) ∧ ((ts.length + 6 : Nat) : ℝ) * M.u < 1 ∧
    K * (M.u * (lagAbs (vals ts) 1 + lagS (vals ts) 1)
          + ts.length * (M.u * Rounding2.meanAbs (vals ts)) ^ 2) <
      |(TS.acovf ts 1).val - lagCo (vals ts) 1 / ts.length| := by
  set K' : ℝ := |K| + 1 with hK'
  have hK'1 : 1 ≤ K' := by have := abs_nonneg K; linarith
  have hKK' : K ≤ K' := by have := le_abs_self K; linarith
  set p : ℝ := 40 * K' + 10 with hp
  set t : ℝ := 1 / (18 * K') with ht
  have hp50 : 50 ≤ p := by linarith
  have hp0 : 0 < p := by linarith
  have ht0 : 0 < t := by rw [ht]; positivity
  have ht18 : t ≤ 1 / 18 := by
    rw [ht, div_le_div_iff₀ (by positivity) (by norm_num)]; linarith
  have hKt : K' * t = 1 / 18 := by rw [ht]; field_simp
  set c : ℝ := t / p with hc
  have hc0 : 0 ≤ c := by rw [hc]; positivity
  have hcp : p * c = t := by rw [hc]; field_simp
  have hcle : c ≤ 1 / 900 := by
    rw [hc, div_le_div_iff₀ hp0 (by norm_num)]; nlinarith
  have hc1 : c < 1 := by linarith
  have hv := acovf_bump_value p c hc0 hc1 (by linarith) (by rw [hcp]; linarith)
  rw [hcp] at hv
  refine ⟨FlModel.bump p c hc0 hc1, [⟨p - 1⟩, ⟨p + 2⟩, ⟨p - 1⟩], FlModel.bump_idem _ _ _ _, ?_, ?_, ?_⟩
  · intro a ha
    simp only [List.mem_cons, List.not_mem_nil, or_false] at ha
    have r (x : ℝ) (h : x ≠ p) : (FlModel.bump p c hc0 hc1).rnd x = x := if_neg h
    rcases ha with rfl | rfl | rfl
    · exact r (p - 1) (by linarith)
    · exact r (p + 2) (by linarith)
    · exact r (p - 1) (by linarith)
  · show ((3 + 6 : Nat) : ℝ) * c < 1
    push_cast; linarith
  · have hvals : vals ([⟨p - 1⟩, ⟨p + 2⟩, ⟨p - 1⟩] : List (Fl (FlModel.bump p c hc0 hc1))) =
        [p - 1, p + 2, p - 1] := by simp [vals]
    have hmu : mu [p - 1, p + 2, p - 1] = p := by simp [mu]; ring
    have hco : lagCo [p - 1, p + 2, p - 1] 1 = -4 := by
      unfold lagCo; rw [hmu]; simp [lagPairs]; ring
    have hab : lagAbs [p - 1, p + 2, p - 1] 1 = 4 := by
      unfold lagAbs; rw [hmu]; simp [lagPairs]
      norm_num
    have hS : lagS [p - 1, p + 2, p - 1] 1 = 6 := by
      unfold lagS; rw [hmu]; simp [lagPairs]
      norm_num
    have hma : Rounding2.meanAbs [p - 1, p + 2, p - 1] = p := by
      unfold Rounding2.meanAbs
      simp only [List.map_cons, List.map_nil, List.sum_cons, List.sum_nil, List.length_cons,
        List.length_nil]
      rw [abs_of_nonneg (by linarith : 0 ≤ p - 1), abs_of_nonneg (by linarith : 0 ≤ p + 2)]
      push_cast; ring
    rw [hvals, hv, hco, hab, hS, hma]
    show K * (c * (4 + 6) + ((3 : Nat) : ℝ) * (c * p) ^ 2) < |2 * (t ^ 2 - t - 2) / 3 - -4 / ((3 : Nat) : ℝ)|
    rw [mul_comm c p, hcp]
    push_cast
    have e : 2 * (t ^ 2 - t - 2) / 3 - -4 / 3 = -(2 * t * (1 - t) / 3) := by ring
    rw [e, abs_neg, abs_of_nonneg (by
      have : 0 ≤ 1 - t := by linarith
      positivity)]
    -- K(10c + 3t²) ≤ K'(10c + 3t²) < t/4 + t/6 < 2t(1−t)/3
    have hnn : 0 ≤ c * (4 + 6) + 3 * t ^ 2 := by positivity
    have h1 : K * (c * (4 + 6) + 3 * t ^ 2) ≤ K' * (c * (4 + 6) + 3 * t ^ 2) :=
      mul_le_mul_of_nonneg_right hKK' hnn
    have h2 : K' * (3 * t ^ 2) = t / 6 := by
      have : K' * (3 * t ^ 2) = 3 * t * (K' * t) := by ring
      rw [this, hKt]; ring
    have h3 : K' * (c * (4 + 6)) < t / 4 := by
      have hKc : K' * c = (K' * t) / p := by rw [hc]; ring
      have : K' * (c * (4 + 6)) = 10 * ((K' * t) / p) := by rw [← hKc]; ring
      rw [this, hKt]
      -- 10·(1/18)/p < t/4  ⟸  40/(18 p) < t = 1/(18 K')  ⟸  40 K' < p
      rw [ht]
      rw [show (10 : ℝ) * (1 / 18 / p) = 10 / (18 * p) by field_simp,
        show (1 : ℝ) / (18 * K') / 4 = 1 / (72 * K') by field_simp; ring,
        div_lt_div_iff₀ (by positivity) (by positivity)]
      nlinarith
    have h4 : t / 4 + t / 6 < 2 * t * (1 - t) / 3 := by nlinarith
    calc K * (c * (4 + 6) + 3 * t ^ 2) ≤ K' * (c * (4 + 6) + 3 * t ^ 2) := h1
      _ = K' * (c * (4 + 6)) + K' * (3 * t ^ 2) := by ring
      _ < t / 4 + t / 6 := by rw [h2]; linarith
      _ < 2 * t * (1 - t) / 3 := h4

end necessity

end Cv.Rounding3
