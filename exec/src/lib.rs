//! Line-protocol helpers shared by the per-property executors (`src/bin/cXX.rs`).
//! The executors call the real `compute` crate (path dependency on /repo) in-process, one request
//! per line, each under `catch_unwind`.  Replies go to a file, never stdout (parts of `compute`
//! print).  Format: see /verif/lean/Compute/Drv/Common.lean.
use std::fmt::Write as _;
use std::io::{BufRead, BufReader, BufWriter, Write};
use std::panic::{catch_unwind, AssertUnwindSafe};

pub struct Toks<'a> {
    t: Vec<&'a str>,
    i: usize,
}

#[derive(Debug)]
pub struct BadOp;

pub type R<T> = Result<T, BadOp>;

impl<'a> Toks<'a> {
    pub fn new(line: &'a str) -> Self {
        Toks { t: line.split_ascii_whitespace().collect(), i: 0 }
    }
    pub fn is_empty(&self) -> bool {
        self.t.is_empty()
    }
    pub fn tok(&mut self) -> R<&'a str> {
        if self.i < self.t.len() {
            self.i += 1;
            Ok(self.t[self.i - 1])
        } else {
            Err(BadOp)
        }
    }
    pub fn usize(&mut self) -> R<usize> {
        self.tok()?.parse().map_err(|_| BadOp)
    }
    pub fn u64(&mut self) -> R<u64> {
        self.tok()?.parse().map_err(|_| BadOp)
    }
    pub fn i64(&mut self) -> R<i64> {
        self.tok()?.parse().map_err(|_| BadOp)
    }
    pub fn i32(&mut self) -> R<i32> {
        self.tok()?.parse().map_err(|_| BadOp)
    }
    pub fn f64(&mut self) -> R<f64> {
        let s = self.tok()?;
        if s == "nan" {
            return Ok(f64::NAN);
        }
        if s.len() != 16 {
            return Err(BadOp);
        }
        u64::from_str_radix(s, 16).map(f64::from_bits).map_err(|_| BadOp)
    }
    pub fn f64s(&mut self, n: usize) -> R<Vec<f64>> {
        (0..n).map(|_| self.f64()).collect()
    }
    /// `len h1 … hlen`
    pub fn vec(&mut self) -> R<Vec<f64>> {
        let n = self.usize()?;
        self.f64s(n)
    }
    pub fn usizes(&mut self) -> R<Vec<usize>> {
        let n = self.usize()?;
        (0..n).map(|_| self.usize()).collect()
    }
    pub fn i64s(&mut self) -> R<Vec<i64>> {
        let n = self.usize()?;
        (0..n).map(|_| self.i64()).collect()
    }
    pub fn end(&self) -> R<()> {
        if self.i == self.t.len() {
            Ok(())
        } else {
            Err(BadOp)
        }
    }
}

pub fn show_f(x: f64) -> String {
    if x.is_nan() {
        "nan".to_string()
    } else {
        format!("{:016x}", x.to_bits())
    }
}

pub fn show_fs(xs: &[f64]) -> String {
    let mut s = String::with_capacity(xs.len() * 17);
    for (i, x) in xs.iter().enumerate() {
        if i > 0 {
            s.push(' ');
        }
        if x.is_nan() {
            s.push_str("nan");
        } else {
            let _ = write!(s, "{:016x}", x.to_bits());
        }
    }
    s
}

/// `len h1 … hlen`
pub fn show_vec(xs: &[f64]) -> String {
    if xs.is_empty() {
        "0".to_string()
    } else {
        format!("{} {}", xs.len(), show_fs(xs))
    }
}

pub fn show_bool(b: bool) -> &'static str {
    if b {
        "1"
    } else {
        "0"
    }
}

pub fn ok(s: String) -> String {
    if s.is_empty() {
        "=".to_string()
    } else {
        format!("= {}", s)
    }
}

/// Run `step` on every request line of `argv[1]`, writing replies to `argv[2]`.
/// A panic inside `step` becomes the reply `! panic`; a malformed request `! bad-op`.
pub fn run<S>(mut state: S, mut step: impl FnMut(&mut S, &mut Toks) -> R<String>) {
    let args: Vec<String> = std::env::args().collect();
    if args.len() != 3 {
        eprintln!("usage: {} <ops-file> <out-file>", args[0]);
        std::process::exit(2);
    }
    std::panic::set_hook(Box::new(|_| {}));
    let inp = BufReader::new(std::fs::File::open(&args[1]).expect("ops file"));
    let mut out = BufWriter::new(std::fs::File::create(&args[2]).expect("out file"));
    for line in inp.lines() {
        let line = line.expect("read");
        let mut t = Toks::new(&line);
        if t.is_empty() || line.trim_start().starts_with('#') {
            writeln!(out, "#").unwrap();
            continue;
        }
        let r = catch_unwind(AssertUnwindSafe(|| step(&mut state, &mut t)));
        match r {
            Ok(Ok(s)) => writeln!(out, "{}", s).unwrap(),
            Ok(Err(BadOp)) => writeln!(out, "! bad-op").unwrap(),
            Err(_) => writeln!(out, "! panic").unwrap(),
        }
        // flushed per line so that a hang or abort is attributed to the right request
        out.flush().unwrap();
    }
    out.flush().unwrap();
}
