import Compute.Model.Samplers
import Compute.Generated.SrcC03Mut
/-
Source tie for C03, fifth pass (`Compute/Generated/SrcC03Mut.lean`, regenerated from the Rust source on every run by
`tools/rs2lean.py`): the routing conditions of `Poisson::sample` and `Binomial::sample` as Boolean / scalar fragments, and the
compositions `T::sample`, `Beta::sample` as functions of the draws of their sub-samplers.

* `Poisson_sample_route`: the model's `Poisson.sample` branches on exactly the generated condition (`lambda < 10.`).
* `Binomial_sample_routes`: the model's `Binomial.sample`, below its first test (`n == 0 || p == 0.`, which the model renders with
  `<` and is NOT tied here), is: the generated end-point test, the generated flip `p > 0.5`, the generated flipped probability,
  the generated threshold `p * n <= 30.` choosing inversion or BTPE, and the un-flip `n - res` (checked subtraction).
* `T_sample_eq` / `Beta_sample_eq`: whenever the sub-samplers return (`some`), the model's value is the generated formula applied to
  those draws, and its generator state is the state after them, in the source's order (normal then gamma; alpha-gamma then
  beta-gamma then, only in the underflow branch, one uniform).
No algebra on the scalar is used.
-/
set_option linter.unusedSectionVars false
namespace Cv.SrcTie.C03Mut

variable {α : Type} [Add α] [Sub α] [Mul α] [Div α] [Neg α] [Zero α] [One α] [NatCast α] [IntCast α]
  [LT α] [DecidableLT α] [LE α] [DecidableLE α] [BEq α] [Cv.Transc α] [Cv.OfLit α] [Cv.Log1p α] [Cv.ToU64 α]
  [Inhabited α] [Cv.FiniteTest α]

open Cv Cv.Src.C03Mut

theorem Poisson_sample_route (fuel : Nat) (lambda : α) (g : Rng) :
    Poisson.sample fuel lambda g =
      if Poisson_route lambda = true then Poisson.sampleMult fuel lambda g else Poisson.samplePtrs fuel lambda g := by
  unfold Poisson.sample Poisson_route
  simp only [decide_eq_true_eq]

theorem Binomial_sample_routes (fuel ifuel n : Nat) (p : α) (g : Rng) (h0 : ¬ (n = 0 ∨ ¬ (p < 0 ∨ 0 < p))) :
    Binomial.sample fuel ifuel n p g =
      if Binomial_edge p = true then some ((n : α), g)
      else
        let switch := Binomial_switch p
        let p' := Binomial_p p switch
        let res := if Binomial_small p' n = true then Binomial.inversion fuel n p' g else Binomial.btpe fuel ifuel n p' g
        match res with
        | none => none
        | some (r, g) =>
          if switch = true then (if r ≤ n then some (((n - r : Nat) : α), g) else none)
          else some ((r : α), g) := by
  unfold Binomial.sample Binomial_edge Binomial_switch Binomial_p Binomial_small
  rw [if_neg h0]
  simp only [decide_eq_true_eq]
  rfl

theorem T_sample_eq (fuel : Nat) (dof z gm : α) (g g1 g2 : Rng)
    (hz : Normal.sample fuel (0 : α) 1 g = some (z, g1))
    (hv : Gamma.valid (dof / ((2 : Nat) : α)) (1 : α) = true)
    (hg : Gamma.sample fuel (dof / ((2 : Nat) : α)) 1 g1 = some (gm, g2)) :
    T.sample fuel dof g = some (T_sample z (fun _ _ => gm) dof, g2) := by
  unfold T.sample T_sample
  simp only [hz, hv, hg, if_true]

theorem Beta_sample_eq (fuel : Nat) (alpha beta x y : α) (g g1 g2 : Rng)
    (hx : Gamma.sample fuel alpha 1 g = some (x, g1)) (hy : Gamma.sample fuel beta 1 g1 = some (y, g2)) :
    Beta.sample fuel alpha beta g =
      some (Beta_sample x y (g2.f64 (α := α)).1 alpha beta, if (x + y == 0) = true then (g2.f64 (α := α)).2 else g2) := by
  unfold Beta.sample Beta_sample
  simp only [hx, hy]
  split <;> rfl

end Cv.SrcTie.C03Mut
