import Compute.Lemmas.CholCorrect
import Compute.Lemmas.SolveMatrix
/-
The Cholesky sweep never fails on a symmetric positive definite matrix (exact arithmetic, exact `sqrt`):
at the diagonal cell of row `i` the pivot `a_ii − Σ_{k<i} l_ik²` is the value of the quadratic form of `A` at
the vector `(−w, 1, 0, …, 0)` with `L_iᵀ w = l_i`, hence positive.
-/
set_option linter.unusedSectionVars false
namespace Cv.LA
open Finset Matrix

section
variable {F : Type} [Field F]

/-- positive definiteness of the flat `n × n` array: the quadratic form is positive off zero -/
def PosDefFlat [LT F] (n : Nat) (a : List F) : Prop :=
  ∀ v : Nat → F, (∃ j, j < n ∧ v j ≠ 0) →
    0 < ∑ p ∈ range n, ∑ q ∈ range n, v p * rd a (p * n + q) * v q

/-- the algebra behind the pivot: with `A' = L·Lᵀ`, `α = L·u`, `Lᵀ w = u`,
`wᵀA'w − 2 wᵀα + a = a − uᵀu`. -/
theorem schur_pivot {m : Nat} (L : Matrix (Fin m) (Fin m) F) (u w : Fin m → F) (amm : F)
    (hw : Lᵀ *ᵥ w = u) :
    (w ⬝ᵥ (L * Lᵀ) *ᵥ w) - 2 * (w ⬝ᵥ L *ᵥ u) + amm = amm - u ⬝ᵥ u := by
  have h1 : w ⬝ᵥ (L * Lᵀ) *ᵥ w = u ⬝ᵥ u := by
    rw [← Matrix.mulVec_mulVec, Matrix.dotProduct_mulVec, ← Matrix.mulVec_transpose, hw]
  have h2 : w ⬝ᵥ L *ᵥ u = u ⬝ᵥ u := by
    rw [Matrix.dotProduct_mulVec, ← Matrix.mulVec_transpose, hw]
  rw [h1, h2]; ring

/-- the quadratic form at the bordered vector `(−w, 1, 0, …)` -/
theorem quad_form_bordered (n m : Nat) (hm : m < n) (a : List F)
    (hsym : ∀ i j, i < n → j < n → rd a (i * n + j) = rd a (j * n + i)) (w : Fin m → F) (v : Nat → F)
    (hv_lt : ∀ p (h : p < m), v p = - w ⟨p, h⟩) (hv_m : v m = 1) (hv_gt : ∀ p, m < p → v p = 0) :
    ∑ p ∈ range n, ∑ q ∈ range n, v p * rd a (p * n + q) * v q =
      (∑ p : Fin m, ∑ q : Fin m, w p * rd a (p.1 * n + q.1) * w q)
        - 2 * (∑ p : Fin m, w p * rd a (m * n + p.1)) + rd a (m * n + m) := by
  have cut : ∀ f : Nat → F, (∀ p, m < p → f p = 0) → ∑ p ∈ range n, f p = (∑ p : Fin m, f p.1) + f m := by
    intro f hf
    have : ∑ p ∈ range n, f p = ∑ p ∈ range (m + 1), f p := by
      symm
      apply Finset.sum_subset (Finset.range_subset_range.mpr (by omega))
      intro p _ hp'
      have : ¬ p < m + 1 := fun hh => hp' (Finset.mem_range.mpr hh)
      exact hf p (by omega)
    rw [this, Finset.sum_range_succ, Fin.sum_univ_eq_sum_range]
  rw [cut _ (fun p hp => Finset.sum_eq_zero fun q _ => by rw [hv_gt p hp]; ring)]
  have inner : ∀ p, ∑ q ∈ range n, v p * rd a (p * n + q) * v q =
      (∑ q : Fin m, v p * rd a (p * n + q.1) * v q.1) + v p * rd a (p * n + m) * v m :=
    fun p => cut _ (fun q hq => by rw [hv_gt q hq]; ring)
  simp only [inner]
  have e1 : ∀ p : Fin m, v p.1 = - w p := fun p => hv_lt p.1 p.2
  simp only [hv_m, e1]
  have s1 : ∑ p : Fin m, ((∑ q : Fin m, -w p * rd a (p.1 * n + q.1) * -w q) + -w p * rd a (p.1 * n + m) * 1) =
      (∑ p : Fin m, ∑ q : Fin m, w p * rd a (p.1 * n + q.1) * w q) - ∑ p : Fin m, w p * rd a (m * n + p.1) := by
    rw [Finset.sum_add_distrib, sub_eq_add_neg, ← Finset.sum_neg_distrib]
    congr 1
    · exact Finset.sum_congr rfl fun p _ => Finset.sum_congr rfl fun q _ => by ring
    · exact Finset.sum_congr rfl fun p _ => by rw [hsym p.1 m (by omega) hm]; ring
  have s2 : ∑ q : Fin m, 1 * rd a (m * n + q.1) * -w q = - ∑ p : Fin m, w p * rd a (m * n + p.1) := by
    rw [← Finset.sum_neg_distrib]
    exact Finset.sum_congr rfl fun p _ => by ring
  rw [s1, s2]
  ring

end

section chol
variable {F : Type} [Field F] [LinearOrder F] [IsStrictOrderedRing F] [Transc F] [BEq F] [ReflBEq F]

/-- **the pivot of row `i` is positive** when `a` is symmetric positive definite and everything before cell
`(i,i)` has been computed -/
theorem pivot_pos_of_posDef (hpos : ∀ x : F, 0 < x → 0 < Transc.sqrt x)
    (hs : ∀ x : F, 0 < x → Transc.sqrt x * Transc.sqrt x = x) (n : Nat) (a l : List F) (i : Nat) (hi : i < n)
    (hsym : ∀ i j, i < n → j < n → rd a (i * n + j) = rd a (j * n + i)) (hpd : PosDefFlat n a)
    (hw : Written n a l i i) : 0 < cholPivot n a l i := by
  obtain ⟨_, hcells⟩ := hw
  -- diagonal facts for finished rows
  have hdiag : ∀ c, c < i → 0 < rd l (c * n + c) ∧
      rd l (c * n + c) * rd l (c * n + c) = cholPivot n a l c := by
    intro c hc
    have := hcells c c (Nat.le_refl c) (by omega) (Or.inl hc)
    simp only [CellOk, if_true] at this
    rw [this.2]
    exact ⟨hpos _ this.1, hs _ this.1⟩
  -- product formula for every finished cell
  have hprod : ∀ r c, c ≤ r → (r < i ∨ (r = i ∧ c < i)) →
      ∑ k ∈ range (c + 1), rd l (r * n + k) * rd l (c * n + k) = rd a (r * n + c) := by
    intro r c hcr hlt
    have hc : c < i := by omega
    have hrn : r < n := by omega
    have hcell := hcells r c hcr hrn hlt
    rw [Finset.sum_range_succ]
    unfold CellOk at hcell
    by_cases hrc : r = c
    · subst hrc
      rw [(hdiag r hc).2]
      unfold cholPivot
      ring
    · simp only [hrc, if_false] at hcell
      have hd : rd l (c * n + c) ≠ 0 := ne_of_gt (hdiag c hc).1
      rw [hcell]
      field_simp
      have : ∑ k ∈ range c, rd l (c * n + k) * rd l (r * n + k) =
          ∑ k ∈ range c, rd l (r * n + k) * rd l (c * n + k) :=
        Finset.sum_congr rfl fun k _ => mul_comm _ _
      rw [this]
      ring
  -- the leading block and the row under construction
  let L : Matrix (Fin i) (Fin i) F := fun r c => if c.1 ≤ r.1 then rd l (r.1 * n + c.1) else 0
  let u : Fin i → F := fun c => rd l (i * n + c.1)
  have htri : L.IsLowerTriangular := by
    intro r c hrc
    have : r.1 < c.1 := by simpa using hrc
    simp only [L, if_neg (by omega : ¬ c.1 ≤ r.1)]
  have hdetL : L.det ≠ 0 := by
    rw [Matrix.det_of_isLowerTriangular _ htri]
    refine Finset.prod_ne_zero_iff.mpr fun c _ => ?_
    simp only [L, le_refl, if_true]
    exact ne_of_gt (hdiag c.1 c.2).1
  have hdetLt : IsUnit (Lᵀ).det := by rw [Matrix.det_transpose]; exact isUnit_iff_ne_zero.mpr hdetL
  let w : Fin i → F := (Lᵀ)⁻¹ *ᵥ u
  have hwu : Lᵀ *ᵥ w = u := by
    simp only [w]
    rw [Matrix.mulVec_mulVec, Matrix.mul_nonsing_inv _ hdetLt, Matrix.one_mulVec]
  -- row sums of L against another row cut at the diagonal
  have hrowsum : ∀ (r : Nat) (c : Fin i) (g : Nat → F), c.1 ≤ r →
      ∑ k : Fin i, g k.1 * L c k = ∑ k ∈ range (c.1 + 1), g k * rd l (c.1 * n + k) := by
    intro r c g _
    rw [Fin.sum_univ_eq_sum_range (fun k => g k * (if k ≤ c.1 then rd l (c.1 * n + k) else 0)) i]
    symm
    have hsub : range (c.1 + 1) ⊆ range i := Finset.range_subset_range.mpr (by omega)
    rw [← Finset.sum_subset hsub]
    · apply Finset.sum_congr rfl
      intro k hk
      have := Finset.mem_range.mp hk
      rw [if_pos (by omega)]
    · intro k _ hk'
      have : ¬ k < c.1 + 1 := fun hh => hk' (Finset.mem_range.mpr hh)
      rw [if_neg (by omega), mul_zero]
  have hLLt : ∀ r c : Fin i, (L * Lᵀ) r c = rd a (r.1 * n + c.1) := by
    have key : ∀ r c : Fin i, c.1 ≤ r.1 → (L * Lᵀ) r c = rd a (r.1 * n + c.1) := by
      intro r c hcr
      rw [Matrix.mul_apply]
      simp only [Matrix.transpose_apply]
      have h1 : ∑ k : Fin i, L r k * L c k = ∑ k : Fin i, (if k.1 ≤ r.1 then rd l (r.1 * n + k.1) else 0) * L c k := rfl
      rw [h1, hrowsum r.1 c (fun k => if k ≤ r.1 then rd l (r.1 * n + k) else 0) hcr, ← hprod r.1 c.1 hcr (Or.inl r.2)]
      apply Finset.sum_congr rfl
      intro k hk
      have := Finset.mem_range.mp hk
      rw [if_pos (by omega)]
    intro r c
    rcases Nat.le_total c.1 r.1 with h | h
    · exact key r c h
    · have : (L * Lᵀ) r c = (L * Lᵀ) c r := by
        rw [Matrix.mul_apply, Matrix.mul_apply]
        exact Finset.sum_congr rfl fun k _ => by simp only [Matrix.transpose_apply]; ring
      rw [this, key c r h, hsym c.1 r.1 (by omega) (by omega)]
  have hLu : ∀ c : Fin i, (L *ᵥ u) c = rd a (i * n + c.1) := by
    intro c
    have h1 : (L *ᵥ u) c = ∑ k : Fin i, rd l (i * n + k.1) * L c k := by
      simp only [Matrix.mulVec, dotProduct, u]
      exact Finset.sum_congr rfl fun k _ => mul_comm _ _
    rw [h1, hrowsum i c (fun k => rd l (i * n + k)) (by omega), ← hprod i c.1 (by omega) (Or.inr ⟨rfl, c.2⟩)]
  -- the bordered vector
  let v : Nat → F := fun p => if h : p < i then - w ⟨p, h⟩ else if p = i then 1 else 0
  have hv_lt : ∀ p (h : p < i), v p = - w ⟨p, h⟩ := fun p h => by simp only [v, dif_pos h]
  have hv_m : v i = 1 := by simp [v]
  have hv_gt : ∀ p, i < p → v p = 0 := fun p h => by
    simp only [v, dif_neg (by omega : ¬ p < i), if_neg (by omega : ¬ p = i)]
  have hq := hpd v ⟨i, hi, by rw [hv_m]; exact one_ne_zero⟩
  rw [quad_form_bordered n i hi a hsym w v hv_lt hv_m hv_gt] at hq
  have hA : ∑ p : Fin i, ∑ q : Fin i, w p * rd a (p.1 * n + q.1) * w q = w ⬝ᵥ (L * Lᵀ) *ᵥ w := by
    simp only [Matrix.mulVec, dotProduct, Finset.mul_sum]
    exact Finset.sum_congr rfl fun p _ => Finset.sum_congr rfl fun q _ => by rw [hLLt p q]; ring
  have hB : ∑ p : Fin i, w p * rd a (i * n + p.1) = w ⬝ᵥ L *ᵥ u := by
    simp only [dotProduct]
    exact Finset.sum_congr rfl fun p _ => by rw [hLu p]
  rw [hA, hB, schur_pivot L u w _ hwu] at hq
  have hpiv : cholPivot n a l i = rd a (i * n + i) - u ⬝ᵥ u := by
    unfold cholPivot
    simp only [dotProduct, u]
    rw [Fin.sum_univ_eq_sum_range (fun k => rd l (i * n + k) * rd l (i * n + k)) i]
  rw [hpiv]
  exact hq

/-- a cell below the diagonal never fails -/
theorem cholCell_offdiag_some (n : Nat) (a l : List F) (i j : Nat) (hij : i ≠ j) :
    ∃ l', cholCell n a l i j = some l' := by
  unfold cholCell
  simp only [hij, if_false]
  exact ⟨_, rfl⟩

/-- the diagonal cell succeeds when the pivot is positive -/
theorem cholCell_diag_some (n : Nat) (a l : List F) (i : Nat) (hi : i < n) (hlen : l.length = n * n)
    (hp : 0 < cholPivot n a l i) : ∃ l', cholCell n a l i i = some l' := by
  have hrow : i * n + i ≤ l.length := by
    have : i * n + i < l.length := by rw [hlen, Nat.mul_comm n n]; exact idx_lt' hi hi
    omega
  have hdot := dot8_rows l (i * n) (i * n) i hrow hrow
  unfold cholCell
  simp only [if_true, hdot, isNan, beq_self_eq_true, Bool.not_true, Bool.false_eq_true, or_false]
  unfold cholPivot at hp
  rw [if_neg (not_le.mpr hp)]
  exact ⟨_, rfl⟩

theorem cholCells_written_some (n : Nat) (a : List F) (i : Nat) (hi : i < n) (m : Nat) (hm : m ≤ i)
    (l : List F) (hw : Written n a l i 0) :
    ∃ l', (List.range m).foldlM (fun l j => cholCell n a l i j) l = some l' ∧ Written n a l' i m := by
  induction m with
  | zero => exact ⟨l, rfl, hw⟩
  | succ m ih =>
    obtain ⟨l1, h1, hw1⟩ := ih (by omega)
    obtain ⟨l2, h2⟩ := cholCell_offdiag_some n a l1 i m (by omega)
    refine ⟨l2, ?_, cholCell_written n a l1 l2 i m hi (by omega) hw1 h2⟩
    rw [List.range_succ, List.foldlM_append, h1]
    simp only [Option.bind_eq_bind, Option.bind_some, List.foldlM_cons, List.foldlM_nil, h2, Option.pure_def]

theorem cholRow_written_some (hpos : ∀ x : F, 0 < x → 0 < Transc.sqrt x)
    (hs : ∀ x : F, 0 < x → Transc.sqrt x * Transc.sqrt x = x) (n : Nat) (a l : List F) (i : Nat) (hi : i < n)
    (hsym : ∀ i j, i < n → j < n → rd a (i * n + j) = rd a (j * n + i)) (hpd : PosDefFlat n a)
    (hw : Written n a l i 0) : ∃ l', cholRow n a l i = some l' ∧ Written n a l' (i + 1) 0 := by
  obtain ⟨l1, h1, hw1⟩ := cholCells_written_some n a i hi i (Nat.le_refl i) l hw
  have hp := pivot_pos_of_posDef hpos hs n a l1 i hi hsym hpd hw1
  obtain ⟨l2, h2⟩ := cholCell_diag_some n a l1 i hi hw1.1 hp
  have hrow : cholRow n a l i = some l2 := by
    unfold cholRow
    rw [List.range_succ, List.foldlM_append, h1]
    simp only [Option.bind_eq_bind, Option.bind_some, List.foldlM_cons, List.foldlM_nil, h2, Option.pure_def]
  exact ⟨l2, hrow, cholRow_written n a l l2 i hi hw hrow⟩

/-- **The sweep never fails on a symmetric positive definite matrix.** -/
theorem cholLoops_posDef (hpos : ∀ x : F, 0 < x → 0 < Transc.sqrt x)
    (hs : ∀ x : F, 0 < x → Transc.sqrt x * Transc.sqrt x = x) (n : Nat) (a : List F)
    (hsym : ∀ i j, i < n → j < n → rd a (i * n + j) = rd a (j * n + i)) (hpd : PosDefFlat n a) :
    ∃ l, cholLoops n a = some l := by
  have h0 : Written n a (List.replicate (n * n) (0 : F)) 0 0 := ⟨by simp, fun r c _ _ hlt => by omega⟩
  have key : ∀ k, k ≤ n → ∃ l', (List.range k).foldlM (fun l i => cholRow n a l i)
      (List.replicate (n * n) (0 : F)) = some l' ∧ Written n a l' k 0 := by
    intro k
    induction k with
    | zero => exact fun _ => ⟨_, rfl, h0⟩
    | succ k ih =>
      intro hk
      obtain ⟨l1, h1, hw1⟩ := ih (by omega)
      obtain ⟨l2, h2, hw2⟩ := cholRow_written_some hpos hs n a l1 k (by omega) hsym hpd hw1
      refine ⟨l2, ?_, hw2⟩
      rw [List.range_succ, List.foldlM_append, h1]
      simp only [Option.bind_eq_bind, Option.bind_some, List.foldlM_cons, List.foldlM_nil, h2, Option.pure_def]
  obtain ⟨l, hl, _⟩ := key n (Nat.le_refl n)
  exact ⟨l, hl⟩

end chol
end Cv.LA
