//! C07 executor: `compute::integrate::{trapz, romberg, quad5, trapezoid}` on a catalogue of integrands
//! that is implemented identically (same operations in the same order) in
//! /verif/lean/Compute/Model/Integrate.lean (`Integrand.eval`).
//!
//! Requests
//!   `trapz <tag> <integrand> a b n`
//!   `romberg <tag> <integrand> a b eps nmax`
//!   `quad5 <tag> <integrand> a b`
//!   `trapezoid <tag> <vec y> (x <vec x> | nox) (dx <float> | nodx)`
//! `<integrand>` = `poly <vec c>` | `<name> <k>`;  `<tag>` is a free regime label (dropped for the model).
use compute::integrate::{quad5, romberg, trapezoid, trapz};
use cvexec::*;

enum F {
    Poly(Vec<f64>),
    K(u8, f64),
}

const NAMES: [&str; 19] = [
    "expk", "sink", "cosk", "sin2", "runge", "sqrt1", "xexp", "log1", "gauss", "cosh", "powx", "recip", "sincos",
    "xsin", "expsin", "rat2", "logx", "sqrtq", "tanhd",
];

fn integrand(t: &mut Toks) -> R<F> {
    let name = t.tok()?;
    if name == "poly" {
        return Ok(F::Poly(t.vec()?));
    }
    match NAMES.iter().position(|n| *n == name) {
        Some(i) => Ok(F::K(i as u8, t.f64()?)),
        None => Err(BadOp),
    }
}

#[inline(never)]
fn eval(f: &F, x: f64) -> f64 {
    match f {
        F::Poly(c) => {
            let mut acc = 0.0_f64;
            for ci in c.iter().rev() {
                acc = acc * x + ci;
            }
            acc
        }
        F::K(i, k) => {
            let k = *k;
            match i {
                0 => (k * x).exp(),
                1 => (k * x).sin(),
                2 => (k * x).cos(),
                3 => (k * x).sin() * (k * x).sin(),
                4 => 1. / (1. + k * (x * x)),
                5 => (1. + k * x).sqrt(),
                6 => x * (k * x).exp(),
                7 => (1. + k * x).ln(),
                8 => (k * (x * x)).exp(),
                9 => ((k * x).exp() + (-(k * x)).exp()) / 2.,
                10 => x.powf(k),
                11 => 1. / (k + x),
                12 => (k * x).sin() * x.cos(),
                13 => x * (k * x).sin(),
                14 => x.exp() * (k * x).sin(),
                15 => x / (1. + k * (x * x)),
                16 => (k * x).ln() / x,
                17 => (k + x * x).sqrt(),
                _ => {
                    let e = (k * x).exp() + (-(k * x)).exp();
                    (2. * 2.) / (e * e)
                }
            }
        }
    }
}

fn step(_: &mut (), t: &mut Toks) -> R<String> {
    let op = t.tok()?;
    let _tag = t.tok()?;
    match op {
        "trapz" => {
            let f = integrand(t)?;
            let (a, b, n) = (t.f64()?, t.f64()?, t.usize()?);
            t.end()?;
            Ok(ok(show_f(trapz(|x| eval(&f, x), a, b, n))))
        }
        "romberg" => {
            let f = integrand(t)?;
            let (a, b, eps, nmax) = (t.f64()?, t.f64()?, t.f64()?, t.usize()?);
            t.end()?;
            if nmax > 31 {
                return Err(BadOp); // outside the modelled range (2^31 evaluations)
            }
            Ok(ok(show_f(romberg(|x| eval(&f, x), a, b, eps, nmax))))
        }
        "quad5" => {
            let f = integrand(t)?;
            let (a, b) = (t.f64()?, t.f64()?);
            t.end()?;
            Ok(ok(show_f(quad5(|x| eval(&f, x), a, b))))
        }
        "trapezoid" => {
            let y = t.vec()?;
            let x = match t.tok()? {
                "x" => Some(t.vec()?),
                "nox" => None,
                _ => return Err(BadOp),
            };
            let dx = match t.tok()? {
                "dx" => Some(t.f64()?),
                "nodx" => None,
                _ => return Err(BadOp),
            };
            t.end()?;
            Ok(ok(show_f(trapezoid(&y, x.as_deref(), dx))))
        }
        _ => Err(BadOp),
    }
}

fn main() {
    run((), step);
}
