/-
Line protocol shared by every model driver (`cv_cXX` executables) and by the Rust executor
(`/verif/exec`).  No Mathlib imports: these files are linked into native executables.

A request line is `op tok tok …`.  Floats travel as 16 hex digits of the IEEE-754 bit pattern,
integers in decimal, vectors as `len h1 … hlen`.  A reply line is `= tok …` or `! panic`
(`! diverged` when the model ran out of fuel).  NaNs are canonicalised to the token `nan`
(payload and sign of a NaN are not compared), `-0` and `+0` are distinct tokens.
-/
namespace Cv

def hexDigit (c : Char) : Option Nat :=
  if '0' ≤ c ∧ c ≤ '9' then some (c.toNat - '0'.toNat)
  else if 'a' ≤ c ∧ c ≤ 'f' then some (c.toNat - 'a'.toNat + 10)
  else if 'A' ≤ c ∧ c ≤ 'F' then some (c.toNat - 'A'.toNat + 10)
  else none

def parseHex (s : String) : Option Nat :=
  s.toList.foldl (fun acc c => match acc, hexDigit c with
    | some a, some d => some (a * 16 + d)
    | _, _ => none) (some 0)

def parseFloat (s : String) : Option Float :=
  if s == "nan" then some (0.0 / 0.0)
  else if s.length != 16 then none
  else (parseHex s).map fun n => Float.ofBits (UInt64.ofNat n)

def hexChar (n : Nat) : Char :=
  if n < 10 then Char.ofNat ('0'.toNat + n) else Char.ofNat ('a'.toNat + n - 10)

def natToHex16 (n : Nat) : String :=
  String.ofList ((List.range 16).map fun i => hexChar ((n >>> (4 * (15 - i))) % 16))

def showFloat (x : Float) : String :=
  if x.isNaN then "nan" else natToHex16 x.toBits.toNat

def showFloats (xs : List Float) : String :=
  " ".intercalate (xs.map showFloat)

/-- `len h1 … hlen` -/
def showVec (xs : List Float) : String :=
  if xs.isEmpty then "0" else toString xs.length ++ " " ++ showFloats xs

def parseInt (s : String) : Option Int :=
  if s.startsWith "-" then (s.drop 1).toNat?.map fun n => -(Int.ofNat n)
  else s.toNat?.map Int.ofNat

/-- A tiny token-stream parser monad. -/
abbrev P := StateT (List String) Option

def tok : P String := fun s => match s with
  | [] => none
  | t :: ts => some (t, ts)

def pNat : P Nat := do let t ← tok; match t.toNat? with | some n => pure n | none => failure
def pInt : P Int := do let t ← tok; match parseInt t with | some n => pure n | none => failure
def pFloat : P Float := do let t ← tok; match parseFloat t with | some n => pure n | none => failure
def pU64 : P UInt64 := do let n ← pNat; pure (UInt64.ofNat n)

def pMany {α} (p : P α) : Nat → P (List α)
  | 0 => pure []
  | n + 1 => do let x ← p; let xs ← pMany p n; pure (x :: xs)

def pVec : P (List Float) := do let n ← pNat; pMany pFloat n
def pNatVec : P (List Nat) := do let n ← pNat; pMany pNat n
def pIntVec : P (List Int) := do let n ← pNat; pMany pInt n

def pEnd : P Unit := fun s => match s with
  | [] => some ((), [])
  | _ => none

def tokens (line : String) : List String :=
  (line.trimAscii.toString.splitOn " ").filter (· ≠ "")

/-- Reply constructors. -/
def ok (s : String) : String := if s.isEmpty then "=" else "= " ++ s
def panicked : String := "! panic"
def diverged : String := "! diverged"
def badOp : String := "! bad-op"

def showBool (b : Bool) : String := if b then "1" else "0"

/-- Run a stateful line handler over a request file, writing replies to `outPath`. -/
def runFile {σ : Type} (init : σ) (step : σ → List String → σ × String)
    (inPath outPath : String) : IO Unit := do
  let lines ← IO.FS.lines inPath
  let h ← IO.FS.Handle.mk outPath .write
  let mut st := init
  for line in lines do
    let toks := tokens line
    if toks.isEmpty then
      h.putStrLn "#"
    else if toks.head!.startsWith "#" then
      h.putStrLn "#"
    else
      let (st', out) := step st toks
      st := st'
      h.putStrLn out
  h.flush

/-- Stateless convenience wrapper. -/
def runFilePure (step : List String → String) (inPath outPath : String) : IO Unit :=
  runFile () (fun _ t => ((), step t)) inPath outPath

def mainWith {σ : Type} (init : σ) (step : σ → List String → σ × String)
    (args : List String) : IO UInt32 := do
  match args with
  | [i, o] => runFile init step i o; pure 0
  | _ => IO.eprintln "usage: cv_xxx <ops-file> <out-file>"; pure 2

/-- Run a parser on the argument tokens; a parse failure is a protocol error, not a panic. -/
def withArgs {α} (p : P α) (args : List String) (k : α → String) : String :=
  match (do let a ← p; pEnd; pure a : P α).run args with
  | some (a, _) => k a
  | none => badOp

end Cv
