//! C17 executor: statistical transforms and binomial coefficients of `compute::functions`.
//! Requests: logisticv <vec> | logit p | rt1 x | rt2 p | boxcox x l | boxcoxs x l a | softmax2 c <vec> | logsweep a b |
//! binom n k | binomalt n k
use compute::functions::{binom_coeff, binom_coeff_alt, boxcox, boxcox_shifted, logistic, logit, softmax};
use cvexec::*;

fn step(_: &mut (), t: &mut Toks) -> R<String> {
    match t.tok()? {
        "logisticv" => {
            let x = t.vec()?;
            t.end()?;
            let v: Vec<f64> = x.iter().map(|&a| logistic(a)).collect();
            Ok(ok(show_vec(&v)))
        }
        "logit" => {
            let p = t.f64()?;
            t.end()?;
            Ok(ok(show_f(logit(p))))
        }
        "rt1" => {
            let x = t.f64()?;
            t.end()?;
            let p = logistic(x);
            let r = logit(p);
            Ok(ok(format!("{} {}", show_f(p), show_f(r))))
        }
        "rt2" => {
            let p = t.f64()?;
            t.end()?;
            let q = logit(p);
            let r = logistic(q);
            Ok(ok(format!("{} {}", show_f(q), show_f(r))))
        }
        "boxcox" => {
            let (x, l) = (t.f64()?, t.f64()?);
            t.end()?;
            Ok(ok(show_f(boxcox(x, l))))
        }
        "boxcoxs" => {
            let (x, l, a) = (t.f64()?, t.f64()?, t.f64()?);
            t.end()?;
            Ok(ok(show_f(boxcox_shifted(x, l, a))))
        }
        "softmax2" => {
            let c = t.f64()?;
            let x = t.vec()?;
            t.end()?;
            let y: Vec<f64> = x.iter().map(|&a| a + c).collect();
            Ok(ok(format!("{} {}", show_vec(&softmax(&x)), show_vec(&softmax(&y)))))
        }
        "binom" => {
            let (n, k) = (t.u64()?, t.u64()?);
            t.end()?;
            Ok(ok(format!("{}", binom_coeff(n, k))))
        }
        "logsweep" => {
            // every non-negative f32 bit pattern in [a, b], together with its negation: range, monotonicity, reflection
            // identity and a hash of all results (compared with the model's hash)
            let (a, b) = (t.u64()?, t.u64()?);
            t.end()?;
            if a > b || b > 0x7f7f_ffff {
                return Err(BadOp);
            }
            let mut h: u64 = 0xcbf2_9ce4_8422_2325;
            let (mut bad_range, mut bad_mono, mut bad_symm, mut zeros, mut ones) = (0u64, 0u64, 0u64, 0u64, 0u64);
            let mut first_bad: u64 = u64::MAX;
            let (mut pp, mut pq) = (f64::NEG_INFINITY, f64::INFINITY);
            let (mut p0, mut q0) = (0f64, 0f64);
            for bits in a..=b {
                let x = f32::from_bits(bits as u32) as f64;
                let p = logistic(x);
                let q = logistic(-x);
                if bits == a {
                    p0 = p;
                    q0 = q;
                }
                let mut bad = false;
                if !(p >= 0. && p <= 1. && q >= 0. && q <= 1.) {
                    bad_range += 1;
                    bad = true;
                }
                if !(p >= pp && q <= pq) {
                    bad_mono += 1;
                    bad = true;
                }
                if !(((p + q) - 1.).abs() <= 200. * f64::EPSILON) {
                    bad_symm += 1;
                    bad = true;
                }
                if bad && first_bad == u64::MAX {
                    first_bad = bits;
                }
                if q == 0. {
                    zeros += 1;
                }
                if p == 1. {
                    ones += 1;
                }
                pp = p;
                pq = q;
                h = (h ^ p.to_bits()).wrapping_mul(0x0000_0100_0000_01b3);
                h = (h ^ q.to_bits()).wrapping_mul(0x0000_0100_0000_01b3);
            }
            Ok(ok(format!(
                "{} {} {} {} {} {} {} {} {} {} {} {}",
                b - a + 1, bad_range, bad_mono, bad_symm, first_bad, zeros, ones, h, show_f(p0), show_f(q0), show_f(pp), show_f(pq)
            )))
        }
        "binomalt" => {
            let (n, k) = (t.u64()?, t.u64()?);
            t.end()?;
            Ok(ok(format!("{}", binom_coeff_alt(n, k))))
        }
        _ => Err(BadOp),
    }
}

fn main() {
    run((), step);
}
