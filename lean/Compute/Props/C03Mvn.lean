import Compute.Props.C03
import Compute.Props.C01Solve
/-
C03 — multivariate normal: what `MVN::new` guarantees about the object `MVN::sample` reads (review finding B3).

`mvn_sample_spec_partial` (Props/C03.lean) is about an arbitrary record `d` with a well-formed `dim × dim` factor.  Here the record
is the one `MVN.new mean cov` builds: the mean is stored unchanged, its length is the order of `cov`, the cached factor `L` is
`dim × dim`, well formed, and — by C01's `cholesky_correct_real` — `L·Lᵀ = cov` in exact arithmetic whenever `cov` is exactly
symmetric (`MVN::new` itself only asserts symmetry up to `ε = 2⁻⁵²`; on the lower triangle the identity holds without that
hypothesis).  Together with `mvn_sample_spec_partial`: a returned draw is `μ + L z` with `L Lᵀ = Σ`, `z` the `dim` normal draws.
NOT proved: that `z` is standard normal (the Ziggurat law) — hence not that the draw has covariance `Σ` in distribution.
-/
set_option linter.unusedSectionVars false
set_option linter.unusedSimpArgs false
set_option linter.unusedVariables false

namespace Cv.C03Mvn
open Cv Cv.C03L Cv.C03 Cv.LA
open scoped Cv.C09 Cv.C03L

theorem mvn_new_spec (mean : List ℝ) (cov : Mat ℝ) (hwf : cov.WF) (d : MVN.Dist ℝ) (h : MVN.new mean cov = some d) :
    d.mean = mean ∧ cov.nrows = cov.ncols ∧ mean.length = cov.ncols ∧
    d.chol.nrows = cov.ncols ∧ d.chol.ncols = cov.ncols ∧ d.chol.WF ∧
    (∀ i j, j ≤ i → i < cov.ncols →
      ∑ k ∈ Finset.range cov.ncols, rd d.chol.data (i * cov.ncols + k) * rd d.chol.data (j * cov.ncols + k)
        = rd cov.data (i * cov.ncols + j)) ∧
    ((∀ i j, i < cov.ncols → j < cov.ncols → rd cov.data (i * cov.ncols + j) = rd cov.data (j * cov.ncols + i)) →
      ∀ i j, i < cov.ncols → j < cov.ncols →
        ∑ k ∈ Finset.range cov.ncols, rd d.chol.data (i * cov.ncols + k) * rd d.chol.data (j * cov.ncols + k)
          = rd cov.data (i * cov.ncols + j)) := by
  unfold MVN.new at h
  by_cases hsym : LA.M.isSymmetric cov = true
  · have hsq : cov.nrows = cov.ncols := by
      unfold LA.M.isSymmetric at hsym
      by_contra hne
      simp [hne] at hsym
    by_cases hlen : mean.length = cov.ncols
    · simp only [hsym, Bool.not_true, Bool.false_eq_true, if_false, hlen, ne_eq, not_true_eq_false] at h
      cases hc : LA.M.cholesky cov with
      | none => simp [hc] at h
      | some l =>
        cases hi : LA.M.inv cov with
        | none => simp [hc, hi] at h
        | some iv =>
          cases hd : LA.M.det cov with
          | none => simp [hc, hi, hd] at h
          | some dt =>
            simp [hc, hi, hd] at h
            subst h
            unfold LA.M.cholesky at hc
            split_ifs at hc with hpd
            cases hl : LA.cholesky cov.data with
            | none => simp [hl] at hc
            | some ld =>
              simp only [hl, LA.M.new] at hc
              simp at hc
              obtain ⟨hdim, hc⟩ := hc
              subst hc
              have ha : cov.data.length = cov.ncols * cov.ncols := by
                have := hwf; unfold Mat.WF at this; rw [hsq] at this; exact this
              have hs : ∀ x : ℝ, Transc.sqrt x = Real.sqrt x := fun _ => rfl
              have hsqx := C01Solve.real_sqrtExactOn hs cov.ncols cov.data ld
                fun r hr => ((C01Solve.cholesky_cells cov.data ld cov.ncols ha hl).1 r hr).1
              obtain ⟨h1, _, _, h4, h5⟩ :=
                C01Solve.cholesky_correct (C01Solve.real_sqrt_pos hs) cov.data ld cov.ncols ha hl hsqx
              refine ⟨rfl, hsq, hlen, hsq, rfl, ?_, h4, h5⟩
              show ld.length = cov.nrows * cov.ncols
              rw [hsq]; exact h1
    · simp [hsym, hlen] at h
  · simp [hsym] at h

set_option maxRecDepth 8000 in
/-- Non-vacuity of `mvn_new_spec`: over ℝ, `MVN.new` returns on the 1 × 1 covariance `[4]` with mean `[1]` (the factor is `[2]`;
the cached inverse and determinant are computed as well). -/
theorem mvn_new_witness : ∃ d, MVN.new [1] (⟨[4], 1, 1⟩ : Mat ℝ) = some d := by
  have hs : Real.sqrt 4 = 2 := by
    rw [show (4 : ℝ) = 2 ^ 2 by norm_num]; exact Real.sqrt_sq (by norm_num)
  have hc : LA.M.cholesky (⟨[4], 1, 1⟩ : Mat ℝ) = some ⟨[2], 1, 1⟩ := by
    simp [LA.M.cholesky, LA.M.isPositiveDefinite, LA.M.isSymmetric, LA.cholesky, LA.tryCholesky, LA.isSymmetric, LA.isSquare,
      LA.cholLoops, LA.cholRow, LA.cholCell, LA.M.new, LA.rd, LA.eps, LA.isNan, dot8, dot8Go, Transc.sqrt, Transc.abs, hs,
      List.range, List.range.loop, List.foldlM]
    norm_num
  have hi : ∃ m, LA.M.inv (⟨[4], 1, 1⟩ : Mat ℝ) = some m := by
    simp [LA.M.inv, LA.M.solveM, LA.M.lu, LA.M.luStep, LA.M.luColumn, LA.M.luSolveM, LA.M.solveColsM, LA.M.colsM, LA.M.luSolveV,
      LA.M.getCol, LA.M.eye, LA.M.new, LA.M.t, LA.luDot, LA.luPivot, LA.swapRows, LA.luScale, LA.luFwd, LA.luBwd, LA.luPermute,
      LA.swapIdx, LA.rd, LA.isSquare, LA.isMatrix, LA.transpose, LA.M.g, dot8, dot8Go, Transc.abs,
      List.range, List.range.loop, List.foldlM]
  have hd : ∃ x, LA.M.det (⟨[4], 1, 1⟩ : Mat ℝ) = some x := by
    simp [LA.M.det, LA.M.lu, LA.M.luStep, LA.M.luColumn, LA.M.diag, LA.M.prod, LA.M.parityScalar, ipivParity, parityLoop, parityWhile,
      LA.luDot, LA.luPivot, LA.swapRows, LA.luScale, LA.swapIdx, LA.rd, LA.isSquare, LA.isMatrix, LA.M.g, dot8, dot8Go, Transc.abs,
      List.range, List.range.loop, List.foldlM]
  obtain ⟨m, hi⟩ := hi
  obtain ⟨x, hd⟩ := hd
  refine ⟨⟨[1], ⟨[2], 1, 1⟩⟩, ?_⟩
  have hsym : LA.M.isSymmetric (⟨[4], 1, 1⟩ : Mat ℝ) = true := by
    simp [LA.M.isSymmetric, LA.rd, LA.eps, Transc.abs, List.range, List.range.loop, List.range']
  simp [MVN.new, hsym, hc, hi, hd]


/-- … and `mvn_new_spec` applies to it: the stored factor squares back to the covariance. -/
example : ∃ d, MVN.new [1] (⟨[4], 1, 1⟩ : Mat ℝ) = some d ∧ d.chol.WF ∧ d.chol.nrows = 1 := by
  obtain ⟨d, hd⟩ := mvn_new_witness
  obtain ⟨_, _, _, h4, _, h6, _⟩ := mvn_new_spec [1] ⟨[4], 1, 1⟩ (by simp [Mat.WF]) d hd
  exact ⟨d, hd, h6, h4⟩

end Cv.C03Mvn
