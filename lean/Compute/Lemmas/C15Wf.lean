import Compute.Model.Shape
import Compute.Model.Constructors
import Compute.Lemmas.Mat
/-
C15 helper lemmas, part 1 (core Lean only): the shape logic of `reshape_mut` / `Matrix::new` and
well-formedness of the result of every structural operation.
-/
namespace Cv.Shape
open Cv Cv.Mat
variable {α : Type}

/-- A target shape request `(nr, nc)` that is possible for `size` elements (NumPy convention: at
most one dimension may be `-1`, the other must then be positive and divide the size). -/
def Possible (size : Nat) (nr nc : Int) : Prop :=
  (0 ≤ nr ∧ 0 ≤ nc ∧ nr * nc = (size : Int)) ∨
  (nr = -1 ∧ 0 < nc ∧ size % nc.toNat = 0) ∨
  (nc = -1 ∧ 0 < nr ∧ size % nr.toNat = 0)

instance (size : Nat) (nr nc : Int) : Decidable (Possible size nr nc) := by unfold Possible; infer_instance

theorem toNat_mul_toNat {a b : Int} {n : Nat} (ha : 0 ≤ a) (hb : 0 ≤ b) (h : a * b = (n : Int)) :
    a.toNat * b.toNat = n := by
  have e1 : (a.toNat : Int) = a := Int.toNat_of_nonneg ha
  have e2 : (b.toNat : Int) = b := Int.toNat_of_nonneg hb
  have : ((a.toNat * b.toNat : Nat) : Int) = (n : Int) := by
    rw [Int.natCast_mul, e1, e2]; exact h
  exact Int.ofNat.inj this

theorem reshapeDims_some {size : Nat} {nr nc : Int} {r c : Nat}
    (h : reshapeDims size nr nc = some (r, c)) :
    r * c = size ∧ (0 ≤ nr → (r : Int) = nr) ∧ (0 ≤ nc → (c : Int) = nc) := by
  unfold reshapeDims at h
  split at h
  · rename_i h1
    split at h
    · rename_i h2
      simp only [Option.some.injEq, Prod.mk.injEq] at h
      obtain ⟨rfl, rfl⟩ := h
      exact ⟨toNat_mul_toNat h1.1 h1.2 h2, fun _ => Int.toNat_of_nonneg h1.1, fun _ => Int.toNat_of_nonneg h1.2⟩
    · simp at h
  · split at h
    · rename_i h1 h2
      split at h
      · rename_i h3
        split at h
        · rename_i h4
          simp only [Option.some.injEq, Prod.mk.injEq] at h
          obtain ⟨rfl, rfl⟩ := h
          refine ⟨Nat.div_mul_cancel (Nat.dvd_of_mod_eq_zero h4), fun h0 => by omega, fun _ => Int.toNat_of_nonneg (by omega)⟩
        · simp at h
      · simp at h
    · split at h
      · rename_i h3
        split at h
        · rename_i h4
          simp only [Option.some.injEq, Prod.mk.injEq] at h
          obtain ⟨rfl, rfl⟩ := h
          refine ⟨?_, fun _ => Int.toNat_of_nonneg (by omega), fun h0 => by omega⟩
          rw [Nat.mul_comm]; exact Nat.div_mul_cancel (Nat.dvd_of_mod_eq_zero h4)
        · simp at h
      · simp at h

/-- `reshape_mut` returns a value exactly for the possible shape requests. -/
theorem reshapeDims_isSome_iff (size : Nat) (nr nc : Int) :
    (reshapeDims size nr nc).isSome ↔ Possible size nr nc := by
  unfold reshapeDims Possible
  by_cases h1 : 0 ≤ nr ∧ 0 ≤ nc
  · simp only [h1, and_self, if_true]
    by_cases h2 : nr * nc = (size : Int)
    · simp [h2]
    · simp only [h2, if_false, Option.isSome_none, Bool.false_eq_true, false_iff]
      rintro (⟨_, _, c⟩ | ⟨a, _, _⟩ | ⟨a, _, _⟩)
      · exact c.elim
      · omega
      · omega
  · simp only [h1, if_false]
    by_cases h3 : nr < 0
    · simp only [h3, if_true]
      by_cases h4 : nr = -1 ∧ 0 < nc
      · simp only [h4, and_self, if_true]
        by_cases h5 : size % nc.toNat = 0
        · simp [h5]
        · simp only [h5, if_false, Option.isSome_none, Bool.false_eq_true, false_iff]
          rintro (⟨a, _, _⟩ | ⟨_, _, c⟩ | ⟨a, _, _⟩)
          · omega
          · exact c.elim
          · omega
      · simp only [h4, if_false, Option.isSome_none, Bool.false_eq_true, false_iff]
        rintro (⟨a, _, _⟩ | ⟨a, b, _⟩ | ⟨a, b, _⟩)
        · omega
        · exact h4 ⟨a, b⟩
        · omega
    · simp only [h3, if_false]
      by_cases h4 : nc = -1 ∧ 0 < nr
      · simp only [h4, and_self, if_true]
        by_cases h5 : size % nr.toNat = 0
        · simp [h5]
        · simp only [h5, if_false, Option.isSome_none, Bool.false_eq_true, false_iff]
          rintro (⟨_, a, _⟩ | ⟨a, _, _⟩ | ⟨_, _, c⟩)
          · omega
          · omega
          · exact c.elim
      · simp only [h4, if_false, Option.isSome_none, Bool.false_eq_true, false_iff]
        rintro (⟨a, b, _⟩ | ⟨a, b, _⟩ | ⟨a, b, _⟩)
        · exact h1 ⟨a, b⟩
        · omega
        · exact h4 ⟨a, b⟩

theorem reshapeMut_some {m m' : Mat α} {nr nc : Int} (h : reshapeMut m nr nc = some m') :
    m'.data = m.data ∧ m'.nrows * m'.ncols = m.nrows * m.ncols ∧
    (0 ≤ nr → (m'.nrows : Int) = nr) ∧ (0 ≤ nc → (m'.ncols : Int) = nc) := by
  unfold reshapeMut at h
  cases hd : reshapeDims (m.nrows * m.ncols) nr nc with
  | none => simp [hd] at h
  | some p =>
    obtain ⟨r, c⟩ := p
    simp only [hd, Option.map_some, Option.some.injEq] at h
    subst h
    have := reshapeDims_some hd
    exact ⟨rfl, this.1, this.2.1, this.2.2⟩

theorem reshapeMut_wf {m m' : Mat α} {nr nc : Int} (hm : m.WF) (h : reshapeMut m nr nc = some m') : m'.WF := by
  have := reshapeMut_some h
  unfold WF at *
  rw [this.1, this.2.1, hm]

theorem mnew_some {d : List α} {nr nc : Int} {m : Mat α} (h : mnew d nr nc = some m) :
    m.data = d ∧ m.WF ∧ (0 ≤ nr → (m.nrows : Int) = nr) ∧ (0 ≤ nc → (m.ncols : Int) = nc) := by
  unfold mnew at h
  have hwf : (Mat.mk d 1 d.length).WF := by simp [WF]
  have := reshapeMut_some h
  exact ⟨this.1, reshapeMut_wf hwf h, this.2.2.1, this.2.2.2⟩

theorem mnew_isSome_iff (d : List α) (nr nc : Int) : (mnew d nr nc).isSome ↔ Possible d.length nr nc := by
  unfold mnew reshapeMut
  simp only [Option.isSome_map, Nat.one_mul]
  exact reshapeDims_isSome_iff _ _ _

theorem reshapeDims_natCast (size r c : Nat) :
    reshapeDims size (r : Int) (c : Int) = if r * c = size then some (r, c) else none := by
  unfold reshapeDims
  have h1 : (0 : Int) ≤ (r : Int) ∧ (0 : Int) ≤ (c : Int) := ⟨Int.natCast_nonneg r, Int.natCast_nonneg c⟩
  simp only [h1, and_self, if_true, Int.toNat_natCast]
  by_cases h : r * c = size
  · have : (r : Int) * (c : Int) = (size : Int) := by rw [← Int.natCast_mul, h]
    simp [h, this]
  · have : ¬ (r : Int) * (c : Int) = (size : Int) := by
      intro h'; apply h; rw [← Int.natCast_mul] at h'; exact Int.ofNat.inj h'
    simp [h, this]

/-- `Matrix::new(data, r as i32, c as i32)` succeeds exactly when `r·c = data.len()`. -/
theorem mnewN_eq (d : List α) (r c : Nat) :
    mnewN d r c = if r * c = d.length then some ⟨d, r, c⟩ else none := by
  unfold mnewN mnew reshapeMut
  rw [Nat.one_mul, reshapeDims_natCast]
  by_cases h : r * c = d.length <;> simp [h]

theorem mnewN_some {d : List α} {r c : Nat} {m : Mat α} (h : mnewN d r c = some m) :
    m = ⟨d, r, c⟩ ∧ r * c = d.length := by
  rw [mnewN_eq] at h
  by_cases hh : r * c = d.length
  · simp only [hh, if_true, Option.some.injEq] at h; exact ⟨h.symm, hh⟩
  · simp [hh] at h

theorem mnewN_wf {d : List α} {r c : Nat} {m : Mat α} (h : mnewN d r c = some m) : m.WF := by
  obtain ⟨rfl, h2⟩ := mnewN_some h
  exact h2.symm

/-- On a well-formed matrix `reshape` and `reshape_mut` decide alike and give the same result. -/
theorem reshape_eq_reshapeMut {m : Mat α} (hm : m.WF) (nr nc : Int) : reshape m nr nc = reshapeMut m nr nc := by
  unfold WF at hm
  unfold reshape reshapeMut mnew reshapeMut
  simp only [Nat.one_mul]
  rw [hm]
  generalize m.nrows * m.ncols = size
  by_cases h1 : 0 ≤ nr ∧ 0 ≤ nc
  · simp only [h1, and_self, if_true]
    by_cases h2 : nr * nc = (size : Int)
    · simp [h2]
    · simp [h2, reshapeDims, h1]
  · simp only [h1, if_false]
    by_cases h3 : nr < 0
    · simp only [h3, if_true]
      by_cases h4 : nr = -1 ∧ 0 < nc
      · simp only [h4, and_self, if_true]
        obtain ⟨rfl, h4⟩ := h4
        -- inferred rows: size / nc as an `i32` division; accepted by `new` iff it multiplies back to size
        obtain ⟨k, rfl⟩ := Int.eq_ofNat_of_zero_le (Int.le_of_lt h4)
        have hk : 0 < k := by omega
        have hdiv : ((size : Int) / (k : Int)) = ((size / k : Nat) : Int) := by
          rw [Int.natCast_ediv]
        rw [hdiv, reshapeDims_natCast]
        have hneg : ¬ ((0 : Int) ≤ -1 ∧ (0 : Int) ≤ (k : Int)) := by omega
        simp only [reshapeDims, hneg, if_false, Int.toNat_natCast, show ((-1 : Int) < 0) from by omega, if_true,
          true_and, show (0 : Int) < (k : Int) from h4]
        by_cases h5 : size % k = 0
        · have : size / k * k = size := Nat.div_mul_cancel (Nat.dvd_of_mod_eq_zero h5)
          simp [h5, this]
        · have : ¬ size / k * k = size := by
            intro h; apply h5; rw [← h]; exact Nat.mul_mod_left _ _
          simp [h5, this]
      · simp [h4, reshapeDims, h1, h3]
    · simp only [h3, if_false]
      by_cases h4 : nc = -1 ∧ 0 < nr
      · simp only [h4, and_self, if_true]
        obtain ⟨rfl, h4⟩ := h4
        obtain ⟨k, rfl⟩ := Int.eq_ofNat_of_zero_le (Int.le_of_lt h4)
        have hk : 0 < k := by omega
        have hdiv : ((size : Int) / (k : Int)) = ((size / k : Nat) : Int) := by
          rw [Int.natCast_ediv]
        rw [hdiv, reshapeDims_natCast]
        have hneg : ¬ ((0 : Int) ≤ (k : Int) ∧ (0 : Int) ≤ -1) := by omega
        have hn3 : ¬ ((k : Int) < 0) := by omega
        simp only [reshapeDims, hneg, if_false, Int.toNat_natCast, hn3, true_and, show (0 : Int) < (k : Int) from h4, if_true]
        by_cases h5 : size % k = 0
        · have : k * (size / k) = size := Nat.mul_div_cancel' (Nat.dvd_of_mod_eq_zero h5)
          simp [h5, this]
        · have : ¬ k * (size / k) = size := by
            intro h; apply h5; rw [← h]; exact Nat.mul_mod_right _ _
          simp [h5, this]
      · simp [h4, reshapeDims, h1, h3]

end Cv.Shape
