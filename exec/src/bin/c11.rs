//! C11 executor: same request handler as C01 (factorisations, triangular solves, determinant).
include!("c01.rs");
