import Compute.Props.C11Lu
import Compute.Props.RoundingLU
/-
C01 (review round) — the `Matrix` entry points are TOTAL and correct on non-singular input, and the
LU backward-error theorem holds for them as well.

* `matrix_solveV_total`, `matrix_solve_total`, `matrix_inv_total`: over an ordered field, for a
  well-formed square non-singular `m`, `Solve<Vector>::solve`, `Solve<Matrix>::solve` (at least one
  right-hand-side column) and `Matrix::inv` (order ≥ 1) return a value and that value satisfies
  `A·x = b` / `A·X = B` / `A·X = I`.
* the panic branches: `matrix_solveV_none`, `matrix_solveM_no_columns`, `matrix_inv_order_zero`.
* `matrix_solveV_routes_slice`, `matrix_solveV_backward_error`: in the standard model of rounded
  arithmetic `Matrix::solve` is `lu` + `lu_solve` on the data, hence `(A+ΔA)x̂ = b`, `|ΔA| ≤ γ_{3n}|L̂||Û|`.
-/
set_option linter.unusedSectionVars false
namespace Cv.C01Review
open Cv Cv.LA Cv.LA.Lu Cv.C11Lu Finset

section generic
variable {α : Type} [Add α] [Sub α] [Mul α] [Div α] [Neg α] [Zero α] [One α] [NatCast α]
  [LT α] [DecidableLT α] [LE α] [DecidableLE α] [BEq α] [Transc α]

/-- `Matrix::lu` of a well-formed square matrix never panics and is the slice factorisation of the data -/
theorem matrix_lu_some (m : Mat α) (hw : m.WF) (hsq : m.nrows = m.ncols) :
    ∃ fd piv, LA.lu m.data = some (fd, piv) ∧ M.lu m = some (⟨fd, m.nrows, m.ncols⟩, piv) := by
  have hml : m.data.length = m.ncols * m.ncols := by rw [hw, hsq]
  cases hl : LA.lu m.data with
  | none => exact absurd hml.symm ((C11.lu_none_iff m.data).mp hl m.ncols)
  | some fp => exact ⟨fp.1, fp.2, rfl, by rw [C11.matrix_lu_eq_slice m hw hsq, hl]; rfl⟩

/-- `Solve<Vector>::solve` is `lu` followed by `lu_solve` on the data (no routing) -/
theorem matrix_solveV_routes_slice (m : Mat α) (b : List α) (hw : m.WF) (hsq : m.nrows = m.ncols)
    (fd : List α) (piv : List Nat) (hlu : LA.lu m.data = some (fd, piv)) (hfl : fd.length = m.ncols * m.ncols) :
    M.solveV m b = LA.luSolve fd piv b := by
  have h2 : M.lu m = some (⟨fd, m.nrows, m.ncols⟩, piv) := by
    rw [C11.matrix_lu_eq_slice m hw hsq, hlu]; rfl
  simp only [M.solveV, h2, Option.bind_eq_bind, Option.bind_some]
  exact C11.matrix_luSolve_eq_slice ⟨fd, m.nrows, m.ncols⟩ piv b (by simp [Mat.WF, hfl, hsq]) hsq

/-- wrong right-hand-side length: `assert_eq!(self.nrows, system.len())` fires -/
theorem matrix_solveV_none (m : Mat α) (b : List α) (hw : m.WF) (hsq : m.nrows = m.ncols)
    (hb : b.length ≠ m.ncols) : M.solveV m b = none := by
  obtain ⟨fd, piv, hlu, h2⟩ := matrix_lu_some m hw hsq
  simp only [M.solveV, h2, Option.bind_eq_bind, Option.bind_some, M.luSolveV]
  have : m.ncols ≠ b.length := fun h => hb h.symm
  simp [hsq, this]

/-- non-square receiver: `assert!(self.is_square())` fires in `lu` -/
theorem matrix_solveV_nonsquare (m : Mat α) (b : List α) (hsq : m.nrows ≠ m.ncols) : M.solveV m b = none := by
  simp [M.solveV, C11.matrix_lu_nonsquare m hsq]

/-- a right-hand side with no columns makes `Solve<Matrix>::solve` panic (the final `.t()` divides by
the row count `0` of the solution buffer) -/
theorem matrix_solveM_no_columns (m s : Mat α) (hs : s.ncols = 0) : M.solveM m s = none := by
  unfold M.solveM
  cases M.lu m with
  | none => rfl
  | some fp =>
    simp only [Option.bind_eq_bind, Option.bind_some, M.luSolveM, M.solveColsM, hs, M.colsM]
    simp [M.new, M.t, LA.transpose, isMatrix]

/-- consequently `Matrix::inv` of the `0 × 0` matrix panics -/
theorem matrix_inv_order_zero (m : Mat α) (h0 : m.nrows = 0) (hsq : m.nrows = m.ncols) : M.inv m = none := by
  simp only [M.inv, hsq, ne_eq, not_true_eq_false, if_false]
  exact matrix_solveM_no_columns m _ (by simp [M.eye, ← hsq, h0])

end generic

section ordered
variable {F : Type} [Field F] [LinearOrder F] [IsStrictOrderedRing F] [Transc F] [BEq F] [LawfulBEq F]

/-- non-singularity of the flat `n × n` array: only the zero vector is mapped to zero -/
def Nonsingular (n : Nat) (a : List F) : Prop :=
  ∀ v : Nat → F, (∀ i, i < n → ∑ j ∈ range n, rd a (i * n + j) * v j = 0) → ∀ j, j < n → v j = 0

/-- **`Solve<Vector>::solve` is total and correct on non-singular input.** -/
theorem matrix_solveV_total (habs : ∀ x : F, Transc.abs x = |x|) (m : Mat F) (b : List F) (hw : m.WF)
    (hsq : m.nrows = m.ncols) (hb : b.length = m.ncols) (hns : Nonsingular m.ncols m.data) :
    ∃ x, M.solveV m b = some x ∧ x.length = m.ncols ∧
      ∀ i, i < m.ncols → ∑ j ∈ range m.ncols, M.g m i j * rd x j = rd b i := by
  obtain ⟨fd, piv, hlu, h2⟩ := matrix_lu_some m hw hsq
  have hml : m.data.length = m.ncols * m.ncols := by rw [hw, hsq]
  obtain ⟨n', hn', hinv⟩ := lu_inv m.data fd piv hlu
  have e : n' = m.ncols := Nat.mul_self_inj.mp (by rw [hn', hml])
  subst e
  obtain ⟨x, hx⟩ := luSolve_some m.data b fd piv hlu (by rw [hml, hb])
  have hsv : M.solveV m b = some x := by
    rw [matrix_solveV_routes_slice m b hw hsq fd piv hlu hinv.hlen]; exact hx
  have hd := lu_pivots_ne_zero_of_nonsingular habs m.ncols m.data fd piv hml hlu hns
  obtain ⟨-, h3, h4⟩ := matrix_solveV_correct m ⟨fd, m.nrows, m.ncols⟩ b x piv hw hsq h2
    (fun k hk => by simpa [M.g] using hd k hk) hsv
  exact ⟨x, hsv, h3, h4⟩

/-- every column goes through the solver: the column loop of `Solve<Matrix>` returns a buffer of the
right size when the solver is total on vectors of the right length -/
theorem colsM_some (solver : List F → Option (List F)) (s : Mat F) (n : Nat) (hsn : s.nrows = n)
    (htot : ∀ b : List F, b.length = n → ∃ x, solver b = some x ∧ x.length = n) :
    ∀ k, k ≤ s.ncols → ∃ acc, M.colsM solver s k = some acc ∧ acc.length = k * n := by
  intro k
  induction k with
  | zero => intro _; exact ⟨[], rfl, by simp⟩
  | succ k ih =>
    intro hk
    obtain ⟨acc, hacc, hal⟩ := ih (by omega)
    have hcol : M.getCol s k = some ((List.range s.nrows).map fun i => M.g s i k) := by
      simp [M.getCol, show k < s.ncols by omega]
    obtain ⟨x, hx, hxl⟩ := htot ((List.range s.nrows).map fun i => M.g s i k) (by simp [hsn])
    refine ⟨acc ++ x, ?_, by simp [hal, hxl, Nat.add_mul]⟩
    simp only [M.colsM, hacc, hcol, hx, Option.bind_eq_bind, Option.bind_some, Option.pure_def]

/-- **`Solve<Matrix>::solve` is total and correct on non-singular input** (right-hand side with at least
one column and as many rows as the matrix). -/
theorem matrix_solve_total (habs : ∀ x : F, Transc.abs x = |x|) (m s : Mat F) (hw : m.WF)
    (hsq : m.nrows = m.ncols) (hsr : s.nrows = m.ncols) (hsc : 0 < s.ncols)
    (hns : Nonsingular m.ncols m.data) :
    ∃ X, M.solveM m s = some X ∧ X.nrows = m.ncols ∧ X.ncols = s.ncols ∧ X.WF ∧
      ∀ c, c < s.ncols → ∀ i, i < m.ncols →
        ∑ j ∈ range m.ncols, M.g m i j * M.g X j c = M.g s i c := by
  obtain ⟨fd, piv, hlu, h2⟩ := matrix_lu_some m hw hsq
  have hml : m.data.length = m.ncols * m.ncols := by rw [hw, hsq]
  obtain ⟨n', hn', hinv⟩ := lu_inv m.data fd piv hlu
  have e : n' = m.ncols := Nat.mul_self_inj.mp (by rw [hn', hml])
  subst e
  have hd := lu_pivots_ne_zero_of_nonsingular habs m.ncols m.data fd piv hml hlu hns
  -- the per-column solver is total
  have htot : ∀ b : List F, b.length = m.ncols →
      ∃ x, M.luSolveV ⟨fd, m.nrows, m.ncols⟩ piv b = some x ∧ x.length = m.ncols := by
    intro b hb
    obtain ⟨x, hx⟩ := luSolve_some m.data b fd piv hlu (by rw [hml, hb])
    refine ⟨x, ?_, ?_⟩
    · rw [C11.matrix_luSolve_eq_slice ⟨fd, m.nrows, m.ncols⟩ piv b (by simp [Mat.WF, hinv.hlen, hsq]) hsq]
      exact hx
    · rw [luSolve_length fd b x piv hx (by rw [hinv.hpl, hb]), hb]
  obtain ⟨sols, hsols, hsl⟩ := colsM_some _ s m.ncols hsr htot s.ncols (Nat.le_refl _)
  -- `Matrix::new(solutions, ncols, nrows).t()` succeeds
  have hsome : ∃ X, M.solveM m s = some X := by
    have hnew : M.new sols s.ncols s.nrows = some ⟨sols, s.ncols, s.nrows⟩ := by
      simp [M.new, hsl, hsr]
    have hmat : isMatrix sols.length s.ncols = some s.nrows :=
      isMatrix_eq_some_iff.mpr ⟨by omega, by rw [hsl, hsr]⟩
    have htr : ∃ d, LA.transpose sols s.ncols = some d ∧ d.length = sols.length := by
      simp only [LA.transpose, hmat, Option.bind_eq_bind, Option.bind_some, Option.pure_def]
      exact ⟨_, rfl, by simp⟩
    obtain ⟨d, hd1, hd2⟩ := htr
    refine ⟨⟨d, s.nrows, s.ncols⟩, ?_⟩
    simp only [M.solveM, h2, Option.bind_eq_bind, Option.bind_some, M.luSolveM, M.solveColsM, hsols, hnew,
      M.t, hd1]
    simp [M.new, hd2, hsl, hsr, Nat.mul_comm]
  obtain ⟨X, hX⟩ := hsome
  obtain ⟨-, h3, h4, h5, h6⟩ := matrix_solve_correct m s X ⟨fd, m.nrows, m.ncols⟩ piv hw hsq h2
    (fun k hk => by simpa [M.g] using hd k hk) hX
  exact ⟨X, hX, h3, h4, h5, h6⟩

/-- **`Matrix::inv` is total and correct on non-singular input of order ≥ 1**: `A·X = I`. -/
theorem matrix_inv_total (habs : ∀ x : F, Transc.abs x = |x|) (m : Mat F) (hw : m.WF)
    (hsq : m.nrows = m.ncols) (hpos : 0 < m.ncols) (hns : Nonsingular m.ncols m.data) :
    ∃ X, M.inv m = some X ∧ X.nrows = m.ncols ∧ X.ncols = m.ncols ∧ X.WF ∧
      ∀ i, i < m.ncols → ∀ c, c < m.ncols →
        ∑ j ∈ range m.ncols, M.g m i j * M.g X j c = if i = c then 1 else 0 := by
  obtain ⟨fd, piv, hlu, h2⟩ := matrix_lu_some m hw hsq
  have hml : m.data.length = m.ncols * m.ncols := by rw [hw, hsq]
  have hd := lu_pivots_ne_zero_of_nonsingular habs m.ncols m.data fd piv hml hlu hns
  obtain ⟨X, hX, -⟩ := matrix_solve_total habs m (M.eye m.nrows) hw hsq (by simp [M.eye, hsq])
    (by simp [M.eye, hsq, hpos]) hns
  have hinv : M.inv m = some X := by
    simp only [M.inv, hsq, ne_eq, not_true_eq_false, if_false]; rw [← hsq]; exact hX
  obtain ⟨h3, h4, h5, h6⟩ := matrix_inv_correct m X ⟨fd, m.nrows, m.ncols⟩ piv hw hsq h2
    (fun k hk => by simpa [M.g] using hd k hk) hinv
  exact ⟨X, hinv, h3, h4, h5, h6⟩

end ordered

/-! ### the rounded model: `Matrix::solve` inherits the LU backward-error theorem -/
section rounded
open Cv.FlModel Cv.RoundingLU Cv.FactorRounding
variable {Mo : FlModel} [FlSqrt Mo]

/-- **Backward error of `Solve<Vector>::solve` in the standard model.**  Hypotheses, all of them needed:
`3n·u < 1`, no *computed* pivot is zero (with a zero computed pivot the model divides by zero silently
where the code produces `inf`/`NaN`), and — through `FlModel` — every operation obeys
`fl(x) = x(1+δ)`, `|δ| ≤ u`, i.e. no overflow or underflow. -/
theorem matrix_solveV_backward_error (m : Mat (Fl Mo)) (b x : List (Fl Mo)) (hw : m.WF)
    (hsq : m.nrows = m.ncols) (h : M.solveV m b = some x)
    (hu : ((3 * m.ncols : Nat) : ℝ) * Mo.u < 1) :
    ∃ f piv, LA.lu m.data = some (f, piv) ∧ ((∀ k, k < m.ncols → ev m.ncols f k k ≠ 0) →
      x.length = m.ncols ∧ piv.Perm (List.range m.ncols) ∧ ∃ ΔA : Nat → Nat → ℝ,
        (∀ i c, i < m.ncols → c < m.ncols →
          |ΔA i c| ≤ Mo.γ (3 * m.ncols) * ∑ j ∈ range m.ncols, |Lv m.ncols f i j| * |Uv m.ncols f j c|) ∧
        ∀ i, i < m.ncols → ∑ c ∈ range m.ncols,
          (ev m.ncols m.data (piv.getD i 0) c + ΔA i c) * (rd x c).val = (rd b (piv.getD i 0)).val) := by
  obtain ⟨fd, piv, hlu, h2⟩ := matrix_lu_some m hw hsq
  have hml : m.data.length = m.ncols * m.ncols := by rw [hw, hsq]
  refine ⟨fd, piv, hlu, fun hd => ?_⟩
  have hu1 : ((m.ncols : Nat) : ℝ) * Mo.u < 1 :=
    lt_of_le_of_lt (mul_le_mul_of_nonneg_right (Nat.cast_le.mpr (by omega)) Mo.u_nonneg) hu
  obtain ⟨hfl, -, -⟩ := lu_backward_error m.data fd piv m.ncols hml hlu hd hu1
  rw [matrix_solveV_routes_slice m b hw hsq fd piv hlu hfl] at h
  have hbl : b.length = m.ncols := by
    unfold luSolve at h
    by_cases hfl' : fd.length = b.length * b.length
    · exact (Nat.mul_self_inj.mp (by rw [← hfl', hfl])).symm
    · simp [hfl'] at h
  exact luRoute_backward_error m.data fd b x piv m.ncols hml hbl hlu hd h hu

end rounded

/-! ### non-vacuity: every hypothesis instantiated on a matrix that needs a row swap -/
section examples
open Cv.C01

theorem ex_nonsingular : Nonsingular 2 ([0, 2, 1, 1] : List ℚ) := by
  intro v h j hj
  have h0 := h 0 (by omega)
  have h1 := h 1 (by omega)
  simp only [Finset.sum_range_succ, Finset.sum_range_zero, rd] at h0 h1
  norm_num at h0 h1
  have hv1 : v 1 = 0 := by linarith
  have hv0 : v 0 = 0 := by linarith
  have hj' : j = 0 ∨ j = 1 := by omega
  rcases hj' with rfl | rfl <;> assumption

example : ∃ x, M.solveV (⟨[0, 2, 1, 1], 2, 2⟩ : Mat ℚ) [2, 3] = some x ∧ x.length = 2 ∧
    ∀ i, i < 2 → ∑ j ∈ range 2, M.g (⟨[0, 2, 1, 1], 2, 2⟩ : Mat ℚ) i j * rd x j = rd [2, 3] i :=
  matrix_solveV_total abs_rat ⟨[0, 2, 1, 1], 2, 2⟩ [2, 3] (by decide) rfl rfl ex_nonsingular

example : ∃ X, M.inv (⟨[0, 2, 1, 1], 2, 2⟩ : Mat ℚ) = some X ∧ X.WF := by
  obtain ⟨X, h, -, -, hw, -⟩ := matrix_inv_total abs_rat ⟨[0, 2, 1, 1], 2, 2⟩ (by decide) rfl (by decide) ex_nonsingular
  exact ⟨X, h, hw⟩

example : ∃ X, M.solveM (⟨[0, 2, 1, 1], 2, 2⟩ : Mat ℚ) ⟨[2, 4, 6, 3, 5, 7], 2, 3⟩ = some X ∧ X.ncols = 3 := by
  obtain ⟨X, h, -, hc, -⟩ := matrix_solve_total abs_rat ⟨[0, 2, 1, 1], 2, 2⟩ ⟨[2, 4, 6, 3, 5, 7], 2, 3⟩
    (by decide) rfl rfl (by decide) ex_nonsingular
  exact ⟨X, h, hc⟩

example : M.solveV (⟨[0, 2, 1, 1], 2, 2⟩ : Mat ℚ) [2, 3] = some [2, 1] := by decide +kernel
example : M.inv (⟨[0, 2, 1, 1], 2, 2⟩ : Mat ℚ) = some ⟨[-1/2, 1, 1/2, 0], 2, 2⟩ := by decide +kernel
example : M.solveV (⟨[0, 2, 1, 1], 2, 2⟩ : Mat ℚ) [2, 3, 4] = none :=
  matrix_solveV_none _ _ (by decide) rfl (by decide)
example : M.inv (⟨[], 0, 0⟩ : Mat ℚ) = none := matrix_inv_order_zero _ rfl rfl

/-- `matrix_solveV_backward_error` instantiated in the model where every operation is 1 % off:
all hypotheses (`3n·u < 1`, non-zero computed pivots, a returned solution) hold for `[[1,2],[3,4]]`. -/
example : ∃ x f piv, M.solveV (⟨RoundingLU.Examples.A3, 2, 2⟩ : Mat (Fl RoundingLU.Examples.Minf)) [⟨1⟩, ⟨1⟩] = some x ∧
    LA.lu RoundingLU.Examples.A3 = some (f, piv) ∧ x.length = 2 ∧ piv.Perm (List.range 2) := by
  open RoundingLU.Examples in
  obtain ⟨x, hx⟩ := A3_solve
  have hs : LA.luSolve F3 [1, 0] [⟨1⟩, ⟨1⟩] = some x := by
    have h := hx
    simp only [solve, A3_route, solveWith, A3_lu, Option.bind_eq_bind, Option.bind_some] at h
    simpa using h
  have hm : M.solveV (⟨A3, 2, 2⟩ : Mat (Fl Minf)) [⟨1⟩, ⟨1⟩] = some x := by
    rw [matrix_solveV_routes_slice ⟨A3, 2, 2⟩ _ rfl rfl F3 [1, 0] A3_lu rfl]; exact hs
  obtain ⟨f, piv, hlu, hb⟩ := matrix_solveV_backward_error ⟨A3, 2, 2⟩ [⟨1⟩, ⟨1⟩] x rfl rfl hm
    (by rw [Minf_u]; norm_num)
  have e : (f, piv) = (F3, [1, 0]) := by
    have := hlu.symm.trans A3_lu; exact Option.some.inj this
  obtain ⟨h1, h2, -⟩ := hb (by rw [(Prod.mk.inj e).1]; exact F3_pivots)
  exact ⟨x, f, piv, hm, hlu, h1, h2⟩

end examples
end Cv.C01Review
