import Compute.Model.Timeseries
import Compute.Generated.SrcC13Loops
import Compute.Lemmas.SrcLoops
/-
Source tie for C13, iterator chains (`src/timeseries/functions.rs`: `acovf`, `acf`, `difference`).

`Compute/Generated/SrcC13Loops.lean` is regenerated from the Rust source on every run (`tools/rs2lean.py`, option
`loops`): the three functions are transcribed whole, index maps over ranges included.  Each is proved equal to the
hand model of `Compute/Model/Timeseries.lean` for every scalar type (so at `Float`); no algebra on the scalar.

Where the model is not syntactically the source:
* `(|k|..n).map(|i| (ts[i] - m) * (ts[i - |k|] - m))` is modelled as `zipWith` over `ts.drop |k|` and `ts`
  (`SrcLoops.map_range'_lag`: same terms, same order; both empty when `|k| ≥ n`);
* `(0..n).map(|i| (ts[i] - m).powi(2))` is modelled as `ts.map` (`SrcLoops.map_range_idx`);
* `difference`: `(0..v.len() - 1).map(|i| v[i + 1] - v[i])` is modelled as `zipWith (fun a b => b - a) v v.tail`
  (`SrcLoops.map_range_succ_pairs`); the `usize` underflow guard `1 ≤ v.len()` of the translator is the model's
  `v.isEmpty` test.
-/
set_option linter.unusedSectionVars false
namespace Cv.SrcTie.C13Loops

variable {α : Type} [Add α] [Sub α] [Mul α] [Div α] [Neg α] [Zero α] [One α] [NatCast α] [IntCast α]
  [LT α] [DecidableLT α] [LE α] [DecidableLE α] [BEq α] [Cv.Transc α] [Inhabited α]

open Cv.SrcLoops

/-- The lagged products as the source writes them (index map over `|k|..n`) are the model's `lagProducts`. -/
theorem lagProducts_src (ts : List α) (m : α) (k : Nat) :
    List.map (fun (i : Nat) => (ts[i]! - m) * (ts[i - k]! - m)) (List.range' k (ts.length - k))
      = Cv.TS.lagProducts ts m k :=
  map_range'_lag (fun a b => (a - m) * (b - m)) ts k

/-- `acovf`: `1. / n as f64 * (|k|..n).map(|i| (ts[i] - mean) * (ts[i - |k|] - mean)).sum::<f64>()`. -/
theorem acovf_eq (ts : List α) (k : Int) : Cv.Src.C13Loops.acovf ts k = Cv.TS.acovf ts k := by
  unfold Cv.Src.C13Loops.acovf Cv.TS.acovf
  simp only [lagProducts_src]

/-- `acf`: numerator as in `acovf`, denominator `(0..n).map(|i| (ts[i] - mean).powi(2)).sum::<f64>() / n as f64`. -/
theorem acf_eq (ts : List α) (k : Int) : Cv.Src.C13Loops.acf ts k = Cv.TS.acf ts k := by
  unfold Cv.Src.C13Loops.acf Cv.TS.acf
  simp only [lagProducts_src]
  rw [map_range_idx (fun x => Cv.powi (x - Cv.TS.mean ts) 2) ts]

/-- `difference`: `(0..v.len() - 1).map(|i| v[i + 1] - v[i]).collect()`; empty input underflows (panics). -/
theorem difference_eq (v : List α) : Cv.Src.C13Loops.difference v = Cv.TS.difference v := by
  unfold Cv.Src.C13Loops.difference Cv.TS.difference
  rw [map_range_succ_pairs (fun a b => b - a) v]
  cases v with
  | nil => rfl
  | cons a r =>
    have h : 1 ≤ (a :: r).length := by simp
    rw [if_pos h]
    rfl

end Cv.SrcTie.C13Loops
