import Compute.Drv.Common
import Compute.Model.Scalar
import Compute.Model.Timeseries
/-
Driver for C13 (model of src/timeseries/{functions,autoregressive}.rs at `Float`).  Requests (the
regime tag of the executor's protocol is dropped by `model_line`):
  acovf <k> <vec ts> | acf <k> <vec ts>            -> `= <float>`
  acs <kmax> <vec ts>                               -> `= <vec acovf(-kmax..kmax)> <vec acf(-kmax..kmax)>`
  diff <vec v> | toeplitz <vec x>                   -> `= <vec>`
  ar_fit <p> <vec data>                             -> `= <intercept> <vec coeffs>`
  ar_pred1 <intercept> <vec coeffs> <vec hist>      -> `= <float>`
  ar_pred <intercept> <vec coeffs> <h> <vec hist>   -> `= <vec>`
  ar_fp <p> <h> <vec data>                          -> `= <intercept> <vec coeffs> <pred1> <vec preds>`
  ar_refit <p> <h> <k> <vec s1> … <vec sk>          -> k blocks `<intercept> <vec coeffs> <vec preds>`: one object
        fitted k times.  `AR::fit` overwrites `intercept` and `coeffs` and reads only `self.p`, so every fit is
        a fresh fit of order `p` in the model.
-/
open Cv Cv.TS

def c13Refit (p h : Nat) : List (List Float) → Option (List String)
  | [] => some []
  | s :: rest =>
    match arFit p s with
    | none => none
    | some (ic, c) =>
      match predict c ic s h with
      | none => none
      | some r =>
        match c13Refit p h rest with
        | none => none
        | some out => some (showFloat ic :: showVec c :: showVec r :: out)

def c13Lags (kmax : Nat) : List Int := (List.range (2 * kmax + 1)).map fun (i : Nat) => (i : Int) - (kmax : Int)

def c13Step (args : List String) : String :=
  match args with
  | "acovf" :: rest =>
    withArgs (do let k ← pInt; let ts ← pVec; pure (k, ts)) rest fun (k, ts) => ok (showFloat (acovf ts k))
  | "acf" :: rest =>
    withArgs (do let k ← pInt; let ts ← pVec; pure (k, ts)) rest fun (k, ts) => ok (showFloat (acf ts k))
  | "acs" :: rest =>
    withArgs (do let k ← pNat; let ts ← pVec; pure (k, ts)) rest fun (k, ts) =>
      ok (showVec ((c13Lags k).map (acovf ts)) ++ " " ++ showVec ((c13Lags k).map (acf ts)))
  | "diff" :: rest =>
    withArgs pVec rest fun v =>
      match difference v with
      | some d => ok (showVec d)
      | none => panicked
  | "toeplitz" :: rest =>
    withArgs pVec rest fun x => ok (showVec (toeplitz x))
  | "ar_fit" :: rest =>
    withArgs (do let p ← pNat; let d ← pVec; pure (p, d)) rest fun (p, d) =>
      match arFit p d with
      | some (ic, c) => ok (showFloat ic ++ " " ++ showVec c)
      | none => panicked
  | "ar_pred1" :: rest =>
    withArgs (do let ic ← pFloat; let c ← pVec; let h ← pVec; pure (ic, c, h)) rest fun (ic, c, h) =>
      ok (showFloat (predictOne c ic h))
  | "ar_pred" :: rest =>
    withArgs (do let ic ← pFloat; let c ← pVec; let n ← pNat; let h ← pVec; pure (ic, c, n, h)) rest
      fun (ic, c, n, h) =>
      match predict c ic h n with
      | some r => ok (showVec r)
      | none => panicked
  | "ar_fp" :: rest =>
    withArgs (do let p ← pNat; let n ← pNat; let d ← pVec; pure (p, n, d)) rest fun (p, n, d) =>
      match arFit p d with
      | none => panicked
      | some (ic, c) =>
        match predict c ic d n with
        | none => panicked
        | some r => ok (showFloat ic ++ " " ++ showVec c ++ " " ++ showFloat (predictOne c ic d) ++ " " ++ showVec r)
  | "ar_refit" :: rest =>
    withArgs (do let p ← pNat; let h ← pNat; let k ← pNat; let ss ← pMany pVec k; pure (p, h, ss)) rest
      fun (p, h, ss) =>
      if p = 0 then panicked
      else match c13Refit p h ss with
        | none => panicked
        | some out => ok (" ".intercalate out)
  | _ => badOp

def main (args : List String) : IO UInt32 := mainWith () (fun _ t => ((), c13Step t)) args
