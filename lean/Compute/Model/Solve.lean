import Compute.Model.Decomp
/-
The slice-level solvers of src/linalg/utils.rs (default features, i.e. without `lapack`):
`is_positive_definite`, `row_to_col_major`, `col_to_row_major`, `diag_matrix`, `solve`, `solve_sys`,
`invert_matrix` (Cholesky route only for exactly symmetric input (F37), with LU fallback (F01)) and `ipiv_parity` (repaired F03).
`none` = panic.  Core Lean only.

API for other models:  `Cv.solve a b`, `Cv.solveSys a b`, `Cv.invertMatrix a : Option (List α)`
(row-major `List α`), generic over the scalar classes listed in the `variable` line below.
-/
namespace Cv.LA

variable {α : Type} [Add α] [Sub α] [Mul α] [Div α] [Zero α] [One α] [NatCast α]
  [LT α] [DecidableLT α] [LE α] [DecidableLE α] [BEq α] [Transc α]

/-- `is_positive_definite`: symmetric (ε-test) and every diagonal entry not `<= 0` — the routing
predicate of `solve`/`solve_sys`. -/
def isPositiveDefinite (m : List α) : Option Bool := do
  let sym ← isSymmetric m
  if !sym then pure false
  else
    let n ← isSquare m.length
    pure ((List.range n).all fun i => !(decide (rd m (i * n + i) ≤ 0)))

/-- `row_to_col_major(a, nrows)`: `x[j*nrows+i] = a[i*ncols+j]` (every cell written once). -/
def rowToColMajor (a : List α) (nrows : Nat) : Option (List α) := do
  let ncols ← isMatrix a.length nrows
  pure ((List.range a.length).map fun k => rd a ((k % nrows) * ncols + k / nrows))

/-- `col_to_row_major(a, nrows)`: `x[i*ncols+j] = a[j*nrows+i]`. -/
def colToRowMajor (a : List α) (nrows : Nat) : Option (List α) := do
  let ncols ← isMatrix a.length nrows
  pure ((List.range a.length).map fun k => rd a ((k % ncols) * nrows + k / ncols))

/-- `diag_matrix(&vec![1.; n])`: the identity of order `n`. -/
def identity (n : Nat) : List α :=
  (List.range (n * n)).map fun k => if k / n = k % n then 1 else 0

/-- `is_exactly_symmetric` (F37): strict `!=` comparison of `m_ij` and `m_ji`, `j > i`, early `false`. -/
def isExactlySymmetric (m : List α) : Option Bool := do
  let n ← isSquare m.length
  pure ((List.range n).all fun i => (List.range' (i + 1) (n - (i + 1))).all fun j =>
    !(rd m (i * n + j) != rd m (j * n + i)))

/-- `is_positive_definite(a) && is_exactly_symmetric(a)` (short-circuit `&&`). -/
def routePredicate (a : List α) : Option Bool := do
  let pd ← isPositiveDefinite a
  if pd then isExactlySymmetric a else pure false

/-- The factorisation chosen by the routing predicate: `some l` = Cholesky factor, `none` = LU route
(predicate false, or `try_cholesky` returned `None`). -/
def route (a : List α) : Option (Option (List α)) := do
  let ok ← routePredicate a
  if ok then tryCholesky a else pure none

/-- the single right-hand-side solve once the route is fixed -/
def solveWith (a : List α) (l? : Option (List α)) (b : List α) : Option (List α) :=
  match l? with
  | some l => choleskySolve l b
  | none => do
    let (f, piv) ← lu a
    luSolve f piv b

/-- `solve(a, b)`. -/
def solve (a b : List α) : Option (List α) :=
  let n := b.length
  if a.length ≠ n * n then none
  else do
    let l? ← route a
    solveWith a l? b

/-- the per-column loop of `solve_sys` (`assert_eq!(sol.len(), n)` included) -/
def solveCols (n : Nat) (solver : List α → Option (List α)) (bc : List α) : Nat → Option (List α)
  | 0 => some []
  | k + 1 => do
    let acc ← solveCols n solver bc k
    let sol ← solver ((bc.drop (k * n)).take n)
    if sol.length ≠ n then none else pure (acc ++ sol)

/-- `solve_sys(a, b)`: all columns through the same route. -/
def solveSys (a b : List α) : Option (List α) := do
  let n ← isSquare a.length
  let nsys ← isMatrix b.length n
  let bc ← rowToColMajor b n
  let l? ← route a
  let sols ←
    match l? with
    | some l => solveCols n (choleskySolve l) bc nsys
    | none => do
      let (f, piv) ← lu a
      solveCols n (luSolve f piv) bc nsys
  colToRowMajor sols n

/-- `invert_matrix(m)` = `solve_sys(m, I)`. -/
def invertMatrix (m : List α) : Option (List α) := do
  let n ← isSquare m.length
  solveSys m (identity n)

/-! ### `ipiv_parity` -/

inductive Res (β : Type) where
  | ok (b : β)
  | panic
  | diverged
deriving Repr, DecidableEq

/-- `while perm[i] != i { j = perm[i] as usize; assert!(perm[j] != perm[i]); perm.swap(i,j); par += 1 }`.
A negative entry casts to a huge `usize` (index out of range → panic). -/
def parityWhile (i : Nat) : Nat → List Int → Nat → Res (List Int × Nat)
  | 0, _, _ => .diverged
  | fuel + 1, perm, par =>
    match perm[i]? with
    | none => .panic
    | some pi =>
      if pi = (i : Int) then .ok (perm, par)
      else if pi < 0 then .panic
      else
        match perm[pi.toNat]? with
        | none => .panic
        | some pj =>
          if pj = pi then .panic
          else parityWhile i fuel (swapIdx perm i pi.toNat) (par + 1)

def parityLoop (fuel : Nat) : List Nat → List Int → Nat → Res (List Int × Nat)
  | [], perm, par => .ok (perm, par)
  | i :: is, perm, par =>
    match parityWhile i fuel perm par with
    | .ok (perm', par') => parityLoop fuel is perm' par'
    | .panic => .panic
    | .diverged => .diverged

/-- `ipiv_parity(ipiv)` = `(-1)^par`; every swap fixes one more position, so `len + 1` iterations of
the inner loop always suffice (theorem `parity_never_diverges` in Props/C11). -/
def ipivParity (ipiv : List Int) : Res Int :=
  match parityLoop (ipiv.length + 1) (List.range ipiv.length) ipiv 0 with
  | .ok (_, par) => .ok (if par % 2 = 0 then 1 else -1)
  | .panic => .panic
  | .diverged => .diverged

end Cv.LA

namespace Cv
export LA (solve solveSys invertMatrix)
end Cv
