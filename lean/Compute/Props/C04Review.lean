import Compute.Props.C04
import Compute.Props.C12
/-
C04 — additions after the independent review (review-a.md, C04 B3, B5, C):

* B3: the `powi` corollaries restated over the two facts that IEEE-754 multiplication does satisfy (`1 * a = a`, commutativity)
  instead of a `CommMonoid` instance (which `f64` is not: `*` is not associative), and the map corollaries with their hypotheses
  discharged from those two facts;
* B5: `Matrix op Matrix` (non-assign) on non-broadcastable shapes panics (`= none`), through the C12 rejection theorem;
* C: instantiations of the real-arithmetic reduction theorems (all hypotheses, non-trivial inputs);
* B6 / F55: `logsumexp` of the empty slice is `f64::NEG_INFINITY` (`logsumexpE`, the model of the repaired function).
-/
namespace Cv.C04
open Cv Cv.Vops Cv.VecOps Cv.C04W
variable {α : Type}

/-! ### B3 — `powi` at a type with only `1 * a = a` and commutativity (IEEE `*`) -/

theorem powi_two_of [Mul α] [Div α] [One α] (one_mul' : ∀ a : α, 1 * a = a) (a : α) : powi a 2 = a * a := by
  simp [powi, powiNat, powiNat.go, one_mul']

theorem powi_three_of [Mul α] [Div α] [One α] (one_mul' : ∀ a : α, 1 * a = a)
    (comm : ∀ a b : α, a * b = b * a) (a : α) : powi a 3 = a * a * a := by
  simp [powi, powiNat, powiNat.go, one_mul']
  exact comm _ _

/-- `vpowi` is the plain map of the scalar `powi` at every length and for every exponent as soon as `1 * a = a` and
`a * b = b * a` — both hold for IEEE-754 binary64 multiplication (including NaN up to payload, which the tie does not
compare), associativity is NOT used.  This is the statement that applies to `f64`. -/
theorem vpowi_eq_map_powi_of [Mul α] [Div α] [One α] (one_mul' : ∀ a : α, 1 * a = a)
    (comm : ∀ a b : α, a * b = b * a) (n : Int) (x : List α) :
    vunArgI (· * ·) powi n x = x.map (powi · n) :=
  vunArgI_eq_map _ _ n x (powi_two_of one_mul') (powi_three_of one_mul' comm)

/-- `Vector::powi` through the wiring table, hypotheses discharged: for an interpretation whose `*` token and `powi`
method are the type's own, the method is `map (powi · n)`. -/
theorem vecMapI_eq_map_powi_of [Mul α] [Div α] [One α] (I : Interp α) (hmul : I.op .mul = (· * ·))
    (hpowi : I.ufnI .powi = fun a n => powi a n) (one_mul' : ∀ a : α, 1 * a = a) (comm : ∀ a b : α, a * b = b * a)
    (x : List α) (n : Int) : vecMapI I .powi x n = some (x.map (powi · n)) := by
  rw [vecMapI_eq_map I x n (by intro a; rw [hmul, hpowi]; exact powi_two_of one_mul' a)
    (by intro a; rw [hmul, hpowi]; exact powi_three_of one_mul' comm a), hpowi]

theorem matMapI_eq_map_powi_of [Mul α] [Div α] [One α] (I : Interp α) (hmul : I.op .mul = (· * ·))
    (hpowi : I.ufnI .powi = fun a n => powi a n) (one_mul' : ∀ a : α, 1 * a = a) (comm : ∀ a b : α, a * b = b * a)
    (a : Mat α) (wf : a.WF) (n : Int) :
    matMapI I .powi a n = some ⟨a.data.map (powi · n), a.nrows, a.ncols⟩ := by
  rw [matMapI_eq_map I a wf n (by intro a; rw [hmul, hpowi]; exact powi_two_of one_mul' a)
    (by intro a; rw [hmul, hpowi]; exact powi_three_of one_mul' comm a), hpowi]

-- non-vacuity: the natural numbers instantiate both hypotheses (the statement never mentions associativity)
example : vunArgI (· * ·) powi 3 [1, 2, 3, 4, 5, 6, 7, 8, 9, 10] = [1, 8, 27, 64, 125, 216, 343, 512, 729, 1000] := by
  rw [vpowi_eq_map_powi_of Nat.one_mul Nat.mul_comm]; decide

/-! ### B5 — `Matrix op Matrix` on shapes that do not broadcast panics -/

/-- For every non-assigning `impl ops::…<Matrix-ish> for Matrix-ish` row: operands whose shapes are not
NumPy-compatible (in particular different shapes with all dimensions ≥ 2) give a panic.  Equal shapes are
`matrix_forms_exact`; compatible unequal shapes are property C12. -/
theorem matrix_op_mismatch [Inhabited α] (op : Tok → α → α → α) (r : OpRow) (hr : r ∈ matOpRows)
    (a b : Mat α) (hA : isAssign r.trait = false) (hs : tyKind r.self = .mat) (ho : tyKind r.other = .mat)
    (ga : C12.Good a) (gb : C12.Good b) (hne : ¬ C12.Compat a.nrows a.ncols b.nrows b.ncols) :
    evalRow op r (.mat a) (.mat b) = none := by
  have hw := matOpRows_wellWired r hr
  obtain ⟨trait, sty, oty, callee, a1, a2, sf, sa⟩ := r
  simp only [wellWired, Bool.and_eq_true, beq_iff_eq] at hw
  obtain ⟨⟨h1, h2⟩, hw⟩ := hw
  subst h1 h2
  simp only at hs ho hA
  rw [hs, ho, hA] at hw
  cases callee with
  | kern k => simp [bcastIs] at hw
  | bcast bf =>
    have hsh : ¬ (a.nrows = b.nrows ∧ a.ncols = b.ncols) := by
      intro h; exact hne ⟨Or.inl h.1, Or.inl h.2⟩
    simp only [evalRow, pick, bcastOp, hsh, if_false]
    rw [C12.broadcast_rejects _ a b ga gb hne]
    rfl

example : ∃ r ∈ matOpRows, r.trait = .sub ∧
    evalRow (fun _ => Nat.sub) r (.mat ⟨[1, 2, 3, 4, 5, 6], 2, 3⟩) (.mat ⟨[1, 2, 3, 4, 5, 6], 3, 2⟩) = none :=
  ⟨⟨.sub, .matrixRef, .matrix, .bcast .broadcast_sub, .self, .other, .none, false⟩, by decide, rfl,
    matrix_op_mismatch _ _ (by decide) _ _ rfl rfl rfl ⟨by decide, by decide, by decide⟩ ⟨by decide, by decide, by decide⟩
      (by decide)⟩

/-! ### C — instantiations of the real-arithmetic theorems (artificial NaN test on ℝ: `v = -1`) -/

noncomputable section
private def nanT : ℝ → Bool := fun v => decide (v = -1)

example : logsumexpL nanT (-1) [0, 0] = Real.log 2 := by
  rw [logsumexpL_real nanT (-1) [0, 0] (by simp)]; norm_num

example : logmeanexpL nanT (-1) [3, 3] = 3 := by
  rw [logmeanexpL_real nanT (-1) [3, 3] (by simp)]
  have : (([3, 3] : List ℝ).map Real.exp).sum / (([3, 3] : List ℝ).length : ℝ) = Real.exp 3 := by
    simp
  rw [this, Real.log_exp]

example : maxL nanT (-1) [2, 7, 5] = 7 := by
  obtain ⟨hm, hg⟩ := maxL_isGreatest nanT (-1) [2, 7, 5] (by simp [nanT])
    (by intro v hv; simp at hv; rcases hv with rfl | rfl | rfl <;> simp [nanT] <;> norm_num) (by simp)
  have h7 := hg 7 (by simp)
  simp at hm
  rcases hm with h | h | h <;> rw [h] at h7 ⊢ <;> first | done | (norm_num at h7)

example : 1 ≤ shiftedExpSum (maxL nanT (-1) [1000, 999]) [1000, 999] ∧
    shiftedExpSum (maxL nanT (-1) [1000, 999]) [1000, 999] ≤ 2 := by
  obtain ⟨_, h1, h2⟩ := shifted_bounds nanT (-1) [1000, 999] (by simp [nanT])
    (by intro v hv; simp at hv; rcases hv with rfl | rfl <;> simp [nanT] <;> norm_num) (by simp)
  exact ⟨h1, by simpa using h2⟩
end

/-! ### B6 / F55 — `logsumexp` of the empty slice is `f64::NEG_INFINITY` (repaired in /repo be4665b) -/

/-- the empty-slice guard: `logsumexp(&[]) = f64::NEG_INFINITY` (the definition: `ln` of the empty sum, `ln 0 = −∞`) -/
theorem logsumexpE_nil [Add α] [Sub α] [Zero α] [LT α] [DecidableLT α] [Transc α]
    (isNaN : α → Bool) (nan ninf : α) : logsumexpE isNaN nan ninf [] = ninf := rfl

/-- on every non-empty slice the function is the shifted formula the other theorems are about -/
theorem logsumexpE_of_ne [Add α] [Sub α] [Zero α] [LT α] [DecidableLT α] [Transc α]
    (isNaN : α → Bool) (nan ninf : α) (x : List α) (hne : x ≠ []) :
    logsumexpE isNaN nan ninf x = logsumexpL isNaN nan x := by
  cases x with
  | nil => exact absurd rfl hne
  | cons a l => rfl

/-- `logsumexp` as the code computes it now, over ℝ, for every non-empty input: `ln Σ exp xᵢ` (whatever stands for
`f64::NEG_INFINITY`); the empty case is `logsumexpE_nil`. -/
theorem logsumexpE_real (isNaN : ℝ → Bool) (nan ninf : ℝ) (x : List ℝ) (hne : x ≠ []) :
    logsumexpE isNaN nan ninf x = Real.log ((x.map Real.exp).sum) := by
  rw [logsumexpE_of_ne isNaN nan ninf x hne, logsumexpL_real isNaN nan x hne]

-- at `Float`: the reply to `red logsumexp … v 0` is the bit pattern fff0000000000000
example : logsumexpE Float.isNaN (0.0 / 0.0) (Float.ofBits 0xFFF0000000000000) [] = Float.ofBits 0xFFF0000000000000 := rfl
noncomputable example : logsumexpE (fun v : ℝ => decide (v = -1)) (-1) (-2) [0, 0] = Real.log 2 := by
  rw [logsumexpE_real _ _ _ _ (by simp)]; norm_num

end Cv.C04
