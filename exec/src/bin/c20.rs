//! C20 executor: covariance kernels of `compute::predict::gps::kernels` through the public `Kernel` trait.
//! Requests:
//!   rbf_p form var ls n x1 y1 … xn yn              -> = k1 … kn      (scalar forward on each pair)
//!   rq_p  form var alpha ls n x1 y1 … xn yn        -> = k1 … kn
//!   rbf_m kind var ls rx cx <rx*cx> ry cy <ry*cy>  -> = nrows ncols <data> <scalar forward at (x_i, y_j), row-major>
//!   rq_m  kind var alpha ls rx cx <..> ry cy <..>  -> = nrows ncols <data> <scalar forward at (x_i, y_j), row-major>
//! (the scalar values use the f64 impl for even kinds and the &f64 impl for odd kinds)
//!   rbf_g kind var ls r c <r*c> idx val            -> the reply of `rbf_m` on the MUTATED point set (x = y), after a first
//!   rq_g  kind var alpha ls r c <r*c> idx val         call on the original set: the same Vector / Matrix object is
//!                                                      evaluated, mutated in place at flat index idx, evaluated again
//! form ∈ {0: f64, 1: &f64}; kind ∈ {0: Vector, 1: &Vector, 2: Matrix, 3: &Matrix}.
use compute::prelude::{Kernel, Matrix, RBFKernel, RQKernel, Vector};
use cvexec::*;

fn pairs(t: &mut Toks) -> R<Vec<(f64, f64)>> {
    let n = t.usize()?;
    let mut v = Vec::with_capacity(n);
    for _ in 0..n {
        let x = t.f64()?;
        let y = t.f64()?;
        v.push((x, y));
    }
    Ok(v)
}

fn pts(t: &mut Toks, kind: usize) -> R<(usize, usize, Vec<f64>)> {
    let r = t.usize()?;
    let c = t.usize()?;
    let d = t.f64s(r * c)?;
    if kind < 2 && r != 1 {
        return Err(BadOp);
    }
    Ok((r, c, d))
}

macro_rules! scalar_forms {
    ($k:expr, $form:expr, $ps:expr) => {{
        let mut out = Vec::with_capacity($ps.len());
        for &(x, y) in $ps.iter() {
            let v: f64 = match $form {
                0 => $k.forward(x, y),
                1 => $k.forward(&x, &y),
                _ => return Err(BadOp),
            };
            out.push(v);
        }
        out
    }};
}

macro_rules! matrix_forms {
    ($k:expr, $kind:expr, $x:expr, $y:expr) => {{
        let (rx, cx, dx) = $x;
        let (ry, cy, dy) = $y;
        let (px, py) = (dx.clone(), dy.clone());
        let m: Matrix = match $kind {
            0 => $k.forward(Vector::from(dx), Vector::from(dy)),
            1 => {
                let (a, b) = (Vector::from(dx), Vector::from(dy));
                $k.forward(&a, &b)
            }
            2 => $k.forward(Matrix::new(dx, rx as i32, cx as i32), Matrix::new(dy, ry as i32, cy as i32)),
            3 => {
                let (a, b) = (Matrix::new(dx, rx as i32, cx as i32), Matrix::new(dy, ry as i32, cy as i32));
                $k.forward(&a, &b)
            }
            _ => return Err(BadOp),
        };
        let mut all: Vec<f64> = m.data.to_vec();
        for &a in px.iter() {
            for &b in py.iter() {
                let v: f64 = if $kind % 2 == 0 { $k.forward(a, b) } else { $k.forward(&a, &b) };
                all.push(v);
            }
        }
        let mut s = format!("{} {}", m.nrows, m.ncols);
        if !all.is_empty() {
            s.push(' ');
            s.push_str(&show_fs(&all));
        }
        Ok(ok(s))
    }};
}

/// Evaluate on a point set, mutate the same object in place, evaluate again; reply = second result.
macro_rules! mutate_forms {
    ($k:expr, $kind:expr, $p:expr, $idx:expr, $val:expr) => {{
        let (r, c, d) = $p;
        if $idx >= d.len() {
            return Err(BadOp);
        }
        let m: Matrix = match $kind {
            0 => {
                let mut v = Vector::from(d.clone());
                let _first: Matrix = $k.forward(v.clone(), v.clone());
                v[$idx] = $val;
                $k.forward(v.clone(), v.clone())
            }
            1 => {
                let mut v = Vector::from(d.clone());
                let _first: Matrix = $k.forward(&v, &v);
                v[$idx] = $val;
                $k.forward(&v, &v)
            }
            2 => {
                let mut a = Matrix::new(d.clone(), r as i32, c as i32);
                let _first: Matrix = $k.forward(a.clone(), a.clone());
                a.data[$idx] = $val;
                $k.forward(a.clone(), a.clone())
            }
            3 => {
                let mut a = Matrix::new(d.clone(), r as i32, c as i32);
                let _first: Matrix = $k.forward(&a, &a);
                a.data[$idx] = $val;
                $k.forward(&a, &a)
            }
            _ => return Err(BadOp),
        };
        let mut pts = d.clone();
        pts[$idx] = $val;
        let mut all: Vec<f64> = m.data.to_vec();
        for &a in pts.iter() {
            for &b in pts.iter() {
                let v: f64 = if $kind % 2 == 0 { $k.forward(a, b) } else { $k.forward(&a, &b) };
                all.push(v);
            }
        }
        let mut s = format!("{} {}", m.nrows, m.ncols);
        if !all.is_empty() {
            s.push(' ');
            s.push_str(&show_fs(&all));
        }
        Ok(ok(s))
    }};
}

fn step(_: &mut (), t: &mut Toks) -> R<String> {
    match t.tok()? {
        "rbf_p" => {
            let form = t.usize()?;
            let (var, ls) = (t.f64()?, t.f64()?);
            let ps = pairs(t)?;
            t.end()?;
            let k = RBFKernel::new(var, ls);
            let out = scalar_forms!(k, form, ps);
            Ok(ok(show_fs(&out)))
        }
        "rq_p" => {
            let form = t.usize()?;
            let (var, alpha, ls) = (t.f64()?, t.f64()?, t.f64()?);
            let ps = pairs(t)?;
            t.end()?;
            let k = RQKernel::new(var, alpha, ls);
            let out = scalar_forms!(k, form, ps);
            Ok(ok(show_fs(&out)))
        }
        "rbf_m" => {
            let kind = t.usize()?;
            let (var, ls) = (t.f64()?, t.f64()?);
            let x = pts(t, kind)?;
            let y = pts(t, kind)?;
            t.end()?;
            let k = RBFKernel::new(var, ls);
            matrix_forms!(k, kind, x, y)
        }
        "rq_m" => {
            let kind = t.usize()?;
            let (var, alpha, ls) = (t.f64()?, t.f64()?, t.f64()?);
            let x = pts(t, kind)?;
            let y = pts(t, kind)?;
            t.end()?;
            let k = RQKernel::new(var, alpha, ls);
            matrix_forms!(k, kind, x, y)
        }
        "rbf_g" => {
            let kind = t.usize()?;
            let (var, ls) = (t.f64()?, t.f64()?);
            let p = pts(t, kind)?;
            let (idx, val) = (t.usize()?, t.f64()?);
            t.end()?;
            let k = RBFKernel::new(var, ls);
            mutate_forms!(k, kind, p, idx, val)
        }
        "rq_g" => {
            let kind = t.usize()?;
            let (var, alpha, ls) = (t.f64()?, t.f64()?, t.f64()?);
            let p = pts(t, kind)?;
            let (idx, val) = (t.usize()?, t.f64()?);
            t.end()?;
            let k = RQKernel::new(var, alpha, ls);
            mutate_forms!(k, kind, p, idx, val)
        }
        _ => Err(BadOp),
    }
}

fn main() {
    run((), step);
}
