import Compute.Model.Solve
import Compute.Generated.SrcC01Mut
import Compute.Props.SrcTieC15Mut
/-
Source tie for C01, fourth pass: the solver entry points `solve`, `solve_sys`, `invert_matrix` of `src/linalg/utils.rs` as
WHOLE functions (`Compute/Generated/SrcC01Mut.lean`, regenerated from the Rust source on every run by `tools/rs2lean.py`,
option `mut`; the `#[cfg(feature = "lapack")]` blocks are not compiled in with the crate's default features).  The functions
they call (`lu`, `lu_solve`, `try_cholesky`, `cholesky_solve`, the substitutions) are tied in SrcTieC11Mut, `row_to_col_major`,
`col_to_row_major`, `diag_matrix` in SrcTieC15Mut; here they are spelled with the model functions of Model/Decomp.lean /
Solve.lean.

Where the hand model (`Model/Solve.lean`) is not syntactically the source:
* the routing code (`is_positive_definite(a) && is_exactly_symmetric(a)` with short circuit, then `try_cholesky(a)` or `None`)
  is the model's `route` / `routePredicate` (`route_src`, by case analysis on the `Option Bool` results);
* `if let Some(l) = l { .. } else { .. }` is the model's `solveWith` (`solve`) resp. its `match` (`solve_sys`);
* the per-column loops of `solve_sys` (solver call, `assert_eq!(sol.len(), n)`, `extend_from_slice`; a `foldlM` in the panic
  `Option` on the generated side) are the model's structural recursion `solveCols` (`cols_src`, induction on the column count;
  the slice length `(i+1)*n - i*n` is `n`);
* `diag_matrix(&vec![1.; n])` is the model's `identity n` (`identity_src`, from `diag_scatter`).
No algebra on the scalar is used.
-/
set_option linter.unusedSectionVars false
namespace Cv.SrcTie.C01Mut

variable {α : Type} [Add α] [Sub α] [Mul α] [Div α] [Neg α] [Zero α] [One α] [NatCast α] [IntCast α]
  [LT α] [DecidableLT α] [LE α] [DecidableLE α] [BEq α] [Cv.Transc α] [Inhabited α]

open Cv.LA

/-- The routing code of `solve` / `solve_sys` (`is_positive_definite(a) && is_exactly_symmetric(a)` with short circuit, then
`try_cholesky(a)` or `None`), followed by any continuation, is the model's `route`. -/
theorem route_src {β : Type} (a : List α) (K : Option (List α) → Option β) :
    ((isPositiveDefinite a).bind fun (r1 : Bool) =>
      (if r1 = true then (isExactlySymmetric a).bind fun (r2 : Bool) => some (decide (r2 = true)) else some false).bind
        fun (r3 : Bool) =>
          (if r3 = true then (tryCholesky a).bind fun (r4 : Option (List α)) => some r4 else some none).bind K)
      = (route a).bind K := by
  unfold route routePredicate
  cases isPositiveDefinite a with
  | none => rfl
  | some pd =>
    cases pd with
    | false => rfl
    | true =>
      simp only [Option.bind_some, Option.bind_eq_bind, if_true]
      cases isExactlySymmetric a with
      | none => rfl
      | some es =>
        cases es with
        | false => rfl
        | true =>
          simp only [Option.bind_some, decide_true, if_true, Option.bind_fun_some]

/-- `if let Some(l) = l { cholesky_solve(&l, b) } else { let (lu, piv) = lu(a); lu_solve(&lu, &piv, b) }`. -/
theorem solveWith_src (a : List α) (l : Option (List α)) (b : List α) :
    (match l with
      | some l => (choleskySolve l b).bind fun r => some r
      | none => (Cv.LA.lu a).bind fun (r7 : List α × List Nat) => (luSolve r7.1 r7.2 b).bind fun r => some r)
      = solveWith a l b := by
  unfold solveWith
  cases l with
  | some l => simp only [Option.bind_fun_some]
  | none =>
    simp only [Option.bind_fun_some]
    cases Cv.LA.lu a with
    | none => rfl
    | some p => rfl

/-- `solve(a, b)` as a whole function. -/
theorem solve_eq (a b : List α) : Cv.Src.C01Mut.solve a b = Cv.LA.solve a b := by
  unfold Cv.Src.C01Mut.solve Cv.LA.solve
  by_cases hl : a.length = b.length * b.length
  · rw [if_pos hl, if_neg (by simpa using hl)]
    rw [route_src a]
    congr 1
    funext l
    exact solveWith_src a l b
  · rw [if_neg hl, if_pos (by simpa using hl)]

theorem slice_len (i n : Nat) : (i + 1) * n - i * n = n := by
  rw [Nat.succ_mul, Nat.add_sub_cancel_left]

/-- The per-column loop of `solve_sys` (solver call, `assert_eq!(sol.len(), n)`, `extend_from_slice`) is the model's `solveCols`. -/
theorem cols_src (n : Nat) (solver : List α → Option (List α)) (bc : List α) (k : Nat) :
    List.foldlM (m := Option) (fun (solutions : List α) (i : Nat) =>
        (solver (List.take ((i + 1) * n - i * n) (List.drop (i * n) bc))).bind fun (sol : List α) =>
          if sol.length = n then some (solutions ++ sol) else none) ([] : List α) (List.range k)
      = solveCols n solver bc k := by
  induction k with
  | zero => rfl
  | succ k ih =>
    rw [List.range_succ, List.foldlM_append, ih]
    show _ = ((solveCols n solver bc k).bind fun acc =>
      (solver ((bc.drop (k * n)).take n)).bind fun sol => if sol.length ≠ n then none else pure (acc ++ sol))
    cases solveCols n solver bc k with
    | none => rfl
    | some acc =>
      simp only [Option.bind_eq_bind, Option.bind_some, List.foldlM_cons, List.foldlM_nil, slice_len]
      cases solver (List.take n (List.drop (k * n) bc)) with
      | none => rfl
      | some sol =>
        simp only [Option.bind_some]
        by_cases hs : sol.length = n
        · simp [hs]
        · simp [hs]

/-- `solve_sys(a, b)` as a whole function. -/
theorem solveSys_eq (a b : List α) : Cv.Src.C01Mut.solveSys a b = Cv.LA.solveSys a b := by
  unfold Cv.Src.C01Mut.solveSys Cv.LA.solveSys
  cases Cv.LA.isSquare a.length with
  | none => rfl
  | some n =>
    simp only [Option.bind_some, Option.bind_eq_bind]
    cases Cv.LA.isMatrix b.length n with
    | none => rfl
    | some nsys =>
      simp only [Option.bind_some]
      cases rowToColMajor b n with
      | none => rfl
      | some bc =>
        simp only [Option.bind_some]
        rw [route_src a]
        congr 1
        funext l
        simp only [Option.bind_fun_some]
        cases l with
        | some l =>
          simp only
          rw [cols_src n (choleskySolve l) bc nsys]
        | none =>
          simp only
          cases Cv.LA.lu a with
          | none => rfl
          | some p =>
            simp only [Option.bind_some]
            rw [cols_src n (luSolve p.1 p.2) bc nsys]

/-- `diag_matrix(&vec![1.; n])` is the model's identity of order `n`. -/
theorem identity_src (n : Nat) : Cv.Src.C15Mut.diagMatrix (List.replicate n (1 : α)) = identity n := by
  unfold Cv.Src.C15Mut.diagMatrix identity
  simp only [List.length_replicate]
  rw [Cv.SrcTie.C15Mut.diag_scatter (fun i => (List.replicate n (1 : α))[i]!) 0 n]
  apply List.map_congr_left
  intro k hk
  have hk' : k < n * n := List.mem_range.mp hk
  by_cases hd : k / n = k % n
  · have hlt : k / n < n := Nat.div_lt_of_lt_mul hk'
    rw [if_pos hd, if_pos hd, getElem!_pos _ _ (by simpa using hlt), List.getElem_replicate]
  · rw [if_neg hd, if_neg hd]

/-- `invert_matrix(m)` = `solve_sys(m, diag_matrix(&vec![1.; n]))`. -/
theorem invertMatrix_eq (m : List α) : Cv.Src.C01Mut.invertMatrix m = Cv.LA.invertMatrix m := by
  unfold Cv.Src.C01Mut.invertMatrix Cv.LA.invertMatrix
  cases Cv.LA.isSquare m.length with
  | none => rfl
  | some n =>
    simp only [Option.bind_some, Option.bind_eq_bind, Option.bind_fun_some, identity_src, solveSys_eq]

end Cv.SrcTie.C01Mut
