/-
The `Matrix` record of `src/linalg/array/matrix.rs` (public fields `data`, `nrows`, `ncols`;
row-major) as a plain structure over an arbitrary element type.  Shared by the models that need
matrices.  No Mathlib imports.
-/
namespace Cv

structure Mat (α : Type) where
  data : List α
  nrows : Nat
  ncols : Nat
deriving Repr, BEq, DecidableEq

namespace Mat
variable {α : Type}

/-- The data invariant of `Matrix`: the element count equals `nrows * ncols`. -/
def WF (m : Mat α) : Prop := m.data.length = m.nrows * m.ncols

instance (m : Mat α) : Decidable m.WF := by unfold WF; infer_instance

/-- `m[i][j]` / `m[[i,j]]` — row-major read. -/
def get [Inhabited α] (m : Mat α) (i j : Nat) : α := m.data[i * m.ncols + j]!

/-- Build an `r × c` matrix from an entry function (row-major fill, as the nested `for i, for j`
loops of the source do). -/
def build (r c : Nat) (f : Nat → Nat → α) : Mat α :=
  ⟨(List.range (r * c)).map (fun k => f (k / c) (k % c)), r, c⟩

def map (f : α → α) (m : Mat α) : Mat α := ⟨m.data.map f, m.nrows, m.ncols⟩

end Mat
end Cv
